package main

// Out-of-memory faults (quick and thorough).  The allocator asks the OS for memory at three places: a fresh
// shared page in Malloc, a private mapping for a large record, and a fresh page in the middle of a
// defragmentation pass (defrag.go: classMalloc -> newSharedPageLocal -> mmap), where the pass has already taken
// the free slots of every selected page off the free lists and marked the pages `evacuating`.  All other streams
// run with an OS that never refuses, so whatever the code does when mmap fails there was never executed.
// This stream makes the refusal happen: one child process per case builds a fragmented class (random class,
// 26..44 pages, three fragmentation shapes, 25..65 % of the slots kept live) so that a pass is due and has to
// move more records than the untouched pages can take, then keeps RLIMIT_AS just above the process's current
// address-space size from a chosen moment of the pass on (before it starts, or after the k-th relocation), so the
// next 1 MiB page is refused with ENOMEM, lifts the limit again after the pass and lets the history go on:
// Malloc/Free traffic in the class and its neighbours, frees until a second pass is due, that pass, everything freed.
//
// What is accepted: (a) the process stops at the fault (the unchanged code panics with "Failed to allocate
// during defrag" in the pass's goroutine: fail-stop, the damaged state is never used) or (b) it survives and the
// property holds from then on — evaluated on the real allocator, independently of the model: every live record
// keeps Len/Cap/Data and its fill pattern, no two live slot ranges overlap, Allocs = number live, the relocate
// callback is invoked only for live records, once per pass, the new location not live and holding the old
// contents, the pass's return value = number of callbacks, and slot by slot "live xor on a free list, used =
// live slots of the page, global list = union of the page lists" (checkClassAgainstLive) for every class touched.
// A death of the child at any OTHER stage (after the limit was lifted, or before the fault was armed) is a
// property failure with the case as replay.
//
// The case is deterministic (no goroutines of its own; only one class is above the trigger, so the pass runs one
// worker).  Whether the refusal really happens depends on the OS honouring RLIMIT_AS (Linux does); the evidence
// counts how many cases stopped at the fault and how many survived.
//
// Second family, "Malloc under memory pressure" (pressPlan, Press > 0): no pass; Malloc's own mappings are refused.
// The unfixed Malloc left Allocs = live + 1 after every nil (fixed in /repo de3a7c01); key malloc-nil-allocs.

import (
	"bytes"
	"encoding/json"
	"fmt"
	"os"
	"os/exec"
	"runtime"
	"runtime/debug"
	"sort"
	"strings"
	"sync"
	"syscall"
	"time"
	"unsafe"

	"github.com/piotrnar/gocoin/lib/others/memory"
	"verif/vlib"
)

type faultCase struct {
	Name       string
	Seed       uint64
	Class      int
	Pages      int // pages filled before the frees
	KeepPct    int // average share of slots left live
	Shape      int // 0: every page keeps the same number of random slots; 1: uniform random frees; 2: gradient (first page nearly full .. last nearly empty)
	FaultAfter int // the address-space limit follows the process from this many relocations of pass 1 on (0: from before the pass)
	Traffic    int // Malloc/Free operations between the two passes
	Press      int `json:",omitempty"` // > 0: a "Malloc under memory pressure" case (no pass): this many Mallocs while the OS refuses memory; Pages = pages' worth of records allocated before
}

func (c faultCase) replay() map[string]interface{} { return map[string]interface{}{"fault": c} }

func faultPlan(g *vlib.Rng, n int) []faultCase {
	// classes with 8..400 slots per page: a page is moved in few operations, yet several records share a page
	var cls []int
	for c := range slots {
		if k := (pgSize - hdrSize) / int(slots[c]); k >= 8 && k <= 400 {
			cls = append(cls, c)
		}
	}
	if len(cls) == 0 {
		cls = []int{len(slots) - 1}
	}
	var out []faultCase
	for k := 0; k < n; k++ {
		c := faultCase{Name: fmt.Sprintf("oom#%d", k), Seed: g.U64(), Class: cls[g.Intn(len(cls))], Shape: k % 3,
			KeepPct: 25 + g.Intn(41), Traffic: 50 + g.Intn(400)}
		// free slots worth more than the 12-page trigger, with a margin for the randomness of the shapes
		c.Pages = 26 + g.Intn(19)
		for c.Pages*(100-c.KeepPct) < 1500 {
			c.Pages++
		}
		per := (pgSize - hdrSize) / int(slots[c.Class])
		if g.Chance(1, 2) {
			c.FaultAfter = 0
		} else {
			c.FaultAfter = g.Intn(c.Pages*per*c.KeepPct/100/2 + 1)
		}
		out = append(out, c)
	}
	return out
}

// pressPlan: "Malloc under memory pressure" cases.  No defragmentation pass: a few classes get records, then the
// address-space limit is put just above the process and Malloc is called for sizes of classes that are dry (a fresh
// shared page is needed: the page cache gives its 2..5 pages, then mmap is refused), for private sizes of 1..3 MiB
// (refused), small private sizes (may fit) and classes that still have free slots (no mmap needed).  A nil result
// must leave Allocs unchanged and equal to the number of live records; then the limit is lifted, the same sizes
// must be served, traffic, everything freed, with the quiescent-point checks of the other cases.
func pressPlan(g *vlib.Rng, n int) []faultCase {
	var out []faultCase
	for k := 0; k < n; k++ {
		out = append(out, faultCase{Name: fmt.Sprintf("press#%d", k), Seed: g.U64(), Class: g.Intn(len(slots)), Pages: 1 + g.Intn(3),
			KeepPct: 30 + g.Intn(50), Traffic: 100 + g.Intn(300), Press: 24 + g.Intn(24)})
	}
	return out
}

type faultLine struct {
	Stage   string `json:"stage,omitempty"`
	Outcome string `json:"outcome,omitempty"` // ok | violation
	Key     string `json:"key,omitempty"`
	What    string `json:"what,omitempty"`
	Moved1  int    `json:"moved1,omitempty"`
	Moved2  int    `json:"moved2,omitempty"`
	Live    int    `json:"live,omitempty"`
	Nils    int    `json:"nils,omitempty"`    // pressure cases: Mallocs that returned nil while the OS refused memory
	NilsSh  int    `json:"nils_sh,omitempty"` // ... of which for a shared-class size
	Soft    string `json:"soft,omitempty"`    // first structural finding (slot accounting) met on the way; the history went on to see what it does to live data
}

var faultStats struct {
	cases, stopped, survived, unavailable int
	moved                                 int
	press, pressNils, pressNilsShared     int
}

// runFaultCase runs one case in a child process; true = a property failure was reported.
func runFaultCase(c faultCase) bool {
	rp := c.replay()
	announceFor(rp, 150)
	dir, err := os.MkdirTemp("", "vc20fault")
	if err != nil {
		fmt.Println("cannot create temp dir:", err)
		os.Exit(3)
	}
	defer os.RemoveAll(dir)
	cb, _ := json.Marshal(c)
	cf, of := dir+"/case.json", dir+"/obs.jsonl"
	os.WriteFile(cf, cb, 0644)
	self, err := os.Executable()
	if err != nil {
		self = os.Args[0]
	}
	cmd := exec.Command(self)
	cmd.Env = append(os.Environ(), "C20_FAULT_CHILD="+cf, "C20_FAULT_OUT="+of)
	cmd.Dir = dir
	var errb boundedBuf
	errb.max = 1 << 15
	cmd.Stderr = &errb
	cmd.Stdout = nil
	if err := cmd.Start(); err != nil {
		fmt.Println("cannot start fault child:", err)
		os.Exit(3)
	}
	done := make(chan error, 1)
	go func() { done <- cmd.Wait() }()
	desc := fmt.Sprintf("out-of-memory case %q (class %d, slot %d bytes, %d pages, %d%% kept, shape %d, address-space limit armed after %d relocations of pass 1)",
		c.Name, c.Class, slots[c.Class], c.Pages, c.KeepPct, c.Shape, c.FaultAfter)
	if c.Press > 0 {
		desc = fmt.Sprintf("memory-pressure case %q (records in class %d and its neighbours, then %d Mallocs of dry-class, private and served sizes while RLIMIT_AS refuses every fresh mapping, limit lifted, %d operations of traffic, all freed)",
			c.Name, c.Class, c.Press, c.Traffic)
	}
	var runErr error
	select {
	case runErr = <-done:
	case <-time.After(120 * time.Second):
		cmd.Process.Kill()
		<-done
		r.PropFail("fault-hang", desc+": the history did not finish in 120 s", rp)
		return true
	}
	raw, _ := os.ReadFile(of)
	var last faultLine
	stage, soft := "", ""
	dec := json.NewDecoder(bytes.NewReader(raw))
	for dec.More() {
		var l faultLine
		if dec.Decode(&l) != nil {
			break
		}
		if l.Stage != "" {
			stage = l.Stage
		}
		if l.Soft != "" && soft == "" {
			soft = "; earlier in the same history: " + l.Soft
		}
		last = l
	}
	faultStats.cases++
	r.Eval("fault-case", fmt.Sprint(c.Name, c.Seed))
	if c.Press > 0 {
		faultStats.press++
		r.Hit("fault:malloc-under-pressure")
	} else {
		r.Hit(fmt.Sprintf("fault:shape%d", c.Shape))
	}
	if c.Press > 0 {
	} else if c.FaultAfter == 0 {
		r.Hit("fault:armed-before-the-pass")
	} else {
		r.Hit("fault:armed-inside-the-pass")
	}
	tail := func() string {
		s := strings.TrimSpace(errb.String())
		if i := strings.Index(s, "\n\ngoroutine "); i > 0 {
			s = s[:i]
		}
		return clip(strings.ReplaceAll(s, "\n", " | "))
	}
	switch {
	case last.Outcome == "violation":
		if strings.HasSuffix(soft, " "+last.What) {
			soft = "" // the structural finding itself is what is reported
		}
		r.PropFail("fault-"+last.Key, desc+": "+last.What+soft, rp)
		return true
	case last.Outcome == "ok" && runErr == nil:
		faultStats.survived++
		faultStats.moved += last.Moved1 + last.Moved2
		faultStats.pressNils += last.Nils
		faultStats.pressNilsShared += last.NilsSh
		if c.Press > 0 {
			if last.Nils > 0 {
				r.Hit("fault:pressure:Malloc-returned-nil,Allocs=live")
			} else {
				r.Hit("fault:pressure:no-Malloc-was-refused")
			}
			if last.NilsSh > 0 {
				r.Hit("fault:pressure:shared-class-Malloc-refused")
			}
			if last.Nils > last.NilsSh {
				r.Hit("fault:pressure:private-Malloc-refused")
			}
		}
		r.Hit("fault:survived,all-checks-hold")
		return false
	case stage == "":
		// the child could not even prepare (no memory for the Go heap reserve, no /proc): nothing was run
		faultStats.unavailable++
		r.Hit("fault:child-could-not-prepare")
		return false
	case stage == "squeezed":
		faultStats.stopped++
		if c.Press > 0 {
			r.Hit("fault:pressure:process-died-under-the-limit")
		}
		switch s := errb.String(); {
		case strings.Contains(s, "panic:"):
			r.Hit("fault:stopped-at-the-fault(panic)")
		case strings.Contains(s, "fatal error:"):
			r.Hit("fault:stopped-at-the-fault(runtime)")
		default:
			r.Hit("fault:stopped-at-the-fault(other)")
		}
		return false
	default:
		r.PropFail("fault-crash", fmt.Sprintf("%s: the process died at stage %q, outside the window in which the OS refused memory (%v): %s%s", desc, stage, runErr, tail(), soft), rp)
		return true
	}
}

func runFaultStream(g *vlib.Rng, n int) {
	plan := faultPlan(g, n)
	press := pressPlan(g, r.N(3, 10)) // drawn after the pass cases: those are the same as before this family existed
	for i, c := range append(plan, press...) {
		if i == len(plan) {
			r.Sample(map[string]interface{}{"trace": c.Name, "case": c, "pattern": "records in a few classes, RLIMIT_AS just above the process size, Mallocs of dry-class / private / served sizes (nil => Allocs unchanged = live), limit lifted, the refused sizes served, traffic, all freed"})
		}
		if i == 0 {
			r.Sample(map[string]interface{}{"trace": c.Name, "case": c, "pattern": "fragmented class, DefragAllImproved with RLIMIT_AS following the process size (fresh page refused), limit lifted, traffic, second pass, all freed"})
		}
		if runFaultCase(c) {
			break
		}
	}
	r.Extra["oom_faults"] = map[string]interface{}{"cases": faultStats.cases, "stopped_at_the_fault": faultStats.stopped,
		"survived_with_all_checks": faultStats.survived, "child_could_not_prepare": faultStats.unavailable, "records_relocated_in_surviving_cases": faultStats.moved,
		"malloc_under_pressure_cases": faultStats.press, "mallocs_refused_with_nil": faultStats.pressNils, "of_which_shared_class": faultStats.pressNilsShared}
}

// ------------------------------------------------------------------------------------------------
// child

type faultRec struct {
	ptr  *[]byte
	size int
	tag  int
}

func faultChild() {
	cf, of := os.Getenv("C20_FAULT_CHILD"), os.Getenv("C20_FAULT_OUT")
	b, err := os.ReadFile(cf)
	var c faultCase
	if err != nil || json.Unmarshal(b, &c) != nil {
		fmt.Fprintln(os.Stderr, "fault child: bad case file")
		os.Exit(3)
	}
	out, err := os.OpenFile(of, os.O_CREATE|os.O_WRONLY|os.O_APPEND, 0644)
	if err != nil {
		os.Exit(3)
	}
	emit := func(l faultLine) {
		x, _ := json.Marshal(l)
		out.Write(append(x, '\n'))
	}
	violation := func(key, what string) {
		emit(faultLine{Outcome: "violation", Key: key, What: what})
		os.Exit(0)
	}
	propSink = violation
	softKey, softWhat := "", ""
	structural := func(key, what string) { // slot accounting is off: note it and go on, live data may be hit next
		if softKey == "" {
			softKey, softWhat = key, what
			emit(faultLine{Soft: "key=" + key + " " + what})
		}
	}
	debug.SetPanicOnFault(true)
	hdrSize, pgSize, sliceHdr, osPage, nodeSz, slots = memory.VerifConsts()
	maxShared = int(slots[len(slots)-1])
	if c.Class < 0 || c.Class >= len(slots) || c.Pages <= 0 || c.Pages > 400 {
		os.Exit(3)
	}
	statm, err := os.Open("/proc/self/statm")
	if err != nil {
		os.Exit(3)
	}
	var old syscall.Rlimit
	if syscall.Getrlimit(syscall.RLIMIT_AS, &old) != nil {
		os.Exit(3)
	}

	// give the Go runtime the heap and the threads it will need, so that only the allocator's mmap is refused later
	{
		x := make([]byte, 192<<20)
		for i := 0; i < len(x); i += 4096 {
			x[i] = 1
		}
		x = nil
		runtime.GC()
		var wg sync.WaitGroup
		gate := make(chan struct{})
		for i := 0; i < 6; i++ {
			wg.Add(1)
			go func() {
				defer wg.Done()
				runtime.LockOSThread()
				<-gate
				runtime.UnlockOSThread()
			}()
		}
		time.Sleep(5 * time.Millisecond)
		close(gate)
		wg.Wait()
	}

	a := memory.NewAllocator()
	for i := 0; i < 200 && a.VerifCacheLen() < 2; i++ {
		time.Sleep(time.Millisecond) // the page cache fills in the background
	}
	emit(faultLine{Stage: "init"})

	g := vlib.NewRng(c.Seed)
	per := (pgSize - hdrSize) / int(slots[c.Class])
	live := map[uintptr]*faultRec{}
	touched := map[int]bool{}
	nextTag := 0
	sizeIn := func(cl int) int {
		lo, hi := classSizeRange(cl)
		if lo < 1 {
			lo = 1
		}
		return lo + g.Intn(hi-lo+1)
	}
	adopt := func(p *[]byte, size int) *faultRec {
		if s := sliceShape(p, size); s != "" {
			violation("malloc-shape", fmt.Sprintf("Malloc(%d): %s", size, s))
		}
		addr := uintptr(unsafe.Pointer(p))
		if _, dup := live[addr]; dup {
			violation("overlap", fmt.Sprintf("Malloc(%d) returned %#x, which is a live allocation", size, addr))
		}
		nextTag++
		rec := &faultRec{p, size, nextTag}
		fill(*p, rec.tag)
		live[addr] = rec
		if cl := classOfSize(size + sliceHdr); cl >= 0 {
			touched[cl] = true
		}
		return rec
	}
	alloc := func(size int) *faultRec { return adopt(a.Malloc(size), size) }
	free := func(rec *faultRec, when string) {
		if s := sliceShape(rec.ptr, rec.size); s != "" {
			violation("header-corrupt", fmt.Sprintf("%s: live allocation of size %d before its Free: %s", when, rec.size, s))
		}
		if j := checkFill(*rec.ptr, rec.tag); j >= 0 {
			violation("content-corrupt", fmt.Sprintf("%s: live allocation of size %d before its Free: byte %d is %#x, last written %#x", when, rec.size, j, (*rec.ptr)[j], fillByte(rec.tag, j)))
		}
		delete(live, uintptr(unsafe.Pointer(rec.ptr)))
		a.Free(rec.ptr)
	}
	guard := func(when string, f func()) {
		defer func() {
			if x := recover(); x != nil {
				violation("panic", fmt.Sprintf("%s: the allocator panicked / faulted, or a live allocation is not readable: %v", when, x))
			}
		}()
		f()
	}
	verify := func(when string, final bool) {
		guard(when, func() {
			type rg struct{ lo, hi uintptr }
			all := make([]rg, 0, len(live))
			d := &diff{a: a, byPtr: make(map[uintptr]int, len(live)), tr: &Trace{Name: c.Name}, rp: c.replay()}
			for addr, rec := range live {
				if s := sliceShape(rec.ptr, rec.size); s != "" {
					violation("header-corrupt", fmt.Sprintf("%s: live allocation of size %d at %#x: %s", when, rec.size, addr, s))
				}
				if j := checkFill(*rec.ptr, rec.tag); j >= 0 {
					violation("content-corrupt", fmt.Sprintf("%s: live allocation of size %d at %#x: byte %d is %#x, last written %#x", when, rec.size, addr, j, (*rec.ptr)[j], fillByte(rec.tag, j)))
				}
				l, h := slotRange(rec.ptr)
				all = append(all, rg{l, h})
				d.byPtr[l] = 1
			}
			sort.Slice(all, func(i, j int) bool { return all[i].lo < all[j].lo })
			for i := 1; i < len(all); i++ {
				if all[i].lo < all[i-1].hi {
					violation("overlap", fmt.Sprintf("%s: two live allocations overlap: [%#x,%#x) and [%#x,%#x)", when, all[i-1].lo, all[i-1].hi, all[i].lo, all[i].hi))
				}
			}
			if int(a.Allocs.Load()) != len(live) {
				violation("allocs-counter", fmt.Sprintf("%s: Allocs=%d but %d allocations are live", when, a.Allocs.Load(), len(live)))
			}
			var cls []int
			for cl := range touched {
				cls = append(cls, cl)
			}
			sort.Ints(cls)
			if !final {
				propSink = structural
			}
			for _, cl := range cls {
				d.tr.Name = when
				d.failed = false
				d.checkClassAgainstLive(cl) // reports through propSink
			}
			propSink = violation
			if final && softKey != "" {
				violation(softKey, softWhat)
			}
		})
	}

	var buf [128]byte
	squeezed := false
	squeeze := func() {
		n, err := syscall.Pread(int(statm.Fd()), buf[:], 0)
		if err != nil || n <= 0 {
			return
		}
		var vmPages uint64
		for _, ch := range buf[:n] {
			if ch < '0' || ch > '9' {
				break
			}
			vmPages = vmPages*10 + uint64(ch-'0')
		}
		lim := old
		lim.Cur = vmPages*uint64(osPage) + 512<<10 // the 2 MiB request of an aligned 1 MiB page does not fit, even after one page was returned
		if lim.Cur > old.Max {
			lim.Cur = old.Max
		}
		if !squeezed {
			squeezed = true
			emit(faultLine{Stage: "squeezed"})
		}
		syscall.Setrlimit(syscall.RLIMIT_AS, &lim)
	}
	if c.Press > 0 {
		// "Malloc under memory pressure": no pass; see pressPlan
		allocsIsLive := func(when string) {
			if n := int(a.Allocs.Load()); n != len(live) {
				violation("malloc-nil-allocs", fmt.Sprintf("%s: Allocs=%d but %d allocations are live", when, n, len(live)))
			}
		}
		near := func() int { // the case's class or a neighbour
			cl := c.Class + g.Intn(3) - 1
			if cl < 0 || cl >= len(slots) {
				cl = c.Class
			}
			return cl
		}
		var mine []*faultRec
		guard("records before the pressure", func() {
			for pg := 0; pg < c.Pages; pg++ {
				cl := near()
				n := (pgSize - hdrSize) / int(slots[cl])
				if n > 300 {
					n = 300
				}
				for i := 0; i < n; i++ {
					mine = append(mine, alloc(sizeIn(cl)))
				}
			}
			mine = append(mine, alloc(maxShared+1+g.Intn(100000)))
			for i := len(mine) - 1; i >= 0; i-- { // free slots stay behind: these classes are served without mmap
				if g.Intn(100) >= c.KeepPct {
					free(mine[i], "before the pressure")
					mine[i] = mine[len(mine)-1]
					mine = mine[:len(mine)-1]
				}
			}
		})
		verify("before the pressure", true)
		runtime.GC()
		debug.SetGCPercent(-1)
		var dry []int
		for cl := range slots {
			if !touched[cl] {
				dry = append(dry, cl)
			}
		}
		type refusal struct{ size int }
		var refused []refusal
		nils, nilsSh := 0, 0
		squeeze()
		guard("Malloc while the OS refuses memory", func() {
			for i := 0; i < c.Press; i++ {
				size, kind := 0, g.Intn(8)
				switch {
				case kind <= 3 && len(dry) > 0: // a dry class: page cache first, then a refused mmap
					j := g.Intn(len(dry))
					size = sizeIn(dry[j])
					dry = append(dry[:j], dry[j+1:]...)
				case kind <= 5: // private mapping that cannot fit
					size = 1<<20 + g.Intn(2<<20)
				case kind == 6: // small private mapping: may fit below the limit
					size = maxShared + 1 + g.Intn(64<<10)
				default: // a class with free slots
					cl := c.Class
					if len(mine) > 0 {
						if k := classOfSize(mine[g.Intn(len(mine))].size + sliceHdr); k >= 0 {
							cl = k
						}
					}
					size = sizeIn(cl)
				}
				before := a.Allocs.Load()
				p := a.Malloc(size)
				if p == nil {
					nils++
					if size+sliceHdr <= maxShared {
						nilsSh++
					}
					refused = append(refused, refusal{size})
					if now := a.Allocs.Load(); now != before || int(now) != len(live) {
						violation("malloc-nil-allocs", fmt.Sprintf("Malloc(%d) returned nil while the OS refused memory (call no. %d under the limit): Allocs was %d before the call and is %d after it, %d allocations are live", size, i+1, before, now, len(live)))
					}
					continue
				}
				mine = append(mine, adopt(p, size))
				allocsIsLive(fmt.Sprintf("after Malloc(%d) served under the limit", size))
				if len(mine) > 0 && g.Chance(1, 4) {
					k := g.Intn(len(mine))
					free(mine[k], "under the limit")
					mine[k] = mine[len(mine)-1]
					mine = mine[:len(mine)-1]
					allocsIsLive("after a Free under the limit")
				}
			}
		})
		syscall.Setrlimit(syscall.RLIMIT_AS, &old)
		debug.SetGCPercent(100)
		emit(faultLine{Stage: "lifted", Nils: nils})
		verify("after the pressure (Mallocs were refused)", true)
		emit(faultLine{Stage: "traffic"})
		guard("traffic after the pressure", func() {
			for _, rf := range refused { // what was refused is served now
				mine = append(mine, alloc(rf.size))
				allocsIsLive(fmt.Sprintf("after Malloc(%d), refused earlier, was served", rf.size))
			}
			for i := 0; i < c.Traffic; i++ {
				if len(mine) == 0 || g.Intn(100) < 55 {
					size := sizeIn(g.Intn(len(slots)))
					if g.Chance(1, 12) {
						size = maxShared + 1 + g.Intn(400000)
					}
					mine = append(mine, alloc(size))
				} else {
					k := g.Intn(len(mine))
					free(mine[k], "traffic after the pressure")
					mine[k] = mine[len(mine)-1]
					mine = mine[:len(mine)-1]
				}
				allocsIsLive("traffic after the pressure")
			}
		})
		verify("after the traffic that followed the pressure", true)
		nlive := len(live)
		guard("freeing everything", func() {
			for _, rec := range mine {
				free(rec, "final frees")
			}
		})
		if len(live) != 0 {
			violation("harness", "pressure case: the harness lost track of a record")
		}
		verify("after freeing everything", true)
		emit(faultLine{Outcome: "ok", Live: nlive, Nils: nils, NilsSh: nilsSh})
		os.Exit(0)
	}

	// 1. fragmentation
	recs := make([]*faultRec, 0, c.Pages*per)
	guard("filling the class", func() {
		for i := 0; i < c.Pages*per; i++ {
			recs = append(recs, alloc(sizeIn(c.Class)))
		}
		for pg := 0; pg < c.Pages; pg++ {
			grp := recs[pg*per : (pg+1)*per]
			keepPct := c.KeepPct
			if c.Shape == 2 && c.Pages > 1 {
				keepPct = 95 - 90*pg/(c.Pages-1)
			}
			if c.Shape == 1 {
				for _, rec := range grp {
					if g.Intn(100) >= keepPct {
						free(rec, "fragmenting")
					}
				}
				continue
			}
			keep := (per*keepPct + 50) / 100
			idx := make([]int, per)
			for k := range idx {
				idx[k] = k
			}
			for k := 0; k < per-keep; k++ { // partial Fisher-Yates: per-keep distinct random slots
				j := k + g.Intn(per-k)
				idx[k], idx[j] = idx[j], idx[k]
				free(grp[idx[k]], "fragmenting")
			}
		}
	})
	recs = nil
	verify("before pass 1", true)
	runtime.GC()
	debug.SetGCPercent(-1)
	emit(faultLine{Stage: "pass1"})

	// 2. the pass during which the OS refuses fresh pages
	calls := 0
	arm := -1 // the limit follows the process from this many callbacks on; -1: never
	var moved map[uintptr]bool
	var mu sync.Mutex
	reloc := func(o, n *[]byte) {
		mu.Lock()
		defer mu.Unlock()
		oa, na := uintptr(unsafe.Pointer(o)), uintptr(unsafe.Pointer(n))
		rec, ok := live[oa]
		if !ok {
			if moved[oa] {
				violation("relocate-twice", fmt.Sprintf("relocate callback no. %d of the pass: slot %#x was already moved by this pass and is handed to the callback again", calls+1, oa))
			}
			violation("relocate-not-live", fmt.Sprintf("relocate callback no. %d of the pass invoked for %#x, which is not a live allocation", calls+1, oa))
		}
		if _, clash := live[na]; clash {
			violation("relocate-onto-live", fmt.Sprintf("relocate callback no. %d of the pass: new location %#x is a live allocation", calls+1, na))
		}
		func() {
			defer func() {
				if x := recover(); x != nil {
					violation("relocate-content", fmt.Sprintf("relocate callback no. %d of the pass: new location %#x is not readable: %v", calls+1, na, x))
				}
			}()
			if s := sliceShape(n, rec.size); s != "" {
				violation("relocate-content", fmt.Sprintf("relocate callback no. %d of the pass: new location %#x of a record of %d bytes: %s", calls+1, na, rec.size, s))
			}
			if j := checkFill(*n, rec.tag); j >= 0 {
				violation("relocate-content", fmt.Sprintf("relocate callback no. %d of the pass: new location %#x does not hold the old contents (byte %d)", calls+1, na, j))
			}
		}()
		delete(live, oa)
		moved[oa] = true
		rec.ptr = n
		live[na] = rec
		calls++
		if arm >= 0 && calls >= arm {
			squeeze()
		}
	}
	pass := func(when string) int {
		calls = 0
		moved = map[uintptr]bool{}
		cnt := -1
		guard(when, func() { cnt = a.DefragAllImproved(reloc) })
		if squeezed && arm >= 0 {
			// a panic in the pass's worker goroutine runs that goroutine's deferred wg.Done() BEFORE the runtime prints
			// the panic and ends the process: DefragAllImproved returns to a caller that has a few microseconds left
			// to live.  Fail-stop is accepted, so give a dying process the time to die before anything is judged.
			time.Sleep(300 * time.Millisecond)
		}
		if cnt != calls {
			violation("relocate-count", fmt.Sprintf("%s: DefragAllImproved returned %d but made %d relocate callbacks", when, cnt, calls))
		}
		return cnt
	}
	arm = c.FaultAfter
	if arm == 0 {
		squeeze()
	}
	moved1 := pass("pass 1 (fresh pages refused)")
	arm = -1
	syscall.Setrlimit(syscall.RLIMIT_AS, &old)
	debug.SetGCPercent(100)
	emit(faultLine{Stage: "lifted", Moved1: moved1})
	verify("after pass 1 (during which the OS refused fresh pages)", false)

	// 3. life goes on
	emit(faultLine{Stage: "traffic"})
	guard("traffic after pass 1", func() {
		var mine []*faultRec
		for i := 0; i < c.Traffic; i++ {
			if len(mine) == 0 || g.Intn(100) < 60 {
				cl := c.Class
				if k := g.Intn(10); k == 0 && cl > 0 {
					cl--
				} else if k == 1 && cl+1 < len(slots) {
					cl++
				}
				mine = append(mine, alloc(sizeIn(cl)))
			} else if g.Chance(1, 2) {
				k := g.Intn(len(mine))
				free(mine[k], "traffic after pass 1")
				mine[k] = mine[len(mine)-1]
				mine = mine[:len(mine)-1]
			} else {
				// any live record (map order is not deterministic: take the lowest address at or above a random point)
				var addrs []uintptr
				for ad := range live {
					addrs = append(addrs, ad)
				}
				sort.Slice(addrs, func(i, j int) bool { return addrs[i] < addrs[j] })
				rec := live[addrs[g.Intn(len(addrs))]]
				for k := range mine {
					if mine[k] == rec {
						mine[k] = mine[len(mine)-1]
						mine = mine[:len(mine)-1]
						break
					}
				}
				free(rec, "traffic after pass 1")
			}
		}
	})
	// ... until a second pass is due: at least 24 pages' worth of records live in the class, then random frees until the
	// free slots are worth 13..16 pages (the allocator's own counter only steers the generator, it is not trusted)
	guard("second fragmentation", func() {
		var mine []*faultRec
		var addrs []uintptr
		for ad := range live {
			addrs = append(addrs, ad)
		}
		sort.Slice(addrs, func(i, j int) bool { return addrs[i] < addrs[j] })
		for _, ad := range addrs {
			if rec := live[ad]; classOfSize(rec.size+sliceHdr) == c.Class {
				mine = append(mine, rec)
			}
		}
		for len(mine) < 24*per {
			mine = append(mine, alloc(sizeIn(c.Class)))
		}
		want := (13 + g.Intn(4)) * per
		for n := 0; n < 40*per && len(mine) > 0 && int(a.VerifClassState(c.Class, 1<<22).FreeSlots) < want; n++ {
			for k := 0; k < per/4+1 && len(mine) > 0; k++ {
				j := g.Intn(len(mine))
				free(mine[j], "second fragmentation")
				mine[j] = mine[len(mine)-1]
				mine = mine[:len(mine)-1]
			}
		}
	})
	verify("after the traffic that followed pass 1", false)
	emit(faultLine{Stage: "pass2"})
	moved2 := pass("pass 2")
	emit(faultLine{Stage: "after-pass2", Moved2: moved2})
	verify("after pass 2", false)
	nlive := len(live)
	guard("freeing everything", func() {
		var addrs []uintptr
		for ad := range live {
			addrs = append(addrs, ad)
		}
		sort.Slice(addrs, func(i, j int) bool { return addrs[i] < addrs[j] })
		for _, ad := range addrs {
			free(live[ad], "final frees")
		}
	})
	verify("after freeing everything", true)
	emit(faultLine{Outcome: "ok", Moved1: moved1, Moved2: moved2, Live: nlive})
	os.Exit(0)
}
