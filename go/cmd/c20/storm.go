package main

// Header-counter storm (quick and thorough).  The fields of a page header (used, brk, free, freeList) are plain
// words in mmap'd memory shared by every goroutine that allocates or frees in the class; they are correct only
// because every read-modify-write of them happens inside the class's critical section.  An update moved
// outside it (e.g. `header.used++` done after Unlock()) is sequentially equivalent and loses an update only when
// two calls overlap in a window of a few nanoseconds — the mixed concurrent streams and the edge stream pass
// that window too rarely to hit it with every seed.  This stream maximises the number of overlapping
// read-modify-writes of ONE header: 8..16 goroutines, released together, allocate thousands of records each in
// one dense class (thousands of slots per page, so that they all bump the same page for a long time) and free
// about a third of their own records on the way (Free's `used--` / `free++` against Malloc's `used++` / `free--`).
// At the quiescent point the property's predicate is evaluated on the real allocator, as in the other
// concurrent streams: Len/Cap/Data and fill pattern of every live record, no two live ranges overlap,
// Allocs = number live, and slot by slot "live xor on a free list, header.used = number of live slots of the
// page, global list = union of the per-page lists" (checkClassAgainstLive).  Then everything is freed.
// The translator (gen_c20/locks.go) flags header accesses outside the critical section from the source; this
// stream is the run-time counterpart that does not depend on the shape of the source.
// The schedule is the machine's: a failing case is repeated by -replay.

import (
	"fmt"
	"runtime"
	"runtime/debug"
	"sort"
	"sync"
	"sync/atomic"
	"syscall"
	"time"
	"unsafe"

	"github.com/piotrnar/gocoin/lib/others/memory"
	"verif/vlib"
)

type stormCase struct {
	Name    string
	Seed    uint64
	Workers int
	Class   int
	Ops     int // Mallocs per goroutine
}

func (c stormCase) replay() map[string]interface{} { return map[string]interface{}{"storm": c} }

func stormPlan(g *vlib.Rng, n, ops int) []stormCase {
	// dense classes: at least 1000 slots per page
	var dense []int
	for c := range slots {
		if (pgSize-hdrSize)/int(slots[c]) >= 1000 {
			dense = append(dense, c)
		}
	}
	if len(dense) == 0 {
		dense = []int{0}
	}
	var out []stormCase
	ws := []int{8, 16, 12, 8}
	for k := 0; k < n; k++ {
		c := stormCase{Name: fmt.Sprintf("storm#%d", k), Seed: g.U64(), Workers: ws[k%len(ws)], Ops: ops/2 + g.Intn(ops)}
		if k == 0 {
			c.Class = 0 // the densest class: 10922 slots share one header
		} else {
			c.Class = dense[g.Intn(len(dense))]
		}
		out = append(out, c)
	}
	return out
}

// stormOnce runs one case; true = a failure was reported.
func stormOnce(c stormCase) (bad bool) {
	rp := c.replay()
	announce(rp)
	if runtime.GOMAXPROCS(0) < 4 {
		runtime.GOMAXPROCS(4)
	}
	a := memory.NewAllocator()
	cl := c.Class
	var failed atomic.Bool
	var fmu sync.Mutex
	failCh := make(chan struct{})
	fail := func(key, what string) {
		fmu.Lock()
		if !failed.Load() {
			failed.Store(true)
			close(failCh)
			r.PropFail("storm-"+key, fmt.Sprintf("storm %q (%d goroutines, %d Mallocs each, about a third freed again, all in class %d, slot %d bytes): %s", c.Name, c.Workers, c.Ops, cl, slots[cl], what), rp)
		}
		fmu.Unlock()
	}
	lo, hi := classSizeRange(cl)
	type plan struct {
		sizes []int
		free  []int // after the i-th Malloc free own record number free[i] (-1: none)
		got   []cAlloc
		dead  []bool
	}
	g := vlib.NewRng(c.Seed)
	plans := make([]*plan, c.Workers)
	for w := range plans {
		p := &plan{}
		for i := 0; i < c.Ops; i++ {
			p.sizes = append(p.sizes, lo+g.Intn(hi-lo+1))
			if i > 0 && g.Chance(1, 3) {
				p.free = append(p.free, g.Intn(i+1))
			} else {
				p.free = append(p.free, -1)
			}
		}
		plans[w] = p
	}
	var ready atomic.Int32
	var wg sync.WaitGroup
	for w := 0; w < c.Workers; w++ {
		wg.Add(1)
		go func(w int) {
			defer wg.Done()
			defer func() {
				if x := recover(); x != nil {
					fail("panic", fmt.Sprintf("allocator panicked / faulted in goroutine %d: %v", w, x))
				}
			}()
			debug.SetPanicOnFault(true)
			p := plans[w]
			p.dead = make([]bool, c.Ops)
			ready.Add(1)
			for spin := 0; int(ready.Load()) < c.Workers; spin++ {
				if spin > 2000 {
					runtime.Gosched()
				}
			}
			for i, size := range p.sizes {
				if failed.Load() {
					return
				}
				b := a.Malloc(size)
				if sh := sliceShape(b, size); sh != "" {
					fail("malloc-shape", fmt.Sprintf("Malloc(%d) in goroutine %d: %s", size, w, sh))
					return
				}
				tag := w*1000003 + i
				fill(*b, tag)
				p.got = append(p.got, cAlloc{b, size, tag})
				if k := p.free[i]; k >= 0 && !p.dead[k] {
					x := p.got[k]
					if sh := sliceShape(x.ptr, x.size); sh != "" {
						fail("header-corrupt", fmt.Sprintf("live allocation of size %d of goroutine %d before its Free: %s", x.size, w, sh))
						return
					}
					if j := checkFill(*x.ptr, x.tag); j >= 0 {
						fail("content-corrupt", fmt.Sprintf("live allocation of size %d of goroutine %d before its Free: byte %d is %#x, last written %#x", x.size, w, j, (*x.ptr)[j], fillByte(x.tag, j)))
						return
					}
					a.Free(x.ptr)
					p.dead[k] = true
				}
			}
		}(w)
	}
	done := make(chan struct{})
	go func() { wg.Wait(); close(done) }()
	select {
	case <-done:
	case <-failCh:
	case <-time.After(concHangLimit()):
		fail("hang", fmt.Sprintf("Malloc/Free did not return within %v (a goroutine spins inside the allocator or waits for a class mutex that is never released)", concHangLimit()))
	}
	r.Eval(fmt.Sprintf("storm:%02d-goroutines", c.Workers), fmt.Sprint(c.Name, c.Seed))
	if failed.Load() {
		select {
		case <-done:
		case <-time.After(2 * time.Second):
		}
		return true
	}
	var live []cAlloc
	for _, p := range plans {
		for k, x := range p.got {
			if !p.dead[k] {
				live = append(live, x)
			}
		}
	}
	pagesSeen := map[uintptr]bool{}
	func() {
		defer func() {
			if x := recover(); x != nil {
				fail("panic", fmt.Sprintf("checks after the storm: fault while reading live allocations / allocator state, or in the final frees: %v", x))
			}
		}()
		debug.SetPanicOnFault(true)
		type rg struct{ lo, hi uintptr }
		all := make([]rg, 0, len(live))
		d := &diff{a: a, byPtr: make(map[uintptr]int, len(live)), tr: &Trace{Name: c.Name}, rp: rp}
		for _, x := range live {
			if s := sliceShape(x.ptr, x.size); s != "" {
				fail("header-corrupt", fmt.Sprintf("after the storm: live allocation of size %d: %s", x.size, s))
				return
			}
			if j := checkFill(*x.ptr, x.tag); j >= 0 {
				fail("content-corrupt", fmt.Sprintf("after the storm: live allocation of size %d: byte %d is %#x, last written %#x", x.size, j, (*x.ptr)[j], fillByte(x.tag, j)))
				return
			}
			l, h := slotRange(x.ptr)
			all = append(all, rg{l, h})
			d.byPtr[l] = 1
			pagesSeen[memory.VerifPageBase(uintptr(unsafe.Pointer(x.ptr)))] = true
		}
		sort.Slice(all, func(i, j int) bool { return all[i].lo < all[j].lo })
		for i := 1; i < len(all); i++ {
			if all[i].lo < all[i-1].hi {
				fail("overlap", fmt.Sprintf("after the storm: two live allocations overlap: [%#x,%#x) and [%#x,%#x)", all[i-1].lo, all[i-1].hi, all[i].lo, all[i].hi))
				return
			}
		}
		if int(a.Allocs.Load()) != len(live) {
			fail("allocs-counter", fmt.Sprintf("after the storm: Allocs=%d but %d allocations are live", a.Allocs.Load(), len(live)))
			return
		}
		d.checkClassAgainstLive(cl)
		if d.failed {
			failed.Store(true)
			return
		}
		r.Hit(fmt.Sprintf("storm:live-after=%s", bucket(len(live))))
		for _, x := range live {
			a.Free(x.ptr)
		}
		if a.Allocs.Load() != 0 {
			fail("allocs-counter", fmt.Sprintf("everything freed but Allocs=%d", a.Allocs.Load()))
			return
		}
		d.byPtr = map[uintptr]int{}
		d.checkClassAgainstLive(cl)
		if d.failed {
			failed.Store(true)
		}
	}()
	if failed.Load() {
		return true
	}
	for pg := range pagesSeen {
		syscall.Syscall(syscall.SYS_MUNMAP, pg, uintptr(pgSize), 0)
	}
	return false
}

func runStormStream(g *vlib.Rng, n, ops int) {
	for _, c := range stormPlan(g, n, ops) {
		if stormOnce(c) {
			break
		}
	}
}

// replayStorm re-runs a recorded case; the interleaving is the machine's, so it is repeated until it fails.
func replayStorm(c stormCase) {
	for i := 0; i < 30; i++ {
		if stormOnce(c) {
			return
		}
	}
	fmt.Println("storm case did not fail in 30 repetitions (the failure depends on the interleaving)")
}
