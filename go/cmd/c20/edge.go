package main

// Mode-edge contention stream (quick and thorough).  A size class serves Malloc from three sources, in this
// order: the bump region of its current page (a.pages[class]), the global free list (a.lists[class]), a fresh
// page (mmapSharedPage + linkSharedPage when both are empty: "the class ran dry").  Which source a call uses is
// decided from the class state, and that decision is only right when it is taken under the class mutex and
// acted upon before the mutex is released.  The situations in which a stale decision hurts are the EDGES
// between the sources: the last k bump slots of the page, the last k nodes of the free list, the dry class.
// The other concurrent streams pass such an edge once per page, with whatever goroutines happen to be inside
// Malloc at that moment; this stream puts the class exactly k slots before an edge (single-threaded
// preparation, k between 0 and a few more than the number of goroutines) and then lets 2..16 goroutines,
// released together, allocate (and some of them free) in that one class, so that more calls than slots are left
// cross the edge at the same time.  Round after round on the same allocator, every record staying live or
// being freed by the preparation of a later round.
//
// Evaluated on the real allocator only (property predicate, no model): Len/Cap/Data of every returned record,
// panics / faults inside Malloc/Free, calls that do not return (watchdog: a panic inside the allocator leaves
// the class mutex locked), and at every quiescent point: fill pattern of every live record, no two live slot
// ranges overlap, Allocs = number live, "every slot below brk is live xor on a free list, used = number live,
// global list = per-page lists" (checkClassAgainstLive).
// The schedule is the machine's (GOMAXPROCS >= 4 even on a single CPU): a failing case is repeated by -replay.

import (
	"fmt"
	"runtime"
	"runtime/debug"
	"sort"
	"sync"
	"sync/atomic"
	"syscall"
	"time"
	"unsafe"

	"github.com/piotrnar/gocoin/lib/others/memory"
	"verif/vlib"
)

type edgeCase struct {
	Name    string
	Seed    uint64
	Workers int
	Class   int
	Rounds  int
}

func (c edgeCase) replay() map[string]interface{} { return map[string]interface{}{"edge": c} }

// edgeMaxBumpCap: classes with at most this many slots per page also get bump-region edges (the preparation
// has to allocate up to a whole page per round); denser classes are driven to the free-list and dry edges only.
const edgeMaxBumpCap = 700

func edgePlan(g *vlib.Rng, n int) []edgeCase {
	var out []edgeCase
	ws := []int{2, 3, 4, 8, 16}
	for k := 0; k < n; k++ {
		c := edgeCase{Name: fmt.Sprintf("edge#%d", k), Seed: g.U64(), Workers: ws[k%len(ws)], Rounds: 10 + g.Intn(8)}
		switch k % 4 {
		case 0: // a handful of slots per page: every round needs fresh pages
			c.Class = len(slots) - 1 - g.Intn(8)
		case 1, 2: // tens to hundreds of slots per page
			c.Class = len(slots) - 9 - g.Intn(30)
		default: // any class, also the dense small ones
			c.Class = g.Intn(len(slots))
		}
		if c.Class < 0 {
			c.Class = 0
		}
		out = append(out, c)
	}
	return out
}

// edgeOnce runs one case; true = a failure was reported (the allocator of the case must not be touched again).
func edgeOnce(c edgeCase) (bad bool) {
	rp := c.replay()
	announce(rp)
	if runtime.GOMAXPROCS(0) < 4 {
		runtime.GOMAXPROCS(4)
	}
	a := memory.NewAllocator()
	cl := c.Class
	var failed atomic.Bool
	var fmu sync.Mutex
	failCh := make(chan struct{})
	fail := func(key, what string) {
		fmu.Lock()
		if !failed.Load() {
			failed.Store(true)
			close(failCh)
			r.PropFail("edge-"+key, fmt.Sprintf("edge %q (%d goroutines released together in class %d, slot %d bytes): %s", c.Name, c.Workers, cl, slots[cl], what), rp)
		}
		fmu.Unlock()
	}
	g := vlib.NewRng(c.Seed)
	lo, hi := classSizeRange(cl)
	capc := (pgSize - hdrSize) / int(slots[cl])
	pagesSeen := map[uintptr]bool{}
	var live []cAlloc
	tagCtr := 0
	stuck := false

	// single-threaded helpers (preparation); they report through fail and return false
	mallocOne := func(when string) bool {
		size := lo + g.Intn(hi-lo+1)
		b := a.Malloc(size)
		if s := sliceShape(b, size); s != "" {
			fail("malloc-shape", fmt.Sprintf("%s Malloc(%d): %s", when, size, s))
			return false
		}
		pagesSeen[memory.VerifPageBase(uintptr(unsafe.Pointer(b)))] = true
		tagCtr++
		fill(*b, tagCtr)
		live = append(live, cAlloc{b, size, tagCtr})
		return true
	}
	freeOne := func(k int, when string) bool {
		x := live[k]
		if s := sliceShape(x.ptr, x.size); s != "" {
			fail("header-corrupt", fmt.Sprintf("%s: live allocation of size %d before its Free: %s", when, x.size, s))
			return false
		}
		if j := checkFill(*x.ptr, x.tag); j >= 0 {
			fail("content-corrupt", fmt.Sprintf("%s: live allocation of size %d before its Free: byte %d is %#x, last written %#x", when, x.size, j, (*x.ptr)[j], fillByte(x.tag, j)))
			return false
		}
		a.Free(x.ptr)
		live[k] = live[len(live)-1]
		live = live[:len(live)-1]
		return true
	}
	// state of the class as Malloc will see it: bump slots left on the current page, nodes on the free list
	sources := func() (bump, list int, ok bool) {
		vc := a.VerifClassState(cl, 1<<22)
		if len(vc.Errs) > 0 {
			fail("pointer-chain", fmt.Sprintf("class %d: %s", cl, vc.Errs[0]))
			return 0, 0, false
		}
		if vc.Cur != 0 {
			for _, p := range vc.Pages {
				if p.Base == vc.Cur {
					bump = int(vc.Cap) - p.Brk
				}
			}
		}
		return bump, len(vc.Global), true
	}

	for round := 0; round < c.Rounds && !failed.Load(); round++ {
		// how many calls are to find a slot before the edge
		k := g.Intn(c.Workers + 3)
		if g.Chance(1, 3) {
			k = 1 + g.Intn(2) // the tightest races: one or two slots left for everybody
		}
		mode := g.Intn(3) // 0: k bump slots left, list empty   1: bump used up, k nodes on the list   2: dry class
		if capc > edgeMaxBumpCap && mode == 0 {
			mode = 1
		}
		if mode == 2 {
			k = 0
		}
		okPrep := func() (ok bool) {
			defer func() {
				if x := recover(); x != nil {
					fail("panic", fmt.Sprintf("round %d preparation (single goroutine): allocator panicked / faulted: %v", round, x))
					ok = false
				}
			}()
			debug.SetPanicOnFault(true)
			// thin out what earlier rounds left behind (keeps the resident set bounded, puts nodes on the list)
			for len(live) > 3*capc+64 {
				if !freeOne(g.Intn(len(live)), "preparation") {
					return false
				}
			}
			bump, list, ok := sources()
			if !ok {
				return false
			}
			// use up the bump region (Malloc prefers it), so that the free list is what is left
			for ; bump > 0; bump-- {
				if !mallocOne("preparation") {
					return false
				}
			}
			switch mode {
			case 1:
				for ; list > k; list-- {
					if !mallocOne("preparation") {
						return false
					}
				}
				for ; list < k && len(live) > 0; list++ {
					if !freeOne(g.Intn(len(live)), "preparation") {
						return false
					}
				}
			default:
				for ; list > 0; list-- {
					if !mallocOne("preparation") {
						return false
					}
				}
				if mode == 0 && k > 0 { // dry now: the next Malloc links a fresh page; leave k of its slots
					kk := k
					if kk > capc-1 {
						kk = capc - 1
					}
					for i := 0; i < capc-kk; i++ {
						if !mallocOne("preparation") {
							return false
						}
					}
				}
			}
			return true
		}()
		if !okPrep {
			break
		}
		bump, list, ok := sources()
		if !ok {
			break
		}
		r.Hit(fmt.Sprintf("edge:before burst bump-left=%s list=%s", bucket(bump), bucket(list)))

		// the burst: every goroutine gets its script and its own records to free
		type script struct {
			ops  []bool // true = Malloc
			mine []cAlloc
			got  []cAlloc
		}
		scripts := make([]*script, c.Workers)
		for w := range scripts {
			s := &script{}
			n := 1 + g.Intn(3)
			for i := 0; i < n; i++ {
				s.ops = append(s.ops, true)
			}
			if g.Chance(1, 4) && len(live) > 0 { // some goroutines also push a node while the others pop
				kx := g.Intn(len(live))
				s.mine = append(s.mine, live[kx])
				live[kx] = live[len(live)-1]
				live = live[:len(live)-1]
				s.ops = append(s.ops, false)
				j := g.Intn(len(s.ops))
				s.ops[j], s.ops[len(s.ops)-1] = s.ops[len(s.ops)-1], s.ops[j]
			}
			scripts[w] = s
		}
		sizes := make([][]int, c.Workers)
		tags := make([][]int, c.Workers)
		for w, s := range scripts {
			for range s.ops {
				sizes[w] = append(sizes[w], lo+g.Intn(hi-lo+1))
				tagCtr++
				tags[w] = append(tags[w], tagCtr)
			}
		}
		var ready atomic.Int32
		var wg sync.WaitGroup
		for w := 0; w < c.Workers; w++ {
			wg.Add(1)
			go func(w int) {
				defer wg.Done()
				defer func() {
					if x := recover(); x != nil {
						fail("panic", fmt.Sprintf("round %d (slots left before the burst: %d on the current page, %d on the free list): allocator panicked / faulted in goroutine %d: %v", round, bump, list, w, x))
					}
				}()
				debug.SetPanicOnFault(true)
				s := scripts[w]
				ready.Add(1)
				for spin := 0; int(ready.Load()) < c.Workers; spin++ {
					if spin > 2000 {
						runtime.Gosched()
					}
				}
				for i, isM := range s.ops {
					if failed.Load() {
						return
					}
					if isM {
						size := sizes[w][i]
						b := a.Malloc(size)
						if sh := sliceShape(b, size); sh != "" {
							fail("malloc-shape", fmt.Sprintf("round %d: Malloc(%d) in goroutine %d: %s", round, size, w, sh))
							return
						}
						fill(*b, tags[w][i])
						s.got = append(s.got, cAlloc{b, size, tags[w][i]})
					} else {
						x := s.mine[0]
						s.mine = s.mine[1:]
						if sh := sliceShape(x.ptr, x.size); sh != "" {
							fail("header-corrupt", fmt.Sprintf("round %d: live allocation of size %d of goroutine %d before its Free: %s", round, x.size, w, sh))
							return
						}
						if j := checkFill(*x.ptr, x.tag); j >= 0 {
							fail("content-corrupt", fmt.Sprintf("round %d: live allocation of size %d of goroutine %d before its Free: byte %d is %#x, last written %#x", round, x.size, w, j, (*x.ptr)[j], fillByte(x.tag, j)))
							return
						}
						a.Free(x.ptr)
					}
				}
			}(w)
		}
		done := make(chan struct{})
		go func() { wg.Wait(); close(done) }()
		select {
		case <-done:
		case <-failCh:
		case <-time.After(concHangLimit()):
			fail("hang", fmt.Sprintf("round %d: Malloc/Free did not return within %v (a goroutine spins inside the allocator or waits for a class mutex that is never released)", round, concHangLimit()))
		}
		if failed.Load() {
			select {
			case <-done:
			case <-time.After(2 * time.Second):
				stuck = true
			}
			break
		}
		for _, s := range scripts {
			live = append(live, s.got...)
			live = append(live, s.mine...) // (empty: every script runs to its end unless the case failed)
		}

		// quiescent point
		func() {
			defer func() {
				if x := recover(); x != nil {
					fail("panic", fmt.Sprintf("round %d checks: fault while reading live allocations / allocator state: %v", round, x))
				}
			}()
			type rg struct{ lo, hi uintptr }
			all := make([]rg, 0, len(live))
			d := &diff{a: a, byPtr: make(map[uintptr]int, len(live)), tr: &Trace{Name: c.Name}, rp: rp}
			for _, x := range live {
				if s := sliceShape(x.ptr, x.size); s != "" {
					fail("header-corrupt", fmt.Sprintf("after round %d: live allocation of size %d: %s", round, x.size, s))
					return
				}
				if j := checkFill(*x.ptr, x.tag); j >= 0 {
					fail("content-corrupt", fmt.Sprintf("after round %d: live allocation of size %d: byte %d is %#x, last written %#x", round, x.size, j, (*x.ptr)[j], fillByte(x.tag, j)))
					return
				}
				l, h := slotRange(x.ptr)
				all = append(all, rg{l, h})
				d.byPtr[l] = 1
				pagesSeen[memory.VerifPageBase(l)] = true
			}
			sort.Slice(all, func(i, j int) bool { return all[i].lo < all[j].lo })
			for i := 1; i < len(all); i++ {
				if all[i].lo < all[i-1].hi {
					fail("overlap", fmt.Sprintf("after round %d: two live allocations overlap: [%#x,%#x) and [%#x,%#x)", round, all[i-1].lo, all[i-1].hi, all[i].lo, all[i].hi))
					return
				}
			}
			if int(a.Allocs.Load()) != len(live) {
				fail("allocs-counter", fmt.Sprintf("after round %d: Allocs=%d but %d allocations are live", round, a.Allocs.Load(), len(live)))
				return
			}
			d.checkClassAgainstLive(cl)
			if d.failed {
				fmu.Lock()
				if !failed.Load() {
					failed.Store(true)
					close(failCh)
				}
				fmu.Unlock()
			}
		}()
	}
	r.Eval(fmt.Sprintf("edge:%02d-goroutines", c.Workers), fmt.Sprint(c.Name, c.Seed))
	if failed.Load() || stuck {
		return true
	}
	func() {
		defer func() {
			if x := recover(); x != nil {
				fail("panic", fmt.Sprintf("final frees: allocator panicked / faulted: %v", x))
			}
		}()
		for len(live) > 0 {
			if !freeOne(len(live)-1, "at the end") {
				return
			}
		}
		if a.Allocs.Load() != 0 {
			fail("allocs-counter", fmt.Sprintf("everything freed but Allocs=%d", a.Allocs.Load()))
		}
	}()
	if failed.Load() {
		return true
	}
	for pg := range pagesSeen {
		syscall.Syscall(syscall.SYS_MUNMAP, pg, uintptr(pgSize), 0)
	}
	return false
}

func runEdgeStream(g *vlib.Rng, n int) {
	classes := map[int]bool{}
	for _, c := range edgePlan(g, n) {
		classes[c.Class] = true
		if edgeOnce(c) {
			break // one concrete failing case is enough; goroutines of that case may still hold the class mutex
		}
	}
	r.Extra["edge_classes_covered"] = len(classes)
}

// replayEdge re-runs a recorded case; the interleaving is the machine's, so it is repeated until it fails.
func replayEdge(c edgeCase) {
	for i := 0; i < 30; i++ {
		if edgeOnce(c) {
			return
		}
	}
	fmt.Println("edge case did not fail in 30 repetitions (the failure depends on the interleaving)")
}
