package main

// race.go — stream 6 of the C20 harness: the concurrent stream once more, under Go's race detector.
//
// Parent (runRaceStream, thorough tier): builds this very package with `go build -race -tags verif`
// against the tree under test (same -modfile / binary suffix as ./check uses for VERIF_REPO), runs the
// binary as a child with C20_RACE_CHILD=1 and turns every "WARNING: DATA RACE" block of the child's
// race log into r.PropFail("data-race", …) carrying the replay document of the concurrent case that
// was running. Child (raceChild): no oracle, runs concurrentBody for 2/4/8/16 goroutines only and
// reports through a private VERIF_ROOT (a temp dir of the parent), never through the parent's
// evidence file.
//
// What the detector can see: the slot memory is mmap'd outside the Go heap and has no shadow; the
// Allocator struct and its per-class slices (lists, pages, firstPage, lastPage, pageCount, freeSlots)
// live on the Go heap and are covered, as is the harness's own bookkeeping.

import (
	"bytes"
	"context"
	"crypto/sha1"
	"encoding/hex"
	"encoding/json"
	"fmt"
	"os"
	"os/exec"
	"path/filepath"
	"regexp"
	"sort"
	"strconv"
	"strings"
	"sync"
	"time"

	"github.com/piotrnar/gocoin/lib/others/memory"
	"verif/vlib"
)

// raceCase is one concurrent case; its JSON form is exactly the "concurrent" replay format of
// replayFile() in main.go.
type raceCase struct {
	Name                         string
	Seed                         uint64
	Workers, Phases, OpsPerPhase int
	Hint                         int
}

func (c raceCase) replay() map[string]interface{} { return map[string]interface{}{"concurrent": c} }

const (
	raceExit       = 66  // GORACE exitcode: the child saw at least one report (the canary is one)
	raceKillAfterS = 300 // the child is killed after this many seconds -> race-hang
	raceSoftS      = 150 // the child starts no new case after this many seconds (normally never reached)
	raceMarker     = "RACECHILD-"
)

// ------------------------------------------------------------------------------------------------
// child

var raceCanaryVar int

// raceCanary performs one deliberate unsynchronised write/write pair. The parent requires its report
// in the log (and drops it): "zero reports" then means the detector was live, not that it was mute.
func raceCanary() {
	done := make(chan struct{})
	go func() {
		raceCanaryVar = 1
		close(done)
	}()
	raceCanaryVar = 2
	<-done
}

func raceLogSize(path string) int64 {
	if st, err := os.Stat(path); err == nil {
		return st.Size()
	}
	return 0
}

// raceChild is main() of the -race build (env C20_RACE_CHILD set): runs the concurrent stream only.
// r was created by main() from the flags the parent passed (-evidence inside the parent's temp dir)
// and VERIF_ROOT points at that temp dir too, so r.Finish writes replays/evidence there.
func raceChild() {
	if !strings.HasPrefix(filepath.Base(vlib.Root()), "vc20race") || os.Getenv("C20_RACE_LOG") == "" {
		fmt.Println("C20_RACE_CHILD is set by runRaceStream only (use C20_ONLY=race ./check C20 thorough)")
		os.Exit(3)
	}
	var cases []raceCase
	if err := json.Unmarshal([]byte(os.Getenv("C20_RACE_CASES")), &cases); err != nil || len(cases) == 0 {
		fmt.Println("race child: bad C20_RACE_CASES:", err)
		os.Exit(3)
	}
	hdrSize, pgSize, sliceHdr, osPage, nodeSz, slots = memory.VerifConsts()
	maxShared = int(slots[len(slots)-1])
	bs := boundarySizes()
	logf := os.Getenv("C20_RACE_LOG") + "." + strconv.Itoa(os.Getpid())
	soft := time.Duration(raceSoftS) * time.Second
	if v, err := strconv.Atoi(os.Getenv("C20_RACE_SOFT_S")); err == nil && v > 0 {
		soft = time.Duration(v) * time.Second
	}
	say := func(kind string, v interface{}) {
		b, _ := json.Marshal(v)
		fmt.Printf("%s%s %s\n", raceMarker, kind, b)
	}
	start := time.Now()
	raceCanary()
	say("CANARY", map[string]interface{}{"hi": raceLogSize(logf)})
	for i, c := range cases {
		if time.Since(start) > soft {
			say("SKIP", map[string]interface{}{"from": i, "n": len(cases) - i})
			break
		}
		t := time.Now()
		say("BEGIN", map[string]interface{}{"i": i, "lo": raceLogSize(logf)})
		concurrentBody(c.Name, c.Seed, c.Workers, c.Phases, c.OpsPerPhase, bs, c.Hint, c.replay())
		say("END", map[string]interface{}{"i": i, "hi": raceLogSize(logf), "ms": time.Since(t).Milliseconds()})
	}
	r.Finish("race child: concurrent stream under the race detector", "race child (its evidence file is read by the parent and discarded)")
}

// ------------------------------------------------------------------------------------------------
// parent: build

func raceGoEnv() []string {
	set := map[string]string{"GOFLAGS": "-mod=mod", "GOPROXY": "off", "GOSUMDB": "off", "GOTOOLCHAIN": "local"}
	dflt := map[string]string{"CGO_ENABLED": "1", "GOCACHE": vlib.Root() + "/.work/gocache", "VERIF_ROOT": vlib.Root()}
	var env []string
	for _, kv := range os.Environ() {
		k := kv
		if i := strings.IndexByte(kv, '='); i >= 0 {
			k = kv[:i]
		}
		if _, forced := set[k]; forced {
			continue
		}
		if _, has := dflt[k]; has && len(kv) > len(k)+1 {
			delete(dflt, k)
		}
		env = append(env, kv)
	}
	for k, v := range set {
		env = append(env, k+"="+v)
	}
	for k, v := range dflt {
		env = append(env, k+"="+v)
	}
	return env
}

// raceRepo mirrors ./check: the tree under test, the binary suffix and the -modfile flags for it.
func raceRepo() (repo, suf string, modflags []string, err error) {
	repo = strings.TrimRight(os.Getenv("VERIF_REPO"), "/")
	if repo == "" {
		repo = "/repo"
	}
	if repo == "/repo" {
		return repo, "", nil, nil
	}
	h := sha1.Sum([]byte(repo))
	suf = "_" + hex.EncodeToString(h[:])[:8]
	work := vlib.Root() + "/.work"
	mf := work + "/go" + suf + ".mod"
	want, e := os.ReadFile(vlib.Root() + "/go/go.mod")
	if e != nil {
		return repo, suf, nil, e
	}
	want = bytes.ReplaceAll(want, []byte("=> /repo"), []byte("=> "+repo))
	if have, e := os.ReadFile(mf); e != nil || !bytes.Equal(have, want) { // ./check wrote it already; by hand it may be missing
		os.MkdirAll(work, 0755)
		if e := os.WriteFile(mf, want, 0644); e != nil {
			return repo, suf, nil, e
		}
		if sum, e := os.ReadFile(vlib.Root() + "/go/go.sum"); e == nil {
			os.WriteFile(strings.TrimSuffix(mf, ".mod")+".sum", sum, 0644)
		}
	}
	return repo, suf, []string{"-modfile=" + mf}, nil
}

func raceOneLine(s string, max int) string {
	s = strings.Join(strings.Fields(s), " ")
	if len(s) > max {
		s = s[:max] + "…"
	}
	return s
}

// raceBuild returns the path of the -race binary, or the reason why there is none.
func raceBuild() (bin, repo, unavailable string) {
	repo, suf, modflags, err := raceRepo()
	if err != nil {
		return "", repo, "cannot prepare the module file for " + repo + ": " + err.Error()
	}
	gobin, err := exec.LookPath("go")
	if err != nil {
		return "", repo, "go tool not found in PATH"
	}
	bin = vlib.Root() + "/.work/bin/c20_race" + suf
	os.MkdirAll(filepath.Dir(bin), 0755)
	args := append([]string{"build"}, modflags...)
	args = append(args, "-race", "-tags", "verif", "-o", bin, "./cmd/c20")
	ctx, cancel := context.WithTimeout(context.Background(), raceKillAfterS*time.Second)
	defer cancel()
	cmd := exec.CommandContext(ctx, gobin, args...)
	cmd.Dir = vlib.Root() + "/go"
	cmd.Env = raceGoEnv()
	out, err := cmd.CombinedOutput()
	if ctx.Err() != nil {
		return "", repo, fmt.Sprintf("go build -race did not finish within %d s", raceKillAfterS)
	}
	if err != nil {
		// the same sources were just built without -race by ./check (this process is that build), so a
		// failure here is the environment's (no cgo / no C compiler / no race runtime for the platform)
		return "", repo, "go build -race failed: " + raceOneLine(string(out)+" "+err.Error(), 400)
	}
	return bin, repo, ""
}

// ------------------------------------------------------------------------------------------------
// parent: race log

type raceFrame struct {
	fn, file string
	line     int
}

func (f raceFrame) inMemory() bool {
	return strings.Contains(f.file, "/lib/others/memory/") || strings.Contains(f.fn, "/lib/others/memory.")
}

func (f raceFrame) loc() string { return filepath.Base(f.file) + ":" + strconv.Itoa(f.line) }

func (f raceFrame) String() string {
	fn := strings.TrimSuffix(f.fn, "()")
	if i := strings.LastIndexByte(fn, '/'); i >= 0 {
		fn = fn[i+1:]
	}
	return f.loc() + " " + fn
}

type raceAccess struct {
	kind   string // "Read", "Previous write", …
	by     string
	frames []raceFrame
}

// top is the first frame inside lib/others/memory, else the innermost frame.
func (a raceAccess) top() (raceFrame, bool) {
	for _, f := range a.frames {
		if f.inMemory() {
			return f, true
		}
	}
	if len(a.frames) > 0 {
		return a.frames[0], false
	}
	return raceFrame{fn: "?", file: "?"}, false
}

type raceReport struct {
	off int64
	acc []raceAccess // the two conflicting accesses (fewer if the block could not be parsed)
	raw string
}

func (rp raceReport) canary() bool {
	for _, a := range rp.acc {
		for _, f := range a.frames {
			if strings.Contains(f.fn, "main.raceCanary") {
				return true
			}
		}
	}
	return false
}

var (
	raceHdrRe = regexp.MustCompile(`^((?:Previous )?(?:[Aa]tomic )?(?:[Rr]ead|[Ww]rite)) at 0x[0-9a-f]+ by (.*):$`)
	raceLocRe = regexp.MustCompile(`^\s+(\S.*?):(\d+)(?: \+0x[0-9a-f]+)?$`)
)

func parseRaceLog(text string) []raceReport {
	var out []raceReport
	const warn = "WARNING: DATA RACE"
	for pos := 0; ; {
		i := strings.Index(text[pos:], warn)
		if i < 0 {
			break
		}
		st := pos + i
		end := len(text)
		if j := strings.Index(text[st:], "\n=================="); j >= 0 {
			end = st + j
		}
		rp := raceReport{off: int64(st), raw: text[st:end]}
		lines := strings.Split(rp.raw, "\n")
		for k := 1; k < len(lines) && len(rp.acc) < 2; k++ {
			m := raceHdrRe.FindStringSubmatch(strings.TrimRight(lines[k], "\r "))
			if m == nil {
				continue
			}
			a := raceAccess{kind: m[1], by: m[2]}
			for k+2 < len(lines) && strings.HasPrefix(lines[k+1], "  ") && strings.TrimSpace(lines[k+1]) != "" {
				fr := raceFrame{fn: strings.TrimSpace(lines[k+1]), file: "?"}
				if lm := raceLocRe.FindStringSubmatch(lines[k+2]); lm != nil && strings.HasPrefix(lines[k+2], "      ") {
					fr.file = lm[1]
					fr.line, _ = strconv.Atoi(lm[2])
					k += 2
				} else {
					k++
				}
				a.frames = append(a.frames, fr)
			}
			rp.acc = append(rp.acc, a)
		}
		out = append(out, rp)
		pos = end
	}
	return out
}

// ------------------------------------------------------------------------------------------------
// parent: run

// boundedBuf keeps the first max bytes written to it (goroutine-safe: exec copies from its own goroutine).
type boundedBuf struct {
	mu  sync.Mutex
	b   []byte
	max int
}

func (w *boundedBuf) Write(p []byte) (int, error) {
	w.mu.Lock()
	if room := w.max - len(w.b); room > 0 {
		if len(p) < room {
			room = len(p)
		}
		w.b = append(w.b, p[:room]...)
	}
	w.mu.Unlock()
	return len(p), nil
}

func (w *boundedBuf) String() string { w.mu.Lock(); defer w.mu.Unlock(); return string(w.b) }

func racePlan(g *vlib.Rng) []raceCase {
	var cases []raceCase
	for _, w := range []int{2, 4, 8, 16} {
		for k := 0; k < 4; k++ {
			hint := len(slots) - 1 - g.Intn(10)
			if k == 3 {
				hint = 20 + g.Intn(len(slots)-30) // a class with many slots per page: long free lists, few page links
			}
			seed := g.U64()
			cases = append(cases, raceCase{fmt.Sprintf("race-conc-w%d-%d", w, k), seed, w, 4, 1500, hint})
		}
	}
	return cases
}

// runRaceStream builds (cached under .work/) and runs the -race binary; a race report is a PropFail.
func runRaceStream(g *vlib.Rng) {
	cases := racePlan(g) // drawn first: the PRNG stream does not depend on whether -race is available
	tb := time.Now()
	// the supervisor's clock: the build and the child each have their own limit of raceKillAfterS seconds
	announceFor(map[string]interface{}{"race-stream": "go build -race"}, raceKillAfterS+60)
	bin, repo, why := raceBuild()
	announceFor(map[string]interface{}{"race-stream": "child under the race detector", "cases": len(cases)}, raceKillAfterS+60)
	buildS := time.Since(tb).Seconds()
	if why != "" {
		r.Hit("race:unavailable")
		r.Extra["race_stream"] = "race detector unavailable: " + why
		return
	}
	tmp, err := os.MkdirTemp("", "vc20race")
	if err != nil {
		r.Hit("race:unavailable")
		r.Extra["race_stream"] = "cannot create temp dir: " + err.Error()
		return
	}
	defer os.RemoveAll(tmp)
	cj, _ := json.Marshal(cases)
	logPrefix := tmp + "/race"
	cur := tmp + "/current.json"
	var env []string
	for _, kv := range os.Environ() {
		if strings.HasPrefix(kv, "VERIF_ROOT=") || strings.HasPrefix(kv, "GORACE=") || strings.HasPrefix(kv, "C20_") {
			continue
		}
		env = append(env, kv)
	}
	env = append(env, "C20_RACE_CHILD=1", "C20_RACE_CASES="+string(cj), "C20_RACE_LOG="+logPrefix, "C20_CURFILE="+cur,
		"VERIF_ROOT="+tmp, // the child's r.Finish writes <tmp>/replays and reads no known_findings.txt
		"VERIF_SEED="+strconv.FormatUint(r.Seed, 10),
		fmt.Sprintf("GORACE=halt_on_error=0 log_path=%s exitcode=%d history_size=2", logPrefix, raceExit))
	if v := os.Getenv("C20_RACE_SOFT_S"); v != "" {
		env = append(env, "C20_RACE_SOFT_S="+v)
	}
	killS := raceKillAfterS
	if v, err := strconv.Atoi(os.Getenv("C20_RACE_KILL_S")); err == nil && v > 0 { // self-tests of this stream only
		killS = v
	}
	ctx, cancel := context.WithTimeout(context.Background(), time.Duration(killS)*time.Second)
	defer cancel()
	cmd := exec.CommandContext(ctx, bin, "-tier", "thorough", "-evidence", tmp+"/evidence.json")
	cmd.Dir = tmp
	cmd.Env = env
	outb, errb := &boundedBuf{max: 1 << 20}, &boundedBuf{max: 1 << 16}
	cmd.Stdout, cmd.Stderr = outb, errb
	tr := time.Now()
	runErr := cmd.Run()
	runS := time.Since(tr).Seconds()
	hung := ctx.Err() != nil
	code := 0
	if runErr != nil {
		code = -1
		if ee, ok := runErr.(*exec.ExitError); ok {
			code = ee.ExitCode()
		}
	}

	// what the child said
	begun := map[int]int64{} // case index -> log offset when it began
	ended, skipped := 0, 0
	slowest, slowestMs := "", int64(-1)
	sawCanaryLine := false
	for _, l := range strings.Split(outb.String(), "\n") {
		if !strings.HasPrefix(l, raceMarker) {
			continue
		}
		f := strings.SplitN(l[len(raceMarker):], " ", 2)
		if len(f) != 2 {
			continue
		}
		var v struct {
			I      int
			Lo, Hi int64
			N      int
			Ms     int64
		}
		if json.Unmarshal([]byte(f[1]), &v) != nil {
			continue
		}
		switch f[0] {
		case "CANARY":
			sawCanaryLine = true
		case "BEGIN":
			if v.I >= 0 && v.I < len(cases) {
				begun[v.I] = v.Lo
			}
		case "END":
			if v.I >= 0 && v.I < len(cases) {
				ended++
				if v.Ms > slowestMs {
					slowest, slowestMs = cases[v.I].Name, v.Ms
				}
				r.Eval("race-conc", fmt.Sprint(cases[v.I].Name, cases[v.I].Seed))
				r.Hit(fmt.Sprintf("race-conc:%02d-goroutines", cases[v.I].Workers))
			}
		case "SKIP":
			skipped = v.N
		}
	}
	caseAt := func(off int64) (raceCase, bool) { // the last case begun at or before this log offset
		best := -1
		for i, lo := range begun {
			if lo <= off && i > best {
				best = i
			}
		}
		if best < 0 {
			return raceCase{}, false
		}
		return cases[best], true
	}
	var running interface{} // the case announced last (concurrentBody -> announce -> C20_CURFILE)
	if b, err := os.ReadFile(cur); err == nil {
		var rc struct {
			Concurrent raceCase `json:"concurrent"` // typed: a uint64 seed does not survive interface{} (float64)
		}
		if json.Unmarshal(b, &rc) == nil && rc.Concurrent.Workers > 0 {
			running = rc.Concurrent.replay()
		}
	}

	// race reports
	var logText string
	logs, _ := filepath.Glob(logPrefix + ".*")
	sort.Strings(logs)
	for _, f := range logs {
		if b, err := os.ReadFile(f); err == nil {
			logText += string(b)
		}
	}
	if len(logs) > 1 {
		begun = map[int]int64{} // offsets are per file; cannot happen with one child process
	}
	reports := parseRaceLog(logText)
	errText := errb.String()
	for _, rp := range parseRaceLog(errText) { // (only if the runtime ignored log_path)
		rp.off = -1 // not an offset into the log: attributed to the case announced last
		reports = append(reports, rp)
	}
	canary := false
	seen := map[string]bool{}
	nrep := 0
	for _, rp := range reports {
		if rp.canary() {
			canary = true
			continue
		}
		nrep++
		var locs, desc []string
		inMem := false
		for _, a := range rp.acc {
			f, m := a.top()
			inMem = inMem || m
			locs = append(locs, f.loc())
			desc = append(desc, a.kind+" "+f.String()+" by "+a.by)
		}
		sort.Strings(locs)
		key := strings.Join(locs, "|")
		if len(rp.acc) < 2 {
			key = "unparsed|" + raceOneLine(rp.raw, 200)
			desc = append(desc, "(report not fully parsed: "+raceOneLine(rp.raw, 300)+")")
		}
		if seen[key] {
			continue
		}
		seen[key] = true
		r.Hit("race:report")
		c, ok := caseAt(rp.off)
		var replay interface{} = running
		where := "case unknown"
		if ok {
			replay = c.replay()
			where = fmt.Sprintf("concurrent %q, %d goroutines", c.Name, c.Workers)
		}
		scope := "in lib/others/memory"
		if !inMem {
			scope = "with no frame inside lib/others/memory (harness bookkeeping?)"
		}
		r.PropFail("data-race", fmt.Sprintf("the race detector reports unsynchronised accesses %s: %s  <->  %s [%s; the attached replay re-runs that concurrent case on the normal binary, the race report itself reproduces with `VERIF_SEED=%d C20_ONLY=race ./check C20 thorough`%s]",
			scope, desc[0], strings.Join(desc[1:], " "), where, r.Seed, raceRepoNote(repo)), replay)
	}

	// property failures the invariant checks of concurrentBody saw inside the child
	reps, _ := filepath.Glob(tmp + "/replays/*.json")
	sort.Strings(reps)
	for _, f := range reps {
		var doc struct {
			Kind, Key, What string
			Replay          interface{}
		}
		if b, err := os.ReadFile(f); err == nil && json.Unmarshal(b, &doc) == nil && doc.Key != "" {
			what := doc.What + " [seen in the -race build of the harness]"
			if doc.Kind == "prop" {
				r.PropFail(doc.Key, what, doc.Replay)
			} else {
				r.TieFail(doc.Key, what, doc.Replay)
			}
		}
	}
	// the child's own histogram (barriers reached, defrag passes) is coverage of this stream
	if b, err := os.ReadFile(tmp + "/evidence.json"); err == nil {
		var ev struct {
			Coverage struct {
				Histogram map[string]int `json:"histogram"`
			} `json:"coverage"`
		}
		if json.Unmarshal(b, &ev) == nil {
			n := 0
			for k, v := range ev.Coverage.Histogram {
				if strings.HasPrefix(k, "concurrent:barrier") || strings.HasPrefix(k, "concurrent:defrag") {
					n += v
				}
			}
			if n > 0 {
				r.Extra["race_stream_barriers_and_defrags"] = n
			}
		}
	}

	status := ""
	switch {
	case hung:
		r.PropFail("race-hang", fmt.Sprintf("the -race build of the concurrent stream did not finish within %d s (%d of %d cases done); killed while running the recorded case", killS, ended, len(cases)), running)
		status = ", killed after timeout"
	case code == 3 || (ended == 0 && !sawCanaryLine && len(reps) == 0):
		// the binary did not get as far as the first case: the detector's runtime could not start here
		// (e.g. "FATAL: ThreadSanitizer: …" on an unsupported address-space layout) or the protocol broke
		if code == raceExit || strings.Contains(errText, "ThreadSanitizer") || code == 3 {
			r.Hit("race:unavailable")
			r.Extra["race_stream"] = fmt.Sprintf("race detector unavailable: the -race binary exited with status %d before the first case: %s", code, raceOneLine(errText+" "+outb.String(), 300))
			return
		}
		r.PropFail("race-child-fault", fmt.Sprintf("the -race build of the harness died with status %d before the first case: %s", code, raceOneLine(errText, 600)), running)
		status = ", child died"
	case code != 0 && code != raceExit && code != 1:
		msg := errText
		if i := strings.Index(msg, "\n\n"); i > 0 {
			msg = msg[:i]
		}
		r.PropFail("race-child-fault", fmt.Sprintf("the allocator brought the -race build of the harness down (exit status %d, %d of %d cases done) while running the recorded case: %s", code, ended, len(cases), raceOneLine(msg, 600)), running)
		status = fmt.Sprintf(", child died with status %d", code)
	}
	if !canary && !hung {
		// the deliberate race of raceCanary() was not reported: "0 reports" would mean nothing
		r.Hit("race:canary-missing")
		status += ", CANARY NOT REPORTED (detector mute: the stream proves nothing in this run)"
	}
	if nrep == 0 && canary && status == "" {
		r.Hit("race:clean")
	}
	if skipped > 0 {
		status += fmt.Sprintf(", %d cases skipped after %d s", skipped, raceSoftS)
	}
	if slowestMs >= 0 {
		status += fmt.Sprintf(" (slowest case %s: %.1f s)", slowest, float64(slowestMs)/1000)
	}
	r.Extra["race_stream"] = fmt.Sprintf("%d cases, %d reports (%d distinct), build %.1f s, run %.1f s%s", ended, nrep, len(seen), buildS, runS, status)
}

func raceRepoNote(repo string) string {
	if repo == "/repo" {
		return ""
	}
	return " with VERIF_REPO=" + repo
}
