// node.go — the allocator AS WIRED INTO THE NODE (C20 anchors client/common/config.go: InitConfig binds
// utxo.Memory_Malloc / utxo.Memory_Free to common.Memory; DefragUTXOMem -> UnspentDB.Relocate).
//
// The other streams of this harness own their Allocator.  A running node does not: it has ONE allocator, created
// by common.InitConfig(), reached only through the function variables utxo.Memory_Malloc / utxo.Memory_Free, and
// reported on / defragmented through the variable common.Memory.  "The allocator's count of live allocations
// always equals the number actually live" is, for the node, a statement about that triple over the whole life of
// the process: start-up, blocks being committed to the UTXO set, run-time configuration changes (TextUI configset
// / configload, WebUI config page: all end in common.Reset()), memory-limit updates, defragmentation passes.
//
// Each case runs in a process of its own (InitConfig registers command-line flags and changes GC settings: once
// per process), re-executing this binary with C20_NODE_CHILD set.  The child
//   - calls the real common.InitConfig() with a config file in a temp dir (allocator mode, or Memory.UseGoHeap),
//   - opens a real utxo.UnspentDB (empty, Rescan) and installs it as common.BlockChain.Unspent,
//   - executes a generated history: raw utxo.Memory_Malloc / utxo.Memory_Free with fill patterns over all size
//     classes and the private path; blocks committed through UnspentDB.CommitBlockTxs (records of 1..N outputs
//     added, partly spent = re-serialised, fully spent = freed; "waves" of same-class records, most of them spent
//     again, so that a later DefragUTXOMem really relocates); configuration changes in the three forms the client
//     has (set_config: copy CFG, unmarshal a fragment, assign, Reset; load_config: SaveConfig, read the file,
//     unmarshal, Reset; WebUI: unmarshal the whole JSON into CFG, Reset, optional SaveConfig) over a list of
//     settings from every section of the config; main.go's defrag_utxo() (DefragUTXOMem if common.Memory != nil,
//     UpdateMemoryLimit under the config lock, DefragMap); MemUsed();
//   - evaluates after EVERY op: allocations the node reports (common.MemUsed) == records actually live (raw handles
//     + records in the UTXO map), and at checkpoints (after every config change / defrag, every few blocks, at the
//     end): fill pattern and Len/Cap of every raw record, every UTXO record byte-for-byte equal to the expected
//     serialisation and present under its key, no two live slot ranges overlap, every live shared record lies in a
//     page that common.Memory lists for its class (ownership), Bytes covers the live records.
// The parent replays the same history on the Lean model (Model/AllocNode.lean, oracle ops `n …`, whose `reset`
// consults the regenerated source facts) and compares (which allocator is reported, Allocs, live) per op.
package main

import (
	"bytes"
	"encoding/json"
	"fmt"
	"os"
	"os/exec"
	"sort"
	"strings"
	"time"
	"unsafe"

	"github.com/piotrnar/gocoin/client/common"
	"github.com/piotrnar/gocoin/lib/chain"
	"github.com/piotrnar/gocoin/lib/others/memory"
	"github.com/piotrnar/gocoin/lib/utxo"
	"verif/vlib"
)

type nodeRec struct {
	ID   int `json:"id"`
	Outs int `json:"outs"`
	Scr  int `json:"scr"` // pk_script length of every output
}

type nodeDel struct {
	ID    int   `json:"id"`
	Spend []int `json:"spend"` // output indexes spent by this block
}

type nodeOp struct {
	K    string    `json:"op"`             // m f b cs cl cw d u c
	Size int       `json:"size,omitempty"` // m
	H    int       `json:"h,omitempty"`    // f: ordinal of the raw malloc
	Add  []nodeRec `json:"add,omitempty"`  // b
	Del  []nodeDel `json:"del,omitempty"`  // b
	Cfg  string    `json:"cfg,omitempty"`  // cs cw: JSON fragment (without the outer braces)
	Save bool      `json:"save,omitempty"` // cw
}

type nodeCase struct {
	Name      string   `json:"name"`
	Seed      uint64   `json:"seed"`
	UseGoHeap bool     `json:"use_go_heap"`
	Ops       []nodeOp `json:"ops"`
}

func (c *nodeCase) replay() map[string]interface{} { return map[string]interface{}{"node": c} }

type nodeObs struct {
	I       int    `json:"i"`
	Rep     int    `json:"rep"` // index (creation order as seen by the child) of the allocator common.Memory points to; -1 nil
	Allocs  int64  `json:"allocs"`
	Live    int    `json:"live"`
	Bytes   int64  `json:"bytes"`
	Reloc   int64  `json:"reloc"`
	Key     string `json:"key,omitempty"` // property predicate failed: key + what
	What    string `json:"what,omitempty"`
	GoHeap  bool   `json:"goheap"` // CFG.Memory.UseGoHeap after the op
	Checked int    `json:"checked,omitempty"`
}

// settings a run-time config change may touch (one from every section of CFG; the values are legal ones)
var nodeCfgFragments = []string{
	`"Net":{"MaxUpKBps":100}`, `"Net":{"MaxDownKBps":0,"MaxUpKBps":0}`, `"Net":{"MaxOutCons":12}`,
	`"TXPool":{"MaxSizeMB":300}`, `"TXPool":{"FeePerByte":0.002}`, `"TXPool":{"MaxRejectMB":10,"MaxNoUtxoMB":2}`,
	`"TXRoute":{"FeePerByte":0.2}`, `"TXRoute":{"Enabled":false}`,
	`"Memory":{"GCPercTrshold":50}`, `"Memory":{"GCPercTrshold":30}`, `"Memory":{"MemoryLimitMB":8192}`, `"Memory":{"MemoryLimitMB":0}`,
	`"Memory":{"UseGoHeap":true}`, `"Memory":{"UseGoHeap":false}`, `"Memory":{"PurgeUnspendableUTXO":false}`,
	`"Memory":{"PurgeUnspendableUTXO":true}`, `"Memory":{"SyncCacheSize":300}`, `"Memory":{"CacheOnDisk":false}`, `"Memory":{"MaxCachedBlks":100}`,
	`"Stat":{"NoCounters":true}`, `"Stat":{"NoCounters":false}`, `"WebUI":{"AllowedIP":"127.0.0.1,192.168.0.0/16"}`,
	`"DropPeers":{"DropEachMinutes":10}`, `"UTXOSave":{"SecondsToTake":100,"BlocksToHold":3}`, `"UserAgent":"/Test:1/"`,
	`"AllBalances":{"MinValue":200000}`, `"LastTrustedBlock":"0000000000000000000000000000000000000000000000000000000000000000"`,
}

// ------------------------------------------------------------------------------------------------
// generator (parent)

type nodeGenState struct {
	g       *vlib.Rng
	ops     []nodeOp
	rawLive []int          // ordinals of live raw mallocs
	rawSize map[int]int    // their sizes
	nRaw    int            // raw mallocs so far
	recs    map[int][]bool // db record id -> alive outputs
	ids     []int          // ids with at least one output alive (order of creation; removed lazily)
	nextID  int
}

func (s *nodeGenState) liveIDs() []int {
	out := s.ids[:0]
	for _, id := range s.ids {
		if _, ok := s.recs[id]; ok {
			out = append(out, id)
		}
	}
	s.ids = out
	return out
}

func (s *nodeGenState) newRec(outs, scr int) nodeRec {
	id := s.nextID
	s.nextID++
	al := make([]bool, outs)
	for i := range al {
		al[i] = true
	}
	s.recs[id] = al
	s.ids = append(s.ids, id)
	return nodeRec{ID: id, Outs: outs, Scr: scr}
}

func (s *nodeGenState) spend(id int, all bool) (nodeDel, bool) {
	al := s.recs[id]
	var sp []int
	left := 0
	for i, a := range al {
		if !a {
			continue
		}
		if all || s.g.Chance(1, 2) {
			sp = append(sp, i)
		} else {
			left++
		}
	}
	if len(sp) == 0 {
		return nodeDel{}, false
	}
	for _, i := range sp {
		al[i] = false
	}
	if left == 0 {
		delete(s.recs, id)
	}
	return nodeDel{ID: id, Spend: sp}, true
}

func scrLen(g *vlib.Rng) int {
	switch g.Intn(8) {
	case 0:
		return 22
	case 1:
		return 34
	case 2:
		return 23
	case 3:
		return 35
	case 4:
		return 1 + g.Intn(300)
	case 5:
		return 68 + g.Intn(9000)
	default:
		return 25
	}
}

func (s *nodeGenState) block(maxAdd, maxDel int) {
	g := s.g
	op := nodeOp{K: "b"}
	used := map[int]bool{}
	ids := s.liveIDs()
	for k := g.Intn(maxDel + 1); k > 0 && len(ids) > 0; k-- {
		id := ids[g.Intn(len(ids))]
		if used[id] {
			continue
		}
		used[id] = true
		if d, ok := s.spend(id, g.Chance(1, 2)); ok {
			op.Del = append(op.Del, d)
		}
	}
	for k := g.Intn(maxAdd + 1); k > 0; k-- {
		outs := 1 + g.Intn(3)
		if g.Chance(1, 6) {
			outs = 1 + g.Intn(60)
		}
		op.Add = append(op.Add, s.newRec(outs, scrLen(g)))
	}
	if len(op.Add)+len(op.Del) > 0 {
		s.ops = append(s.ops, op)
	}
}

// wave: pages·cap records of one large size class, then most of them spent again in a few blocks
func (s *nodeGenState) wave() {
	g := s.g
	c := len(slots) - 1 - g.Intn(9)
	slot := int(slots[c])
	capc := (pgSize - hdrSize) / slot
	pages := 26 + g.Intn(5)
	// record bytes ≈ 32 + 2 + outs·(scr + 3 + 9 + 3); aim a little below the slot size
	want := slot - sliceHdr - 16 - g.Intn(200)
	outs := want/9000 + 1
	scr := (want-40)/outs - 15
	if scr < 70 {
		scr = 70
	}
	var ids []int
	total := pages * capc
	for total > 0 {
		n := 40 + g.Intn(60)
		if n > total {
			n = total
		}
		total -= n
		op := nodeOp{K: "b"}
		for i := 0; i < n; i++ {
			rc := s.newRec(outs, scr)
			ids = append(ids, rc.ID)
			op.Add = append(op.Add, rc)
		}
		s.ops = append(s.ops, op)
		if g.Chance(1, 4) {
			s.cfgChange()
		}
	}
	// spend 60..80 % of them, in random order, a few blocks
	for i := len(ids) - 1; i > 0; i-- {
		j := g.Intn(i + 1)
		ids[i], ids[j] = ids[j], ids[i]
	}
	n := len(ids) * (60 + g.Intn(21)) / 100
	for n > 0 {
		k := 30 + g.Intn(80)
		if k > n {
			k = n
		}
		op := nodeOp{K: "b"}
		for _, id := range ids[:k] {
			if d, ok := s.spend(id, true); ok {
				op.Del = append(op.Del, d)
			}
		}
		ids = ids[k:]
		n -= k
		s.ops = append(s.ops, op)
		if g.Chance(1, 5) {
			s.cfgChange()
		}
	}
}

func (s *nodeGenState) cfgChange() {
	g := s.g
	frag := nodeCfgFragments[g.Intn(len(nodeCfgFragments))]
	if g.Chance(1, 6) { // the setting the wiring block itself reads, flipped at run time
		frag = `"Memory":{"UseGoHeap":` + map[bool]string{true: "true", false: "false"}[g.Bool()] + `}`
	}
	switch g.Intn(4) {
	case 0:
		s.ops = append(s.ops, nodeOp{K: "cl"})
	case 1:
		s.ops = append(s.ops, nodeOp{K: "cw", Cfg: frag, Save: g.Bool()})
	default:
		s.ops = append(s.ops, nodeOp{K: "cs", Cfg: frag})
	}
}

func (s *nodeGenState) raw(bs []int, n int) {
	g := s.g
	for i := 0; i < n; i++ {
		if len(s.rawLive) > 0 && (g.Chance(2, 5) || len(s.rawLive) > 250) {
			k := g.Intn(len(s.rawLive))
			s.ops = append(s.ops, nodeOp{K: "f", H: s.rawLive[k]})
			s.rawLive = append(s.rawLive[:k], s.rawLive[k+1:]...)
		} else {
			sz := randSize(g, bs)
			s.ops = append(s.ops, nodeOp{K: "m", Size: sz})
			s.rawSize[s.nRaw] = sz
			s.rawLive = append(s.rawLive, s.nRaw)
			s.nRaw++
		}
	}
}

// defrag: a defrag_utxo tick.  In the node every record of the allocator belongs to the UTXO map, whose Relocate
// callback re-points it; a raw record of a shared size class has no owner that could be told, so the history
// returns those before the tick (records on the private path are never moved and stay).
func (s *nodeGenState) defrag() {
	keep := s.rawLive[:0]
	for _, h := range s.rawLive {
		if s.rawSize[h]+sliceHdr > maxShared {
			keep = append(keep, h)
		} else {
			s.ops = append(s.ops, nodeOp{K: "f", H: h})
		}
	}
	s.rawLive = keep
	s.ops = append(s.ops, nodeOp{K: "d"})
}

// genNode: start-up, then phases of node life in random order, config changes and defrag ticks in between.
func genNode(g *vlib.Rng, name string, useGoHeap bool, bs []int, phases int) *nodeCase {
	s := &nodeGenState{g: g, recs: map[int][]bool{}, rawSize: map[int]int{}}
	c := &nodeCase{Name: name, Seed: g.U64(), UseGoHeap: useGoHeap}
	waves := 0
	flipAt := g.Intn(phases) // the setting the wiring block reads is flipped away from its start-up value at least once
	for p := 0; p < phases; p++ {
		if p == flipAt {
			s.ops = append(s.ops, nodeOp{K: []string{"cs", "cw"}[g.Intn(2)], Cfg: `"Memory":{"UseGoHeap":` + map[bool]string{true: "false", false: "true"}[useGoHeap] + `}`})
		}
		switch k := g.Intn(10); {
		case k < 3:
			s.raw(bs, 20+g.Intn(120))
		case k < 6:
			for b := 1 + g.Intn(8); b > 0; b-- {
				s.block(40, 25)
			}
		case k < 8 && waves < 2 && !useGoHeap:
			s.wave()
			waves++
			s.defrag()
		case k < 9:
			s.ops = append(s.ops, nodeOp{K: "u"})
		default:
			s.defrag()
		}
		if g.Chance(3, 5) {
			s.cfgChange()
		}
		if g.Chance(1, 3) {
			s.defrag()
		}
		if g.Chance(1, 4) {
			s.ops = append(s.ops, nodeOp{K: "c"})
		}
	}
	// aftermath: everything that is still live keeps being used — blocks spending old records, raw frees
	for b := 3 + g.Intn(5); b > 0; b-- {
		s.block(20, 60)
	}
	s.raw(bs, 40)
	s.defrag()
	s.ops = append(s.ops, nodeOp{K: "c"})
	c.Ops = s.ops
	return c
}

// ------------------------------------------------------------------------------------------------
// parent: run one case in a child, replay it on the model, compare

func nodeModelLine(s string) (rep int, allocs int64, live int, ok bool) {
	// ok rep=<id|-> allocs=<n|-> live=<n> m=.. f=.. next=..
	rep, allocs = -1, 0
	f := strings.Fields(s)
	if len(f) < 4 || f[0] != "ok" {
		return
	}
	for _, t := range f[1:] {
		kv := strings.SplitN(t, "=", 2)
		if len(kv) != 2 {
			return
		}
		switch kv[0] {
		case "rep":
			if kv[1] != "-" {
				fmt.Sscan(kv[1], &rep)
			}
		case "allocs":
			if kv[1] != "-" {
				fmt.Sscan(kv[1], &allocs)
			}
		case "live":
			fmt.Sscan(kv[1], &live)
		}
	}
	return rep, allocs, live, true
}

func b01(b bool) string {
	if b {
		return "1"
	}
	return "0"
}

// runNodeCase returns true when a property failure (a concrete failing history) was reported.
func runNodeCase(c *nodeCase) bool {
	announce(c.replay())
	dir, err := os.MkdirTemp("", "vc20node")
	if err != nil {
		fmt.Println("cannot create temp dir:", err)
		os.Exit(3)
	}
	defer os.RemoveAll(dir)
	cb, _ := json.Marshal(c)
	cf, of := dir+"/case.json", dir+"/obs.jsonl"
	os.WriteFile(cf, cb, 0644)
	cmd := exec.Command(os.Args[0])
	cmd.Env = append(os.Environ(), "C20_NODE_CHILD="+cf, "C20_NODE_OUT="+of, "C20_NODE_DIR="+dir)
	cmd.Dir = dir
	var errb boundedBuf
	errb.max = 1 << 16
	cmd.Stderr = &errb
	cmd.Stdout = nil
	done := make(chan error, 1)
	if err := cmd.Start(); err != nil {
		fmt.Println("cannot start node child:", err)
		os.Exit(3)
	}
	go func() { done <- cmd.Wait() }()
	var runErr error
	select {
	case runErr = <-done:
	case <-time.After(180 * time.Second):
		cmd.Process.Kill()
		<-done
		r.PropFail("node:hang", fmt.Sprintf("case %s: the node history did not finish in 180 s (Malloc/Free/DefragUTXOMem blocked?)", c.Name), c.replay())
		return true
	}
	raw, _ := os.ReadFile(of)
	var obs []nodeObs
	dec := json.NewDecoder(bytes.NewReader(raw))
	for dec.More() {
		var o nodeObs
		if dec.Decode(&o) != nil {
			break
		}
		obs = append(obs, o)
	}
	key := fmt.Sprintf("node|%s|%d|%v", c.Name, len(c.Ops), c.UseGoHeap)
	r.Eval("node-case", key)

	// the model's run of the same history
	o.MustAsk("n new")
	line := o.MustAsk("n init " + b01(c.UseGoHeap))
	goHeap := c.UseGoHeap
	rawRec := map[int]int{} // raw ordinal -> model record
	dbRec := map[int]int{}  // db record id -> model record
	alive := map[int][]bool{}
	next, nraw := 0, 0
	bad := false
	cmp := func(i int, what string) {
		mrep, mall, mlive, ok := nodeModelLine(line)
		if !ok {
			r.TieFail("node:oracle", fmt.Sprintf("case %s op %d (%s): oracle replied %q", c.Name, i, what, line), c.replay())
			bad = true
			return
		}
		if i+1 >= len(obs) {
			return // the child stopped before (reported below)
		}
		ob := obs[i+1]
		if ob.Key != "" {
			return
		}
		if nodeTieReported {
			bad = true // one model/implementation disagreement is reported; later cases only look for a failing input
		} else if ob.Live != mlive {
			nodeTieReported = true
			r.TieFail("node:live-count", fmt.Sprintf("case %s op %d (%s): %d records live on the real node, model %d (harness bookkeeping)", c.Name, i, what, ob.Live, mlive), c.replay())
			bad = true
		} else if ob.Rep != mrep || (mrep >= 0 && ob.Allocs != mall) {
			nodeTieReported = true
			r.TieFail("node:model-vs-impl", fmt.Sprintf("case %s op %d (%s): node reports allocator #%d with Allocs=%d, model allocator #%d with Allocs=%d (live %d)", c.Name, i, what, ob.Rep, ob.Allocs, mrep, mall, mlive), c.replay())
			bad = true
		} else {
			r.TieOK()
		}
	}
	cmp(-1, "InitConfig")
	for i, op := range c.Ops {
		if bad {
			break
		}
		switch op.K {
		case "m":
			line = o.MustAsk("n m")
			rawRec[nraw] = next
			nraw++
			next++
		case "f":
			line = o.MustAsk(fmt.Sprintf("n f %d", rawRec[op.H]))
		case "b":
			for _, a := range op.Add {
				line = o.MustAsk("n m")
				dbRec[a.ID] = next
				next++
				al := make([]bool, a.Outs)
				for k := range al {
					al[k] = true
				}
				alive[a.ID] = al
			}
			for _, d := range op.Del {
				al := alive[d.ID]
				for _, k := range d.Spend {
					al[k] = false
				}
				left := false
				for _, a := range al {
					left = left || a
				}
				if left { // re-serialised: the new record is allocated, the old one freed
					line = o.MustAsk("n m")
					line = o.MustAsk(fmt.Sprintf("n f %d", dbRec[d.ID]))
					dbRec[d.ID] = next
					next++
				} else {
					line = o.MustAsk(fmt.Sprintf("n f %d", dbRec[d.ID]))
					delete(dbRec, d.ID)
				}
			}
		case "cs", "cw":
			if strings.Contains(op.Cfg, `"UseGoHeap":true`) {
				goHeap = true
			} else if strings.Contains(op.Cfg, `"UseGoHeap":false`) {
				goHeap = false
			}
			line = o.MustAsk("n reset " + b01(goHeap))
			r.Hit("node:config-change")
		case "cl":
			line = o.MustAsk("n reset " + b01(goHeap))
			r.Hit("node:config-reload")
		case "d":
			line = o.MustAsk("n other " + b01(goHeap))
			line = o.MustAsk("n d")
		case "u", "c":
			line = o.MustAsk("n other " + b01(goHeap))
		}
		cmp(i, op.K)
	}
	var reloc int64
	for _, ob := range obs {
		if ob.Reloc > reloc {
			reloc = ob.Reloc
		}
		if ob.Key != "" {
			r.PropFail("node:"+ob.Key, fmt.Sprintf("case %s, after op %d of %d: %s", c.Name, ob.I, len(c.Ops), ob.What), c.replay())
			return true
		}
	}
	if reloc > 0 {
		r.Hit("node:defrag-relocated-utxo-records")
	}
	nodeRelocTotal += reloc
	if runErr != nil || len(obs) != len(c.Ops)+1 {
		msg := strings.Join(strings.Fields(errb.String()), " ")
		if i := strings.Index(msg, "goroutine "); i > 0 {
			msg = msg[:i]
		}
		if len(msg) > 500 {
			msg = msg[len(msg)-500:]
		}
		r.PropFail("node:fatal", fmt.Sprintf("case %s: the node process died after op %d of %d (%v): %s", c.Name, len(obs)-1, len(c.Ops), runErr, msg), c.replay())
		return true
	}
	return false
}

var nodeRelocTotal int64
var nodeTieReported bool

func runNodeStream(g *vlib.Rng, n int, bs []int) {
	cases := 0
	for i := 0; i < n; i++ {
		useGoHeap := i%4 == 3
		c := genNode(g.Fork(), fmt.Sprintf("node#%d", i), useGoHeap, bs, r.N(10, 22))
		cases++
		if i == 0 {
			r.Sample(map[string]interface{}{"trace": c.Name, "ops": len(c.Ops), "pattern": "InitConfig, then raw Malloc/Free, blocks committed to a real UnspentDB, waves, config changes (configset / configload / WebUI form), defrag_utxo ticks"})
		}
		if runNodeCase(c) {
			break
		}
	}
	r.Extra["node_wiring"] = map[string]interface{}{"cases": cases, "utxo_records_relocated_by_DefragUTXOMem": nodeRelocTotal}
}

// ------------------------------------------------------------------------------------------------
// child

type nodeDBRec struct {
	txid  [32]byte
	outs  []*utxo.UtxoTxOut // nil = spent
	block uint32
	want  []byte // expected serialisation
}

type nodeRaw struct {
	p    *[]byte
	size int
	tag  int
	live bool
}

func nodeTxid(seed uint64, id int) (t [32]byte) {
	copy(t[:], vlib.NewRng(seed^(uint64(id)+1)*0x9E3779B97F4A7C15).Bytes(32))
	return
}

func nodeScript(seed uint64, id, out, n int) []byte {
	b := vlib.NewRng(seed + uint64(id)*1000003 + uint64(out)).Bytes(n)
	if n > 0 {
		b[0] = 0x76 // never OP_RETURN: PurgeUnspendableUTXO must not drop it
	}
	return b
}

func nodeChild() {
	cf, of := os.Getenv("C20_NODE_CHILD"), os.Getenv("C20_NODE_OUT")
	dir := os.Getenv("C20_NODE_DIR")
	b, err := os.ReadFile(cf)
	var c nodeCase
	if err != nil || json.Unmarshal(b, &c) != nil {
		fmt.Fprintln(os.Stderr, "node child: bad case file")
		os.Exit(3)
	}
	out, err := os.Create(of)
	if err != nil {
		os.Exit(3)
	}
	enc := json.NewEncoder(out)
	if dn, err := os.OpenFile(os.DevNull, os.O_WRONLY, 0); err == nil {
		os.Stdout = dn // InitConfig / Reset print a lot
	}
	// --- start-up, as client/main.go does it
	os.Args = os.Args[:1]
	cfgFile := dir + "/gocoin.conf"
	os.Setenv("GOCOIN_CLIENT_CONFIG", cfgFile)
	if c.UseGoHeap {
		os.WriteFile(cfgFile, []byte(`{"Memory":{"UseGoHeap":true}}`), 0644)
	}
	common.CFG.Datadir = dir + "/data"
	common.InitConfig()
	db := utxo.NewUnspentDb(&utxo.NewUnspentOpts{Dir: dir + "/utxo/", Rescan: true})
	common.BlockChain = &chain.Chain{Unspent: db}

	hdrSize, pgSize, sliceHdr, _, _, slots = memory.VerifConsts()
	maxShared = int(slots[len(slots)-1])

	var seen []*memory.Allocator
	repIdx := func() int {
		if common.Memory == nil {
			return -1
		}
		for i, a := range seen {
			if a == common.Memory {
				return i
			}
		}
		seen = append(seen, common.Memory)
		return len(seen) - 1
	}
	var raws []*nodeRaw
	rawLive := 0
	recs := map[int]*nodeDBRec{}
	height := uint32(0)
	tmp := make([]byte, 0x100000)
	dbCount := func() int {
		n := 0
		for i := range db.HashMap {
			n += len(db.HashMap[i])
		}
		return n
	}
	reloc0 := int64(0)

	// full check: the property's predicates over everything live
	fullCheck := func() (string, string, int) {
		type span struct {
			lo, hi uintptr
			what   string
		}
		var spans []span
		var sumCap int64
		add := func(p *[]byte, what string) {
			lo := *(*uintptr)(unsafe.Pointer(p)) // Data word of the slice header
			spans = append(spans, span{lo, lo + uintptr(cap(*p)), what})
			sumCap += int64(cap(*p))
		}
		for i, h := range raws {
			if !h.live {
				continue
			}
			if len(*h.p) != h.size || cap(*h.p) < h.size {
				return "shape", fmt.Sprintf("raw record #%d (Malloc(%d)): len=%d cap=%d", i, h.size, len(*h.p), cap(*h.p)), 0
			}
			if j := checkFill(*h.p, h.tag); j >= 0 {
				return "content", fmt.Sprintf("raw record #%d (Malloc(%d)) lost its fill pattern at byte %d", i, h.size, j), 0
			}
			if h.size > 0 {
				add(h.p, fmt.Sprintf("raw#%d", i))
			}
		}
		if n := dbCount(); n != len(recs) {
			return "utxo-count", fmt.Sprintf("the UTXO map holds %d records, %d were committed and not fully spent", n, len(recs)), 0
		}
		for id, rc := range recs {
			var k utxo.UtxoKeyType
			copy(k[:], rc.txid[:])
			v := db.HashMap[k[0]][k]
			if v == nil {
				return "utxo-missing", fmt.Sprintf("UTXO record %d is not in the map", id), 0
			}
			if !bytes.Equal(*v, rc.want) {
				return "content", fmt.Sprintf("UTXO record %d (%d bytes) no longer holds the bytes that were serialised into it (len now %d)", id, len(rc.want), len(*v)), 0
			}
			add(v, fmt.Sprintf("utxo#%d", id))
		}
		sort.Slice(spans, func(i, j int) bool { return spans[i].lo < spans[j].lo })
		for i := 1; i < len(spans); i++ {
			if spans[i-1].hi > spans[i].lo {
				return "overlap", fmt.Sprintf("%s [%#x,%#x) overlaps %s [%#x,%#x)", spans[i-1].what, spans[i-1].lo, spans[i-1].hi, spans[i].what, spans[i].lo, spans[i].hi), 0
			}
		}
		if a := common.Memory; a != nil {
			// ownership: every live shared record lies in a page the reported allocator lists for its class
			pages := map[uintptr]int{}
			for cl := range slots {
				vc := a.VerifClassState(cl, 1<<22)
				if len(vc.Errs) > 0 {
					return "structure", fmt.Sprintf("class %d of the reported allocator: %s", cl, vc.Errs[0]), 0
				}
				for _, pg := range vc.Pages {
					pages[pg.Base] = cl
				}
			}
			for _, sp := range spans {
				if int(sp.hi-sp.lo)+sliceHdr > maxShared {
					continue // private mapping
				}
				if _, ok := pages[memory.VerifPageBase(sp.lo)]; !ok {
					return "ownership", fmt.Sprintf("%s lives at %#x, in a page that the allocator the node reports on and defragments (common.Memory) does not have", sp.what, sp.lo), 0
				}
			}
			if by := a.Bytes.Load(); by < sumCap {
				return "bytes", fmt.Sprintf("common.Memory.Bytes = %d, but the live records alone occupy %d bytes", by, sumCap), 0
			}
		}
		return "", "", len(spans)
	}

	observe := func(i int, full bool) bool {
		ob := nodeObs{I: i, Rep: repIdx(), Live: rawLive + dbCount(), GoHeap: common.CFG.Memory.UseGoHeap}
		_, alcs, _ := common.MemUsed()
		ob.Allocs = int64(alcs)
		if common.Memory != nil {
			ob.Bytes = common.Memory.Bytes.Load()
			if int64(ob.Live) != ob.Allocs {
				ob.Key = "allocs-vs-live"
				ob.What = fmt.Sprintf("the node reports %d live allocations (common.MemUsed / common.Memory.Allocs), %d records are actually live (%d raw + %d in the UTXO map)", ob.Allocs, ob.Live, rawLive, ob.Live-rawLive)
			}
		}
		ob.Reloc = reloc0
		if ob.Key == "" && full {
			ob.Key, ob.What, ob.Checked = fullCheck()
		}
		enc.Encode(&ob)
		return ob.Key == ""
	}
	fail := func(i int, key, what string) {
		enc.Encode(&nodeObs{I: i, Rep: repIdx(), Key: key, What: what})
		out.Close()
		os.Exit(0)
	}
	if !observe(-1, true) {
		out.Close()
		os.Exit(0)
	}
	tagCtr := 0
	for i, op := range c.Ops {
		full := false
		switch op.K {
		case "m":
			p := utxo.Memory_Malloc(op.Size)
			if p == nil {
				fail(i, "shape", fmt.Sprintf("utxo.Memory_Malloc(%d) returned nil", op.Size))
			}
			if len(*p) != op.Size || cap(*p) < op.Size {
				fail(i, "shape", fmt.Sprintf("utxo.Memory_Malloc(%d): len=%d cap=%d", op.Size, len(*p), cap(*p)))
			}
			tagCtr++
			fill(*p, tagCtr)
			raws = append(raws, &nodeRaw{p: p, size: op.Size, tag: tagCtr, live: true})
			rawLive++
		case "f":
			h := raws[op.H]
			if j := checkFill(*h.p, h.tag); j >= 0 || len(*h.p) != h.size {
				fail(i, "content", fmt.Sprintf("raw record #%d (Malloc(%d)) lost its fill pattern / length before Free (byte %d, len %d)", op.H, h.size, j, len(*h.p)))
			}
			utxo.Memory_Free(h.p)
			h.live = false
			rawLive--
		case "b":
			height++
			ch := &utxo.BlockChanges{Height: height, DeledTxs: map[[32]byte][]bool{}}
			for _, a := range op.Add {
				rc := &nodeDBRec{txid: nodeTxid(c.Seed, a.ID), block: height}
				for k := 0; k < a.Outs; k++ {
					rc.outs = append(rc.outs, &utxo.UtxoTxOut{Value: uint64(a.ID)*1000 + uint64(k) + 1, PKScr: nodeScript(c.Seed, a.ID, k, a.Scr)})
				}
				recs[a.ID] = rc
				ur := &utxo.UtxoRec{TxID: rc.txid, InBlock: height, Outs: append([]*utxo.UtxoTxOut(nil), rc.outs...)}
				rc.want = append([]byte(nil), *utxo.SerializeU(ur, tmp[:cap(tmp)])...)
				ch.AddList = append(ch.AddList, ur)
			}
			for _, d := range op.Del {
				rc := recs[d.ID]
				sp := make([]bool, len(rc.outs))
				for _, k := range d.Spend {
					sp[k] = true
					rc.outs[k] = nil
				}
				ch.DeledTxs[rc.txid] = sp
				ur := &utxo.UtxoRec{TxID: rc.txid, InBlock: rc.block, Outs: rc.outs}
				if w := utxo.SerializeU(ur, tmp[:cap(tmp)]); w == nil {
					delete(recs, d.ID)
				} else {
					rc.want = append([]byte(nil), *w...)
				}
			}
			var bh [32]byte
			bh[0] = byte(height)
			db.CommitBlockTxs(ch, bh[:])
			full = height%16 == 0
		case "cs": // textui set_config
			common.LockCfg()
			nw := common.CFG
			if e := json.Unmarshal([]byte("{"+op.Cfg+"}"), &nw); e == nil {
				common.CFG = nw
				common.Reset()
			}
			common.UnlockCfg()
			full = true
		case "cl": // textui save_config + load_config
			common.LockCfg()
			common.SaveConfig()
			common.UnlockCfg()
			if d, e := os.ReadFile(common.ConfigFile); e == nil {
				common.LockCfg()
				if json.Unmarshal(d, &common.CFG) == nil {
					common.Reset()
				}
				common.UnlockCfg()
			}
			full = true
		case "cw": // webui p_cfg: the whole config as JSON, edited
			common.LockCfg()
			dat, _ := json.Marshal(&common.CFG)
			var m map[string]json.RawMessage
			json.Unmarshal(dat, &m)
			var fr map[string]json.RawMessage
			json.Unmarshal([]byte("{"+op.Cfg+"}"), &fr)
			for k, v := range fr {
				var sub, cur map[string]json.RawMessage
				if json.Unmarshal(v, &sub) == nil && json.Unmarshal(m[k], &cur) == nil && cur != nil {
					for k2, v2 := range sub {
						cur[k2] = v2
					}
					m[k], _ = json.Marshal(cur)
				} else {
					m[k] = v
				}
			}
			dat, _ = json.Marshal(m)
			if json.Unmarshal(dat, &common.CFG) == nil {
				common.Reset()
			}
			if op.Save {
				common.SaveConfig()
			}
			common.UnlockCfg()
			full = true
		case "d": // client/main.go defrag_utxo()
			for k, h := range raws {
				if h.live && h.size+sliceHdr <= maxShared {
					fail(i, "harness", fmt.Sprintf("raw record #%d of a shared class is live at a defrag tick: it has no owner the relocate callback could re-point (malformed history)", k))
				}
			}
			if common.Memory != nil {
				was := map[int]*[]byte{}
				for id, rc := range recs {
					var k utxo.UtxoKeyType
					copy(k[:], rc.txid[:])
					was[id] = db.HashMap[k[0]][k]
				}
				common.DefragUTXOMem()
				for id, rc := range recs {
					var k utxo.UtxoKeyType
					copy(k[:], rc.txid[:])
					if db.HashMap[k[0]][k] != was[id] {
						reloc0++
					}
				}
				common.LockCfg()
				common.UpdateMemoryLimit()
				common.UnlockCfg()
			}
			db.DefragMap(false)
			full = true
		case "u":
			common.LockCfg()
			common.UpdateMemoryLimit()
			common.UnlockCfg()
		case "c":
			full = true
		default:
			fail(i, "harness", "unknown op "+op.K)
		}
		if !observe(i, full || i == len(c.Ops)-1) {
			break
		}
	}
	out.Close()
	os.Exit(0)
}

func replayNode(c *nodeCase) { runNodeCase(c) }
