// c20 — correspondence harness + property search for C20 (lib/others/memory never corrupts or aliases
// live data).
//
// Real code: memory.NewAllocator / Malloc / Free / DefragAllImproved (built with -tags verif for the
// read-only accessors of lib/others/memory/verif_export.go).
// Model: lean oracle_c20 (Model/Alloc.lean, the definitions Props/C20.lean proves the invariant about).
//
// Three streams:
//  1. single-threaded traces, step by step against the oracle: returned address canonicalised to
//     (page#, slot#), Len/Cap/Data of the returned slice, counters, the complete per-class state
//     (current page, global free list in order, page chain, brk/used/free and per-page free list of
//     every page, pointer chains walked in both directions), the relocate callbacks of every defrag pass.
//  2. 2..16 goroutines, invariant only: property predicate evaluated on the real code (fill pattern
//     intact when freed / relocated / at the end, no two live slot ranges overlap, Len/Cap/Data,
//     Allocs = number live at every barrier, relocate exactly once per moved allocation).
//  3. steady-state churn (churn.go): 2..4 goroutines Free/Malloc records of the same one to three size classes
//     while those classes are in free-list mode; same predicates plus the slot-by-slot structure check, panics
//     and hangs inside Malloc/Free.  Quick and thorough.  (The -race variant of stream 2 is thorough only.)
//
//  3b. mode-edge contention (edge.go): a class is put k slots before the point at which Malloc changes its source
//     of slots (bump region / free list / fresh page), then 2..16 goroutines released together allocate in it.
//
// Nothing waits without a limit: the goroutine phases of streams 2, 3, 3b have a watchdog (a panic inside
// Malloc/Free leaves the class mutex locked), and supervise() kills the child when the announced case makes no
// progress within its allowance - both are reported as property failures with the case as replay.
//
//  4. the allocator as wired into the node (node.go): the real common.InitConfig(), a real UnspentDB, run-time config
//     changes through common.Reset(), defrag_utxo ticks; one child process per case; compared with Model/AllocNode.lean.
//
//  5. out-of-memory faults (fault.go): one child process per case; RLIMIT_AS makes the mmap of a fresh page fail in the
//     middle of a defragmentation pass; the process may stop there, or must keep the whole predicate afterwards.
//     A second family has no pass: Malloc of dry-class and private sizes while every fresh mapping is refused -
//     a nil result must leave Allocs unchanged and equal to the number of live records (fix de3a7c01).
//
// In all streams the property's own predicate is evaluated on the real code independently of the model.
package main

import (
	"bytes"
	"encoding/json"
	"fmt"
	"os"
	"os/exec"
	"reflect"
	"runtime"
	"runtime/debug"
	"sort"
	"strconv"
	"strings"
	"sync"
	"time"
	"unsafe"

	"github.com/piotrnar/gocoin/lib/others/memory"
	"verif/vlib"
)

var r *vlib.Run
var o *vlib.Oracle

// geometry of the real build
var (
	hdrSize, pgSize, sliceHdr, osPage, nodeSz int
	slots                                     []uint32 // after init(): includes the slice header
	maxShared                                 int
)

// ------------------------------------------------------------------------------------------------
// trace representation (also the replay format)

type Op struct {
	K    string `json:"op"`             // m f w d c (c = full checkpoint: counters, every touched class, every live record)
	Size int    `json:"size,omitempty"` // m
	H    int    `json:"h,omitempty"`    // f, w: ordinal of the malloc that created the allocation
}

type Trace struct {
	Name  string `json:"name"`
	Ops   []Op   `json:"ops"`
	Every int    `json:"every,omitempty"` // set when the trace was run with sparse per-step comparison: -replay uses the same spacing
}

type handle struct {
	ptr   *[]byte
	size  int
	tag   int
	maddr string // model address: "s pg i" or "p id"
	live  bool
}

func fillByte(tag, j int) byte { return byte(tag*131 + j*7 + (j >> 8) + 1) }

func fill(b []byte, tag int) {
	for j := range b {
		b[j] = fillByte(tag, j)
	}
}

func checkFill(b []byte, tag int) int {
	for j := range b {
		if b[j] != fillByte(tag, j) {
			return j
		}
	}
	return -1
}

// ------------------------------------------------------------------------------------------------
// interval registry: byte ranges [lo,hi) of all live slots (slice header + capacity), bucketed by MiB

type iv struct {
	lo, hi uintptr
	id     int
}

type registry struct {
	mu sync.Mutex
	b  map[uintptr][]iv // sorted by lo
}

func newRegistry() *registry { return &registry{b: map[uintptr][]iv{}} }

// add returns the id of an overlapping range, or -1
func (g *registry) add(lo, hi uintptr, id int) int {
	g.mu.Lock()
	defer g.mu.Unlock()
	clash := -1
	for k := lo >> 20; k <= (hi-1)>>20; k++ {
		s := g.b[k]
		i := sort.Search(len(s), func(i int) bool { return s[i].lo >= lo })
		if i < len(s) && s[i].lo < hi {
			clash = s[i].id
		}
		if i > 0 && s[i-1].hi > lo {
			clash = s[i-1].id
		}
		s = append(s, iv{})
		copy(s[i+1:], s[i:])
		s[i] = iv{lo, hi, id}
		g.b[k] = s
	}
	return clash
}

func (g *registry) del(lo, hi uintptr) bool {
	g.mu.Lock()
	defer g.mu.Unlock()
	ok := true
	for k := lo >> 20; k <= (hi-1)>>20; k++ {
		s := g.b[k]
		i := sort.Search(len(s), func(i int) bool { return s[i].lo >= lo })
		if i < len(s) && s[i].lo == lo {
			g.b[k] = append(s[:i], s[i+1:]...)
		} else {
			ok = false
		}
	}
	return ok
}

func (g *registry) count() int {
	g.mu.Lock()
	defer g.mu.Unlock()
	n := 0
	for k, s := range g.b {
		for _, x := range s {
			if x.lo>>20 == k {
				n++
			}
		}
	}
	return n
}

// ------------------------------------------------------------------------------------------------
// shape of a returned slice (property predicate, independent of the model)

func sliceShape(b *[]byte, size int) string {
	if b == nil {
		return "Malloc returned nil"
	}
	sh := (*reflect.SliceHeader)(unsafe.Pointer(b))
	if sh.Len != size {
		return fmt.Sprintf("Len=%d, requested %d", sh.Len, size)
	}
	if sh.Cap < size {
		return fmt.Sprintf("Cap=%d < requested %d", sh.Cap, size)
	}
	if sh.Data != uintptr(unsafe.Pointer(b))+uintptr(sliceHdr) {
		return fmt.Sprintf("Data=%#x, expected slot+%d=%#x", sh.Data, sliceHdr, uintptr(unsafe.Pointer(b))+uintptr(sliceHdr))
	}
	return ""
}

func slotRange(b *[]byte) (lo, hi uintptr) {
	sh := (*reflect.SliceHeader)(unsafe.Pointer(b))
	lo = uintptr(unsafe.Pointer(b))
	return lo, lo + uintptr(sliceHdr) + uintptr(sh.Cap)
}

// ------------------------------------------------------------------------------------------------
// single-threaded differential run

type diff struct {
	a         *memory.Allocator
	hs        []*handle
	byPtr     map[uintptr]int // slot address -> handle
	reg       *registry
	pageID    map[uintptr]int // real page base / private pointer -> model id
	tr        *Trace
	rp        interface{}  // replay document when not a trace
	dumpLen   map[int]int  // size of the last state dump per class (large states are compared less often)
	touched   map[int]bool // shared classes the trace has allocated in / freed from
	relocated map[int]int  // class -> records relocated by the defrag passes of this trace (agreed with the model)
	step      int
	failed    bool
	nlive     int
}

// propSink: set in a child process that has no vlib.Run of its own (fault.go); the failure is passed to the
// parent instead of being reported here.
var propSink func(key, what string)

func (d *diff) prop(key, what string) {
	if d.failed {
		return
	}
	d.failed = true
	if propSink != nil {
		propSink(key, fmt.Sprintf("%s: %s", d.tr.Name, what))
		return
	}
	if d.rp != nil {
		r.PropFail(key, fmt.Sprintf("%q: %s", d.tr.Name, what), d.rp)
		return
	}
	r.PropFail(key, fmt.Sprintf("trace %q step %d: %s", d.tr.Name, d.step, what), d.tr)
}

func (d *diff) tie(key, what string) {
	if d.failed {
		return
	}
	d.failed = true
	r.TieFail(key, fmt.Sprintf("trace %q step %d: %s", d.tr.Name, d.step, what), d.tr)
}

func classOfSize(n int) int {
	for i, v := range slots {
		if n <= int(v) {
			return i
		}
	}
	return -1
}

// canonical model-style address of a real pointer
func (d *diff) canon(p uintptr, private bool) (string, bool) {
	if private {
		id, ok := d.pageID[p]
		return fmt.Sprintf("p %d", id), ok
	}
	base := memory.VerifPageBase(p)
	cl := memory.VerifClassOfPtr(p)
	off := int(p-base) - hdrSize
	ss := int(slots[cl])
	if off < 0 || off%ss != 0 {
		return fmt.Sprintf("misaligned %#x in class %d", p-base, cl), false
	}
	id, ok := d.pageID[base]
	return fmt.Sprintf("s %d %d", id, off/ss), ok
}

func (d *diff) doMalloc(size int) {
	var b *[]byte
	b = d.a.Malloc(size)
	h := &handle{ptr: b, size: size, tag: len(d.hs) + 1, live: true}
	hid := len(d.hs)
	d.hs = append(d.hs, h)
	rep := o.MustAsk(fmt.Sprintf("m %d", size))
	if s := sliceShape(b, size); s != "" {
		d.prop("malloc-shape", fmt.Sprintf("Malloc(%d): %s", size, s))
		h.live = false
		return
	}
	d.nlive++
	lo, hi := slotRange(b)
	if c := d.reg.add(lo, hi, hid); c >= 0 {
		d.prop("overlap", fmt.Sprintf("Malloc(%d) returned [%#x,%#x) overlapping live allocation #%d", size, lo, hi, c))
		return
	}
	d.byPtr[lo] = hid
	f := strings.Fields(rep)
	if len(f) < 5 || f[0] != "ok" {
		d.tie("model-malloc", fmt.Sprintf("Malloc(%d): model says %q", size, rep))
		return
	}
	private := size+sliceHdr > maxShared
	mcap, _ := strconv.Atoi(f[len(f)-1])
	if cap(*b) != mcap || (f[1] == "p") != private {
		d.tie("malloc-cap", fmt.Sprintf("Malloc(%d): real cap %d private=%v, model %q", size, cap(*b), private, rep))
		return
	}
	mid, _ := strconv.Atoi(f[2])
	if private {
		d.pageID[lo] = mid
		h.maddr = "p " + f[2]
		r.Hit("malloc:private")
	} else {
		base := memory.VerifPageBase(lo)
		if _, ok := d.pageID[base]; !ok {
			// first slot seen on this page: the model must have created the page in this very step
			d.pageID[base] = mid
			r.Hit("malloc:new-page")
		}
		got, _ := d.canon(lo, false)
		h.maddr = "s " + f[2] + " " + f[3]
		if got != h.maddr {
			d.tie("malloc-addr", fmt.Sprintf("Malloc(%d): real slot (%s), model (%s)", size, got, h.maddr))
			return
		}
		r.Hit(fmt.Sprintf("malloc:class%02d", classOfSize(size+sliceHdr)))
	}
	fill(*b, h.tag)
	if rep := o.MustAsk(fmt.Sprintf("w %s %d", h.maddr, h.tag)); rep != "ok" {
		d.tie("model-write", rep)
		return
	}
	r.TieOK()
}

func (d *diff) checkLiveContent(hid int, when string) bool {
	h := d.hs[hid]
	if s := sliceShape(h.ptr, h.size); s != "" {
		d.prop("header-corrupt", fmt.Sprintf("allocation #%d (size %d) %s: %s", hid, h.size, when, s))
		return false
	}
	if j := checkFill(*h.ptr, h.tag); j >= 0 {
		d.prop("content-corrupt", fmt.Sprintf("allocation #%d (size %d) %s: byte %d is %#x, last written %#x", hid, h.size, when, j, (*h.ptr)[j], fillByte(h.tag, j)))
		return false
	}
	return true
}

func (d *diff) doFree(hid int) {
	h := d.hs[hid]
	if !h.live {
		return
	}
	if !d.checkLiveContent(hid, "before Free") {
		return
	}
	lo, hi := slotRange(h.ptr)
	d.reg.del(lo, hi)
	delete(d.byPtr, lo)
	if h.size+sliceHdr > maxShared {
		delete(d.pageID, lo)
	}
	h.live = false
	d.nlive--
	d.a.Free(h.ptr)
	if rep := o.MustAsk("f " + h.maddr); rep != "ok" {
		d.tie("model-free", fmt.Sprintf("Free(#%d): model says %q", hid, rep))
		return
	}
	r.Hit("free")
	r.TieOK()
}

func (d *diff) doWrite(hid int) {
	h := d.hs[hid]
	if !h.live {
		return
	}
	if !d.checkLiveContent(hid, "before rewrite") {
		return
	}
	h.tag += 1000003
	fill(*h.ptr, h.tag)
	if rep := o.MustAsk(fmt.Sprintf("w %s %d", h.maddr, h.tag)); rep != "ok" {
		d.tie("model-write", rep)
	}
	r.Hit("write")
}

// bytesSettled compares the real Bytes counter EXACTLY with the model's byte count mb (which excludes the
// page cache): Bytes == mb + pageSize*len(pageCache).
//
// Order of effects in the real code (memory.go / malloc.go / free.go):
//   - pageCacheRefill (asynchronous goroutine): mmap; Bytes += pageSize; THEN channel put (and Bytes -= pageSize
//     again + unmap when the channel turned out to be full). Between the Add and the put the counter is one page
//     ahead of the channel per running refill goroutine; that window is a few instructions wide and closes by
//     itself, so it is waited out here rather than tolerated.
//   - Malloc taking a page out of the channel and Free putting an empty page into it do not touch Bytes (the page
//     only changes sides between "class page" = model bytes and "cached"), mmapSharedPage's fallback mmap adds a
//     page to both sides, Free with a full channel subtracts it; DefragAllImproved applies its accumulated delta
//     before it returns. All of these are complete when the call has returned to this (single) goroutine.
//
// Hence at every point where this is called the equation holds except inside a refill goroutine's Add..put
// window, where Bytes is too HIGH by one page per goroutine in that window. The loop reads cacheLen, Bytes,
// cacheLen and accepts only when both cacheLen reads agree and the equation is exact, and the same again after a
// runtime.Gosched(); otherwise it yields / sleeps (10 yields, then up to 50 x 1 ms) and tries again. No slack
// remains: a counter that is off by one page after a Malloc, a Free or a defrag pass never settles and is
// reported. (A counter one page too LOW could be hidden for one call by a refill goroutine descheduled exactly
// inside its window during both reads; it is permanent, so the next call reports it.) Nothing read here is
// recorded, so the evidence does not depend on scheduling.
func (d *diff) bytesSettled(mb int64) (ok bool, bytes int64, cacheLen int) {
	read := func() (bool, int64, int) {
		c1 := d.a.VerifCacheLen()
		b := d.a.Bytes.Load()
		c2 := d.a.VerifCacheLen()
		return c1 == c2 && b == mb+int64(pgSize)*int64(c1), b, c2
	}
	for try := 0; ; try++ {
		ok, bytes, cacheLen = read()
		if ok {
			runtime.Gosched()
			if ok, bytes, cacheLen = read(); ok {
				return
			}
		}
		if try >= 60 {
			return
		}
		if try < 10 {
			runtime.Gosched()
		} else {
			time.Sleep(time.Millisecond)
		}
	}
}

// compare counters; Bytes exactly (see bytesSettled)
func (d *diff) checkCounters() {
	if int(d.a.Allocs.Load()) != d.nlive {
		d.prop("allocs-counter", fmt.Sprintf("Allocs=%d but %d allocations are live", d.a.Allocs.Load(), d.nlive))
		return
	}
	f := strings.Fields(o.MustAsk("st"))
	if len(f) != 7 {
		d.tie("model-st", strings.Join(f, " "))
		return
	}
	ma, _ := strconv.Atoi(f[1])
	mb, _ := strconv.ParseInt(f[2], 10, 64)
	mp, _ := strconv.Atoi(f[3])
	ms, _ := strconv.Atoi(f[4])
	ml, _ := strconv.Atoi(f[5])
	if ma != d.nlive || ml != d.nlive {
		d.tie("allocs-model", fmt.Sprintf("model allocs=%d live=%d, real live %d", ma, ml, d.nlive))
		return
	}
	if int(d.a.PrivateMmaps.Load()) != mp || int(d.a.SharedMmaps.Load()) != ms {
		d.tie("mmaps-counter", fmt.Sprintf("PrivateMmaps=%d SharedMmaps=%d, model %d %d", d.a.PrivateMmaps.Load(), d.a.SharedMmaps.Load(), mp, ms))
		return
	}
	if ok, b, cl := d.bytesSettled(mb); !ok {
		want := mb + int64(pgSize)*int64(cl)
		d.tie("bytes-counter", fmt.Sprintf("Bytes=%d, expected exactly %d = model %d (without page cache) + %d cached pages x %d; difference %d bytes = %.3f pages, did not settle", b, want, mb, cl, pgSize, b-want, float64(b-want)/float64(pgSize)))
		return
	}
	r.TieOK()
}

// the complete state of one class, real vs model
func (d *diff) realClassDump(c int, rebind bool) (string, memory.VerifClass) {
	vc := d.a.VerifClassState(c, 1<<22)
	if len(vc.Errs) > 0 {
		d.prop("pointer-chain", fmt.Sprintf("class %d: %s", c, strings.Join(vc.Errs, "; ")))
		return "", vc
	}
	pid := func(base uintptr) string {
		if id, ok := d.pageID[base]; ok {
			return strconv.Itoa(id)
		}
		return fmt.Sprintf("?%#x", base)
	}
	slot := func(p uintptr) string {
		base := memory.VerifPageBase(p)
		return pid(base) + "." + strconv.Itoa((int(p-base)-hdrSize)/int(slots[c]))
	}
	cur := "0"
	if vc.Cur != 0 {
		cur = pid(vc.Cur)
	}
	var g, pl []string
	for _, n := range vc.Global {
		g = append(g, slot(n))
	}
	for _, p := range vc.Pages {
		var fl []string
		for _, n := range p.FreeList {
			fl = append(fl, strconv.Itoa((int(n-p.Base)-hdrSize)/int(slots[c])))
		}
		ev := "0"
		if p.Evacuating {
			ev = "1"
		}
		pl = append(pl, fmt.Sprintf("%s:%d:%d:%d:%s:%s", pid(p.Base), p.Brk, p.Used, p.Free, ev, strings.Join(fl, ",")))
	}
	j := func(s []string, sep string) string {
		if len(s) == 0 {
			return "-"
		}
		return strings.Join(s, sep)
	}
	return fmt.Sprintf("ok cur=%s pc=%d fs=%d g=%s pl=%s", cur, vc.PageCount, vc.FreeSlots, j(g, ","), j(pl, "|")), vc
}

func (d *diff) checkClass(c int) {
	if d.failed {
		return
	}
	got, _ := d.realClassDump(c, false)
	if d.failed {
		return
	}
	if d.dumpLen == nil {
		d.dumpLen = map[int]int{}
	}
	d.dumpLen[c] = len(got)
	want := o.MustAsk(fmt.Sprintf("cls %d", c))
	if got != want {
		d.tie("class-state", fmt.Sprintf("class %d state differs:\n real  %s\n model %s", c, clip(got), clip(want)))
		return
	}
	r.TieOK()
	// pointer layer: every link field of every node / page header reachable through pointers, against
	// the model's heap (Model/Alloc.lean `Heap`, about which Props.C20.rep_inv is proved)
	gotp := d.realPtrDump(c)
	wantp := o.MustAsk(fmt.Sprintf("ptr %d", c))
	if gotp != wantp {
		d.tie("pointer-layer", fmt.Sprintf("class %d link fields differ:\n real  %s\n model %s", c, clipDiff(gotp, wantp), clipDiff(wantp, gotp)))
		return
	}
	r.TieOK()
}

// clipDiff shows s around the first position where it differs from t.
func clipDiff(s, t string) string {
	i := 0
	for i < len(s) && i < len(t) && s[i] == t[i] {
		i++
	}
	lo := i - 200
	if lo < 0 {
		lo = 0
	}
	hi := i + 300
	if hi > len(s) {
		hi = len(s)
	}
	return fmt.Sprintf("[@%d] …%s…", i, s[lo:hi])
}

// realPtrDump renders VerifLinks (raw prev/next/prevInPage/nextInPage, header prev/next/freeList,
// lists/firstPage/lastPage) with addresses canonicalised to page#.slot#, in the oracle's `ptr` format.
func (d *diff) realPtrDump(c int) string {
	lists, first, last, global, pages, ok := d.a.VerifLinks(c, 1<<22)
	if !ok {
		return "chain longer than 2^22 or leaving its page"
	}
	pid := func(base uintptr) string {
		if base == 0 {
			return "0"
		}
		if id, ok := d.pageID[base]; ok {
			return strconv.Itoa(id)
		}
		return fmt.Sprintf("?%#x", base)
	}
	slot := func(p uintptr) string {
		if p == 0 {
			return "0"
		}
		base := memory.VerifPageBase(p)
		return pid(base) + "." + strconv.Itoa((int(p-base)-hdrSize)/int(slots[c]))
	}
	var sb strings.Builder
	fmt.Fprintf(&sb, "ok L=%s F=%s Z=%s g=", slot(lists), pid(first), pid(last))
	if len(global) == 0 {
		sb.WriteString("-")
	}
	for i, n := range global {
		if i > 0 {
			sb.WriteByte(',')
		}
		fmt.Fprintf(&sb, "%s:%s:%s", slot(n.Addr), slot(n.Prev), slot(n.Next))
	}
	sb.WriteString(" pl=")
	if len(pages) == 0 {
		sb.WriteString("-")
	}
	for i, h := range pages {
		if i > 0 {
			sb.WriteByte('|')
		}
		fmt.Fprintf(&sb, "%s:%s:%s:%s;", pid(h.Base), pid(h.Prev), pid(h.Next), slot(h.FreeList))
		for j, n := range h.Nodes {
			if j > 0 {
				sb.WriteByte(',')
			}
			fmt.Fprintf(&sb, "%s:%s:%s", slot(n.Addr), slot(n.PrevInPage), slot(n.NextInPage))
		}
	}
	return sb.String()
}

func clip(s string) string {
	if len(s) > 600 {
		return s[:600] + "…"
	}
	return s
}

// independent structural check of one class on the real allocator: every slot below brk of every page
// is either live (registered) or on the page's free list, never both; used == number live.
func (d *diff) checkClassAgainstLive(c int) {
	vc := d.a.VerifClassState(c, 1<<22)
	if len(vc.Errs) > 0 {
		d.prop("pointer-chain", fmt.Sprintf("class %d: %s", c, strings.Join(vc.Errs, "; ")))
		return
	}
	ss := uintptr(slots[c])
	inGlobal := map[uintptr]bool{}
	for _, n := range vc.Global {
		inGlobal[n] = true
	}
	total := 0
	for _, p := range vc.Pages {
		onFree := map[uintptr]bool{}
		for _, n := range p.FreeList {
			onFree[n] = true
			if !inGlobal[n] {
				d.prop("freelist-mismatch", fmt.Sprintf("class %d: slot %#x is on its page's free list but not on the global one", c, n))
				return
			}
		}
		total += len(p.FreeList)
		liveN := 0
		for i := 0; i < p.Brk; i++ {
			a := p.Base + uintptr(hdrSize) + uintptr(i)*ss
			_, isLive := d.byPtr[a]
			if isLive && onFree[a] {
				d.prop("live-on-freelist", fmt.Sprintf("class %d: live slot %#x is on a free list", c, a))
				return
			}
			if !isLive && !onFree[a] {
				d.prop("leaked-slot", fmt.Sprintf("class %d: slot %#x below brk is neither live nor on the free list", c, a))
				return
			}
			if isLive {
				liveN++
			}
		}
		if liveN != p.Used || p.Used+p.Free != int(vc.Cap) {
			d.prop("used-counter", fmt.Sprintf("class %d page %#x: used=%d free=%d cap=%d, live slots counted %d", c, p.Base, p.Used, p.Free, vc.Cap, liveN))
			return
		}
	}
	if total != len(vc.Global) {
		d.prop("freelist-mismatch", fmt.Sprintf("class %d: global free list has %d nodes, per-page lists %d", c, len(vc.Global), total))
	}
}

type reloc struct {
	hid      int
	old, new uintptr
}

func (d *diff) doDefrag() {
	// which classes the real allocator will defragment, and their pages before the pass
	nc := len(slots)
	before := make([]memory.VerifClass, nc)
	wantReal := []string{}
	for c := 0; c < nc; c++ {
		before[c] = d.a.VerifClassState(c, 1<<22)
		if len(before[c].Errs) > 0 {
			d.prop("pointer-chain", fmt.Sprintf("class %d before defrag: %s", c, strings.Join(before[c].Errs, "; ")))
			return
		}
		if before[c].Cap > 0 && int(before[c].FreeSlots)/int(before[c].Cap) > 12 {
			wantReal = append(wantReal, strconv.Itoa(c))
		}
	}
	mw := strings.TrimPrefix(o.MustAsk("want"), "ok ")
	if mw == "-" {
		mw = ""
	}
	if mw != strings.Join(wantReal, " ") {
		d.tie("defrag-trigger", fmt.Sprintf("classes over the threshold: real [%s] model [%s]", strings.Join(wantReal, " "), mw))
		return
	}
	var mu sync.Mutex
	seq := make([][]reloc, nc)
	seen := map[int]int{}
	var cbErr string
	cnt := d.a.DefragAllImproved(func(os, ns *[]byte) {
		mu.Lock()
		defer mu.Unlock()
		op, np := uintptr(unsafe.Pointer(os)), uintptr(unsafe.Pointer(ns))
		hid, ok := d.byPtr[op]
		if !ok {
			if cbErr == "" {
				cbErr = fmt.Sprintf("relocate called for %#x which is not a live allocation", op)
			}
			return
		}
		seen[hid]++
		h := d.hs[hid]
		if s := sliceShape(ns, h.size); s != "" && cbErr == "" {
			cbErr = fmt.Sprintf("relocate(#%d): new slice: %s", hid, s)
		}
		if len(*ns) == h.size {
			if j := checkFill(*ns, h.tag); j >= 0 && cbErr == "" {
				cbErr = fmt.Sprintf("relocate(#%d): new location byte %d differs from the old contents", hid, j)
			}
		}
		c := memory.VerifClassOfPtr(op)
		seq[c] = append(seq[c], reloc{hid, op, np})
	})
	if cbErr != "" {
		d.prop("relocate", cbErr)
		return
	}
	total := 0
	for hid, n := range seen {
		if n != 1 {
			d.prop("relocate-count", fmt.Sprintf("relocate called %d times for allocation #%d", n, hid))
			return
		}
		total++
	}
	if cnt != total {
		d.prop("relocate-count", fmt.Sprintf("DefragAllImproved returned %d, relocate was called %d times", cnt, total))
		return
	}
	// move the handles (the owner's side of relocate), update the registry
	for c := range seq {
		for _, rl := range seq[c] {
			lo := rl.old // the old page may be unmapped by now: never read through the old pointer
			d.reg.del(lo, lo+uintptr(slots[c]))
			delete(d.byPtr, lo)
		}
	}
	for c := range seq {
		for _, rl := range seq[c] {
			h := d.hs[rl.hid]
			h.ptr = (*[]byte)(unsafe.Pointer(rl.new))
			if x := d.reg.add(rl.new, rl.new+uintptr(slots[c]), rl.hid); x >= 0 {
				d.prop("overlap", fmt.Sprintf("defrag moved #%d onto live allocation #%d", rl.hid, x))
				return
			}
			d.byPtr[rl.new] = rl.hid
		}
	}
	// evacuation order per class: vanished pages; those with relocations in callback order, empty ones first
	var choice []string
	evacuated := map[int]bool{}
	for c := 0; c < nc; c++ {
		after := d.a.VerifClassState(c, 1<<22)
		still := map[uintptr]bool{}
		for _, p := range after.Pages {
			still[p.Base] = true
		}
		// a page base can be unmapped and mapped again inside one pass: pages that were full/non-evacuated keep
		// their position in the chain, so "vanished" = in before, and (not in after or had relocations)
		hadReloc := map[uintptr]bool{}
		var order []uintptr
		for _, rl := range seq[c] {
			b := memory.VerifPageBase(rl.old)
			if !hadReloc[b] {
				hadReloc[b] = true
				order = append(order, b)
			}
		}
		var empty []int
		for _, p := range before[c].Pages {
			if !still[p.Base] && !hadReloc[p.Base] {
				empty = append(empty, d.pageID[p.Base])
				if p.Used != 0 {
					d.prop("defrag-lost-page", fmt.Sprintf("class %d: page %#x with %d used slots disappeared without relocations", c, p.Base, p.Used))
					return
				}
			}
		}
		sort.Ints(empty)
		var ids []string
		for _, id := range empty {
			ids = append(ids, strconv.Itoa(id))
		}
		for _, b := range order {
			ids = append(ids, strconv.Itoa(d.pageID[b]))
		}
		if len(ids) > 0 {
			choice = append(choice, fmt.Sprintf("%d:%s", c, strings.Join(ids, ",")))
			evacuated[c] = true
			r.Hit(fmt.Sprintf("defrag:class%02d", c))
		}
	}
	req := "d -"
	if len(choice) > 0 {
		req = "d " + strings.Join(choice, ";")
	}
	rep := o.MustAsk(req)
	f := strings.Fields(rep)
	if len(f) < 2 || f[0] != "ok" {
		d.tie("defrag-model", fmt.Sprintf("DefragAllImproved relocated %d; model on %q says %q", cnt, clip(req), clip(rep)))
		return
	}
	if n, _ := strconv.Atoi(f[1]); n != cnt {
		d.tie("defrag-count", fmt.Sprintf("DefragAllImproved relocated %d, model %d (choice %s)", cnt, n, clip(req)))
		return
	}
	// rebuild page bindings of the defragmented classes from the page chains (model plist order = real order)
	for c := range evacuated {
		for _, p := range before[c].Pages {
			delete(d.pageID, p.Base)
		}
	}
	for c := range evacuated {
		after := d.a.VerifClassState(c, 1<<22)
		md := o.MustAsk(fmt.Sprintf("cls %d", c))
		i := strings.Index(md, " pl=")
		var ids []string
		if i >= 0 && md[i+4:] != "-" {
			ids = strings.Split(md[i+4:], "|")
		}
		if len(ids) != len(after.Pages) {
			d.tie("defrag-pages", fmt.Sprintf("class %d has %d pages after defrag, model %d", c, len(after.Pages), len(ids)))
			return
		}
		for k, p := range after.Pages {
			id, _ := strconv.Atoi(strings.SplitN(ids[k], ":", 2)[0])
			d.pageID[p.Base] = id
		}
	}
	// relocation sequence per class against the model's
	mseq := map[int][]string{}
	for _, t := range f[2:] {
		if t == "-" {
			continue
		}
		// "<pg>.<i>><pg>.<i>"
		var op, oi, np, ni int
		if _, err := fmt.Sscanf(t, "%d.%d>%d.%d", &op, &oi, &np, &ni); err != nil {
			d.tie("defrag-model", "unparsable relocation "+t)
			return
		}
		mseq[-1] = append(mseq[-1], t)
	}
	var realAll []string
	for c := 0; c < nc; c++ {
		for _, rl := range seq[c] {
			h := d.hs[rl.hid]
			newc, ok := d.canon(rl.new, false)
			if !ok {
				d.tie("defrag-addr", fmt.Sprintf("relocation target %#x on an unknown page", rl.new))
				return
			}
			oldf := strings.Fields(h.maddr)
			newf := strings.Fields(newc)
			realAll = append(realAll, fmt.Sprintf("%s.%s>%s.%s", oldf[1], oldf[2], newf[1], newf[2]))
			h.maddr = newc
		}
	}
	if strings.Join(realAll, " ") != strings.Join(mseq[-1], " ") {
		d.tie("defrag-sequence", fmt.Sprintf("relocations differ:\n real  %s\n model %s", clip(strings.Join(realAll, " ")), clip(strings.Join(mseq[-1], " "))))
		return
	}
	r.Hit(fmt.Sprintf("defrag:pass relocated=%s", bucket(cnt)))
	r.TieOK()
	for c := 0; c < nc; c++ {
		if d.relocated != nil {
			d.relocated[c] += len(seq[c])
		}
		// a relocating pass in a small dense class (slot incl. slice header <= 128 bytes: thousands of slots per page)
		if len(seq[c]) > 0 && int(slots[c]) <= 128 {
			r.Hit("defrag:small-class")
			r.Hit(fmt.Sprintf("defrag:small-class%02d relocated=%s", c, bucket(len(seq[c]))))
		}
	}
	for c := range evacuated {
		d.checkClass(c)
		d.checkClassAgainstLive(c)
	}
}

func bucket(n int) string {
	switch {
	case n == 0:
		return "0"
	case n < 10:
		return "1-9"
	case n < 100:
		return "10-99"
	case n < 1000:
		return "100-999"
	case n < 10000:
		return "1000-9999"
	}
	return "10000+"
}

// fullCheck is the complete comparison made at the end of every trace and at every "c" op: counters (Bytes
// exactly), for every class the trace has touched the class state incl. list order, the pointer layer and the
// independent slot-by-slot predicate, and for every live allocation its slice header, its fill pattern and
// the model's record of it (size, cap, last written tag, address).
func (d *diff) fullCheck() {
	if d.failed {
		return
	}
	d.checkCounters()
	cs := []int{}
	for c := range d.touched {
		cs = append(cs, c)
	}
	sort.Ints(cs)
	for _, c := range cs {
		d.checkClass(c)
		d.checkClassAgainstLive(c)
	}
	if d.failed {
		return
	}
	// every live allocation still holds what was last written to it; the model agrees
	for hid, h := range d.hs {
		if h.live {
			if !d.checkLiveContent(hid, "at a checkpoint / the end of the trace") {
				break
			}
			rep := o.MustAsk("live " + h.maddr)
			want := fmt.Sprintf("ok %d:%d:%d:%s:%d:%d", h.size, cap(*h.ptr), h.tag, strings.Replace(strings.TrimPrefix(h.maddr, "s "), " ", ".", 1), h.size, h.tag)
			if strings.HasPrefix(h.maddr, "p ") {
				want = fmt.Sprintf("ok %d:%d:%d:p%s:%d:%d", h.size, cap(*h.ptr), h.tag, strings.TrimPrefix(h.maddr, "p "), h.size, h.tag)
			}
			if rep != want {
				d.tie("model-live", fmt.Sprintf("allocation #%d: model %q, real %q", hid, rep, want))
				break
			}
		}
	}
	if !d.failed && d.reg.count() != d.nlive {
		d.tie("registry", "harness bookkeeping out of sync")
	}
}

// runTrace executes one trace on a fresh allocator and a reset model. every = compare full class state
// every that many steps (1 = always).
func runTrace(tr *Trace, every int) *diff {
	if every > 1 {
		tr.Every = every
	}
	announceFor(tr, traceLimitS(len(tr.Ops)))
	if os.Getenv("C20_TIMING") != "" {
		t0 := time.Now()
		defer func() { fmt.Fprintf(os.Stderr, "TIMING %-32s ops=%-7d %v\n", tr.Name, len(tr.Ops), time.Since(t0)) }()
	}
	defer func() {
		if x := recover(); x != nil {
			r.PropFail("panic", fmt.Sprintf("trace %q: allocator panicked / faulted: %v", tr.Name, x), tr)
		}
	}()
	debug.SetPanicOnFault(true)
	if rep := o.MustAsk("reset"); rep != "ok" {
		fmt.Println("oracle reset failed:", rep)
		os.Exit(3)
	}
	d := &diff{a: memory.NewAllocator(), byPtr: map[uintptr]int{}, reg: newRegistry(), pageID: map[uintptr]int{}, tr: tr, touched: map[int]bool{}, relocated: map[int]int{}}
	for i, op := range tr.Ops {
		d.step = i
		if d.failed {
			break
		}
		cl := -1
		switch op.K {
		case "m":
			d.doMalloc(op.Size)
			cl = classOfSize(op.Size + sliceHdr)
			if op.Size+sliceHdr > maxShared {
				cl = -1
			}
		case "f":
			if op.H < len(d.hs) {
				h := d.hs[op.H]
				if h.live && h.size+sliceHdr <= maxShared {
					cl = classOfSize(h.size + sliceHdr)
				}
				d.doFree(op.H)
			}
		case "w":
			if op.H < len(d.hs) {
				d.doWrite(op.H)
			}
		case "d":
			d.doDefrag()
		case "c":
			d.fullCheck()
		}
		if cl >= 0 {
			d.touched[cl] = true
		}
		if !d.failed && (every <= 1 || i%every == 0 || i == len(tr.Ops)-1) {
			d.checkCounters()
			if every <= 1 && cl >= 0 && (d.dumpLen[cl] < 3000 || i%32 == 0) {
				d.checkClass(cl)
			}
		}
	}
	d.fullCheck()
	// release everything so the next trace starts from a clean process state
	for _, h := range d.hs {
		if h.live && !d.failed {
			d.a.Free(h.ptr)
		}
	}
	r.Eval("trace:"+strings.SplitN(tr.Name, "#", 2)[0], tr.Name+fmt.Sprint(len(tr.Ops), tr.Ops[len(tr.Ops)/2]))
	return d
}

// ------------------------------------------------------------------------------------------------
// generators

// boundary sizes: for every class the payload sizes that make size+hdr = slot-1, slot, slot+1
func boundarySizes() []int {
	out := []int{0, 1, 2, 7, 8, 9, 23, 24, 25}
	for _, v := range slots {
		for _, dlt := range []int{-1, 0, 1} {
			s := int(v) - sliceHdr + dlt
			if s >= 0 {
				out = append(out, s)
			}
		}
	}
	// private path: first private size, OS-page roundup boundaries, 200 KiB
	for _, s := range []int{maxShared - sliceHdr + 1, 131072 - sliceHdr - 1, 131072 - sliceHdr, 131072 - sliceHdr + 1, 135168 - sliceHdr, 135168 - sliceHdr + 1, 200 * 1024, 200*1024 - 1, 200*1024 - sliceHdr} {
		out = append(out, s)
	}
	return out
}

func randSize(g *vlib.Rng, bs []int) int {
	switch g.Intn(10) {
	case 0, 1, 2:
		return bs[g.Intn(len(bs))]
	case 3, 4, 5:
		return g.Intn(600)
	case 6:
		return g.Intn(200*1024 + 1)
	case 7:
		return maxShared - sliceHdr - 40 + g.Intn(80)
	default:
		// log-uniform
		return g.Intn(1 << uint(1+g.Intn(17)))
	}
}

// mixed trace: random malloc/free/write over all classes
func genMixed(g *vlib.Rng, name string, n int, bs []int) *Trace {
	tr := &Trace{Name: name}
	var live []int
	nm := 0
	pfree := 3 + g.Intn(5) // out of 10: below 5 grows, above shrinks
	for i := 0; i < n; i++ {
		x := g.Intn(10)
		switch {
		case len(live) == 0 || x >= pfree:
			tr.Ops = append(tr.Ops, Op{K: "m", Size: randSize(g, bs)})
			live = append(live, nm)
			nm++
		case g.Chance(1, 6):
			tr.Ops = append(tr.Ops, Op{K: "w", H: live[g.Intn(len(live))]})
		default:
			k := g.Intn(len(live))
			if g.Chance(1, 2) {
				k = len(live) - 1 - g.Intn(1+len(live)/8) // recently allocated: LIFO reuse of the free list
			}
			tr.Ops = append(tr.Ops, Op{K: "f", H: live[k]})
			live[k] = live[len(live)-1]
			live = live[:len(live)-1]
		}
		if g.Chance(1, 200) {
			tr.Ops = append(tr.Ops, Op{K: "d"})
		}
	}
	return tr
}

// one class only, sizes spread over the class: fills pages, frees, re-allocates from the free lists
func genOneClass(g *vlib.Rng, name string, c int, n int) *Trace {
	tr := &Trace{Name: name}
	lo := 0
	if c > 0 {
		lo = int(slots[c-1]) - sliceHdr + 1
	}
	hi := int(slots[c]) - sliceHdr
	var live []int
	nm := 0
	phase := 0
	for i := 0; i < n; i++ {
		if g.Chance(1, 97) {
			phase = g.Intn(3)
		}
		doM := phase == 0 || (phase == 2 && g.Bool()) || len(live) == 0
		if doM {
			tr.Ops = append(tr.Ops, Op{K: "m", Size: lo + g.Intn(hi-lo+1)})
			live = append(live, nm)
			nm++
		} else {
			k := g.Intn(len(live))
			tr.Ops = append(tr.Ops, Op{K: "f", H: live[k]})
			live[k] = live[len(live)-1]
			live = live[:len(live)-1]
		}
	}
	return tr
}

// defragmentation scenario for class c: allocate `pages` pages worth of slots, free according to the
// fragmentation pattern, defragment, then keep allocating / freeing and defragment again.
func genDefrag(g *vlib.Rng, name string, c int, pages int, pattern int) *Trace {
	tr := &Trace{Name: name}
	capc := (pgSize - hdrSize) / int(slots[c])
	lo := 0
	if c > 0 {
		lo = int(slots[c-1]) - sliceHdr + 1
	}
	hi := int(slots[c]) - sliceHdr
	n := capc*pages - g.Intn(capc)
	for i := 0; i < n; i++ {
		tr.Ops = append(tr.Ops, Op{K: "m", Size: lo + g.Intn(hi-lo+1)})
	}
	freed := make([]bool, n)
	free := func(i int) {
		if !freed[i] {
			freed[i] = true
			tr.Ops = append(tr.Ops, Op{K: "f", H: i})
		}
	}
	switch pattern {
	case 0: // uniform random, fraction 50..95 %
		lo := 1400/pages + 3 // enough to pass the 12-page threshold in most cases
		if lo > 95 || g.Chance(1, 6) {
			lo = 50
		}
		pc := lo + g.Intn(96-lo)
		for i := 0; i < n; i++ {
			if g.Intn(100) < pc {
				free(i)
			}
		}
	case 1: // whole pages emptied (ties at used=0), a few scattered survivors elsewhere
		for p := 0; p < pages; p++ {
			if g.Chance(3, 4) {
				for i := p * capc; i < (p+1)*capc && i < n; i++ {
					free(i)
				}
			} else if g.Bool() {
				for i := p * capc; i < (p+1)*capc && i < n; i++ {
					if g.Chance(1, 2) {
						free(i)
					}
				}
			}
		}
	case 2: // every page keeps exactly k slots (all pages tie)
		k := 1 + g.Intn(3)
		for p := 0; p < pages; p++ {
			for i := p*capc + k; i < (p+1)*capc && i < n; i++ {
				free(i)
			}
		}
	case 3: // just below / at the threshold: about 12.x pages of free slots
		want := capc*12 + g.Intn(2*capc)
		perm := make([]int, n)
		for i := range perm {
			perm[i] = i
		}
		for i := n - 1; i > 0; i-- {
			j := g.Intn(i + 1)
			perm[i], perm[j] = perm[j], perm[i]
		}
		for i := 0; i < want && i < n; i++ {
			free(perm[i])
		}
	case 4: // everything freed: recordsToMove == 0
		for i := 0; i < n; i++ {
			free(i)
		}
	}
	tr.Ops = append(tr.Ops, Op{K: "d"})
	// aftermath: allocate again (free lists and fresh pages after the pass), free some, second pass
	nm := n
	m := capc/2 + g.Intn(capc*2+1)
	for i := 0; i < m; i++ {
		tr.Ops = append(tr.Ops, Op{K: "m", Size: lo + g.Intn(hi-lo+1)})
		nm++
	}
	for i := 0; i < n; i++ {
		if !freed[i] && g.Chance(1, 3) {
			free(i)
		}
	}
	tr.Ops = append(tr.Ops, Op{K: "d"})
	for i := n; i < nm; i++ {
		if g.Chance(1, 2) {
			tr.Ops = append(tr.Ops, Op{K: "f", H: i})
		}
	}
	return tr
}

// genDefragSmall: ONE relocating defragmentation pass in a small dense class c (thousands of slots per page).
// 15..17 pages are filled completely (the last one partly: it stays the bump-allocation page), then every page
// is emptied except for a few records at random slot positions: one page keeps nothing (used == 0, evacuated
// first, nothing to move), one keeps about half (sorted last, it stays and its free list receives relocated
// records), all others keep 1..48 records, two of them the same number (a tie for sort.Slice). That leaves more
// than 12 pages worth of free slots, so DefragAllImproved starts defragClass(c) and has to move the survivors
// of about ten pages. Full checkpoints ("c") stand immediately before and after the pass; the bulk fill / bulk
// free are run with sparse per-step comparison. Aftermath: allocate into the new layout, rewrite and free
// survivors (relocated ones among them), checkpoint, second pass (below the threshold now: the trigger itself
// is compared), final check.
func genDefragSmall(g *vlib.Rng, name string, c int) *Trace {
	tr := &Trace{Name: name}
	capc := (pgSize - hdrSize) / int(slots[c])
	lo := 0
	if c > 0 {
		lo = int(slots[c-1]) - sliceHdr + 1
	}
	hi := int(slots[c]) - sliceHdr
	pages := 15 + g.Intn(3)
	n := capc*pages - g.Intn(capc/2)
	for i := 0; i < n; i++ {
		tr.Ops = append(tr.Ops, Op{K: "m", Size: lo + g.Intn(hi-lo+1)})
	}
	// survivors per page
	keepN := make([]int, pages)
	for p := range keepN {
		keepN[p] = 1 + g.Intn(48)
	}
	pEmpty := g.Intn(pages - 1)
	pHalf := (pEmpty + 1 + g.Intn(pages-2)) % (pages - 1) // another page, never the partly filled last one
	pTie := g.Intn(pages)
	keepN[(pTie+1)%pages] = keepN[pTie]
	keepN[pEmpty] = 0
	keepN[pHalf] = capc/2 + g.Intn(capc/8)
	keep := make([]bool, n)
	var survivors []int
	for p := 0; p < pages; p++ {
		first, end := p*capc, (p+1)*capc
		if end > n {
			end = n
		}
		for k := 0; k < keepN[p] && k < end-first; {
			i := first + g.Intn(end-first)
			if !keep[i] {
				keep[i] = true
				survivors = append(survivors, i)
				k++
			}
		}
	}
	// free the rest: pages in a permuted order, inside a page ascending or descending (free-list order differs)
	perm := make([]int, pages)
	for i := range perm {
		perm[i] = i
	}
	for i := pages - 1; i > 0; i-- {
		j := g.Intn(i + 1)
		perm[i], perm[j] = perm[j], perm[i]
	}
	for _, p := range perm {
		first, end := p*capc, (p+1)*capc
		if end > n {
			end = n
		}
		if g.Bool() {
			for i := first; i < end; i++ {
				if !keep[i] {
					tr.Ops = append(tr.Ops, Op{K: "f", H: i})
				}
			}
		} else {
			for i := end - 1; i >= first; i-- {
				if !keep[i] {
					tr.Ops = append(tr.Ops, Op{K: "f", H: i})
				}
			}
		}
	}
	tr.Ops = append(tr.Ops, Op{K: "c"}, Op{K: "d"}, Op{K: "c"})
	// aftermath
	nm := n
	m := 200 + g.Intn(2000)
	for i := 0; i < m; i++ {
		tr.Ops = append(tr.Ops, Op{K: "m", Size: lo + g.Intn(hi-lo+1)})
		nm++
	}
	for _, i := range survivors {
		switch g.Intn(4) {
		case 0:
			tr.Ops = append(tr.Ops, Op{K: "w", H: i})
		case 1:
			tr.Ops = append(tr.Ops, Op{K: "f", H: i})
		}
	}
	for i := n; i < nm; i++ {
		if g.Chance(1, 3) {
			tr.Ops = append(tr.Ops, Op{K: "f", H: i})
		}
	}
	tr.Ops = append(tr.Ops, Op{K: "c"}, Op{K: "d"})
	return tr
}

// ------------------------------------------------------------------------------------------------
// concurrent stream (invariant only)

type cAlloc struct {
	ptr  *[]byte
	size int
	tag  int
}

// concHangLimit: how long one phase of the concurrent stream may take (normally a few milliseconds; the same
// body runs under the race detector in race.go, where a phase takes up to a few seconds).
func concHangLimit() time.Duration {
	if v, err := strconv.Atoi(os.Getenv("C20_CONC_HANG_S")); err == nil && v > 0 { // self-tests of the watchdog only
		return time.Duration(v) * time.Second
	}
	return 45 * time.Second
}

func runConcurrentSeed(name string, seed uint64, workers, phases, opsPerPhase int, bs []int, defragClassHint int) {
	type rec struct {
		Name                         string
		Seed                         uint64
		Workers, Phases, OpsPerPhase int
		Hint                         int
	}
	replay := map[string]interface{}{"concurrent": rec{name, seed, workers, phases, opsPerPhase, defragClassHint}}
	concurrentBody(name, seed, workers, phases, opsPerPhase, bs, defragClassHint, replay)
}

func concurrentBody(name string, seed uint64, workers, phases, opsPerPhase int, bs []int, hint int, replay interface{}) {
	announce(replay)
	if runtime.GOMAXPROCS(0) < 4 {
		runtime.GOMAXPROCS(4) // a machine with one or two CPUs: let the kernel interleave the goroutines
	}
	a := memory.NewAllocator()
	reg := newRegistry()
	var fmu sync.Mutex
	failed := false
	failCh := make(chan struct{}) // closed by the first failure
	fail := func(key, what string) {
		fmu.Lock()
		if !failed {
			failed = true
			close(failCh)
			r.PropFail(key, fmt.Sprintf("concurrent %q (%d goroutines): %s", name, workers, what), replay)
		}
		fmu.Unlock()
	}
	isFailed := func() bool { fmu.Lock(); defer fmu.Unlock(); return failed }
	lives := make([][]cAlloc, workers)
	rngs := make([]*vlib.Rng, workers)
	base := vlib.NewRng(seed)
	for w := range rngs {
		rngs[w] = base.Fork()
	}
	// sizes for the defrag hint class so that a pass has work to do
	hlo, hhi := 0, int(slots[hint])-sliceHdr
	if hint > 0 {
		hlo = int(slots[hint-1]) - sliceHdr + 1
	}
	capc := (pgSize - hdrSize) / int(slots[hint])
	tagCtr := make([]int, workers)
	stuck := false // goroutines of this case are still blocked inside the allocator: it must not be touched any more
	for ph := 0; ph < phases && !isFailed(); ph++ {
		var wg sync.WaitGroup
		for w := 0; w < workers; w++ {
			wg.Add(1)
			go func(w int) {
				defer wg.Done()
				defer func() {
					if x := recover(); x != nil {
						fail("panic", fmt.Sprintf("allocator panicked / faulted: %v", x))
					}
				}()
				debug.SetPanicOnFault(true)
				g := rngs[w]
				mine := lives[w]
				grow := ph%2 == 0
				for i := 0; i < opsPerPhase && !isFailed(); i++ {
					doM := len(mine) == 0 || (grow && g.Intn(10) < 7) || (!grow && g.Intn(10) < 3)
					if doM {
						size := randSize(g, bs)
						if g.Chance(2, 3) {
							size = hlo + g.Intn(hhi-hlo+1)
						}
						b := a.Malloc(size)
						if s := sliceShape(b, size); s != "" {
							fail("malloc-shape", fmt.Sprintf("Malloc(%d): %s", size, s))
							return
						}
						lo, hi := slotRange(b)
						if c := reg.add(lo, hi, w); c >= 0 {
							fail("overlap", fmt.Sprintf("Malloc(%d) in goroutine %d returned [%#x,%#x) overlapping a live allocation of goroutine %d", size, w, lo, hi, c))
							return
						}
						tagCtr[w]++
						tag := w*1000000 + tagCtr[w]
						fill(*b, tag)
						mine = append(mine, cAlloc{b, size, tag})
					} else {
						k := g.Intn(len(mine))
						x := mine[k]
						if s := sliceShape(x.ptr, x.size); s != "" {
							fail("header-corrupt", fmt.Sprintf("allocation of size %d before Free: %s", x.size, s))
							return
						}
						if j := checkFill(*x.ptr, x.tag); j >= 0 {
							fail("content-corrupt", fmt.Sprintf("allocation of size %d in goroutine %d before Free: byte %d is %#x, last written %#x", x.size, w, j, (*x.ptr)[j], fillByte(x.tag, j)))
							return
						}
						lo, hi := slotRange(x.ptr)
						reg.del(lo, hi)
						a.Free(x.ptr)
						mine[k] = mine[len(mine)-1]
						mine = mine[:len(mine)-1]
					}
				}
				lives[w] = mine
			}(w)
		}
		// watchdog: a goroutine that panics inside Malloc/Free leaves the class mutex locked (the allocator
		// unlocks without defer), and every later call for that class blocks for ever; a lost wake-up or a
		// lock-order inversion inside the allocator has the same effect.  Never wait without a limit.
		done := make(chan struct{})
		go func() { wg.Wait(); close(done) }()
		select {
		case <-done:
		case <-failCh:
		case <-time.After(concHangLimit()):
			fail("hang", fmt.Sprintf("phase %d: Malloc/Free did not return within %v (a goroutine spins inside the allocator or waits for a class mutex that is never released)", ph, concHangLimit()))
		}
		if isFailed() {
			select { // the others stop at their next operation - unless they are blocked inside the allocator
			case <-done:
			case <-time.After(2 * time.Second):
				r.Hit("concurrent:goroutines left blocked inside Malloc/Free after the failure")
				stuck = true
			}
			break
		}
		// barrier: counters and structure at quiescence
		nlive := 0
		byPtr := map[uintptr][2]int{}
		for w := range lives {
			nlive += len(lives[w])
			for k, x := range lives[w] {
				byPtr[uintptr(unsafe.Pointer(x.ptr))] = [2]int{w, k}
			}
		}
		if int(a.Allocs.Load()) != nlive {
			fail("allocs-counter", fmt.Sprintf("Allocs=%d but %d allocations are live", a.Allocs.Load(), nlive))
			break
		}
		d := &diff{a: a, byPtr: map[uintptr]int{}, tr: &Trace{Name: name}, rp: replay}
		for p := range byPtr {
			d.byPtr[p] = 1
		}
		pf := func() bool {
			// reuse the structural check of the differential stream; it reports through d.prop -> r.PropFail
			for c := range slots {
				d.checkClassAgainstLive(c)
				if d.failed {
					fmu.Lock()
					failed = true
					fmu.Unlock()
					return false
				}
			}
			return true
		}
		if !pf() {
			break
		}
		r.Hit(fmt.Sprintf("concurrent:barrier workers=%d", workers))
		// defragmentation pass at the barrier (exclusive, as the code requires)
		if ph%2 == 1 || ph == phases-1 {
			var mu sync.Mutex
			seen := map[uintptr]int{}
			var cbErr string
			cnt := a.DefragAllImproved(func(os, ns *[]byte) {
				mu.Lock()
				defer mu.Unlock()
				op := uintptr(unsafe.Pointer(os))
				wk, ok := byPtr[op]
				if !ok {
					if cbErr == "" {
						cbErr = fmt.Sprintf("relocate called for %#x which is not a live allocation", op)
					}
					return
				}
				seen[op]++
				x := &lives[wk[0]][wk[1]]
				if s := sliceShape(ns, x.size); s != "" && cbErr == "" {
					cbErr = "relocate: new slice: " + s
				} else if j := checkFill(*ns, x.tag); j >= 0 && cbErr == "" {
					cbErr = fmt.Sprintf("relocate: new location byte %d differs from the old contents", j)
				}
				cl := memory.VerifClassOfPtr(op)
				reg.del(op, op+uintptr(slots[cl]))
				x.ptr = ns
			})
			if cbErr != "" {
				fail("relocate", cbErr)
				break
			}
			for p, n := range seen {
				if n != 1 {
					fail("relocate-count", fmt.Sprintf("relocate called %d times for %#x", n, p))
				}
			}
			if cnt != len(seen) {
				fail("relocate-count", fmt.Sprintf("DefragAllImproved returned %d, relocate called for %d allocations", cnt, len(seen)))
			}
			if isFailed() {
				break
			}
			// re-register moved ones, then full overlap + content check
			d.byPtr = map[uintptr]int{}
			for w := range lives {
				for _, x := range lives[w] {
					lo, hi := slotRange(x.ptr)
					_ = hi
					d.byPtr[lo] = 1
				}
			}
			// rebuild the registry from scratch: detects overlap among all live slices
			reg = newRegistry()
			for w := range lives {
				for _, x := range lives[w] {
					lo, hi := slotRange(x.ptr)
					if c := reg.add(lo, hi, w); c >= 0 {
						fail("overlap", fmt.Sprintf("after defrag: [%#x,%#x) overlaps another live allocation", lo, hi))
					}
					if j := checkFill(*x.ptr, x.tag); j >= 0 {
						fail("content-corrupt", fmt.Sprintf("after defrag: allocation of size %d byte %d changed", x.size, j))
					}
				}
			}
			if isFailed() || !pf() {
				break
			}
			if int(a.Allocs.Load()) != nlive {
				fail("allocs-counter", fmt.Sprintf("after defrag Allocs=%d but %d allocations are live", a.Allocs.Load(), nlive))
				break
			}
			r.Hit("concurrent:defrag relocated=" + bucket(cnt))
		}
	}
	_ = capc
	if !isFailed() && !stuck {
		for w := range lives {
			for _, x := range lives[w] {
				if j := checkFill(*x.ptr, x.tag); j >= 0 {
					fail("content-corrupt", fmt.Sprintf("at the end: allocation of size %d byte %d changed", x.size, j))
				}
				a.Free(x.ptr)
			}
		}
		if !isFailed() && a.Allocs.Load() != 0 {
			fail("allocs-counter", fmt.Sprintf("everything freed but Allocs=%d", a.Allocs.Load()))
		}
	}
	r.Eval(fmt.Sprintf("concurrent:%02d-goroutines", workers), fmt.Sprint(name, seed))
}

// ------------------------------------------------------------------------------------------------

func replayFile(path string, bs []int) {
	b, err := os.ReadFile(path)
	if err != nil {
		fmt.Println("cannot read replay:", err)
		os.Exit(3)
	}
	var doc struct {
		Replay json.RawMessage `json:"replay"`
	}
	if json.Unmarshal(b, &doc) != nil {
		fmt.Println("bad replay file")
		os.Exit(3)
	}
	var tr Trace
	if json.Unmarshal(doc.Replay, &tr) == nil && len(tr.Ops) > 0 {
		every := 1
		if tr.Every > 1 {
			every = tr.Every // same comparison points as the recorded run ("c" ops are part of the trace itself)
		}
		runTrace(&tr, every)
		return
	}
	var ch struct {
		Churn churnCase `json:"churn"`
	}
	if json.Unmarshal(doc.Replay, &ch) == nil && ch.Churn.Workers > 0 && len(ch.Churn.Classes) > 0 {
		for _, cl := range ch.Churn.Classes {
			if cl < 0 || cl >= len(slots) {
				fmt.Println("bad replay file: class out of range")
				os.Exit(3)
			}
		}
		replayChurn(ch.Churn)
		return
	}
	var ec struct {
		Edge edgeCase `json:"edge"`
	}
	if json.Unmarshal(doc.Replay, &ec) == nil && ec.Edge.Workers > 0 && ec.Edge.Rounds > 0 {
		if ec.Edge.Class < 0 || ec.Edge.Class >= len(slots) {
			fmt.Println("bad replay file: class out of range")
			os.Exit(3)
		}
		replayEdge(ec.Edge)
		return
	}
	var sc struct {
		Storm stormCase `json:"storm"`
	}
	if json.Unmarshal(doc.Replay, &sc) == nil && sc.Storm.Workers > 0 && sc.Storm.Ops > 0 {
		if sc.Storm.Class < 0 || sc.Storm.Class >= len(slots) {
			fmt.Println("bad replay file: class out of range")
			os.Exit(3)
		}
		replayStorm(sc.Storm)
		return
	}
	var fc struct {
		Fault faultCase `json:"fault"`
	}
	if json.Unmarshal(doc.Replay, &fc) == nil && fc.Fault.Pages > 0 {
		if fc.Fault.Class < 0 || fc.Fault.Class >= len(slots) {
			fmt.Println("bad replay file: class out of range")
			os.Exit(3)
		}
		runFaultCase(fc.Fault)
		return
	}
	var nc struct {
		Node nodeCase `json:"node"`
	}
	if json.Unmarshal(doc.Replay, &nc) == nil && len(nc.Node.Ops) > 0 {
		replayNode(&nc.Node)
		return
	}
	var cc struct {
		Concurrent struct {
			Name                         string
			Seed                         uint64
			Workers, Phases, OpsPerPhase int
			Hint                         int
		} `json:"concurrent"`
	}
	if json.Unmarshal(doc.Replay, &cc) == nil && cc.Concurrent.Workers > 0 {
		c := cc.Concurrent
		// the interleaving is the machine's: repeat until the case fails (at most 20 times)
		for i := 0; i < 20; i++ {
			concurrentBody(c.Name, c.Seed, c.Workers, c.Phases, c.OpsPerPhase, bs, c.Hint, doc.Replay)
			if r.Violations() > 0 {
				return
			}
		}
		fmt.Println("concurrent case did not fail in 20 repetitions (the failure depends on the interleaving)")
		return
	}
	fmt.Println("replay file holds no trace (a broken proof obligation has no input to replay); re-run ./check C20 quick")
}

// announce writes the case that is about to run, so that the supervising parent can name it when the
// allocator brings the process down (a fault inside a goroutine started by the library is fatal).
func announce(doc interface{}) { announceFor(doc, 0) }

// announceFor: as announce, and tells the supervisor how many seconds this case may take before the child is
// declared hung (0 = the default, superviseStallS).  The limit is written first, the case second: the
// supervisor restarts its clock when the case file changes.
func announceFor(doc interface{}, limitS int) {
	if f := os.Getenv("C20_CURFILE"); f != "" {
		b, _ := json.Marshal(doc)
		os.WriteFile(f+".limit", []byte(strconv.Itoa(limitS)), 0644)
		tmp := f + ".tmp"
		os.WriteFile(tmp, b, 0644)
		os.Rename(tmp, f) // atomic: the supervisor never reads half a case
	}
}

const (
	superviseStallS = 240  // default time one announced case may take (streams with their own watchdog: node 180 s)
	superviseTotalS = 7200 // whatever is announced, the child never lives longer than this
)

// traceLimitS: wall-clock allowance of one single-threaded trace (a quick trace takes well under a second, the
// 3.5e5-op small-class trace of the thorough tier about a minute on a loaded machine).
func traceLimitS(ops int) int { return 30 + ops/500 }

// supervise re-executes this binary as a child doing the real work. Exit 0/1 of the child is passed on;
// anything else (fatal fault, runtime abort) is reported as a property failure on the announced case.
func supervise() {
	dir, err := os.MkdirTemp("", "vc20")
	if err != nil {
		fmt.Println("cannot create temp dir:", err)
		os.Exit(3)
	}
	cur := dir + "/current.json"
	cmd := exec.Command(os.Args[0], os.Args[1:]...)
	cmd.Env = append(os.Environ(), "C20_CHILD=1", "C20_CURFILE="+cur)
	cmd.Stdout = os.Stdout
	var errb bytes.Buffer
	cmd.Stderr = &errb
	// watchdog: the child announces every case before running it; when no new case has been announced for
	// longer than the running case's allowance the child is killed and the announced case is reported as a
	// hang (a deadlock inside the allocator blocks the calling goroutine for ever - in the node that is the
	// block-processing thread).  A check must never wait without a limit.
	if err := cmd.Start(); err != nil {
		fmt.Println("cannot start the harness child:", err)
		os.RemoveAll(dir)
		os.Exit(3)
	}
	waitCh := make(chan error, 1)
	go func() { waitCh <- cmd.Wait() }()
	var runErr error
	hung, hungAfter := false, 0.0
	{
		stallS := func() float64 {
			if v, err := strconv.Atoi(os.Getenv("C20_STALL_S")); err == nil && v > 0 { // self-tests of the watchdog only
				return float64(v)
			}
			if lb, err := os.ReadFile(cur + ".limit"); err == nil {
				if v, err := strconv.Atoi(strings.TrimSpace(string(lb))); err == nil && v > 0 {
					return float64(v)
				}
			}
			return superviseStallS
		}
		start, last := time.Now(), time.Now()
		var lastMod time.Time
		tick := time.NewTicker(250 * time.Millisecond)
	loop:
		for {
			select {
			case runErr = <-waitCh:
				break loop
			case <-tick.C:
				if st, err := os.Stat(cur); err == nil && !st.ModTime().Equal(lastMod) {
					lastMod, last = st.ModTime(), time.Now()
				}
				if time.Since(last).Seconds() > stallS() || time.Since(start).Seconds() > superviseTotalS {
					hung, hungAfter = true, time.Since(last).Seconds()
					cmd.Process.Kill()
					runErr = <-waitCh
					break loop
				}
			}
		}
		tick.Stop()
	}
	if hung {
		b, _ := os.ReadFile(cur)
		os.RemoveAll(dir)
		var doc interface{}
		dec := json.NewDecoder(bytes.NewReader(b))
		dec.UseNumber()
		dec.Decode(&doc)
		r.PropFail("hang", fmt.Sprintf("the recorded case did not finish: no progress for %.0f s (Malloc / Free / DefragAllImproved did not return: a goroutine waits for a class mutex that is never released, or spins inside the allocator); the harness child was killed", hungAfter), doc)
		r.Finish("the run was aborted because the real allocator did not return", "supervisor report: the child process running the traces hung")
	}
	code := 0
	if runErr != nil {
		code = -1
		if ee, ok := runErr.(*exec.ExitError); ok {
			code = ee.ExitCode()
		}
	}
	b, _ := os.ReadFile(cur)
	os.RemoveAll(dir)
	if code == 0 || code == 1 {
		os.Stderr.Write(errb.Bytes())
		os.Exit(code)
	}
	if code == 3 {
		os.Stderr.Write(errb.Bytes())
		os.Exit(3)
	}
	var doc interface{}
	dec := json.NewDecoder(bytes.NewReader(b))
	dec.UseNumber() // 64-bit seeds must survive the round trip into the replay file
	dec.Decode(&doc)
	msg := errb.String()
	if i := strings.Index(msg, "\n\n"); i > 0 {
		msg = msg[:i]
	}
	if len(msg) > 600 {
		msg = msg[:600]
	}
	r.PropFail("fatal-fault", "the allocator brought the process down while running the recorded case: "+strings.Join(strings.Fields(msg), " "), doc)
	r.Finish("the run was aborted by a fatal fault in the real allocator", "supervisor report: the child process running the traces died")
}

func main() {
	if os.Getenv("C20_NODE_CHILD") != "" {
		nodeChild() // node.go: one node life (InitConfig once per process)
		return
	}
	if os.Getenv("C20_FAULT_CHILD") != "" {
		faultChild() // fault.go: one history with an injected allocation failure (the process may legitimately stop)
		return
	}
	r = vlib.NewRun("C20")
	if os.Getenv("C20_RACE_CHILD") != "" {
		raceChild() // race.go: this binary was built with -race and runs the concurrent stream only
		return
	}
	if os.Getenv("C20_CHILD") == "" {
		supervise()
		return
	}
	var err error
	o, err = vlib.StartOracle("c20")
	if err != nil {
		fmt.Println("cannot start oracle:", err)
		os.Exit(3)
	}
	defer o.Close()
	hdrSize, pgSize, sliceHdr, osPage, nodeSz, slots = memory.VerifConsts()
	maxShared = int(slots[len(slots)-1])
	bs := boundarySizes()

	// the model's constants (regenerated from the source) against the running build
	{
		var sl []string
		for _, v := range slots {
			sl = append(sl, strconv.Itoa(int(v)))
		}
		want := fmt.Sprintf("ok %d %d %d %d %d %d 12 4 %s", pgSize, hdrSize, sliceHdr, maxShared, len(slots), osPage, strings.Join(sl, ","))
		if got := o.MustAsk("consts"); got != want {
			r.TieFail("consts", fmt.Sprintf("geometry differs: build %q, model %q", want, got), map[string]string{"op": "consts"})
		} else {
			r.TieOK()
		}
		if nodeSz > int(slots[0]) {
			r.PropFail("node-size", fmt.Sprintf("free-list node (%d bytes) does not fit the smallest slot (%d)", nodeSz, slots[0]), map[string]string{"op": "consts"})
		}
	}

	if r.Replay != "" {
		replayFile(r.Replay, bs)
		r.Finish("replay of one recorded case", "replay")
	}
	g := r.Rng

	// 1. corpus: every boundary size once, in order, then freed in reverse and in order (LIFO / FIFO)
	{
		tr := &Trace{Name: "corpus-boundaries"}
		for _, s := range bs {
			tr.Ops = append(tr.Ops, Op{K: "m", Size: s})
		}
		for i := len(bs) - 1; i >= 0; i -= 2 {
			tr.Ops = append(tr.Ops, Op{K: "f", H: i})
		}
		for _, s := range bs {
			tr.Ops = append(tr.Ops, Op{K: "m", Size: s})
		}
		for i := 0; i < 2*len(bs); i++ {
			tr.Ops = append(tr.Ops, Op{K: "w", H: i}, Op{K: "f", H: i})
		}
		runTrace(tr, 1)
		r.Sample(map[string]interface{}{"trace": tr.Name, "ops": len(tr.Ops), "first": tr.Ops[:6]})
	}
	// corpus: fill exactly one page of a large class, one slot more, free all, reallocate (brk == cap edge)
	for _, c := range []int{len(slots) - 1, len(slots) - 3, 40} {
		capc := (pgSize - hdrSize) / int(slots[c])
		tr := &Trace{Name: fmt.Sprintf("corpus-page-edge-class%d", c)}
		sz := int(slots[c]) - sliceHdr
		for i := 0; i < capc+1; i++ {
			tr.Ops = append(tr.Ops, Op{K: "m", Size: sz})
		}
		for i := 0; i < capc+1; i++ {
			tr.Ops = append(tr.Ops, Op{K: "f", H: i})
		}
		for i := 0; i < capc+2; i++ {
			tr.Ops = append(tr.Ops, Op{K: "m", Size: sz - 1})
		}
		tr.Ops = append(tr.Ops, Op{K: "d"})
		runTrace(tr, 1)
	}

	only := os.Getenv("C20_ONLY") // profiling aid: run one stream only
	// 2. mixed traces over all classes
	for i := 0; i < r.N(20, 110) && (only == "" || only == "mixed"); i++ {
		tr := genMixed(g, fmt.Sprintf("mixed#%d", i), r.N(600, 4000), bs)
		runTrace(tr, 1)
		if i == 0 {
			r.Sample(map[string]interface{}{"trace": tr.Name, "ops": len(tr.Ops), "first": tr.Ops[:8]})
		}
	}
	// 3. single-class traces (free-list reuse, page fill)
	for i := 0; i < r.N(16, 80) && (only == "" || only == "class"); i++ {
		c := g.Intn(len(slots))
		if i%3 == 0 {
			c = len(slots) - 1 - g.Intn(12) // few slots per page: page boundaries reached quickly
		}
		tr := genOneClass(g, fmt.Sprintf("class%d#%d", c, i), c, r.N(700, 5000))
		runTrace(tr, 1)
	}
	// 4. defragmentation scenarios at chosen fragmentation levels
	nd := r.N(30, 150)
	for i := 0; i < nd && (only == "" || only == "defrag"); i++ {
		// quick: classes with ≤ ~130 slots per page; thorough: also small-slot classes
		c := len(slots) - 1 - g.Intn(11)
		if r.Thorough() && i%4 == 0 {
			c = 20 + g.Intn(20)
		}
		pattern := i % 5
		pages := 15 + g.Intn(12)
		tr := genDefrag(g, fmt.Sprintf("defrag-p%d-class%d#%d", pattern, c, i), c, pages, pattern)
		runTrace(tr, 97)
		if i == 0 {
			r.Sample(map[string]interface{}{"trace": tr.Name, "ops": len(tr.Ops), "pattern": "uniform random frees, then DefragAllImproved, aftermath, second pass"})
		}
	}
	if r.Thorough() && (only == "" || only == "big") {
		// the smallest class: 10922 slots per page, > 140k allocations
		tr := genDefrag(g, "defrag-p0-class0", 0, 15, 0)
		runTrace(tr, 5003)
		tr = genDefrag(g, "defrag-p1-class3", 3, 14, 1)
		runTrace(tr, 5003)
		tr = genDefrag(g, "defrag-p2-class9", 9, 16, 2)
		runTrace(tr, 5003)
		tr = genDefrag(g, "defrag-p0-class15", 15, 18, 0)
		runTrace(tr, 5003)
	}
	if r.Thorough() && (only == "" || only == "big" || only == "small") {
		// a relocating pass in the smallest class (slot 96 bytes incl. header, 10922 slots per page); full
		// checkpoints around the pass
		c := 0
		tr := genDefragSmall(g.Fork(), fmt.Sprintf("defrag-small-class%d", c), c)
		nrel := -1 // -1: the trace was aborted by a panic (reported by runTrace)
		if d := runTrace(tr, 4099); d != nil {
			nrel = d.relocated[c]
		}
		r.Extra["small_class_defrag"] = map[string]interface{}{"class": c, "slot_bytes": slots[c], "slots_per_page": (pgSize - hdrSize) / int(slots[c]),
			"ops": len(tr.Ops), "records_relocated": nrel}
		r.Sample(map[string]interface{}{"trace": tr.Name, "ops": len(tr.Ops), "records_relocated": nrel,
			"pattern": "15..17 pages of class 0 filled, all but 0..48 records per page freed, checkpoint, DefragAllImproved, checkpoint, aftermath"})
	}

	// 5. concurrent stream: 2..16 goroutines
	nv0 := r.Violations()
	for _, w := range []int{2, 3, 4, 8, 16} {
		for k := 0; k < r.N(2, 8) && (only == "" || only == "conc"); k++ {
			hint := len(slots) - 1 - g.Intn(10)
			seedK := g.U64()
			if r.Violations() > nv0 {
				continue // one concrete failing case is enough (its goroutines may still hold a class mutex); the PRNG stream stays the same
			}
			runConcurrentSeed(fmt.Sprintf("conc-w%d-%d", w, k), seedK, w, 4, r.N(400, 2500), bs, hint)
		}
	}

	// 5b. steady-state churn: 2..4 goroutines sharing one to three size classes in free-list mode (churn.go)
	if only == "" || only == "churn" {
		runChurnStream(g, r.N(12, 48))
	}

	// 5b'. mode-edge contention: goroutines released together k slots before a class changes its source of
	// slots (bump region -> free list -> fresh page) (edge.go)
	if only == "" || only == "edge" {
		runEdgeStream(vlib.NewRng(r.Seed*0x9E3779B97F4A7C15+0xED6E), r.N(20, 80)) // own PRNG stream: the cases of the other streams stay what they were
	}

	// 5b''. header-counter storm: many goroutines hammering ONE page header of a dense class (storm.go)
	if only == "" || only == "storm" {
		runStormStream(vlib.NewRng(r.Seed*0x9E3779B97F4A7C15+0x5708), r.N(8, 24), r.N(2500, 6000)) // own PRNG stream
	}

	// 5b-4. out-of-memory faults: the OS refuses a fresh page in the middle of a defragmentation pass (fault.go)
	if only == "" || only == "fault" {
		runFaultStream(vlib.NewRng(r.Seed*0x9E3779B97F4A7C15+0xFA17), r.N(6, 24)) // own PRNG stream
	}

	// 5c. the allocator as wired into the node: InitConfig, UTXO commits, run-time config changes, defrag_utxo (node.go)
	if only == "" || only == "node" {
		runNodeStream(g, r.N(4, 16), bs)
	}

	// 6. the concurrent stream once more under the race detector (thorough only; race.go)
	if r.Thorough() && (only == "" || only == "race") {
		runRaceStream(g)
	}

	r.Extra["size_classes"] = len(slots)
	r.Extra["boundary_sizes_in_corpus"] = len(bs)
	r.Assume = []string{
		"mmap returns zero-filled memory aligned to 1 MiB that overlaps no other mapping (OS contract)",
		"when the OS refuses memory: inside a defragmentation pass the code panics and the process stops (fail-stop; the model's pass has no abort path — regenerated source fact Gen.MemClasses.defragNoEarlyExit, Props.C20.defrag_pass_has_no_abort_path; the fault stream makes mmap fail inside real passes and requires 'stopped at the fault' or 'survived with the whole predicate intact'); outside a pass Malloc returns nil and nothing else changes — no step of the model (a refused Malloc is the empty step; not a theorem: tested by the fault stream's memory-pressure cases, which refuse Malloc's own shared-page and private mappings and require Allocs unchanged = number live at every nil, then the whole predicate after the limit is lifted; the code used to leave Allocs = live + 1 there, fixed in /repo de3a7c01)",
		"os.Getpagesize() = 4096 and a 64-bit target (slice header 24 bytes, page_header 32 bytes: recomputed from the struct declaration on every run)",
		"callers free only pointers returned by Malloc and not yet freed, do not write outside [0,Len) and do not modify the slice header",
		"DefragAllImproved runs while no Malloc/Free is in progress (as its comment requires)",
		"one model step per Malloc/Free call covers all interleavings of calls because each body runs under the mutex of the class it edits: checked source fact (gen_c20/locks.go extracts the Lock() index, every per-class slice access AND every access to a field of a page header / free-list node of Malloc/Free and their callees, and requires them between Lock() and Unlock() — only the read of header.class that selects the mutex may lie outside; Props.C20.malloc_locks_own_class / free_locks_own_class); not pinned by that fact: accesses through function values or other packages, the slot's own slice header; sync.Mutex itself, the memory model and races inside slot memory are outside the model (the concurrent, churn, edge and storm streams explore them on the real code only, schedule-dependent)",
		"pointer layer: the model keeps every link field (node.prev/next/prevInPage/nextInPage, header.prev/next/freeList, lists/firstPage/lastPage) next to the abstract lists; Props.C20.rep_inv proves they spell the lists, the harness compares every field reachable through pointers with the real allocator's memory (VerifLinks) and also walks next/prev in both directions",
		"node wiring: which functions write common.Memory / utxo.Memory_Malloc / utxo.Memory_Free and from where they are reachable is a regenerated source fact (gen_c20/wire.go, syntactic mention graph over client/, lib/utxo/ and every module package in their transitive import closure — lib/chain, lib/btc, lib/script, lib/others/…; function literals count as part of the function they are written in, `x.Name` as a mention of every method called Name; NOT seen: writes through reflection, go:linkname, unsafe pointers or an alias `p := &utxo.Memory_Free` taken in one function and written through in another — taking the address itself counts as a write); the node stream commits blocks through UnspentDB.CommitBlockTxs, not through lib/chain.AcceptBlock; the TextUI / WebUI config handlers are mirrored by the harness (copy CFG + fragment + Reset, save + load + Reset, whole JSON + Reset), not called",
		"sort.Slice is not stable: the model takes the evacuation order observed on the real allocator and checks it against the selection rule (sorted by used, stop when recordsToFree >= target); theorems hold for every legal order",
	}
	r.Finish("corpus: every size-class boundary (slot-1, slot, slot+1 for all classes of the generated table), the private-mapping boundaries and 200 KiB; page-edge traces; random mixed traces; single-class traces; defragmentation scenarios at 5 fragmentation patterns (uniform, whole pages emptied, equal use on every page, at the 12-page threshold, everything freed) each followed by an aftermath and a second pass; 2..16-goroutine phases with barrier checks and defrag; steady-state churn cases (2..4 goroutines sharing 1..3 size classes in free-list mode, the classes walking a permutation of all dense small classes); mode-edge contention cases (2..16 goroutines released together in one class that was put k slots before the end of its bump region / of its free list / dry, 10..17 rounds each); header-counter storms (8..16 goroutines, thousands of Mallocs each with a third freed again, in one dense class so that all of them update one page header); node lives (InitConfig in allocator or Go-heap mode, raw Malloc/Free, UTXO blocks with partial and full spends, large-class waves, config changes of 27 settings in three forms with Memory.UseGoHeap flipped at least once, defrag_utxo ticks); out-of-memory cases (fault.go: one child process each; a fragmented class of 26..44 pages in three shapes, a DefragAllImproved pass during which RLIMIT_AS follows the process size from before the pass or from the k-th relocation on, so that the next fresh page is refused; accepted: the process stops at the fault, or it survives and every predicate holds through traffic, a second pass and the final frees; and memory-pressure cases without a pass: records in a few classes, RLIMIT_AS just above the process size, 24..47 Mallocs of dry-class sizes — page cache first, then mmap refused —, private sizes of 1..3 MiB — refused —, small private and served sizes; every nil must leave Allocs unchanged and equal to the number of live records; limit lifted, every refused size served, traffic over all classes and private sizes, all freed, the quiescent-point predicate before / after the pressure / after the traffic / at the end). distinct = distinct traces (name, length, middle op); every trace reaches Malloc and Free on the real allocator",
		"single-threaded traces are compared step by step with the Lean model (address, Len/Cap, counters, complete per-class state incl. free-list order, every link field of the pointer layer, relocate sequence); independently of the model the property predicate is evaluated on the real allocator: fill pattern on free/relocate/end, overlap registry over all live slot ranges, Len/Cap/Data, Allocs = live, slot-by-slot 'live xor on free list', relocate exactly once")
}
