package main

// Steady-state churn stream (quick and thorough): 2..4 goroutines Free and Malloc records of the SAME one to
// three size classes while those classes are in free-list mode (the class's current page has been used up, so
// every Malloc pops a.lists[class] and every Free pushes onto it).  This is the situation in which the
// per-class mutex is all that keeps the doubly linked free lists, the per-page lists and the uint16 counters
// of a class consistent: a Malloc or Free that runs under another class's mutex (or under none) corrupts them
// within a few thousand operations on a multi-core machine.
//
// Per case: a fresh allocator; for every class of the case one whole page is allocated (cap[class] Mallocs —
// that exhausts the bump region), the first Workers*Keep records become the goroutines' working sets, the
// others are freed again (free list filled); then the goroutines start together and each performs Ops
// operations on its own records (check header + fill pattern, Free, Malloc of a size that falls into one of
// the case's classes, fill).  Evaluated on the real allocator only (no model): Len/Cap/Data of every returned
// and every freed record, fill pattern of every record when freed and at the end, no two live slot ranges
// overlap, Allocs = number live, per class "every slot below brk is live xor on the free list, used = number
// live, global list = per-page lists" (checkClassAgainstLive), panics / faults inside Malloc/Free, hangs.
// The classes come from a generator that walks a permutation of all dense small classes (slot ≤ 1 KiB+24,
// two per case, so one run covers all of them) and adds a random class of the whole table now and then.
// The schedule is the machine's: a failing case is re-run several times by -replay.

import (
	"fmt"
	"runtime"
	"runtime/debug"
	"sort"
	"sync"
	"sync/atomic"
	"syscall"
	"time"
	"unsafe"

	"github.com/piotrnar/gocoin/lib/others/memory"
	"verif/vlib"
)

type churnCase struct {
	Name    string
	Seed    uint64
	Workers int
	Ops     int // per goroutine
	Keep    int // working-set size per goroutine (fluctuates between Keep/2 and 2*Keep)
	Classes []int
}

func (c churnCase) replay() map[string]interface{} { return map[string]interface{}{"churn": c} }

// payload size range of a class
func classSizeRange(c int) (lo, hi int) {
	hi = int(slots[c]) - sliceHdr
	if c > 0 {
		lo = int(slots[c-1]) - sliceHdr + 1
	}
	return
}

// denseSmallClasses: classes whose slot is at most 1 KiB + header (thousands of slots per page)
func denseSmallClasses() []int {
	var out []int
	for c, v := range slots {
		if int(v) <= 1024+sliceHdr {
			out = append(out, c)
		}
	}
	return out
}

func churnPlan(g *vlib.Rng, n int) []churnCase {
	dense := denseSmallClasses()
	perm := append([]int(nil), dense...)
	for i := len(perm) - 1; i > 0; i-- {
		j := g.Intn(i + 1)
		perm[i], perm[j] = perm[j], perm[i]
	}
	var out []churnCase
	for k := 0; k < n; k++ {
		c := churnCase{Name: fmt.Sprintf("churn#%d", k), Seed: g.U64(), Workers: 4, Ops: 2500 + g.Intn(1500), Keep: 8 << uint(g.Intn(4))}
		if k%4 == 3 {
			c.Workers = 2 + g.Intn(2)
		}
		c.Classes = []int{perm[(2*k)%len(perm)]}
		if k%3 != 2 { // two thirds of the cases share two classes, one third hammers a single one
			if d := perm[(2*k+1)%len(perm)]; d != c.Classes[0] {
				c.Classes = append(c.Classes, d)
			}
		}
		if g.Chance(1, 4) {
			x := g.Intn(len(slots))
			dup := false
			for _, y := range c.Classes {
				dup = dup || x == y
			}
			if !dup {
				c.Classes = append(c.Classes, x)
			}
		}
		out = append(out, c)
	}
	return out
}

// churnOnce runs one case; it returns true when the allocator must not be used any more by later cases
// (a failure was reported).
func churnOnce(c churnCase) (bad bool) {
	rp := c.replay()
	announce(rp)
	if runtime.GOMAXPROCS(0) < 4 {
		runtime.GOMAXPROCS(4)
	}
	a := memory.NewAllocator()
	var failed atomic.Bool
	var fmu sync.Mutex
	failCh := make(chan struct{}) // closed by the first failure
	fail := func(key, what string) {
		fmu.Lock()
		if !failed.Load() {
			failed.Store(true)
			close(failCh)
			r.PropFail("churn-"+key, fmt.Sprintf("churn %q (%d goroutines sharing classes %v, free-list mode): %s", c.Name, c.Workers, c.Classes, what), rp)
		}
		fmu.Unlock()
	}
	base := vlib.NewRng(c.Seed)
	pagesSeen := map[uintptr]bool{}
	lives := make([][]cAlloc, c.Workers)
	tagCtr := make([]int, c.Workers)
	newTag := func(w int) int { tagCtr[w]++; return (w+1)<<22 + tagCtr[w] }

	// warm-up (single goroutine): use up one page per class, keep the working sets, free the rest
	ok := func() (ok bool) {
		defer func() {
			if x := recover(); x != nil {
				fail("panic", fmt.Sprintf("warm-up: allocator panicked / faulted: %v", x))
				ok = false
			}
		}()
		debug.SetPanicOnFault(true)
		for _, cl := range c.Classes {
			lo, hi := classSizeRange(cl)
			capc := (pgSize - hdrSize) / int(slots[cl])
			keepN := c.Workers * c.Keep / len(c.Classes)
			if keepN > capc/2 {
				keepN = capc / 2
			}
			var rest []*[]byte
			for i := 0; i < capc; i++ {
				size := lo + base.Intn(hi-lo+1)
				b := a.Malloc(size)
				if s := sliceShape(b, size); s != "" {
					fail("malloc-shape", fmt.Sprintf("warm-up Malloc(%d): %s", size, s))
					return false
				}
				pagesSeen[memory.VerifPageBase(uintptr(unsafe.Pointer(b)))] = true
				if i < keepN {
					w := i % c.Workers
					tag := newTag(w)
					fill(*b, tag)
					lives[w] = append(lives[w], cAlloc{b, size, tag})
				} else {
					rest = append(rest, b)
				}
			}
			// free the rest in a scattered order (stride walk), so the global list interleaves slots
			n := len(rest)
			if n > 0 {
				stride := 1 + base.Intn(97)
				for gcd(stride, n) != 1 {
					stride++
				}
				for i, k := 0, base.Intn(n); i < n; i, k = i+1, (k+stride)%n {
					a.Free(rest[k])
				}
			}
		}
		return true
	}()
	if !ok {
		return true
	}

	// the parallel phase
	rngs := make([]*vlib.Rng, c.Workers)
	for w := range rngs {
		rngs[w] = base.Fork()
	}
	var ready atomic.Int32
	var wg sync.WaitGroup
	for w := 0; w < c.Workers; w++ {
		wg.Add(1)
		go func(w int) {
			defer wg.Done()
			defer func() {
				if x := recover(); x != nil {
					fail("panic", fmt.Sprintf("allocator panicked / faulted in goroutine %d: %v", w, x))
				}
			}()
			debug.SetPanicOnFault(true)
			g := rngs[w]
			mine := lives[w]
			ctr := tagCtr[w]
			// start together
			ready.Add(1)
			for spin := 0; int(ready.Load()) < c.Workers; spin++ {
				if spin > 2000 {
					runtime.Gosched()
				}
			}
			for i := 0; i < c.Ops && !failed.Load(); i++ {
				doM := len(mine) < c.Keep/2+1 || (len(mine) < 2*c.Keep && g.Intn(2) == 0)
				if doM {
					cl := c.Classes[g.Intn(len(c.Classes))]
					lo, hi := classSizeRange(cl)
					size := lo + g.Intn(hi-lo+1)
					b := a.Malloc(size)
					if s := sliceShape(b, size); s != "" {
						fail("malloc-shape", fmt.Sprintf("Malloc(%d) in goroutine %d: %s", size, w, s))
						return
					}
					tag := newTagW(&ctr, w)
					fill(*b, tag)
					mine = append(mine, cAlloc{b, size, tag})
				} else {
					k := g.Intn(len(mine))
					x := mine[k]
					if s := sliceShape(x.ptr, x.size); s != "" {
						fail("header-corrupt", fmt.Sprintf("live allocation of size %d of goroutine %d, before its Free: %s", x.size, w, s))
						return
					}
					if j := checkFill(*x.ptr, x.tag); j >= 0 {
						fail("content-corrupt", fmt.Sprintf("live allocation of size %d of goroutine %d, before its Free: byte %d is %#x, last written %#x", x.size, w, j, (*x.ptr)[j], fillByte(x.tag, j)))
						return
					}
					a.Free(x.ptr)
					mine[k] = mine[len(mine)-1]
					mine = mine[:len(mine)-1]
				}
			}
			lives[w] = mine
		}(w)
	}
	done := make(chan struct{})
	go func() { wg.Wait(); close(done) }()
	select {
	case <-done:
	case <-failCh:
	case <-time.After(60 * time.Second):
		// a goroutine spins inside the allocator or waits for a class mutex that is never released
		fail("hang", "Malloc/Free did not return within 60 s (a goroutine spins inside the allocator or waits for a class mutex that is never released)")
	}
	if failed.Load() {
		// after a panic inside Malloc/Free the class mutex stays locked: do not wait for the others for ever
		select {
		case <-done:
		case <-time.After(2 * time.Second):
		}
		r.Eval(fmt.Sprintf("churn:%d-goroutines", c.Workers), fmt.Sprint(c.Name, c.Seed))
		return true
	}

	// quiescent checks
	func() {
		defer func() {
			if x := recover(); x != nil {
				fail("panic", fmt.Sprintf("final checks: fault while reading live allocations / allocator state: %v", x))
			}
		}()
		type rg struct{ lo, hi uintptr }
		var all []rg
		d := &diff{a: a, byPtr: map[uintptr]int{}, tr: &Trace{Name: c.Name}, rp: rp}
		nlive := 0
		for w := range lives {
			for _, x := range lives[w] {
				nlive++
				if s := sliceShape(x.ptr, x.size); s != "" {
					fail("header-corrupt", fmt.Sprintf("at the end: live allocation of size %d of goroutine %d: %s", x.size, w, s))
					return
				}
				if j := checkFill(*x.ptr, x.tag); j >= 0 {
					fail("content-corrupt", fmt.Sprintf("at the end: live allocation of size %d of goroutine %d: byte %d changed", x.size, w, j))
					return
				}
				lo, hi := slotRange(x.ptr)
				all = append(all, rg{lo, hi})
				d.byPtr[lo] = 1
				pagesSeen[memory.VerifPageBase(lo)] = true
			}
		}
		sort.Slice(all, func(i, j int) bool { return all[i].lo < all[j].lo })
		for i := 1; i < len(all); i++ {
			if all[i].lo < all[i-1].hi {
				fail("overlap", fmt.Sprintf("two live allocations overlap: [%#x,%#x) and [%#x,%#x)", all[i-1].lo, all[i-1].hi, all[i].lo, all[i].hi))
				return
			}
		}
		if int(a.Allocs.Load()) != nlive {
			fail("allocs-counter", fmt.Sprintf("Allocs=%d but %d allocations are live", a.Allocs.Load(), nlive))
			return
		}
		for _, cl := range c.Classes {
			d.checkClassAgainstLive(cl)
			if d.failed {
				fmu.Lock()
				if !failed.Load() {
					failed.Store(true)
					close(failCh)
				}
				fmu.Unlock()
				return
			}
		}
		for w := range lives {
			for _, x := range lives[w] {
				a.Free(x.ptr)
			}
		}
		if a.Allocs.Load() != 0 {
			fail("allocs-counter", fmt.Sprintf("everything freed but Allocs=%d", a.Allocs.Load()))
		}
	}()
	r.Eval(fmt.Sprintf("churn:%d-goroutines", c.Workers), fmt.Sprint(c.Name, c.Seed))
	r.Hit(fmt.Sprintf("churn:classes=%d keep=%s", len(c.Classes), bucket(c.Keep)))
	if failed.Load() {
		return true
	}
	// the allocator is dropped here; give its pages back to the OS (Free never unmaps a shared page)
	for pg := range pagesSeen {
		syscall.Syscall(syscall.SYS_MUNMAP, pg, uintptr(pgSize), 0)
	}
	return false
}

func newTagW(ctr *int, w int) int { *ctr++; return (w+1)<<22 + *ctr }

func gcd(a, b int) int {
	for b != 0 {
		a, b = b, a%b
	}
	return a
}

func runChurnStream(g *vlib.Rng, n int) {
	covered := map[int]bool{}
	for _, c := range churnPlan(g, n) {
		for _, cl := range c.Classes {
			covered[cl] = true
		}
		if churnOnce(c) {
			break // one concrete failing case is enough; goroutines of that case may still hold class mutexes
		}
	}
	r.Extra["churn_classes_covered"] = len(covered)
}

// replayChurn re-runs a recorded case; the interleaving is the machine's, so it is repeated until it fails
// (at most 30 times).
func replayChurn(c churnCase) {
	for i := 0; i < 30; i++ {
		if churnOnce(c) {
			return
		}
	}
	fmt.Println("churn case did not fail in 30 repetitions (the failure depends on the interleaving)")
}
