// gen_c11 regenerates lean/GocoinV/Gen/ConcFacts.lean from /repo (translator part of the C11 tie).
// For every function of the concurrent block-processing paths it extracts, in source order, the
// sequence of synchronisation operations (Lock/Unlock/RLock/RUnlock and on which mutex expression,
// channel send/receive/select cases, WaitGroup Add/Done/Wait, atomic operations, `go` statements,
// calls to the other functions of the protocol) together with the reads and writes of the shared
// fields the model tracks and the block structure (branches, early exits). The Lean side runs a
// lock-discipline checker over exactly these lists and restates their synchronisation skeletons.
package main

import (
	"fmt"
	"go/ast"
	"go/token"
	"os"
	"sort"
	"strings"

	"verif/vlib"
	"verif/vtrans"
)

func die(err error) {
	fmt.Fprintln(os.Stderr, "TRANSLATE-ERROR:", err)
	os.Exit(2)
}

type ev struct {
	kind string // Lean constructor
	name string // "" for structural events
}

type spec struct {
	file, recv, fn string
	lean           string   // Lean def name
	tracked        []string // shared expressions (keys) whose reads/writes are recorded
	calls          []string // callee names recorded as .call
	alias          bool     // a local variable assigned from a tracked slice aliases it (same backing array)
}

func key(x ast.Expr) string {
	switch e := x.(type) {
	case *ast.Ident:
		return e.Name
	case *ast.SelectorExpr:
		k := key(e.X)
		if k == "" {
			return ""
		}
		return k + "." + e.Sel.Name
	case *ast.IndexExpr:
		k := key(e.X)
		if k == "" {
			return ""
		}
		return k + "[]"
	case *ast.StarExpr:
		return key(e.X)
	case *ast.ParenExpr:
		return key(e.X)
	case *ast.UnaryExpr:
		if e.Op == token.AND {
			return key(e.X)
		}
	case *ast.SliceExpr:
		return key(e.X)
	}
	return ""
}

var wgNames = []string{"wg", "writingDone", "lastFileClosed", "data_files_done"}
var atomicFields = []string{"WritingInProgress", "DirtyDB", "Trusted", "totalTxs", "dataSize", "recRelocateCnt"}

func hasSuffixName(k string, names []string) bool {
	for _, n := range names {
		if k == n || strings.HasSuffix(k, "."+n) {
			return true
		}
	}
	return false
}

type walker struct {
	sp    *spec
	out   []ev
	alias map[string]string // local identifier -> tracked name it was assigned from (spec.alias only)
}

func (w *walker) emit(kind, name string) { w.out = append(w.out, ev{kind, name}) }

// trackedOf returns the tracked name an expression key falls under ("" if none).
func (w *walker) trackedOf(k string) string {
	best := ""
	for a, t := range w.alias {
		if k == a || strings.HasPrefix(k, a+"[") || strings.HasPrefix(k, a+".") {
			return t
		}
	}
	for _, t := range w.sp.tracked {
		if k == t || strings.HasPrefix(k, t+"[") || strings.HasPrefix(k, t+".") {
			if len(t) > len(best) {
				best = t
			}
		}
	}
	return best
}

// expr records reads (and the synchronisation operations / calls) inside an expression, in source order.
func (w *walker) expr(x ast.Node) {
	if x == nil {
		return
	}
	ast.Inspect(x, func(n ast.Node) bool {
		switch e := n.(type) {
		case *ast.FuncLit:
			w.emit("fnBegin", "")
			w.block(e.Body.List)
			w.emit("fnEnd", "")
			return false
		case *ast.CallExpr:
			return w.call(e)
		case *ast.UnaryExpr:
			if e.Op == token.ARROW {
				if call, ok := e.X.(*ast.CallExpr); ok && key(call.Fun) == "time.After" {
					w.emit("recv", "time.After")
					w.expr(call)
					return false
				}
				w.emit("recv", key(e.X))
				return false
			}
		case *ast.SelectorExpr, *ast.IndexExpr, *ast.Ident:
			k := key(e.(ast.Expr))
			if t := w.trackedOf(k); t != "" {
				w.emit("rd", t)
				// index sub-expressions may read other tracked things
				w.indexSubs(e.(ast.Expr))
				return false
			}
		}
		return true
	})
}

func (w *walker) indexSubs(x ast.Expr) {
	switch e := x.(type) {
	case *ast.IndexExpr:
		w.indexSubs(e.X)
		w.expr(e.Index)
	case *ast.SelectorExpr:
		w.indexSubs(e.X)
	case *ast.StarExpr:
		w.indexSubs(e.X)
	case *ast.ParenExpr:
		w.indexSubs(e.X)
	}
}

// call handles a call expression; returns whether Inspect should descend.
func (w *walker) call(c *ast.CallExpr) bool {
	fk := key(c.Fun)
	if sel, ok := c.Fun.(*ast.SelectorExpr); ok {
		recv := key(sel.X)
		m := sel.Sel.Name
		switch m {
		case "Lock", "Unlock", "RLock", "RUnlock":
			if recv != "" && len(c.Args) == 0 {
				w.emit(map[string]string{"Lock": "lock", "Unlock": "unlock", "RLock": "rlock", "RUnlock": "runlock"}[m], recv)
				return false
			}
		case "Add", "Done", "Wait":
			if hasSuffixName(recv, wgNames) {
				for _, a := range c.Args {
					w.expr(a)
				}
				w.emit(map[string]string{"Add": "wgAdd", "Done": "wgDone", "Wait": "wgWait"}[m], recv)
				return false
			}
			if m == "Add" && hasSuffixName(recv, atomicFields) {
				for _, a := range c.Args {
					w.expr(a)
				}
				w.emit("atomic", recv)
				return false
			}
		case "Get", "Set", "Clr", "Load", "Store":
			if hasSuffixName(recv, atomicFields) {
				for _, a := range c.Args {
					w.expr(a)
				}
				w.emit("atomic", recv)
				return false
			}
		}
		if recv == "atomic" && len(c.Args) > 0 {
			for _, a := range c.Args[1:] {
				w.expr(a)
			}
			w.emit("atomic", key(c.Args[0]))
			return false
		}
		if recv == "vhook" {
			return false
		}
	}
	switch fk {
	case "delete", "copy":
		if len(c.Args) > 0 {
			for _, a := range c.Args[1:] {
				w.expr(a)
			}
			if t := w.trackedOf(key(c.Args[0])); t != "" {
				w.indexSubs(c.Args[0])
				w.emit("wr", t)
			} else {
				w.expr(c.Args[0])
			}
			return false
		}
	case "len", "cap":
		if len(c.Args) == 1 {
			k := key(c.Args[0])
			if strings.Contains(k, "channel") || strings.HasSuffix(k, "_chan") || strings.HasSuffix(k, "blocksToWrite") || strings.HasSuffix(k, "abortwritingnow") {
				w.emit("chanLen", k)
				return false
			}
		}
	case "panic":
		for _, a := range c.Args {
			w.expr(a)
		}
		w.emit("ret", "")
		return false
	}
	// calls to the other functions of the protocol
	name := fk
	if i := strings.LastIndex(name, "."); i >= 0 {
		name = name[i+1:]
	}
	for _, cn := range w.sp.calls {
		if cn == name {
			for _, a := range c.Args {
				w.expr(a)
			}
			w.emit("call", name)
			return false
		}
	}
	return true
}

func (w *walker) lhs(x ast.Expr) {
	k := key(x)
	if t := w.trackedOf(k); t != "" {
		w.indexSubs(x)
		w.emit("wr", t)
		return
	}
	w.expr(x)
}

func (w *walker) block(list []ast.Stmt) {
	for _, s := range list {
		w.stmt(s)
	}
}

func (w *walker) scoped(list []ast.Stmt) {
	w.emit("open", "")
	w.block(list)
	w.emit("close", "")
}

func (w *walker) stmt(s ast.Stmt) {
	switch st := s.(type) {
	case nil:
	case *ast.ExprStmt:
		w.expr(st.X)
	case *ast.AssignStmt:
		for _, r := range st.Rhs {
			w.expr(r)
		}
		for _, l := range st.Lhs {
			if st.Tok != token.ASSIGN && st.Tok != token.DEFINE {
				w.expr(l) // op-assign reads too
			}
			w.lhs(l)
		}
		if w.sp.alias && len(st.Lhs) == len(st.Rhs) && (st.Tok == token.ASSIGN || st.Tok == token.DEFINE) {
			// `x := shared` / `x := shared[a:b]` copies the slice header only: x aliases the shared backing array
			for i, l := range st.Lhs {
				id, ok := l.(*ast.Ident)
				if !ok || id.Name == "_" {
					continue
				}
				rk := key(st.Rhs[i])
				if _, isCall := st.Rhs[i].(*ast.CallExpr); isCall || rk == "" {
					delete(w.alias, id.Name) // fresh value (make, append, …)
					continue
				}
				if t := w.trackedOf(rk); t != "" && (rk == t || w.alias[rk] == t) {
					if w.alias == nil {
						w.alias = map[string]string{}
					}
					if id.Name != t {
						w.alias[id.Name] = t
					}
				}
			}
		}
	case *ast.IncDecStmt:
		w.expr(st.X)
		w.lhs(st.X)
	case *ast.SendStmt:
		w.expr(st.Value)
		w.emit("send", key(st.Chan))
	case *ast.GoStmt:
		if fl, ok := st.Call.Fun.(*ast.FuncLit); ok {
			for _, a := range st.Call.Args {
				w.expr(a)
			}
			w.emit("goBegin", "")
			w.block(fl.Body.List)
			w.emit("goEnd", "")
		} else {
			for _, a := range st.Call.Args {
				w.expr(a)
			}
			name := key(st.Call.Fun)
			if i := strings.LastIndex(name, "."); i >= 0 {
				name = name[i+1:]
			}
			w.emit("goCall", name)
		}
	case *ast.DeferStmt:
		if fl, ok := st.Call.Fun.(*ast.FuncLit); ok {
			w.emit("deferBegin", "")
			w.block(fl.Body.List)
			w.emit("deferEnd", "")
		} else if sel, ok := st.Call.Fun.(*ast.SelectorExpr); ok && (sel.Sel.Name == "Unlock" || sel.Sel.Name == "RUnlock") {
			w.emit(map[string]string{"Unlock": "deferUnlock", "RUnlock": "deferRUnlock"}[sel.Sel.Name], key(sel.X))
		} else if sel, ok := st.Call.Fun.(*ast.SelectorExpr); ok && sel.Sel.Name == "Done" && hasSuffixName(key(sel.X), wgNames) {
			w.emit("deferWgDone", key(sel.X))
		} else {
			w.emit("deferBegin", "")
			w.expr(st.Call)
			w.emit("deferEnd", "")
		}
	case *ast.ReturnStmt:
		for _, r := range st.Results {
			w.expr(r)
		}
		w.emit("ret", "")
	case *ast.BranchStmt:
		w.emit("ret", "")
	case *ast.BlockStmt:
		w.scoped(st.List)
	case *ast.IfStmt:
		w.stmt(st.Init)
		w.expr(st.Cond)
		w.scoped(st.Body.List)
		if st.Else != nil {
			if b, ok := st.Else.(*ast.BlockStmt); ok {
				w.scoped(b.List)
			} else {
				w.emit("open", "")
				w.stmt(st.Else)
				w.emit("close", "")
			}
		}
	case *ast.ForStmt:
		w.stmt(st.Init)
		w.expr(st.Cond)
		w.emit("open", "")
		w.block(st.Body.List)
		w.stmt(st.Post)
		w.emit("close", "")
	case *ast.RangeStmt:
		w.expr(st.X)
		w.scoped(st.Body.List)
	case *ast.SwitchStmt:
		w.stmt(st.Init)
		w.expr(st.Tag)
		for _, c := range st.Body.List {
			cc := c.(*ast.CaseClause)
			for _, e := range cc.List {
				w.expr(e)
			}
			w.scoped(cc.Body)
		}
	case *ast.SelectStmt:
		w.emit("selBegin", "")
		for _, c := range st.Body.List {
			cc := c.(*ast.CommClause)
			w.emit("open", "")
			switch cm := cc.Comm.(type) {
			case nil:
				w.emit("selDefault", "")
			case *ast.SendStmt:
				w.expr(cm.Value)
				w.emit("selSend", key(cm.Chan))
			case *ast.ExprStmt:
				w.selRecv(cm.X)
			case *ast.AssignStmt:
				w.selRecv(cm.Rhs[0])
				for _, l := range cm.Lhs {
					w.lhs(l)
				}
			}
			w.block(cc.Body)
			w.emit("close", "")
		}
		w.emit("selEnd", "")
	case *ast.LabeledStmt:
		w.emit("label", "")
		w.stmt(st.Stmt)
	case *ast.DeclStmt:
		if gd, ok := st.Decl.(*ast.GenDecl); ok {
			for _, sp := range gd.Specs {
				if vs, ok := sp.(*ast.ValueSpec); ok {
					for _, v := range vs.Values {
						w.expr(v)
					}
				}
			}
		}
	case *ast.EmptyStmt:
	default:
		die(fmt.Errorf("%s.%s: statement form %T not understood", w.sp.recv, w.sp.fn, s))
	}
}

func (w *walker) selRecv(x ast.Expr) {
	if u, ok := x.(*ast.UnaryExpr); ok && u.Op == token.ARROW {
		if call, ok := u.X.(*ast.CallExpr); ok && key(call.Fun) == "time.After" {
			w.emit("selTimeout", "")
			return
		}
		w.emit("selRecv", key(u.X))
		return
	}
	die(fmt.Errorf("%s.%s: select case not understood", w.sp.recv, w.sp.fn))
}

var protoCalls = []string{"abortWriting", "commit", "del", "save", "Save", "HurryUp", "writeOne", "writeAll", "setBlockFlag", "addToCache",
	"VerifyTxScript", "Serialize", "do_txs", "do_add", "do_del", "removeDatFile", "CommitBlockTxs", "UndoBlockTxs", "BlockAdd", "Clean", "commitTxs",
	"ProcessBlockTransactions", "UnspentGet", "BlockTrusted", "NewTx", "Memory_Free", "NotifyTxAdd", "NotifyTxDel"}

var specs = []spec{
	{"lib/chain/chain_accept.go", "Chain", "commitTxs", "commitTxs",
		[]string{"blUnsp", "t", "ver_err_cnt", "tx.Spent_outputs", "tx.TxOut", "wait4compl", "changes.DeledTxs", "changes.UndoData", "changes.AddList", "spent_map"}, protoCalls, false},
	{"lib/chain/chain_accept.go", "Chain", "CommitBlock", "commitBlock", []string{}, protoCalls, false},
	{"lib/utxo/unspent_db.go", "UnspentDB", "save", "save",
		[]string{"db.HashMap", "db.LastBlockHeight", "db.LastBlockHash", "db.CurrentHeightOnDisk", "data_channel", "exit_channel"}, protoCalls, false},
	{"lib/utxo/unspent_db.go", "UnspentDB", "CommitBlockTxs", "commitBlockTxs",
		[]string{"db.HashMap", "db.LastBlockHeight", "db.LastBlockHash", "db.undo_dir_created", "changes.UndoData"}, protoCalls, false},
	{"lib/utxo/unspent_db.go", "UnspentDB", "UndoBlockTxs", "undoBlockTxs",
		[]string{"db.HashMap", "db.LastBlockHeight", "db.LastBlockHash", "db.DeletedRecords"}, protoCalls, false},
	{"lib/utxo/unspent_db.go", "UnspentDB", "PurgeUnspendable", "purgeUnspendable",
		[]string{"db.HashMap", "db.LastBlockHeight", "db.LastBlockHash"}, protoCalls, false},
	{"lib/utxo/unspent_db.go", "UnspentDB", "commit", "commit",
		[]string{"db.HashMap", "changes.DeledTxs", "changes.AddList", "thelist"}, protoCalls, false},
	{"lib/utxo/unspent_db.go", "UnspentDB", "del", "del", []string{"db.HashMap", "db.DeletedRecords"}, protoCalls, false},
	{"lib/utxo/unspent_db.go", "UnspentDB", "abortWriting", "abortWriting", []string{}, protoCalls, false},
	{"lib/utxo/unspent_db.go", "UnspentDB", "AbortWriting", "abortWritingPub", []string{}, protoCalls, false},
	{"lib/utxo/unspent_db.go", "UnspentDB", "Save", "savePub", []string{}, protoCalls, false},
	{"lib/utxo/unspent_db.go", "UnspentDB", "Idle", "idle", []string{"db.LastBlockHeight", "db.CurrentHeightOnDisk"}, protoCalls, false},
	{"lib/utxo/unspent_db.go", "UnspentDB", "HurryUp", "hurryUp", []string{}, protoCalls, false},
	{"lib/utxo/unspent_db.go", "UnspentDB", "Close", "close", []string{}, protoCalls, false},
	{"lib/utxo/unspent_db.go", "UnspentDB", "UnspentGet", "unspentGet", []string{"db.HashMap"}, protoCalls, false},
	{"lib/utxo/unspent_db.go", "UnspentDB", "Relocate", "relocate", []string{"db.HashMap"}, protoCalls, false},
	{"lib/utxo/unspent_db.go", "UnspentDB", "DefragMap", "defragMap", []string{"db.HashMap", "db.DeletedRecords"}, protoCalls, false},
	{"lib/chain/blockdb.go", "BlockDB", "writeOne", "writeOne",
		[]string{"rec.ipos", "rec.blen", "rec.fpos", "rec.datfileidx", "rec.compressed", "rec.snappied", "rec.trusted", "db.blockIndex", "db.datToWrite", "db.maxidxfilepos", "db.maxdatfilepos", "db.maxdatfileidx", "db.blockdata"}, protoCalls, false},
	{"lib/chain/blockdb.go", "BlockDB", "BlockGetInternal", "blockGetInternal",
		[]string{"rec.ipos", "rec.blen", "rec.fpos", "rec.datfileidx", "rec.compressed", "rec.snappied", "rec.trusted", "rec.olen", "db.blockIndex", "db.cache"}, protoCalls, false},
	{"lib/chain/blockdb.go", "BlockDB", "BlockAdd", "blockAdd",
		[]string{"rec.ipos", "rec.trusted", "db.blockIndex", "db.cache", "db.datToWrite"}, protoCalls, false},
	{"lib/chain/blockdb.go", "BlockDB", "addToCache", "addToCache", []string{"rec.ipos", "db.blockIndex", "db.cache"}, protoCalls, false},
	{"lib/chain/blockdb.go", "BlockDB", "BlockInvalid", "blockInvalid", []string{"cur.ipos", "cur.trusted", "db.blockIndex", "db.cache"}, protoCalls, false},
	{"lib/chain/blockdb.go", "BlockDB", "setBlockFlag", "setBlockFlag", []string{"cur.ipos", "cur.trusted", "db.blockindx"}, protoCalls, false},
	{"lib/btc/block.go", "Block", "BuildTxListExt", "buildTxListExt",
		[]string{"block_weight", "bl.Txs", "bl.BlockWeight", "bl.TotalInputs", "tx.Hash", "tx.Size", "tx.wTxID"}, protoCalls, false},
	{"lib/btc/tx.go", "Tx", "WitnessSigHash", "witnessSigHash", []string{"tx.hashPrevouts", "tx.hashSequence", "tx.hashOutputs"}, protoCalls, false},
	{"lib/btc/taproot.go", "Tx", "TaprootSigHash", "taprootSigHash", []string{"tx.tapSingleHashes", "tx.tapOutSingleHash", "tx.Spent_outputs"}, protoCalls, false},
	{"lib/utxo/unspent_recc.go", "", "SerializeC", "serializeC", []string{"comp_val", "comp_scr"}, protoCalls, true},
}

// names the model refers to symbolically; the generator fails when one of them no longer occurs.
var required = []string{
	"db.Mutex", "db.MapMutex[]", "db.mutex", "db.disk_access", "tx.hashLock", "comp_pool_mutex",
	"db.abortwritingnow", "db.hurryup", "db.writingDone", "db.lastFileClosed", "wg",
	"db.WritingInProgress", "db.DirtyDB", "ver_err_cnt", "block_weight",
	"db.HashMap", "db.LastBlockHeight", "db.LastBlockHash", "blUnsp", "t", "tx.Spent_outputs", "tx.TxOut",
	"rec.ipos", "rec.blen", "rec.fpos", "rec.datfileidx", "rec.compressed", "rec.snappied", "rec.trusted", "rec.olen",
	"db.blockIndex", "db.cache", "db.datToWrite", "cur.ipos", "cur.trusted",
	"tx.hashPrevouts", "tx.hashSequence", "tx.hashOutputs", "tx.tapSingleHashes", "tx.tapOutSingleHash",
	"comp_val", "comp_scr", "bl.Txs", "tx.Hash", "data_channel", "exit_channel",
	"abortWriting", "commit", "del", "save", "Save", "HurryUp", "VerifyTxScript", "do_add", "do_del", "do_txs", "Clean",
	"slices.Clone",
}

func sanitize(s string) string {
	r := strings.NewReplacer(".", "_", "[]", "_idx", "-", "_")
	return r.Replace(s)
}

func main() {
	files := map[string]*vtrans.File{}
	all := map[string][]ev{}
	names := map[string]bool{}
	for _, r := range required {
		names[r] = true
	}
	order := []string{}
	for i := range specs {
		sp := &specs[i]
		f := files[sp.file]
		if f == nil {
			var err error
			if f, err = vtrans.Parse(sp.file); err != nil {
				die(err)
			}
			files[sp.file] = f
		}
		fd, err := f.Func(sp.recv, sp.fn)
		if err != nil {
			die(err)
		}
		w := &walker{sp: sp}
		w.block(fd.Body.List)
		all[sp.lean] = w.out
		order = append(order, sp.lean)
		for _, e := range w.out {
			if e.name != "" {
				names[e.name] = true
			}
		}
	}
	// one more structural fact: blUnsp[...] is assigned a CLONE of tx.TxOut in commitTxs
	cloned := false
	{
		fd, _ := files["lib/chain/chain_accept.go"].Func("Chain", "commitTxs")
		ast.Inspect(fd.Body, func(n ast.Node) bool {
			as, ok := n.(*ast.AssignStmt)
			if !ok || len(as.Lhs) != 1 || len(as.Rhs) != 1 || key(as.Lhs[0]) != "blUnsp[]" {
				return true
			}
			if c, ok := as.Rhs[0].(*ast.CallExpr); ok && key(c.Fun) == "slices.Clone" && len(c.Args) == 1 && key(c.Args[0]) == "tx.TxOut" {
				cloned = true
			}
			return true
		})
	}
	// capacity of save's data_channel: `data_channel := make(chan []byte, <const or literal>)`
	dataCap := -1
	{
		fd, _ := files["lib/utxo/unspent_db.go"].Func("UnspentDB", "save")
		consts := map[string]string{}
		ast.Inspect(fd.Body, func(n ast.Node) bool {
			if gd, ok := n.(*ast.GenDecl); ok && gd.Tok == token.CONST {
				for _, sp := range gd.Specs {
					vs := sp.(*ast.ValueSpec)
					for i, nm := range vs.Names {
						if i < len(vs.Values) {
							if bl, ok := vs.Values[i].(*ast.BasicLit); ok && bl.Kind == token.INT {
								consts[nm.Name] = bl.Value
							}
						}
					}
				}
			}
			as, ok := n.(*ast.AssignStmt)
			if !ok || len(as.Lhs) != 1 || len(as.Rhs) != 1 || key(as.Lhs[0]) != "data_channel" {
				return true
			}
			c, ok := as.Rhs[0].(*ast.CallExpr)
			if !ok || key(c.Fun) != "make" {
				return true
			}
			v := "0" // make(chan T) is unbuffered
			if len(c.Args) == 2 {
				switch a := c.Args[1].(type) {
				case *ast.BasicLit:
					v = a.Value
				case *ast.Ident:
					v = consts[a.Name]
				default:
					v = ""
				}
			}
			var n64 int64
			if _, err := fmt.Sscan(v, &n64); err == nil && n64 >= 0 && n64 < 1<<30 {
				dataCap = int(n64)
			}
			return true
		})
		if dataCap < 0 {
			die(fmt.Errorf("UnspentDB.save: `data_channel := make(chan []byte, N)` with a literal or locally declared constant N not found"))
		}
	}
	var nl []string
	for n := range names {
		nl = append(nl, n)
	}
	sort.Strings(nl)
	id := map[string]int{}
	for i, n := range nl {
		id[n] = i + 1
	}
	var b strings.Builder
	b.WriteString("/- GENERATED by go/cmd/gen_c11 from /repo (lib/chain/chain_accept.go, lib/chain/blockdb.go, lib/utxo/unspent_db.go,\n   lib/utxo/unspent_recc.go, lib/btc/block.go, lib/btc/tx.go, lib/btc/taproot.go) — do not edit. -/\n")
	b.WriteString("import GocoinV.Model.ConcEv\nnamespace GocoinV.Gen.ConcFacts\nopen GocoinV.ConcEv\n\n")
	b.WriteString("/-- names of mutexes, channels, wait groups, atomics, shared fields and callees, numbered in sorted order -/\n")
	b.WriteString("def nameTable : List (Nat × String) := [\n")
	for i, n := range nl {
		sep := ","
		if i == len(nl)-1 {
			sep = ""
		}
		fmt.Fprintf(&b, "  (%d, %q)%s\n", i+1, n, sep)
	}
	b.WriteString("]\n\n")
	for _, n := range nl {
		fmt.Fprintf(&b, "abbrev N_%s : Nat := %d\n", sanitize(n), id[n])
	}
	b.WriteString("\n")
	facts := 0
	for _, fn := range order {
		fmt.Fprintf(&b, "def %s : List Ev := [\n", fn)
		evs := all[fn]
		for i, e := range evs {
			sep := ","
			if i == len(evs)-1 {
				sep = ""
			}
			if e.name == "" && (e.kind == "recv" || e.kind == "send" || e.kind == "selRecv" || e.kind == "selSend" || e.kind == "lock" || e.kind == "unlock") {
				die(fmt.Errorf("%s: %s on an expression that is not understood", fn, e.kind))
			}
			switch e.kind {
			case "open", "close", "ret", "goBegin", "goEnd", "fnBegin", "fnEnd", "deferBegin", "deferEnd", "selBegin", "selEnd", "selDefault", "selTimeout":
				fmt.Fprintf(&b, "  .%s%s\n", e.kind, sep)
			case "label":
				fmt.Fprintf(&b, "  .label%s\n", sep)
			default:
				fmt.Fprintf(&b, "  .%s %d%s  -- %s\n", e.kind, id[e.name], sep, e.name)
			}
			facts++
		}
		b.WriteString("]\n\n")
	}
	fmt.Fprintf(&b, "/-- `blUnsp[tx.Hash.Hash] = slices.Clone(tx.TxOut)` in commitTxs -/\ndef blUnspIsClone : Bool := %v\n\n", cloned)
	facts++
	fmt.Fprintf(&b, "/-- capacity of `data_channel` in UnspentDB.save -/\ndef dataChanCap : Nat := %d\n\n", dataCap)
	facts++
	b.WriteString("def all : List (String × List Ev) := [\n")
	for i, fn := range order {
		sep := ","
		if i == len(order)-1 {
			sep = ""
		}
		fmt.Fprintf(&b, "  (%q, %s)%s\n", fn, fn, sep)
	}
	b.WriteString("]\n\nend GocoinV.Gen.ConcFacts\n")
	for _, r := range required {
		found := r == "slices.Clone"
		for _, evs := range all {
			for _, e := range evs {
				if e.name == r {
					found = true
				}
			}
		}
		if !found {
			die(fmt.Errorf("the source no longer mentions %q in the extracted functions (the model was written for it)", r))
		}
	}
	path := vlib.Root() + "/lean/GocoinV/Gen/ConcFacts.lean"
	os.Remove(path)
	if err := os.WriteFile(path, []byte(b.String()), 0644); err != nil {
		die(err)
	}
	fmt.Printf("FACTS %d\n", facts)
}
