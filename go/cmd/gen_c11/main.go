// gen_c11 regenerates lean/GocoinV/Gen/ConcFacts.lean from /repo (translator part of the C11 tie).
// For every function of the concurrent block-processing paths it extracts, in source order, the
// sequence of synchronisation operations (Lock/Unlock/RLock/RUnlock and on which mutex expression,
// channel send/receive/select cases, WaitGroup Add/Done/Wait, atomic operations, `go` statements,
// calls to the other functions of the protocol) together with the reads and writes of the shared
// fields the model tracks and the block structure (branches, early exits). The Lean side runs a
// lock-discipline checker over exactly these lists and restates their synchronisation skeletons.
//
// CANONICAL FORM (so that behaviour-preserving refactorings do not change the facts). The packages are
// type-checked (go/types) and every name in the output is derived from what an identifier RESOLVES to:
//   - a field path rooted at a local / parameter / receiver is named by the root's TYPE: `db.HashMap`, `u.HashMap`
//     are both "UnspentDB.HashMap"; unexported type names are printed through an anchored alias (oneBl) or as "?";
//   - a plain local is named by its type: "L:sync.WaitGroup", "L:uint64", "L:chan []uint8", "L:func([]*btc.Tx)";
//     locals that a function literal captures AND that are written after their declaration are recorded
//     automatically (list `captured`: the Lean policy must give each of them a guard);
//   - wait groups, atomics and channels are recognised by type, not by a list of names; constants by value;
//   - unexported functions are never looked up by name: the functions the model has a role for (save, commit, del,
//     abortWriting, commitTxs, writeOne) are found by reachability from an exported function plus the events that
//     make them what they are; calls to any OTHER unexported function of the package are followed (≤ 2 levels) and
//     the callee's events spliced in, so extracting or inlining a helper changes nothing;
//   - labels, local constants, declaration order and the spelling of conditions are not recorded at all.
//
// Still recorded by name (they are the identity of the shared object): struct fields, package-level variables,
// exported functions and types.
package main

import (
	"fmt"
	"go/ast"
	"go/constant"
	"go/types"
	"os"
	"sort"
	"strings"

	"verif/vlib"
)

func die(err error) {
	fmt.Fprintln(os.Stderr, "TRANSLATE-ERROR:", err)
	os.Exit(2)
}

// exported callees recorded as `.call` (exported names are API; unexported ones are roles or followed)
var protoCalls = []string{"Save", "HurryUp", "VerifyTxScript", "Serialize", "CommitBlockTxs", "UndoBlockTxs", "BlockAdd", "Clean",
	"ProcessBlockTransactions", "UnspentGet", "BlockTrusted", "NewTx", "Memory_Free", "NotifyTxAdd", "NotifyTxDel"}

func isProtoCall(n string) bool {
	for _, c := range protoCalls {
		if c == n {
			return true
		}
	}
	return false
}

var pkgs = []string{"lib/btc", "lib/utxo", "lib/chain"}

var specs = []spec{
	{pkg: "lib/chain", recv: "Chain", fn: "commitTxs", lean: "commitTxs",
		tracked:    []string{"Tx.Spent_outputs", "Tx.TxOut", "BlockChanges.DeledTxs", "BlockChanges.UndoData", "BlockChanges.AddList"},
		anchorRecv: "Chain", anchor: "ProcessBlockTransactions", must: []ev{{"call", "VerifyTxScript"}}},
	{pkg: "lib/chain", recv: "Chain", fn: "CommitBlock", lean: "commitBlock"},
	{pkg: "lib/utxo", recv: "UnspentDB", fn: "save", lean: "save",
		tracked:    []string{"UnspentDB.HashMap", "UnspentDB.LastBlockHeight", "UnspentDB.LastBlockHash", "UnspentDB.CurrentHeightOnDisk"},
		anchorRecv: "UnspentDB", anchor: "Save", must: []ev{{"wgDone", "UnspentDB.writingDone"}}},
	{pkg: "lib/utxo", recv: "UnspentDB", fn: "CommitBlockTxs", lean: "commitBlockTxs",
		tracked: []string{"UnspentDB.HashMap", "UnspentDB.LastBlockHeight", "UnspentDB.LastBlockHash", "UnspentDB.undo_dir_created", "BlockChanges.UndoData"}},
	{pkg: "lib/utxo", recv: "UnspentDB", fn: "UndoBlockTxs", lean: "undoBlockTxs",
		tracked: []string{"UnspentDB.HashMap", "UnspentDB.LastBlockHeight", "UnspentDB.LastBlockHash", "UnspentDB.DeletedRecords"}},
	{pkg: "lib/utxo", recv: "UnspentDB", fn: "PurgeUnspendable", lean: "purgeUnspendable",
		tracked: []string{"UnspentDB.HashMap", "UnspentDB.LastBlockHeight", "UnspentDB.LastBlockHash"}},
	{pkg: "lib/utxo", recv: "UnspentDB", fn: "commit", lean: "commit",
		tracked:    []string{"UnspentDB.HashMap", "UnspentDB.DeletedRecords", "BlockChanges.DeledTxs", "BlockChanges.AddList"},
		anchorRecv: "UnspentDB", anchor: "CommitBlockTxs", must: []ev{{"wgWait", "L:sync.WaitGroup"}, {"rd", "BlockChanges.AddList"}}},
	{pkg: "lib/utxo", recv: "UnspentDB", fn: "del", lean: "del", tracked: []string{"UnspentDB.HashMap", "UnspentDB.DeletedRecords"},
		anchorRecv: "UnspentDB", anchor: "UndoBlockTxs", must: []ev{{"wr", "UnspentDB.DeletedRecords"}, {"wr", "UnspentDB.HashMap"}}},
	{pkg: "lib/utxo", recv: "UnspentDB", fn: "abortWriting", lean: "abortWriting",
		anchorRecv: "UnspentDB", anchor: "AbortWriting", must: []ev{{"send", "UnspentDB.abortwritingnow"}}},
	{pkg: "lib/utxo", recv: "UnspentDB", fn: "AbortWriting", lean: "abortWritingPub"},
	{pkg: "lib/utxo", recv: "UnspentDB", fn: "Save", lean: "savePub"},
	{pkg: "lib/utxo", recv: "UnspentDB", fn: "Idle", lean: "idle", tracked: []string{"UnspentDB.LastBlockHeight", "UnspentDB.CurrentHeightOnDisk"}},
	{pkg: "lib/utxo", recv: "UnspentDB", fn: "HurryUp", lean: "hurryUp"},
	{pkg: "lib/utxo", recv: "UnspentDB", fn: "Close", lean: "close"},
	{pkg: "lib/utxo", recv: "UnspentDB", fn: "UnspentGet", lean: "unspentGet", tracked: []string{"UnspentDB.HashMap"}},
	{pkg: "lib/utxo", recv: "UnspentDB", fn: "TxPresent", lean: "txPresent", tracked: []string{"UnspentDB.HashMap"}},
	{pkg: "lib/utxo", recv: "UnspentDB", fn: "Relocate", lean: "relocate", tracked: []string{"UnspentDB.HashMap"}},
	{pkg: "lib/utxo", recv: "UnspentDB", fn: "DefragMap", lean: "defragMap", tracked: []string{"UnspentDB.HashMap", "UnspentDB.DeletedRecords"}},
	{pkg: "lib/chain", recv: "BlockDB", fn: "writeOne", lean: "writeOne",
		tracked: []string{"oneBl.ipos", "oneBl.blen", "oneBl.fpos", "oneBl.datfileidx", "oneBl.compressed", "oneBl.snappied", "oneBl.trusted",
			"BlockDB.blockIndex", "BlockDB.datToWrite", "BlockDB.maxidxfilepos", "BlockDB.maxdatfilepos", "BlockDB.maxdatfileidx", "BlockDB.blockdata"},
		anchorRecv: "BlockDB", anchor: "Idle", must: []ev{{"selRecv", "BlockDB.blocksToWrite"}}},
	{pkg: "lib/chain", recv: "BlockDB", fn: "BlockGetInternal", lean: "blockGetInternal",
		tracked: []string{"oneBl.ipos", "oneBl.blen", "oneBl.fpos", "oneBl.datfileidx", "oneBl.compressed", "oneBl.snappied", "oneBl.trusted", "oneBl.olen",
			"BlockDB.blockIndex", "BlockDB.cache"}},
	{pkg: "lib/chain", recv: "BlockDB", fn: "BlockAdd", lean: "blockAdd",
		tracked: []string{"oneBl.ipos", "oneBl.trusted", "BlockDB.blockIndex", "BlockDB.cache", "BlockDB.datToWrite"}},
	{pkg: "lib/chain", recv: "BlockDB", fn: "BlockInvalid", lean: "blockInvalid",
		tracked: []string{"oneBl.ipos", "oneBl.trusted", "BlockDB.blockIndex", "BlockDB.cache", "BlockDB.blockindx"}},
	{pkg: "lib/chain", recv: "BlockDB", fn: "BlockTrusted", lean: "blockTrusted",
		tracked: []string{"oneBl.ipos", "oneBl.trusted", "BlockDB.blockIndex", "BlockDB.blockindx"}},
	{pkg: "lib/btc", recv: "Block", fn: "BuildTxListExt", lean: "buildTxListExt",
		tracked: []string{"Block.Txs", "Block.BlockWeight", "Block.TotalInputs", "Tx.Hash", "Tx.Size", "Tx.wTxID"}},
	{pkg: "lib/btc", recv: "Tx", fn: "WitnessSigHash", lean: "witnessSigHash", tracked: []string{"Tx.hashPrevouts", "Tx.hashSequence", "Tx.hashOutputs"}},
	{pkg: "lib/btc", recv: "Tx", fn: "TaprootSigHash", lean: "taprootSigHash", tracked: []string{"Tx.tapSingleHashes", "Tx.tapOutSingleHash", "Tx.Spent_outputs"}},
	{pkg: "lib/utxo", recv: "", fn: "SerializeC", lean: "serializeC", tracked: []string{"comp_val", "comp_scr"}, alias: true},
}

// names the model refers to symbolically; the generator fails when one of them no longer occurs.
var required = []string{
	"UnspentDB.Mutex", "UnspentDB.MapMutex[]", "BlockDB.mutex", "BlockDB.disk_access", "Tx.hashLock", "comp_pool_mutex",
	"UnspentDB.abortwritingnow", "UnspentDB.hurryup", "UnspentDB.writingDone", "UnspentDB.lastFileClosed", "L:sync.WaitGroup",
	"UnspentDB.WritingInProgress", "UnspentDB.DirtyDB", "BlockDB.blockindx",
	"UnspentDB.HashMap", "UnspentDB.LastBlockHeight", "UnspentDB.LastBlockHash", "UnspentDB.DeletedRecords", "Tx.Spent_outputs", "Tx.TxOut",
	"BlockChanges.DeledTxs", "BlockChanges.UndoData", "BlockChanges.AddList",
	"oneBl.ipos", "oneBl.blen", "oneBl.fpos", "oneBl.datfileidx", "oneBl.compressed", "oneBl.snappied", "oneBl.trusted", "oneBl.olen",
	"BlockDB.blockIndex", "BlockDB.cache", "BlockDB.datToWrite", "BlockDB.maxidxfilepos", "BlockDB.maxdatfilepos", "BlockDB.maxdatfileidx", "BlockDB.blockdata",
	"Tx.hashPrevouts", "Tx.hashSequence", "Tx.hashOutputs", "Tx.tapSingleHashes", "Tx.tapOutSingleHash",
	"comp_val", "comp_scr", "Block.Txs", "Block.BlockWeight", "Block.TotalInputs", "Tx.Hash",
	"abortWriting", "commit", "del", "save", "Save", "HurryUp", "VerifyTxScript", "Clean",
}

// canonical names of plain locals the model's policy table has a guard for: their N_… abbreviation always exists, but
// they need not occur (a local that is no longer captured, or became an atomic type, needs no guard)
var declared = []string{"L:uint32", "L:uint64", "L:*btc.Tx"}

func sanitize(s string) string {
	if strings.HasPrefix(s, "L:") { // a type
		r := strings.NewReplacer("L:", "L_", "[]", "S_", "*", "P_", ".", "_", " ", "_", "(", "_", ")", "", ",", "_", "[", "A", "]", "_", "?", "Q", "{", "_", "}", "", ";", "_", "<-", "from_")
		return strings.TrimRight(r.Replace(s), "_")
	}
	r := strings.NewReplacer("[]", "_idx", ".", "_", "-", "_", "?", "Q")
	return r.Replace(s)
}

// registerTypeAliases gives the unexported types that occur in tracked names a readable, rename-proof name:
// "oneBl" = the element type of the values of BlockDB.blockIndex.
func registerTypeAliases(wd *world) {
	p := wd.pkg("lib/chain")
	o := p.pkg.Scope().Lookup("BlockDB")
	if o == nil {
		die(fmt.Errorf("lib/chain: type BlockDB not found"))
	}
	st, ok := o.Type().Underlying().(*types.Struct)
	if !ok {
		die(fmt.Errorf("lib/chain: BlockDB is not a struct"))
	}
	for i := 0; i < st.NumFields(); i++ {
		if st.Field(i).Name() == "blockIndex" {
			if m, ok := st.Field(i).Type().Underlying().(*types.Map); ok {
				if n, ok := deref(m.Elem()).(*types.Named); ok {
					wd.typeAlias[n.Obj()] = "oneBl"
					return
				}
			}
		}
	}
	die(fmt.Errorf("lib/chain: BlockDB.blockIndex is not a map to (pointers to) a named record type"))
}

func hasAll(evs []ev, must []ev) bool {
	for _, m := range must {
		found := false
		for _, e := range evs {
			if e == m {
				found = true
				break
			}
		}
		if !found {
			return false
		}
	}
	return true
}

// resolveRoles finds the function of every spec: exported ones by name, unexported ones by anchor + events.
func resolveRoles(wd *world) (map[*types.Func]string, []*funcDecl) {
	roles := map[*types.Func]string{}
	decls := make([]*funcDecl, len(specs))
	type probe struct {
		evs     []ev
		callees map[*types.Func]bool
	}
	cache := map[*types.Func]map[string]*probe{}
	look := func(sp *spec, d *funcDecl) *probe {
		if cache[d.obj] == nil {
			cache[d.obj] = map[string]*probe{}
		}
		if p, ok := cache[d.obj][sp.lean]; ok {
			return p
		}
		w := wd.walkFunc(sp, d, nil, true)
		p := &probe{w.out, w.callees}
		cache[d.obj][sp.lean] = p
		return p
	}
	for i := range specs {
		sp := &specs[i]
		p := wd.pkg(sp.pkg)
		if sp.anchor == "" {
			d := wd.lookupFunc(p, sp.recv, sp.fn)
			if d == nil {
				die(fmt.Errorf("%s: func %s.%s not found", sp.pkg, sp.recv, sp.fn))
			}
			decls[i] = d
			continue
		}
		a := wd.lookupFunc(p, sp.anchorRecv, sp.anchor)
		if a == nil {
			die(fmt.Errorf("%s: func %s.%s (anchor of %s) not found", sp.pkg, sp.anchorRecv, sp.anchor, sp.fn))
		}
		reach := map[*types.Func]bool{}
		for c := range look(sp, a).callees {
			reach[c] = true
		}
		for c := range look(sp, a).callees {
			for c2 := range look(sp, wd.decl[c]).callees {
				reach[c2] = true
			}
		}
		var cands []*types.Func
		for c := range reach {
			if recvTypeName(c) == sp.recv && hasAll(look(sp, wd.decl[c]).evs, sp.must) {
				cands = append(cands, c)
			}
		}
		// a caller of a candidate shows the candidate's events too (they are followed one level): keep the callee-most
		var min []*types.Func
		for _, c := range cands {
			calls := false
			for _, c2 := range cands {
				if c2 != c && look(sp, wd.decl[c]).callees[c2] {
					calls = true
				}
			}
			if !calls {
				min = append(min, c)
			}
		}
		if len(min) != 1 {
			var ns []string
			for _, c := range min {
				ns = append(ns, c.Name())
			}
			die(fmt.Errorf("%s: the unexported function with the role of %s.%s (reached from %s.%s, containing %v) is not unique / not found: candidates %v",
				sp.pkg, sp.recv, sp.fn, sp.anchorRecv, sp.anchor, sp.must, ns))
		}
		decls[i] = wd.decl[min[0]]
		roles[min[0]] = sp.fn
	}
	return roles, decls
}

func main() {
	if os.Getenv("THREAD_PROBE") != "" { // development aid: print the call sites only
		threadProbe()
		return
	}
	wd := loadWorld(pkgs)
	registerTypeAliases(wd)
	roles, decls := resolveRoles(wd)

	all := map[string][]ev{}
	capt := map[string][]string{}
	names := map[string]bool{}
	for _, r := range required {
		names[r] = true
	}
	for _, r := range declared {
		names[r] = true
	}
	order := []string{}
	for i := range specs {
		sp := &specs[i]
		w := wd.walkFunc(sp, decls[i], roles, false)
		all[sp.lean] = w.out
		order = append(order, sp.lean)
		for _, e := range w.out {
			if e.name != "" {
				names[e.name] = true
			}
		}
		var cs []string
		for c := range w.captured {
			cs = append(cs, c)
			names[c] = true
		}
		sort.Strings(cs)
		capt[sp.lean] = cs
	}

	// one more structural fact: in commitTxs a local map[[32]byte][]*btc.TxOut is assigned a CLONE of <*btc.Tx>.TxOut
	cloned := false
	var commitTxsDecl, saveDecl *funcDecl
	for i := range specs {
		switch specs[i].lean {
		case "commitTxs":
			commitTxsDecl = decls[i]
		case "save":
			saveDecl = decls[i]
		}
	}
	{
		info := commitTxsDecl.p.info
		notCloned := false
		ast.Inspect(commitTxsDecl.fd.Body, func(n ast.Node) bool {
			as, ok := n.(*ast.AssignStmt)
			if !ok || len(as.Lhs) != 1 || len(as.Rhs) != 1 {
				return true
			}
			ix, ok := as.Lhs[0].(*ast.IndexExpr)
			if !ok {
				return true
			}
			id, ok := ix.X.(*ast.Ident)
			if !ok || info.Uses[id] == nil || !isLocalVar(info.Uses[id]) || wd.tstr(info.Uses[id].Type()) != "map[[32]uint8][]*btc.TxOut" {
				return true
			}
			// a store into the local map of output slices: EVERY such store must be a clone (one aliasing store is enough to hand
			// the workers the slice the main loop writes into)
			isClone := false
			if c, ok := as.Rhs[0].(*ast.CallExpr); ok && len(c.Args) == 1 {
				if fs, ok := c.Fun.(*ast.SelectorExpr); ok && fs.Sel.Name == "Clone" {
					if pid, ok := fs.X.(*ast.Ident); ok {
						if pn, ok := info.Uses[pid].(*types.PkgName); ok && pn.Imported().Path() == "slices" {
							if a, ok := c.Args[0].(*ast.SelectorExpr); ok && a.Sel.Name == "TxOut" && isNamed(info.TypeOf(a.X), modPath+"/lib/btc", "Tx") {
								isClone = true
							}
						}
					}
				}
			}
			if isClone {
				cloned = true
			} else {
				notCloned = true
			}
			return true
		})
		// multi-value assignments into the map are not understood: conservative
		ast.Inspect(commitTxsDecl.fd.Body, func(n ast.Node) bool {
			if as, ok := n.(*ast.AssignStmt); ok && len(as.Lhs) > 1 {
				for _, l := range as.Lhs {
					if ix, ok := l.(*ast.IndexExpr); ok {
						if id, ok := ix.X.(*ast.Ident); ok && info.Uses[id] != nil && isLocalVar(info.Uses[id]) && wd.tstr(info.Uses[id].Type()) == "map[[32]uint8][]*btc.TxOut" {
							notCloned = true
						}
					}
				}
			}
			return true
		})
		if notCloned {
			cloned = false
		}
	}
	// capacity of save's data channel: the one `make(chan []byte, N)` in save, N a constant expression
	dataCap := -1
	{
		info := saveDecl.p.info
		cnt := 0
		ast.Inspect(saveDecl.fd.Body, func(n ast.Node) bool {
			c, ok := n.(*ast.CallExpr)
			if !ok || len(c.Args) == 0 {
				return true
			}
			id, ok := c.Fun.(*ast.Ident)
			if !ok {
				return true
			}
			if b, ok := info.Uses[id].(*types.Builtin); !ok || b.Name() != "make" {
				return true
			}
			if wd.tstr(info.TypeOf(c.Args[0])) != "chan []uint8" {
				return true
			}
			cnt++
			v := int64(0) // make(chan T) is unbuffered
			if len(c.Args) == 2 {
				v = -1
				if tv, ok := info.Types[c.Args[1]]; ok && tv.Value != nil {
					if n64, ok := constant.Int64Val(constant.ToInt(tv.Value)); ok {
						v = n64
					}
				}
			}
			if v >= 0 && v < 1<<30 {
				dataCap = int(v)
			} else {
				dataCap = -1
			}
			return true
		})
		if cnt != 1 || dataCap < 0 {
			die(fmt.Errorf("UnspentDB.save: exactly one `make(chan []byte, N)` with a constant N expected, found %d", cnt))
		}
	}

	// ownership / hand-over facts (own.go)
	var spReads, spEarly []spawnRead
	for i := range specs {
		rd, ea := wd.spawnOrder(specs[i].lean, decls[i])
		spReads = append(spReads, rd...)
		spEarly = append(spEarly, ea...)
		for _, x := range rd {
			names[x.x] = true
		}
	}
	chunkBufs := wd.chunkBuffers(saveDecl)
	stores := wd.scriptStores(commitTxsDecl)
	for _, st := range stores {
		names[st.field] = true
	}
	for _, n := range []string{"Tx.Spent_outputs", "UtxoTxOut.PKScr"} { // the model names them
		names[n] = true
	}

	var nl []string
	for n := range names {
		nl = append(nl, n)
	}
	sort.Strings(nl)
	id := map[string]int{}
	san := map[string]string{}
	for i, n := range nl {
		id[n] = i + 1
		s := sanitize(n)
		if o, dup := san[s]; dup {
			die(fmt.Errorf("names %q and %q have the same Lean identifier", o, n))
		}
		san[s] = n
	}
	var b strings.Builder
	b.WriteString("/- GENERATED by go/cmd/gen_c11 from /repo (lib/chain/chain_accept.go, lib/chain/blockdb.go, lib/utxo/unspent_db.go,\n   lib/utxo/unspent_recc.go, lib/btc/block.go, lib/btc/tx.go, lib/btc/taproot.go) — do not edit.\n   Names are canonical: field paths are rooted at the TYPE of the variable they start from, plain locals are named by\n   their type (L:…), unexported functions by their role. -/\n")
	b.WriteString("import GocoinV.Model.ConcEv\nnamespace GocoinV.Gen.ConcFacts\nopen GocoinV.ConcEv\n\n")
	b.WriteString("/-- names of mutexes, channels, wait groups, atomics, shared fields and callees, numbered in sorted order -/\n")
	b.WriteString("def nameTable : List (Nat × String) := [\n")
	for i, n := range nl {
		sep := ","
		if i == len(nl)-1 {
			sep = ""
		}
		fmt.Fprintf(&b, "  (%d, %q)%s\n", i+1, n, sep)
	}
	b.WriteString("]\n\n")
	for _, n := range nl {
		fmt.Fprintf(&b, "abbrev N_%s : Nat := %d\n", sanitize(n), id[n])
	}
	b.WriteString("\n")
	facts := 0
	for _, fn := range order {
		fmt.Fprintf(&b, "def %s : List Ev := [\n", fn)
		evs := all[fn]
		for i, e := range evs {
			sep := ","
			if i == len(evs)-1 {
				sep = ""
			}
			if e.name == "" && (e.kind == "recv" || e.kind == "send" || e.kind == "selRecv" || e.kind == "selSend" || e.kind == "lock" || e.kind == "unlock") {
				die(fmt.Errorf("%s: %s on an expression that is not understood", fn, e.kind))
			}
			switch e.kind {
			case "neg", "open", "close", "ret", "goBegin", "goEnd", "fnBegin", "fnEnd", "deferBegin", "deferEnd", "selBegin", "selEnd", "selDefault", "selTimeout":
				fmt.Fprintf(&b, "  .%s%s\n", e.kind, sep)
			case "label":
				fmt.Fprintf(&b, "  .label%s\n", sep)
			default:
				fmt.Fprintf(&b, "  .%s %d%s  -- %s\n", e.kind, id[e.name], sep, e.name)
			}
			facts++
		}
		b.WriteString("]\n\n")
	}
	fmt.Fprintf(&b, "/-- in commitTxs EVERY store into a local `map[[32]byte][]*btc.TxOut` is `slices.Clone(<tx>.TxOut)` (and there is one) -/\ndef blUnspIsClone : Bool := %v\n\n", cloned)
	facts++
	fmt.Fprintf(&b, "/-- capacity of the `chan []byte` made in UnspentDB.save -/\ndef dataChanCap : Nat := %d\n\n", dataCap)
	facts++
	wrPairs := func(doc, name string, l []spawnRead) {
		fmt.Fprintf(&b, "/-- %s -/\ndef %s : List (String × Nat) := [", doc, name)
		for i, x := range l {
			if i > 0 {
				b.WriteString(", ")
			}
			fmt.Fprintf(&b, "(%q, %d)", x.fn, id[x.x])
			facts++
		}
		b.WriteString("]\n")
		for _, x := range l {
			fmt.Fprintf(&b, "-- %s: %s\n", x.fn, x.x)
		}
		b.WriteString("\n")
	}
	wrPairs("(function, Type.field): a goroutine started by a `go` statement of the function accesses this field of a local object of the function", "spawnReads", spReads)
	wrPairs("the subset of `spawnReads` whose object the spawning goroutine still WRITES after the start: in a loop (inside the object's scope) that encloses the `go` statement, or later in the object's scope", "earlySpawn", spEarly)
	b.WriteString("/-- one entry per send on the `chan []byte` of UnspentDB.save: 0 = the buffer behind the slice is given up (the variable gets a\n    freshly allocated buffer before it is touched again), n ≥ 2 = it is one of a pool of n buffers that are used again,\n    1 = the same buffer is reused / not understood -/\ndef chunkBufs : List Nat := [")
	for i, n := range chunkBufs {
		if i > 0 {
			b.WriteString(", ")
		}
		fmt.Fprintf(&b, "%d", n)
		facts++
	}
	b.WriteString("]\n\n")
	b.WriteString("/-- commitTxs: every store into a []byte field of a record type of package utxo (the change set handed to CommitBlockTxs), with the\n    origin of the stored slice: 0 = a fresh copy, 1 = memory of the block being processed, 2 = memory of a stored UTXO record (handed out\n    by a method of UnspentDB; freed and reused by the delete workers), 3 = not understood -/\ndef scriptStores : List (Nat × Nat) := [")
	for i, st := range stores {
		if i > 0 {
			b.WriteString(", ")
		}
		fmt.Fprintf(&b, "(%d, %d)", id[st.field], st.origin)
		facts++
	}
	b.WriteString("]\n\n")
	// thread affinity of the operations reserved to the committing goroutine, over the whole client (thread.go)
	sites := threadFacts()
	b.WriteString("/-- one entry per call site, anywhere in the node (client/** and the libraries it uses, test files excluded), of an operation of\n    UnspentDB that starts a snapshot or mutates the maps and that the snapshot protocol reserves to ONE goroutine (Save, Idle, Close,\n    CommitBlockTxs, UndoBlockTxs, PurgeUnspendable, DefragMap, AbortWriting), with the goroutines that can execute that call: 0 = only the main\n    goroutine (reached from main.main / package initialisation by synchronous calls, incl. calls through function values and through\n    dispatch-table entries whose thread flag sends them to the main loop), 1 = (also) another goroutine (target of a `go` statement,\n    a callback handed to net/http, time.AfterFunc …, a dispatch-table entry whose flag lets the dispatching goroutine call it),\n    2 = not reached from the client at all -/\ndef mainOnlyCallSites : List (String × Nat) := [")
	for i, st := range sites {
		if i > 0 {
			b.WriteString(", ")
		}
		fmt.Fprintf(&b, "(%q, %d)", st.op, st.ctx)
		facts++
	}
	b.WriteString("]\n")
	for _, st := range sites {
		fmt.Fprintf(&b, "-- %d %s called by %s\n", st.ctx, st.op, st.caller)
	}
	b.WriteString("\n")
	b.WriteString("def all : List (String × List Ev) := [\n")
	for i, fn := range order {
		sep := ","
		if i == len(order)-1 {
			sep = ""
		}
		fmt.Fprintf(&b, "  (%q, %s)%s\n", fn, fn, sep)
	}
	b.WriteString("]\n\n")
	b.WriteString("/-- per function: the locals (by canonical name) that a function literal captures and that are written after their\n    declaration — every one of them needs a guard in the model's policy table -/\n")
	b.WriteString("def captured : List (String × List Nat) := [\n")
	for i, fn := range order {
		sep := ","
		if i == len(order)-1 {
			sep = ""
		}
		var ids []string
		for _, c := range capt[fn] {
			ids = append(ids, fmt.Sprintf("%d", id[c]))
			facts++
		}
		fmt.Fprintf(&b, "  (%q, [%s])%s  -- %s\n", fn, strings.Join(ids, ", "), sep, strings.Join(capt[fn], ", "))
	}
	b.WriteString("]\n\nend GocoinV.Gen.ConcFacts\n")
	for _, r := range required {
		found := false
		for _, evs := range all {
			for _, e := range evs {
				if e.name == r {
					found = true
				}
			}
		}
		if !found {
			die(fmt.Errorf("the source no longer mentions %q in the extracted functions (the model was written for it)", r))
		}
	}
	path := vlib.Root() + "/lean/GocoinV/Gen/ConcFacts.lean"
	if o := os.Getenv("GEN_C11_OUT"); o != "" {
		path = o // private experiments: do not touch the shared Gen/ file
	}
	os.Remove(path)
	if err := os.WriteFile(path, []byte(b.String()), 0644); err != nil {
		die(err)
	}
	fmt.Printf("FACTS %d\n", facts)
}
