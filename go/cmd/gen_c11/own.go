package main

// Ownership / hand-over facts (who may still touch a piece of memory after it was given to another goroutine):
//
//   spawnOrder   - for every `go` statement: the fields (of a local object) that the started goroutine reads, and whether the
//                  spawning goroutine still WRITES that field of the same object after the start - inside a loop that
//                  encloses the `go` statement (the next iteration runs after the spawn) or later in the object's scope.
//                  A per-iteration object (range variable, `:=` inside the loop body) is a new object in every iteration:
//                  the loop that declares it does not count.
//   chunkBuffers - for every send of a byte slice on the `chan []byte` of UnspentDB.save: is the buffer behind the slice
//                  given up for good (the variable is re-assigned a freshly allocated buffer before it is touched again),
//                  or does it come out of a pool of N buffers that are used again (N = 1: the very same buffer is reused).
//   scriptStores - in commitTxs: every store into a []byte field of a record type of package utxo (what is handed to
//                  CommitBlockTxs: undo data, add list), with the ORIGIN of the stored slice: a fresh copy, memory of the
//                  block being processed (immutable, lives as long as the block), memory of a stored UTXO record (returned
//                  by UnspentDB.UnspentGet: owned by the database, freed and reused by the delete workers), or unknown.
//
// Like everything in gen_c11 the analysis works on resolved objects and types, never on spellings.

import (
	"go/ast"
	"go/token"
	"go/types"
	"sort"
)

func (d *funcDecl) obj2(id *ast.Ident) types.Object {
	if o := d.p.info.Uses[id]; o != nil {
		return o
	}
	return d.p.info.Defs[id]
}

func stripIdx(x ast.Expr) ast.Expr {
	for {
		switch e := x.(type) {
		case *ast.ParenExpr:
			x = e.X
		case *ast.StarExpr:
			x = e.X
		case *ast.IndexExpr:
			x = e.X
		case *ast.SliceExpr:
			x = e.X
		default:
			return x
		}
	}
}

// fieldOfLocal: x (after stripping indexing / slicing / dereference) is `v.f…` with v a local variable or parameter and f a
// struct field: returns v and the FIRST field of the path.
func (d *funcDecl) fieldOfLocal(x ast.Expr) (types.Object, *types.Var) {
	x = stripIdx(x)
	var first *ast.SelectorExpr
	for {
		se, ok := x.(*ast.SelectorExpr)
		if !ok {
			break
		}
		if sel := d.p.info.Selections[se]; sel == nil || sel.Kind() != types.FieldVal {
			return nil, nil
		}
		first = se
		x = stripIdx(se.X)
	}
	id, ok := x.(*ast.Ident)
	if !ok || first == nil {
		return nil, nil
	}
	o := d.obj2(id)
	if o == nil || !isLocalVar(o) {
		return nil, nil
	}
	f, _ := d.p.info.Selections[first].Obj().(*types.Var)
	return o, f
}

// boundLitOf: the function literal a local variable is bound to by its only assignment (`do := func(…){…}`)
func (d *funcDecl) boundLitOf(o types.Object) *ast.FuncLit {
	var lit *ast.FuncLit
	n := 0
	ast.Inspect(d.fd.Body, func(nd ast.Node) bool {
		switch s := nd.(type) {
		case *ast.AssignStmt:
			for i, l := range s.Lhs {
				if id, ok := l.(*ast.Ident); ok && d.obj2(id) == o && i < len(s.Rhs) {
					n++
					if fl, ok := s.Rhs[i].(*ast.FuncLit); ok {
						lit = fl
					}
				}
			}
		case *ast.ValueSpec:
			for i, id := range s.Names {
				if d.obj2(id) == o && i < len(s.Values) {
					n++
					if fl, ok := s.Values[i].(*ast.FuncLit); ok {
						lit = fl
					}
				}
			}
		}
		return true
	})
	if n != 1 {
		return nil
	}
	return lit
}

type spawnRead struct {
	fn, x string
}

// spawnOrder: see the file comment. reads = (function, Type.field) read by a goroutine started in the function; early = the
// subset whose object the spawner still writes after the start.
func (wd *world) spawnOrder(lean string, d *funcDecl) (reads, early []spawnRead) {
	info := d.p.info
	type goSite struct {
		g     *ast.GoStmt
		loops []ast.Node // enclosing for / range statements, outermost first
		lit   *ast.FuncLit
		body  *ast.BlockStmt
		bind  map[types.Object]types.Object // parameter of the literal -> local passed for it
	}
	var sites []goSite
	goBodies := map[*ast.BlockStmt]bool{}
	var stack []ast.Node
	ast.Inspect(d.fd.Body, func(n ast.Node) bool {
		if n == nil {
			stack = stack[:len(stack)-1]
			return true
		}
		stack = append(stack, n)
		g, ok := n.(*ast.GoStmt)
		if !ok {
			return true
		}
		var lit *ast.FuncLit
		switch f := g.Call.Fun.(type) {
		case *ast.FuncLit:
			lit = f
		case *ast.Ident:
			if o := d.obj2(f); o != nil && isLocalVar(o) {
				lit = d.boundLitOf(o)
			}
		}
		if lit == nil {
			return true
		}
		s := goSite{g: g, lit: lit, body: lit.Body, bind: map[types.Object]types.Object{}}
		for _, a := range stack[:len(stack)-1] {
			switch a.(type) {
			case *ast.ForStmt, *ast.RangeStmt:
				s.loops = append(s.loops, a)
			}
		}
		i := 0
		for _, fld := range lit.Type.Params.List {
			for _, nm := range fld.Names {
				if i < len(g.Call.Args) {
					if id, ok := stripPS(g.Call.Args[i]).(*ast.Ident); ok {
						if o := d.obj2(id); o != nil && isLocalVar(o) {
							s.bind[info.Defs[nm]] = o
						}
					}
				}
				i++
			}
		}
		goBodies[lit.Body] = true
		sites = append(sites, s)
		return true
	})
	if len(sites) == 0 {
		return
	}
	// writes of the spawning goroutine: v.f… = … / v.f…++ outside the bodies of started goroutines
	type wr struct {
		v   types.Object
		f   *types.Var
		pos token.Pos
	}
	var writes []wr
	var walkW func(n ast.Node)
	walkW = func(n ast.Node) {
		ast.Inspect(n, func(m ast.Node) bool {
			switch s := m.(type) {
			case *ast.BlockStmt:
				if goBodies[s] {
					return false
				}
			case *ast.AssignStmt:
				for _, l := range s.Lhs {
					if v, f := d.fieldOfLocal(l); v != nil {
						writes = append(writes, wr{v, f, l.Pos()})
					}
				}
			case *ast.IncDecStmt:
				if v, f := d.fieldOfLocal(s.X); v != nil {
					writes = append(writes, wr{v, f, s.X.Pos()})
				}
			}
			return true
		})
	}
	walkW(d.fd.Body)
	seenR, seenE := map[spawnRead]bool{}, map[spawnRead]bool{}
	for _, s := range sites {
		type acc struct {
			v types.Object
			f *types.Var
		}
		accs := map[acc]bool{}
		ast.Inspect(s.body, func(m ast.Node) bool {
			se, ok := m.(*ast.SelectorExpr)
			if !ok {
				return true
			}
			v, f := d.fieldOfLocal(se)
			if v == nil {
				return true
			}
			if b, ok := s.bind[v]; ok {
				v = b
			} else if v.Pos() >= s.lit.Pos() && v.Pos() < s.lit.End() {
				return true // a local or an unbound parameter of the goroutine itself
			}
			accs[acc{v, f}] = true
			return true
		})
		for a := range accs {
			name := wd.rootTypeName(a.v.Type()) + "." + a.f.Name()
			key := spawnRead{lean, name}
			if !seenR[key] {
				seenR[key] = true
				reads = append(reads, key)
			}
			sc := a.v.Parent()
			if sc == nil {
				continue
			}
			for _, w := range writes {
				if w.v != a.v || w.f != a.f {
					continue
				}
				bad := false
				for _, l := range s.loops {
					if l.Pos() > sc.Pos() && l.End() <= sc.End() && w.pos >= l.Pos() && w.pos < l.End() {
						bad = true // a loop inside the object's scope holds both the spawn and the write
					}
				}
				if w.pos > s.g.End() && w.pos < sc.End() && s.g.Pos() >= sc.Pos() {
					bad = true // written after the spawn
				}
				if bad && !seenE[key] {
					seenE[key] = true
					early = append(early, key)
				}
			}
		}
	}
	sort.Slice(reads, func(i, j int) bool { return reads[i].x < reads[j].x })
	sort.Slice(early, func(i, j int) bool { return early[i].x < early[j].x })
	return
}

// ---------------------------------------------------------------------------------------- chunk buffers of save

func isBuiltin(info *types.Info, c *ast.CallExpr, name string) bool {
	id, ok := c.Fun.(*ast.Ident)
	if !ok {
		return false
	}
	b, ok := info.Uses[id].(*types.Builtin)
	return ok && b.Name() == name
}

func pkgFunc(info *types.Info, c *ast.CallExpr) (string, string) {
	se, ok := c.Fun.(*ast.SelectorExpr)
	if !ok {
		return "", ""
	}
	id, ok := se.X.(*ast.Ident)
	if !ok {
		return "", ""
	}
	pn, ok := info.Uses[id].(*types.PkgName)
	if !ok {
		return "", ""
	}
	return pn.Imported().Path(), se.Sel.Name
}

// pool sizes: 0 = a freshly allocated buffer; n ≥ 2 = one of a ring / array of n buffers; 1 = reused or not understood
func joinPool(a, b int) int {
	switch {
	case a == 0:
		return b
	case b == 0:
		return a
	case a < b:
		return a
	}
	return b
}

// bufOrigin classifies an expression that yields a buffer (*bytes.Buffer / []byte)
func (d *funcDecl) bufOrigin(x ast.Expr, depth int) int {
	info := d.p.info
	if depth > 4 {
		return 1
	}
	switch e := x.(type) {
	case *ast.ParenExpr:
		return d.bufOrigin(e.X, depth)
	case *ast.UnaryExpr:
		if e.Op == token.AND {
			if _, ok := e.X.(*ast.CompositeLit); ok {
				return 0
			}
		}
		return 1
	case *ast.CompositeLit:
		return 0
	case *ast.IndexExpr:
		// an element of an array / slice of buffers
		t := info.TypeOf(e.X)
		if t != nil {
			if a, ok := deref(t).Underlying().(*types.Array); ok && a.Len() >= 2 {
				return int(a.Len())
			}
		}
		return 1
	case *ast.CallExpr:
		if isBuiltin(info, e, "make") || isBuiltin(info, e, "new") {
			return 0
		}
		if p, f := pkgFunc(info, e); p == "bytes" && (f == "NewBuffer" || f == "NewBufferString") {
			if len(e.Args) == 1 {
				if tv, ok := info.Types[e.Args[0]]; ok && tv.IsNil() {
					return 0
				}
				return d.bufOrigin(e.Args[0], depth+1)
			}
			return 1
		}
		// a local closure: every value it returns
		if id, ok := e.Fun.(*ast.Ident); ok {
			if o := d.obj2(id); o != nil && isLocalVar(o) {
				if lit := d.boundLitOf(o); lit != nil {
					return d.litResultOrigin(lit, depth+1)
				}
			}
		}
		return 1
	case *ast.Ident:
		if tv, ok := info.Types[e]; ok && tv.IsNil() {
			return 0
		}
		return 1
	}
	return 1
}

// litResultOrigin: join over everything a function literal can return
func (d *funcDecl) litResultOrigin(lit *ast.FuncLit, depth int) int {
	res := 0
	found := false
	named := map[types.Object]bool{}
	if lit.Type.Results != nil {
		for _, f := range lit.Type.Results.List {
			for _, nm := range f.Names {
				named[d.p.info.Defs[nm]] = true
			}
		}
	}
	ast.Inspect(lit.Body, func(n ast.Node) bool {
		switch s := n.(type) {
		case *ast.FuncLit:
			return false
		case *ast.ReturnStmt:
			for _, r := range s.Results {
				found = true
				res = joinPool(res, d.bufOrigin(r, depth))
			}
		case *ast.AssignStmt:
			for i, l := range s.Lhs {
				if id, ok := l.(*ast.Ident); ok && named[d.obj2(id)] {
					found = true
					if len(s.Rhs) == len(s.Lhs) {
						res = joinPool(res, d.bufOrigin(s.Rhs[i], depth))
					} else {
						res = joinPool(res, 1)
					}
				}
			}
		}
		return true
	})
	if !found {
		return 1
	}
	return res
}

// chunkBuffers: one entry per send on a `chan []byte` in save (source order)
func (wd *world) chunkBuffers(d *funcDecl) []int {
	info := d.p.info
	var res []int
	type mention struct {
		pos   token.Pos
		fresh int // -1: a use; else the origin class of the value assigned to the variable here
	}
	mentionsOf := func(o types.Object) []mention {
		var ms []mention
		assigned := map[*ast.Ident]int{}
		ast.Inspect(d.fd.Body, func(n ast.Node) bool {
			if as, ok := n.(*ast.AssignStmt); ok {
				for i, l := range as.Lhs {
					if id, ok := l.(*ast.Ident); ok && d.obj2(id) == o {
						if len(as.Rhs) == len(as.Lhs) {
							assigned[id] = d.bufOrigin(as.Rhs[i], 0)
						} else {
							assigned[id] = 1
						}
					}
				}
			}
			if vs, ok := n.(*ast.ValueSpec); ok {
				for i, id := range vs.Names {
					if d.obj2(id) == o {
						if i < len(vs.Values) {
							assigned[id] = d.bufOrigin(vs.Values[i], 0)
						} else {
							assigned[id] = 0 // zero value
						}
					}
				}
			}
			return true
		})
		ast.Inspect(d.fd.Body, func(n ast.Node) bool {
			if id, ok := n.(*ast.Ident); ok && d.obj2(id) == o {
				if c, ok := assigned[id]; ok {
					ms = append(ms, mention{id.Pos(), c})
				} else {
					ms = append(ms, mention{id.Pos(), -1})
				}
			}
			return true
		})
		sort.Slice(ms, func(i, j int) bool { return ms[i].pos < ms[j].pos })
		return ms
	}
	var stack []ast.Node
	ast.Inspect(d.fd.Body, func(n ast.Node) bool {
		if n == nil {
			stack = stack[:len(stack)-1]
			return true
		}
		stack = append(stack, n)
		s, ok := n.(*ast.SendStmt)
		if !ok || wd.tstr(info.TypeOf(s.Chan)) != "chan []uint8" {
			return true
		}
		// the buffer variable behind the value
		var id *ast.Ident
		switch v := stripPS(s.Value).(type) {
		case *ast.Ident:
			id = v
		case *ast.CallExpr:
			if se, ok := v.Fun.(*ast.SelectorExpr); ok && len(v.Args) == 0 {
				id, _ = stripPS(se.X).(*ast.Ident)
			}
		case *ast.SliceExpr:
			id, _ = stripIdx(v).(*ast.Ident)
		}
		if id == nil || d.obj2(id) == nil || !isLocalVar(d.obj2(id)) {
			res = append(res, 1)
			return true
		}
		o := d.obj2(id)
		ms := mentionsOf(o)
		// where the buffer comes from: every assignment to the variable
		origin := 0
		for _, m := range ms {
			if m.fresh >= 0 {
				origin = joinPool(origin, m.fresh)
			}
		}
		// is the variable given a new buffer before it is touched again? next mention after the send - inside the innermost
		// enclosing loop (which wraps around), else in the rest of the function
		var loop ast.Node
		for _, a := range stack {
			switch a.(type) {
			case *ast.ForStmt, *ast.RangeStmt:
				loop = a
			}
		}
		lo, hi := s.End(), d.fd.Body.End()
		if loop != nil {
			hi = loop.End()
		}
		next := mention{fresh: -2}
		for _, m := range ms {
			if m.pos >= lo && m.pos < hi {
				next = m
				break
			}
		}
		if next.fresh == -2 && loop != nil {
			for _, m := range ms {
				if m.pos >= loop.Pos() && m.pos < s.Pos() {
					next = m
					break
				}
			}
		}
		switch {
		case next.fresh == -2: // never touched again
		case next.fresh == -1: // used again as it is: the one buffer is reused
			origin = joinPool(origin, 1)
		}
		res = append(res, origin)
		return true
	})
	return res
}

// ---------------------------------------------------------------------------------------- origin of stored scripts

const (
	orgFresh   = 0 // a new copy (make / append to nil / Clone)
	orgBlock   = 1 // memory of the block being processed
	orgRecord  = 2 // memory of a stored UTXO record (owned by UnspentDB)
	orgUnknown = 3
)

func maxInt(a, b int) int {
	if a > b {
		return a
	}
	return b
}

type originer struct {
	wd      *world
	d       *funcDecl
	assigns map[types.Object][]ast.Expr // local -> every expression whose value (or element) flows into it
	busy    map[types.Object]bool
}

func (wd *world) newOriginer(d *funcDecl) *originer {
	og := &originer{wd: wd, d: d, assigns: map[types.Object][]ast.Expr{}, busy: map[types.Object]bool{}}
	add := func(l ast.Expr, r ast.Expr) {
		// `x = r`, `x[i] = r`, `x.f = r` (x local): r flows into x
		if id, ok := stripIdx(l).(*ast.Ident); ok {
			if o := d.obj2(id); o != nil && isLocalVar(o) {
				og.assigns[o] = append(og.assigns[o], r)
			}
		}
	}
	ast.Inspect(d.fd.Body, func(n ast.Node) bool {
		switch s := n.(type) {
		case *ast.AssignStmt:
			if len(s.Lhs) == len(s.Rhs) {
				for i := range s.Lhs {
					add(s.Lhs[i], s.Rhs[i])
				}
			} else if len(s.Rhs) == 1 {
				add(s.Lhs[0], s.Rhs[0]) // v, ok := m[k] / <-c / x.(T)
			}
		case *ast.ValueSpec:
			for i, id := range s.Names {
				if i < len(s.Values) {
					add(id, s.Values[i])
				}
			}
		case *ast.RangeStmt:
			if s.Value != nil {
				add(s.Value, s.X)
			}
		}
		return true
	})
	return og
}

func (og *originer) of(x ast.Expr, depth int) int {
	info := og.d.p.info
	if depth > 12 {
		return orgUnknown
	}
	if tv, ok := info.Types[x]; ok && (tv.IsNil() || tv.Value != nil) {
		return orgFresh
	}
	switch e := x.(type) {
	case *ast.ParenExpr:
		return og.of(e.X, depth)
	case *ast.StarExpr:
		return og.of(e.X, depth)
	case *ast.UnaryExpr:
		return og.of(e.X, depth)
	case *ast.IndexExpr:
		return og.of(e.X, depth)
	case *ast.SliceExpr:
		return og.of(e.X, depth)
	case *ast.SelectorExpr:
		if sel := info.Selections[e]; sel != nil && sel.Kind() == types.FieldVal {
			return og.of(e.X, depth)
		}
		return orgUnknown
	case *ast.CompositeLit:
		r := orgFresh
		for _, el := range e.Elts {
			if kv, ok := el.(*ast.KeyValueExpr); ok {
				r = maxInt(r, og.of(kv.Value, depth+1))
			} else {
				r = maxInt(r, og.of(el, depth+1))
			}
		}
		return r
	case *ast.CallExpr:
		if isBuiltin(info, e, "make") || isBuiltin(info, e, "new") {
			return orgFresh
		}
		if isBuiltin(info, e, "append") && len(e.Args) >= 1 {
			r := og.of(e.Args[0], depth+1) // the backing array may be the first argument's
			if e.Ellipsis == token.NoPos {
				for _, a := range e.Args[1:] {
					r = maxInt(r, og.elemOrigin(a, depth+1))
				}
			} else if len(e.Args) == 2 {
				r = maxInt(r, og.elemOrigin(e.Args[1], depth+1))
			}
			return r
		}
		if p, f := pkgFunc(info, e); (p == "slices" || p == "bytes") && f == "Clone" && len(e.Args) == 1 {
			return og.elemOrigin(e.Args[0], depth+1) // a shallow copy: fresh for bytes, the elements' origin for pointers
		}
		if tv, ok := info.Types[e.Fun]; ok && tv.IsType() && len(e.Args) == 1 {
			return og.of(e.Args[0], depth+1) // conversion
		}
		// a method of the UTXO database that hands out (a view of) a stored record
		if se, ok := e.Fun.(*ast.SelectorExpr); ok {
			if sel := info.Selections[se]; sel != nil && sel.Kind() == types.MethodVal && isNamed(sel.Recv(), modPath+"/lib/utxo", "UnspentDB") {
				return orgRecord
			}
		}
		return orgUnknown
	case *ast.Ident:
		o := og.d.obj2(e)
		v, ok := o.(*types.Var)
		if !ok {
			return orgUnknown
		}
		if !isLocalVar(v) {
			return orgUnknown
		}
		// a parameter / receiver: the block or one of its transactions
		if isNamed(v.Type(), modPath+"/lib/btc", "Block") || isNamed(v.Type(), modPath+"/lib/btc", "Tx") {
			if len(og.assigns[v]) == 0 {
				return orgBlock
			}
		}
		if og.busy[v] {
			return orgFresh // a cycle adds nothing
		}
		if len(og.assigns[v]) == 0 {
			return orgUnknown
		}
		og.busy[v] = true
		r := orgFresh
		for _, a := range og.assigns[v] {
			r = maxInt(r, og.of(a, depth+1))
		}
		og.busy[v] = false
		return r
	}
	return orgUnknown
}

// elemOrigin: origin of the ELEMENTS copied out of x; bytes copied are a fresh copy, pointers keep their origin
func (og *originer) elemOrigin(x ast.Expr, depth int) int {
	t := og.d.p.info.TypeOf(x)
	if t != nil {
		switch u := t.Underlying().(type) {
		case *types.Slice:
			if b, ok := u.Elem().Underlying().(*types.Basic); ok && b.Info()&types.IsNumeric != 0 {
				return orgFresh
			}
		case *types.Basic:
			return orgFresh
		}
	}
	return og.of(x, depth)
}

type scriptStore struct {
	field  string
	origin int
}

// scriptStores: stores into []byte fields of struct types of package lib/utxo, in source order
func (wd *world) scriptStores(d *funcDecl) []scriptStore {
	info := d.p.info
	og := wd.newOriginer(d)
	var res []scriptStore
	isBytes := func(t types.Type) bool {
		s, ok := t.Underlying().(*types.Slice)
		if !ok {
			return false
		}
		b, ok := s.Elem().Underlying().(*types.Basic)
		return ok && b.Kind() == types.Uint8
	}
	utxoField := func(f *types.Var, owner types.Type) (string, bool) {
		n, ok := deref(owner).(*types.Named)
		if !ok || n.Obj().Pkg() == nil || n.Obj().Pkg().Path() != modPath+"/lib/utxo" || !isBytes(f.Type()) {
			return "", false
		}
		return wd.namedName(n, false) + "." + f.Name(), true
	}
	ast.Inspect(d.fd.Body, func(n ast.Node) bool {
		switch s := n.(type) {
		case *ast.AssignStmt:
			if len(s.Lhs) != len(s.Rhs) {
				return true
			}
			for i, l := range s.Lhs {
				se, ok := stripPS(l).(*ast.SelectorExpr)
				if !ok {
					continue
				}
				sel := info.Selections[se]
				if sel == nil || sel.Kind() != types.FieldVal {
					continue
				}
				if name, ok := utxoField(sel.Obj().(*types.Var), sel.Recv()); ok {
					res = append(res, scriptStore{name, og.of(s.Rhs[i], 0)})
				}
			}
		case *ast.CompositeLit:
			t := info.TypeOf(s)
			if t == nil {
				return true
			}
			st, ok := deref(t).Underlying().(*types.Struct)
			if !ok {
				return true
			}
			for i, el := range s.Elts {
				var f *types.Var
				var val ast.Expr
				if kv, ok := el.(*ast.KeyValueExpr); ok {
					if id, ok := kv.Key.(*ast.Ident); ok {
						for k := 0; k < st.NumFields(); k++ {
							if st.Field(k).Name() == id.Name {
								f = st.Field(k)
							}
						}
					}
					val = kv.Value
				} else if i < st.NumFields() {
					f, val = st.Field(i), el
				}
				if f == nil {
					continue
				}
				if name, ok := utxoField(f, t); ok {
					res = append(res, scriptStore{name, og.of(val, 0)})
				}
			}
		}
		return true
	})
	return res
}
