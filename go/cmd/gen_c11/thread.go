package main

// Thread affinity of the operations that only the block-committing goroutine may execute.
//
// The snapshot protocol of UnspentDB (Model.Conc.Snap) is proved for ONE goroutine that commits, undoes, purges, goes idle,
// saves and closes, plus other goroutines that only hurry or abort a save: Save() takes no lock, so the hand-shake
// "abortWriting, then mutate" of CommitBlockTxs / UndoBlockTxs / PurgeUnspendable excludes only saves that are STARTED by the
// goroutine that mutates (or under db.Mutex). That is a fact about the CALLERS - the whole client, not lib/utxo - and this
// file regenerates it: every call site, anywhere in the module's non-test code reachable from the node's main package, of
//
//	UnspentDB.Save / Idle / Close / CommitBlockTxs / UndoBlockTxs / PurgeUnspendable / DefragMap / AbortWriting
//
// (Relocate is not in the list: the allocator's defragmentation calls it from one goroutine per size class while the main
// goroutine waits for them, under the bucket mutexes. AbortWriting is: the model lets an auxiliary goroutine abort, but next
// to a direct, unlocked Save() of the main goroutine its writingDone.Wait would run concurrently with Save's writingDone.Add -
// the node calls it from the main goroutine only.)
//
// with the set of goroutines that can execute it:
//
//	0 = only the main goroutine (reached from main.main / package initialisation by synchronous calls),
//	1 = (also) another goroutine: reached from the target of a `go` statement, or from a function value handed to a package
//	    outside the module that is not known to call it back synchronously (net/http handlers, time.AfterFunc …),
//	2 = not reached at all from the client (library API the node does not use).
//
// The call graph is built on resolved objects (go/types): static calls, immediately invoked / deferred function literals, and
// calls through function VALUES, resolved by a field-based flow analysis (a value stored into field T.f may be called wherever
// T.f is called; locals, parameters, package variables, containers of functions likewise; object-insensitive).
//
// DISPATCH TABLES WITH A THREAD FLAG. gocoin's text UI keeps {handler, sync bool} records: the UI goroutine calls the handler
// itself when the flag is false and queues it to the main goroutine (usif.UiChannel, served by main.main) when it is true. The
// analysis understands this shape structurally, not by name: whenever a function-typed field f of a struct T is read inside
// the then / else branch of an `if R.b` whose condition is a bool field b of the same record expression R, the values of T.f
// are partitioned by the CONSTANT that the same constructor call / composite literal stores into T.b (a function that stores
// two of its parameters into the fields b and f of one local record is a constructor; its call sites give the pairs). Records
// whose flag is not a compile-time constant count for both branches.

import (
	"fmt"
	"go/ast"
	"go/constant"
	"go/token"
	"go/types"
	"sort"
	"strings"
)

var mainOnlyOps = []string{"Save", "Idle", "Close", "CommitBlockTxs", "UndoBlockTxs", "PurgeUnspendable", "DefragMap", "AbortWriting"}

// packages outside the module that call a function argument back on the calling goroutine, before they return
var syncCallbackPkgs = map[string]bool{"sort": true, "strings": true, "bytes": true, "slices": true, "sync": true, "maps": true,
	"unicode": true, "math/big": true, "container/heap": true, "filepath": true, "path/filepath": true, "io/fs": true, "regexp": true}

type tnode struct {
	id    int
	name  string
	p     *pkgInfo
	obj   *types.Func  // nil for literals and the package-initialiser pseudo function
	lit   *ast.FuncLit // literal
	body  ast.Node
	sync  map[*tnode]bool // synchronous callees
	async map[*tnode]bool // started with `go` here
	sites []opSite        // main-only operations called in this body
}

// flow nodes: variables (locals, params, globals, fields); a split field has three variants
type opSite struct {
	op   string
	isGo bool // `go db.Op()`: executed by a new goroutine whatever the caller is
}

type fkey struct {
	v   *types.Var
	pol int // 0 = unsplit or "flag unknown", 1 = flag true, 2 = flag false
}

type guard struct {
	recv string
	b    *types.Var
	pol  bool
}

type indirect struct {
	from *tnode
	keys []fkey
	isGo bool
}

type ctorSummary struct {
	fn   *types.Func
	i, j int // parameter indices stored into the flag / the function field
	b, f *types.Var
}

type tworld struct {
	wd      *world
	nodes   []*tnode
	byObj   map[*types.Func]*tnode
	byLit   map[*ast.FuncLit]*tnode
	flowsTo map[fkey]map[fkey]bool   // dst <- src variable
	srcs    map[fkey]map[*tnode]bool // function values stored directly
	ind     []indirect
	foreign map[*tnode]bool           // handed to a package outside the module
	split   map[*types.Var]*types.Var // function field -> its flag field
	ctors   []ctorSummary
	ctorAsg map[*ast.AssignStmt]bool // assignments that are part of a constructor pattern (no generic edge)
}

func isFuncType(t types.Type) bool {
	if t == nil {
		return false
	}
	_, ok := t.Underlying().(*types.Signature)
	return ok
}

// holdsFuncs: a function type or a container (slice, array, map, channel, pointer) of one
func holdsFuncs(t types.Type) bool {
	for i := 0; i < 4 && t != nil; i++ {
		switch u := t.Underlying().(type) {
		case *types.Signature:
			return true
		case *types.Slice:
			t = u.Elem()
		case *types.Array:
			t = u.Elem()
		case *types.Map:
			t = u.Elem()
		case *types.Chan:
			t = u.Elem()
		case *types.Pointer:
			t = u.Elem()
		default:
			return false
		}
	}
	return false
}

func (tw *tworld) inModule(o types.Object) bool {
	return o != nil && o.Pkg() != nil && (o.Pkg().Path() == modPath || strings.HasPrefix(o.Pkg().Path(), modPath+"/"))
}

func (tw *tworld) funcName(o *types.Func) string {
	pk := strings.TrimPrefix(strings.TrimPrefix(o.Pkg().Path(), modPath), "/")
	if r := recvTypeName(o); r != "" {
		return pk + "." + r + "." + o.Name()
	}
	return pk + "." + o.Name()
}

// calleeOf: the statically known function a call expression calls (nil: builtin, conversion, function value, interface method)
func calleeOf(info *types.Info, c *ast.CallExpr) *types.Func {
	fun := ast.Unparen(c.Fun)
	switch f := fun.(type) {
	case *ast.Ident:
		if o, ok := info.Uses[f].(*types.Func); ok {
			return o
		}
	case *ast.SelectorExpr:
		if sel := info.Selections[f]; sel != nil {
			if sel.Kind() == types.MethodVal {
				if o, ok := sel.Obj().(*types.Func); ok {
					if _, isIface := sel.Recv().Underlying().(*types.Interface); !isIface {
						return o
					}
				}
			}
			return nil
		}
		if o, ok := info.Uses[f.Sel].(*types.Func); ok { // pkg.Func
			return o
		}
	case *ast.IndexExpr: // generic instantiation f[T](…)
		if id, ok := ast.Unparen(f.X).(*ast.Ident); ok {
			if o, ok := info.Uses[id].(*types.Func); ok {
				return o
			}
		}
	}
	return nil
}

func isConversionOrBuiltin(info *types.Info, c *ast.CallExpr) bool {
	fun := ast.Unparen(c.Fun)
	if tv, ok := info.Types[fun]; ok && (tv.IsType() || tv.IsBuiltin()) {
		return true
	}
	return false
}

func buildThreadWorld(wd *world) *tworld {
	tw := &tworld{wd: wd, byObj: map[*types.Func]*tnode{}, byLit: map[*ast.FuncLit]*tnode{}, flowsTo: map[fkey]map[fkey]bool{},
		srcs: map[fkey]map[*tnode]bool{}, foreign: map[*tnode]bool{}, split: map[*types.Var]*types.Var{}, ctorAsg: map[*ast.AssignStmt]bool{}}
	newNode := func(name string, p *pkgInfo, body ast.Node) *tnode {
		n := &tnode{id: len(tw.nodes), name: name, p: p, body: body, sync: map[*tnode]bool{}, async: map[*tnode]bool{}}
		tw.nodes = append(tw.nodes, n)
		return n
	}
	// deterministic order
	var paths []string
	for ip := range wd.pkgs {
		paths = append(paths, ip)
	}
	sort.Strings(paths)
	var lits func(parent *tnode, body ast.Node)
	lits = func(parent *tnode, body ast.Node) {
		k := 0
		ast.Inspect(body, func(nd ast.Node) bool {
			if fl, ok := nd.(*ast.FuncLit); ok && nd != body {
				k++
				n := newNode(fmt.Sprintf("%s$%d", parent.name, k), parent.p, fl)
				n.lit = fl
				tw.byLit[fl] = n
				lits(n, fl.Body)
				return false
			}
			return true
		})
	}
	for _, ip := range paths {
		p := wd.pkgs[ip]
		for _, f := range p.files {
			for _, d := range f.Decls {
				switch x := d.(type) {
				case *ast.FuncDecl:
					if x.Body == nil {
						continue
					}
					o, _ := p.info.Defs[x.Name].(*types.Func)
					if o == nil {
						continue
					}
					n := newNode(tw.funcName(o), p, x)
					n.obj = o
					if o.Name() != "init" || recvTypeName(o) != "" { // several init functions share a name, never called
						tw.byObj[o] = n
					}
					lits(n, x.Body)
				case *ast.GenDecl:
					if x.Tok == token.VAR {
						n := newNode(strings.TrimPrefix(strings.TrimPrefix(ip, modPath), "/")+".<var-init>", p, x)
						lits(n, x)
					}
				}
			}
		}
	}
	tw.findSplits()
	for _, n := range tw.nodes {
		tw.walkBody(n)
	}
	return tw
}

// inner: the statements of a node (nested literals are separate nodes, the walkers do not enter them)
func (n *tnode) inner() ast.Node {
	switch b := n.body.(type) {
	case *ast.FuncDecl:
		return b.Body
	case *ast.FuncLit:
		return b.Body
	}
	return n.body
}

// guardOf: cond is `R.b` or `!R.b` with b a bool struct field
func guardOf(info *types.Info, cond ast.Expr) (recv string, b *types.Var, pol bool, ok bool) {
	pol = true
	cond = ast.Unparen(cond)
	if u, isU := cond.(*ast.UnaryExpr); isU && u.Op == token.NOT {
		pol = false
		cond = ast.Unparen(u.X)
	}
	se, isSel := cond.(*ast.SelectorExpr)
	if !isSel {
		return
	}
	sel := info.Selections[se]
	if sel == nil || sel.Kind() != types.FieldVal {
		return
	}
	v, _ := sel.Obj().(*types.Var)
	if v == nil {
		return
	}
	if bt, isB := v.Type().Underlying().(*types.Basic); !isB || bt.Kind() != types.Bool {
		return
	}
	return types.ExprString(se.X), v, pol, true
}

// walkGuarded walks a body keeping the stack of enclosing `if R.b` guards; nested function literals are not entered.
func walkGuarded(info *types.Info, root ast.Node, gs []guard, visit func(nd ast.Node, gs []guard) bool) {
	var rec func(nd ast.Node, gs []guard)
	rec = func(nd ast.Node, gs []guard) {
		if nd == nil {
			return
		}
		ast.Inspect(nd, func(x ast.Node) bool {
			if x == nil {
				return false
			}
			if fl, ok := x.(*ast.FuncLit); ok && x != root {
				visit(fl, gs) // the literal as a value
				return false
			}
			if is, ok := x.(*ast.IfStmt); ok && x != nd {
				if is.Init != nil {
					rec(is.Init, gs)
				}
				rec(is.Cond, gs)
				if r, b, pol, ok := guardOf(info, is.Cond); ok {
					rec(is.Body, append(append([]guard{}, gs...), guard{r, b, pol}))
					if is.Else != nil {
						rec(is.Else, append(append([]guard{}, gs...), guard{r, b, !pol}))
					}
				} else {
					rec(is.Body, gs)
					if is.Else != nil {
						rec(is.Else, gs)
					}
				}
				return false
			}
			return visit(x, gs)
		})
	}
	// the root itself may be an IfStmt only in nested recursion; handle uniformly
	if is, ok := root.(*ast.IfStmt); ok {
		rec(&ast.BlockStmt{List: []ast.Stmt{is}}, gs)
		return
	}
	rec(root, gs)
}

// findSplits: function fields read under a flag guard of the same record, and the constructors of such records
func (tw *tworld) findSplits() {
	for _, n := range tw.nodes {
		info := n.p.info
		walkGuarded(info, n.inner(), nil, func(nd ast.Node, gs []guard) bool {
			se, ok := nd.(*ast.SelectorExpr)
			if !ok || len(gs) == 0 {
				return true
			}
			sel := info.Selections[se]
			if sel == nil || sel.Kind() != types.FieldVal || !isFuncType(sel.Obj().Type()) {
				return true
			}
			f := sel.Obj().(*types.Var)
			r := types.ExprString(se.X)
			for _, g := range gs {
				if g.recv == r && tw.inModule(f) {
					if old, dup := tw.split[f]; dup && old != g.b {
						continue // two different flags: keep the first, reads under the other are unguarded
					}
					tw.split[f] = g.b
				}
			}
			return true
		})
	}
	if len(tw.split) == 0 {
		return
	}
	// constructors: one function stores parameter i into X.b and parameter j into X.f for one local X
	for _, n := range tw.nodes {
		if n.obj == nil {
			continue
		}
		info := n.p.info
		sig := n.obj.Type().(*types.Signature)
		pidx := func(e ast.Expr) int {
			id, ok := ast.Unparen(e).(*ast.Ident)
			if !ok {
				return -1
			}
			o := info.Uses[id]
			for k := 0; k < sig.Params().Len(); k++ {
				if sig.Params().At(k) == o {
					return k
				}
			}
			return -1
		}
		type st struct {
			as  *ast.AssignStmt
			par int
		}
		bAsg := map[types.Object]map[*types.Var]st{}
		fAsg := map[types.Object]map[*types.Var]st{}
		ast.Inspect(n.inner(), func(nd ast.Node) bool {
			if _, ok := nd.(*ast.FuncLit); ok {
				return false
			}
			as, ok := nd.(*ast.AssignStmt)
			if !ok || len(as.Lhs) != 1 || len(as.Rhs) != 1 {
				return true
			}
			se, ok := as.Lhs[0].(*ast.SelectorExpr)
			if !ok {
				return true
			}
			sel := info.Selections[se]
			id, isId := ast.Unparen(se.X).(*ast.Ident)
			if sel == nil || sel.Kind() != types.FieldVal || !isId {
				return true
			}
			x := info.Uses[id]
			if x == nil || !isLocalVar(x) {
				return true
			}
			fv := sel.Obj().(*types.Var)
			if _, isF := tw.split[fv]; isF {
				if fAsg[x] == nil {
					fAsg[x] = map[*types.Var]st{}
				}
				fAsg[x][fv] = st{as, pidx(as.Rhs[0])}
			}
			for _, b := range tw.split {
				if b == fv {
					if bAsg[x] == nil {
						bAsg[x] = map[*types.Var]st{}
					}
					bAsg[x][fv] = st{as, pidx(as.Rhs[0])}
				}
			}
			return true
		})
		for x, fs := range fAsg {
			for fv, fa := range fs {
				ba, ok := bAsg[x][tw.split[fv]]
				if !ok || fa.par < 0 || ba.par < 0 {
					continue
				}
				tw.ctors = append(tw.ctors, ctorSummary{fn: n.obj, i: ba.par, j: fa.par, b: tw.split[fv], f: fv})
				tw.ctorAsg[fa.as] = true
			}
		}
	}
}

func (tw *tworld) addFlow(dst, src fkey) {
	if tw.flowsTo[dst] == nil {
		tw.flowsTo[dst] = map[fkey]bool{}
	}
	tw.flowsTo[dst][src] = true
}

func (tw *tworld) addSrc(dst fkey, n *tnode) {
	if n == nil {
		return
	}
	if tw.srcs[dst] == nil {
		tw.srcs[dst] = map[*tnode]bool{}
	}
	tw.srcs[dst][n] = true
}

// value: what a function-valued (or container-of-functions) expression may evaluate to
type value struct {
	fns  []*tnode
	keys []fkey
}

func (tw *tworld) valueOf(n *tnode, e ast.Expr, gs []guard) (v value) {
	info := n.p.info
	for {
		switch x := e.(type) {
		case *ast.ParenExpr:
			e = x.X
			continue
		case *ast.StarExpr:
			e = x.X
			continue
		case *ast.IndexExpr:
			e = x.X
			continue
		case *ast.SliceExpr:
			e = x.X
			continue
		case *ast.UnaryExpr:
			if x.Op == token.AND || x.Op == token.ARROW {
				e = x.X
				continue
			}
		case *ast.TypeAssertExpr:
			e = x.X
			continue
		}
		break
	}
	switch x := e.(type) {
	case *ast.FuncLit:
		v.fns = append(v.fns, tw.byLit[x])
	case *ast.Ident:
		switch o := info.Uses[x].(type) {
		case *types.Func:
			if t := tw.byObj[o]; t != nil {
				v.fns = append(v.fns, t)
			}
		case *types.Var:
			v.keys = append(v.keys, fkey{o, 0})
		}
		if o, ok := info.Defs[x].(*types.Var); ok && o != nil {
			v.keys = append(v.keys, fkey{o, 0})
		}
	case *ast.SelectorExpr:
		if sel := info.Selections[x]; sel != nil {
			switch sel.Kind() {
			case types.FieldVal:
				f := sel.Obj().(*types.Var)
				if b, isSplit := tw.split[f]; isSplit {
					r := types.ExprString(x.X)
					for _, g := range gs {
						if g.recv == r && g.b == b {
							pol := 2
							if g.pol {
								pol = 1
							}
							v.keys = append(v.keys, fkey{f, pol}, fkey{f, 0})
							return
						}
					}
					v.keys = append(v.keys, fkey{f, 0}, fkey{f, 1}, fkey{f, 2})
					return
				}
				v.keys = append(v.keys, fkey{f, 0})
			case types.MethodVal:
				if o, ok := sel.Obj().(*types.Func); ok {
					if t := tw.byObj[o]; t != nil {
						v.fns = append(v.fns, t)
					}
				}
			}
			return
		}
		switch o := info.Uses[x.Sel].(type) { // pkg.Name
		case *types.Func:
			if t := tw.byObj[o]; t != nil {
				v.fns = append(v.fns, t)
			}
		case *types.Var:
			v.keys = append(v.keys, fkey{o, 0})
		}
	case *ast.CompositeLit:
		// a literal container of functions: its elements
		for _, el := range x.Elts {
			if kv, ok := el.(*ast.KeyValueExpr); ok {
				el = kv.Value
			}
			if tv, ok := info.Types[el]; ok && holdsFuncs(tv.Type) {
				w := tw.valueOf(n, el, gs)
				v.fns = append(v.fns, w.fns...)
				v.keys = append(v.keys, w.keys...)
			}
		}
	case *ast.CallExpr:
		// append(s, f…): the container and the appended values
		if id, ok := ast.Unparen(x.Fun).(*ast.Ident); ok {
			if b, ok := info.Uses[id].(*types.Builtin); ok && b.Name() == "append" {
				for _, a := range x.Args {
					w := tw.valueOf(n, a, gs)
					v.fns = append(v.fns, w.fns...)
					v.keys = append(v.keys, w.keys...)
				}
			}
		}
	}
	return
}

func (tw *tworld) store(dsts []fkey, v value) {
	for _, d := range dsts {
		for _, f := range v.fns {
			tw.addSrc(d, f)
		}
		for _, k := range v.keys {
			if k != d {
				tw.addFlow(d, k)
			}
		}
	}
}

// dstOf: the variable an assignment target stores into (writes into a split field go to its "flag unknown" variant)
func (tw *tworld) dstOf(n *tnode, e ast.Expr) []fkey {
	v := tw.valueOf(n, e, nil)
	var out []fkey
	for _, k := range v.keys {
		if k.pol == 0 {
			out = append(out, k)
		}
	}
	return out
}

func (tw *tworld) walkBody(n *tnode) {
	info := n.p.info
	handleCall := func(c *ast.CallExpr, gs []guard, isGo bool) {
		if isConversionOrBuiltin(info, c) {
			return
		}
		edge := func(t *tnode) {
			if t == nil {
				return
			}
			if isGo {
				n.async[t] = true
			} else {
				n.sync[t] = true
			}
		}
		if fl, ok := ast.Unparen(c.Fun).(*ast.FuncLit); ok {
			edge(tw.byLit[fl])
			return
		}
		if callee := calleeOf(info, c); callee != nil {
			callee = callee.Origin()
			if isMainOnlyOp(callee) {
				n.sites = append(n.sites, opSite{callee.Name(), isGo})
			}
			t := tw.byObj[callee]
			edge(t)
			sig, _ := callee.Type().(*types.Signature)
			for i, a := range c.Args {
				tv, ok := info.Types[a]
				if !ok || !holdsFuncs(tv.Type) {
					continue
				}
				v := tw.valueOf(n, a, gs)
				if t != nil && sig != nil {
					// constructor of a flagged record?
					handled := false
					for _, cs := range tw.ctors {
						if cs.fn == callee && cs.j == i && cs.i < len(c.Args) {
							pol := 0
							if cv, ok := info.Types[c.Args[cs.i]]; ok && cv.Value != nil && cv.Value.Kind() == constant.Bool {
								pol = 2
								if constant.BoolVal(cv.Value) {
									pol = 1
								}
							}
							tw.store([]fkey{{cs.f, pol}}, v)
							handled = true
						}
					}
					if handled {
						continue
					}
					pi := i
					if sig.Variadic() && pi >= sig.Params().Len()-1 {
						pi = sig.Params().Len() - 1
					}
					if pi < sig.Params().Len() {
						tw.store([]fkey{{sig.Params().At(pi), 0}}, v)
					}
					continue
				}
				// a function of another module / without a body: does it call back on this goroutine?
				if callee.Pkg() != nil && syncCallbackPkgs[callee.Pkg().Path()] {
					for _, f := range v.fns {
						n.sync[f] = true
					}
					if len(v.keys) > 0 {
						tw.ind = append(tw.ind, indirect{n, v.keys, false})
					}
					continue
				}
				for _, f := range v.fns {
					tw.foreign[f] = true
				}
				if len(v.keys) > 0 {
					tw.ind = append(tw.ind, indirect{nil, v.keys, true})
				}
			}
			return
		}
		// interface method or function value
		if se, ok := ast.Unparen(c.Fun).(*ast.SelectorExpr); ok {
			if sel := info.Selections[se]; sel != nil && sel.Kind() == types.MethodVal {
				return // interface method: not resolved
			}
		}
		v := tw.valueOf(n, c.Fun, gs)
		for _, f := range v.fns {
			edge(f)
		}
		if len(v.keys) > 0 {
			tw.ind = append(tw.ind, indirect{n, v.keys, isGo})
		}
	}
	goCalls := map[*ast.CallExpr]bool{}
	walkGuarded(info, n.inner(), nil, func(nd ast.Node, gs []guard) bool {
		switch x := nd.(type) {
		case *ast.GoStmt:
			goCalls[x.Call] = true
		case *ast.CallExpr:
			handleCall(x, gs, goCalls[x])
		case *ast.AssignStmt:
			if tw.ctorAsg[x] {
				return true
			}
			if len(x.Lhs) == len(x.Rhs) {
				for i := range x.Lhs {
					if tv, ok := info.Types[x.Rhs[i]]; ok && holdsFuncs(tv.Type) {
						tw.store(tw.dstOf(n, x.Lhs[i]), tw.valueOf(n, x.Rhs[i], gs))
					}
				}
			}
		case *ast.ValueSpec:
			if len(x.Names) == len(x.Values) {
				for i := range x.Names {
					if tv, ok := info.Types[x.Values[i]]; ok && holdsFuncs(tv.Type) {
						if o, ok := info.Defs[x.Names[i]].(*types.Var); ok {
							tw.store([]fkey{{o, 0}}, tw.valueOf(n, x.Values[i], gs))
						}
					}
				}
			}
		case *ast.SendStmt:
			if tv, ok := info.Types[x.Value]; ok && holdsFuncs(tv.Type) {
				tw.store(tw.dstOf(n, x.Chan), tw.valueOf(n, x.Value, gs))
			}
		case *ast.RangeStmt:
			if x.Value != nil {
				if tv, ok := info.Types[x.X]; ok && holdsFuncs(tv.Type) {
					tw.store(tw.dstOf(n, x.Value), tw.valueOf(n, x.X, gs))
				}
			}
		case *ast.CompositeLit:
			tv, ok := info.Types[x]
			if !ok {
				return true
			}
			st, isStruct := deref(tv.Type).Underlying().(*types.Struct)
			if !isStruct {
				return true
			}
			// flag constant of this literal, for split fields
			flagOf := func(b *types.Var) int {
				for i, el := range x.Elts {
					var fv *types.Var
					val := el
					if kv, ok := el.(*ast.KeyValueExpr); ok {
						if id, ok := kv.Key.(*ast.Ident); ok {
							fv, _ = info.Uses[id].(*types.Var)
						}
						val = kv.Value
					} else if i < st.NumFields() {
						fv = st.Field(i)
					}
					if fv == b {
						if cv, ok := info.Types[val]; ok && cv.Value != nil && cv.Value.Kind() == constant.Bool {
							if constant.BoolVal(cv.Value) {
								return 1
							}
							return 2
						}
						return 0
					}
				}
				return 2 // field not mentioned: zero value false
			}
			for i, el := range x.Elts {
				var fv *types.Var
				val := el
				if kv, ok := el.(*ast.KeyValueExpr); ok {
					if id, ok := kv.Key.(*ast.Ident); ok {
						fv, _ = info.Uses[id].(*types.Var)
					}
					val = kv.Value
				} else if i < st.NumFields() {
					fv = st.Field(i)
				}
				if fv == nil {
					continue
				}
				if vt, ok := info.Types[val]; !ok || !holdsFuncs(vt.Type) {
					continue
				}
				pol := 0
				if b, isSplit := tw.split[fv]; isSplit {
					pol = flagOf(b)
				}
				tw.store([]fkey{{fv, pol}}, tw.valueOf(n, val, gs))
			}
		}
		return true
	})
}

func isMainOnlyOp(o *types.Func) bool {
	if o.Pkg() == nil || o.Pkg().Path() != modPath+"/lib/utxo" || recvTypeName(o) != "UnspentDB" {
		return false
	}
	for _, n := range mainOnlyOps {
		if n == o.Name() {
			return true
		}
	}
	return false
}

// resolve: the functions a flow node may hold
func (tw *tworld) resolve() map[fkey]map[*tnode]bool {
	res := map[fkey]map[*tnode]bool{}
	// simple fixpoint
	all := map[fkey]bool{}
	for k := range tw.srcs {
		all[k] = true
	}
	for k, m := range tw.flowsTo {
		all[k] = true
		for s := range m {
			all[s] = true
		}
	}
	for k := range all {
		res[k] = map[*tnode]bool{}
		for f := range tw.srcs[k] {
			res[k][f] = true
		}
	}
	for changed := true; changed; {
		changed = false
		for d, m := range tw.flowsTo {
			for s := range m {
				for f := range res[s] {
					if !res[d][f] {
						res[d][f] = true
						changed = true
					}
				}
			}
		}
	}
	return res
}

type callSite struct {
	op, caller string
	ctx        int
}

// threadFacts: see the file comment
func threadFacts() []callSite {
	wd := loadWorld([]string{"client"})
	tw := buildThreadWorld(wd)
	res := tw.resolve()
	foreignRoots := map[*tnode]bool{}
	for f := range tw.foreign {
		foreignRoots[f] = true
	}
	for _, in := range tw.ind {
		for _, k := range in.keys {
			for f := range res[k] {
				switch {
				case in.from == nil:
					foreignRoots[f] = true
				case in.isGo:
					in.from.async[f] = true
				default:
					in.from.sync[f] = true
				}
			}
		}
	}
	for _, n := range tw.nodes {
		for t := range n.async {
			foreignRoots[t] = true
		}
	}
	reach := func(roots []*tnode) map[*tnode]bool {
		seen := map[*tnode]bool{}
		for len(roots) > 0 {
			n := roots[len(roots)-1]
			roots = roots[:len(roots)-1]
			if n == nil || seen[n] {
				continue
			}
			seen[n] = true
			for t := range n.sync {
				roots = append(roots, t)
			}
		}
		return seen
	}
	var mainRoots, fRoots []*tnode
	for _, n := range tw.nodes {
		if n.obj != nil && n.obj.Name() == "main" && n.obj.Pkg().Name() == "main" && recvTypeName(n.obj) == "" {
			mainRoots = append(mainRoots, n)
		}
		if n.obj != nil && n.obj.Name() == "init" && recvTypeName(n.obj) == "" {
			mainRoots = append(mainRoots, n)
		}
		if strings.HasSuffix(n.name, ".<var-init>") {
			mainRoots = append(mainRoots, n)
		}
		if foreignRoots[n] {
			fRoots = append(fRoots, n)
		}
	}
	if len(mainRoots) == 0 {
		die(fmt.Errorf("client: func main not found"))
	}
	inMain, inForeign := reach(mainRoots), reach(fRoots)
	var out []callSite
	for _, n := range tw.nodes {
		for _, op := range n.sites {
			ctx := 2
			if inForeign[n] || (op.isGo && inMain[n]) {
				ctx = 1
			} else if inMain[n] {
				ctx = 0
			}
			out = append(out, callSite{op.op, n.name, ctx})
		}
	}
	// a main-only operation used as a VALUE (method value `f := db.Save; go f()`, method expression, callback argument
	// `time.AfterFunc(d, db.AbortWriting)`) has no call expression naming it: the flow analysis above makes the operation's own
	// node an asynchronous root / reachable from one. That is a site executed by another goroutine.
	for _, n := range tw.nodes {
		if n.obj == nil || !isMainOnlyOp(n.obj) {
			continue
		}
		if foreignRoots[n] {
			out = append(out, callSite{n.obj.Name(), "(function value: started as a goroutine or handed to a callback)", 1})
		} else if inForeign[n] {
			direct := false
			for _, m := range tw.nodes {
				if !inForeign[m] {
					continue
				}
				for _, op := range m.sites {
					if op.op == n.obj.Name() {
						direct = true
					}
				}
			}
			if !direct {
				out = append(out, callSite{n.obj.Name(), "(function value called by another goroutine)", 1})
			}
		}
	}
	sort.Slice(out, func(i, j int) bool {
		if out[i].op != out[j].op {
			return out[i].op < out[j].op
		}
		if out[i].caller != out[j].caller {
			return out[i].caller < out[j].caller
		}
		return out[i].ctx < out[j].ctx
	})
	return out
}

func threadProbe() {
	for _, s := range threadFacts() {
		fmt.Println(s.ctx, s.op, s.caller)
	}
}
