package main

// Loading and type-checking of the analysed gocoin packages (go/types, sources only, offline).
// Everything gen_c11 says about an identifier is derived from the OBJECT it resolves to and from that
// object's TYPE - never from its spelling - so that renaming locals, parameters, receivers, named
// results, labels, closures or unexported helper functions does not change the generated facts.

import (
	"fmt"
	"go/ast"
	"go/build"
	"go/importer"
	"go/parser"
	"go/token"
	"go/types"
	"strings"

	"verif/vtrans"
)

const modPath = "github.com/piotrnar/gocoin"

type pkgInfo struct {
	rel   string // "lib/utxo"
	pkg   *types.Package
	info  *types.Info
	files []*ast.File
}

type funcDecl struct {
	fd  *ast.FuncDecl
	p   *pkgInfo
	obj *types.Func
}

type world struct {
	fset  *token.FileSet
	std   types.Importer
	pkgs  map[string]*pkgInfo // by import path
	decl  map[*types.Func]*funcDecl
	terrs []string
	// readable names for unexported named types that occur in tracked names, resolved through an exported anchor
	typeAlias map[*types.TypeName]string
	auto      map[*ast.FuncDecl]*fnFacts
}

func (wd *world) Import(path string) (*types.Package, error) { return wd.ImportFrom(path, "", 0) }

func (wd *world) ImportFrom(path, dir string, mode types.ImportMode) (*types.Package, error) {
	if path == "unsafe" {
		return types.Unsafe, nil
	}
	if p, ok := wd.pkgs[path]; ok {
		return p.pkg, nil
	}
	if !strings.HasPrefix(path, modPath+"/") {
		return wd.std.Import(path)
	}
	rel := strings.TrimPrefix(path, modPath+"/")
	d := vtrans.RepoRoot() + "/" + rel
	ctx := build.Default
	ctx.BuildTags = []string{"verif"}
	bp, err := ctx.ImportDir(d, 0)
	if err != nil {
		return nil, err
	}
	var fs []*ast.File
	for _, fn := range bp.GoFiles {
		f, err := parser.ParseFile(wd.fset, d+"/"+fn, nil, parser.ParseComments)
		if err != nil {
			return nil, err
		}
		fs = append(fs, f)
	}
	info := &types.Info{
		Types:      map[ast.Expr]types.TypeAndValue{},
		Defs:       map[*ast.Ident]types.Object{},
		Uses:       map[*ast.Ident]types.Object{},
		Selections: map[*ast.SelectorExpr]*types.Selection{},
	}
	conf := types.Config{Importer: wd, FakeImportC: true, Error: func(err error) { wd.terrs = append(wd.terrs, err.Error()) }}
	p, _ := conf.Check(path, wd.fset, fs, info)
	pi := &pkgInfo{rel: rel, pkg: p, info: info, files: fs}
	wd.pkgs[path] = pi
	for _, f := range fs {
		for _, d := range f.Decls {
			if fd, ok := d.(*ast.FuncDecl); ok && fd.Body != nil {
				if o, ok := info.Defs[fd.Name].(*types.Func); ok {
					wd.decl[o] = &funcDecl{fd, pi, o}
				}
			}
		}
	}
	return p, nil
}

func loadWorld(rels []string) *world {
	fset := token.NewFileSet()
	wd := &world{fset: fset, std: importer.ForCompiler(fset, "source", nil), pkgs: map[string]*pkgInfo{},
		decl: map[*types.Func]*funcDecl{}, typeAlias: map[*types.TypeName]string{}, auto: map[*ast.FuncDecl]*fnFacts{}}
	for _, r := range rels {
		if _, err := wd.Import(modPath + "/" + r); err != nil {
			die(err)
		}
	}
	if len(wd.terrs) > 0 {
		// a tree that does not type-check does not build either; the harness build reports that. Identifier
		// resolution would be unreliable, so refuse.
		die(fmt.Errorf("the analysed packages do not type-check: %s", strings.Join(wd.terrs[:min(3, len(wd.terrs))], "; ")))
	}
	return wd
}

func min(a, b int) int {
	if a < b {
		return a
	}
	return b
}

func (wd *world) pkg(rel string) *pkgInfo {
	p := wd.pkgs[modPath+"/"+rel]
	if p == nil {
		die(fmt.Errorf("package %s not loaded", rel))
	}
	return p
}

// lookupFunc finds an EXPORTED function or method (or any function when exact is set) by name.
func (wd *world) lookupFunc(p *pkgInfo, recv, name string) *funcDecl {
	for o, d := range wd.decl {
		if d.p != p || o.Name() != name {
			continue
		}
		if recvTypeName(o) == recv {
			return d
		}
	}
	return nil
}

func recvTypeName(o *types.Func) string {
	sig, ok := o.Type().(*types.Signature)
	if !ok || sig.Recv() == nil {
		return ""
	}
	t := types.Unalias(sig.Recv().Type())
	if pt, ok := t.(*types.Pointer); ok {
		t = types.Unalias(pt.Elem())
	}
	if n, ok := t.(*types.Named); ok {
		return n.Obj().Name()
	}
	return "?"
}

// ---- canonical type strings -------------------------------------------------------------------------------------

// tstr prints a type without mentioning any unexported type name (those are printed through a registered alias or
// as "?"): names of unexported types must not matter. Exported named types are qualified by their package name.
func (wd *world) tstr(t types.Type) string {
	t = types.Unalias(t)
	switch x := t.(type) {
	case *types.Basic:
		switch x.Kind() {
		case types.Uint8:
			return "uint8" // byte
		case types.Int32:
			return "int32" // rune
		}
		return x.Name()
	case *types.Named:
		s := wd.namedName(x, true)
		if ta := x.TypeArgs(); ta != nil && ta.Len() > 0 {
			var as []string
			for i := 0; i < ta.Len(); i++ {
				as = append(as, wd.tstr(ta.At(i)))
			}
			s += "[" + strings.Join(as, ",") + "]"
		}
		return s
	case *types.Pointer:
		return "*" + wd.tstr(x.Elem())
	case *types.Slice:
		return "[]" + wd.tstr(x.Elem())
	case *types.Array:
		return fmt.Sprintf("[%d]%s", x.Len(), wd.tstr(x.Elem()))
	case *types.Map:
		return "map[" + wd.tstr(x.Key()) + "]" + wd.tstr(x.Elem())
	case *types.Chan:
		switch x.Dir() {
		case types.SendOnly:
			return "chan<- " + wd.tstr(x.Elem())
		case types.RecvOnly:
			return "<-chan " + wd.tstr(x.Elem())
		}
		return "chan " + wd.tstr(x.Elem())
	case *types.Signature:
		var ps []string
		for i := 0; i < x.Params().Len(); i++ {
			s := wd.tstr(x.Params().At(i).Type())
			if x.Variadic() && i == x.Params().Len()-1 {
				s = "..." + strings.TrimPrefix(s, "[]")
			}
			ps = append(ps, s)
		}
		s := "func(" + strings.Join(ps, ",") + ")"
		if n := x.Results().Len(); n == 1 {
			s += " " + wd.tstr(x.Results().At(0).Type())
		} else if n > 1 {
			var rs []string
			for i := 0; i < n; i++ {
				rs = append(rs, wd.tstr(x.Results().At(i).Type()))
			}
			s += " (" + strings.Join(rs, ",") + ")"
		}
		return s
	case *types.Struct:
		var fs []string
		for i := 0; i < x.NumFields(); i++ {
			fs = append(fs, x.Field(i).Name()+" "+wd.tstr(x.Field(i).Type()))
		}
		return "struct{" + strings.Join(fs, ";") + "}"
	case *types.Interface:
		if x.NumMethods() == 0 {
			return "any"
		}
		var ms []string
		for i := 0; i < x.NumMethods(); i++ {
			ms = append(ms, x.Method(i).Name())
		}
		return "interface{" + strings.Join(ms, ";") + "}"
	case *types.Tuple:
		var rs []string
		for i := 0; i < x.Len(); i++ {
			rs = append(rs, wd.tstr(x.At(i).Type()))
		}
		return "(" + strings.Join(rs, ",") + ")"
	case *types.TypeParam:
		return "T"
	}
	return "?"
}

func (wd *world) namedName(n *types.Named, qualify bool) string {
	o := n.Obj()
	if o.Pkg() == nil {
		return o.Name() // error
	}
	if a, ok := wd.typeAlias[o]; ok {
		return a
	}
	if !o.Exported() || o.Parent() != o.Pkg().Scope() {
		return "?" // unexported or function-local type: its name is not an identity we may rely on
	}
	if qualify {
		return o.Pkg().Name() + "." + o.Name()
	}
	return o.Name()
}

// rootTypeName is the name under which the fields of a struct-typed local / parameter / receiver are recorded:
// `db.HashMap` with db *UnspentDB is "UnspentDB.HashMap" whatever the variable is called.
func (wd *world) rootTypeName(t types.Type) string {
	t = types.Unalias(t)
	if p, ok := t.(*types.Pointer); ok {
		t = types.Unalias(p.Elem())
	}
	if n, ok := t.(*types.Named); ok {
		return wd.namedName(n, false)
	}
	return "L:" + wd.tstr(t)
}

func deref(t types.Type) types.Type {
	if t == nil {
		return nil
	}
	t = types.Unalias(t)
	if p, ok := t.(*types.Pointer); ok {
		return types.Unalias(p.Elem())
	}
	return t
}

func isNamed(t types.Type, pkgPath, name string) bool {
	n, ok := deref(t).(*types.Named)
	return ok && n.Obj().Pkg() != nil && n.Obj().Pkg().Path() == pkgPath && n.Obj().Name() == name
}

func isWaitGroup(t types.Type) bool { return isNamed(t, "sync", "WaitGroup") }

// isAtomicType: a type of package sync/atomic, or a struct that embeds one (gocoin's sys.SyncBool / sys.SyncInt).
func isAtomicType(t types.Type) bool {
	n, ok := deref(t).(*types.Named)
	if !ok || n.Obj().Pkg() == nil {
		return false
	}
	if n.Obj().Pkg().Path() == "sync/atomic" {
		return true
	}
	if st, ok := n.Underlying().(*types.Struct); ok {
		for i := 0; i < st.NumFields(); i++ {
			f := st.Field(i)
			if f.Embedded() {
				if fn, ok := deref(f.Type()).(*types.Named); ok && fn.Obj().Pkg() != nil && fn.Obj().Pkg().Path() == "sync/atomic" {
					return true
				}
			}
		}
	}
	return false
}

// isSyncObject: values that are synchronisation objects themselves (used through their operations, never tracked
// as plain shared memory): channels, wait groups, mutexes, atomics, function values.
func isSyncObject(t types.Type) bool {
	if t == nil {
		return false
	}
	d := deref(t)
	switch d.Underlying().(type) {
	case *types.Chan, *types.Signature:
		return true
	}
	if n, ok := d.(*types.Named); ok && n.Obj().Pkg() != nil && n.Obj().Pkg().Path() == "sync" {
		return true
	}
	return isAtomicType(d)
}

func isLocalVar(o types.Object) bool {
	v, ok := o.(*types.Var)
	if !ok || v.IsField() || v.Pkg() == nil {
		return false
	}
	return v.Parent() != v.Pkg().Scope()
}
