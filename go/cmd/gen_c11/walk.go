package main

import (
	"fmt"
	"go/ast"
	"go/token"
	"go/types"
	"strings"
)

type ev struct {
	kind string // Lean constructor
	name string // "" for structural events
}

type spec struct {
	pkg, recv, fn string   // package (relative), receiver type name, ROLE name (the source name only for exported functions)
	lean          string   // Lean def name
	tracked       []string // shared expressions (canonical keys) whose reads/writes are recorded
	alias         bool     // a local variable assigned from a tracked slice aliases it (same backing array)
	// unexported functions are found without using their name: reachable (≤ 2 calls through unexported functions of
	// the package) from the exported function `anchor`, with all `must` events in their body
	anchorRecv, anchor string
	must               []ev
}

const maxInline = 2

// frame: one function body being walked (the spec's function itself, or an unexported callee followed into)
type frame struct {
	d       *funcDecl
	facts   *fnFacts                // captured + mutated locals (recorded automatically), bound closures
	alias   map[types.Object]string // local -> tracked name it aliases (spec.alias only)
	inlined bool
	// params: parameters of a followed callee / called literal that are bound to `&path` (or to a map / channel
	// path) of the caller: inside the callee they ARE that path - `worker(&sum, &wg)` vs a closure capturing sum, wg
	params map[types.Object]pbind
}

type body struct {
	follow bool
	defers []ev
}

func (w *walker) pushBody(follow bool) { w.bodies = append(w.bodies, &body{follow: follow}) }

func (w *walker) popBody() {
	b := w.bodies[len(w.bodies)-1]
	for i := len(b.defers) - 1; i >= 0; i-- {
		w.out = append(w.out, b.defers[i])
	}
	w.bodies = w.bodies[:len(w.bodies)-1]
}

func (w *walker) followed() *body {
	if n := len(w.bodies); n > 0 && w.bodies[n-1].follow {
		return w.bodies[n-1]
	}
	return nil
}

type pbind struct {
	k string
	r types.Object
}

type walker struct {
	wd        *world
	sp        *spec
	out       []ev
	frames    []*frame
	stack     []*types.Func
	litStack  []*ast.FuncLit
	sameDepth int
	// bodies being walked, innermost last. A body that is FOLLOWED (unexported callee, called literal) replays its
	// deferred Unlock/RUnlock/Done when it ends; in a body walked where it stands (the spec's function itself, an
	// escaping or deferred literal) they are recorded as deferUnlock/… events.
	bodies   []*body
	noAddr   map[ast.Expr]bool      // `&path` arguments bound to a followed callee's parameter: not an escaping address
	roles    map[*types.Func]string // resolved unexported/exported role functions -> role name
	inlAll   bool                   // role resolution: follow every unexported callee one level, nothing is a role yet
	callees  map[*types.Func]bool   // resolution: unexported same-package callees seen in the top frame
	captured map[string]bool
}

func (w *walker) emit(kind, name string) { w.out = append(w.out, ev{kind, name}) }
func (w *walker) top() *frame            { return w.frames[len(w.frames)-1] }
func (w *walker) info() *types.Info      { return w.top().d.p.info }

func (w *walker) obj(id *ast.Ident) types.Object {
	if o := w.info().Uses[id]; o != nil {
		return o
	}
	return w.info().Defs[id]
}

func (w *walker) typeOf(x ast.Expr) types.Type { return w.info().TypeOf(x) }

func stripPS(x ast.Expr) ast.Expr {
	for {
		switch e := x.(type) {
		case *ast.ParenExpr:
			x = e.X
		case *ast.StarExpr:
			x = e.X
		default:
			return x
		}
	}
}

// localName: a plain local is named by its type; a POINTER to a wait group / mutex / atomic (a worker function that gets
// `&wg` as a parameter) is the object it points to.
func (w *walker) localName(o types.Object) string {
	t := o.Type()
	if d := deref(t); d != t {
		if n, ok := d.(*types.Named); ok && (isAtomicType(d) || (n.Obj().Pkg() != nil && n.Obj().Pkg().Path() == "sync")) {
			t = d
		}
	}
	return "L:" + w.wd.tstr(t)
}

// resolve returns the canonical key of an expression ("" if it has none) and, when the expression is a path
// into a local variable that does not go through a field selection (x, x[i], *x, x[a:b], &x), that variable.
func (w *walker) resolve(x ast.Expr) (string, types.Object) {
	switch e := x.(type) {
	case *ast.Ident:
		o := w.obj(e)
		switch v := o.(type) {
		case *types.PkgName:
			return v.Imported().Name(), nil
		case *types.Var:
			if isLocalVar(v) {
				for i := len(w.frames) - 1; i >= 0; i-- {
					if b, ok := w.frames[i].params[v]; ok {
						return b.k, b.r
					}
				}
				if x, ok := w.top().facts.same[v]; ok && w.sameDepth < 4 {
					w.sameDepth++
					k, r := w.resolve(x)
					w.sameDepth--
					if k != "" {
						return k, r
					}
				}
				return w.localName(v), v
			}
		}
		return e.Name, nil
	case *ast.SelectorExpr:
		if id, ok := stripPS(e.X).(*ast.Ident); ok {
			if o := w.obj(id); o != nil && isLocalVar(o) {
				return w.wd.rootTypeName(o.Type()) + "." + e.Sel.Name, nil
			}
		}
		k, _ := w.resolve(e.X)
		if k == "" {
			return "", nil
		}
		return k + "." + e.Sel.Name, nil
	case *ast.IndexExpr:
		k, r := w.resolve(e.X)
		if k == "" {
			return "", nil
		}
		return k + "[]", r
	case *ast.StarExpr:
		return w.resolve(e.X)
	case *ast.ParenExpr:
		return w.resolve(e.X)
	case *ast.UnaryExpr:
		if e.Op == token.AND {
			return w.resolve(e.X)
		}
	case *ast.SliceExpr:
		return w.resolve(e.X)
	}
	return "", nil
}

func (w *walker) key(x ast.Expr) string { k, _ := w.resolve(x); return k }

// trackedOf returns the tracked name an expression falls under ("" if none).
func (w *walker) trackedOf(k string, root types.Object) string {
	if k == "" {
		return ""
	}
	f := w.top()
	if root != nil {
		if t, ok := f.alias[root]; ok {
			return t
		}
		for _, fr := range w.frames {
			if fr.facts.auto[root] {
				n := w.localName(root)
				w.captured[n] = true
				return n
			}
		}
		return ""
	}
	best := ""
	for _, t := range w.sp.tracked {
		if k == t || strings.HasPrefix(k, t+"[") || strings.HasPrefix(k, t+".") {
			if len(t) > len(best) {
				best = t
			}
		}
	}
	return best
}

// expr records reads (and the synchronisation operations / calls) inside an expression, in source order.
func (w *walker) expr(x ast.Node) {
	if x == nil {
		return
	}
	ast.Inspect(x, func(n ast.Node) bool {
		switch e := n.(type) {
		case *ast.FuncLit:
			if w.top().facts.skip[e] {
				return false // bound to a local that is only called: walked at its call sites
			}
			w.emit("fnBegin", "")
			w.lit(e.Body.List)
			w.emit("fnEnd", "")
			return false
		case *ast.CallExpr:
			return w.call(e)
		case *ast.UnaryExpr:
			if e.Op == token.ARROW {
				if call, ok := e.X.(*ast.CallExpr); ok && w.key(call.Fun) == "time.After" {
					w.emit("recv", "time.After")
					w.expr(call)
					return false
				}
				w.emit("recv", w.key(e.X))
				return false
			}
			if e.Op == token.AND && w.noAddr[e] {
				w.indexSubs(e.X) // bound to a followed callee's parameter: neither a read nor an escaping address
				return false
			}
			if e.Op == token.AND {
				// the address of a recorded local escapes: count it as a write
				if k, r := w.resolve(e.X); r != nil {
					if t := w.trackedOf(k, r); t != "" {
						w.indexSubs(e.X)
						w.emit("wr", t)
						return false
					}
				}
			}
		case *ast.SelectorExpr, *ast.IndexExpr, *ast.Ident:
			k, r := w.resolve(e.(ast.Expr))
			if t := w.trackedOf(k, r); t != "" {
				w.emit("rd", t)
				// index sub-expressions may read other tracked things
				w.indexSubs(e.(ast.Expr))
				return false
			}
		}
		return true
	})
}

func (w *walker) lit(list []ast.Stmt) {
	w.pushBody(false)
	w.block(list)
	w.popBody()
}

// litCall walks the body of a function literal where it is CALLED (immediately invoked, or through the local it is
// bound to): same goroutine, same locks; a trailing `return` falls through.
func (w *walker) litCall(fl *ast.FuncLit, args []ast.Expr, pre, post string) {
	for _, l := range w.litStack {
		if l == fl {
			for _, a := range args {
				w.expr(a)
			}
			return // recursive closure
		}
	}
	w.litStack = append(w.litStack, fl)
	f := w.top()
	b := w.bindArgs(w.litParams(fl), args, f.facts)
	w.followedArgs(w.litParams(fl), args, b)
	if b != nil {
		if f.params == nil {
			f.params = map[types.Object]pbind{}
		}
		for p, v := range b {
			f.params[p] = v
		}
	}
	start := len(w.out)
	w.emit(pre, "")
	w.pushBody(true)
	list := fl.Body.List
	for i, s := range list {
		if r, ok := s.(*ast.ReturnStmt); ok && i == len(list)-1 {
			for _, x := range r.Results {
				w.expr(x)
			}
			continue
		}
		w.stmt(s)
	}
	w.popBody()
	w.emit(post, "")
	w.litStack = w.litStack[:len(w.litStack)-1]
	// `go func() { x.role() }()` is `go x.role()`
	if pre == "goBegin" && len(w.out) == start+3 && w.out[start+1].kind == "call" {
		role := w.out[start+1].name
		w.out = append(w.out[:start], ev{"goCall", role})
	}
}

func (w *walker) boundLit(o types.Object) *ast.FuncLit {
	if o == nil {
		return nil
	}
	return w.top().facts.bound[o]
}

func (w *walker) indexSubs(x ast.Expr) {
	switch e := x.(type) {
	case *ast.IndexExpr:
		w.indexSubs(e.X)
		w.expr(e.Index)
	case *ast.SliceExpr:
		w.indexSubs(e.X)
		w.expr(e.Low)
		w.expr(e.High)
		w.expr(e.Max)
	case *ast.SelectorExpr:
		w.indexSubs(e.X)
	case *ast.StarExpr:
		w.indexSubs(e.X)
	case *ast.ParenExpr:
		w.indexSubs(e.X)
	case *ast.UnaryExpr:
		w.indexSubs(e.X)
	}
}

func (w *walker) args(c *ast.CallExpr, from int) {
	for i, a := range c.Args {
		if i >= from {
			w.expr(a)
		}
	}
}

// calleeOf returns the object a call expression's function resolves to (nil for conversions, indirect calls, …).
func (w *walker) calleeOf(fun ast.Expr) types.Object {
	switch f := fun.(type) {
	case *ast.ParenExpr:
		return w.calleeOf(f.X)
	case *ast.Ident:
		return w.obj(f)
	case *ast.SelectorExpr:
		return w.obj(f.Sel)
	case *ast.IndexExpr: // generic instantiation
		return w.calleeOf(f.X)
	}
	return nil
}

func (w *walker) pkgPathOf(x ast.Expr) string {
	if id, ok := x.(*ast.Ident); ok {
		if pn, ok := w.obj(id).(*types.PkgName); ok {
			return pn.Imported().Path()
		}
	}
	return ""
}

// followable: an unexported function of the package being walked whose body we have
func (w *walker) followable(o types.Object) *funcDecl {
	fn, ok := o.(*types.Func)
	if !ok || fn.Exported() || fn.Pkg() != w.top().d.p.pkg {
		return nil
	}
	return w.wd.decl[fn]
}

// call handles a call expression; returns whether Inspect should descend.
func (w *walker) call(c *ast.CallExpr) bool {
	if tv, ok := w.info().Types[c.Fun]; ok && tv.IsType() {
		return true // conversion
	}
	if fl, ok := c.Fun.(*ast.FuncLit); ok { // func(){…}()
		w.litCall(fl, c.Args, "open", "close")
		return false
	}
	if sel, ok := c.Fun.(*ast.SelectorExpr); ok {
		recv := w.key(sel.X)
		m := sel.Sel.Name
		rt := w.typeOf(sel.X)
		switch m {
		case "Lock", "Unlock", "RLock", "RUnlock":
			if recv != "" && len(c.Args) == 0 {
				w.emit(map[string]string{"Lock": "lock", "Unlock": "unlock", "RLock": "rlock", "RUnlock": "runlock"}[m], recv)
				return false
			}
		case "Add", "Done", "Wait":
			if rt != nil && isWaitGroup(rt) {
				w.args(c, 0)
				w.emit(map[string]string{"Add": "wgAdd", "Done": "wgDone", "Wait": "wgWait"}[m], recv)
				return false
			}
		}
		if rt != nil && isAtomicType(rt) && w.pkgPathOf(sel.X) == "" {
			w.args(c, 0)
			w.emit("atomic", recv)
			return false
		}
		switch w.pkgPathOf(sel.X) {
		case "sync/atomic":
			if len(c.Args) > 0 {
				w.args(c, 1)
				w.emit("atomic", w.key(c.Args[0]))
				return false
			}
		case modPath + "/lib/others/vhook":
			return false
		}
	}
	callee := w.calleeOf(c.Fun)
	if b, ok := callee.(*types.Builtin); ok {
		switch b.Name() {
		case "delete", "copy", "clear":
			if len(c.Args) > 0 {
				w.args(c, 1)
				k, r := w.resolve(c.Args[0])
				if t := w.trackedOf(k, r); t != "" {
					w.indexSubs(c.Args[0])
					w.emit("wr", t)
				} else {
					w.expr(c.Args[0])
				}
				return false
			}
		case "len", "cap":
			if len(c.Args) == 1 {
				if t := w.typeOf(c.Args[0]); t != nil {
					if _, ok := t.Underlying().(*types.Chan); ok {
						w.emit("chanLen", w.key(c.Args[0]))
						return false
					}
				}
			}
		case "panic":
			w.args(c, 0)
			w.emit("ret", "")
			return false
		}
		return true
	}
	switch o := callee.(type) {
	case *types.Func:
		if role, ok := w.roles[o]; ok {
			w.args(c, 0)
			w.emit("call", role)
			return false
		}
		if d := w.followable(o); d != nil {
			if w.inlAll && len(w.frames) == 1 {
				w.callees[o] = true
			}
			if w.canInline(o) {
				w.inline(d, c.Args, "", "")
				return false
			}
			return true
		}
		if isProtoCall(o.Name()) {
			w.args(c, 0)
			w.emit("call", o.Name())
			return false
		}
	case *types.Var:
		if _, ok := o.Type().Underlying().(*types.Signature); ok {
			if fl := w.boundLit(o); fl != nil {
				w.litCall(fl, c.Args, "open", "close")
				return false
			}
			if isLocalVar(o) {
				w.args(c, 0)
				w.emit("call", w.localName(o))
				return false
			}
			if isProtoCall(o.Name()) {
				w.args(c, 0)
				w.emit("call", o.Name())
				return false
			}
		}
	}
	return true
}

func (w *walker) canInline(o *types.Func) bool {
	limit := maxInline
	if w.inlAll {
		limit = 1
	}
	if len(w.stack) >= limit {
		return false
	}
	for _, s := range w.stack {
		if s == o {
			return false
		}
	}
	return true
}

// inline follows a call into an unexported function of the same package: its events are spliced in as a nested
// block, executed by the calling goroutine with the caller's locks held. A trailing `return` falls through to the
// caller; the callee's deferred Unlock/RUnlock/Done run when it returns.
// bindArgs: which parameters of a callee are just another name for a path of the caller (evaluated in the caller's frame)
func (w *walker) bindArgs(params []types.Object, args []ast.Expr, calleeFacts *fnFacts) map[types.Object]pbind {
	var m map[types.Object]pbind
	for i, p := range params {
		if i >= len(args) || p == nil || calleeFacts.reassigned[p] {
			continue
		}
		a := args[i]
		ok := false
		if u, isU := a.(*ast.UnaryExpr); isU && u.Op == token.AND {
			if _, isLit := u.X.(*ast.CompositeLit); !isLit {
				ok = true
			}
		} else {
			switch a.(type) {
			case *ast.SelectorExpr, *ast.IndexExpr, *ast.Ident:
				switch p.Type().Underlying().(type) {
				case *types.Map, *types.Chan:
					ok = true
				}
			}
		}
		if !ok {
			continue
		}
		if k, r := w.resolve(a); k != "" {
			if m == nil {
				m = map[types.Object]pbind{}
			}
			m[p] = pbind{k, r}
		}
	}
	return m
}

// followedArgs evaluates the arguments of a call that is followed (in the caller's frame): an argument bound to a
// parameter is not an escaping address - the callee's accesses through the parameter are recorded as what they are.
func (w *walker) followedArgs(params []types.Object, args []ast.Expr, b map[types.Object]pbind) {
	for i, a := range args {
		if i < len(params) && params[i] != nil {
			if _, ok := b[params[i]]; ok {
				if w.noAddr == nil {
					w.noAddr = map[ast.Expr]bool{}
				}
				w.noAddr[a] = true
			}
		}
		w.expr(a)
	}
}

func sigParams(fn *types.Func) []types.Object {
	sig := fn.Type().(*types.Signature)
	var ps []types.Object
	for i := 0; i < sig.Params().Len(); i++ {
		ps = append(ps, sig.Params().At(i))
	}
	if sig.Variadic() && len(ps) > 0 {
		ps[len(ps)-1] = nil
	}
	return ps
}

func (w *walker) litParams(fl *ast.FuncLit) []types.Object {
	var ps []types.Object
	for _, f := range fl.Type.Params.List {
		if len(f.Names) == 0 {
			ps = append(ps, nil)
		}
		for _, n := range f.Names {
			if _, variadic := f.Type.(*ast.Ellipsis); variadic {
				ps = append(ps, nil)
			} else {
				ps = append(ps, w.info().Defs[n])
			}
		}
	}
	return ps
}

func (w *walker) inline(d *funcDecl, args []ast.Expr, pre, post string) {
	w.stack = append(w.stack, d.obj)
	f := &frame{d: d, facts: w.wd.facts(d), inlined: true}
	f.params = w.bindArgs(sigParams(d.obj), args, f.facts)
	w.followedArgs(sigParams(d.obj), args, f.params)
	w.frames = append(w.frames, f)
	if pre != "" {
		w.emit(pre, "")
	}
	w.emit("open", "")
	w.pushBody(true)
	list := d.fd.Body.List
	for i, s := range list {
		if r, ok := s.(*ast.ReturnStmt); ok && i == len(list)-1 {
			for _, x := range r.Results {
				w.expr(x)
			}
			continue
		}
		w.stmt(s)
	}
	w.popBody()
	w.emit("close", "")
	if post != "" {
		w.emit(post, "")
	}
	w.frames = w.frames[:len(w.frames)-1]
	w.stack = w.stack[:len(w.stack)-1]
}

func (w *walker) lhs(x ast.Expr) {
	k, r := w.resolve(x)
	if t := w.trackedOf(k, r); t != "" {
		w.indexSubs(x)
		w.emit("wr", t)
		return
	}
	w.expr(x)
}

func (w *walker) block(list []ast.Stmt) {
	for _, s := range list {
		w.stmt(s)
	}
}

func (w *walker) scoped(list []ast.Stmt) {
	w.emit("open", "")
	w.block(list)
	w.emit("close", "")
}

func (w *walker) stmt(s ast.Stmt) {
	switch st := s.(type) {
	case nil:
	case *ast.ExprStmt:
		w.expr(st.X)
	case *ast.AssignStmt:
		for _, r := range st.Rhs {
			w.expr(r)
		}
		for _, l := range st.Lhs {
			if st.Tok != token.ASSIGN && st.Tok != token.DEFINE {
				w.expr(l) // op-assign reads too
			}
			w.lhs(l)
		}
		if w.sp.alias && len(st.Lhs) == len(st.Rhs) && (st.Tok == token.ASSIGN || st.Tok == token.DEFINE) {
			// `x := shared` / `x := shared[a:b]` copies the slice header only: x aliases the shared backing array
			f := w.top()
			for i, l := range st.Lhs {
				id, ok := l.(*ast.Ident)
				if !ok || id.Name == "_" {
					continue
				}
				lo := w.obj(id)
				if lo == nil || !isLocalVar(lo) {
					continue
				}
				rk, rr := w.resolve(st.Rhs[i])
				if _, isCall := st.Rhs[i].(*ast.CallExpr); isCall || rk == "" {
					delete(f.alias, lo) // fresh value (make, append, …)
					continue
				}
				whole := !strings.HasSuffix(rk, "[]") // the slice itself (or a re-slice of it), not an element
				if t := w.trackedOf(rk, rr); t != "" && whole && (rk == t || (rr != nil && f.alias[rr] == t)) {
					if f.alias == nil {
						f.alias = map[types.Object]string{}
					}
					f.alias[lo] = t
				}
			}
		}
	case *ast.IncDecStmt:
		w.expr(st.X)
		w.lhs(st.X)
	case *ast.SendStmt:
		w.expr(st.Value)
		w.emit("send", w.key(st.Chan))
	case *ast.GoStmt:
		if fl, ok := st.Call.Fun.(*ast.FuncLit); ok {
			w.litCall(fl, st.Call.Args, "goBegin", "goEnd")
			break
		}
		callee := w.calleeOf(st.Call.Fun)
		switch o := callee.(type) {
		case *types.Func:
			if role, ok := w.roles[o]; ok {
				w.args(st.Call, 0)
				w.emit("goCall", role)
			} else if d := w.followable(o); d != nil {
				if w.inlAll && len(w.frames) == 1 {
					w.callees[o] = true
				}
				if w.canInline(o) {
					w.inline(d, st.Call.Args, "goBegin", "goEnd")
				} else {
					w.args(st.Call, 0)
					w.emit("goCall", "?")
				}
			} else {
				w.args(st.Call, 0)
				w.emit("goCall", o.Name())
			}
		case *types.Var:
			if fl := w.boundLit(o); fl != nil {
				w.litCall(fl, st.Call.Args, "goBegin", "goEnd")
			} else if isLocalVar(o) {
				w.args(st.Call, 0)
				w.emit("goCall", w.localName(o))
			} else {
				w.args(st.Call, 0)
				w.emit("goCall", o.Name())
			}
		default:
			w.args(st.Call, 0)
			w.emit("goCall", "?")
		}
	case *ast.DeferStmt:
		fb := w.followed()
		if fl, ok := st.Call.Fun.(*ast.FuncLit); ok {
			w.emit("deferBegin", "")
			w.lit(fl.Body.List)
			w.emit("deferEnd", "")
		} else if sel, ok := st.Call.Fun.(*ast.SelectorExpr); ok && (sel.Sel.Name == "Unlock" || sel.Sel.Name == "RUnlock") && len(st.Call.Args) == 0 {
			if fb != nil {
				fb.defers = append(fb.defers, ev{map[string]string{"Unlock": "unlock", "RUnlock": "runlock"}[sel.Sel.Name], w.key(sel.X)})
			} else {
				w.emit(map[string]string{"Unlock": "deferUnlock", "RUnlock": "deferRUnlock"}[sel.Sel.Name], w.key(sel.X))
			}
		} else if sel, ok := st.Call.Fun.(*ast.SelectorExpr); ok && sel.Sel.Name == "Done" && isWaitGroup(w.typeOf(sel.X)) {
			if fb != nil {
				fb.defers = append(fb.defers, ev{"wgDone", w.key(sel.X)})
			} else {
				w.emit("deferWgDone", w.key(sel.X))
			}
		} else if id, ok := st.Call.Fun.(*ast.Ident); ok && w.boundLit(w.obj(id)) != nil {
			w.litCall(w.boundLit(w.obj(id)), st.Call.Args, "deferBegin", "deferEnd")
		} else {
			w.emit("deferBegin", "")
			w.expr(st.Call)
			w.emit("deferEnd", "")
		}
	case *ast.ReturnStmt:
		for _, r := range st.Results {
			w.expr(r)
		}
		w.emit("ret", "")
	case *ast.BranchStmt:
		w.emit("ret", "")
	case *ast.BlockStmt:
		w.scoped(st.List)
	case *ast.IfStmt:
		w.stmt(st.Init)
		w.expr(st.Cond)
		if u, ok := ast.Unparen(st.Cond).(*ast.UnaryExpr); ok && u.Op == token.NOT {
			w.emit("neg", "") // polarity of the test: `if !c {` (the shape facts compare it)
		}
		w.scoped(st.Body.List)
		if st.Else != nil {
			if b, ok := st.Else.(*ast.BlockStmt); ok {
				w.scoped(b.List)
			} else {
				w.emit("open", "")
				w.stmt(st.Else)
				w.emit("close", "")
			}
		}
	case *ast.ForStmt:
		w.stmt(st.Init)
		w.expr(st.Cond)
		w.emit("open", "")
		w.block(st.Body.List)
		w.stmt(st.Post)
		w.emit("close", "")
	case *ast.RangeStmt:
		w.expr(st.X)
		if st.Key != nil {
			w.lhs(st.Key)
		}
		if st.Value != nil {
			w.lhs(st.Value)
		}
		w.scoped(st.Body.List)
	case *ast.SwitchStmt:
		w.stmt(st.Init)
		w.expr(st.Tag)
		for _, c := range st.Body.List {
			cc := c.(*ast.CaseClause)
			for _, e := range cc.List {
				w.expr(e)
			}
			w.scoped(cc.Body)
		}
	case *ast.TypeSwitchStmt:
		w.stmt(st.Init)
		w.stmt(st.Assign)
		for _, c := range st.Body.List {
			w.scoped(c.(*ast.CaseClause).Body)
		}
	case *ast.SelectStmt:
		w.emit("selBegin", "")
		for _, c := range st.Body.List {
			cc := c.(*ast.CommClause)
			w.emit("open", "")
			switch cm := cc.Comm.(type) {
			case nil:
				w.emit("selDefault", "")
			case *ast.SendStmt:
				w.expr(cm.Value)
				w.emit("selSend", w.key(cm.Chan))
			case *ast.ExprStmt:
				w.selRecv(cm.X)
			case *ast.AssignStmt:
				w.selRecv(cm.Rhs[0])
				for _, l := range cm.Lhs {
					w.lhs(l)
				}
			}
			w.block(cc.Body)
			w.emit("close", "")
		}
		w.emit("selEnd", "")
	case *ast.LabeledStmt:
		w.emit("label", "")
		w.stmt(st.Stmt)
	case *ast.DeclStmt:
		if gd, ok := st.Decl.(*ast.GenDecl); ok {
			for _, sp := range gd.Specs {
				if vs, ok := sp.(*ast.ValueSpec); ok {
					for _, v := range vs.Values {
						w.expr(v)
					}
					if len(vs.Values) > 0 && gd.Tok == token.VAR {
						for _, n := range vs.Names {
							if n.Name != "_" {
								w.lhs(n)
							}
						}
					}
				}
			}
		}
	case *ast.EmptyStmt:
	default:
		die(fmt.Errorf("%s.%s: statement form %T not understood", w.sp.recv, w.sp.fn, s))
	}
}

func (w *walker) selRecv(x ast.Expr) {
	if u, ok := x.(*ast.UnaryExpr); ok && u.Op == token.ARROW {
		if call, ok := u.X.(*ast.CallExpr); ok && w.key(call.Fun) == "time.After" {
			w.emit("selTimeout", "")
			return
		}
		w.emit("selRecv", w.key(u.X))
		return
	}
	die(fmt.Errorf("%s.%s: select case not understood", w.sp.recv, w.sp.fn))
}

// walkFunc walks one function body as the top frame.
func (wd *world) walkFunc(sp *spec, d *funcDecl, roles map[*types.Func]string, inlAll bool) *walker {
	w := &walker{wd: wd, sp: sp, roles: roles, inlAll: inlAll, callees: map[*types.Func]bool{}, captured: map[string]bool{}}
	w.frames = []*frame{{d: d, facts: wd.facts(d)}}
	w.pushBody(false)
	w.block(d.fd.Body.List)
	w.popBody()
	return w
}

// ---- captured, mutated locals; local closures -----------------------------------------------------------------------

// fnFacts: what one function declaration says about its locals and function literals.
type fnFacts struct {
	// auto: the local variables (parameters, results, receiver included) that are BOTH referenced inside a function
	// literal that may run on another goroutine and does not declare them, AND written after their declaration
	// (assigned, inc/dec, element/deref store, address taken, loop variable). Immutable captured variables and
	// synchronisation objects (channels, wait groups, mutexes, atomics, closures) need no discipline.
	auto map[types.Object]bool
	// bound: local variables that hold exactly one function literal and are only ever called (directly, with `go`
	// or with `defer`): the literal's body is walked at every call site, exactly like an unexported function that is
	// followed - `go worker(x)` with `worker := func…`, `go func…(x)` and `go t.worker(x)` give the same events.
	bound map[types.Object]*ast.FuncLit
	skip  map[*ast.FuncLit]bool // literals of `bound`: nothing is emitted where they are defined
	// same: single-assignment locals that are just another name for a path: `m := &db.MapMutex[i]` (address of it), or
	// `hm := db.HashMap[i]` / `ch := db.hurryup` (a map or channel value is a reference to the same object)
	same       map[types.Object]ast.Expr
	reassigned map[types.Object]bool
}

func (wd *world) facts(d *funcDecl) *fnFacts {
	if m, ok := wd.auto[d.fd]; ok {
		return m
	}
	info := d.p.info
	rootOf := func(x ast.Expr) *ast.Ident {
		for {
			switch e := x.(type) {
			case *ast.ParenExpr:
				x = e.X
			case *ast.StarExpr:
				x = e.X
			case *ast.IndexExpr:
				x = e.X
			case *ast.SliceExpr:
				x = e.X
			case *ast.Ident:
				return e
			default:
				return nil
			}
		}
	}
	localOf := func(x ast.Expr) types.Object {
		id, ok := x.(*ast.Ident)
		if !ok {
			return nil
		}
		o := info.Uses[id]
		if o == nil {
			o = info.Defs[id]
		}
		if o != nil && isLocalVar(o) {
			return o
		}
		return nil
	}
	// pass 1: literals and the variables they are bound to; how function-typed locals are used
	const (
		kGo = iota + 1
		kSync
		kOther
	)
	litKind := map[*ast.FuncLit]int{}
	litVar := map[*ast.FuncLit]types.Object{}
	assigns := map[types.Object]int{}
	bind := map[types.Object]*ast.FuncLit{}
	goUse := map[types.Object]bool{}
	escape := map[types.Object]bool{}
	calleeIdent := map[*ast.Ident]int{} // identifier in callee position -> kGo / kSync
	bindIdent := map[*ast.Ident]bool{}
	sameCand := map[types.Object]ast.Expr{}
	defs := map[types.Object]int{}
	reassigned := map[types.Object]bool{}
	noteSame := func(l ast.Expr, r ast.Expr) {
		o := localOf(l)
		if o == nil {
			return
		}
		defs[o]++
		if u, ok := r.(*ast.UnaryExpr); ok && u.Op == token.AND {
			if _, isLit := u.X.(*ast.CompositeLit); !isLit {
				sameCand[o] = u.X
			}
			return
		}
		switch r.(type) {
		case *ast.SelectorExpr, *ast.IndexExpr, *ast.Ident:
			switch o.Type().Underlying().(type) {
			case *types.Map, *types.Chan:
				sameCand[o] = r
			}
		}
	}
	var stack []ast.Node
	ast.Inspect(d.fd.Body, func(n ast.Node) bool {
		if n == nil {
			stack = stack[:len(stack)-1]
			return true
		}
		var parent ast.Node
		if len(stack) > 0 {
			parent = stack[len(stack)-1]
		}
		stack = append(stack, n)
		switch e := n.(type) {
		case *ast.GoStmt:
			if id, ok := e.Call.Fun.(*ast.Ident); ok {
				calleeIdent[id] = kGo
			}
		case *ast.DeferStmt:
			if id, ok := e.Call.Fun.(*ast.Ident); ok {
				calleeIdent[id] = kSync
			}
		case *ast.CallExpr:
			if id, ok := e.Fun.(*ast.Ident); ok && calleeIdent[id] == 0 {
				calleeIdent[id] = kSync
			}
		case *ast.IncDecStmt:
			if o := localOf(e.X); o != nil {
				reassigned[o] = true
			}
		case *ast.RangeStmt:
			for _, kv := range []ast.Expr{e.Key, e.Value} {
				if kv != nil {
					if o := localOf(kv); o != nil {
						reassigned[o] = true
					}
				}
			}
		case *ast.AssignStmt:
			for i, l := range e.Lhs {
				if id, ok := l.(*ast.Ident); ok {
					if info.Defs[id] != nil && e.Tok == token.DEFINE && len(e.Lhs) == len(e.Rhs) {
						noteSame(l, e.Rhs[i])
					} else if o := localOf(l); o != nil {
						reassigned[o] = true
					}
				}
				o := localOf(l)
				if o == nil {
					continue
				}
				if _, isFn := o.Type().Underlying().(*types.Signature); !isFn {
					continue
				}
				assigns[o]++
				bindIdent[l.(*ast.Ident)] = true
				if len(e.Lhs) == len(e.Rhs) {
					if fl, ok := e.Rhs[i].(*ast.FuncLit); ok {
						bind[o] = fl
						litVar[fl] = o
					}
				}
			}
		case *ast.ValueSpec:
			for i, nm := range e.Names {
				o := localOf(nm)
				if o == nil {
					continue
				}
				if _, isFn := o.Type().Underlying().(*types.Signature); !isFn {
					continue
				}
				bindIdent[nm] = true
				if len(e.Values) == len(e.Names) {
					assigns[o]++
					if fl, ok := e.Values[i].(*ast.FuncLit); ok {
						bind[o] = fl
						litVar[fl] = o
					}
				}
			}
		case *ast.FuncLit:
			switch p := parent.(type) {
			case *ast.CallExpr:
				if p.Fun == ast.Expr(e) {
					litKind[e] = kSync
					if len(stack) >= 3 {
						switch gp := stack[len(stack)-3].(type) {
						case *ast.GoStmt:
							if gp.Call == p {
								litKind[e] = kGo
							}
						}
					}
				} else {
					litKind[e] = kOther // an argument: escapes
				}
			default:
				litKind[e] = kOther
			}
		case *ast.Ident:
			if o := info.Uses[e]; o != nil && isLocalVar(o) {
				if _, isFn := o.Type().Underlying().(*types.Signature); isFn && !bindIdent[e] {
					switch calleeIdent[e] {
					case kGo:
						goUse[o] = true
					case kSync:
					default:
						escape[o] = true
					}
				}
			}
		}
		return true
	})
	f := &fnFacts{auto: map[types.Object]bool{}, bound: map[types.Object]*ast.FuncLit{}, skip: map[*ast.FuncLit]bool{}, same: map[types.Object]ast.Expr{}, reassigned: reassigned}
	for o, x := range sameCand {
		if defs[o] == 1 && !reassigned[o] {
			f.same[o] = x
		}
	}
	for o, fl := range bind {
		if assigns[o] == 1 && !escape[o] {
			f.bound[o] = fl
			f.skip[fl] = true
		}
	}
	concurrent := func(l *ast.FuncLit) bool {
		if o, ok := litVar[l]; ok {
			if f.bound[o] == l {
				return goUse[o]
			}
			return true
		}
		return litKind[l] != kSync
	}
	// pass 2: captured by a concurrent literal / written
	captured := map[types.Object]bool{}
	written := map[types.Object]bool{}
	markW := func(x ast.Expr, defsToo bool) {
		id := rootOf(x)
		if id == nil {
			return
		}
		o := info.Uses[id]
		if o == nil && defsToo {
			o = info.Defs[id]
		}
		if o != nil && isLocalVar(o) {
			written[o] = true
		}
	}
	var lits []*ast.FuncLit
	var visit func(n ast.Node) bool
	visit = func(n ast.Node) bool {
		switch e := n.(type) {
		case *ast.FuncLit:
			lits = append(lits, e)
			ast.Inspect(e.Body, visit)
			lits = lits[:len(lits)-1]
			return false
		case *ast.Ident:
			if o := info.Uses[e]; o != nil && isLocalVar(o) {
				for _, l := range lits {
					if concurrent(l) && (o.Pos() < l.Pos() || o.Pos() >= l.End()) {
						captured[o] = true
					}
				}
			}
		case *ast.AssignStmt:
			for _, l := range e.Lhs {
				markW(l, false)
			}
		case *ast.GoStmt:
			// `go worker(&x)`: the new goroutine gets at x just as if it had captured it
			for _, a := range e.Call.Args {
				if u, ok := a.(*ast.UnaryExpr); ok && u.Op == token.AND {
					if id := rootOf(u.X); id != nil {
						if o := info.Uses[id]; o != nil && isLocalVar(o) {
							captured[o] = true
						}
					}
				}
			}
		case *ast.IncDecStmt:
			markW(e.X, false)
		case *ast.RangeStmt:
			if e.Key != nil {
				markW(e.Key, true)
			}
			if e.Value != nil {
				markW(e.Value, true)
			}
		case *ast.UnaryExpr:
			if e.Op == token.AND {
				markW(e.X, false)
			}
		case *ast.CallExpr:
			if id, ok := e.Fun.(*ast.Ident); ok && len(e.Args) > 0 {
				if b, ok := info.Uses[id].(*types.Builtin); ok && (b.Name() == "copy" || b.Name() == "delete" || b.Name() == "clear") {
					markW(e.Args[0], false)
				}
			}
		}
		return true
	}
	ast.Inspect(d.fd.Body, visit)
	for o := range captured {
		if written[o] && !isSyncObject(o.Type()) {
			f.auto[o] = true
		}
	}
	wd.auto[d.fd] = f
	return f
}
