// shape.go — canonical SHAPES of the guards (audit 2: the numeric facts pin a limit, not which quantity is compared with
// it, whether the guard returns, or anything about a guard that has no numeric limit).
//
// For every guard named in main.go the generator emits one string: the guard's condition in the canonical form of
// norm.go (helpers / single-definition locals expanded, negation normal form, `<= c` read as `< c+1`), rendered with
//   - every bare identifier (local, parameter, receiver, package name) as `_`  — renaming changes nothing;
//   - selectors, method / function names, conversions, index and slice bounds, literals kept;
//   - constant sub-expressions folded to their value, the addends of a sum and the factors of a product sorted;
//   - the operands of a comparison between two non-constants ordered, the members of a conjunction / disjunction sorted;
//   - the conditions of the enclosing `if` statements of the same function appended after `@` (sorted);
//   - `-> return` / `-> NO-RETURN` according to whether the guarded statements contain a return.
// The strings are pinned by the theorem Props.C05.guard_shapes: an edit that compares another quantity, changes an
// operator / polarity / connective, drops the return or moves the guard under another condition changes a string and
// the theorem no longer holds (reported; the harness supplies the input). A behaviour-preserving rewrite that is more
// than renaming / extracting a single-return predicate / De Morgan / reordering changes the string too — that is the
// price, and the reason only the guards of PreCheckBlock / PostCheckBlock / GetBlockFlags are pinned this way.
package main

import (
	"fmt"
	"go/ast"
	"go/constant"
	"go/token"
	"sort"
	"strings"
)

// renderNames: identifiers rendered by a fixed name instead of `_` (the parameters of a function, by position)
var renderNames map[string]string

func render(e ast.Expr, env consts) string {
	if e == nil {
		return ""
	}
	if v, ok := eval(e, env); ok && constant.ToInt(v).Kind() == constant.Int {
		return constant.ToInt(v).ExactString()
	}
	switch x := e.(type) {
	case *ast.Ident:
		switch x.Name {
		case "nil", "true", "false":
			return x.Name
		}
		if r, ok := renderNames[x.Name]; ok {
			return r
		}
		return "_"
	case *ast.BasicLit:
		return x.Value
	case *ast.ParenExpr:
		return render(x.X, env)
	case *ast.SelectorExpr:
		return render(x.X, env) + "." + x.Sel.Name
	case *ast.StarExpr:
		return "*" + render(x.X, env)
	case *ast.UnaryExpr:
		return x.Op.String() + render(x.X, env)
	case *ast.IndexExpr:
		return render(x.X, env) + "[" + render(x.Index, env) + "]"
	case *ast.SliceExpr:
		s := render(x.X, env) + "[" + render(x.Low, env) + ":" + render(x.High, env)
		if x.Slice3 {
			s += ":" + render(x.Max, env)
		}
		return s + "]"
	case *ast.CallExpr:
		fn := ""
		if id, ok := x.Fun.(*ast.Ident); ok {
			fn = id.Name // conversion, builtin or same-package function: the name carries the meaning
		} else if se, ok := x.Fun.(*ast.SelectorExpr); ok {
			fn = render(se.X, env) + "." + se.Sel.Name // never folded: a method may share its name with a constant
		} else {
			fn = render(x.Fun, env)
		}
		var as []string
		for _, a := range x.Args {
			as = append(as, render(a, env))
		}
		return fn + "(" + strings.Join(as, ", ") + ")"
	case *ast.CompositeLit:
		var as []string
		for _, a := range x.Elts {
			as = append(as, render(a, env))
		}
		return "{" + strings.Join(as, ",") + "}"
	case *ast.BinaryExpr:
		switch x.Op {
		case token.ADD, token.MUL:
			// flatten, fold the constants, sort the rest
			var parts []string
			acc := constant.MakeInt64(0)
			if x.Op == token.MUL {
				acc = constant.MakeInt64(1)
			}
			haveConst := false
			var walk func(e ast.Expr)
			walk = func(e ast.Expr) {
				e = unparen(e)
				if v, ok := eval(e, env); ok {
					acc = constant.BinaryOp(acc, x.Op, constant.ToInt(v))
					haveConst = true
					return
				}
				if b, ok := e.(*ast.BinaryExpr); ok && b.Op == x.Op {
					walk(b.X)
					walk(b.Y)
					return
				}
				parts = append(parts, render(e, env))
			}
			walk(x)
			sort.Strings(parts)
			if haveConst {
				parts = append(parts, acc.ExactString())
			}
			return "(" + strings.Join(parts, " "+x.Op.String()+" ") + ")"
		}
		return "(" + render(x.X, env) + " " + x.Op.String() + " " + render(x.Y, env) + ")"
	case *ast.FuncLit:
		return "func{…}"
	}
	return fmt.Sprintf("?%T", e)
}

func shapeNNF(n *nnf, env consts) string {
	switch n.kind {
	case nAtom:
		if n.op == token.ILLEGAL {
			s := render(n.leaf, env)
			if n.neg {
				s = "!" + s
			}
			return s
		}
		x, y, op := n.x, n.y, n.op
		_, cx := eval(x, env)
		cy, yc := eval(y, env)
		switch {
		case yc && !cx && constant.ToInt(cy).Kind() == constant.Int:
			c, one := constant.ToInt(cy), constant.MakeInt64(1)
			switch op {
			case token.LEQ:
				op, c = token.LSS, constant.BinaryOp(c, token.ADD, one)
			case token.GEQ:
				op, c = token.GTR, constant.BinaryOp(c, token.SUB, one)
			}
			return render(x, env) + " " + op.String() + " " + c.ExactString()
		case !yc && !cx:
			a, b := render(x, env), render(y, env)
			if a > b {
				a, b, op = b, a, mirrorOp[op]
			}
			return a + " " + op.String() + " " + b
		}
		return render(x, env) + " " + op.String() + " " + render(y, env)
	}
	var ks []string
	for _, k := range n.kids {
		s := shapeNNF(k, env)
		if k.kind != nAtom {
			s = "(" + s + ")"
		}
		ks = append(ks, s)
	}
	sort.Strings(ks)
	if n.kind == nAnd {
		return strings.Join(ks, " && ")
	}
	return strings.Join(ks, " || ")
}

// enclosing: the canonical conditions under which `node` is reached inside fd, as far as `if` statements say
// (then-branch: the condition; else-branch: its negation).
func enclosing(in *inliner, fd *ast.FuncDecl, node ast.Node, env consts) (out []string) {
	var path []ast.Node
	var found []ast.Node
	ast.Inspect(fd.Body, func(n ast.Node) bool {
		if found != nil {
			return false
		}
		if n == nil {
			path = path[:len(path)-1]
			return true
		}
		path = append(path, n)
		if n == node {
			found = append([]ast.Node{}, path...)
			return false
		}
		return true
	})
	for i := 0; i+1 < len(found); i++ {
		is, ok := found[i].(*ast.IfStmt)
		if !ok {
			continue
		}
		switch found[i+1] {
		case ast.Node(is.Body):
			out = append(out, shapeNNF(toNNF(in.expand(is.Cond, 2), false, env), env))
		case is.Else:
			out = append(out, shapeNNF(toNNF(in.expand(is.Cond, 2), true, env), env))
		}
	}
	sort.Strings(out)
	return
}

// guardShape: condition @ enclosing conditions -> return?
func (p *pkgFuncs) guardShape(g *guard, env consts) string {
	s := shapeNNF(g.norm(env), env)
	if enc := enclosing(g.in, g.fd, g.node, env); len(enc) > 0 {
		s += " @ " + strings.Join(enc, " @ ")
	}
	if returns(g.body) {
		return s + " -> return"
	}
	return s + " -> NO-RETURN"
}

// enclosingFor: the innermost counted / conditional `for` statement of fd that contains node (nil if none).
func enclosingFor(fd *ast.FuncDecl, node ast.Node) (out *ast.ForStmt) {
	ast.Inspect(fd.Body, func(n ast.Node) bool {
		if fs, ok := n.(*ast.ForStmt); ok && fs.Pos() <= node.Pos() && node.End() <= fs.End() {
			out = fs
		}
		return true
	})
	return
}

func renderSimpleStmt(st ast.Stmt, env consts) string {
	switch s := st.(type) {
	case nil:
		return ""
	case *ast.AssignStmt:
		var l, r []string
		for _, e := range s.Lhs {
			l = append(l, render(e, env))
		}
		for _, e := range s.Rhs {
			r = append(r, render(e, env))
		}
		tok := s.Tok.String()
		if s.Tok == token.DEFINE {
			tok = "="
		}
		return strings.Join(l, ", ") + " " + tok + " " + strings.Join(r, ", ")
	case *ast.IncDecStmt:
		return render(s.X, env) + s.Tok.String()
	case *ast.ExprStmt:
		return render(s.X, env)
	}
	return fmt.Sprintf("?%T", st)
}

// tripCount of `for i := a; i < b; i++` (b-a), `for i := a; i <= b; i++` (b-a+1), `for i := a; i > b; i--` (a-b),
// `for i := a; i >= b; i--` (a-b+1) with constant a, b; ok=false for any other shape.
func tripCount(fs *ast.ForStmt, env consts) (n int64, ok bool) {
	as, ok1 := fs.Init.(*ast.AssignStmt)
	inc, ok2 := fs.Post.(*ast.IncDecStmt)
	if !ok1 || !ok2 || len(as.Lhs) != 1 || len(as.Rhs) != 1 || fs.Cond == nil {
		return 0, false
	}
	id, ok1 := as.Lhs[0].(*ast.Ident)
	id2, ok2 := inc.X.(*ast.Ident)
	if !ok1 || !ok2 || id.Name != id2.Name {
		return 0, false
	}
	a, okA := eval(as.Rhs[0], env)
	c := toNNF(fs.Cond, false, env)
	if !okA || c.kind != nAtom || c.op == token.ILLEGAL {
		return 0, false
	}
	if x, ok := unparen(c.x).(*ast.Ident); !ok || x.Name != id.Name {
		return 0, false
	}
	b, okB := eval(c.y, env)
	if !okB {
		return 0, false
	}
	av, ok1 := constant.Int64Val(constant.ToInt(a))
	bv, ok2 := constant.Int64Val(constant.ToInt(b))
	if !ok1 || !ok2 {
		return 0, false
	}
	switch {
	case inc.Tok == token.INC && c.op == token.LSS:
		n = bv - av
	case inc.Tok == token.INC && c.op == token.LEQ:
		n = bv - av + 1
	case inc.Tok == token.DEC && c.op == token.GTR:
		n = av - bv
	case inc.Tok == token.DEC && c.op == token.GEQ:
		n = av - bv + 1
	default:
		return 0, false
	}
	if n < 0 {
		n = 0
	}
	return n, true
}

func leanStr(s string) string {
	return "\"" + strings.NewReplacer("\\", "\\\\", "\"", "\\\"").Replace(s) + "\""
}

// ---------------------------------------------------------------------------------------------------------------
// helpers of the order-insensitive facts (robustness pass 2: a fact that is a SET is written in a canonical order;
// whether it IS a set — the members do not read what the others write — is checked on the source, never assumed)

// mentionsSel: does e contain the selector <base>.<field>?
func mentionsSel(e ast.Node, base, field string) (yes bool) {
	if e == nil {
		return false
	}
	ast.Inspect(e, func(n ast.Node) bool {
		if se, ok := n.(*ast.SelectorExpr); ok && se.Sel.Name == field {
			if id, ok := se.X.(*ast.Ident); ok && id.Name == base {
				yes = true
			}
		}
		return true
	})
	return
}

// hasCallOn: does e call a method on <base> or hand <base> (or its address) to a function?
func hasCallOn(e ast.Node, base string) (yes bool) {
	if e == nil {
		return false
	}
	ast.Inspect(e, func(n ast.Node) bool {
		call, ok := n.(*ast.CallExpr)
		if !ok {
			return true
		}
		if se, ok := call.Fun.(*ast.SelectorExpr); ok {
			if id, ok := se.X.(*ast.Ident); ok && id.Name == base {
				yes = true
			}
		}
		for _, a := range call.Args {
			if u, ok := a.(*ast.UnaryExpr); ok && u.Op == token.AND {
				a = u.X
			}
			if id, ok := unparen(a).(*ast.Ident); ok && id.Name == base {
				yes = true
			}
		}
		return true
	})
	return
}

var intTypeNames = map[string]bool{"int": true, "uint": true, "int8": true, "uint8": true, "int16": true, "uint16": true,
	"int32": true, "uint32": true, "int64": true, "uint64": true, "byte": true, "uintptr": true}

// hasCall: does e contain a call that is not a conversion to a predeclared integer type / len / cap?
func hasCall(e ast.Node) (yes bool) {
	if e == nil {
		return false
	}
	ast.Inspect(e, func(n ast.Node) bool {
		if call, ok := n.(*ast.CallExpr); ok {
			if id, ok := call.Fun.(*ast.Ident); !ok || !(intTypeNames[id.Name] || id.Name == "len" || id.Name == "cap") {
				yes = true
			}
		}
		return true
	})
	return
}

// wideInt: integer types of at least 32 bits. A conversion to one of them is value-preserving for every value in
// 0 .. 2^31-1 — in particular for the base weight 4*(80+VLenSize(n)), VLenSize(n) ∈ {1,3,5,9}.
var wideInt = map[string]bool{"int": true, "uint": true, "int32": true, "uint32": true, "int64": true, "uint64": true}

// arith expands e along its arithmetic structure: parentheses dropped, conversions to a wide integer type dropped
// (NOT conversions to 8 / 16-bit types, which stay visible), calls of unexported single-`return` helpers of the same
// package replaced by their expression (d levels). The arguments of any other call are left as written. Used for the
// base-weight fact only, where every intermediate value is below 2^9, so that WHERE the widening conversion is
// applied (inside, outside, in an extracted helper that returns int) is not a fact.
func (in *inliner) arith(e ast.Expr, d int) ast.Expr {
	switch x := e.(type) {
	case *ast.ParenExpr:
		return in.arith(x.X, d)
	case *ast.BinaryExpr:
		switch x.Op {
		case token.ADD, token.MUL, token.SUB:
			return &ast.BinaryExpr{X: in.arith(x.X, d), Op: x.Op, Y: in.arith(x.Y, d)}
		}
	case *ast.CallExpr:
		if id, ok := x.Fun.(*ast.Ident); ok && wideInt[id.Name] && len(x.Args) == 1 {
			return in.arith(x.Args[0], d)
		}
		if d > 0 {
			if h := in.helperExpr(x); h != nil {
				return in.arith(h, d-1)
			}
		}
	}
	return e
}
