// norm.go — canonical forms used by gen_c05 so that the regenerated facts do not depend on HOW a guard is
// written, only on WHAT it tests:
//
//   * pkgFuncs      : every function of a package directory (a function may move to another file);
//   * inliner       : calls to unexported same-package helpers whose body is one `return <expr>` are replaced by
//                     that expression (parameters / receiver substituted), two levels deep; locals that are
//                     defined exactly once (`x := e`, `var x = e`) and never assigned again are replaced by e.
//                     Only the SHAPE of the expression is read afterwards (operators and the constant side of
//                     comparisons), so evaluating an argument twice is of no concern;
//   * nnf           : negation normal form of a condition (`!`, `&&`, `||` pushed down by De Morgan; a negated
//                     comparison becomes the opposite comparison; a comparison with its constant on the left is
//                     mirrored): the facts are read from the atoms with their polarity;
//   * guards        : an `if` statement or a clause of a tag-less `switch` whose body carries a marker string;
//                     looked for in the analysed function and in the unexported same-package functions it calls
//                     (two levels).
//
// Names of locals, parameters, named results, receivers and unexported helpers are never compared with a literal.
package main

import (
	"go/ast"
	"go/parser"
	"go/token"
	"os"
	"path/filepath"
	"sort"
	"strings"
	"unicode"

	"verif/vtrans"
)

// ---------------------------------------------------------------------------------------------------- package

type pkgFuncs struct {
	funcs   map[string]*ast.FuncDecl   // "Recv.name" / ".name"
	methods map[string][]*ast.FuncDecl // method name → declarations (any receiver)
	files   []*ast.File
}

func recvName(fd *ast.FuncDecl) string {
	if fd.Recv == nil || len(fd.Recv.List) != 1 {
		return ""
	}
	t := fd.Recv.List[0].Type
	if s, ok := t.(*ast.StarExpr); ok {
		t = s.X
	}
	if ix, ok := t.(*ast.IndexExpr); ok { // generic receiver
		t = ix.X
	}
	if id, ok := t.(*ast.Ident); ok {
		return id.Name
	}
	return ""
}

// loadPkg parses every non-test .go file of a repository directory.
func loadPkg(rel string) *pkgFuncs {
	p := &pkgFuncs{funcs: map[string]*ast.FuncDecl{}, methods: map[string][]*ast.FuncDecl{}}
	dir := filepath.Join(vtrans.RepoRoot(), rel)
	ents, err := os.ReadDir(dir)
	if err != nil {
		die("%v", err)
	}
	var names []string
	for _, e := range ents {
		n := e.Name()
		if e.IsDir() || !strings.HasSuffix(n, ".go") || strings.HasSuffix(n, "_test.go") {
			continue
		}
		names = append(names, n)
	}
	sort.Strings(names)
	fset := token.NewFileSet()
	for _, n := range names {
		f, err := parser.ParseFile(fset, filepath.Join(dir, n), nil, 0)
		if err != nil {
			die("%v", err)
		}
		p.files = append(p.files, f)
		for _, d := range f.Decls {
			fd, ok := d.(*ast.FuncDecl)
			if !ok || fd.Body == nil {
				continue
			}
			k := recvName(fd) + "." + fd.Name.Name
			if _, dup := p.funcs[k]; !dup {
				p.funcs[k] = fd
			}
			if fd.Recv != nil {
				p.methods[fd.Name.Name] = append(p.methods[fd.Name.Name], fd)
			}
		}
	}
	return p
}

// addConsts adds the package's top-level constants that env does not know yet (a constant may be introduced or
// moved to another file by a refactoring; an unknown name on the constant side of a comparison would otherwise be
// taken for a variable). Names already in env keep their value.
func (p *pkgFuncs) addConsts(env consts) {
	known := map[string]bool{}
	for n := range env {
		known[n] = true
	}
	for round := 0; round < 3; round++ { // constants may refer to constants of a later file
		for _, f := range p.files {
			for _, d := range f.Decls {
				gd, ok := d.(*ast.GenDecl)
				if !ok || gd.Tok != token.CONST {
					continue
				}
				for _, sp := range gd.Specs {
					vs := sp.(*ast.ValueSpec)
					for i, n := range vs.Names {
						if i < len(vs.Values) && !known[n.Name] {
							if v, ok := eval(vs.Values[i], env); ok {
								env[n.Name] = v
							}
						}
					}
				}
			}
		}
	}
}

func (p *pkgFuncs) get(recv, name string) *ast.FuncDecl {
	fd := p.funcs[recv+"."+name]
	if fd == nil {
		die("func %s.%s not found in its package", recv, name)
	}
	return fd
}

func unexported(name string) bool {
	for _, r := range name {
		return unicode.IsLower(r) || r == '_'
	}
	return false
}

// callee resolves a call to an unexported function / method of the same package (nil if it is anything else).
// A method is only resolved when its name is unique in the package (no type information is used).
func (p *pkgFuncs) callee(call *ast.CallExpr) (fd *ast.FuncDecl, recv ast.Expr) {
	switch fn := call.Fun.(type) {
	case *ast.Ident:
		if unexported(fn.Name) {
			return p.funcs["."+fn.Name], nil
		}
	case *ast.SelectorExpr:
		if unexported(fn.Sel.Name) {
			if ms := p.methods[fn.Sel.Name]; len(ms) == 1 {
				return ms[0], fn.X
			}
		}
	}
	return nil, nil
}

// ------------------------------------------------------------------------------------------------ substitution

// subst returns a copy of e in which identifiers in expression position are replaced through m.
func subst(e ast.Expr, m map[string]ast.Expr) ast.Expr {
	if e == nil {
		return nil
	}
	list := func(xs []ast.Expr) []ast.Expr {
		out := make([]ast.Expr, len(xs))
		for i, x := range xs {
			out[i] = subst(x, m)
		}
		return out
	}
	switch x := e.(type) {
	case *ast.Ident:
		if r, ok := m[x.Name]; ok {
			return &ast.ParenExpr{X: r}
		}
		return x
	case *ast.ParenExpr:
		return &ast.ParenExpr{X: subst(x.X, m)}
	case *ast.SelectorExpr:
		return &ast.SelectorExpr{X: subst(x.X, m), Sel: x.Sel}
	case *ast.IndexExpr:
		return &ast.IndexExpr{X: subst(x.X, m), Index: subst(x.Index, m)}
	case *ast.SliceExpr:
		return &ast.SliceExpr{X: subst(x.X, m), Low: subst(x.Low, m), High: subst(x.High, m), Max: subst(x.Max, m), Slice3: x.Slice3}
	case *ast.StarExpr:
		return &ast.StarExpr{X: subst(x.X, m)}
	case *ast.UnaryExpr:
		return &ast.UnaryExpr{Op: x.Op, X: subst(x.X, m)}
	case *ast.BinaryExpr:
		return &ast.BinaryExpr{X: subst(x.X, m), Op: x.Op, Y: subst(x.Y, m)}
	case *ast.CallExpr:
		return &ast.CallExpr{Fun: subst(x.Fun, m), Args: list(x.Args), Ellipsis: x.Ellipsis}
	case *ast.CompositeLit:
		return &ast.CompositeLit{Type: x.Type, Elts: list(x.Elts)}
	case *ast.KeyValueExpr:
		return &ast.KeyValueExpr{Key: x.Key, Value: subst(x.Value, m)}
	case *ast.TypeAssertExpr:
		return &ast.TypeAssertExpr{X: subst(x.X, m), Type: x.Type}
	}
	return e // literals, function literals, types
}

// localDefs: the locals of fd that are defined exactly once by `x := e` / `x, y := e, f` / `var x = e` and are never
// assigned, incremented, ranged over or have their address taken anywhere else in the function.
func localDefs(fd *ast.FuncDecl) map[string]ast.Expr {
	defs := map[string]ast.Expr{}
	bad := map[string]bool{}
	mark := func(e ast.Expr) {
		if id, ok := e.(*ast.Ident); ok {
			bad[id.Name] = true
		}
	}
	def := func(name string, e ast.Expr) {
		if _, twice := defs[name]; twice {
			bad[name] = true
		}
		defs[name] = e
	}
	if fd.Type.Params != nil {
		for _, f := range fd.Type.Params.List {
			for _, n := range f.Names {
				bad[n.Name] = true
			}
		}
	}
	if fd.Type.Results != nil {
		for _, f := range fd.Type.Results.List {
			for _, n := range f.Names {
				bad[n.Name] = true
			}
		}
	}
	ast.Inspect(fd.Body, func(n ast.Node) bool {
		switch s := n.(type) {
		case *ast.AssignStmt:
			if s.Tok == token.DEFINE && len(s.Lhs) == len(s.Rhs) {
				for i, l := range s.Lhs {
					if id, ok := l.(*ast.Ident); ok {
						def(id.Name, s.Rhs[i])
					}
				}
			} else {
				for _, l := range s.Lhs {
					mark(l)
				}
			}
		case *ast.DeclStmt:
			if gd, ok := s.Decl.(*ast.GenDecl); ok && gd.Tok == token.VAR {
				for _, sp := range gd.Specs {
					vs := sp.(*ast.ValueSpec)
					if len(vs.Names) == len(vs.Values) {
						for i, n := range vs.Names {
							def(n.Name, vs.Values[i])
						}
					} else {
						for _, n := range vs.Names {
							bad[n.Name] = true
						}
					}
				}
			}
		case *ast.IncDecStmt:
			mark(s.X)
		case *ast.RangeStmt:
			if s.Key != nil {
				mark(s.Key)
			}
			if s.Value != nil {
				mark(s.Value)
			}
		case *ast.UnaryExpr:
			if s.Op == token.AND {
				mark(s.X)
			}
		}
		return true
	})
	for n := range bad {
		delete(defs, n)
	}
	return defs
}

type inliner struct {
	pkg    *pkgFuncs
	locals map[string]ast.Expr
}

func newInliner(pkg *pkgFuncs, fd *ast.FuncDecl) *inliner {
	return &inliner{pkg, localDefs(fd)}
}

// helperExpr: the single returned expression of a helper, with parameters and receiver replaced; nil if the
// callee is not of that simple form.
func (in *inliner) helperExpr(call *ast.CallExpr) ast.Expr {
	fd, recv := in.pkg.callee(call)
	if fd == nil || len(fd.Body.List) != 1 || call.Ellipsis.IsValid() {
		return nil
	}
	ret, ok := fd.Body.List[0].(*ast.ReturnStmt)
	if !ok || len(ret.Results) != 1 {
		return nil
	}
	m := map[string]ast.Expr{}
	if recv != nil && len(fd.Recv.List[0].Names) == 1 {
		m[fd.Recv.List[0].Names[0].Name] = recv
	}
	i := 0
	for _, f := range fd.Type.Params.List {
		if _, variadic := f.Type.(*ast.Ellipsis); variadic || len(f.Names) == 0 {
			return nil
		}
		for _, n := range f.Names {
			if i >= len(call.Args) {
				return nil
			}
			m[n.Name] = call.Args[i]
			i++
		}
	}
	if i != len(call.Args) {
		return nil
	}
	return subst(ret.Results[0], m)
}

// expand replaces single-definition locals (up to three rounds) and then helper calls (depth levels) inside e.
// Helper calls are expanded along the boolean / arithmetic structure only (not inside the arguments of other calls).
func (in *inliner) expand(e ast.Expr, depth int) ast.Expr {
	if e == nil {
		return e
	}
	usesLocal := func(e ast.Expr) (used bool) {
		ast.Inspect(e, func(n ast.Node) bool {
			if id, ok := n.(*ast.Ident); ok {
				if _, ok := in.locals[id.Name]; ok {
					used = true
				}
			}
			return !used
		})
		return
	}
	for i := 0; i < 3 && len(in.locals) > 0 && usesLocal(e); i++ {
		e = subst(e, in.locals)
	}
	var rec func(e ast.Expr, d int) ast.Expr
	rec = func(e ast.Expr, d int) ast.Expr {
		switch x := e.(type) {
		case *ast.ParenExpr:
			return &ast.ParenExpr{X: rec(x.X, d)}
		case *ast.UnaryExpr:
			return &ast.UnaryExpr{Op: x.Op, X: rec(x.X, d)}
		case *ast.BinaryExpr:
			return &ast.BinaryExpr{X: rec(x.X, d), Op: x.Op, Y: rec(x.Y, d)}
		case *ast.CallExpr:
			if d > 0 {
				if h := in.helperExpr(x); h != nil {
					return &ast.ParenExpr{X: rec(h, d-1)}
				}
			}
		}
		return e
	}
	return rec(e, depth)
}

// --------------------------------------------------------------------------------------------------------- nnf

const (
	nAtom = iota // comparison (op set) or boolean leaf (op == ILLEGAL, neg = polarity)
	nAnd
	nOr
)

type nnf struct {
	kind int
	kids []*nnf
	op   token.Token // comparison operator after normalisation; ILLEGAL for a boolean leaf
	x, y ast.Expr    // comparison operands (y is the constant side when exactly one side is constant)
	leaf ast.Expr    // boolean leaf
	neg  bool        // boolean leaf is negated
}

func unparen(e ast.Expr) ast.Expr {
	for {
		p, ok := e.(*ast.ParenExpr)
		if !ok {
			return e
		}
		e = p.X
	}
}

var negOp = map[token.Token]token.Token{token.LSS: token.GEQ, token.GEQ: token.LSS, token.GTR: token.LEQ, token.LEQ: token.GTR, token.EQL: token.NEQ, token.NEQ: token.EQL}
var mirrorOp = map[token.Token]token.Token{token.LSS: token.GTR, token.GTR: token.LSS, token.LEQ: token.GEQ, token.GEQ: token.LEQ, token.EQL: token.EQL, token.NEQ: token.NEQ}

func toNNF(e ast.Expr, neg bool, env consts) *nnf {
	e = unparen(e)
	switch x := e.(type) {
	case *ast.UnaryExpr:
		if x.Op == token.NOT {
			return toNNF(x.X, !neg, env)
		}
	case *ast.BinaryExpr:
		switch x.Op {
		case token.LAND, token.LOR:
			k := nAnd
			if (x.Op == token.LOR) != neg {
				k = nOr
			}
			n := &nnf{kind: k}
			for _, s := range []ast.Expr{x.X, x.Y} {
				c := toNNF(s, neg, env)
				if c.kind == k {
					n.kids = append(n.kids, c.kids...)
				} else {
					n.kids = append(n.kids, c)
				}
			}
			return n
		case token.LSS, token.GTR, token.LEQ, token.GEQ, token.EQL, token.NEQ:
			op, a, b := x.Op, x.X, x.Y
			_, ca := eval(a, env)
			_, cb := eval(b, env)
			if ca && !cb {
				op, a, b = mirrorOp[op], b, a
			}
			if neg {
				op = negOp[op]
			}
			return &nnf{kind: nAtom, op: op, x: a, y: b}
		}
	}
	return &nnf{kind: nAtom, op: token.ILLEGAL, leaf: e, neg: neg}
}

// atoms lists the atoms left to right.
func (n *nnf) atoms() (out []*nnf) {
	if n.kind == nAtom {
		return []*nnf{n}
	}
	for _, k := range n.kids {
		out = append(out, k.atoms()...)
	}
	return
}

// flat returns the atoms when n is a single atom or one level of `kind` over atoms only; ok=false otherwise.
func (n *nnf) flat(kind int) ([]*nnf, bool) {
	if n.kind == nAtom {
		return []*nnf{n}, true
	}
	if n.kind != kind {
		return nil, false
	}
	for _, k := range n.kids {
		if k.kind != nAtom {
			return nil, false
		}
	}
	return n.kids, true
}

// ------------------------------------------------------------------------------------------------------ guards

// guard: condition + guarded statements (an if statement, or a clause of a tag-less switch).
type guard struct {
	cond ast.Expr
	init ast.Stmt
	body []ast.Stmt
	node ast.Node
	in   *inliner // of the function the guard was found in
	fd   *ast.FuncDecl
}

func hasMarker(body []ast.Stmt, marker string) bool {
	found := false
	for _, st := range body {
		ast.Inspect(st, func(m ast.Node) bool {
			switch x := m.(type) {
			case *ast.IfStmt, *ast.SwitchStmt:
				return false // a nested guard owns its own markers
			case *ast.BasicLit:
				if x.Kind == token.STRING && strings.Contains(x.Value, marker) {
					found = true
				}
			}
			return true
		})
	}
	return found
}

// reach: fd and the unexported same-package functions it calls, `depth` levels, in order of first call.
func (p *pkgFuncs) reach(fd *ast.FuncDecl, depth int) []*ast.FuncDecl {
	out := []*ast.FuncDecl{fd}
	seen := map[*ast.FuncDecl]bool{fd: true}
	level := []*ast.FuncDecl{fd}
	for d := 0; d < depth; d++ {
		var next []*ast.FuncDecl
		for _, f := range level {
			ast.Inspect(f.Body, func(n ast.Node) bool {
				if call, ok := n.(*ast.CallExpr); ok {
					if c, _ := p.callee(call); c != nil && !seen[c] {
						seen[c] = true
						out = append(out, c)
						next = append(next, c)
					}
				}
				return true
			})
		}
		level = next
	}
	return out
}

// allGuards lists the guards of fd and of the helpers it reaches.
func (p *pkgFuncs) allGuards(fd *ast.FuncDecl) (out []*guard) {
	for _, f := range p.reach(fd, 2) {
		in := newInliner(p, f)
		f := f
		ast.Inspect(f.Body, func(n ast.Node) bool {
			switch s := n.(type) {
			case *ast.IfStmt:
				out = append(out, &guard{s.Cond, s.Init, s.Body.List, s, in, f})
			case *ast.SwitchStmt:
				if s.Tag == nil {
					for _, c := range s.Body.List {
						cc := c.(*ast.CaseClause)
						if len(cc.List) == 1 {
							out = append(out, &guard{cc.List[0], s.Init, cc.Body, cc, in, f})
						}
					}
				}
			}
			return true
		})
	}
	return
}

// findGuard returns the first guard reachable from fd whose body carries the marker.
func (p *pkgFuncs) findGuard(fd *ast.FuncDecl, marker string) *guard {
	for _, g := range p.allGuards(fd) {
		if hasMarker(g.body, marker) {
			return g
		}
	}
	die("%s: no guard carrying the marker %q", fd.Name.Name, marker)
	return nil
}

// norm: the guard's condition with helpers / single-definition locals expanded, in negation normal form.
func (g *guard) norm(env consts) *nnf {
	return toNNF(g.in.expand(g.cond, 2), false, env)
}

func mentions(e ast.Node, name string) (yes bool) {
	if e == nil {
		return false
	}
	ast.Inspect(e, func(n ast.Node) bool {
		switch x := n.(type) {
		case *ast.SelectorExpr:
			if x.Sel.Name == name {
				yes = true
			}
		case *ast.Ident:
			if x.Name == name {
				yes = true
			}
		}
		return true
	})
	return
}

// returns reports whether the statement list contains a return statement (not inside a function literal).
func returns(body []ast.Stmt) (yes bool) {
	for _, st := range body {
		ast.Inspect(st, func(n ast.Node) bool {
			switch n.(type) {
			case *ast.FuncLit:
				return false
			case *ast.ReturnStmt:
				yes = true
			}
			return true
		})
	}
	return
}
