// gen_c05 regenerates lean/GocoinV/Gen/ConsensusConsts.lean from /repo's current source
// (translator tie for C05). Everything is read from the AST; constant expressions are folded with
// go/constant. Guards are located by the RPC_Result marker string inside their body (in the analysed function or in
// an unexported same-package helper it calls), their conditions are read in a canonical form (norm.go: helpers and
// single-definition locals expanded, negation normal form, constant on the right, integer `<= c` read as `< c+1`),
// and no name of a local, parameter, named result or unexported helper is compared with a literal. Renaming,
// extracting / inlining a predicate, De Morgan rewrites, if-chain vs tag-less switch therefore do not break the tie.
// What is emitted:
//   - numbers (limits, activation heights, constants): a guard read for a limit must be exactly ONE comparison of the
//     expected quantity that returns (func `one`), else the generator stops;
//   - structural Booleans (whole-hash comparisons — operands must not be cut or indexed —, counter read after the fallback);
//   - canonical SHAPES (shape.go) of every marker-carrying guard of PreCheckBlock / PostCheckBlock with its enclosing
//     conditions and whether it returns, of GetBlockFlags' rules, the commitment search loop, the lock-time cut-off,
//     the retarget timespan and parent-step count, the base-weight expressions, the client's hand reset of a Block —
//     pinned by Props.C05.guard_shapes, so that an edit of an operand / operator / polarity / connective / return changes
//     a generated definition and a theorem stops holding (audit 2: 22 of 29 such edits used to regenerate identical facts).
// Not read at all: see the manifest ("NOT pinned by any fact"); for those the differential harness is the tie.
package main

import (
	"fmt"
	"go/ast"
	"go/constant"
	"go/token"
	"os"
	"sort"
	"strconv"
	"strings"

	"verif/vlib"
	"verif/vtrans"
)

var facts int

func hasLit(e ast.Expr) (yes bool) {
	ast.Inspect(e, func(n ast.Node) bool {
		if _, ok := n.(*ast.CompositeLit); ok {
			yes = true
		}
		return true
	})
	return
}

func die(format string, a ...interface{}) {
	fmt.Fprintln(os.Stderr, "TRANSLATE-ERROR:", fmt.Sprintf(format, a...))
	os.Exit(2)
}

type consts map[string]constant.Value

// eval folds a constant expression; idents are looked up in env. ok=false if not constant.
func eval(e ast.Expr, env consts) (constant.Value, bool) {
	switch x := e.(type) {
	case *ast.BasicLit:
		v := constant.MakeFromLiteral(x.Value, x.Kind, 0)
		return v, v.Kind() != constant.Unknown
	case *ast.ParenExpr:
		return eval(x.X, env)
	case *ast.Ident:
		v, ok := env[x.Name]
		return v, ok
	case *ast.SelectorExpr: // pkg.CONST
		v, ok := env[x.Sel.Name]
		if _, isId := x.X.(*ast.Ident); !isId {
			return nil, false
		}
		return v, ok
	case *ast.UnaryExpr:
		v, ok := eval(x.X, env)
		if !ok {
			return nil, false
		}
		return constant.UnaryOp(x.Op, v, 0), true
	case *ast.BinaryExpr:
		a, ok1 := eval(x.X, env)
		b, ok2 := eval(x.Y, env)
		if !ok1 || !ok2 {
			return nil, false
		}
		switch x.Op {
		case token.SHL, token.SHR:
			n, ok := constant.Uint64Val(constant.ToInt(b))
			if !ok {
				return nil, false
			}
			return constant.Shift(constant.ToInt(a), x.Op, uint(n)), true
		case token.QUO:
			if constant.ToInt(a).Kind() == constant.Int && constant.ToInt(b).Kind() == constant.Int {
				return constant.BinaryOp(constant.ToInt(a), token.QUO_ASSIGN, constant.ToInt(b)), true // integer division
			}
			return constant.BinaryOp(a, token.QUO, b), true
		case token.ADD, token.SUB, token.MUL, token.AND, token.OR, token.XOR, token.REM:
			return constant.BinaryOp(a, x.Op, b), true
		}
	}
	return nil, false
}

func toNat(v constant.Value, what string) string {
	i := constant.ToInt(v)
	if i.Kind() != constant.Int || constant.Sign(i) < 0 {
		die("%s: not a non-negative integer constant (%v)", what, v)
	}
	return i.ExactString()
}

// fileConsts collects all top-level integer constants of a file (in declaration order, with iota-free decls).
func fileConsts(f *vtrans.File, env consts) {
	for _, d := range f.AST.Decls {
		gd, ok := d.(*ast.GenDecl)
		if !ok || gd.Tok != token.CONST {
			continue
		}
		for _, s := range gd.Specs {
			vs := s.(*ast.ValueSpec)
			for i, n := range vs.Names {
				if i < len(vs.Values) {
					if v, ok := eval(vs.Values[i], env); ok {
						env[n.Name] = v
					}
				}
			}
		}
	}
}

// cmp describes `<non-constant> OP <constant-part>`; constant addends on the non-constant side are folded
// into cst (x OP y + c).
type cmp struct {
	op  token.Token
	cst constant.Value
}

// constAddends sums the constant leaves of a +-tree and reports whether non-constant leaves exist.
func constAddends(e ast.Expr, env consts) (sum constant.Value, nonconst int) {
	sum = constant.MakeInt64(0)
	var walk func(e ast.Expr)
	walk = func(e ast.Expr) {
		if v, ok := eval(e, env); ok {
			sum = constant.BinaryOp(sum, token.ADD, v)
			return
		}
		switch x := e.(type) {
		case *ast.ParenExpr:
			walk(x.X)
			return
		case *ast.BinaryExpr:
			if x.Op == token.ADD {
				walk(x.X)
				walk(x.Y)
				return
			}
		}
		nonconst++
	}
	walk(e)
	return
}

// comparisons lists the comparison atoms of a normalised condition, left to right.
func comparisons(n *nnf, env consts) (out []cmp) {
	for _, a := range n.atoms() {
		if a.op != token.ILLEGAL {
			c, _ := constAddends(a.y, env)
			out = append(out, cmp{a.op, c})
		}
	}
	return
}

// canon re-states an integer comparison with the operator the model was written for, when that is possible
// without changing its meaning: x <= c is x < c+1, x >= c is x > c-1 (every comparison read here is between
// integers: lengths, weights, heights, versions, unix times).
func canon(c cmp, op token.Token) cmp {
	if c.op == op || c.cst == nil || constant.ToInt(c.cst).Kind() != constant.Int {
		return c
	}
	v, one := constant.ToInt(c.cst), constant.MakeInt64(1)
	switch {
	case c.op == token.LEQ && op == token.LSS, c.op == token.GTR && op == token.GEQ:
		return cmp{op, constant.BinaryOp(v, token.ADD, one)}
	case c.op == token.LSS && op == token.LEQ, c.op == token.GEQ && op == token.GTR:
		return cmp{op, constant.BinaryOp(v, token.SUB, one)}
	}
	return c
}

func want(c cmp, op token.Token, what string) string {
	c = canon(c, op)
	if c.op != op {
		die("%s: comparison operator is %s, the model was written for %s", what, c.op, op)
	}
	facts++
	return toNat(c.cst, what)
}

func main() {
	var sb strings.Builder
	sb.WriteString("/- GENERATED by go/cmd/gen_c05 from lib/btc/const.go, lib/chain/{const,chain,chain_diff,block_check}.go,\n   lib/btc/tx.go, lib/script/script.go — do not edit; not in git. -/\nnamespace GocoinV.Gen.ConsensusConsts\n\n")
	def := func(name, val, comment string) {
		fmt.Fprintf(&sb, "/-- %s -/\ndef %s : Nat := %s\n", comment, name, val)
		facts++
	}

	parse := func(p string) *vtrans.File {
		f, err := vtrans.Parse(p)
		if err != nil {
			die("%v", err)
		}
		return f
	}
	env := consts{}
	btcConst := parse("lib/btc/const.go")
	fileConsts(btcConst, env)
	chConst := parse("lib/chain/const.go")
	fileConsts(chConst, env)
	fileConsts(parse("lib/chain/chain_diff.go"), env)
	scr := parse("lib/script/script.go")
	fileConsts(scr, env)
	opc := parse("lib/btc/opcodes.go")
	fileConsts(opc, env)

	// the two packages whose functions are analysed; their remaining constants (files not named above) are added
	// without overriding anything
	chain := loadPkg("lib/chain")
	btcPkg := loadPkg("lib/btc")
	chain.addConsts(env)
	btcPkg.addConsts(env)

	for _, n := range []string{"MAX_BLOCK_WEIGHT", "MAX_MONEY", "LOCKTIME_THRESHOLD", "MedianTimeSpan", "MovingCheckopintDepth", "BIP16SwitchTime",
		"POWRetargetSpam", "TargetSpacing", "targetInterval",
		"VER_P2SH", "VER_DERSIG", "VER_NULLDUMMY", "VER_CLTV", "VER_CSV", "VER_WITNESS", "VER_TAPROOT", "OP_0", "OP_1"} {
		v, ok := env[n]
		if !ok {
			die("constant %s not found", n)
		}
		def(n, toNat(v, n), "Go constant "+n)
	}

	// ---- PreCheckBlock / PostCheckBlock guards (package lib/chain; the functions may live in any file of it)
	pre := chain.get("Chain", "PreCheckBlock")
	post := chain.get("Chain", "PostCheckBlock")
	// one: a guard that is exactly ONE comparison `<left> OP <constant [+ non-constant addends]>` and returns (audit 2: an
	// added conjunct / another left operand / a body without return used to regenerate the same number)
	one := func(pk *pkgFuncs, fd *ast.FuncDecl, marker string, left string, op token.Token, name, comment string) {
		g := pk.findGuard(fd, marker)
		n := g.norm(env)
		what := fd.Name.Name + "/" + marker
		if n.kind != nAtom || n.op == token.ILLEGAL {
			die("%s: the guard is not a single comparison any more (%s); the model was written for `%s %s <limit>`", what, shapeNNF(n, env), left, op)
		}
		if got := render(n.x, env); got != left {
			die("%s: the guard compares %s, the model was written for %s", what, got, left)
		}
		if !returns(g.body) {
			die("%s: the guarded statements do not return", what)
		}
		c, _ := constAddends(n.y, env)
		def(name, want(cmp{n.op, c}, op, what), comment)
	}
	one(chain, pre, "bad-blk-length", "len(_.Raw)", token.LSS, "preMinRawLen", "PreCheckBlock: len(bl.Raw) < this is refused")
	one(chain, post, "bad-blk-length", "len(_.Raw)", token.LSS, "postMinRawLen", "PostCheckBlock: len(bl.Raw) < this is refused")
	one(chain, pre, "time-too-new", "int64(_.BlockTime())", token.GTR, "maxFutureBlockTime", "PreCheckBlock: block time > now + this is refused")
	// dos value inside the time-too-new guard:  <first result> = int64(bl.BlockTime()) > time.Now().Unix()+A+B
	// (an assignment to the first named result, or the first operand of a return statement)
	{
		g := chain.findGuard(pre, "time-too-new")
		res0 := ""
		if r := g.fd.Type.Results; r != nil && len(r.List) > 0 && len(r.List[0].Names) > 0 {
			res0 = r.List[0].Names[0].Name
		}
		var cands []ast.Expr
		for _, st := range g.body {
			switch x := st.(type) {
			case *ast.AssignStmt:
				if len(x.Lhs) == len(x.Rhs) {
					for i, l := range x.Lhs {
						if id, ok := l.(*ast.Ident); ok && res0 != "" && id.Name == res0 {
							cands = append(cands, x.Rhs[i])
						}
					}
				}
			case *ast.ReturnStmt:
				if len(x.Results) > 1 {
					cands = append(cands, x.Results[0])
				}
			}
		}
		found := false
		for _, c := range cands {
			cs := comparisons(toNNF(g.in.expand(c, 2), false, env), env)
			if len(cs) == 0 {
				continue // a constant / a variable
			}
			if len(cs) != 1 || found {
				die("time-too-new: dos expression has unexpected shape")
			}
			def("futureDosLimit", want(cs[0], token.GTR, "time-too-new dos"), "PreCheckBlock: time-too-new is a DoS when block time > now + this")
			found = true
		}
		if !found {
			die("time-too-new: dos assignment not found")
		}
	}
	one(chain, pre, "bad-version", "int32(_.Version())", token.EQL, "forbiddenVersion", "PreCheckBlock: version == this is refused outright")
	one(chain, post, "bad-blk-weight", "_.BlockWeight", token.GTR, "postMaxWeight", "PostCheckBlock: BlockWeight > this is refused")
	// fork depth guard: `prevblk != lst_now && int(lst_now.Height)-int(bl.Height) >= MovingCheckopintDepth`
	// (a conjunction of a node inequality and a depth comparison, in either order)
	{
		at, ok := chain.findGuard(pre, "hooks too deep").norm(env).flat(nAnd)
		if !ok || len(at) != 2 || at[0].op == token.ILLEGAL || at[1].op == token.ILLEGAL {
			die("fork-depth guard has unexpected shape")
		}
		ne, depth := at[0], at[1]
		if ne.op != token.NEQ {
			ne, depth = depth, ne
		}
		if ne.op != token.NEQ {
			die("fork-depth guard has unexpected shape")
		}
		c, _ := constAddends(depth.y, env)
		def("forkDepthLimit", want(cmp{depth.op, c}, token.GEQ, "fork depth"), "PreCheckBlock: side branch refused when lastHeight - height >= this")
	}
	// BlockIndex look-ups of PreCheckBlock: the map is keyed by BIdx (first 8 bytes of a hash). Structural facts:
	// is the entry found compared with the WHOLE hash (a) of the block itself, (b) of the previous-block field?
	// `true`/`false` is emitted (the model follows the source, the theorems need `true`); any other shape stops.
	{
		// equalLeaf: the atom is a call `X.Equal(...)` / `bytes.Equal(...)` that mentions every name of `names`
		equalLeaf := func(a *nnf, names ...string) bool {
			if a.kind != nAtom || a.op != token.ILLEGAL {
				return false
			}
			call, ok := a.leaf.(*ast.CallExpr)
			if !ok {
				return false
			}
			fn, ok := call.Fun.(*ast.SelectorExpr)
			if !ok || fn.Sel.Name != "Equal" {
				return false
			}
			for _, n := range names {
				if !mentions(call, n) {
					return false
				}
			}
			// the WHOLE hash: no operand may be indexed or cut (`Hash[:]` is the only slice expression allowed)
			whole := true
			for _, arg := range append([]ast.Expr{fn.X}, call.Args...) {
				ast.Inspect(arg, func(m ast.Node) bool {
					switch s := m.(type) {
					case *ast.SliceExpr:
						if s.Low != nil || s.High != nil || s.Max != nil {
							whole = false
						}
					case *ast.IndexExpr:
						whole = false
					}
					return true
				})
			}
			if !whole {
				die("a hash comparison `%s` cuts or indexes one of its operands: not a comparison of the whole hash", render(call, env))
			}
			return true
		}
		identLeaf := func(a *nnf, name string) bool {
			if a.kind != nAtom || a.op != token.ILLEGAL {
				return false
			}
			id, ok := a.leaf.(*ast.Ident)
			return ok && id.Name == name
		}
		defb := func(name string, v bool, comment string) {
			fmt.Fprintf(&sb, "/-- %s -/\ndef %s : Bool := %v\n", comment, name, v)
			facts++
		}
		// index look-ups `a, b := X.BlockIndex[…BIdx()]` of a function: (statement, entry name, ok name, index expression)
		type lookup struct {
			st        ast.Stmt
			entry, ok string
			index     ast.Expr
		}
		lookups := func(fd *ast.FuncDecl) (out []lookup) {
			in := newInliner(chain, fd)
			ast.Inspect(fd.Body, func(n ast.Node) bool {
				as, isAs := n.(*ast.AssignStmt)
				if !isAs || len(as.Lhs) != 2 || len(as.Rhs) != 1 {
					return true
				}
				ix, isIx := as.Rhs[0].(*ast.IndexExpr)
				if !isIx || !mentions(ix.X, "BlockIndex") {
					return true
				}
				e, ok1 := as.Lhs[0].(*ast.Ident)
				o, ok2 := as.Lhs[1].(*ast.Ident)
				idx := in.expand(ix.Index, 2)
				if ok1 && ok2 && mentions(idx, "BIdx") {
					out = append(out, lookup{as, e.Name, o.Name, idx})
				}
				return true
			})
			return
		}
		preIn := newInliner(chain, pre)
		norm := func(e ast.Expr) *nnf { return toNNF(preIn.expand(e, 2), false, env) }
		// (a) `if prv, pres := ch.BlockIndex[bl.Hash.BIdx()]; pres { [if !prv.BlockHash.Equal(bl.Hash) {…return}] if prv.Parent == nil {…} else {…} }`
		//     (also: the look-up as a statement of its own before `if pres`; the comparison as
		//      `if prv.BlockHash.Equal(bl.Hash) {genesis / duplicate} else {collision}`)
		var own *lookup
		var parentLk *lookup
		for _, l := range lookups(pre) {
			l := l
			if mentions(l.index, "ParentHash") {
				if parentLk != nil {
					die("PreCheckBlock: more than one BlockIndex look-up by the previous-block field")
				}
				parentLk = &l
			} else {
				if own != nil {
					die("PreCheckBlock: more than one BlockIndex look-up by the block's own hash")
				}
				own = &l
			}
		}
		if own == nil {
			die("PreCheckBlock: the `if prv, pres := ch.BlockIndex[...]; pres` test was not found")
		}
		var known *ast.IfStmt
		ast.Inspect(pre.Body, func(n ast.Node) bool {
			if is, ok := n.(*ast.IfStmt); ok && known == nil {
				if a := norm(is.Cond); identLeaf(a, own.ok) && !a.neg {
					known = is
				}
			}
			return known == nil
		})
		if known == nil {
			die("PreCheckBlock: the `if prv, pres := ch.BlockIndex[...]; pres` test was not found")
		}
		if len(known.Body.List) == 0 {
			die("PreCheckBlock: empty known-block test")
		}
		first, ok := known.Body.List[0].(*ast.IfStmt)
		if !ok {
			die("PreCheckBlock: known-block test has unexpected shape")
		}
		anyEqual := false // is the entry's hash compared anywhere inside the known-block test?
		ast.Inspect(known.Body, func(n ast.Node) bool {
			if call, ok := n.(*ast.CallExpr); ok {
				if fn, ok := call.Fun.(*ast.SelectorExpr); ok && fn.Sel.Name == "Equal" && mentions(call, own.entry) {
					anyEqual = true
				}
			}
			return true
		})
		fc := norm(first.Cond)
		elseReturns := func(is *ast.IfStmt) bool {
			eb, ok := is.Else.(*ast.BlockStmt)
			return ok && returns(eb.List)
		}
		switch {
		case equalLeaf(fc, own.entry, "BlockHash", "Hash") && fc.neg:
			// collision guard first, the rest after it
			if !returns(first.Body.List) {
				die("PreCheckBlock: the index-collision guard does not return")
			}
			if len(known.Body.List) < 2 {
				die("PreCheckBlock: known-block test has unexpected shape")
			}
			defb("knownHashCompared", true, "PreCheckBlock: the BlockIndex entry found under the block's own key is compared with the whole block hash")
		case equalLeaf(fc, own.entry, "BlockHash", "Hash") && !fc.neg && len(known.Body.List) == 1:
			// same block: genesis / duplicate, else: collision
			if !elseReturns(first) {
				die("PreCheckBlock: the index-collision guard does not return")
			}
			defb("knownHashCompared", true, "PreCheckBlock: the BlockIndex entry found under the block's own key is compared with the whole block hash")
		case !anyEqual && len(known.Body.List) == 1 && mentions(first.Cond, "Parent"):
			defb("knownHashCompared", false, "PreCheckBlock: the BlockIndex entry found under the block's own key is NOT compared with the whole block hash")
		default:
			die("PreCheckBlock: known-block test has unexpected shape")
		}
		// (b) `prevblk, ok := ch.BlockIndex[…BIdx()]` and `if !ok [|| !bytes.Equal(prevblk.BlockHash.Hash[:], bl.ParentHash())] {… parent not found …}`
		//     (the look-up may be the guard's init statement; the condition may be written `!(ok && bytes.Equal(…))`)
		parentGuard := func(what string, fd *ast.FuncDecl, marker string, lk *lookup) bool {
			if lk == nil {
				die("%s: the parent look-up `prevblk, ok := ch.BlockIndex[…ParentHash()…BIdx()]` was not found", what)
			}
			g := chain.findGuard(fd, marker)
			if g.fd != fd {
				die("%s: the guard %q is not in the function that makes the look-up", what, marker)
			}
			if lk.st.Pos() > g.node.Pos() && lk.st != g.init {
				die("%s: the parent look-up does not precede its guard", what)
			}
			at, ok := g.norm(env).flat(nOr)
			if !ok {
				die("%s: parent-not-found guard has unexpected shape", what)
			}
			switch {
			case len(at) == 1 && identLeaf(at[0], lk.ok) && at[0].neg:
				return false
			case len(at) == 2 && identLeaf(at[0], lk.ok) && at[0].neg && equalLeaf(at[1], lk.entry, "BlockHash", "ParentHash") && at[1].neg:
				return true
			}
			die("%s: parent-not-found guard has unexpected shape", what)
			return false
		}
		if parentGuard("PreCheckBlock", pre, "parent not found", parentLk) {
			defb("parentHashCompared", true, "PreCheckBlock: the parent found in BlockIndex is compared with the whole previous-block field")
		} else {
			defb("parentHashCompared", false, "PreCheckBlock: the parent found in BlockIndex is NOT compared with the whole previous-block field")
		}
		// the same guard in AcceptHeader (panic instead of an error)
		ah := chain.get("Chain", "AcceptHeader")
		var ahLk *lookup
		for _, l := range lookups(ah) {
			l := l
			if mentions(l.index, "ParentHash") && ahLk == nil {
				ahLk = &l
			}
		}
		if parentGuard("AcceptHeader", ah, "This should not happen", ahLk) {
			defb("acceptHeaderParentHashCompared", true, "AcceptHeader: the parent found in BlockIndex is compared with the whole previous-block field")
		} else {
			defb("acceptHeaderParentHashCompared", false, "AcceptHeader: the parent found in BlockIndex is NOT compared with the whole previous-block field")
		}
	}
	// version gating: a disjunction of three `ver < k && bl.Height >= ch.Consensus.BIPxxHeight` (read as a set:
	// the order of the three and of the two tests inside each does not matter)
	{
		n := chain.findGuard(pre, "Rejected Version=").norm(env)
		if n.kind != nOr || len(n.kids) != 3 {
			die("version gating: expected a disjunction of 3 tests")
		}
		bipOf := func(e ast.Expr) (name string) {
			ast.Inspect(e, func(n ast.Node) bool {
				if se, ok := n.(*ast.SelectorExpr); ok && strings.HasPrefix(se.Sel.Name, "BIP") {
					name = se.Sel.Name
				}
				return true
			})
			return
		}
		got := map[string]string{}
		for _, k := range n.kids {
			at, ok := k.flat(nAnd)
			if !ok || len(at) != 2 || at[0].op == token.ILLEGAL || at[1].op == token.ILLEGAL {
				die("version gating: expected `version < k && height >= activation`")
			}
			ver, hgt := at[0], at[1]
			if bipOf(ver.x) != "" || bipOf(ver.y) != "" {
				ver, hgt = hgt, ver
			}
			op, sel := hgt.op, bipOf(hgt.y)
			if sel == "" { // activation height on the left: mirror
				op, sel = mirrorOp[hgt.op], bipOf(hgt.x)
			}
			if sel == "" || bipOf(ver.x) != "" || bipOf(ver.y) != "" {
				die("version gating: expected `version < k && height >= activation`")
			}
			if op != token.GEQ {
				die("version gating: height comparison is %s, expected >=", op)
			}
			c, nc := constAddends(ver.y, env)
			if nc != 0 {
				die("version gating: version bound is not a constant")
			}
			if _, dup := got[sel]; dup {
				die("version gating: %s tested twice", sel)
			}
			got[sel] = want(cmp{ver.op, c}, token.LSS, "version gating")
		}
		for _, sel := range []string{"BIP34Height", "BIP66Height", "BIP65Height"} {
			v, ok := got[sel]
			if !ok {
				die("version gating: no test for %s", sel)
			}
			def("minVersion_"+sel, v, "PreCheckBlock: version < this is refused from "+sel)
		}
	}
	// witness commitment guard: `len(pk) >= 38 && bytes.Equal(pk[:6], []byte{…})`, possibly inside a predicate helper
	{
		var hdr []uint64
		minlen := ""
		for _, g := range chain.allGuards(post) {
			n := g.norm(env)
			var lit *ast.CompositeLit
			var holder *nnf
			for _, a := range n.atoms() {
				if a.op != token.ILLEGAL {
					continue
				}
				ast.Inspect(a.leaf, func(m ast.Node) bool {
					if cl, ok := m.(*ast.CompositeLit); ok {
						lit, holder = cl, a
					}
					return true
				})
			}
			if lit == nil {
				continue
			}
			if hdr != nil {
				die("witness header guard: more than one guard compares with a byte literal")
			}
			for _, el := range lit.Elts {
				v, ok := eval(el, env)
				if !ok {
					die("witness header: non-constant element")
				}
				u, _ := constant.Uint64Val(v)
				hdr = append(hdr, u)
			}
			at, ok := n.flat(nAnd)
			if !ok || len(at) != 2 || holder.neg {
				die("witness header guard: unexpected shape")
			}
			other := at[0]
			if other == holder {
				other = at[1]
			}
			if other.op == token.ILLEGAL {
				die("witness header guard: unexpected shape")
			}
			c, _ := constAddends(other.y, env)
			minlen = want(cmp{other.op, c}, token.GEQ, "witness commitment length")
		}
		if hdr == nil {
			die("witness commitment header literal not found")
		}
		def("witnessCommitMinLen", minlen, "PostCheckBlock: commitment output needs len(pk_script) >= this")
		fmt.Fprintf(&sb, "/-- PostCheckBlock: commitment header bytes -/\ndef witnessHeader : List UInt8 := %s\n", vtrans.LeanList(hdr, "UInt8", 16))
		facts++
		// nonce size: `len(S) != 1 || len(S[0]) != 1 || len(S[0][0]) != 32` — a disjunction of three inequalities, told
		// apart by the indexing depth of what is measured
		at, ok := chain.findGuard(post, "bad-witness-nonce-size").norm(env).flat(nOr)
		if !ok || len(at) != 3 {
			die("nonce-size guard: expected a disjunction of 3 comparisons")
		}
		depthOf := func(e ast.Expr) (d int) {
			ast.Inspect(e, func(n ast.Node) bool {
				if _, ok := n.(*ast.IndexExpr); ok {
					d++
				}
				return true
			})
			return
		}
		for i, a := range at {
			if a.op != token.NEQ {
				die("nonce-size guard: comparison %d is %s, expected !=", i, a.op)
			}
		}
		sort.SliceStable(at, func(i, j int) bool { return depthOf(at[i].x) < depthOf(at[j].x) })
		if !(depthOf(at[0].x) < depthOf(at[1].x) && depthOf(at[1].x) < depthOf(at[2].x)) {
			die("nonce-size guard: the three lengths are not of a slice, its element and that element's element")
		}
		nonce := func(a *nnf) string {
			c, nc := constAddends(a.y, env)
			if nc != 0 {
				die("nonce-size guard: non-constant bound")
			}
			return toNat(c, "nonce")
		}
		def("witnessNonceStacks", nonce(at[0]), "coinbase must have exactly this many witness stacks")
		def("witnessNonceItems", nonce(at[1]), "…with this many items")
		def("witnessNonceLen", nonce(at[2]), "…of this length")
	}

	// ---- tx.go: coinbase script length, oversize
	ct := btcPkg.get("Tx", "CheckTransaction")
	{
		// `len(script) < 2 || len(script) > 100`: a disjunction of a lower and an upper bound, in either order
		at, ok := btcPkg.findGuard(ct, "bad-cb-length").norm(env).flat(nOr)
		if !ok || len(at) != 2 || at[0].op == token.ILLEGAL || at[1].op == token.ILLEGAL {
			die("bad-cb-length: expected 2 comparisons")
		}
		lo, hi := at[0], at[1]
		if lo.op == token.GTR || lo.op == token.GEQ {
			lo, hi = hi, lo
		}
		cl, _ := constAddends(lo.y, env)
		ch, _ := constAddends(hi.y, env)
		def("cbScriptMin", want(cmp{lo.op, cl}, token.LSS, "bad-cb-length"), "CheckTransaction: coinbase script shorter than this is refused")
		def("cbScriptMax", want(cmp{hi.op, ch}, token.GTR, "bad-cb-length"), "CheckTransaction: coinbase script longer than this is refused")
		cs := comparisons(btcPkg.findGuard(ct, "bad-txns-oversize").norm(env), env)
		if len(cs) != 1 {
			die("bad-txns-oversize: unexpected shape")
		}
		def("txMaxWeight", want(cs[0], token.GTR, "bad-txns-oversize"), "CheckTransaction: NoWitSize*4 > this is refused")
	}

	// ---- chain.go: consensus parameters of the three networks (assignments in NewChainExt)
	nce := chain.get("", "NewChainExt")
	nets := map[string]map[string]string{"mainnet": {}, "testnet3": {}, "testnet4": {}}
	var maxPowValue string
	var walk func(stmts []ast.Stmt, ctx string)
	assign := func(ctx, field, val string) {
		switch ctx {
		case "all":
			for _, m := range nets {
				m[field] = val
			}
		case "testnet":
			nets["testnet3"][field] = val
			nets["testnet4"][field] = val
		default:
			nets[ctx][field] = val
		}
	}
	walk = func(stmts []ast.Stmt, ctx string) {
		for _, st := range stmts {
			switch s := st.(type) {
			case *ast.AssignStmt:
				if len(s.Lhs) < 1 {
					continue
				}
				se, ok := s.Lhs[0].(*ast.SelectorExpr)
				if !ok {
					continue
				}
				in, ok := se.X.(*ast.SelectorExpr)
				if !ok || in.Sel.Name != "Consensus" {
					continue
				}
				if se.Sel.Name == "MaxPOWValue" {
					ast.Inspect(s.Rhs[0], func(n ast.Node) bool {
						if bl, ok := n.(*ast.BasicLit); ok && bl.Kind == token.STRING {
							str, _ := strconv.Unquote(bl.Value)
							v := constant.MakeFromLiteral("0x"+str, token.INT, 0)
							if v.Kind() == constant.Unknown {
								die("MaxPOWValue literal not hexadecimal")
							}
							maxPowValue = v.ExactString()
						}
						return true
					})
					continue
				}
				v, ok := eval(s.Rhs[0], env)
				if !ok {
					die("NewChainExt: non-constant consensus value for %s", se.Sel.Name)
				}
				assign(ctx, se.Sel.Name, toNat(v, se.Sel.Name))
			case *ast.IfStmt:
				call, ok := s.Cond.(*ast.CallExpr)
				if !ok {
					continue
				}
				fn, ok := call.Fun.(*ast.SelectorExpr)
				if !ok {
					continue
				}
				switch fn.Sel.Name {
				case "testnet":
					if ctx != "all" {
						die("NewChainExt: nested testnet() test")
					}
					walk(s.Body.List, "testnet")
					if eb, ok := s.Else.(*ast.BlockStmt); ok {
						walk(eb.List, "mainnet")
					}
				case "testnet4":
					if ctx != "testnet" {
						die("NewChainExt: testnet4() test outside testnet()")
					}
					walk(s.Body.List, "testnet4")
					if eb, ok := s.Else.(*ast.BlockStmt); ok {
						walk(eb.List, "testnet3")
					}
				}
			}
		}
	}
	walk(nce.Body.List, "all")
	if maxPowValue == "" {
		die("MaxPOWValue not found")
	}
	def("MaxPOWValue", maxPowValue, "NewChainExt: Consensus.MaxPOWValue")
	fields := []string{"MaxPOWBits", "BIP34Height", "BIP65Height", "BIP66Height", "Enforce_CSV", "Enforce_SEGWIT", "Enforce_Taproot"}
	netNames := []string{"mainnet", "testnet3", "testnet4"}
	sort.Strings(netNames)
	for _, nn := range netNames {
		for _, f := range fields {
			v, ok := nets[nn][f]
			if !ok {
				die("NewChainExt: %s has no value for %s", nn, f)
			}
			def(nn+"_"+f, v, "NewChainExt: Consensus."+f+" on "+nn)
		}
	}

	// ---- structural facts about the retarget code that the model relies on
	gn := chain.get("Chain", "GetNextWorkRequired")
	{
		// the two clamps: `if T < POWRetargetSpam/4 { T = POWRetargetSpam/4 }` and `if T > POWRetargetSpam*4 { T = POWRetargetSpam*4 }`
		// for one and the same local T (whatever it is called), each the only clamp of its direction in the function
		var lo, hi, clamped string
		ast.Inspect(gn.Body, func(n ast.Node) bool {
			is, ok := n.(*ast.IfStmt)
			if !ok || len(is.Body.List) != 1 {
				return true
			}
			a := toNNF(is.Cond, false, env)
			if a.kind != nAtom || a.op == token.ILLEGAL {
				return true
			}
			id, ok := unparen(a.x).(*ast.Ident)
			if !ok {
				return true
			}
			as, ok := is.Body.List[0].(*ast.AssignStmt)
			if !ok || as.Tok != token.ASSIGN || len(as.Lhs) != 1 || len(as.Rhs) != 1 {
				return true
			}
			if l, ok := as.Lhs[0].(*ast.Ident); !ok || l.Name != id.Name {
				return true
			}
			c, ok1 := eval(a.y, env)
			v, ok2 := eval(as.Rhs[0], env)
			if !ok1 || !ok2 {
				return true // not a clamp to a constant
			}
			if clamped != "" && clamped != id.Name {
				die("retarget clamp: two different variables are clamped")
			}
			clamped = id.Name
			// x < c / x <= c-1 with x = v is a lower clamp to v when c == v; x > c / x >= c+1 an upper clamp
			switch a.op {
			case token.LSS, token.LEQ:
				k := canon(cmp{a.op, c}, token.LSS)
				if !constant.Compare(constant.ToInt(k.cst), token.EQL, constant.ToInt(v)) || lo != "" {
					die("retarget clamp: guard constant and assigned constant differ")
				}
				lo = toNat(v, "clamp lo")
			case token.GTR, token.GEQ:
				k := canon(cmp{a.op, c}, token.GTR)
				if !constant.Compare(constant.ToInt(k.cst), token.EQL, constant.ToInt(v)) || hi != "" {
					die("retarget clamp: guard constant and assigned constant differ")
				}
				hi = toNat(v, "clamp hi")
			default:
				die("retarget clamp: unexpected operator %s", a.op)
			}
			return true
		})
		if lo == "" || hi == "" {
			die("retarget clamps not found")
		}
		def("retargetMinTimespan", lo, "GetNextWorkRequired: lower clamp of actualTimespan")
		def("retargetMaxTimespan", hi, "GetNextWorkRequired: upper clamp of actualTimespan")
		// testnet min-difficulty rule: <second parameter> > lst.Timestamp()+TargetSpacing*2
		tsName := ""
		{
			var ps []string
			for _, f := range gn.Type.Params.List {
				for _, n := range f.Names {
					ps = append(ps, n.Name)
				}
			}
			if len(ps) != 2 {
				die("GetNextWorkRequired: expected two named parameters")
			}
			tsName = ps[1]
		}
		found := false
		for _, g := range chain.allGuards(gn) {
			if g.fd != gn {
				continue
			}
			a := g.norm(env)
			if a.kind != nAtom || a.op == token.ILLEGAL {
				continue
			}
			x, y, op := a.x, a.y, a.op
			if id, ok := unparen(y).(*ast.Ident); ok && id.Name == tsName { // parameter on the right: mirror
				x, y, op = y, x, mirrorOp[op]
			}
			if id, ok := unparen(x).(*ast.Ident); !ok || id.Name != tsName {
				continue
			}
			c, nc := constAddends(y, env)
			if nc != 1 {
				continue
			}
			if found {
				die("testnet min-difficulty guard: more than one candidate")
			}
			def("testnetMinDiffGap", want(cmp{op, c}, token.GTR, "testnet gap"), "GetNextWorkRequired (testnet): ts > prev time + this allows MaxPOWBits")
			facts-- // `want` and `def` both count; this is one fact (as before)
			found = true
		}
		if !found {
			die("testnet min-difficulty guard not found")
		}
	}

	// ---- canonical shapes (shape.go) of every guard of PreCheckBlock / PostCheckBlock that has a marker, of the rules of
	// GetBlockFlags, of the commitment search loop, of the retarget timespan and of the base weight
	{
		type sh struct{ name, val string }
		var shapes []sh
		add := func(name, val string) { shapes = append(shapes, sh{name, val}); facts++ }
		for _, m := range []struct {
			fd           *ast.FuncDecl
			name, marker string
		}{
			{pre, "pre/bad-blk-length", "bad-blk-length"}, {pre, "pre/bad-version", "Block version 0"}, {pre, "pre/high-hash", "high-hash"},
			{pre, "pre/time-too-new", "time-too-new"}, {pre, "pre/index-collision", "collides with"}, {pre, "pre/genesis", "Genesis"},
			{pre, "pre/bad-prevblk", "parent not found"},
			{pre, "pre/too-deep", "hooks too deep"}, {pre, "pre/bad-diffbits", "bad-diffbits"}, {pre, "pre/time-too-old", "time-too-old"},
			{pre, "pre/version-gate", "Rejected Version="},
			{post, "post/bad-blk-length", "bad-blk-length"}, {post, "post/bad-blk-weight", "bad-blk-weight"}, {post, "post/bad-cb-missing", "bad-cb-missing"},
			{post, "post/bad-cb-height", "bad-cb-height"}, {post, "post/bad-cb-multiple", "bad-cb-multiple"}, {post, "post/bad-txns-duplicate", "bad-txns-duplicate"},
			{post, "post/bad-txnmrklroot", "bad-txnmrklroot"}, {post, "post/bad-witness-nonce-size", "bad-witness-nonce-size"},
			{post, "post/bad-witness-merkle-match", "bad-witness-merkle-match"},
		} {
			add(m.name, chain.guardShape(chain.findGuard(m.fd, m.marker), env))
		}
		// where MedianPastTime / Height come from: the assignments to the block object's fields in PreCheckBlock
		preIn := newInliner(chain, pre)
		// (emitted in the order of the field names, not of the statements: the two stores go to different fields and
		// neither right-hand side reads the object they are stored into — checked below — so their order is not a fact)
		var preAssigns []sh
		preDependent := false
		ast.Inspect(pre.Body, func(n ast.Node) bool {
			if as, ok := n.(*ast.AssignStmt); ok && len(as.Lhs) == 1 && len(as.Rhs) == 1 {
				if se, ok := as.Lhs[0].(*ast.SelectorExpr); ok && (se.Sel.Name == "MedianPastTime" || se.Sel.Name == "Height") {
					rhs := preIn.expand(as.Rhs[0], 2)
					other := map[string]string{"MedianPastTime": "Height", "Height": "MedianPastTime"}[se.Sel.Name]
					if id, ok := se.X.(*ast.Ident); !ok || mentionsSel(rhs, id.Name, other) || hasCallOn(rhs, id.Name) {
						preDependent = true // the store reads the object it writes: the order of the two stores is kept as a fact
					}
					preAssigns = append(preAssigns, sh{"pre/assign-" + se.Sel.Name, render(se, env) + " " + as.Tok.String() + " " + render(rhs, env)})
				}
			}
			return true
		})
		if !preDependent {
			sort.SliceStable(preAssigns, func(i, j int) bool { return preAssigns[i].name < preAssigns[j].name })
		}
		for _, a := range preAssigns {
			add(a.name, a.val)
		}
		// the commitment search: direction and bounds of the loop around the commitment guard
		for _, g := range chain.allGuards(post) {
			if g.fd == post && mentions(g.in.expand(g.cond, 2), "Pk_script") && hasLit(g.in.expand(g.cond, 2)) {
				fs := enclosingFor(post, g.node)
				if fs == nil {
					die("commitment search: the commitment guard is not inside a `for` statement of PostCheckBlock")
				}
				cond := ""
				if fs.Cond != nil {
					cond = shapeNNF(toNNF(fs.Cond, false, env), env)
				}
				add("post/commitment-search", "for "+renderSimpleStmt(fs.Init, env)+"; "+cond+"; "+renderSimpleStmt(fs.Post, env))
			}
		}
		// the lock-time cut-off handed to CheckTransactions: `if VerifyFlags & VER_CSV != 0 { t = MedianPastTime } else { t = BlockTime() }`
		ast.Inspect(post.Body, func(n ast.Node) bool {
			if is, ok := n.(*ast.IfStmt); ok && mentions(is.Cond, "VER_CSV") && len(is.Body.List) == 1 {
				// `if c {A} else {B}` and `if !c {B} else {A}` are one shape: of the condition and its negation (both in
				// negation normal form) the one whose text sorts first is written, with the branch it selects first
				c, nc := shapeNNF(toNNF(is.Cond, false, env), env), shapeNNF(toNNF(is.Cond, true, env), env)
				thenS, elseS := renderSimpleStmt(is.Body.List[0], env), ""
				eb, hasElse := is.Else.(*ast.BlockStmt)
				if hasElse && len(eb.List) == 1 {
					elseS = renderSimpleStmt(eb.List[0], env)
					if nc < c {
						c, thenS, elseS = nc, elseS, thenS
					}
				}
				s := "if " + c + " { " + thenS + " }"
				if elseS != "" {
					s += " else { " + elseS + " }"
				}
				add("post/locktime-cutoff", s)
			}
			return true
		})
		// GetBlockFlags: each rule `if <cond> { flags (=||=) <bits> }`
		gbf := chain.get("Chain", "GetBlockFlags")
		gin := newInliner(chain, gbf)
		renderNames = map[string]string{}
		np := 0
		for _, f := range gbf.Type.Params.List {
			for _, n := range f.Names {
				np++
				renderNames[n.Name] = fmt.Sprintf("$%d", np) // (block_height, block_time) by position
			}
		}
		// Rules are numbered in source order, EXCEPT that a run of adjacent rules of the form `if c { v |= K }` — same
		// plain variable v, K constant, c (helpers expanded) not reading v — is written in the order of the rule texts:
		// OR-ing constants into v commutes and no condition of the run can see the difference, so the order inside such
		// a run is not a fact. A rule that assigns (`v = K`), has another destination, a non-constant right-hand side or
		// a condition that reads v ends the run and keeps its position.
		nrule := 0
		var run []string
		flush := func() {
			sort.Strings(run)
			for _, r := range run {
				nrule++
				add(fmt.Sprintf("flags/rule-%d", nrule), r)
			}
			run = nil
		}
		runVar := ""
		for i, st := range gbf.Body.List {
			is, ok := st.(*ast.IfStmt)
			if !ok {
				if _, isRet := st.(*ast.ReturnStmt); !isRet {
					flush() // any other statement between two rules separates them
				}
				continue
			}
			if len(is.Body.List) != 1 || is.Else != nil || is.Init != nil {
				die("GetBlockFlags: rule %d is not `if cond { one assignment }`", i)
			}
			cond := gin.expand(is.Cond, 2)
			text := shapeNNF(toNNF(cond, false, env), env) + " => " + renderSimpleStmt(is.Body.List[0], env)
			commutes := false
			if as, ok := is.Body.List[0].(*ast.AssignStmt); ok && as.Tok == token.OR_ASSIGN && len(as.Lhs) == 1 && len(as.Rhs) == 1 {
				if v, ok := as.Lhs[0].(*ast.Ident); ok {
					if _, isConst := eval(as.Rhs[0], env); isConst && !mentions(cond, v.Name) && !hasCall(cond) {
						commutes = true
						if runVar != v.Name {
							flush()
							runVar = v.Name
						}
					}
				}
			}
			if !commutes {
				flush()
				runVar = ""
				nrule++
				add(fmt.Sprintf("flags/rule-%d", nrule), text)
				continue
			}
			run = append(run, text)
		}
		flush()
		renderNames = nil
		if abf := chain.funcs["Chain.ApplyBlockFlags"]; abf != nil && len(abf.Body.List) == 1 {
			add("flags/apply", renderSimpleStmt(abf.Body.List[0], env))
		} else {
			die("ApplyBlockFlags: expected the single statement `bl.VerifyFlags = ch.GetBlockFlags(bl.Height, bl.BlockTime())`")
		}
		// retarget: the timespan expression (the definition of the clamped local) and the number of parent steps
		ast.Inspect(gn.Body, func(n ast.Node) bool {
			if as, ok := n.(*ast.AssignStmt); ok && as.Tok == token.DEFINE && len(as.Lhs) == 1 && len(as.Rhs) == 1 && mentions(as.Rhs[0], "Timestamp") {
				if _, isBin := unparen(as.Rhs[0]).(*ast.BinaryExpr); isBin {
					add("gnwr/timespan", render(as.Rhs[0], env))
				}
			}
			return true
		})
		steps := int64(-1)
		ast.Inspect(gn.Body, func(n ast.Node) bool {
			if fs, ok := n.(*ast.ForStmt); ok && fs.Init != nil && len(fs.Body.List) == 1 {
				if as, ok := fs.Body.List[0].(*ast.AssignStmt); ok && len(as.Lhs) == 1 && len(as.Rhs) == 1 {
					if se, ok := as.Rhs[0].(*ast.SelectorExpr); ok && se.Sel.Name == "Parent" && render(as.Lhs[0], env) == render(se.X, env) {
						k, ok := tripCount(fs, env)
						if !ok || steps >= 0 {
							die("GetNextWorkRequired: the counted loop `for …  { prv = prv.Parent }` has a shape whose trip count cannot be read")
						}
						steps = k
					}
				}
			}
			return true
		})
		if steps < 0 {
			die("GetNextWorkRequired: the counted loop over the parents was not found")
		}
		def("retargetParentSteps", fmt.Sprint(steps), "GetNextWorkRequired: number of `prv = prv.Parent` steps back to the first block of the period")
		// base weight: every expression of BuildTxListExt that measures the counter (VLenSize)
		btl := btcPkg.get("Block", "BuildTxListExt")
		// (read through unexported single-return helpers, two levels, and through widening integer conversions — see
		// inliner.arith in shape.go: `uint(blockBaseWeight(bl.TxCount))` is the same fact as the expression written out)
		nbw := 0
		btlIn := &inliner{btcPkg, nil}
		ast.Inspect(btl.Body, func(n ast.Node) bool {
			if as, ok := n.(*ast.AssignStmt); ok && len(as.Rhs) == 1 {
				if rhs := btlIn.arith(as.Rhs[0], 2); mentions(rhs, "VLenSize") {
					nbw++
					add(fmt.Sprintf("build/base-weight-%d", nbw), render(rhs, env))
				}
			}
			return true
		})
		if nbw == 0 {
			die("BuildTxListExt: no assignment measures the transaction counter with VLenSize (base weight)")
		}
		// the client's hand reset of a Block object after a corrupt copy (client/network/data.go, cblk.go): the harness's
		// retry paths (go/cmd/c05/entrypaths.go) re-implement these statements — they are re-read here so that a change to
		// the client's reset is no longer invisible (audit 2, 3d)
		for _, rel := range []string{"client/network/data.go", "client/network/cblk.go"} {
			f := parse(rel)
			k := 0
			ast.Inspect(f.AST, func(n ast.Node) bool {
				blk, ok := n.(*ast.BlockStmt)
				if !ok {
					return true
				}
				isReset := false
				var sts []string
				for _, st := range blk.List {
					switch x := st.(type) {
					case *ast.AssignStmt:
						if len(x.Lhs) == 1 && len(x.Rhs) == 1 && mentions(x.Lhs[0], "Txs") && render(x.Rhs[0], env) == "nil" {
							isReset = true
						}
						sts = append(sts, renderSimpleStmt(x, env))
					case *ast.ExprStmt:
						if call, ok := x.X.(*ast.CallExpr); ok && mentions(call.Fun, "UpdateContent") {
							sts = append(sts, renderSimpleStmt(x, env))
						}
					}
				}
				if isReset {
					k++
					sort.Strings(sts)
					add(fmt.Sprintf("client-reset/%s#%d", rel[len("client/network/"):], k), strings.Join(sts, "; "))
				}
				return true
			})
			if k == 0 {
				die("%s: the hand reset of the Block object after a corrupt copy (`… .Txs = nil`) was not found", rel)
			}
		}
		sb.WriteString("/-- canonical shapes of the guards (go/cmd/gen_c05/shape.go); pinned by Props.C05.guard_shapes -/\ndef guardShapes : List (String × String) := [\n")
		for i, s := range shapes {
			sep := ","
			if i == len(shapes)-1 {
				sep = ""
			}
			fmt.Fprintf(&sb, "  (%s, %s)%s\n", leanStr(s.name), leanStr(s.val), sep)
		}
		sb.WriteString("]\n")
	}

	// ---- Block.BuildTxListExt: is the object's transaction counter read only after the `TxCount == 0` fallback?
	fmt.Fprintf(&sb, "/-- %s -/\ndef %s : Bool := %v\n", "BuildTxListExt: no statement before the `if bl.TxCount == 0 { … vlenWire … }` fallback reads bl.TxCount / bl.TxOffset (base weight, len(Txs), first offset are computed from the counter as parsed)",
		"buildTxListReadsCountAfterFallback", buildTxListCountOrder(btcPkg))
	facts++

	sb.WriteString("\nend GocoinV.Gen.ConsensusConsts\n")
	out := vlib.Root() + "/lean/GocoinV/Gen/ConsensusConsts.lean"
	if o := os.Getenv("GEN_C05_OUT"); o != "" { // self-tests of the generator: write somewhere else
		out = o
	}
	old, _ := os.ReadFile(out)
	if string(old) != sb.String() { // keep the mtime when nothing changed (no Lean rebuild)
		os.Remove(out)
		if err := os.WriteFile(out, []byte(sb.String()), 0644); err != nil {
			die("%v", err)
		}
	}
	fmt.Printf("FACTS %d\n", facts)
}
