// gen_c05 regenerates lean/GocoinV/Gen/ConsensusConsts.lean from /repo's current source
// (translator tie for C05). Everything is read from the AST; constant expressions are folded with
// go/constant. Guards are located by the RPC_Result marker string inside their body, so renaming a
// variable does not break the tie, while changing a limit, an operator or an activation height changes
// the generated definitions (limit / height) or stops the generator (operator: broken tie).
package main

import (
	"fmt"
	"go/ast"
	"go/constant"
	"go/token"
	"os"
	"sort"
	"strconv"
	"strings"

	"verif/vlib"
	"verif/vtrans"
)

var facts int

func die(format string, a ...interface{}) {
	fmt.Fprintln(os.Stderr, "TRANSLATE-ERROR:", fmt.Sprintf(format, a...))
	os.Exit(2)
}

type consts map[string]constant.Value

// eval folds a constant expression; idents are looked up in env. ok=false if not constant.
func eval(e ast.Expr, env consts) (constant.Value, bool) {
	switch x := e.(type) {
	case *ast.BasicLit:
		v := constant.MakeFromLiteral(x.Value, x.Kind, 0)
		return v, v.Kind() != constant.Unknown
	case *ast.ParenExpr:
		return eval(x.X, env)
	case *ast.Ident:
		v, ok := env[x.Name]
		return v, ok
	case *ast.SelectorExpr: // pkg.CONST
		v, ok := env[x.Sel.Name]
		if _, isId := x.X.(*ast.Ident); !isId {
			return nil, false
		}
		return v, ok
	case *ast.UnaryExpr:
		v, ok := eval(x.X, env)
		if !ok {
			return nil, false
		}
		return constant.UnaryOp(x.Op, v, 0), true
	case *ast.BinaryExpr:
		a, ok1 := eval(x.X, env)
		b, ok2 := eval(x.Y, env)
		if !ok1 || !ok2 {
			return nil, false
		}
		switch x.Op {
		case token.SHL, token.SHR:
			n, ok := constant.Uint64Val(constant.ToInt(b))
			if !ok {
				return nil, false
			}
			return constant.Shift(constant.ToInt(a), x.Op, uint(n)), true
		case token.QUO:
			if constant.ToInt(a).Kind() == constant.Int && constant.ToInt(b).Kind() == constant.Int {
				return constant.BinaryOp(constant.ToInt(a), token.QUO_ASSIGN, constant.ToInt(b)), true // integer division
			}
			return constant.BinaryOp(a, token.QUO, b), true
		case token.ADD, token.SUB, token.MUL, token.AND, token.OR, token.XOR, token.REM:
			return constant.BinaryOp(a, x.Op, b), true
		}
	}
	return nil, false
}

func toNat(v constant.Value, what string) string {
	i := constant.ToInt(v)
	if i.Kind() != constant.Int || constant.Sign(i) < 0 {
		die("%s: not a non-negative integer constant (%v)", what, v)
	}
	return i.ExactString()
}

// fileConsts collects all top-level integer constants of a file (in declaration order, with iota-free decls).
func fileConsts(f *vtrans.File, env consts) {
	for _, d := range f.AST.Decls {
		gd, ok := d.(*ast.GenDecl)
		if !ok || gd.Tok != token.CONST {
			continue
		}
		for _, s := range gd.Specs {
			vs := s.(*ast.ValueSpec)
			for i, n := range vs.Names {
				if i < len(vs.Values) {
					if v, ok := eval(vs.Values[i], env); ok {
						env[n.Name] = v
					}
				}
			}
		}
	}
}

// findIf returns the if-statement of fd whose body (not nested else) contains a string literal with marker.
func findIf(fd *ast.FuncDecl, marker string) *ast.IfStmt {
	var res *ast.IfStmt
	ast.Inspect(fd.Body, func(n ast.Node) bool {
		is, ok := n.(*ast.IfStmt)
		if !ok {
			return true
		}
		found := false
		ast.Inspect(is.Body, func(m ast.Node) bool {
			if _, nested := m.(*ast.IfStmt); nested {
				return false // a nested guard owns its own markers
			}
			if bl, ok := m.(*ast.BasicLit); ok && bl.Kind == token.STRING && strings.Contains(bl.Value, marker) {
				found = true
			}
			return true
		})
		if found && res == nil {
			res = is
		}
		return true
	})
	if res == nil {
		die("%s: no guard carrying the marker %q", fd.Name.Name, marker)
	}
	return res
}

// cmp describes `<non-constant> OP <constant-part>`; constant addends on the non-constant side are folded
// into cst (x OP y + c).
type cmp struct {
	op  token.Token
	cst constant.Value
}

// constAddends sums the constant leaves of a +-tree and reports whether non-constant leaves exist.
func constAddends(e ast.Expr, env consts) (sum constant.Value, nonconst int) {
	sum = constant.MakeInt64(0)
	var walk func(e ast.Expr)
	walk = func(e ast.Expr) {
		if v, ok := eval(e, env); ok {
			sum = constant.BinaryOp(sum, token.ADD, v)
			return
		}
		switch x := e.(type) {
		case *ast.ParenExpr:
			walk(x.X)
			return
		case *ast.BinaryExpr:
			if x.Op == token.ADD {
				walk(x.X)
				walk(x.Y)
				return
			}
		}
		nonconst++
	}
	walk(e)
	return
}

// comparisons lists the comparisons in a condition, left to right.
func comparisons(cond ast.Expr, env consts) (out []cmp) {
	ast.Inspect(cond, func(n ast.Node) bool {
		be, ok := n.(*ast.BinaryExpr)
		if !ok {
			return true
		}
		switch be.Op {
		case token.LSS, token.GTR, token.LEQ, token.GEQ, token.EQL, token.NEQ:
			c, _ := constAddends(be.Y, env)
			out = append(out, cmp{be.Op, c})
			return false
		}
		return true
	})
	return
}

func want(c cmp, op token.Token, what string) string {
	if c.op != op {
		die("%s: comparison operator is %s, the model was written for %s", what, c.op, op)
	}
	facts++
	return toNat(c.cst, what)
}

func main() {
	var sb strings.Builder
	sb.WriteString("/- GENERATED by go/cmd/gen_c05 from lib/btc/const.go, lib/chain/{const,chain,chain_diff,block_check}.go,\n   lib/btc/tx.go, lib/script/script.go — do not edit; not in git. -/\nnamespace GocoinV.Gen.ConsensusConsts\n\n")
	def := func(name, val, comment string) {
		fmt.Fprintf(&sb, "/-- %s -/\ndef %s : Nat := %s\n", comment, name, val)
		facts++
	}

	parse := func(p string) *vtrans.File {
		f, err := vtrans.Parse(p)
		if err != nil {
			die("%v", err)
		}
		return f
	}
	env := consts{}
	btcConst := parse("lib/btc/const.go")
	fileConsts(btcConst, env)
	chConst := parse("lib/chain/const.go")
	fileConsts(chConst, env)
	diff := parse("lib/chain/chain_diff.go")
	fileConsts(diff, env)
	scr := parse("lib/script/script.go")
	fileConsts(scr, env)
	opc := parse("lib/btc/opcodes.go")
	fileConsts(opc, env)

	for _, n := range []string{"MAX_BLOCK_WEIGHT", "MAX_MONEY", "LOCKTIME_THRESHOLD", "MedianTimeSpan", "MovingCheckopintDepth", "BIP16SwitchTime",
		"POWRetargetSpam", "TargetSpacing", "targetInterval",
		"VER_P2SH", "VER_DERSIG", "VER_NULLDUMMY", "VER_CLTV", "VER_CSV", "VER_WITNESS", "VER_TAPROOT", "OP_0", "OP_1"} {
		v, ok := env[n]
		if !ok {
			die("constant %s not found", n)
		}
		def(n, toNat(v, n), "Go constant "+n)
	}

	// ---- block_check.go guards
	bc := parse("lib/chain/block_check.go")
	pre, err := bc.Func("Chain", "PreCheckBlock")
	if err != nil {
		die("%v", err)
	}
	post, err := bc.Func("Chain", "PostCheckBlock")
	if err != nil {
		die("%v", err)
	}
	one := func(fd *ast.FuncDecl, marker string, idx int, op token.Token, name, comment string) {
		cs := comparisons(findIf(fd, marker).Cond, env)
		if idx >= len(cs) {
			die("%s/%s: guard has %d comparisons, expected more than %d", fd.Name.Name, marker, len(cs), idx)
		}
		def(name, want(cs[idx], op, fd.Name.Name+"/"+marker), comment)
	}
	one(pre, "bad-blk-length", 0, token.LSS, "preMinRawLen", "PreCheckBlock: len(bl.Raw) < this is refused")
	one(post, "bad-blk-length", 0, token.LSS, "postMinRawLen", "PostCheckBlock: len(bl.Raw) < this is refused")
	one(pre, "time-too-new", 0, token.GTR, "maxFutureBlockTime", "PreCheckBlock: block time > now + this is refused")
	// dos assignment inside the time-too-new guard:  dos = int64(bl.BlockTime()) > time.Now().Unix()+A+B
	{
		is := findIf(pre, "time-too-new")
		found := false
		for _, st := range is.Body.List {
			as, ok := st.(*ast.AssignStmt)
			if !ok || len(as.Lhs) != 1 {
				continue
			}
			if id, ok := as.Lhs[0].(*ast.Ident); ok && id.Name == "dos" {
				cs := comparisons(as.Rhs[0], env)
				if len(cs) != 1 {
					die("time-too-new: dos expression has unexpected shape")
				}
				def("futureDosLimit", want(cs[0], token.GTR, "time-too-new dos"), "PreCheckBlock: time-too-new is a DoS when block time > now + this")
				found = true
			}
		}
		if !found {
			die("time-too-new: dos assignment not found")
		}
	}
	one(pre, "bad-version", 0, token.EQL, "forbiddenVersion", "PreCheckBlock: version == this is refused outright")
	one(post, "bad-blk-weight", 0, token.GTR, "postMaxWeight", "PostCheckBlock: BlockWeight > this is refused")
	// fork depth guard: `prevblk != lst_now && int(lst_now.Height)-int(bl.Height) >= MovingCheckopintDepth`
	{
		cs := comparisons(findIf(pre, "hooks too deep").Cond, env)
		if len(cs) != 2 || cs[0].op != token.NEQ {
			die("fork-depth guard has unexpected shape")
		}
		def("forkDepthLimit", want(cs[1], token.GEQ, "fork depth"), "PreCheckBlock: side branch refused when lastHeight - height >= this")
	}
	// BlockIndex look-ups of PreCheckBlock: the map is keyed by BIdx (first 8 bytes of a hash). Structural facts:
	// is the entry found compared with the WHOLE hash (a) of the block itself, (b) of the previous-block field?
	// `true`/`false` is emitted (the model follows the source, the theorems need `true`); any other shape stops.
	{
		mentions := func(e ast.Node, name string) (yes bool) {
			ast.Inspect(e, func(n ast.Node) bool {
				switch x := n.(type) {
				case *ast.SelectorExpr:
					if x.Sel.Name == name {
						yes = true
					}
				case *ast.Ident:
					if x.Name == name {
						yes = true
					}
				}
				return true
			})
			return
		}
		// a negated call `!X.Equal(...)` / `!bytes.Equal(...)` that mentions every name of `names`
		negEqual := func(e ast.Expr, names ...string) bool {
			u, ok := e.(*ast.UnaryExpr)
			if !ok || u.Op != token.NOT {
				return false
			}
			call, ok := u.X.(*ast.CallExpr)
			if !ok {
				return false
			}
			fn, ok := call.Fun.(*ast.SelectorExpr)
			if !ok || fn.Sel.Name != "Equal" {
				return false
			}
			for _, n := range names {
				if !mentions(call, n) {
					return false
				}
			}
			return true
		}
		defb := func(name string, v bool, comment string) {
			fmt.Fprintf(&sb, "/-- %s -/\ndef %s : Bool := %v\n", comment, name, v)
			facts++
		}
		// (a) `if prv, pres := ch.BlockIndex[bl.Hash.BIdx()]; pres { [if !prv.BlockHash.Equal(bl.Hash) {…return}] if prv.Parent == nil {…} else {…} }`
		var known *ast.IfStmt
		for _, st := range pre.Body.List {
			is, ok := st.(*ast.IfStmt)
			if !ok || is.Init == nil {
				continue
			}
			as, ok := is.Init.(*ast.AssignStmt)
			if !ok || len(as.Lhs) != 2 || len(as.Rhs) != 1 {
				continue
			}
			if ix, ok := as.Rhs[0].(*ast.IndexExpr); ok && mentions(ix.X, "BlockIndex") && mentions(ix.Index, "BIdx") {
				known = is
			}
		}
		if known == nil {
			die("PreCheckBlock: the `if prv, pres := ch.BlockIndex[...]; pres` test was not found")
		}
		entry := known.Init.(*ast.AssignStmt).Lhs[0].(*ast.Ident).Name
		if len(known.Body.List) == 0 {
			die("PreCheckBlock: empty known-block test")
		}
		first, ok := known.Body.List[0].(*ast.IfStmt)
		if !ok {
			die("PreCheckBlock: known-block test has unexpected shape")
		}
		switch {
		case negEqual(first.Cond, entry, "BlockHash", "Hash") && len(known.Body.List) == 2:
			ret := false
			for _, st := range first.Body.List {
				if _, ok := st.(*ast.ReturnStmt); ok {
					ret = true
				}
			}
			if !ret {
				die("PreCheckBlock: the index-collision guard does not return")
			}
			defb("knownHashCompared", true, "PreCheckBlock: the BlockIndex entry found under the block's own key is compared with the whole block hash")
		case len(known.Body.List) == 1 && mentions(first.Cond, "Parent"):
			defb("knownHashCompared", false, "PreCheckBlock: the BlockIndex entry found under the block's own key is NOT compared with the whole block hash")
		default:
			die("PreCheckBlock: known-block test has unexpected shape")
		}
		// (b) `prevblk, ok := ch.BlockIndex[…BIdx()]` followed by `if !ok [|| !bytes.Equal(prevblk.BlockHash.Hash[:], bl.ParentHash())] {… parent not found …}`
		pg := findIf(pre, "parent not found")
		var pvar, okvar string
		for i, st := range pre.Body.List {
			if st == ast.Stmt(pg) && i > 0 {
				if as, ok := pre.Body.List[i-1].(*ast.AssignStmt); ok && len(as.Lhs) == 2 && len(as.Rhs) == 1 {
					if ix, ok := as.Rhs[0].(*ast.IndexExpr); ok && mentions(ix.X, "BlockIndex") && mentions(ix.Index, "ParentHash") && mentions(ix.Index, "BIdx") {
						pvar, okvar = as.Lhs[0].(*ast.Ident).Name, as.Lhs[1].(*ast.Ident).Name
					}
				}
			}
		}
		if pvar == "" {
			die("PreCheckBlock: the parent look-up `prevblk, ok := ch.BlockIndex[…ParentHash()…BIdx()]` does not precede the parent-not-found guard")
		}
		notOk := func(e ast.Expr) bool {
			u, ok := e.(*ast.UnaryExpr)
			if !ok || u.Op != token.NOT {
				return false
			}
			id, ok := u.X.(*ast.Ident)
			return ok && id.Name == okvar
		}
		if notOk(pg.Cond) {
			defb("parentHashCompared", false, "PreCheckBlock: the parent found in BlockIndex is NOT compared with the whole previous-block field")
		} else if be, ok := pg.Cond.(*ast.BinaryExpr); ok && be.Op == token.LOR && notOk(be.X) && negEqual(be.Y, pvar, "BlockHash", "ParentHash") {
			defb("parentHashCompared", true, "PreCheckBlock: the parent found in BlockIndex is compared with the whole previous-block field")
		} else {
			die("PreCheckBlock: parent-not-found guard has unexpected shape")
		}
		// the same guard in AcceptHeader (panic instead of an error)
		ca := parse("lib/chain/chain_accept.go")
		ah, err := ca.Func("Chain", "AcceptHeader")
		if err != nil {
			die("%v", err)
		}
		ag := findIf(ah, "This should not happen")
		if be, ok := ag.Cond.(*ast.BinaryExpr); ok && be.Op == token.LOR && negEqual(be.Y, "BlockHash", "ParentHash") {
			defb("acceptHeaderParentHashCompared", true, "AcceptHeader: the parent found in BlockIndex is compared with the whole previous-block field")
		} else if _, ok := ag.Cond.(*ast.UnaryExpr); ok {
			defb("acceptHeaderParentHashCompared", false, "AcceptHeader: the parent found in BlockIndex is NOT compared with the whole previous-block field")
		} else {
			die("AcceptHeader: parent guard has unexpected shape")
		}
	}
	// version gating: three `ver < k && bl.Height >= ch.Consensus.X`
	{
		is := findIf(pre, "Rejected Version=")
		cs := comparisons(is.Cond, env)
		if len(cs) != 6 {
			die("version gating: expected 6 comparisons, got %d", len(cs))
		}
		var sels []string
		ast.Inspect(is.Cond, func(n ast.Node) bool {
			if se, ok := n.(*ast.SelectorExpr); ok && strings.HasPrefix(se.Sel.Name, "BIP") {
				sels = append(sels, se.Sel.Name)
			}
			return true
		})
		if len(sels) != 3 {
			die("version gating: expected 3 BIP height references")
		}
		for i := 0; i < 3; i++ {
			v := want(cs[2*i], token.LSS, "version gating")
			if cs[2*i+1].op != token.GEQ {
				die("version gating: height comparison is %s, expected >=", cs[2*i+1].op)
			}
			def("minVersion_"+sels[i], v, "PreCheckBlock: version < this is refused from "+sels[i])
		}
	}
	// witness commitment guard
	{
		var hdr []uint64
		minlen := ""
		ast.Inspect(post.Body, func(n ast.Node) bool {
			is, ok := n.(*ast.IfStmt)
			if !ok {
				return true
			}
			var lit *ast.CompositeLit
			ast.Inspect(is.Cond, func(m ast.Node) bool {
				if cl, ok := m.(*ast.CompositeLit); ok {
					lit = cl
				}
				return true
			})
			if lit == nil || hdr != nil {
				return true
			}
			for _, el := range lit.Elts {
				v, ok := eval(el, env)
				if !ok {
					die("witness header: non-constant element")
				}
				u, _ := constant.Uint64Val(v)
				hdr = append(hdr, u)
			}
			cs := comparisons(is.Cond, env)
			if len(cs) < 1 {
				die("witness header guard: unexpected shape")
			}
			minlen = want(cs[0], token.GEQ, "witness commitment length")
			return true
		})
		if hdr == nil {
			die("witness commitment header literal not found")
		}
		def("witnessCommitMinLen", minlen, "PostCheckBlock: commitment output needs len(pk_script) >= this")
		fmt.Fprintf(&sb, "/-- PostCheckBlock: commitment header bytes -/\ndef witnessHeader : List UInt8 := %s\n", vtrans.LeanList(hdr, "UInt8", 16))
		facts++
		cs := comparisons(findIf(post, "bad-witness-nonce-size").Cond, env)
		if len(cs) != 3 {
			die("nonce-size guard: expected 3 comparisons")
		}
		for i, c := range cs {
			if c.op != token.NEQ {
				die("nonce-size guard: comparison %d is %s, expected !=", i, c.op)
			}
		}
		def("witnessNonceStacks", toNat(cs[0].cst, "nonce"), "coinbase must have exactly this many witness stacks")
		def("witnessNonceItems", toNat(cs[1].cst, "nonce"), "…with this many items")
		def("witnessNonceLen", toNat(cs[2].cst, "nonce"), "…of this length")
	}

	// ---- tx.go: coinbase script length, oversize
	txf := parse("lib/btc/tx.go")
	ct, err := txf.Func("Tx", "CheckTransaction")
	if err != nil {
		die("%v", err)
	}
	{
		cs := comparisons(findIf(ct, "bad-cb-length").Cond, env)
		if len(cs) != 2 {
			die("bad-cb-length: expected 2 comparisons")
		}
		def("cbScriptMin", want(cs[0], token.LSS, "bad-cb-length"), "CheckTransaction: coinbase script shorter than this is refused")
		def("cbScriptMax", want(cs[1], token.GTR, "bad-cb-length"), "CheckTransaction: coinbase script longer than this is refused")
		cs = comparisons(findIf(ct, "bad-txns-oversize").Cond, env)
		if len(cs) != 1 {
			die("bad-txns-oversize: unexpected shape")
		}
		def("txMaxWeight", want(cs[0], token.GTR, "bad-txns-oversize"), "CheckTransaction: NoWitSize*4 > this is refused")
	}

	// ---- chain.go: consensus parameters of the three networks (assignments in NewChainExt)
	chf := parse("lib/chain/chain.go")
	nce, err := chf.Func("", "NewChainExt")
	if err != nil {
		die("%v", err)
	}
	nets := map[string]map[string]string{"mainnet": {}, "testnet3": {}, "testnet4": {}}
	var maxPowValue string
	var walk func(stmts []ast.Stmt, ctx string)
	assign := func(ctx, field, val string) {
		switch ctx {
		case "all":
			for _, m := range nets {
				m[field] = val
			}
		case "testnet":
			nets["testnet3"][field] = val
			nets["testnet4"][field] = val
		default:
			nets[ctx][field] = val
		}
	}
	walk = func(stmts []ast.Stmt, ctx string) {
		for _, st := range stmts {
			switch s := st.(type) {
			case *ast.AssignStmt:
				if len(s.Lhs) < 1 {
					continue
				}
				se, ok := s.Lhs[0].(*ast.SelectorExpr)
				if !ok {
					continue
				}
				in, ok := se.X.(*ast.SelectorExpr)
				if !ok || in.Sel.Name != "Consensus" {
					continue
				}
				if se.Sel.Name == "MaxPOWValue" {
					ast.Inspect(s.Rhs[0], func(n ast.Node) bool {
						if bl, ok := n.(*ast.BasicLit); ok && bl.Kind == token.STRING {
							str, _ := strconv.Unquote(bl.Value)
							v := constant.MakeFromLiteral("0x"+str, token.INT, 0)
							if v.Kind() == constant.Unknown {
								die("MaxPOWValue literal not hexadecimal")
							}
							maxPowValue = v.ExactString()
						}
						return true
					})
					continue
				}
				v, ok := eval(s.Rhs[0], env)
				if !ok {
					die("NewChainExt: non-constant consensus value for %s", se.Sel.Name)
				}
				assign(ctx, se.Sel.Name, toNat(v, se.Sel.Name))
			case *ast.IfStmt:
				call, ok := s.Cond.(*ast.CallExpr)
				if !ok {
					continue
				}
				fn, ok := call.Fun.(*ast.SelectorExpr)
				if !ok {
					continue
				}
				switch fn.Sel.Name {
				case "testnet":
					if ctx != "all" {
						die("NewChainExt: nested testnet() test")
					}
					walk(s.Body.List, "testnet")
					if eb, ok := s.Else.(*ast.BlockStmt); ok {
						walk(eb.List, "mainnet")
					}
				case "testnet4":
					if ctx != "testnet" {
						die("NewChainExt: testnet4() test outside testnet()")
					}
					walk(s.Body.List, "testnet4")
					if eb, ok := s.Else.(*ast.BlockStmt); ok {
						walk(eb.List, "testnet3")
					}
				}
			}
		}
	}
	walk(nce.Body.List, "all")
	if maxPowValue == "" {
		die("MaxPOWValue not found")
	}
	def("MaxPOWValue", maxPowValue, "NewChainExt: Consensus.MaxPOWValue")
	fields := []string{"MaxPOWBits", "BIP34Height", "BIP65Height", "BIP66Height", "Enforce_CSV", "Enforce_SEGWIT", "Enforce_Taproot"}
	netNames := []string{"mainnet", "testnet3", "testnet4"}
	sort.Strings(netNames)
	for _, nn := range netNames {
		for _, f := range fields {
			v, ok := nets[nn][f]
			if !ok {
				die("NewChainExt: %s has no value for %s", nn, f)
			}
			def(nn+"_"+f, v, "NewChainExt: Consensus."+f+" on "+nn)
		}
	}

	// ---- structural facts about the retarget code that the model relies on
	gn, err := diff.Func("Chain", "GetNextWorkRequired")
	if err != nil {
		die("%v", err)
	}
	{
		// the two clamps: `actualTimespan < POWRetargetSpam/4` and `actualTimespan > POWRetargetSpam*4`
		var lo, hi string
		ast.Inspect(gn.Body, func(n ast.Node) bool {
			is, ok := n.(*ast.IfStmt)
			if !ok {
				return true
			}
			be, ok := is.Cond.(*ast.BinaryExpr)
			if !ok {
				return true
			}
			id, ok := be.X.(*ast.Ident)
			if !ok || id.Name != "actualTimespan" || len(is.Body.List) != 1 {
				return true
			}
			as, ok := is.Body.List[0].(*ast.AssignStmt)
			if !ok {
				return true
			}
			c, ok1 := eval(be.Y, env)
			a, ok2 := eval(as.Rhs[0], env)
			if !ok1 || !ok2 || !constant.Compare(c, token.EQL, a) {
				die("retarget clamp: guard constant and assigned constant differ")
			}
			switch be.Op {
			case token.LSS:
				lo = toNat(c, "clamp lo")
			case token.GTR:
				hi = toNat(c, "clamp hi")
			default:
				die("retarget clamp: unexpected operator %s", be.Op)
			}
			return true
		})
		if lo == "" || hi == "" {
			die("retarget clamps not found")
		}
		def("retargetMinTimespan", lo, "GetNextWorkRequired: lower clamp of actualTimespan")
		def("retargetMaxTimespan", hi, "GetNextWorkRequired: upper clamp of actualTimespan")
		// testnet min-difficulty rule: ts > lst.Timestamp()+TargetSpacing*2
		found := false
		ast.Inspect(gn.Body, func(n ast.Node) bool {
			is, ok := n.(*ast.IfStmt)
			if !ok {
				return true
			}
			be, ok := is.Cond.(*ast.BinaryExpr)
			if !ok || be.Op != token.GTR {
				return true
			}
			if id, ok := be.X.(*ast.Ident); !ok || id.Name != "ts" {
				return true
			}
			c, nc := constAddends(be.Y, env)
			if nc != 1 {
				return true
			}
			def("testnetMinDiffGap", toNat(c, "testnet gap"), "GetNextWorkRequired (testnet): ts > prev time + this allows MaxPOWBits")
			found = true
			return true
		})
		if !found {
			die("testnet min-difficulty guard not found")
		}
	}

	sb.WriteString("\nend GocoinV.Gen.ConsensusConsts\n")
	out := vlib.Root() + "/lean/GocoinV/Gen/ConsensusConsts.lean"
	old, _ := os.ReadFile(out)
	if string(old) != sb.String() { // keep the mtime when nothing changed (no Lean rebuild)
		os.Remove(out)
		if err := os.WriteFile(out, []byte(sb.String()), 0644); err != nil {
			die("%v", err)
		}
	}
	fmt.Printf("FACTS %d\n", facts)
}
