// weightorder.go — structural fact about Block.BuildTxListExt (lib/btc): WHEN does it read the object's transaction
// counter?
//
// A *btc.Block keeps (TxCount, TxOffset). Objects made from a whole serialisation (NewBlock / UpdateContent) have
// them set; objects made from the 80-byte header whose body is attached later by `bl.Raw = …` (the block download
// path of the client) still have TxCount == 0 when PostCheckBlock → BuildTxList runs. BuildTxListExt therefore starts
// with a fallback `if bl.TxCount == 0 { bl.TxCount, bl.TxOffset = vlenWire(bl.Raw[80:]) … }`. Everything that depends
// on the counter — the base weight 4*(80+VLenSize(TxCount)), the length of bl.Txs, the offset of the first
// transaction — must be computed AFTER that statement, or header-first objects are weighed with a 1-byte counter.
//
// Emitted: buildTxListReadsCountAfterFallback : Bool — true iff no statement that precedes the fallback (top level
// of the function body) reads <recv>.TxCount / <recv>.TxOffset, directly or through a same-package method called on
// the receiver. The model's weight (BlockCheck.builtWeight) follows the value; the theorem
// weight_entry_path_independent needs `true`. Shapes that cannot be judged (no fallback statement at the top level, a
// closure or the receiver itself handed to a function before it) stop the generator.
package main

import (
	"go/ast"
)

func buildTxListCountOrder(pk *pkgFuncs) bool {
	fd := pk.get("Block", "BuildTxListExt")
	if fd.Recv == nil || len(fd.Recv.List) != 1 || len(fd.Recv.List[0].Names) != 1 {
		die("BuildTxListExt: receiver without a name")
	}
	recv := fd.Recv.List[0].Names[0].Name
	isCountField := func(n ast.Node) bool {
		se, ok := n.(*ast.SelectorExpr)
		if !ok {
			return false
		}
		id, ok := se.X.(*ast.Ident)
		return ok && id.Name == recv && (se.Sel.Name == "TxCount" || se.Sel.Name == "TxOffset")
	}
	assignsCount := func(st ast.Stmt) (yes bool) {
		ast.Inspect(st, func(n ast.Node) bool {
			if as, ok := n.(*ast.AssignStmt); ok {
				for _, l := range as.Lhs {
					if se, ok := l.(*ast.SelectorExpr); ok && isCountField(se) && se.Sel.Name == "TxCount" {
						yes = true
					}
				}
			}
			return true
		})
		return
	}
	fallback := -1
	for i, st := range fd.Body.List {
		if assignsCount(st) {
			fallback = i
			break
		}
	}
	if fallback < 0 {
		die("BuildTxListExt: no top-level statement assigns %s.TxCount (the `TxCount == 0` fallback was moved; the model was written for a fallback inside the function)", recv)
	}
	ifs, ok := fd.Body.List[fallback].(*ast.IfStmt)
	if !ok || !mentions(ifs.Cond, "TxCount") {
		die("BuildTxListExt: the statement assigning %s.TxCount is not an `if` on TxCount", recv)
	}
	early := false
	for _, st := range fd.Body.List[:fallback] {
		ast.Inspect(st, func(n ast.Node) bool {
			switch x := n.(type) {
			case *ast.FuncLit:
				if mentions(x, recv) {
					die("BuildTxListExt: a closure over %s is defined before the TxCount fallback; cannot tell when it reads the counter", recv)
				}
			case *ast.SelectorExpr:
				if isCountField(x) {
					early = true
				}
			case *ast.CallExpr:
				for _, a := range x.Args {
					if id, ok := a.(*ast.Ident); ok && id.Name == recv {
						die("BuildTxListExt: %s is handed to a function before the TxCount fallback", recv)
					}
				}
				if se, ok := x.Fun.(*ast.SelectorExpr); ok {
					if id, ok := se.X.(*ast.Ident); ok && id.Name == recv {
						decls := pk.methods[se.Sel.Name]
						if len(decls) == 0 {
							die("BuildTxListExt: call of %s.%s before the TxCount fallback: method not found in the package", recv, se.Sel.Name)
						}
						for _, d := range decls {
							if recvName(d) == "Block" && d.Body != nil {
								// the callee's own receiver name may differ: any TxCount / TxOffset selector counts
								if mentions(d.Body, "TxCount") || mentions(d.Body, "TxOffset") {
									early = true
								}
								for _, f2 := range pk.reach(d, 2)[1:] {
									if f2.Body != nil && (mentions(f2.Body, "TxCount") || mentions(f2.Body, "TxOffset")) {
										early = true
									}
								}
							}
						}
					}
				}
			}
			return true
		})
	}
	return !early
}
