package main

import (
	"bytes"
	"encoding/hex"
	"fmt"
	"runtime"
	"runtime/debug"

	"github.com/piotrnar/gocoin/lib/btc"
)

func h(s string) []byte { b, _ := hex.DecodeString(s); return b }

func try(name string, raw []byte) {
	var ms0, ms1 runtime.MemStats
	runtime.ReadMemStats(&ms0)
	tx, n := btc.NewTx(raw)
	runtime.ReadMemStats(&ms1)
	fmt.Printf("%s: len=%d tx!=nil:%v n=%d alloc=%d\n", name, len(raw), tx != nil, n, ms1.TotalAlloc-ms0.TotalAlloc)
	if tx != nil {
		func() {
			defer func() {
				if r := recover(); r != nil {
					fmt.Println("   serialize panic:", r)
				}
			}()
			for i, ti := range tx.TxIn {
				if ti == nil {
					fmt.Println("   TxIn", i, "is nil")
				}
			}
			for i, ti := range tx.TxOut {
				if ti == nil {
					fmt.Println("   TxOut", i, "is nil")
				}
			}
			re := tx.SerializeNew()
			fmt.Printf("   reenc==consumed: %v  segwit=%v\n", bytes.Equal(re, raw[:n]), tx.SegWit != nil)
		}()
	}
}

func main() {
	debug.SetGCPercent(-1)
	in := "0000000000000000000000000000000000000000000000000000000000000001" + "00000000" + "00" + "ffffffff"
	out := "0100000000000000" + "00"
	try("valid", h("01000000"+"01"+in+"01"+out+"00000000"))
	try("nonminimal-incount", h("01000000"+"fd0100"+in+"01"+out+"00000000"))
	try("nonminimal-scriptlen", h("01000000"+"01"+"0000000000000000000000000000000000000000000000000000000000000001"+"00000000"+"fe00000000"+"ffffffff"+"01"+out+"00000000"))
	try("superfluous-witness", h("01000000"+"0001"+"01"+in+"01"+out+"00"+"00000000"))
	try("huge-incount", h("01000000"+"feffffff0f"+in+"01"+out+"00000000"))
	try("huge-scriptlen", h("01000000"+"01"+"0000000000000000000000000000000000000000000000000000000000000001"+"00000000"+"feffffff7f"+"ffffffff"+"01"+out+"00000000"))
	try("huge-witcount", h("01000000"+"0001"+"01"+in+"01"+out+"feffffff07"+"00000000"))
	try("neg-incount", h("01000000"+"ffffffffffffffffff"+in+"01"+out+"00000000"))
	// nil TxIn: version | 01 | 36 bytes | fd
	try("nil-txin", h("01000000"+"01"+"00aabbccdd000000000000000000000000000000000000000000000000000001"+"00000000"+"fd"))
	try("nil-txout", h("01000000"+"01"+in+"01"+"0100000000000000"+"fd00"))
	// block
	func() {
		defer func() {
			if r := recover(); r != nil {
				fmt.Println("block panic:", r)
			}
		}()
		hdr := make([]byte, 80)
		raw := append(hdr, h("ffffffffffffffffff")...)
		bl, er := btc.NewBlock(raw)
		fmt.Println("NewBlock", bl != nil, er)
		er = bl.BuildTxList()
		fmt.Println("BuildTxList", er)
	}()
	func() {
		defer func() {
			if r := recover(); r != nil {
				fmt.Println("block panic:", r)
			}
		}()
		hdr := make([]byte, 80)
		raw := append(hdr, h("feffffff0f")...)
		var ms0, ms1 runtime.MemStats
		runtime.ReadMemStats(&ms0)
		bl, er := btc.NewBlock(raw)
		er = bl.BuildTxList()
		runtime.ReadMemStats(&ms1)
		fmt.Println("BuildTxList huge", er, "alloc", ms1.TotalAlloc-ms0.TotalAlloc)
	}()
}
