package main

// chainundo.go — the undo stream with the block's changes produced by the code that produces them in the node:
// chain.ProcessBlockTransactions (commitTxs) looks every input up through UnspentGet → OneUtxoRec, whose Pk_script is a
// SUB-SLICE OF THE STORED RECORD (plain format always; compressed format for every script that is not a template), builds
// BlockChanges.UndoData from what it got, and UnspentDB.CommitBlockTxs serialises UndoData into the undo file in a
// goroutine that runs CONCURRENTLY with db.commit() — which rewrites / removes the spent records and hands their memory
// to Memory_Free, while do_add allocates the block's new records. "Returned unchanged after being stored" along
// store → spend → undo therefore needs an OWNERSHIP fact: nothing reachable from UndoData may point into memory owned by
// the UTXO heap. Two things are done with the real code on every case:
//   * the fact itself is looked at: after ProcessBlockTransactions no script of UndoData may lie inside a record of the
//     database's maps (addresses compared; a broken fact without a failing input is reported as such);
//   * a legal schedule that needs the fact is forced: the undo goroutine's serialisation is held (through the
//     utxo.Serialize variable) until db.commit() has finished (vhook point utxo.commit:after-commit) — with the poisoning
//     allocator every freed byte is 0xDD by then, with the client's allocator in steady state the freed slots have been
//     handed to the block's new records; the unforced schedule runs as well. Then the block is undone and every record
//     must be byte-identical to what was stored (checkUndo's predicate and model tie).
// The block is built from the case: a coinbase plus transactions that spend the case's outputs (1..4 inputs each, from
// one or several records), outputs of any script class, one added record shaped like a spent one (same size class).

import (
	"bytes"
	"encoding/hex"
	"fmt"
	"sort"
	"sync"
	"time"
	"unsafe"

	"github.com/piotrnar/gocoin/lib/btc"
	"github.com/piotrnar/gocoin/lib/chain"
	"github.com/piotrnar/gocoin/lib/others/vhook"
	"github.com/piotrnar/gocoin/lib/utxo"
	"verif/vlib"
)

type chainIn struct {
	Rec  int `json:"rec"` // index into undoCase.Recs
	Vout int `json:"vout"`
}

type chainTx struct {
	TxID [32]byte  `json:"-"`
	Hex  string    `json:"txid"`
	Ins  []chainIn `json:"ins"` // none: the coinbase
	Outs []Out     `json:"outs"`
}

func txsReplay(txs []chainTx) []interface{} {
	var l []interface{}
	for _, t := range txs {
		c := t
		c.Hex = hex.EncodeToString(t.TxID[:])
		c.Outs = make([]Out, len(t.Outs))
		for i, ot := range t.Outs {
			c.Outs[i] = Out{Idx: ot.Idx, Val: ot.Val, Hex: hex.EncodeToString(ot.Scr)}
		}
		l = append(l, c)
	}
	return l
}

func txsFromJSON(x interface{}) (txs []chainTx) {
	l, _ := x.([]interface{})
	for _, e := range l {
		m, ok := e.(map[string]interface{})
		if !ok {
			continue
		}
		var t chainTx
		hs, _ := m["txid"].(string)
		b, _ := hex.DecodeString(hs)
		copy(t.TxID[:], b)
		ins, _ := m["ins"].([]interface{})
		for _, ie := range ins {
			if im, ok := ie.(map[string]interface{}); ok {
				a, _ := im["rec"].(float64)
				v, _ := im["vout"].(float64)
				t.Ins = append(t.Ins, chainIn{int(a), int(v)})
			}
		}
		outs, _ := m["outs"].([]interface{})
		for _, oe := range outs {
			if om, ok := oe.(map[string]interface{}); ok {
				i, _ := om["idx"].(float64)
				v, _ := om["val"].(float64)
				s, _ := om["scr"].(string)
				sb, _ := hex.DecodeString(s)
				t.Outs = append(t.Outs, Out{Idx: int(i), Val: uint64(v), Scr: sb})
			}
		}
		txs = append(txs, t)
	}
	return
}

// chainBlock turns the case's transactions into a btc.Block and lets the real chain code compute the changes
func chainBlock(db *utxo.UnspentDB, uc *undoCase, hash []byte) (bl *btc.Block, changes *utxo.BlockChanges, rejected string) {
	h := uc.Height + 1
	bl = &btc.Block{Hash: btc.NewUint256(hash)}
	for i, t := range uc.Txs {
		tx := &btc.Tx{Hash: btc.Uint256{Hash: t.TxID}}
		if i == 0 {
			tx.TxIn = []*btc.TxIn{{ScriptSig: []byte{3, byte(h), byte(h >> 8), byte(h >> 16)}, Input: btc.TxPrevOut{Vout: 0xffffffff}, Sequence: 0xffffffff}}
		}
		for _, in := range t.Ins {
			tx.TxIn = append(tx.TxIn, &btc.TxIn{Input: btc.TxPrevOut{Hash: uc.Recs[in.Rec].TxID, Vout: uint32(in.Vout)}, Sequence: 0xffffffff})
			bl.TotalInputs++
		}
		for _, ot := range t.Outs {
			tx.TxOut = append(tx.TxOut, &btc.TxOut{Value: ot.Val, Pk_script: ot.Scr, WasCoinbase: i == 0, VoutCount: uint32(len(t.Outs)), BlockHeight: h})
		}
		bl.Txs = append(bl.Txs, tx)
	}
	bl.TxCount = len(bl.Txs)
	bl.Height = h
	bl.Trusted.Set() // signatures are not this property's subject
	ch := &chain.Chain{Unspent: db}
	var e error
	noStderr(func() { changes, _, e = ch.ProcessBlockTransactions(bl, h, h) })
	if e != nil {
		return nil, nil, e.Error()
	}
	return
}

// undoAliases: scripts reachable from changes.UndoData that lie inside a record held by the database's maps
func undoAliases(changes *utxo.BlockChanges, db *utxo.UnspentDB) (n int, first string) {
	type span struct{ lo, hi uintptr }
	var spans []span
	for i := range db.HashMap {
		for _, v := range db.HashMap[i] {
			if v != nil && len(*v) > 0 {
				b := uintptr(unsafe.Pointer(&(*v)[0]))
				spans = append(spans, span{b, b + uintptr(len(*v))})
			}
		}
	}
	sort.Slice(spans, func(a, b int) bool { return spans[a].lo < spans[b].lo })
	keys := make([][32]byte, 0, len(changes.UndoData))
	for k := range changes.UndoData {
		keys = append(keys, k)
	}
	sort.Slice(keys, func(a, b int) bool { return bytes.Compare(keys[a][:], keys[b][:]) < 0 })
	for _, k := range keys {
		u := changes.UndoData[k]
		for vout, ot := range u.Outs {
			if ot == nil || len(ot.PKScr) == 0 {
				continue
			}
			p := uintptr(unsafe.Pointer(&ot.PKScr[0]))
			j := sort.Search(len(spans), func(i int) bool { return spans[i].hi > p })
			if j < len(spans) && spans[j].lo <= p {
				n++
				if first == "" {
					first = fmt.Sprintf("UndoData[%x].Outs[%d].PKScr (%d bytes) points into the stored record of that transaction", k[:8], vout, len(ot.PKScr))
				}
			}
		}
	}
	return
}

var ownershipNote struct {
	what string
	rep  interface{}
}

// commitScheduled: CommitBlockTxs with the undo goroutine's serialisation held until db.commit() has returned
// ("commit-first"), or as it comes ("free")
func commitScheduled(db *utxo.UnspentDB, changes *utxo.BlockChanges, hash []byte, sched string) {
	if sched != "commit-first" {
		db.CommitBlockTxs(changes, hash)
		return
	}
	gate := make(chan struct{})
	var once sync.Once
	open := func() { once.Do(func() { close(gate) }) }
	orig := utxo.Serialize
	utxo.Serialize = func(rec *utxo.UtxoRec, use_buf []byte) *[]byte {
		if use_buf != nil { // only the undo file is serialised into a caller's buffer
			<-gate
		}
		return orig(rec, use_buf)
	}
	vhook.Set(func(name string) {
		if name == "utxo.commit:after-commit" {
			open()
		}
	})
	tm := time.AfterFunc(3*time.Second, func() { // the point is gone from the source: do not wait for ever
		r.Hit("undo-chain:schedule-gate-timeout")
		open()
	})
	defer func() {
		tm.Stop()
		open()
		vhook.Set(nil)
		utxo.Serialize = orig
	}()
	db.CommitBlockTxs(changes, hash)
}

// genChainCase: an undo case whose second block is a real block of transactions
func genChainCase(g *vlib.Rng, alloc string, compressed bool, sched string) *undoCase {
	uc := genUndoCase(g, alloc, compressed)
	uc.ViaChain, uc.Sched = true, sched
	if uc.Height < 3000 {
		uc.Height += 3000
	}
	type sp struct {
		rec, vout int
		val       uint64
	}
	var all []sp
	for i, rc := range uc.Recs {
		rc.Height = uc.Height - uint32(g.Pick(0, 0, 1, g.Intn(2000)))
		if rc.CB && len(uc.Spent[i]) > 0 {
			rc.Height = uc.Height + 1 - 100 - uint32(g.Pick(0, 0, 1, g.Intn(2000))) // mature, some exactly
		}
		for _, v := range uc.Spent[i] {
			for _, ot := range rc.Live {
				if ot.Idx == v {
					all = append(all, sp{i, v, ot.Val})
				}
			}
		}
	}
	for i := len(all) - 1; i > 0; i-- {
		j := g.Intn(i + 1)
		all[i], all[j] = all[j], all[i]
	}
	seen := map[[8]byte]bool{}
	for _, rc := range uc.Recs {
		var k8 [8]byte
		copy(k8[:], rc.TxID[:])
		seen[k8] = true
	}
	freshID := func() (id [32]byte) {
		for {
			copy(id[:], g.Bytes(32))
			var k8 [8]byte
			copy(k8[:], id[:])
			if !seen[k8] {
				seen[k8] = true
				return
			}
		}
	}
	smallScript := func() []byte {
		s, _ := genScript(g, false)
		if len(s) > 300 {
			s = s[:g.Intn(300)]
		}
		return s
	}
	// the coinbase: either a few small outputs, or shaped like one of the records that lose an output (same number of
	// outputs, scripts of the same lengths): its record falls into the size class the block frees
	cb := chainTx{TxID: freshID()}
	var shaped *Rec
	for i, rc := range uc.Recs {
		if len(uc.Spent[i]) > 0 && g.Chance(1, 2) {
			shaped = rc
			break
		}
	}
	if shaped != nil && len(shaped.Live) == shaped.N {
		for _, ot := range shaped.Live {
			s := g.Bytes(len(ot.Scr))
			if len(s) > 0 {
				s[0] = 0x51
			}
			cb.Outs = append(cb.Outs, Out{Idx: ot.Idx, Val: uint64(g.Intn(1000)), Scr: s})
		}
	} else {
		for i := 0; i < 1+g.Intn(3); i++ {
			cb.Outs = append(cb.Outs, Out{Idx: i, Val: uint64(g.Intn(1000)), Scr: smallScript()})
		}
	}
	uc.Txs = []chainTx{cb}
	for len(all) > 0 {
		t := chainTx{TxID: freshID()}
		var sum uint64
		n := 1 + g.Intn(4)
		for len(all) > 0 && len(t.Ins) < n && sum+all[0].val <= maxMoney {
			t.Ins = append(t.Ins, chainIn{all[0].rec, all[0].vout})
			sum += all[0].val
			all = all[1:]
		}
		if len(t.Ins) == 0 { // a single value above the limit cannot occur (amounts ≤ 21e14), be safe
			all = all[1:]
			continue
		}
		no := 1 + g.Intn(4)
		left := sum
		for i := 0; i < no; i++ {
			v := uint64(0)
			if left > 0 {
				v = g.U64() % (left + 1)
				if i == no-1 { // the fee (what is left over) stays small: the block's accumulated fee is bounded too
					fee := uint64(g.Intn(2) * g.Intn(100000))
					if fee > left {
						fee = left
					}
					v = left - fee
				}
			}
			left -= v
			t.Outs = append(t.Outs, Out{Idx: i, Val: v, Scr: smallScript()})
		}
		uc.Txs = append(uc.Txs, t)
	}
	// the records the block adds, as the rest of checkUndo knows them
	uc.NewRecs = nil
	for i, t := range uc.Txs {
		uc.NewRecs = append(uc.NewRecs, &Rec{TxID: t.TxID, Height: uc.Height + 1, CB: i == 0, N: len(t.Outs), Live: t.Outs})
	}
	// Spent must list exactly what the transactions spend
	for i := range uc.Spent {
		uc.Spent[i] = nil
	}
	for _, t := range uc.Txs {
		for _, in := range t.Ins {
			uc.Spent[in.Rec] = append(uc.Spent[in.Rec], in.Vout)
		}
	}
	for i := range uc.Spent {
		sort.Ints(uc.Spent[i])
	}
	return uc
}
