package main

// Garbage in a snapshot file, and the loader run WITHOUT the harness's capping allocator.
//
// A file with a valid 48-byte header whose record area holds bytes that are not records — in particular a length prefix
// (1, 3, 5 or 9 bytes, canonical or not) whose value is larger than what follows: small, just below / at / above the size of
// the file, 2^31, 2^32, 2^40, 2^48, 2^62, 2^63-1, 2^63, 2^64-1 — or a header whose record count is absurd (2^36 … 2^62, the
// size of the file, one more). Before fix a45f580a the loader passed these numbers to make(map, …) / Memory_Malloc as they
// came: `panic: makeslice: len out of range` out of NewUnspentDb or `fatal error: out of memory`, no fall-back to UTXO.old.
//
// Such a directory is opened by the REAL loader in a child process (a copy of this program, VERIF_C10_LOADDIR) with the
// package's own allocator behind a recorder — no cap on the length —, an address-space limit (so that an absurd request is
// an immediate out-of-memory, not a machine that swaps) and a watchdog. The child prints what the database holds and every
// argument Memory_Malloc was called with. Predicate (model-free, same as the rest of the fallback stream): the process
// survives and the database is exactly the newest COMPLETE snapshot that was written. Tie: Model.UtxoLoad.loadDir on the
// bytes of the two files, and Model.UtxoLoad.memAsk (oracle op `asks`) = the recorded Memory_Malloc arguments.

import (
	"bytes"
	"context"
	"encoding/hex"
	"encoding/json"
	"fmt"
	"math"
	"os"
	"os/exec"
	"strings"
	"syscall"
	"time"

	"github.com/piotrnar/gocoin/lib/utxo"
	"verif/vlib"
)

type childLoad struct {
	Compressed bool     `json:"compressed"`
	Height     uint32   `json:"height"`
	Hash       string   `json:"hash"`
	Recs       []string `json:"recs"`
	Data       int      `json:"data"`
	Count      int      `json:"count"`
	Mallocs    []int64  `json:"mallocs"` // arguments of Memory_Malloc, in order (the first 4096)
	NMallocs   int      `json:"n_mallocs"`
}

// runLoadDirChild is the child side: VERIF_C10_LOADDIR="<dir> <cfgCompressed>"
func runLoadDirChild(spec string) {
	var dir string
	var cfg bool
	if _, err := fmt.Sscanf(spec, "%s %t", &dir, &cfg); err != nil {
		os.Exit(2)
	}
	lim := uint64(6) << 30
	syscall.Setrlimit(syscall.RLIMIT_AS, &syscall.Rlimit{Cur: lim, Max: lim})
	var res childLoad
	def := utxo.Memory_Malloc
	utxo.Memory_Malloc = func(le int) *[]byte { // the package default, recorded; NO cap
		res.NMallocs++
		if len(res.Mallocs) < 4096 {
			res.Mallocs = append(res.Mallocs, int64(le))
		}
		return def(le)
	}
	var db *utxo.UnspentDB
	quiet(func() {
		db = utxo.NewUnspentDb(&utxo.NewUnspentOpts{Dir: dir, CompressRecords: cfg})
	})
	res.Compressed, res.Height, res.Hash = db.ComprssedUTXO, db.LastBlockHeight, hex.EncodeToString(db.LastBlockHash)
	if db.LastBlockHash == nil {
		res.Hash = "nil"
	}
	for i := range db.HashMap {
		for _, v := range db.HashMap[i] {
			if v == nil {
				res.Recs = append(res.Recs, "nil")
			} else {
				res.Recs = append(res.Recs, hex.EncodeToString(*v))
			}
		}
	}
	res.Data, res.Count, _ = db.GetUTXOSize()
	b, _ := json.Marshal(res)
	os.Stdout.Write(append(b, '\n'))
	os.Exit(0)
}

// openDirChild: the real loader on dir in a child process. err = how the child died, if it did.
func openDirChild(dir string, cfgCompressed bool) (loadRes, []int64) {
	ctx, cancel := context.WithTimeout(context.Background(), 40*time.Second)
	defer cancel()
	cmd := exec.CommandContext(ctx, os.Args[0])
	cmd.Env = append(os.Environ(), fmt.Sprintf("VERIF_C10_LOADDIR=%s %v", dir, cfgCompressed))
	var stderr bytes.Buffer
	cmd.Stderr = &stderr
	out, err := cmd.Output()
	if ctx.Err() != nil {
		return loadRes{err: "NewUnspentDb does not return (child process killed after 40 s)"}, nil
	}
	if err != nil {
		why := ""
		for _, l := range strings.Split(stderr.String(), "\n") {
			if strings.HasPrefix(l, "panic:") || strings.HasPrefix(l, "fatal error:") || strings.HasPrefix(l, "runtime:") {
				why = l
				break
			}
		}
		if why == "" {
			why = short(strings.TrimSpace(stderr.String()))
		}
		return loadRes{err: fmt.Sprintf("the process that opens the directory dies (%v): %s", err, why)}, nil
	}
	var cl childLoad
	if e := json.Unmarshal(bytes.TrimSpace(out), &cl); e != nil {
		return loadRes{err: "child output not understood: " + short(string(out))}, nil
	}
	s := &Snap{Compressed: cl.Compressed, Height: cl.Height, Recs: map[utxo.UtxoKeyType][]byte{}}
	if cl.Hash != "nil" {
		s.Hash, _ = hex.DecodeString(cl.Hash)
		if s.Hash == nil {
			s.Hash = []byte{}
		}
	}
	for _, h := range cl.Recs {
		var k utxo.UtxoKeyType
		if h == "nil" {
			s.Recs[k] = nil
			continue
		}
		b, _ := hex.DecodeString(h)
		copy(k[:], b)
		s.Recs[k] = b
	}
	if cl.NMallocs > len(cl.Mallocs) {
		cl.Mallocs = append(cl.Mallocs, -int64(cl.NMallocs)) // marks a clipped list: never equal to a model list
	}
	return loadRes{s: s, data: cl.Data, count: cl.Count}, cl.Mallocs
}

// needsChild: damage whose numbers an unguarded loader would hand to the allocator
func (d damage) needsChild() bool {
	return d.Kind == "garbage" || (d.Kind == "count" && (d.Rel || d.Into > 1<<20 || d.Into < 0))
}

func le64(v uint64) []byte {
	b := make([]byte, 8)
	for i := range b {
		b[i] = byte(v >> (8 * i))
	}
	return b
}

// genGarbage: what replaces the records after the first j: a length prefix that claims more than follows, then fewer bytes
func genGarbage(g *vlib.Rng, nrec int) damage {
	if nrec < 1 {
		nrec = 1
	}
	d := damage{Kind: "garbage", Recs: g.Intn(nrec + 1)}
	tail := func(v uint64) []byte {
		n := g.Pick(0, 0, 1, 8, 40, 40, 100, 299)
		if uint64(n) >= v {
			n = int(v) - 1
		}
		return g.Bytes(n)
	}
	var pre []byte
	var v uint64
	switch g.Pick(0, 1, 2, 3, 3, 3, 3, 4, 4) {
	case 0:
		v = uint64(1 + g.Intn(252))
		pre = []byte{byte(v)}
	case 1:
		v = uint64(g.Pick(1, 5, 252, 253, 300, 65535, 1+g.Intn(65535)))
		pre = append([]byte{0xfd}, le64(v)[:2]...)
	case 2:
		v = []uint64{3, 70000, 1<<31 - 1, 1 << 31, 1<<31 + 1, 1<<32 - 1, uint64(1 + g.Intn(1<<31))}[g.Intn(7)]
		pre = append([]byte{0xfe}, le64(v)[:4]...)
	case 3:
		v = []uint64{7, 1 << 32, 1 << 36, 1 << 40, 1 << 44, 1 << 48, 1 << 62, 1<<63 - 1, 1 << 63, 1<<63 + 5, 1<<64 - 1, g.U64() | 1<<40}[g.Intn(12)]
		pre = append([]byte{0xff}, le64(v)...)
	default: // a 9-byte prefix whose value is the size of the damaged file + Into: the guard's boundary
		d.Rel = true
		d.Into = g.Pick(-40, -1, 0, 0, 1, 1, 2, 1000)
		d.Hex = hex.EncodeToString(g.Bytes(g.Pick(0, 1, 40, 200)))
		return d
	}
	d.Hex = hex.EncodeToString(append(pre, tail(v)...))
	return d
}

// hugeCount: a header count an unguarded loader would pre-size its maps for
func genHugeCount(g *vlib.Rng) damage {
	if g.Chance(1, 3) {
		return damage{Kind: "count", Rel: true, Into: g.Pick(-1, 0, 1, 1, 2)} // the size of the file + Into
	}
	return damage{Kind: "count", Into: []int{1 << 36, 1 << 40, 1 << 44, 1 << 50, 1 << 62, math.MinInt64, -1 << 62}[g.Intn(7)]}
}

func mallocsLine(m []int64) string {
	var sb strings.Builder
	fmt.Fprint(&sb, len(m))
	for _, x := range m {
		fmt.Fprintf(&sb, " %d", uint64(x)) // the model lists the uint64 that was read; int(le) of a value ≥ 2^63 is its two's complement
	}
	return sb.String()
}
