package main

// Stream "fallback": the database directory after a save that did not complete cleanly — the situation NewUnspentDb's
// retry exists for. A directory is produced by the REAL code through a two-save history (block h stored and saved, the
// directory reopened, block h+1 — partial spends, full spends, new records — committed and saved: save() renames the
// first snapshot to UTXO.old and writes the second as UTXO.db). Then each of the two files is left intact, removed, cut
// at a position drawn per class (inside the 48-byte header, right after it, between two records, inside a record's
// length prefix, inside a record, last byte missing) or given a header count larger than its records, and the
// directory is reopened by the real loader.
//
// Property predicate (model-free): the reopened database is exactly ONE of the snapshots that were written — the newest
// one whose file is complete (UTXO.db, else UTXO.old), header included — or empty at height 0 in the configured format
// when neither file is complete; never a mixture: same record set, byte-identical records, every live output back
// through UnspentGet.
// Tie: Model.UtxoLoad.loadDir (oracle op `load`) on the bytes of the two files = what the real loader holds, the size
// counters (GetUTXOSize: bytes, records) included — they are not part of the property's words, so a difference there is
// a model-vs-code report.
// Theorems: Props.C10.load_fallback_exact / truncated_snapshot_falls_back over the retry shape gen_c10 reads from the source.

import (
	"bytes"
	"encoding/hex"
	"fmt"
	"os"
	"runtime"
	"strconv"
	"strings"
	"syscall"
	"time"

	"github.com/piotrnar/gocoin/lib/btc"
	"github.com/piotrnar/gocoin/lib/utxo"
	"verif/vlib"
)

// damage of one file; positions are relative to the file's own layout (save() walks Go maps, so the order of the records
// in the file differs from run to run — a replay resolves the same class against the file it gets)
type damage struct {
	Kind string `json:"kind"` // intact | missing | cut | count | garbage
	Recs int    `json:"recs"` // cut: complete records kept (-1: the cut is inside the header, Into bytes of it are kept); garbage: complete records kept
	Into int    `json:"into"` // cut: bytes kept of the next record (length prefix included), reduced below its size; count: added to the header's count
	Hex  string `json:"hex"`  // garbage: the bytes that replace the rest of the records (they start with a length prefix larger than what follows)
	Rel  bool   `json:"rel"`  // count: the header's count is the size of the file + Into; garbage: Hex is preceded by ff + (size of the damaged file + Into)
}

func (d damage) String() string {
	switch d.Kind {
	case "cut":
		return fmt.Sprintf("cut(%d records + %d bytes)", d.Recs, d.Into)
	case "count":
		if d.Rel {
			return fmt.Sprintf("count=filesize+%d", d.Into)
		}
		return fmt.Sprintf("count+%d", d.Into)
	case "garbage":
		if d.Rel {
			return fmt.Sprintf("garbage(%d records + length=filesize+%d + %d bytes)", d.Recs, d.Into, len(d.Hex)/2)
		}
		return fmt.Sprintf("garbage(%d records + %s)", d.Recs, short(d.Hex))
	}
	return d.Kind
}

type fbCase struct {
	H             *undoCase // the history: Recs stored by block Height, Spent/NewRecs = block Height+1
	OldOther      bool      // UTXO.old is in the other record format (a snapshot of block Height written separately)
	CfgCompressed bool      // opts.CompressRecords of the reopening (decides the format only when no file is readable)
	Db, Old       damage
}

func (fc *fbCase) replay() map[string]interface{} {
	m := fc.H.replay()
	m["kind"] = "fallback"
	m["old_other_format"] = fc.OldOther
	m["cfg_compressed"] = fc.CfgCompressed
	m["db"] = map[string]interface{}{"kind": fc.Db.Kind, "recs": fc.Db.Recs, "into": fc.Db.Into, "hex": fc.Db.Hex, "rel": fc.Db.Rel}
	m["old"] = map[string]interface{}{"kind": fc.Old.Kind, "recs": fc.Old.Recs, "into": fc.Old.Into, "hex": fc.Old.Hex, "rel": fc.Old.Rel}
	return m
}

func damageFromJSON(x interface{}) damage {
	m, _ := x.(map[string]interface{})
	d := damage{Kind: "intact"}
	if m == nil {
		return d
	}
	d.Kind, _ = m["kind"].(string)
	a, _ := m["recs"].(float64)
	b, _ := m["into"].(float64)
	d.Recs, d.Into = int(a), int(b)
	d.Hex, _ = m["hex"].(string)
	d.Rel, _ = m["rel"].(bool)
	return d
}

func fallbackFromJSON(m map[string]interface{}) *fbCase {
	fc := &fbCase{H: undoFromJSON(m)}
	fc.OldOther, _ = m["old_other_format"].(bool)
	fc.CfgCompressed, _ = m["cfg_compressed"].(bool)
	fc.Db, fc.Old = damageFromJSON(m["db"]), damageFromJSON(m["old"])
	return fc
}

// layout of a snapshot file: offsets of the record entries (length prefix + bytes); ok=false when the file is not a
// complete snapshot (reference walk, independent of the loader and of the model)
func snapLayout(f []byte) (offs []int, end int, ok bool) {
	if len(f) < 48 {
		return nil, 0, false
	}
	cnt := uint64(0)
	for i := 7; i >= 0; i-- {
		cnt = cnt<<8 | uint64(f[40+i])
	}
	p := 48
	for i := uint64(0); i < cnt; i++ {
		if p >= len(f) {
			return offs, p, false
		}
		var le uint64
		var sz int
		switch f[p] {
		case 0xfd:
			sz = 3
		case 0xfe:
			sz = 5
		case 0xff:
			sz = 9
		default:
			sz = 1
		}
		if p+sz > len(f) {
			return offs, p, false
		}
		if sz == 1 {
			le = uint64(f[p])
		} else {
			for j := sz - 1; j >= 1; j-- {
				le = le<<8 | uint64(f[p+j])
			}
		}
		if le > uint64(len(f)-p-sz) {
			return offs, p, false
		}
		offs = append(offs, p)
		p += sz + int(le)
	}
	return offs, p, true
}

// apply returns the damaged file (nil = no file) and whether it is still a complete snapshot
func (d damage) apply(f []byte) (out []byte, complete bool, what string) {
	offs, end, ok := snapLayout(f)
	if !ok {
		return f, false, "file written by save() is not a complete snapshot"
	}
	switch d.Kind {
	case "missing":
		return nil, false, "missing"
	case "count":
		g := append([]byte{}, f...)
		cnt := uint64(len(offs)) + uint64(d.Into)
		if d.Rel {
			cnt = uint64(len(f)) + uint64(d.Into)
		}
		for i := 0; i < 8; i++ {
			g[40+i] = byte(cnt >> (8 * i))
		}
		return g, cnt == uint64(len(offs)), fmt.Sprintf("header count %d, records %d (file %d bytes)", cnt, len(offs), len(f))
	case "garbage":
		j := d.Recs
		if j > len(offs) || j < 0 {
			j = len(offs)
		}
		keep := end
		if j < len(offs) {
			keep = offs[j]
		}
		g := append([]byte{}, f[:keep]...)
		tail, _ := hex.DecodeString(d.Hex)
		claim := ""
		if d.Rel {
			v := uint64(keep + 9 + len(tail) + d.Into)
			g = append(append(g, 0xff), le64(v)...)
			claim = fmt.Sprintf("a 9-byte length prefix of %d, ", v)
		}
		g = append(g, tail...)
		if len(offs) < j+1 { // the garbage must be read as a record
			cnt := uint64(j + 1)
			for i := 0; i < 8; i++ {
				g[40+i] = byte(cnt >> (8 * i))
			}
		}
		return g, false, fmt.Sprintf("garbage after %d of %d records: %s%s (file %d -> %d bytes)", j, len(offs), claim, short(d.Hex), len(f), len(g))
	case "cut":
		if d.Recs < 0 {
			n := d.Into
			if n > 47 {
				n = 47
			}
			return append([]byte{}, f[:n]...), false, fmt.Sprintf("cut inside the header (%d bytes kept)", n)
		}
		if len(offs) == 0 {
			return append([]byte{}, f[:47]...), false, "cut inside the header (47 bytes kept; no records)"
		}
		j := d.Recs
		if j >= len(offs) {
			j = len(offs) - 1
		}
		next := end
		if j+1 < len(offs) {
			next = offs[j+1]
		}
		into := d.Into
		if into < 0 {
			into = next - offs[j] + into // counted from the end of the record: -1 = last byte missing
			if into < 0 {
				into = 0
			}
		}
		if into > next-offs[j]-1 {
			into = next - offs[j] - 1
		}
		return append([]byte{}, f[:offs[j]+into]...), false, fmt.Sprintf("cut after %d of %d records + %d of the next record's %d bytes (file %d -> %d bytes)", j, len(offs), into, next-offs[j], len(f), offs[j]+into)
	}
	return f, true, "intact"
}

type loadRes struct {
	s     *Snap
	db    *utxo.UnspentDB
	data  int
	count int
	err   string
}

// openDir: the real loader with a time limit (a loader that does not return is an observation, not a crash of the run)
func openDir(dir string, cfgCompressed bool, procs int) (loadRes, []int64) {
	var asked []int64
	inner := utxo.Memory_Malloc
	utxo.Memory_Malloc = func(le int) *[]byte {
		if len(asked) < 1<<16 {
			asked = append(asked, int64(le))
		}
		return inner(le)
	}
	defer func() { utxo.Memory_Malloc = inner }()
	done := make(chan loadRes, 1)
	stdout := os.Stdout
	prev := runtime.GOMAXPROCS(0)
	if procs > 0 {
		runtime.GOMAXPROCS(procs)
	}
	defer runtime.GOMAXPROCS(prev)
	// the loader reports every unreadable file with the builtin println (file descriptor 2): keep the run's log readable
	if os.Getenv("VERIF_VERBOSE") == "" {
		if saved, e1 := syscall.Dup(2); e1 == nil {
			if dn, e2 := os.OpenFile(os.DevNull, os.O_WRONLY, 0); e2 == nil {
				syscall.Dup3(int(dn.Fd()), 2, 0)
				dn.Close()
			}
			defer func() { syscall.Dup3(saved, 2, 0); syscall.Close(saved) }()
		}
	}
	go func() {
		var res loadRes
		defer func() {
			if e := recover(); e != nil {
				res.err = fmt.Sprint("panic: ", e)
			}
			done <- res
		}()
		quiet(func() {
			res.db = utxo.NewUnspentDb(&utxo.NewUnspentOpts{Dir: dir, CompressRecords: cfgCompressed})
		})
		db := res.db
		res.s = &Snap{Compressed: db.ComprssedUTXO, Height: db.LastBlockHeight, Hash: db.LastBlockHash, Recs: map[utxo.UtxoKeyType][]byte{}}
		for i := range db.HashMap {
			for k, v := range db.HashMap[i] {
				if v == nil {
					res.s.Recs[k] = nil
				} else {
					res.s.Recs[k] = *v
				}
			}
		}
		res.data, res.count, _ = db.GetUTXOSize()
	}()
	select {
	case x := <-done:
		return x, asked
	case <-time.After(20 * time.Second):
		loaderHung = true
		os.Stdout = stdout
		return loadRes{err: "NewUnspentDb does not return (waited 20 s)"}, nil
	}
}

// expected outcome of reopening a directory, from what was WRITTEN (not from parsing the damaged files)
type written struct {
	recs       map[utxo.UtxoKeyType][]byte
	height     uint32
	hash       []byte
	compressed bool
	name       string
}

func judgeReopen(fail func(string), got loadRes, want written, desc string) {
	s := got.s
	if s.Height != want.height || !bytes.Equal(s.Hash, want.hash) || s.Compressed != want.compressed {
		fail(fmt.Sprintf("%s: opened with height %d hash %x compressed %v; %s is height %d hash %x compressed %v", desc, s.Height, s.Hash, s.Compressed, want.name, want.height, want.hash, want.compressed))
	}
	extra, missing, differ := 0, 0, 0
	var ex utxo.UtxoKeyType
	for k, v := range s.Recs {
		w, ok := want.recs[k]
		if !ok {
			if extra == 0 {
				ex = k
			}
			extra++
		} else if !bytes.Equal(w, v) {
			differ++
		}
	}
	for k := range want.recs {
		if _, ok := s.Recs[k]; !ok {
			missing++
		}
	}
	if extra+missing+differ > 0 {
		more := ""
		if extra > 0 {
			more = fmt.Sprintf(" (e.g. record %x %s)", ex, short(hex.EncodeToString(s.Recs[ex])))
		}
		fail(fmt.Sprintf("%s: the opened database is not %s: %d records (snapshot %d): %d that are not in it%s, %d of it missing, %d with other bytes",
			desc, want.name, len(s.Recs), len(want.recs), extra, more, missing, differ))
	}
}

func checkFallback(kind string, fc *fbCase) {
	uc := fc.H
	mode := modeStr(uc.Compressed)
	rep := fc.replay()
	var kb bytes.Buffer
	for i, rc := range uc.Recs {
		kb.WriteString(rc.line())
		fmt.Fprint(&kb, uc.Spent[i])
	}
	r.Eval("fallback-"+mode+":"+kind, fmt.Sprint(mode, fc.OldOther, fc.CfgCompressed, fc.Db, fc.Old, uc.Height, kb.String()))
	dir, err := os.MkdirTemp("", "vc10")
	if err != nil {
		fmt.Fprintln(os.Stderr, "tempdir:", err)
		os.Exit(3)
	}
	defer os.RemoveAll(dir)
	dir += string(os.PathSeparator)
	defer setMode(false)
	setAlloc("goheap")
	failed := false
	fail := func(what string) {
		if !failed {
			failed = true
			r.PropFail("fallback-"+mode, what, rep)
		}
	}
	hash1, hash2 := bytes.Repeat([]byte{0x11}, 32), bytes.Repeat([]byte{0x22}, 32)
	var storedA, storedB map[utxo.UtxoKeyType][]byte
	perr := ""
	func() {
		defer func() {
			if e := recover(); e != nil {
				perr = fmt.Sprint(e)
			}
		}()
		utxo.UTXO_WRITING_TIME_TARGET = 0
		hdr := make([]byte, 48)
		if uc.Compressed {
			hdr[7] = 0x80
		}
		os.WriteFile(dir+"UTXO.db", hdr, 0644)
		var db *utxo.UnspentDB
		quiet(func() {
			db = utxo.NewUnspentDb(&utxo.NewUnspentOpts{Dir: dir, CompressRecords: uc.Compressed})
		})
		ch1 := &utxo.BlockChanges{Height: uc.Height}
		for _, rc := range uc.Recs {
			ch1.AddList = append(ch1.AddList, rc.toUtxo())
		}
		db.CommitBlockTxs(ch1, hash1)
		storedA = dbBytes(db)
		quiet(db.Close)
		os.Remove(dir + "UTXO.old") // the bootstrap header; a node's first save has no predecessor either
		// restart; the next block; second save
		setMode(false)
		quiet(func() {
			db = utxo.NewUnspentDb(&utxo.NewUnspentOpts{Dir: dir, CompressRecords: uc.Compressed})
		})
		ch2 := &utxo.BlockChanges{Height: uc.Height + 1, DeledTxs: map[[32]byte][]bool{}, UndoData: map[[32]byte]*utxo.UtxoRec{}}
		for i, rc := range uc.Recs {
			if len(uc.Spent[i]) == 0 {
				continue
			}
			mask := make([]bool, rc.N)
			for _, s := range uc.Spent[i] {
				mask[s] = true
			}
			ch2.DeledTxs[rc.TxID] = mask
			ch2.UndoData[rc.TxID] = rc.only(uc.Spent[i]).toUtxo()
		}
		for _, rc := range uc.NewRecs {
			ch2.AddList = append(ch2.AddList, rc.toUtxo())
		}
		db.CommitBlockTxs(ch2, hash2)
		storedB = dbBytes(db)
		quiet(db.Close)
	}()
	if perr != "" {
		fail("two-save history panics: " + perr)
		return
	}
	fileB, e1 := os.ReadFile(dir + "UTXO.db")
	fileA, e2 := os.ReadFile(dir + "UTXO.old")
	if e1 != nil || e2 != nil {
		fail(fmt.Sprint("after two saves the directory does not hold UTXO.db and UTXO.old: ", e1, " ", e2))
		return
	}
	wA := written{recs: storedA, height: uc.Height, hash: hash1, compressed: uc.Compressed, name: "the previous snapshot (UTXO.old)"}
	wB := written{recs: storedB, height: uc.Height + 1, hash: hash2, compressed: uc.Compressed, name: "the last snapshot (UTXO.db)"}
	if fc.OldOther {
		// the same set of block Height, written in the other record format (a node whose configuration was switched)
		other := !uc.Compressed
		setMode(other)
		alt := map[utxo.UtxoKeyType][]byte{}
		for _, rc := range uc.Recs {
			b, p := implSer(rc)
			if p || b == nil {
				fail("Serialize failed while preparing UTXO.old in the other format")
				return
			}
			var k utxo.UtxoKeyType
			copy(k[:], b)
			alt[k] = b
		}
		d2, err := os.MkdirTemp("", "vc10")
		if err != nil {
			fmt.Fprintln(os.Stderr, "tempdir:", err)
			os.Exit(3)
		}
		defer os.RemoveAll(d2)
		d2 += string(os.PathSeparator)
		if e := saveSnapshot(d2, &Snap{Compressed: other, Height: uc.Height, Hash: hash1, Recs: alt}); e != "" {
			fail("saving UTXO.old in the other format: " + e)
			return
		}
		fileA, _ = os.ReadFile(d2 + "UTXO.db")
		wA.recs, wA.compressed = alt, other
		setMode(false)
	}
	dmgB, okB, whatB := fc.Db.apply(fileB)
	dmgA, okA, whatA := fc.Old.apply(fileA)
	put := func(name string, b []byte) {
		os.Remove(dir + name)
		if b != nil {
			os.WriteFile(dir+name, b, 0644)
		}
	}
	put("UTXO.db", dmgB)
	put("UTXO.old", dmgA)
	want := written{recs: map[utxo.UtxoKeyType][]byte{}, height: 0, hash: nil, compressed: fc.CfgCompressed, name: "an empty database (no readable snapshot)"}
	outcome := "neither-readable"
	if okB {
		want, outcome = wB, "UTXO.db"
	} else if okA {
		want, outcome = wA, "UTXO.old"
	}
	r.Hit("fallback:db=" + strings.SplitN(whatB, " ", 2)[0] + "," + "old=" + strings.SplitN(whatA, " ", 2)[0] + "->" + outcome)
	if fc.Db.Kind == "cut" {
		switch {
		case fc.Db.Recs < 0:
			r.Hit("fallback:db-cut-in-header")
		case fc.Db.Into == 0:
			r.Hit("fallback:db-cut-between-records")
		default:
			r.Hit("fallback:db-cut-inside-record")
		}
	}
	desc := fmt.Sprintf("UTXO.db %s, UTXO.old %s (format %s, UTXO.old in the other format: %v)", whatB, whatA, mode, fc.OldOther)
	setMode(false)
	var got loadRes
	var asked []int64
	if fc.Db.needsChild() || fc.Old.needsChild() {
		// numbers an unguarded loader hands to the allocator: a process of its own, the package's allocator, no cap
		r.Hit("fallback:opened-in-child-process(no allocator cap)")
		got, asked = openDirChild(dir, fc.CfgCompressed)
		if got.err != "" {
			r.Hit("fallback:child-died")
		}
	} else {
		got, asked = openDir(dir, fc.CfgCompressed, 0)
	}
	if got.err != "" {
		fail(desc + ": " + got.err)
		return
	}
	judgeReopen(fail, got, want, desc)
	// every live output of the expected snapshot through the reopened database; none of the other snapshot's extra ones
	if !failed && outcome != "neither-readable" && got.db != nil {
		live := map[[32]byte]map[int]*Out{}
		add := func(rc *Rec) {
			m := map[int]*Out{}
			for i := range rc.Live {
				m[rc.Live[i].Idx] = &rc.Live[i]
			}
			live[rc.TxID] = m
		}
		for i, rc := range uc.Recs {
			if outcome == "UTXO.old" {
				add(rc)
			} else if left := rc.without(uc.Spent[i]); len(left.Live) > 0 {
				add(left)
			}
		}
		if outcome == "UTXO.db" {
			for _, rc := range uc.NewRecs {
				add(rc)
			}
		}
		all := append(append([]*Rec{}, uc.Recs...), uc.NewRecs...)
		for _, rc := range all {
			for _, o := range rc.Live {
				var t *btc.TxOut
				pan := ""
				func() {
					defer func() {
						if e := recover(); e != nil {
							pan = fmt.Sprint(e)
						}
					}()
					t = got.db.UnspentGet(&btc.TxPrevOut{Hash: rc.TxID, Vout: uint32(o.Idx)})
				}()
				w := live[rc.TxID][o.Idx]
				if pan != "" {
					fail(fmt.Sprintf("%s: UnspentGet(%x:%d) panics: %s", desc, rc.TxID[:8], o.Idx, pan))
				} else if w == nil && t != nil {
					fail(fmt.Sprintf("%s: UnspentGet(%x:%d) returns an output (value %d) that is not in %s", desc, rc.TxID[:8], o.Idx, t.Value, want.name))
				} else if w != nil && (t == nil || t.Value != w.Val || !bytes.Equal(t.Pk_script, w.Scr)) {
					fail(fmt.Sprintf("%s: UnspentGet(%x:%d) does not return the output stored in %s", desc, rc.TxID[:8], o.Idx, want.name))
				}
				if failed {
					break
				}
			}
		}
	}
	setMode(false)
	// ---- tie: the model of the loader with its retry, on the bytes of the two files
	if len(dmgA)+len(dmgB) > 1<<20 {
		r.Hit("fallback:tie-skipped(files over 1 MiB)")
		return
	}
	tok := func(b []byte) string {
		if b == nil {
			return "nil"
		}
		return vlib.Hex(b)
	}
	ms := o.MustAsk("load " + tok(dmgB) + " " + tok(dmgA) + " " + b2s(fc.CfgCompressed))
	f := strings.Fields(ms)
	tieBad := ""
	s := got.s
	if len(f) < 7 || f[0] != "ok" {
		tieBad = "model gives no result: " + short(ms)
	} else if f[1] != b2s(s.Compressed) || f[2] != strconv.Itoa(int(s.Height)) || f[3] != vlib.Hex(s.Hash) || f[4] != strconv.Itoa(got.count) || f[5] != strconv.Itoa(got.data) {
		tieBad = fmt.Sprintf("model header/counters %s; loader %v %d %x count %d data %d", short(strings.Join(f[1:6], " ")), s.Compressed, s.Height, s.Hash, got.count, got.data)
	} else {
		// the model lists insertions in order; the map keeps the last one per key
		mm := map[utxo.UtxoKeyType][]byte{}
		for _, h := range f[7:] {
			b := vlib.UnHex(h)
			var k utxo.UtxoKeyType
			copy(k[:], b)
			mm[k] = b
		}
		if len(mm) != len(s.Recs) {
			tieBad = fmt.Sprintf("model loads %d records, the loader %d", len(mm), len(s.Recs))
		}
		for k, v := range mm {
			if !bytes.Equal(s.Recs[k], v) {
				tieBad = fmt.Sprintf("model record %x is not in the loader's maps (or differs)", k)
				break
			}
		}
	}
	if tieBad == "" {
		// what the loader asked Memory_Malloc for = the model's walk over UTXO.db, then (after a failed attempt) over UTXO.old
		wantAsk := []string{}
		ask := func(b []byte) {
			f := strings.Fields(o.MustAsk("asks " + tok(b)))
			if len(f) < 3 || f[0] != "ok" {
				tieBad = "model gives no allocation requests: " + short(strings.Join(f, " "))
				return
			}
			wantAsk = append(wantAsk, f[3:]...)
		}
		ask(dmgB)
		if !okB {
			ask(dmgA)
		}
		if line := fmt.Sprint(len(wantAsk), " ", strings.Join(wantAsk, " ")); tieBad == "" && strings.TrimSpace(line) != mallocsLine(asked) {
			tieBad = "Memory_Malloc was called with " + short(mallocsLine(asked)) + " (count, then the lengths); the model's loader asks for " + short(line)
		}
	}
	if tieBad != "" {
		if !failed {
			r.TieFail("load-model", desc+": "+tieBad, rep)
		}
	} else {
		r.TieOK()
	}
}

func genDamage(g *vlib.Rng, nrec int) damage {
	if nrec < 1 {
		nrec = 1
	}
	switch g.Pick(0, 0, 0, 1, 1, 1, 1, 2, 2, 3, 3, 4) {
	case 0: // inside a record: in its length prefix, in its bytes
		return damage{Kind: "cut", Recs: g.Intn(nrec), Into: g.Pick(1, 2, 3, 9, 33, 40, 1+g.Intn(200))}
	case 1: // between two records (after j complete ones; j = 0: right after the header)
		return damage{Kind: "cut", Recs: g.Intn(nrec), Into: 0}
	case 2: // last byte(s) of a record, mostly of the last record
		j := nrec - 1
		if g.Chance(1, 3) {
			j = g.Intn(nrec)
		}
		return damage{Kind: "cut", Recs: j, Into: -1 - g.Pick(0, 0, 1, 7)}
	case 3: // inside the header
		return damage{Kind: "cut", Recs: -1, Into: g.Pick(0, 1, 7, 8, 9, 39, 40, 41, 47, g.Intn(48))}
	default:
		return damage{Kind: "count", Into: g.Pick(1, 1, 2, 100)}
	}
}

func runFallback(g *vlib.Rng) {
	// fixed classes first (both formats), then drawn ones
	fixed := [][2]damage{
		{{Kind: "cut", Recs: 1 << 20, Into: -1}, {Kind: "intact"}},
		{{Kind: "cut", Recs: 0, Into: 0}, {Kind: "intact"}},
		{{Kind: "cut", Recs: 1, Into: 5}, {Kind: "intact"}},
		{{Kind: "cut", Recs: -1, Into: 20}, {Kind: "intact"}},
		{{Kind: "count", Into: 1}, {Kind: "intact"}},
		{{Kind: "missing"}, {Kind: "intact"}},
		{{Kind: "intact"}, {Kind: "cut", Recs: 0, Into: 3}},
		{{Kind: "intact"}, {Kind: "missing"}},
		{{Kind: "cut", Recs: 2, Into: 1}, {Kind: "cut", Recs: 0, Into: 7}},
		// garbage for a record length / an absurd record count (opened in a child process without the allocator cap):
		// the witnesses of the finding fixed by a45f580a — 2^63, 2^62 (makeslice panic), 2^48, 2^40 (out of memory) + 40 bytes
		{{Kind: "garbage", Recs: 0, Hex: "ff0000000000000080" + strings.Repeat("00", 40)}, {Kind: "intact"}},
		{{Kind: "garbage", Recs: 0, Hex: "ff0000000000000040" + strings.Repeat("00", 40)}, {Kind: "intact"}},
		{{Kind: "garbage", Recs: 1, Hex: "ff0000000000010000" + strings.Repeat("5a", 40)}, {Kind: "intact"}},
		{{Kind: "garbage", Recs: 1 << 20, Hex: "ff0000000000010000"}, {Kind: "intact"}},
		{{Kind: "garbage", Recs: 0, Hex: "feffffffff"}, {Kind: "intact"}},
		{{Kind: "garbage", Recs: 0, Rel: true, Into: 0, Hex: "0102"}, {Kind: "intact"}},
		{{Kind: "garbage", Recs: 0, Rel: true, Into: 1, Hex: "0102"}, {Kind: "intact"}},
		{{Kind: "count", Into: 1 << 40}, {Kind: "intact"}},
		{{Kind: "count", Into: 1 << 36}, {Kind: "intact"}},
		{{Kind: "count", Rel: true, Into: 0}, {Kind: "intact"}},
		{{Kind: "count", Rel: true, Into: 1}, {Kind: "intact"}},
		{{Kind: "intact"}, {Kind: "garbage", Recs: 0, Hex: "ff0000000000000080"}},
		{{Kind: "cut", Recs: 0, Into: 2}, {Kind: "garbage", Recs: 0, Hex: "ff0000000000000040aabb"}},
	}
	for i, d := range fixed {
		if loaderHung {
			return
		}
		c := i%2 == 1
		checkFallback("fixed", &fbCase{H: genUndoCase(g, "goheap", c), CfgCompressed: g.Bool(), Db: d[0], Old: d[1]})
	}
	n := r.N(40, 500)
	unreadable := 1 // cases that end in the start-from-nothing branch pre-size 256 maps for 100000 records each: few of them
	maxUnreadable := r.N(2, 12)
	for i := 0; i < n && !loaderHung; i++ {
		c := i%2 == 0
		uc := genUndoCase(g, "goheap", c)
		fc := &fbCase{H: uc, CfgCompressed: g.Bool(), OldOther: g.Chance(1, 7)}
		nB := len(uc.Recs) + len(uc.NewRecs)
		switch g.Pick(0, 0, 0, 0, 0, 0, 0, 1, 2, 3, 3, 3, 4) {
		case 0:
			fc.Db = genDamage(g, nB)
		case 1:
			fc.Db = damage{Kind: "missing"}
		case 3:
			fc.Db = genGarbage(g, nB)
		case 4:
			fc.Db = genHugeCount(g)
		default:
			fc.Db = damage{Kind: "intact"}
		}
		switch g.Pick(0, 0, 0, 0, 0, 0, 1, 2, 2) {
		case 0:
			fc.Old = damage{Kind: "intact"}
		case 1:
			fc.Old = damage{Kind: "missing"}
		default:
			fc.Old = genDamage(g, len(uc.Recs))
			if g.Chance(1, 4) {
				fc.Old = genGarbage(g, len(uc.Recs))
			}
		}
		if fc.Db.Kind != "intact" && fc.Old.Kind != "intact" {
			if unreadable >= maxUnreadable {
				fc.Old = damage{Kind: "intact"}
			} else {
				unreadable++
			}
		}
		checkFallback("gen", fc)
	}
	if !loaderHung {
		bigFallback(g)
	}
}

// bigFallback: the same situation with snapshots longer than one pack of the loader (RECS_PACK_SIZE = 65536 records):
// the failed attempt on UTXO.db has already handed whole packs to the map-filling goroutine, has turned to another of the
// static buffers and has records waiting in the unsent pack when the read fails; UTXO.old shares keys with UTXO.db (same
// txid, other bytes) and has records of its own. Predicate only (header, record set byte-identical, counters).
func bigFallback(g *vlib.Rng) {
	compressed := g.Bool()
	setMode(compressed)
	defer setMode(false)
	nA := 1000 + g.Intn(90000)
	nB := 0x10000 + 1000 + g.Intn(2*0x10000)
	mk := func(txid []byte, ver int) []byte {
		u := &utxo.UtxoRec{InBlock: uint32(1 + ver), Coinbase: false}
		copy(u.TxID[:], txid)
		n := 1 + int(txid[9])%3
		u.Outs = make([]*utxo.UtxoTxOut, n)
		u.Outs[int(txid[10])%n] = &utxo.UtxoTxOut{Value: uint64(ver)*1000 + uint64(txid[11]), PKScr: txid[12 : 12+int(txid[8])%20]}
		return exact(*utxo.Serialize(u, nil))
	}
	A := make(map[utxo.UtxoKeyType][]byte, nA)
	B := make(map[utxo.UtxoKeyType][]byte, nB)
	for len(A) < nA {
		t := g.Bytes(32)
		var k utxo.UtxoKeyType
		copy(k[:], t)
		A[k] = mk(t, 1)
		if len(B) < nB && g.Bool() { // the record lives on in the later snapshot with other bytes
			B[k] = mk(t, 2)
		}
	}
	for len(B) < nB {
		t := g.Bytes(32)
		var k utxo.UtxoKeyType
		copy(k[:], t)
		if _, ok := A[k]; !ok {
			B[k] = mk(t, 2)
		}
	}
	heightA := uint32(1 + g.Intn(800000))
	hashA, hashB := g.Bytes(32), g.Bytes(32)
	// the cut: after at least one whole pack, at any position of the next packs (sometimes exactly at a pack boundary)
	d := damage{Kind: "cut", Recs: 0x10000 + g.Intn(nB-0x10000), Into: g.Pick(0, 1, 5, 30, -1)}
	if g.Chance(1, 6) {
		d.Recs = 0x10000 * (1 + g.Intn(nB/0x10000))
		if d.Recs >= nB {
			d.Recs = 0x10000
		}
	}
	r.Eval("fallback-"+modeStr(compressed)+":big", fmt.Sprint("bigfallback", nA, nB, compressed, d))
	r.Hit(fmt.Sprintf("fallback:big-packs-before-cut=%d", d.Recs/0x10000))
	rep := map[string]interface{}{"kind": "bigfallback", "records_old": nA, "records_db": nB, "compressed": compressed, "cut": d.String(), "note": "re-run the fallback stream with the recorded seed"}
	fail := func(what string) { r.PropFail("fallback-"+modeStr(compressed), what, rep) }
	dirs := [3]string{}
	for i := range dirs {
		dd, err := os.MkdirTemp("", "vc10")
		if err != nil {
			fmt.Fprintln(os.Stderr, "tempdir:", err)
			os.Exit(3)
		}
		defer os.RemoveAll(dd)
		dirs[i] = dd + string(os.PathSeparator)
	}
	if e := saveSnapshot(dirs[0], &Snap{Compressed: compressed, Height: heightA, Hash: hashA, Recs: A}); e != "" {
		fail("saving a snapshot of " + fmt.Sprint(nA) + " records: " + e)
		return
	}
	if e := saveSnapshot(dirs[1], &Snap{Compressed: compressed, Height: heightA + 1, Hash: hashB, Recs: B}); e != "" {
		fail("saving a snapshot of " + fmt.Sprint(nB) + " records: " + e)
		return
	}
	fileA, _ := os.ReadFile(dirs[0] + "UTXO.db")
	fileB, _ := os.ReadFile(dirs[1] + "UTXO.db")
	cut, _, what := d.apply(fileB)
	os.WriteFile(dirs[2]+"UTXO.db", cut, 0644)
	os.WriteFile(dirs[2]+"UTXO.old", fileA, 0644)
	setMode(false)
	prev := runtime.GOMAXPROCS(0)
	for _, procs := range []int{prev, 1} {
		got, _ := openDir(dirs[2], g.Bool(), procs)
		desc := fmt.Sprintf("UTXO.db (%d records) %s, UTXO.old intact (%d records), GOMAXPROCS %d", nB, what, nA, procs)
		if got.err != "" {
			fail(desc + ": " + got.err)
			return
		}
		bad := false
		judgeReopen(func(w string) {
			if !bad {
				bad = true
				fail(w)
			}
		}, got, written{recs: A, height: heightA, hash: hashA, compressed: compressed, name: "the previous snapshot (UTXO.old)"}, desc)
		if bad {
			return
		}
		setMode(false)
	}
}
