package main

// undo.go — "every unspent-output record … is returned unchanged after being stored", along the path a reorganisation
// takes: records are committed by one block (CommitBlockTxs), partly spent by the next (del → the record is rewritten
// without the spent outputs, the undo record keeps them), and that block is undone (UndoBlockTxs merges the undo record
// with what is left and serialises the result). The record allocator is wired as the client wires it
// (client/common/config.go: utxo.Memory_Malloc/Memory_Free = lib/others/memory, a recycling allocator brought to its
// steady state: no open bump page, freed slots are handed out again at once), or replaced by a poisoning allocator
// (Memory_Free overwrites the bytes), or left at the package default (Go heap). After the undo — in memory and after
// Close()+reload from UTXO.db — every record must be byte-identical to what was stored first, every live output must come
// back through UnspentGet, the records added by the undone block must be gone; and the bytes are compared with the Lean
// model (Model/UtxoUndo.lean mergeUndo, oracle op `merge`; theorems undo_restores_*).

import (
	"bytes"
	"encoding/hex"
	"fmt"
	"os"
	"runtime"
	"sort"
	"time"

	"github.com/piotrnar/gocoin/lib/btc"
	"github.com/piotrnar/gocoin/lib/others/memory"
	"github.com/piotrnar/gocoin/lib/utxo"
	"verif/vlib"
)

type undoCase struct {
	Compressed bool
	Alloc      string // "client" | "poison" | "goheap"
	Height     uint32
	Recs       []*Rec  // stored by block Height
	Spent      [][]int // per record: output indices spent by block Height+1 (subset of the live ones)
	NewRecs    []*Rec  // added by block Height+1
	// ViaChain: block Height+1 is a block of transactions (Txs; the first is the coinbase) and its changes — DeledTxs,
	// UndoData, AddList — are computed by chain.ProcessBlockTransactions on the real database (chainundo.go)
	ViaChain bool
	Sched    string // "free" | "commit-first": the undo file is serialised after db.commit() has finished
	Txs      []chainTx
}

func (uc *undoCase) replay() map[string]interface{} {
	var rs, ns []interface{}
	for _, rc := range uc.Recs {
		rs = append(rs, recReplay("rec", uc.Compressed, rc)["rec"])
	}
	for _, rc := range uc.NewRecs {
		ns = append(ns, recReplay("rec", uc.Compressed, rc)["rec"])
	}
	var sp []interface{}
	for _, s := range uc.Spent {
		l := []interface{}{}
		for _, i := range s {
			l = append(l, i)
		}
		sp = append(sp, l)
	}
	m := map[string]interface{}{"kind": "undo", "compressed": uc.Compressed, "alloc": uc.Alloc, "height": uc.Height, "recs": rs, "spent": sp, "newrecs": ns}
	if uc.ViaChain {
		m["via_chain"], m["sched"], m["txs"] = true, uc.Sched, txsReplay(uc.Txs)
	}
	return m
}

var (
	clientMem     *memory.Allocator
	defaultMalloc = utxo.Memory_Malloc
	defaultFree   = utxo.Memory_Free
	memSlots      []uint32
	agedClasses   = map[int]int{}
)

// defaultSer: the serialiser of the format, not the (possibly wrapped) package variable
func defaultSer(compressed bool) func(*utxo.UtxoRec, []byte) *[]byte {
	if compressed {
		return utxo.SerializeC
	}
	return utxo.SerializeU
}

func memClass(size int) int {
	for i, s := range memSlots {
		if size+24 <= int(s) {
			return i
		}
	}
	return -1
}

// ensureSteady brings one size class of the client's allocator to the state of a long-running node: the current page
// is used up (no bump allocation) and the free list is not empty, so that a freed slot is the next one handed out.
func ensureSteady(class int) {
	if class < 0 {
		return
	}
	for it := 0; it < 3; it++ {
		vc := clientMem.VerifClassState(class, 1<<22)
		if vc.Cur == 0 && len(vc.Global) >= 4 {
			return
		}
		sz := int(memSlots[class]) - 24
		var held []*[]byte
		if vc.Cur == 0 {
			held = append(held, clientMem.Malloc(sz)) // opens a page
			vc = clientMem.VerifClassState(class, 1<<22)
		}
		left := 0
		for _, p := range vc.Pages {
			if p.Base == vc.Cur {
				left = int(vc.Cap) - p.Brk
			}
		}
		for i := 0; i < left; i++ {
			held = append(held, clientMem.Malloc(sz))
		}
		for i, p := range held {
			if i%2 == 0 {
				clientMem.Free(p)
			}
		}
		agedClasses[class]++
	}
}

// capMalloc: an allocator that refuses an absurd length with a panic (which the callers of the loader recover and report)
// instead of asking the runtime for it: a loader that is out of step with the file takes garbage for a record length, and
// `fatal error: out of memory` would end the run together with every failure already recorded
func capMalloc(f func(int) *[]byte) func(int) *[]byte {
	return func(le int) *[]byte {
		if le < 0 || le > 1<<31 {
			panic(fmt.Sprintf("Memory_Malloc(%d): absurd record length", le))
		}
		return f(le)
	}
}

func setAlloc(kind string) {
	switch kind {
	case "client":
		if clientMem == nil {
			clientMem = memory.NewAllocator()
			_, _, _, _, _, memSlots = memory.VerifConsts()
		}
		utxo.Memory_Malloc = capMalloc(clientMem.Malloc)
		utxo.Memory_Free = clientMem.Free
	case "poison":
		utxo.Memory_Malloc = capMalloc(defaultMalloc)
		utxo.Memory_Free = func(p *[]byte) {
			if p != nil {
				b := *p
				for i := range b {
					b[i] = 0xDD
				}
			}
		}
	default:
		utxo.Memory_Malloc = capMalloc(defaultMalloc)
		utxo.Memory_Free = defaultFree
	}
}

// loadSnapshotT: loadSnapshot that gives up when the loader does not return (its error path — record count in the
// header larger than the records in the file, then the retry with UTXO.old — can leave NewUnspentDb waiting forever;
// the abandoned goroutine stays behind)
var loaderHung bool // set once the loader was seen hanging: later cases would only wait again

func loadSnapshotT(dir string, procs int) (s *Snap, db *utxo.UnspentDB, err string) {
	type res struct {
		s   *Snap
		db  *utxo.UnspentDB
		err string
	}
	done := make(chan res, 1)
	stdout := os.Stdout
	prev := runtime.GOMAXPROCS(0)
	if procs > 0 {
		runtime.GOMAXPROCS(procs)
	}
	go func() {
		a, b, c := loadSnapshot(dir)
		done <- res{a, b, c}
	}()
	defer runtime.GOMAXPROCS(prev)
	select {
	case x := <-done:
		return x.s, x.db, x.err
	case <-time.After(20 * time.Second):
		loaderHung = true
		os.Stdout = stdout // the abandoned call sits inside quiet(), which had redirected it
		return nil, nil, "NewUnspentDb does not return (waited 20 s)"
	}
}

func (r *Rec) without(spent []int) *Rec {
	out := &Rec{TxID: r.TxID, Height: r.Height, CB: r.CB, N: r.N}
	for _, o := range r.Live {
		gone := false
		for _, s := range spent {
			if s == o.Idx {
				gone = true
			}
		}
		if !gone {
			out.Live = append(out.Live, o)
		}
	}
	return out
}

func (r *Rec) only(spent []int) *Rec {
	out := &Rec{TxID: r.TxID, Height: r.Height, CB: r.CB, N: r.N}
	for _, o := range r.Live {
		for _, s := range spent {
			if s == o.Idx {
				out.Live = append(out.Live, o)
			}
		}
	}
	return out
}

func dbBytes(db *utxo.UnspentDB) map[utxo.UtxoKeyType][]byte {
	m := map[utxo.UtxoKeyType][]byte{}
	for i := range db.HashMap {
		for k, v := range db.HashMap[i] {
			m[k] = exact(*v)
		}
	}
	return m
}

func checkUndo(kind string, uc *undoCase) {
	mode := modeStr(uc.Compressed)
	rep := uc.replay()
	var kb bytes.Buffer
	for i, rc := range uc.Recs {
		kb.WriteString(rc.line())
		fmt.Fprint(&kb, uc.Spent[i])
	}
	if uc.ViaChain {
		kind = "chain-" + uc.Sched + "-" + kind
	}
	r.Eval("undo-"+mode+"-"+uc.Alloc+":"+kind, fmt.Sprint(mode, uc.Alloc, uc.Height, uc.ViaChain, uc.Sched, kb.String()))
	dir, err := os.MkdirTemp("", "vc10")
	if err != nil {
		fmt.Fprintln(os.Stderr, "tempdir:", err)
		os.Exit(3)
	}
	defer os.RemoveAll(dir)
	dir += string(os.PathSeparator)
	defer setMode(false)
	defer setAlloc("goheap")
	failed := false
	fail := func(what string) {
		if !failed {
			failed = true
			r.PropFail("undo-"+mode, what+fmt.Sprintf(" (records %d, allocator %s, compressed %v)", len(uc.Recs), uc.Alloc, uc.Compressed), rep)
		}
	}
	setAlloc(uc.Alloc)
	var db *utxo.UnspentDB
	var stored, afterSpend, afterUndo map[utxo.UtxoKeyType][]byte
	undoBytes := map[utxo.UtxoKeyType][]byte{}
	perr := ""
	rejected := ""
	hash1, hash2 := bytes.Repeat([]byte{0x11}, 32), bytes.Repeat([]byte{0x22}, 32)
	func() {
		defer func() {
			if e := recover(); e != nil {
				perr = fmt.Sprint(e)
			}
		}()
		utxo.UTXO_WRITING_TIME_TARGET = 0
		hdr := make([]byte, 48)
		if uc.Compressed {
			hdr[7] = 0x80
		}
		os.WriteFile(dir+"UTXO.db", hdr, 0644)
		quiet(func() {
			db = utxo.NewUnspentDb(&utxo.NewUnspentOpts{Dir: dir, CompressRecords: uc.Compressed})
		})
		// block Height: the records are stored
		ch1 := &utxo.BlockChanges{Height: uc.Height}
		for _, rc := range uc.Recs {
			ch1.AddList = append(ch1.AddList, rc.toUtxo())
		}
		db.CommitBlockTxs(ch1, hash1)
		stored = dbBytes(db)
		// block Height+1: spends some outputs, adds records of its own
		ch2 := &utxo.BlockChanges{Height: uc.Height + 1, DeledTxs: map[[32]byte][]bool{}, UndoData: map[[32]byte]*utxo.UtxoRec{}}
		for i, rc := range uc.Recs {
			if len(uc.Spent[i]) == 0 {
				continue
			}
			mask := make([]bool, rc.N)
			for _, s := range uc.Spent[i] {
				mask[s] = true
			}
			ch2.DeledTxs[rc.TxID] = mask
			u := rc.only(uc.Spent[i]).toUtxo()
			ch2.UndoData[rc.TxID] = u
			var k utxo.UtxoKeyType
			copy(k[:], rc.TxID[:])
			if p := defaultSer(uc.Compressed)(u, nil); p != nil {
				undoBytes[k] = exact(*p)
			}
		}
		for _, rc := range uc.NewRecs {
			ch2.AddList = append(ch2.AddList, rc.toUtxo())
		}
		var bl *btc.Block
		if uc.ViaChain {
			var changes *utxo.BlockChanges
			if bl, changes, rejected = chainBlock(db, uc, hash2); rejected != "" {
				return
			}
			if n, first := undoAliases(changes, db); n > 0 {
				r.Hit("undo-chain:UndoData-aliases-stored-records")
				if ownershipNote.what == "" {
					ownershipNote.what = fmt.Sprintf("after ProcessBlockTransactions %d script(s) of BlockChanges.UndoData share memory with records of the UTXO maps (%s); CommitBlockTxs serialises UndoData concurrently with db.commit(), which frees those records", n, first)
					ownershipNote.rep = rep
				}
			} else {
				r.Hit("undo-chain:UndoData-owns-its-scripts")
			}
			commitScheduled(db, changes, hash2, uc.Sched)
		} else {
			db.CommitBlockTxs(ch2, hash2)
		}
		afterSpend = dbBytes(db)
		if uc.Alloc == "client" {
			// steady state of a running node for the size classes this undo will touch
			for i, rc := range uc.Recs {
				if len(uc.Spent[i]) == 0 {
					continue
				}
				var k utxo.UtxoKeyType
				copy(k[:], rc.TxID[:])
				if old, ok := afterSpend[k]; ok {
					ensureSteady(memClass(len(old)))
					if c1, c2 := memClass(len(old)), memClass(len(stored[k])); c1 == c2 {
						r.Hit("undo:client-alloc-old-and-merged-in-same-size-class")
					} else {
						r.Hit("undo:client-alloc-different-size-classes")
					}
				}
				ensureSteady(memClass(len(stored[k])))
			}
		}
		// the block is undone
		if bl == nil {
			bl = &btc.Block{}
			for _, rc := range uc.NewRecs {
				tx := new(btc.Tx)
				tx.Hash.Hash = rc.TxID
				bl.Txs = append(bl.Txs, tx)
			}
		}
		db.UndoBlockTxs(bl, hash1)
		afterUndo = dbBytes(db)
	}()
	if perr != "" {
		fail("commit / partial spend / undo panics: " + perr)
		return
	}
	if rejected != "" {
		// the generated block is not one the chain code accepts (e.g. sigops): no verdict on this case
		cls := rejected
		if len(cls) > 40 {
			cls = cls[:40]
		}
		r.Hit("undo-chain:block-rejected:" + cls)
		return
	}
	// ---- property, in memory
	cmp := func(where string, got map[utxo.UtxoKeyType][]byte) {
		if len(got) != len(stored) {
			fail(fmt.Sprintf("%s: %d records, %d were stored before the block that was undone", where, len(got), len(stored)))
		}
		for _, k := range sortedKeys(stored) {
			if !bytes.Equal(got[k], stored[k]) {
				fail(fmt.Sprintf("%s: record %x is not what was stored: stored %s, now %s", where, k, short(hex.EncodeToString(stored[k])), short(hex.EncodeToString(got[k]))))
				return
			}
		}
	}
	get := func(where string, d *utxo.UnspentDB) {
		for _, rc := range uc.Recs {
			for _, o := range rc.Live {
				var t *btc.TxOut
				pan := ""
				func() {
					defer func() {
						if e := recover(); e != nil {
							pan = fmt.Sprint(e)
						}
					}()
					t = d.UnspentGet(&btc.TxPrevOut{Hash: rc.TxID, Vout: uint32(o.Idx)})
				}()
				if pan != "" || t == nil || t.Value != o.Val || !bytes.Equal(t.Pk_script, o.Scr) || t.BlockHeight != rc.Height || t.WasCoinbase != rc.CB {
					got := "nil"
					if pan != "" {
						got = "panic " + pan
					} else if t != nil {
						got = fmt.Sprintf("value %d script %s height %d cb %v", t.Value, short(hex.EncodeToString(t.Pk_script)), t.BlockHeight, t.WasCoinbase)
					}
					fail(fmt.Sprintf("%s: UnspentGet(%x:%d) = %s; stored value %d script %s height %d cb %v", where, rc.TxID[:8], o.Idx, got, o.Val, short(hex.EncodeToString(o.Scr)), rc.Height, rc.CB))
					return
				}
			}
		}
	}
	cmp("after the undo (in memory)", afterUndo)
	if !failed {
		get("after the undo (in memory)", db)
	}
	if db.LastBlockHeight != uc.Height || !bytes.Equal(db.LastBlockHash, hash1) {
		fail(fmt.Sprintf("after the undo: LastBlockHeight/Hash %d %x, expected %d %x", db.LastBlockHeight, db.LastBlockHash, uc.Height, hash1))
	}
	// ---- tie: the partly spent records and the merged records against the model
	tieBad := ""
	setMode(uc.Compressed)
	for i, rc := range uc.Recs {
		if len(uc.Spent[i]) == 0 || tieBad != "" {
			continue
		}
		var k utxo.UtxoKeyType
		copy(k[:], rc.TxID[:])
		left := rc.without(uc.Spent[i])
		want := "nil"
		if len(left.Live) > 0 {
			ms := o.MustAsk("ser " + mode + " " + left.line())
			want = ms
			if old, ok := afterSpend[k]; !ok || ms != fmt.Sprintf("ok %s %d", vlib.Hex(old), len(old)) {
				tieBad = fmt.Sprintf("record %x after the partial spend: model %s, map %s", k, short(ms), short(hex.EncodeToString(afterSpend[k])))
				continue
			}
		} else if _, ok := afterSpend[k]; ok {
			tieBad = fmt.Sprintf("record %x completely spent but still in the map", k)
			continue
		}
		oldArg := "nil"
		if old, ok := afterSpend[k]; ok {
			oldArg = vlib.Hex(old)
		}
		mm := o.MustAsk("merge " + mode + " " + vlib.Hex(undoBytes[k]) + " " + oldArg)
		if mm != "ok "+vlib.Hex(afterUndo[k]) {
			tieBad = fmt.Sprintf("record %x after the undo: model mergeUndo %s, map %s (partly spent form: %s)", k, short(mm), short(hex.EncodeToString(afterUndo[k])), short(want))
		}
	}
	setMode(false)
	// ---- save + reload
	var loaded *Snap
	var db2 *utxo.UnspentDB
	func() {
		defer func() {
			if e := recover(); e != nil {
				perr = fmt.Sprint(e)
			}
		}()
		quiet(db.Close)
	}()
	if perr != "" {
		fail("Close() after the undo panics: " + perr)
		return
	}
	setAlloc("goheap")
	setMode(false)
	loaded, db2, e := loadSnapshotT(dir, 0)
	if e != "" {
		fail("reloading the snapshot written after the undo: " + e)
		return
	}
	if !failed {
		cmp("after the undo, Close() and reload", loaded.Recs)
	}
	if !failed {
		get("after the undo, Close() and reload", db2)
	}
	if loaded.Height != uc.Height || !bytes.Equal(loaded.Hash, hash1) || loaded.Compressed != uc.Compressed {
		fail(fmt.Sprintf("reloaded header: height %d hash %x compressed %v, expected %d %x %v", loaded.Height, loaded.Hash, loaded.Compressed, uc.Height, hash1, uc.Compressed))
	}
	if tieBad != "" {
		if !failed {
			r.TieFail("undo-model", tieBad, rep)
		}
	} else {
		r.TieOK()
	}
}

func genUndoCase(g *vlib.Rng, alloc string, compressed bool) *undoCase {
	uc := &undoCase{Compressed: compressed, Alloc: alloc, Height: 1 + uint32(g.Intn(800000))}
	seen := map[[8]byte]bool{}
	fresh := func(maxN, budget int) *Rec {
		for {
			rc := genRec(g, maxN, budget)
			var k8 [8]byte
			copy(k8[:], rc.TxID[:])
			if !seen[k8] {
				seen[k8] = true
				return rc
			}
		}
	}
	n := 1 + g.Intn(10)
	for i := 0; i < n; i++ {
		maxN := g.Pick(2, 4, 8, 16, 16, 40)
		rc := fresh(maxN, g.Pick(300, 800, 1500, 3000))
		if g.Chance(2, 3) && rc.N > 1 { // mostly dense records: several live outputs, so that a spend leaves some
			have := map[int]bool{}
			for _, o := range rc.Live {
				have[o.Idx] = true
			}
			for j := 0; j < rc.N; j++ {
				if !have[j] && g.Chance(3, 4) {
					s, _ := genScript(g, false)
					if len(s) > 400 {
						s = s[:g.Intn(400)]
					}
					rc.Live = append(rc.Live, Out{Idx: j, Val: genAmount(g, maxMoney), Scr: s})
				}
			}
			sort.Slice(rc.Live, func(a, b int) bool { return rc.Live[a].Idx < rc.Live[b].Idx })
		}
		rc.Height = uc.Height
		var sp []int
		switch g.Pick(0, 1, 2, 2, 2, 2, 3, 3) {
		case 0: // untouched
		case 1: // every live output spent: the record leaves the map and comes back from the undo data alone
			for _, o := range rc.Live {
				sp = append(sp, o.Idx)
			}
		case 2: // one output
			sp = []int{rc.Live[g.Intn(len(rc.Live))].Idx}
		case 3: // a random subset
			for _, o := range rc.Live {
				if g.Bool() {
					sp = append(sp, o.Idx)
				}
			}
		}
		uc.Recs = append(uc.Recs, rc)
		uc.Spent = append(uc.Spent, sp)
	}
	for i := 0; i < g.Intn(4); i++ {
		rc := fresh(6, 500)
		rc.Height = uc.Height + 1
		uc.NewRecs = append(uc.NewRecs, rc)
	}
	return uc
}

func runUndo(g *vlib.Rng) {
	n := r.N(200, 3000)
	for i := 0; i < n && !loaderHung; i++ {
		alloc := []string{"client", "poison", "client", "poison", "goheap"}[i%5]
		checkUndo("gen", genUndoCase(g, alloc, i%3 == 2))
	}
	// the same with the second block going through chain.ProcessBlockTransactions (chainundo.go)
	m := r.N(120, 2000)
	for i := 0; i < m && !loaderHung; i++ {
		alloc := []string{"poison", "client", "poison", "client", "goheap"}[i%5]
		sched := []string{"commit-first", "commit-first", "free"}[i%3]
		checkUndo("gen", genChainCase(g, alloc, i%4 == 3, sched))
	}
	if ownershipNote.what != "" && r.Violations() == 0 {
		// the ownership fact is broken but no schedule tried here turned it into a changed record
		r.TieFail("undo-ownership", ownershipNote.what, ownershipNote.rep)
	}
	r.Extra["undo_client_allocator_classes_aged"] = len(agedClasses)
}

func undoFromJSON(m map[string]interface{}) *undoCase {
	uc := &undoCase{}
	uc.Compressed, _ = m["compressed"].(bool)
	uc.Alloc, _ = m["alloc"].(string)
	h, _ := m["height"].(float64)
	uc.Height = uint32(h)
	rs, _ := m["recs"].([]interface{})
	for _, x := range rs {
		if rm, ok := x.(map[string]interface{}); ok {
			uc.Recs = append(uc.Recs, recFromJSON(rm))
		}
	}
	ns, _ := m["newrecs"].([]interface{})
	for _, x := range ns {
		if rm, ok := x.(map[string]interface{}); ok {
			uc.NewRecs = append(uc.NewRecs, recFromJSON(rm))
		}
	}
	sp, _ := m["spent"].([]interface{})
	for _, x := range sp {
		var l []int
		if xs, ok := x.([]interface{}); ok {
			for _, v := range xs {
				f, _ := v.(float64)
				l = append(l, int(f))
			}
		}
		uc.Spent = append(uc.Spent, l)
	}
	for len(uc.Spent) < len(uc.Recs) {
		uc.Spent = append(uc.Spent, nil)
	}
	uc.ViaChain, _ = m["via_chain"].(bool)
	uc.Sched, _ = m["sched"].(string)
	uc.Txs = txsFromJSON(m["txs"])
	return uc
}
