// c10 — correspondence harness + property search for C10 (UTXO records and snapshot files are lossless).
// Real code: utxo.Serialize / NewUtxoRec / OneUtxoRec in both global modes, script.CompressScript /
// DecompressScript, btc.CompressAmount / DecompressAmount, UnspentDB.save (through Close) + NewUnspentDb.
// Model: lean oracle_c10 (Model/UtxoRec, ScriptCompress, AmountCompress).
// Property predicate (independent of the model): what went in comes out — compared field by field on the
// real code's own results.
package main

import (
	"bytes"
	"context"
	"encoding/hex"
	"encoding/json"
	"fmt"
	"os"
	"os/exec"
	"strconv"
	"strings"
	"time"

	"github.com/piotrnar/gocoin/lib/btc"
	"github.com/piotrnar/gocoin/lib/secp256k1"
	"github.com/piotrnar/gocoin/lib/utxo"
	"verif/vlib"
)

var r *vlib.Run
var o *vlib.Oracle

const keyNonCanon = "p2pk-noncanonical-coordinates"

func short(s string) string {
	if len(s) > 200 {
		return s[:90] + "…(" + strconv.Itoa(len(s)) + " chars)…" + s[len(s)-60:]
	}
	return s
}

// ---------------------------------------------------------------- amounts

func checkAmount(kind string, n uint64) {
	c := btc.CompressAmount(n)
	d := btc.DecompressAmount(c)
	rep := map[string]interface{}{"kind": "amount", "n": strconv.FormatUint(n, 10)}
	m := strings.Fields(o.MustAsk(fmt.Sprintf("camt %d", n)))
	md := o.MustAsk(fmt.Sprintf("damt %d", c))
	r.Eval("amount:"+kind, "a"+strconv.FormatUint(n, 10))
	bad := false
	if d != n {
		if n <= maxMoney {
			r.PropFail("amount-roundtrip", fmt.Sprintf("DecompressAmount(CompressAmount(%d)) = %d (compressed %d)", n, d, c), rep)
			bad = true
		} else {
			r.Hit("amount:roundtrip-fails-above-2^64/9 (outside the quantifier 0..21e14; compressor wraps)")
		}
	}
	if len(m) != 2 || m[0] != strconv.FormatUint(c, 10) || md != strconv.FormatUint(d, 10) {
		if !bad {
			r.TieFail("amount-model", fmt.Sprintf("n=%d impl compress=%d decompress=%d model=%v/%s", n, c, d, m, md), rep)
		}
		return
	}
	if len(m) == 2 && m[0] != m[1] {
		r.Hit("amount:compress-wrapped")
	}
	r.TieOK()
}

func checkDecompressAmount(x uint64) {
	d := btc.DecompressAmount(x)
	md := o.MustAsk(fmt.Sprintf("damt %d", x))
	r.Eval("amount:decompress-arbitrary", "d"+strconv.FormatUint(x, 10))
	if md != strconv.FormatUint(d, 10) {
		r.TieFail("amount-model", fmt.Sprintf("DecompressAmount(%d) = %d, model %s", x, d, md), map[string]interface{}{"kind": "damount", "x": strconv.FormatUint(x, 10)})
		return
	}
	r.TieOK()
}

// ---------------------------------------------------------------- scripts

func checkScript(kind string, s []byte) {
	rep := map[string]interface{}{"kind": "script", "hex": hex.EncodeToString(s)}
	cls := scriptClass(s)
	r.Eval("script:"+kind, "s"+string(s))
	r.Hit("script-class:" + cls)
	c, cl := implCompressScript(s)
	ml := o.MustAsk("cscr " + vlib.Hex(s))
	failed := false
	if cl == "panic" {
		r.PropFail("compress-script-panic", "CompressScript panics on "+short(hex.EncodeToString(s)), rep)
		failed = true
	}
	var dl, mdl string
	if c != nil {
		r.Hit("script:compressed-type-" + strconv.Itoa(int(c[0])))
		// shape of the compressed form (what the record decoder relies on)
		if c[0] >= 6 || len(c) != utxo.ComprScrLen[c[0]] {
			r.PropFail("compressed-script-shape", fmt.Sprintf("CompressScript(%x) = %x: type byte/length not decodable", s, c), rep)
			failed = true
		}
		var d []byte
		d, dl = implDecompressScript(c)
		mdl = o.MustAsk("dscr " + vlib.Hex(c))
		if !bytes.Equal(d, s) {
			key := "script-roundtrip" // (keys with a coordinate ≥ p included: that class was fixed by 06ea4281 and is judged like any other)
			r.PropFail(key, fmt.Sprintf("DecompressScript(CompressScript(s)) ≠ s: s=%x compressed=%x back=%x (%s)", s, c, d, cls), rep)
			failed = true
		}
	} else {
		r.Hit("script:stored-verbatim")
	}
	if cl != ml || dl != mdl {
		if !failed {
			r.TieFail("script-model", fmt.Sprintf("s=%s impl compress=%s decompress=%s model compress=%s decompress=%s", short(hex.EncodeToString(s)), cl, dl, ml, mdl), rep)
		}
		return
	}
	r.TieOK()
}

// DecompressScript on arbitrary data (direct calls; the record decoders always pass 21/33 bytes)
func checkDecompress(d []byte) {
	rep := map[string]interface{}{"kind": "dscript", "hex": hex.EncodeToString(d)}
	r.Eval("script:decompress-arbitrary", "d"+string(d))
	_, dl := implDecompressScript(d)
	ml := o.MustAsk("dscr " + vlib.Hex(d))
	r.Hit("dscr:" + strings.Fields(dl)[0])
	if dl != ml {
		r.TieFail("script-model", fmt.Sprintf("DecompressScript(%x) impl=%s model=%s", d, dl, ml), rep)
		return
	}
	r.TieOK()
}

// the two secp256k1 calls behind CompressScript/DecompressScript, compared with the model's `mathKeys`
func checkKey65(k []byte) {
	rep := map[string]interface{}{"kind": "key65", "hex": hex.EncodeToString(k)}
	var pk secp256k1.XY
	v := pk.ParsePubkey(k) && pk.IsValid()
	r.Eval("key:valid65", "k"+string(k))
	if m := o.MustAsk("kvalid " + vlib.Hex(k)); m != b2s(v) {
		r.TieFail("key-model", fmt.Sprintf("ParsePubkey&&IsValid(%x) = %v, model %s", k, v, m), rep)
		return
	}
	r.Hit("key:valid65=" + b2s(v))
	r.TieOK()
}

func checkKey33(k []byte) {
	rep := map[string]interface{}{"kind": "key33", "hex": hex.EncodeToString(k)}
	var pk secp256k1.XY
	pk.ParsePubkey(k)
	out := make([]byte, 65)
	pk.GetPublicKey(out)
	r.Eval("key:expand33", "e"+string(k))
	if m := o.MustAsk("kexpand " + vlib.Hex(k)); m != vlib.Hex(out) {
		r.TieFail("key-model", fmt.Sprintf("expand(%x) = %x, model %s", k, out, m), rep)
		return
	}
	r.TieOK()
}

// ---------------------------------------------------------------- records

func recReplay(kind string, compressed bool, rec *Rec) map[string]interface{} {
	c := *rec
	c.TxHex = hex.EncodeToString(rec.TxID[:])
	c.Live = make([]Out, len(rec.Live))
	for i, o := range rec.Live {
		c.Live[i] = Out{Idx: o.Idx, Val: o.Val, Hex: hex.EncodeToString(o.Scr)}
	}
	return map[string]interface{}{"kind": kind, "compressed": compressed, "rec": c}
}

func sameRec(a, b *Rec) (bool, int) {
	if a.TxID != b.TxID || a.Height != b.Height || a.CB != b.CB || a.N != b.N || len(a.Live) != len(b.Live) {
		return false, -1
	}
	for i := range a.Live {
		x, y := a.Live[i], b.Live[i]
		if x.Idx != y.Idx || x.Val != y.Val || !bytes.Equal(x.Scr, y.Scr) {
			return false, i
		}
	}
	return true, 0
}

// vouts to look up with OneUtxoRec: live ones, spent ones, the ends, out of range
func pickVouts(g *vlib.Rng, rec *Rec) []uint32 {
	seen := map[uint32]bool{}
	var v []uint32
	add := func(x uint32) {
		if !seen[x] {
			seen[x] = true
			v = append(v, x)
		}
	}
	if len(rec.Live) <= 24 {
		for _, o := range rec.Live {
			add(uint32(o.Idx))
		}
	} else {
		add(uint32(rec.Live[0].Idx))
		add(uint32(rec.Live[len(rec.Live)-1].Idx))
		for i := 0; i < 16; i++ {
			add(uint32(rec.Live[g.Intn(len(rec.Live))].Idx))
		}
	}
	add(0)
	add(uint32(rec.N - 1))
	add(uint32(rec.N))
	add(uint32(rec.N + 1))
	add(0xffffffff)
	for i := 0; i < 4; i++ {
		add(uint32(g.Intn(rec.N)))
	}
	for _, b := range []uint32{252, 253, 65535, 65536} {
		if int(b) <= rec.N {
			add(b)
		}
	}
	return v
}

// checkRec runs one record through the real codec in one mode, evaluates the property on the real
// results and compares every real result with the model's. Returns true when the property failed.
func checkRec(kind string, compressed bool, rec *Rec, vouts []uint32, shrink bool) bool {
	setMode(compressed)
	mode := modeStr(compressed)
	rep := recReplay("rec", compressed, rec)
	line := rec.line()
	r.Eval("rec-"+mode+":"+kind, mode+line)
	r.Hit(fmt.Sprintf("rec:outs≤%d", bucket(rec.N)))
	r.Hit(fmt.Sprintf("rec:live≤%d", bucket(len(rec.Live))))
	failed := false
	fail := func(key, what string) {
		if !failed && shrink {
			// minimise: the single offending output alone
			if k := offendingOut(compressed, rec); k >= 0 && len(rec.Live) > 1 {
				small := &Rec{TxID: rec.TxID, Height: rec.Height, CB: rec.CB, N: rec.Live[k].Idx + 1, Live: []Out{rec.Live[k]}}
				if checkRec(kind+"-shrunk", compressed, small, []uint32{uint32(rec.Live[k].Idx)}, false) {
					failed = true
					return
				}
				setMode(compressed)
			}
		}
		failed = true
		r.PropFail(key, what, rep)
	}
	keyFor := func(o *Out, dflt string) string {
		return dflt // no re-keying: the non-canonical-coordinate class is fixed (06ea4281), a mismatch there is a violation like any other
	}

	ser, p := implSer(rec)
	if p || ser == nil {
		fail("serialize-"+mode, fmt.Sprintf("Serialize returned nil=%v panic=%v for a record with %d live outputs", ser == nil, p, len(rec.Live)))
		return true
	}
	back, p := implDec(ser)
	if p {
		fail("roundtrip-"+mode, "NewUtxoRec(Serialize(rec)) panics")
	} else if same, at := sameRec(rec, back); !same {
		var oo *Out
		what := "header fields / output count / live set differ"
		if at >= 0 {
			oo = &rec.Live[at]
			what = fmt.Sprintf("output %d: stored value=%d script=%s, got value=%d script=%s (%s)", oo.Idx, oo.Val, short(hex.EncodeToString(oo.Scr)),
				back.Live[at].Val, short(hex.EncodeToString(back.Live[at].Scr)), scriptClass(oo.Scr))
		}
		fail(keyFor(oo, "roundtrip-"+mode), "NewUtxoRec(Serialize(rec)) ≠ rec in "+mode+" mode: "+what)
	}
	// single-output lookups against the ORIGINAL record (and hence against the whole decode)
	liveAt := map[int]*Out{}
	for i := range rec.Live {
		liveAt[rec.Live[i].Idx] = &rec.Live[i]
	}
	oneLines := make([]string, len(vouts))
	for i, v := range vouts {
		t, l := implOne(ser, v)
		oneLines[i] = l
		want := liveAt[int(v)]
		if int64(v) >= int64(rec.N) {
			want = nil
		}
		switch {
		case l == "panic":
			fail("one-"+mode, fmt.Sprintf("OneUtxoRec(vout=%d) panics", v))
		case want == nil && t != nil:
			fail("one-"+mode, fmt.Sprintf("OneUtxoRec(vout=%d) returns an output for a spent / out-of-range index", v))
		case want != nil && t == nil:
			fail("one-"+mode, fmt.Sprintf("OneUtxoRec(vout=%d) returns nil for a live output", v))
		case want != nil:
			if t.Value != want.Val || !bytes.Equal(t.Pk_script, want.Scr) || t.BlockHeight != rec.Height || t.WasCoinbase != rec.CB || int(t.VoutCount) != rec.N {
				fail(keyFor(want, "one-"+mode), fmt.Sprintf("OneUtxoRec(vout=%d) = value %d script %s height %d cb %v count %d; stored value %d script %s height %d cb %v count %d",
					v, t.Value, short(hex.EncodeToString(t.Pk_script)), t.BlockHeight, t.WasCoinbase, t.VoutCount,
					want.Val, short(hex.EncodeToString(want.Scr)), rec.Height, rec.CB, rec.N))
			}
		}
	}
	// ---- tie: the model must produce the same bytes, the same decode and the same lookups
	tieBad := ""
	ms := o.MustAsk("ser " + mode + " " + line)
	if want := fmt.Sprintf("ok %s %d", vlib.Hex(ser), len(ser)); ms != want {
		tieBad = "Serialize: impl " + short(want) + " model " + short(ms)
	}
	if tieBad == "" {
		md := o.MustAsk("dec " + mode + " " + vlib.Hex(ser))
		if want := decLine(back, back == nil); md != want {
			tieBad = "NewUtxoRec: impl " + short(want) + " model " + short(md)
		}
	}
	if tieBad == "" {
		for i, v := range vouts {
			mo := o.MustAsk(fmt.Sprintf("one %s = %d", mode, v)) // "=": the bytes of the preceding dec request
			if mo != oneLines[i] {
				tieBad = fmt.Sprintf("OneUtxoRec(%d): impl %s model %s", v, short(oneLines[i]), short(mo))
				break
			}
		}
	}
	if tieBad != "" {
		if !failed {
			r.TieFail("rec-model-"+mode, tieBad, rep)
		}
	} else {
		r.TieOK()
	}
	return failed
}

func bucket(n int) int {
	for _, b := range []int{1, 3, 12, 126, 253, 3000, 30001, 65536} {
		if n <= b {
			return b
		}
	}
	return 1 << 30
}

// offendingOut: index into rec.Live of the first output that does not survive alone, or -1
func offendingOut(compressed bool, rec *Rec) int {
	if len(rec.Live) > 4000 {
		return -1
	}
	for k := range rec.Live {
		small := &Rec{TxID: rec.TxID, Height: rec.Height, CB: rec.CB, N: rec.Live[k].Idx + 1, Live: []Out{rec.Live[k]}}
		ser, p := implSer(small)
		if p || ser == nil {
			return k
		}
		back, p := implDec(ser)
		if p {
			return k
		}
		if same, _ := sameRec(small, back); !same {
			return k
		}
	}
	return -1
}

// ---------------------------------------------------------------- malformed record bytes (tie only)

func withTimeout(f func()) bool { return withTimeoutD(5*time.Second, f) }

// probeChild runs NewUtxoRec ("dec") / OneUtxoRec ("one") on dat in a copy of this program (environment variable
// VERIF_C10_PROBE, see main) and reports the first word of the result, or that the child had to be killed.
func probeChild(what string, compressed bool, dat []byte, vout uint32) string {
	ctx, cancel := context.WithTimeout(context.Background(), time.Second)
	defer cancel()
	cmd := exec.CommandContext(ctx, os.Args[0])
	cmd.Env = append(os.Environ(), fmt.Sprintf("VERIF_C10_PROBE=%s %v %s %d", what, compressed, hex.EncodeToString(dat), vout))
	out, err := cmd.Output()
	if ctx.Err() != nil {
		return "does-not-terminate-in-1s"
	}
	if err != nil {
		return "child-failed"
	}
	return strings.Fields(string(out) + " ?")[0]
}

// runProbe is the child side of probeChild.
func runProbe(spec string) {
	var what, hx string
	var compressed bool
	var vout uint32
	if _, err := fmt.Sscanf(spec, "%s %t %s %d", &what, &compressed, &hx, &vout); err != nil {
		os.Exit(2)
	}
	dat, _ := hex.DecodeString(hx)
	setMode(compressed)
	if what == "dec" {
		rec, p := implDec(dat)
		fmt.Println(decLine(rec, p))
	} else {
		_, l := implOne(dat, vout)
		fmt.Println(l)
	}
	os.Exit(0)
}

func withTimeoutD(d time.Duration, f func()) bool {
	done := make(chan bool, 1)
	go func() { f(); done <- true }()
	select {
	case <-done:
		return true
	case <-time.After(d):
		return false
	}
}

// checkBytes: decoders on bytes that are NOT a serialisation (truncated / mutated). The property
// says nothing here; this only widens the model-vs-code comparison. Inputs on which the model
// gives no prediction ("hang") are run under a timeout and the outcome recorded; an absurd allocation is not run.
func checkBytes(kind string, compressed bool, dat []byte, vout uint32) {
	setMode(compressed)
	mode := modeStr(compressed)
	rep := map[string]interface{}{"kind": "bytes", "compressed": compressed, "hex": hex.EncodeToString(dat), "vout": vout}
	r.Eval("bytes-"+mode+":"+kind, mode+string(dat))
	// an absurd output count makes both sides allocate the whole slice (the model: a list): not run
	if len(dat) >= 32 {
		rest := dat[32:]
		_, n := btc.VULe(rest)
		cnt, _ := btc.VULe(rest[n:])
		if cnt>>1 > 1<<20 {
			r.Hit("bytes:skipped-huge-count")
			return
		}
	}
	md := o.MustAsk("dec " + mode + " " + vlib.Hex(dat))
	mo := o.MustAsk(fmt.Sprintf("one %s %s %d", mode, vlib.Hex(dat), vout))
	r.Hit("bytes:dec=" + strings.Fields(md)[0])
	r.Hit("bytes:one=" + strings.Fields(mo)[0])
	var il, ol string
	if md == "hang" {
		// the model gives no prediction (backwards walk / fuel): the real code is run all the same — in a child process that
		// can be killed, a goroutine that never returns would spin for the rest of the run — and what it does is recorded
		res := probeChild("dec", compressed, dat, vout)
		r.Hit("bytes:model-no-prediction/dec-real=" + res)
		if _, have := r.Extra["corrupt_record_on_which_NewUtxoRec_"+res]; !have {
			r.Extra["corrupt_record_on_which_NewUtxoRec_"+res] = mode + " " + hex.EncodeToString(dat)
		}
	}
	if mo == "hang" {
		res := probeChild("one", compressed, dat, vout)
		r.Hit("bytes:model-no-prediction/one-real=" + res)
		if _, have := r.Extra["corrupt_record_on_which_OneUtxoRec_"+res]; !have {
			r.Extra["corrupt_record_on_which_OneUtxoRec_"+res] = fmt.Sprintf("%s %s vout %d", mode, hex.EncodeToString(dat), vout)
		}
	}
	if md != "hang" {
		if !withTimeout(func() { rec, p := implDec(dat); il = decLine(rec, p) }) {
			r.TieFail("bytes-model-"+mode, "NewUtxoRec does not terminate but the model says "+short(md), rep)
			return
		}
		if il != md {
			r.TieFail("bytes-model-"+mode, "NewUtxoRec on malformed bytes: impl "+short(il)+" model "+short(md), rep)
			return
		}
	}
	if mo != "hang" {
		if !withTimeout(func() { _, ol = implOne(dat, vout) }) {
			r.TieFail("bytes-model-"+mode, "OneUtxoRec does not terminate but the model says "+short(mo), rep)
			return
		}
		if ol != mo {
			r.TieFail("bytes-model-"+mode, fmt.Sprintf("OneUtxoRec(%d) on malformed bytes: impl %s model %s", vout, short(ol), short(mo)), rep)
			return
		}
	}
	r.TieOK()
}

// ---------------------------------------------------------------- snapshots

type snapCase struct {
	Compressed bool
	Height     uint32
	Hash       []byte
	Recs       []*Rec
	ViaCommit  bool // true: fresh DB + CommitBlockTxs (public API); false: records placed in the map
}

func (sc *snapCase) replay() map[string]interface{} {
	var rs []interface{}
	for _, rc := range sc.Recs {
		rs = append(rs, recReplay("rec", sc.Compressed, rc)["rec"])
	}
	return map[string]interface{}{"kind": "snap", "compressed": sc.Compressed, "height": sc.Height, "hash": hex.EncodeToString(sc.Hash),
		"via_commit": sc.ViaCommit, "recs": rs}
}

func checkSnap(kind string, sc *snapCase) {
	mode := modeStr(sc.Compressed)
	rep := sc.replay()
	var kb strings.Builder
	for _, rc := range sc.Recs {
		kb.WriteString(rc.line())
	}
	r.Eval("snap-"+mode+":"+kind, fmt.Sprint(mode, sc.Height, sc.ViaCommit, kb.String()))
	r.Hit(fmt.Sprintf("snap:records≤%d", bucket(len(sc.Recs))))
	dir, err := os.MkdirTemp("", "vc10")
	if err != nil {
		fmt.Fprintln(os.Stderr, "tempdir:", err)
		os.Exit(3)
	}
	defer os.RemoveAll(dir)
	dir += string(os.PathSeparator)
	defer setMode(false)

	failed := false
	fail := func(key, what string) {
		if !failed {
			failed = true
			r.PropFail(key, what, rep)
		}
	}
	stored := map[utxo.UtxoKeyType][]byte{}
	if sc.ViaCommit {
		// a fresh process: package defaults, no UTXO.db, CompressRecords from the configuration
		setMode(false)
		var perr string
		func() {
			defer func() {
				if e := recover(); e != nil {
					perr = fmt.Sprint(e)
				}
			}()
			utxo.UTXO_WRITING_TIME_TARGET = 0
			var db *utxo.UnspentDB
			quiet(func() {
				db = utxo.NewUnspentDb(&utxo.NewUnspentOpts{Dir: dir, Rescan: true, CompressRecords: sc.Compressed})
			})
			ch := &utxo.BlockChanges{Height: sc.Height}
			for _, rc := range sc.Recs {
				ch.AddList = append(ch.AddList, rc.toUtxo())
			}
			db.CommitBlockTxs(ch, sc.Hash)
			for i := range db.HashMap {
				for k, v := range db.HashMap[i] {
					stored[k] = exact(*v)
				}
			}
			quiet(db.Close)
		}()
		if perr != "" {
			fail("snapshot-"+mode, "fresh DB + CommitBlockTxs + Close panics: "+perr)
			return
		}
		setMode(false) // restart
	} else {
		setMode(sc.Compressed)
		for _, rc := range sc.Recs {
			b, p := implSer(rc)
			if p || b == nil {
				fail("snapshot-"+mode, "Serialize failed while preparing the snapshot")
				return
			}
			var k utxo.UtxoKeyType
			copy(k[:], b)
			stored[k] = b
		}
		if e := saveSnapshot(dir, &Snap{Compressed: sc.Compressed, Height: sc.Height, Hash: sc.Hash, Recs: stored}); e != "" {
			fail("snapshot-"+mode, "saving the snapshot: "+e)
			return
		}
		setMode(false)
	}
	file, ferr := os.ReadFile(dir + "UTXO.db")
	if ferr != nil {
		fail("snapshot-"+mode, "no UTXO.db after Close(): "+ferr.Error())
		return
	}
	loaded, db, e := loadSnapshot(dir)
	if e != "" {
		fail("snapshot-"+mode, "reloading the snapshot: "+e)
		return
	}
	// ---- property: header + raw records survive
	if loaded.Height != sc.Height || !bytes.Equal(loaded.Hash, sc.Hash) {
		fail("snapshot-"+mode, fmt.Sprintf("height/hash after reload: %d %x, stored %d %x", loaded.Height, loaded.Hash, sc.Height, sc.Hash))
	}
	if len(loaded.Recs) != len(stored) {
		fail("snapshot-"+mode, fmt.Sprintf("%d records after reload, %d stored", len(loaded.Recs), len(stored)))
	}
	for k, v := range stored {
		if !bytes.Equal(loaded.Recs[k], v) {
			fail("snapshot-"+mode, fmt.Sprintf("record %x differs after reload", k))
			break
		}
	}
	// ---- property: every output is found again through the reloaded DB (codec mode = what the loader selected)
	for _, rc := range sc.Recs {
		if failed {
			break
		}
		vs := []uint32{uint32(rc.Live[0].Idx), uint32(rc.Live[len(rc.Live)-1].Idx), uint32(rc.Live[len(rc.Live)/2].Idx)}
		for _, v := range vs {
			var want *Out
			for i := range rc.Live {
				if rc.Live[i].Idx == int(v) {
					want = &rc.Live[i]
				}
			}
			var t *btc.TxOut
			pan := ""
			func() {
				defer func() {
					if e := recover(); e != nil {
						pan = fmt.Sprint(e)
					}
				}()
				t = db.UnspentGet(&btc.TxPrevOut{Hash: rc.TxID, Vout: v})
			}()
			key := "snapshot-" + mode
			if sc.ViaCommit && sc.Compressed {
				key = "snapshot-fresh-db-compressed-flag"
			}
			if pan != "" || t == nil || t.Value != want.Val || !bytes.Equal(t.Pk_script, want.Scr) || t.BlockHeight != rc.Height || t.WasCoinbase != rc.CB {
				got := "nil"
				if pan != "" {
					got = "panic " + pan
				} else if t != nil {
					got = fmt.Sprintf("value %d script %s height %d cb %v", t.Value, short(hex.EncodeToString(t.Pk_script)), t.BlockHeight, t.WasCoinbase)
				}
				fail(key, fmt.Sprintf("after save+reload (compressed=%v, file flag=%v, via_commit=%v) UnspentGet(%x:%d) = %s; stored value %d script %s height %d cb %v",
					sc.Compressed, loaded.Compressed, sc.ViaCommit, rc.TxID[:8], v, got, want.Val, short(hex.EncodeToString(want.Scr)), rc.Height, rc.CB))
				break
			}
		}
	}
	if loaded.Compressed != sc.Compressed {
		fail("snapshot-"+mode, fmt.Sprintf("compressed flag after reload %v, stored %v", loaded.Compressed, sc.Compressed))
	}
	// ---- tie: model decode of the real file = what the real loader got; model encode in file order = the file
	tieBad := ""
	ms := o.MustAsk("snapr " + vlib.Hex(file))
	f := strings.Fields(ms)
	if len(f) < 5 || f[0] != "ok" {
		tieBad = "model cannot read the file the real code wrote: " + short(ms)
	} else {
		if f[1] != b2s(loaded.Compressed) || f[2] != strconv.Itoa(int(loaded.Height)) || f[3] != vlib.Hex(loaded.Hash) || f[4] != strconv.Itoa(len(loaded.Recs)) || len(f) != 5+len(loaded.Recs) {
			tieBad = "snapshot header: model " + short(strings.Join(f[:5], " ")) + fmt.Sprintf(" loader %v %d %x %d", loaded.Compressed, loaded.Height, loaded.Hash, len(loaded.Recs))
		} else {
			for _, h := range f[5:] {
				b := vlib.UnHex(h)
				var k utxo.UtxoKeyType
				copy(k[:], b)
				if !bytes.Equal(loaded.Recs[k], b) {
					tieBad = "snapshot record set: model has a record the loader has not: " + short(h)
					break
				}
			}
		}
		if tieBad == "" {
			mw := o.MustAsk("snapw " + strings.Join(f[1:], " "))
			if mw != "ok "+vlib.Hex(file) {
				tieBad = "model re-encoding of the decoded snapshot differs from the file: " + short(mw)
			}
		}
		if tieBad == "" && len(file) > 48 && len(file) < 1<<16 {
			// the chunked-reader model of the record loop (decRecsRd, the subject of records_any_chunking) on the record area of
			// the real file, every Read cut short by a pattern taken from the file's own bytes: must list the records snapr lists
			var sb strings.Builder
			for i := 0; i < 64 && 48+i < len(file); i++ {
				if i > 0 {
					sb.WriteByte(',')
				}
				fmt.Fprint(&sb, int(file[48+i])%7)
			}
			mr := o.MustAsk("rdrecs " + f[4] + " " + vlib.Hex(file[48:]) + " " + sb.String())
			if mr != "ok "+strings.Join(f[4:], " ") {
				tieBad = "chunked-reader model (rdrecs) on the record area of the file: " + short(mr) + "; framing model (snapr): " + short(strings.Join(f[4:], " "))
			} else {
				r.Hit("snap:rdrecs=snapr")
			}
		}
	}
	if tieBad != "" {
		if !failed {
			r.TieFail("snap-model", tieBad, rep)
		}
	} else {
		r.TieOK()
	}
}

// ---------------------------------------------------------------- replay

func recFromJSON(m map[string]interface{}) *Rec {
	b, _ := json.Marshal(m)
	var rc Rec
	json.Unmarshal(b, &rc)
	t, _ := hex.DecodeString(rc.TxHex)
	copy(rc.TxID[:], t)
	for i := range rc.Live {
		rc.Live[i].Scr, _ = hex.DecodeString(rc.Live[i].Hex)
		rc.Live[i].Hex = ""
	}
	return &rc
}

func replay(path string) {
	b, err := os.ReadFile(path)
	if err != nil {
		fmt.Println("cannot read replay:", err)
		os.Exit(3)
	}
	var doc struct {
		Replay map[string]interface{} `json:"replay"`
	}
	json.Unmarshal(b, &doc)
	m := doc.Replay
	str := func(k string) string { s, _ := m[k].(string); return s }
	bl := func(k string) bool { s, _ := m[k].(bool); return s }
	switch str("kind") {
	case "amount":
		n, _ := strconv.ParseUint(str("n"), 10, 64)
		checkAmount("replay", n)
	case "damount":
		n, _ := strconv.ParseUint(str("x"), 10, 64)
		checkDecompressAmount(n)
	case "script":
		s, _ := hex.DecodeString(str("hex"))
		checkScript("replay", s)
	case "dscript":
		s, _ := hex.DecodeString(str("hex"))
		checkDecompress(s)
	case "key65":
		s, _ := hex.DecodeString(str("hex"))
		checkKey65(s)
	case "key33":
		s, _ := hex.DecodeString(str("hex"))
		checkKey33(s)
	case "rec":
		rm, _ := m["rec"].(map[string]interface{})
		rc := recFromJSON(rm)
		checkRec("replay", bl("compressed"), rc, pickVouts(r.Rng, rc), false)
	case "bytes":
		s, _ := hex.DecodeString(str("hex"))
		v, _ := m["vout"].(float64)
		checkBytes("replay", bl("compressed"), s, uint32(v))
	case "undo":
		checkUndo("replay", undoFromJSON(m))
	case "fallback":
		checkFallback("replay", fallbackFromJSON(m))
	case "static":
		checkStatic("replay", staticFromJSON(m))
	case "purge":
		// the purge walks the maps in iteration order: a failure that needs an order shows up within a few repetitions
		for i := 0; i < 40 && r.Violations() == 0; i++ {
			checkPurge("replay", purgeFromJSON(m))
		}
	case "geometry":
		checkGeometry("replay", geometryFromJSON(m))
	case "chunkread":
		checkChunkRead("replay", chunkFromJSON(m))
	case "snap":
		sc := &snapCase{Compressed: bl("compressed"), ViaCommit: bl("via_commit")}
		h, _ := m["height"].(float64)
		sc.Height = uint32(h)
		sc.Hash, _ = hex.DecodeString(str("hash"))
		rs, _ := m["recs"].([]interface{})
		for _, x := range rs {
			if rm, ok := x.(map[string]interface{}); ok {
				sc.Recs = append(sc.Recs, recFromJSON(rm))
			}
		}
		checkSnap("replay", sc)
	default:
		fmt.Println("replay: nothing to re-run for this file (proof-level violation); see its 'broken' field")
	}
}

// ---------------------------------------------------------------- main

func main() {
	if p := os.Getenv("VERIF_C10_PROBE"); p != "" {
		runProbe(p)
	}
	if p := os.Getenv("VERIF_C10_LOADDIR"); p != "" {
		runLoadDirChild(p)
	}
	r = vlib.NewRun("C10")
	var err error
	o, err = vlib.StartOracle("c10")
	if err != nil {
		fmt.Fprintln(os.Stderr, "cannot start oracle:", err)
		os.Exit(3)
	}
	defer o.Close()
	initNcKeys()
	setAlloc("goheap") // the package default behind a sanity cap on the length (see capMalloc)
	r.Assume = []string{
		"amounts of records are within 0..21e14 (the property's quantifier); CompressAmount wraps above (2^64-1)/9 — compared with the model there, not required to round-trip",
		"record keys (first 8 txid bytes) are distinct inside one snapshot (key collisions are property C04's subject)",
		"secp256k1 field arithmetic is represented in the model by plain arithmetic mod p (mathKeys); compared with ParsePubkey/IsValid/GetPublicKey on every run; KeyOps.Sound for mathKeys is PROVED without hypothesis (mathKeys_sound_unconditional: primality of p from C08's Pratt certificate); that the Go 5x52 field code computes these functions is tested here and is property C08's subject",
		"process-level effects of save() (rename UTXO.db→UTXO.old, temp file) are not modelled, only the bytes of the files are; the fallback stream lets the real save() produce both files and damages them afterwards (a crash DURING save is property C07's subject)",
		"PurgeUnspendable removes outputs on purpose (script.IsUnspendable decides which): the purge stream requires every OTHER output and record to be unchanged, it does not judge the criterion",
		"the forced schedule of the chain-undo stream (undo file serialised after db.commit() returned) is produced by wrapping the utxo.Serialize variable and the vhook point utxo.commit:after-commit; nothing but timing is changed",
		"utxo.UTXO_PURGE_UNSPENDABLE = false (the library's default) in every stream and in the model: with the flag on — the CLIENT's default configuration sets it — CommitBlockTxs strips unspendable outputs before storing and del also drops unspendable outputs that are not in the undo record, so 'stored = returned' and undo_restores_record hold only for the outputs script.IsUnspendable does not name; one class of the purge stream commits with the flag on and expects exactly the outcome of PurgeUnspendable(true)",
		"NewUnspentOpts.AbortNow = nil: with it set and true the record loop is left early and a PARTIAL database is returned as a success (the caller's business); not modelled, not driven",
		"every make(map, …) / Memory_Malloc the loader asks for returns: load_memory_bounded bounds the requests by the file's size (count ≤ size, each length ≤ size, lengths together ≤ 2·size); a machine that cannot hold the file is outside the model (the Go runtime ends the process)",
		"the loader's map-filling goroutine is folded into the reader in Model.UtxoLoad (a pack is inserted when it is sent): justified by loader_ring_safe and by the error path waiting for the goroutine before the retry (fix eab07278, property C07)",
	}
	if r.Replay != "" {
		replay(r.Replay)
		r.Finish("replay of one recorded case", "replay")
	}
	g := r.Rng
	stage := func(name string, f func(*vlib.Rng)) {
		if only := os.Getenv("VERIF_C10_ONLY"); only != "" && only != name { // development aid: one stream alone
			return
		}
		t := time.Now()
		f(g)
		r.Extra["seconds_"+name] = float64(int(time.Since(t).Seconds()*10)) / 10
		if os.Getenv("VERIF_VERBOSE") != "" {
			fmt.Fprintf(os.Stderr, "stage %s: %.1fs\n", name, time.Since(t).Seconds())
		}
	}
	stage("corpus", runCorpus)
	stage("amounts", runAmounts)
	stage("scripts", runScripts)
	stage("records", runRecords)
	stage("malformed", runMalformed)
	stage("static", runStatic)
	// geometry before snapshots: the snapshot stream's tie also runs the chunked-reader MODEL (rdrecs) over the generated
	// read shape, and a model-only disagreement there must not keep the stream that shows the failing input from running
	if r.Violations() == 0 {
		stage("geometry", runGeometry)
	} else {
		r.Hit("geometry-stream-skipped(earlier streams already failed)")
	}
	stage("snapshots", runSnapshots)
	if r.Violations() == 0 {
		stage("fallback", runFallback)
	} else {
		r.Hit("fallback-stream-skipped(earlier streams already failed)")
	}
	if r.Violations() == 0 {
		stage("undo", runUndo)
	} else {
		// CommitBlockTxs / UndoBlockTxs work in goroutines of their own: a panic there (e.g. a record that no longer decodes)
		// cannot be recovered here and would take the failures already recorded with it
		r.Hit("undo-stream-skipped(earlier streams already failed)")
	}
	r.Extra["noncanonical_keys_available"] = len(ncKeys)
	r.Finish("corpus (boundaries named in the property's quantifier) + structured generator (genRec/genScript/genAmount, all from VERIF_SEED) + malformed-bytes stream; "+
		"a case is distinct by its full input (amount / script / record line+mode / snapshot contents); fallback stream: two-save history through the real code (1..10 records, partial / full spends, new records), then UTXO.db and UTXO.old each intact / missing / cut at a position drawn per class (header, after the header, between records, length prefix, inside a record, last byte) / header count raised, UTXO.old optionally in the other format, reopened by the real loader; one pair of snapshots longer than a loader pack cut after a whole pack; undo stream: 1..10 records committed by one block, a subset of their outputs (none / one / random / all) spent by the next block which also adds records, that block undone, with the client's recycling allocator in steady state, a poisoning allocator and the Go heap, plain and compressed; one snapshot of 11..15 loader packs with concentrated keys reloaded under GOMAXPROCS 1/2/default; static stream: histories of 3..9 records (leading dense record, then any output count / sparsity, one history in 50 with a record longer than the pool, formats alternating) through NewUtxoRecStatic / NewUtxoRecStaticU, and databases of 2..13 records with unspendable outputs through PurgeUnspendable(all / not all), in memory and after Close()+reload; geometry stream: snapshots of equal-size records whose frame length divides k·256 KiB − 48 − d, so that a record starts d bytes before a multiple of 256 KiB whatever order save() writes them in — d at the record start, inside the 3- and 5-byte length prefix (both formats), between prefix and key, inside the key, the txid, the body; 1-, 3- and 5-byte prefixes; chain-undo stream: the second block of an undo case as a block of transactions (coinbase + transactions of 1..4 inputs spending the case's outputs) through chain.ProcessBlockTransactions, committed with the undo file's serialisation held until db.commit() has finished (poisoning allocator / client allocator) or unforced, then undone",
		"Each case runs on the real gocoin code; the property predicate (what was stored comes back: whole decode, single-output lookup, snapshot reload) is evaluated on the real results, "+
			"and every real result (serialised bytes, decoded record, lookup, compressed script/amount, snapshot file bytes, partly spent and undo-merged records, results of the pooled decoder) is compared with the Lean model's. "+
			"Ownership fact looked at on every chain-undo case: after ProcessBlockTransactions no script reachable from BlockChanges.UndoData lies inside a record of the UTXO maps (addresses compared); a broken fact for which no schedule produced a changed record is reported as a tie failure. "+
			"Fixed defect "+keyNonCanon+" (fix: 06ea4281, fixed: line in known_findings.txt): uncompressed P2PK keys with X or Y ≥ p used to be accepted by ParsePubkey/IsValid, compressed, and came back with reduced (and for Y ≥ p negated) coordinates; such keys are now stored verbatim. The witnesses stay in the corpus and in every stream (record, snapshot, undo) and are judged like every other script: a mismatch there is a VIOLATION under the stream's ordinary key. "+
			"Malformed bytes on which the model gives no prediction ('hang': a negative skip length walks the Go loop backwards; fuel exhausted) are still given to the real decoder (in a child process, killed after 1 s) and its outcome is recorded (bytes:model-no-prediction/…).")
}
