package main

// Wrappers around the REAL gocoin code (lib/utxo, lib/script, lib/btc) with canonical text results
// in exactly the format the Lean oracle prints.

import (
	"bytes"
	"fmt"
	"os"
	"sort"
	"strconv"
	"strings"

	"github.com/piotrnar/gocoin/lib/btc"
	"github.com/piotrnar/gocoin/lib/script"
	"github.com/piotrnar/gocoin/lib/utxo"
	"verif/vlib"
)

type Out struct {
	Idx int    `json:"idx"`
	Val uint64 `json:"val"`
	Scr []byte `json:"-"`
	Hex string `json:"scr"` // filled for replay files only
}

type Rec struct {
	TxID   [32]byte `json:"-"`
	TxHex  string   `json:"txid"`
	Height uint32   `json:"height"`
	CB     bool     `json:"cb"`
	N      int      `json:"n"`    // len(Outs)
	Live   []Out    `json:"live"` // ascending Idx
}

// setMode selects the record format exactly as NewUnspentDb does (global function variables).
func setMode(compressed bool) {
	if compressed {
		utxo.NewUtxoRecOwn = utxo.NewUtxoRecOwnC
		utxo.OneUtxoRec = utxo.OneUtxoRecC
		utxo.Serialize = utxo.SerializeC
	} else {
		utxo.NewUtxoRecOwn = utxo.NewUtxoRecOwnU
		utxo.OneUtxoRec = utxo.OneUtxoRecU
		utxo.Serialize = utxo.SerializeU
	}
}

func modeStr(c bool) string {
	if c {
		return "c"
	}
	return "u"
}

func b2s(b bool) string {
	if b {
		return "1"
	}
	return "0"
}

func (r *Rec) toUtxo() *utxo.UtxoRec {
	u := &utxo.UtxoRec{TxID: r.TxID, Coinbase: r.CB, InBlock: r.Height}
	u.Outs = make([]*utxo.UtxoTxOut, r.N)
	for _, o := range r.Live {
		u.Outs[o.Idx] = &utxo.UtxoTxOut{Value: o.Val, PKScr: o.Scr}
	}
	return u
}

// body of the canonical line shared by `ser` requests and `dec` replies
func (r *Rec) line() string {
	var sb strings.Builder
	fmt.Fprintf(&sb, "%s %d %s %d %d", vlib.Hex(r.TxID[:]), r.Height, b2s(r.CB), r.N, len(r.Live))
	for _, o := range r.Live {
		sb.WriteByte(' ')
		sb.WriteString(strconv.Itoa(o.Idx))
		sb.WriteByte(' ')
		sb.WriteString(strconv.FormatUint(o.Val, 10))
		sb.WriteByte(' ')
		sb.WriteString(vlib.Hex(o.Scr))
	}
	return sb.String()
}

func fromUtxo(u *utxo.UtxoRec) *Rec {
	r := &Rec{TxID: u.TxID, Height: u.InBlock, CB: u.Coinbase, N: len(u.Outs)}
	for i, o := range u.Outs {
		if o != nil {
			r.Live = append(r.Live, Out{Idx: i, Val: o.Value, Scr: o.PKScr})
		}
	}
	return r
}

// exact returns a copy with cap == len so that Go's "slice up to capacity" cannot hide an over-read
func exact(b []byte) []byte {
	c := make([]byte, len(b))
	copy(c, b)
	return c[:len(c):len(c)]
}

// implSer: utxo.Serialize in the current mode. nil = nil result; panicked = the call panicked.
func implSer(r *Rec) (res []byte, panicked bool) {
	defer func() {
		if e := recover(); e != nil {
			panicked = true
		}
	}()
	p := utxo.Serialize(r.toUtxo(), nil)
	if p == nil {
		return nil, false
	}
	return *p, false
}

// implDec: utxo.NewUtxoRec in the current mode
func implDec(dat []byte) (rec *Rec, panicked bool) {
	defer func() {
		if e := recover(); e != nil {
			panicked = true
			rec = nil
		}
	}()
	return fromUtxo(utxo.NewUtxoRec(exact(dat))), false
}

func decLine(rec *Rec, panicked bool) string {
	if panicked {
		return "panic"
	}
	return "ok " + rec.line()
}

// implOne: utxo.OneUtxoRec in the current mode, canonical line
func implOne(dat []byte, vout uint32) (t *btc.TxOut, line string) {
	defer func() {
		if e := recover(); e != nil {
			t, line = nil, "panic"
		}
	}()
	t = utxo.OneUtxoRec(exact(dat), vout)
	if t == nil {
		return nil, "nil"
	}
	return t, fmt.Sprintf("ok %d %s %d %d %s", t.Value, vlib.Hex(t.Pk_script), t.BlockHeight, t.VoutCount, b2s(t.WasCoinbase))
}

func implCompressScript(s []byte) (out []byte, line string) {
	defer func() {
		if e := recover(); e != nil {
			out, line = nil, "panic"
		}
	}()
	out = script.CompressScript(exact(s))
	if out == nil {
		return nil, "nil"
	}
	return out, "ok " + vlib.Hex(out)
}

func implDecompressScript(d []byte) (out []byte, line string) {
	defer func() {
		if e := recover(); e != nil {
			out, line = nil, "panic"
		}
	}()
	out = script.DecompressScript(exact(d))
	if out == nil {
		return nil, "nil"
	}
	return out, "ok " + vlib.Hex(out)
}

// ---------------------------------------------------------------- snapshot (UnspentDB.save / NewUnspentDb)

type Snap struct {
	Compressed bool
	Height     uint32
	Hash       []byte
	Recs       map[utxo.UtxoKeyType][]byte
}

func quiet(f func()) {
	old := os.Stdout
	if dn, err := os.OpenFile(os.DevNull, os.O_WRONLY, 0); err == nil {
		os.Stdout = dn
		defer func() { os.Stdout = old; dn.Close() }()
	}
	f()
}

// saveSnapshot builds a DB without a chain, fills the map with the
// given raw records and lets the real Close()/Save()/save() write UTXO.db.
func saveSnapshot(dir string, s *Snap) (err string) {
	defer func() {
		if e := recover(); e != nil {
			err = fmt.Sprint("panic: ", e)
		}
	}()
	utxo.UTXO_WRITING_TIME_TARGET = 0
	// bootstrap: an empty snapshot (header only, 0 records) written by hand, opened by the real loader.
	// (Rescan / a missing file would pre-size 256 maps for 100000 records each — ~1 GB per call.)
	hdr := make([]byte, 48)
	if s.Compressed {
		hdr[7] = 0x80
	}
	if e := os.WriteFile(dir+"UTXO.db", hdr, 0644); e != nil {
		return e.Error()
	}
	var db *utxo.UnspentDB
	quiet(func() {
		db = utxo.NewUnspentDb(&utxo.NewUnspentOpts{Dir: dir, CompressRecords: s.Compressed})
	})
	if db.ComprssedUTXO != s.Compressed || len(db.LastBlockHash) != 32 {
		return "bootstrap snapshot not loaded"
	}
	for k, v := range s.Recs {
		vv := exact(v)
		db.HashMap[k[0]][k] = &vv
	}
	db.LastBlockHeight = s.Height
	db.LastBlockHash = exact(s.Hash)
	db.DirtyDB.Set()
	quiet(db.Close)
	return ""
}

// loadSnapshot reopens the directory with the real loader. The loader switches the package-level
// codec variables itself when the file says "compressed"; the caller restores its own mode after.
func loadSnapshot(dir string) (s *Snap, db *utxo.UnspentDB, err string) {
	defer func() {
		if e := recover(); e != nil {
			err = fmt.Sprint("panic: ", e)
		}
	}()
	quiet(func() {
		db = utxo.NewUnspentDb(&utxo.NewUnspentOpts{Dir: dir})
	})
	s = &Snap{Compressed: db.ComprssedUTXO, Height: db.LastBlockHeight, Hash: db.LastBlockHash, Recs: map[utxo.UtxoKeyType][]byte{}}
	for i := range db.HashMap {
		for k, v := range db.HashMap[i] {
			s.Recs[k] = *v
		}
	}
	return s, db, ""
}

func sortedKeys(m map[utxo.UtxoKeyType][]byte) []utxo.UtxoKeyType {
	ks := make([]utxo.UtxoKeyType, 0, len(m))
	for k := range m {
		ks = append(ks, k)
	}
	sort.Slice(ks, func(i, j int) bool { return bytes.Compare(ks[i][:], ks[j][:]) < 0 })
	return ks
}
