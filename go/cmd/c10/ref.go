package main

// Independent reference (math/big): secp256k1 curve membership, canonical-coordinate test, and the
// classification of scripts used (a) to key known findings and (b) to report the input distribution.

import (
	"math/big"
)

var (
	pP, _ = new(big.Int).SetString("FFFFFFFFFFFFFFFFFFFFFFFFFFFFFFFFFFFFFFFFFFFFFFFFFFFFFFFEFFFFFC2F", 16)
	b7    = big.NewInt(7)
)

func onCurveMod(x, y *big.Int) bool {
	l := new(big.Int).Mul(y, y)
	l.Mod(l, pP)
	r := new(big.Int).Mul(x, x)
	r.Mul(r, x)
	r.Add(r, b7)
	r.Mod(r, pP)
	return l.Cmp(r) == 0
}

// sqrtMod returns a square root of a mod p, or nil
func sqrtMod(a *big.Int) *big.Int {
	return new(big.Int).ModSqrt(new(big.Int).Mod(a, pP), pP)
}

// cbrtMod returns a cube root of a mod p, or nil (p ≡ 1 mod 3: only a third of the residues have one)
func cbrtMod(a *big.Int) *big.Int {
	a = new(big.Int).Mod(a, pP)
	nine := big.NewInt(9)
	m := new(big.Int).Mod(pP, nine).Int64()
	var e *big.Int
	switch m {
	case 7:
		e = new(big.Int).Add(pP, big.NewInt(2))
		e.Div(e, nine)
	case 4:
		e = new(big.Int).Lsh(pP, 1)
		e.Add(e, big.NewInt(1))
		e.Div(e, nine)
	default:
		return nil
	}
	r := new(big.Int).Exp(a, e, pP)
	c := new(big.Int).Exp(r, big.NewInt(3), pP)
	if c.Cmp(a) == 0 {
		return r
	}
	return nil
}

func be32(x *big.Int) []byte {
	b := x.Bytes()
	out := make([]byte, 32)
	copy(out[32-len(b):], b)
	return out
}

// looks like a 67-byte "65 04 X Y ac" script (the only shape whose compression consults the curve)
func isUncompP2PKShape(s []byte) bool {
	return len(s) == 67 && s[0] == 65 && s[1] == 4 && s[66] == 0xac
}

// nonCanonicalOnCurve: uncompressed P2PK shape whose raw X or Y is ≥ p while (X mod p, Y mod p) is on
// the curve — exactly the class DESIGN §7 F2 / known finding key p2pk-noncanonical-coordinates.
func nonCanonicalOnCurve(s []byte) bool {
	if !isUncompP2PKShape(s) {
		return false
	}
	x := new(big.Int).SetBytes(s[2:34])
	y := new(big.Int).SetBytes(s[34:66])
	if x.Cmp(pP) < 0 && y.Cmp(pP) < 0 {
		return false
	}
	return onCurveMod(x, y)
}

// scriptClass names the shape of a script for the histogram
func scriptClass(s []byte) string {
	switch {
	case len(s) == 25 && s[0] == 0x76 && s[1] == 0xa9 && s[2] == 0x14 && s[23] == 0x88 && s[24] == 0xac:
		return "p2kh"
	case len(s) == 23 && s[0] == 0xa9 && s[1] == 0x14 && s[22] == 0x87:
		return "p2sh"
	case len(s) == 35 && s[0] == 33 && s[34] == 0xac && (s[1] == 2 || s[1] == 3):
		return "p2pk-compressed"
	case isUncompP2PKShape(s):
		x := new(big.Int).SetBytes(s[2:34])
		y := new(big.Int).SetBytes(s[34:66])
		canon := x.Cmp(pP) < 0 && y.Cmp(pP) < 0
		on := onCurveMod(x, y)
		switch {
		case on && canon:
			return "p2pk-uncompressed-valid"
		case on:
			return "p2pk-uncompressed-noncanonical"
		default:
			return "p2pk-uncompressed-offcurve"
		}
	case len(s) == 67 && s[0] == 65 && (s[1] == 6 || s[1] == 7) && s[66] == 0xac:
		return "p2pk-hybrid"
	}
	return "other"
}
