package main

// The case streams: corpus first, then generated, then malformed, then snapshots.

import (
	"bytes"
	"encoding/hex"
	"fmt"
	"math/big"
	"os"
	"runtime"

	"github.com/piotrnar/gocoin/lib/utxo"
	"verif/vlib"
)

func mustHex(s string) []byte {
	b, err := hex.DecodeString(s)
	if err != nil {
		panic(err)
	}
	return b
}

// the record of lib/utxo TestFullUtxoRec
const testRecord = "B26B877AF9D16E5F634C4997A8393C9496BAA14C34D73829767723D96D4AE368FE19AC0700060100166A146F6D6E69000000000000001F0000008B3B93DC0002FD22021976A914A25DEC4D0011064EF106A983C39C7A540699F22088AC"

// generator point G, uncompressed
const gX = "79be667ef9dcbbac55a06295ce870b07029bfcdb2dce28d959f2815b16f81798"
const gY = "483ada7726a3c4655da4fbfc0e1108a8fd17b448a68554199c47d08ffb10d4b8"

func corpusScripts() (out [][]byte) {
	h20 := mustHex("000102030405060708090a0b0c0d0e0f10111213")
	out = append(out, nil, []byte{0}, []byte{0x6a}, []byte{5}, []byte{0xfd}, []byte{0xff})
	out = append(out, p2kh(h20), p2sh(h20))
	// resemble P2KH / P2SH
	for _, m := range []func([]byte) []byte{
		func(s []byte) []byte { s[2] = 0x15; return s },
		func(s []byte) []byte { s[2] = 0x13; return s },
		func(s []byte) []byte { s[len(s)-1] = 0xad; return s },
		func(s []byte) []byte { s[len(s)-2] = 0x87; return s },
		func(s []byte) []byte { return append(s, 0x61) },
		func(s []byte) []byte { return s[:len(s)-1] },
		func(s []byte) []byte { s[0] = 0x77; return s },
		func(s []byte) []byte { s[1] = 0xaa; return s },
	} {
		out = append(out, m(p2kh(h20)), m(p2sh(h20)))
	}
	g65 := append(append([]byte{4}, mustHex(gX)...), mustHex(gY)...)
	g33 := append([]byte{2}, mustHex(gX)...)
	out = append(out, p2pk(g65), p2pk(g33))
	g33o := append([]byte{3}, mustHex(gX)...)
	out = append(out, p2pk(g33o))
	// −G (odd/even Y swapped)
	ny := new(big.Int).Sub(pP, new(big.Int).SetBytes(mustHex(gY)))
	out = append(out, p2pk(append(append([]byte{4}, mustHex(gX)...), be32(ny)...)))
	// hybrid, both parities
	for _, pfx := range []byte{6, 7} {
		k := append([]byte{pfx}, g65[1:]...)
		out = append(out, p2pk(k))
	}
	// off-curve
	k := append([]byte{}, g65...)
	k[64] ^= 1
	out = append(out, p2pk(k))
	out = append(out, p2pk(append([]byte{4}, make([]byte, 64)...))) // (0,0)
	// compressed key forms the compressor never validates: x = 0, x = p, x = 2^256-1, x without a point (x=5)
	for _, xs := range []*big.Int{big.NewInt(0), pP, new(big.Int).Sub(new(big.Int).Lsh(big.NewInt(1), 256), big.NewInt(1)), big.NewInt(5)} {
		out = append(out, p2pk(append([]byte{2}, be32(xs)...)), p2pk(append([]byte{3}, be32(xs)...)))
	}
	// wrong prefixes / trailing opcodes on the key forms
	for _, pfx := range []byte{0, 1, 4, 5, 6} {
		k := append([]byte{pfx}, g33[1:]...)
		out = append(out, p2pk(k))
	}
	s := p2pk(g65)
	s[66] = 0xad
	out = append(out, s)
	s = p2pk(g65)
	s[0] = 64
	out = append(out, s)
	s = p2pk(g33)
	s[34] = 0xab
	out = append(out, s)
	// DESIGN §6 C10 "Expected": non-canonical coordinates (x+p, y) and (x, y+p), every one available
	for _, nk := range ncKeys {
		kk := append(append([]byte{4}, be32(nk.X)...), be32(nk.Y)...)
		out = append(out, p2pk(kk))
	}
	// lengths at every CompactSize boundary, plain (len) and compressed (6+len)
	for _, n := range append(append([]int{}, scrLenBoundaries...), scrLenBig...) {
		b := make([]byte, n)
		for i := range b {
			b[i] = byte(i*7 + n)
		}
		out = append(out, b)
	}
	return
}

func runCorpus(g *vlib.Rng) {
	// amounts: every special value of the whole uint64 range
	for _, a := range specialAmounts(^uint64(0)) {
		checkAmount("corpus", a)
	}
	for _, a := range []uint64{^uint64(0), ^uint64(0) / 9, ^uint64(0)/9 + 1, 2049638230412172401, 2049638230412172402, 2049638230412172409, 1 << 63} {
		checkAmount("corpus", a)
	}
	for x := uint64(0); x < 200; x++ {
		checkDecompressAmount(x)
	}
	for _, x := range []uint64{^uint64(0), ^uint64(0) - 1, 1 << 63, 18446744073709551610, 1844674407370955161, 1844674407370955170} {
		checkDecompressAmount(x)
	}
	// scripts
	scrs := corpusScripts()
	for _, s := range scrs {
		checkScript("corpus", s)
	}
	// keys directly
	g65 := append(append([]byte{4}, mustHex(gX)...), mustHex(gY)...)
	checkKey65(g65)
	for _, nk := range ncKeys {
		checkKey65(append(append([]byte{4}, be32(nk.X)...), be32(nk.Y)...))
	}
	for _, xs := range []*big.Int{big.NewInt(0), big.NewInt(1), big.NewInt(5), pP, new(big.Int).Add(pP, big.NewInt(1)), new(big.Int).Sub(pP, big.NewInt(1)),
		new(big.Int).Sub(new(big.Int).Lsh(big.NewInt(1), 256), big.NewInt(1)), new(big.Int).SetBytes(mustHex(gX))} {
		checkKey33(append([]byte{2}, be32(xs)...))
		checkKey33(append([]byte{3}, be32(xs)...))
	}
	// DecompressScript directly: every type byte, right and wrong lengths
	for t := 0; t < 9; t++ {
		for _, n := range []int{1, 2, 20, 21, 22, 32, 33, 34} {
			d := make([]byte, n)
			copy(d, mustHex("00"+gX))
			d[0] = byte(t)
			checkDecompress(d)
		}
	}
	// records: the repo's own test vector through the decoders, then re-encoded
	tr := mustHex(testRecord)
	checkBytes("corpus-testvector", false, tr, 1)
	checkBytes("corpus-testvector", false, tr, 2)
	checkBytes("corpus-testvector", true, tr, 2)
	setMode(false)
	if rec, p := implDec(tr); !p {
		for _, c := range []bool{false, true} {
			checkRec("corpus-testvector", c, rec, pickVouts(g, rec), true)
		}
	}
	// one record per script of the corpus, each alone at several output positions, both modes
	var txid [32]byte
	copy(txid[:], mustHex("68e34a6dd92377762938d7344ca1ba96943c39a897494c635f6ed1f97a876bb2"))
	for i, s := range scrs {
		if len(s) > 300 && i%2 == 0 && !r.Thorough() {
			continue
		}
		idx := []int{0, 1, 252, 253}[i%4]
		rec := &Rec{TxID: txid, Height: heights[i%len(heights)], CB: i%3 == 0, N: idx + 1 + i%2, Live: []Out{{Idx: idx, Val: specialAmounts(maxMoney)[(i*37)%150], Scr: s}}}
		for _, c := range []bool{false, true} {
			checkRec("corpus-script", c, rec, pickVouts(g, rec), true)
		}
	}
	// output counts / indexes at the boundaries, sparse and dense
	ns := []int{1, 2, 126, 127, 253, 254, 30001}
	if r.Thorough() {
		ns = append(ns, 32767, 32768, 65536, 65537)
	}
	for _, n := range ns {
		for _, dense := range []bool{false, true} {
			if dense && n > 3000 && n != 30001 {
				continue // the dense record of 30001 outputs (the quantifier's upper end) runs in both tiers
			}
			rec := &Rec{TxID: txid, Height: 840000, CB: n%2 == 1, N: n}
			for i := 0; i < n; i++ {
				if dense || i == 0 || i == n-1 || i == 252 || i == 253 || i == 65535 || i == 65536 || i%1009 == 7 {
					var s []byte
					switch i % 3 {
					case 0:
						s = p2kh(g.Bytes(20))
					case 1:
						s = p2sh(g.Bytes(20))
					default:
						s = append([]byte{0, 20}, g.Bytes(20)...)
					}
					rec.Live = append(rec.Live, Out{Idx: i, Val: genAmount(g, maxMoney), Scr: s})
				}
			}
			for _, c := range []bool{false, true} {
				checkRec("corpus-count", c, rec, pickVouts(g, rec), true)
			}
		}
	}
}

func runAmounts(g *vlib.Rng) {
	n := r.N(3000, 200000)
	for i := 0; i < n; i++ {
		switch g.Intn(4) {
		case 0:
			checkAmount("random-u64", g.U64())
		default:
			checkAmount("in-range", genAmount(g, maxMoney))
		}
	}
	for i := 0; i < n/4; i++ {
		x := g.U64()
		if g.Bool() {
			x %= 200000000000000000
		}
		checkDecompressAmount(x)
	}
}

func runScripts(g *vlib.Rng) {
	n := r.N(1500, 40000)
	for i := 0; i < n; i++ {
		s, kind := genScript(g, i%50 == 0)
		checkScript(kind, s)
	}
	m := r.N(300, 5000)
	for i := 0; i < m; i++ {
		switch g.Intn(4) {
		case 0:
			k := realKey(g, false)
			if g.Bool() {
				k[1+g.Intn(64)] ^= byte(1 << uint(g.Intn(8)))
			}
			checkKey65(k)
		case 1:
			checkKey65(append([]byte{4}, g.Bytes(64)...))
		case 2:
			checkKey33(realKey(g, true))
		default:
			checkKey33(append([]byte{byte(2 + g.Intn(2))}, g.Bytes(32)...))
		}
	}
	for i := 0; i < m; i++ {
		d := g.Bytes(g.Pick(21, 33, 33, 1+g.Intn(40)))
		d[0] = byte(g.Intn(8))
		checkDecompress(d)
	}
}

func runRecords(g *vlib.Rng) {
	n := r.N(500, 8000)
	for i := 0; i < n; i++ {
		maxN, budget := 3000, 20000
		if i%40 == 0 {
			maxN, budget = 30001, 300000
		}
		if r.Thorough() && i%400 == 0 {
			maxN, budget = 70000, 600000
		}
		rec := genRec(g, maxN, budget)
		// (the model's whole-record decoders run on arrays in compiled code — @[csimp] newRecU_csimp / newRecC_csimp —
		// so dense records need no thinning any more)
		vouts := pickVouts(g, rec)
		for _, sc := range rec.Live {
			if len(rec.Live) < 50 {
				r.Hit("rec-script:" + scriptClass(sc.Scr))
			}
		}
		if i < 6 {
			r.Sample(recReplay("rec", i%2 == 1, sampleRec(rec)))
		}
		checkRec("generated", false, rec, vouts, true)
		checkRec("generated", true, rec, vouts, true)
	}
}

func sampleRec(rec *Rec) *Rec {
	c := *rec
	if len(c.Live) > 3 {
		c.Live = c.Live[:3]
	}
	for i := range c.Live {
		if len(c.Live[i].Scr) > 80 {
			c.Live[i].Scr = c.Live[i].Scr[:80]
		}
	}
	return &c
}

// truncated / mutated serialisations (model-vs-code only)
func runMalformed(g *vlib.Rng) {
	n := r.N(400, 8000)
	for i := 0; i < n; i++ {
		rec := genRec(g, 40, 2000)
		compressed := g.Bool()
		setMode(compressed)
		ser, p := implSer(rec)
		if p || ser == nil {
			continue
		}
		dat := append([]byte{}, ser...)
		kind := ""
		switch g.Intn(5) {
		case 0:
			dat = dat[:g.Intn(len(dat))]
			kind = "truncated"
		case 1:
			pos := 32 + g.Intn(len(dat)-32)
			dat[pos] ^= byte(1 << uint(g.Intn(8)))
			kind = "bitflip"
		case 2:
			pos := 32 + g.Intn(len(dat)-32)
			dat[pos] = byte(g.Pick(0, 1, 5, 6, 0xfc, 0xfd, 0xfe, 0xff))
			kind = "marker-byte"
		case 3:
			dat = append(dat, g.Bytes(1+g.Intn(5))...)
			kind = "trailing"
		default:
			// decode with the OTHER mode's decoder
			compressed = !compressed
			kind = "wrong-mode"
		}
		// 9-byte CompactSize values with the top bit set make a Go int negative (walks backwards): excluded
		v := uint32(g.Intn(rec.N + 2))
		checkBytes(kind, compressed, dat, v)
	}
}

func runSnapshots(g *vlib.Rng) {
	var hash [32]byte
	mk := func(k int, maxN, budget int) []*Rec {
		seen := map[[8]byte]bool{}
		var out []*Rec
		for len(out) < k {
			rc := genRec(g, maxN, budget)
			var k8 [8]byte
			copy(k8[:], rc.TxID[:])
			if seen[k8] {
				continue
			}
			seen[k8] = true
			// snapshots go through UnspentGet only at a few positions; keep the records small
			out = append(out, rc)
		}
		return out
	}
	sizes := []int{0, 1, 2, 3, 40, 300}
	if r.Thorough() {
		sizes = append(sizes, 5000, 70000) // 70000 > RECS_PACK_SIZE (0x10000) of the loader
	}
	for _, k := range sizes {
		for _, c := range []bool{false, true} {
			copy(hash[:], g.Bytes(32))
			maxN, budget := 300, 70000 // one record may exceed save()'s 64 KiB buffer
			if k > 1000 {
				maxN, budget = 4, 200
			}
			sc := &snapCase{Compressed: c, Height: genHeight(g), Hash: append([]byte{}, hash[:]...), Recs: mk(k, maxN, budget)}
			checkSnap("raw", sc)
		}
	}
	if r.Violations() == 0 {
		bigSnapshot(g)
	} else {
		r.Hit("snap:big-snapshot-skipped(earlier cases already failed)")
	}
	// through the public API of a fresh database (no UTXO.db yet, CompressRecords from the configuration)
	for _, k := range []int{1, 5, 100} {
		for _, c := range []bool{false, true} {
			copy(hash[:], g.Bytes(32))
			sc := &snapCase{Compressed: c, Height: 1 + uint32(g.Intn(1000)), Hash: append([]byte{}, hash[:]...), Recs: mk(k, 20, 3000), ViaCommit: true}
			checkSnap("fresh-db-commit", sc)
		}
	}
}

// bigSnapshot: the loader of UTXO.db reads the file into a ring of BUFFERS_CNT static buffers of RECS_PACK_SIZE records
// each and hands full packs to ONE map-filling goroutine through a channel. A snapshot with more records than the whole
// ring holds (> 6 * 65536) is needed for the reader to come round to a buffer again; here it is about two rings long, the
// keys are concentrated in one or two of the 256 maps (the loader pre-sizes every map for count/256 records, so these maps
// must grow while they are filled and the consumer is slower than the reader), and the reload is repeated under
// GOMAXPROCS 1, 2 and the default (with one P the consumer is preempted in the middle of a pack and the reader runs a whole
// time slice ahead: measured on a tree with CHANNEL_SIZE = BUFFERS_CNT-1 this loses records on nearly every reload). Property predicate only (every stored record is found,
// byte-identical; count; header); the framing of the file is tied to the model by the smaller snapshots. Theorem side:
// Props.C10.loader_ring_safe over the constants gen_c10 reads from the source.
func bigSnapshot(g *vlib.Rng) {
	nrec := (11+g.Intn(4))*0x10000 + g.Intn(0x10000) // 11 .. 15 packs: the reader comes round the ring at least once more
	compressed := g.Bool()
	setMode(compressed)
	defer setMode(false)
	stored := make(map[utxo.UtxoKeyType][]byte, nrec)
	firsts := []byte{byte(g.Intn(256))}
	if g.Chance(1, 3) {
		firsts = append(firsts, byte(g.Intn(256)))
	}
	height := genHeight(g)
	for len(stored) < nrec {
		u := &utxo.UtxoRec{InBlock: uint32(1 + g.Intn(800000)), Coinbase: g.Intn(50) == 0}
		copy(u.TxID[:], g.Bytes(32))
		u.TxID[0] = firsts[g.Intn(len(firsts))]
		n := 1 + g.Intn(3)
		u.Outs = make([]*utxo.UtxoTxOut, n)
		u.Outs[g.Intn(n)] = &utxo.UtxoTxOut{Value: uint64(g.Intn(1 << 30)), PKScr: g.Bytes(g.Pick(0, 1, 5, 22, 23, 25))}
		p := utxo.Serialize(u, nil)
		var k utxo.UtxoKeyType
		copy(k[:], u.TxID[:])
		stored[k] = exact(*p)
	}
	r.Eval("snap-"+modeStr(compressed)+":big", fmt.Sprint("big", nrec, compressed, height, firsts))
	r.Hit(fmt.Sprintf("snap:records≤%d", bucket(nrec)))
	rep := map[string]interface{}{"kind": "bigsnap", "records": nrec, "compressed": compressed, "note": "re-run the snapshots stream with the recorded seed"}
	dir, err := os.MkdirTemp("", "vc10")
	if err != nil {
		fmt.Fprintln(os.Stderr, "tempdir:", err)
		os.Exit(3)
	}
	defer os.RemoveAll(dir)
	dir += string(os.PathSeparator)
	hash := g.Bytes(32)
	if e := saveSnapshot(dir, &Snap{Compressed: compressed, Height: height, Hash: hash, Recs: stored}); e != "" {
		r.PropFail("snapshot-"+modeStr(compressed), "saving a snapshot of "+fmt.Sprint(nrec)+" records: "+e, rep)
		return
	}
	prev := runtime.GOMAXPROCS(0)
	defer runtime.GOMAXPROCS(prev)
	for _, procs := range []int{1, 2, prev, 1, 2, 1} { // schedule-dependent: on a loaded machine a single reload of a lapping ring can come out complete
		setMode(false)
		loaded, _, e := loadSnapshotT(dir, procs)
		if e != "" {
			r.PropFail("snapshot-"+modeStr(compressed), fmt.Sprintf("reloading a snapshot of %d records (GOMAXPROCS %d): %s", nrec, procs, e), rep)
			return
		}
		r.Hit(fmt.Sprintf("snap:big-reload-gomaxprocs-%d", procs))
		missing, wrong := 0, 0
		for k, v := range stored {
			got, ok := loaded.Recs[k]
			if !ok {
				missing++
			} else if !bytes.Equal(got, v) {
				wrong++
			}
		}
		if missing > 0 || wrong > 0 || len(loaded.Recs) != nrec || loaded.Height != height || !bytes.Equal(loaded.Hash, hash) || loaded.Compressed != compressed {
			r.PropFail("snapshot-"+modeStr(compressed), fmt.Sprintf("a snapshot of %d records (%.1f packs of the loader's ring) reloaded with GOMAXPROCS %d holds %d records: %d of the stored ones are missing, %d differ; header %d/%v (stored %d/%v)",
				nrec, float64(nrec)/65536, procs, len(loaded.Recs), missing, wrong, loaded.Height, loaded.Compressed, height, compressed), rep)
			return
		}
	}
}
