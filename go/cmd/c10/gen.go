package main

// Generators: everything random derives from the one vlib.Rng (VERIF_SEED).

import (
	"math/big"

	"github.com/piotrnar/gocoin/lib/btc"
	"verif/vlib"
)

const maxMoney = 2100000000000000

// ---------------------------------------------------------------- keys

// noncanonical on-curve coordinates: raw X = x+p with small x, or raw Y = y+p with small y
type ncKey struct{ X, Y *big.Int }

var ncKeys []ncKey

func initNcKeys() {
	lim := int64(300)
	for x := int64(0); x < lim; x++ {
		bx := big.NewInt(x)
		c := new(big.Int).Exp(bx, big.NewInt(3), nil)
		c.Add(c, b7)
		if y := sqrtMod(c); y != nil {
			xr := new(big.Int).Add(bx, pP)
			ncKeys = append(ncKeys, ncKey{xr, y}, ncKey{xr, new(big.Int).Sub(pP, y)})
		}
	}
	for y := int64(1); y < lim; y++ {
		by := big.NewInt(y)
		c := new(big.Int).Mul(by, by)
		c.Sub(c, b7)
		if x := cbrtMod(c); x != nil {
			ncKeys = append(ncKeys, ncKey{x, new(big.Int).Add(by, pP)})
		}
	}
}

func realKey(g *vlib.Rng, compressed bool) []byte {
	for {
		priv := g.Bytes(32)
		priv[0] &= 0x7f // < n
		if g.Chance(1, 8) {
			// small scalars: 1·G, 2·G, …
			priv = make([]byte, 32)
			priv[31] = byte(1 + g.Intn(20))
		}
		if k := btc.PublicFromPrivate(priv, compressed); k != nil {
			return k
		}
	}
}

func p2pk(key []byte) []byte {
	s := append([]byte{byte(len(key))}, key...)
	return append(s, 0xac)
}

// ---------------------------------------------------------------- scripts

var scrLenBoundaries = []int{0, 1, 5, 6, 246, 247, 252, 253}
var scrLenBig = []int{65529, 65530, 65535, 65536}

func randScript(g *vlib.Rng, n int) []byte {
	s := g.Bytes(n)
	if n > 0 && g.Chance(1, 3) {
		// first byte in the range of the compressed-script type bytes / CompactSize markers
		s[0] = byte(g.Pick(0, 1, 2, 3, 4, 5, 6, 0xfc, 0xfd, 0xfe, 0xff))
	}
	return s
}

func p2kh(h []byte) []byte {
	return append(append([]byte{0x76, 0xa9, 0x14}, h...), 0x88, 0xac)
}
func p2sh(h []byte) []byte { return append(append([]byte{0xa9, 0x14}, h...), 0x87) }

// genScript returns a script and the generator's name for it. allowBig=false keeps it under 300 bytes.
func genScript(g *vlib.Rng, allowBig bool) ([]byte, string) {
	switch g.Intn(20) {
	case 0:
		if allowBig && g.Chance(1, 2) {
			return randScript(g, scrLenBig[g.Intn(len(scrLenBig))]), "len-boundary-big"
		}
		return randScript(g, scrLenBoundaries[g.Intn(len(scrLenBoundaries))]), "len-boundary"
	case 1:
		return randScript(g, scrLenBoundaries[g.Intn(len(scrLenBoundaries))]), "len-boundary"
	case 2, 3:
		return p2kh(g.Bytes(20)), "p2kh"
	case 4, 5:
		return p2sh(g.Bytes(20)), "p2sh"
	case 6:
		return p2pk(realKey(g, true)), "p2pk-compressed-real"
	case 7:
		// 02/03 ‖ arbitrary X (the compressor never validates compressed keys)
		k := append([]byte{byte(2 + g.Intn(2))}, g.Bytes(32)...)
		if g.Chance(1, 3) {
			copy(k[1:], be32(new(big.Int).Add(pP, big.NewInt(int64(g.Intn(1000))))))
		}
		return p2pk(k), "p2pk-compressed-arbitrary-x"
	case 8, 9:
		return p2pk(realKey(g, false)), "p2pk-uncompressed-real"
	case 10:
		k := realKey(g, false)
		switch g.Intn(3) {
		case 0:
			k[1+g.Intn(64)] ^= byte(1 << uint(g.Intn(8)))
		case 1:
			copy(k[33:], g.Bytes(32))
		default:
			copy(k[1:], g.Bytes(64))
		}
		return p2pk(k), "p2pk-uncompressed-offcurve"
	case 11:
		k := realKey(g, false)
		k[0] = byte(6 + g.Intn(2)) // parity may or may not match
		return p2pk(k), "p2pk-hybrid"
	case 12:
		if len(ncKeys) > 0 {
			nk := ncKeys[g.Intn(len(ncKeys))]
			k := append([]byte{4}, be32(nk.X)...)
			k = append(k, be32(nk.Y)...)
			return p2pk(k), "p2pk-noncanonical"
		}
		return p2pk(realKey(g, false)), "p2pk-uncompressed-real"
	case 13, 14:
		return resemble(g), "resembles-special"
	case 15:
		switch g.Intn(3) {
		case 0:
			return append([]byte{0, 20}, g.Bytes(20)...), "p2wpkh"
		case 1:
			return append([]byte{0, 32}, g.Bytes(32)...), "p2wsh"
		}
		return append([]byte{0x51, 32}, g.Bytes(32)...), "p2tr"
	}
	return randScript(g, 2+g.Intn(90)), "random-short"
}

// resemble: a special-form script with one defect (wrong length byte, wrong trailing opcode,
// one byte more / fewer, wrong key prefix)
func resemble(g *vlib.Rng) []byte {
	var s []byte
	switch g.Intn(4) {
	case 0:
		s = p2kh(g.Bytes(20))
	case 1:
		s = p2sh(g.Bytes(20))
	case 2:
		s = p2pk(realKey(g, true))
	default:
		s = p2pk(realKey(g, false))
	}
	switch g.Intn(7) {
	case 0: // wrong length / push byte somewhere in the fixed positions
		pos := g.Pick(0, 1, 2)
		if pos < len(s) {
			s[pos] ^= byte(1 << uint(g.Intn(8)))
		}
	case 1: // wrong trailing opcode
		s[len(s)-1] ^= byte(1 << uint(g.Intn(8)))
	case 2: // second to last (0x88 of P2KH, else key/hash byte)
		s[len(s)-2] ^= byte(1 + g.Intn(255))
	case 3: // one byte more
		s = append(s, byte(g.U64()))
	case 4: // one byte fewer
		s = s[:len(s)-1]
	case 5: // one byte fewer at the front
		s = s[1:]
	default: // key prefix byte / hash-length byte
		if len(s) > 2 {
			s[1] = byte(g.Pick(0, 1, 2, 3, 4, 5, 6, 7, 0x14, 0x15, 0x13, 0x21, 0x41))
		}
	}
	return s
}

// ---------------------------------------------------------------- amounts

var pow10 [20]uint64

func init() {
	pow10[0] = 1
	for i := 1; i < 20; i++ {
		pow10[i] = pow10[i-1] * 10
	}
}

// specialAmounts: every power of ten, every d·10^e, neighbours, up to lim (inclusive)
func specialAmounts(lim uint64) []uint64 {
	seen := map[uint64]bool{}
	var out []uint64
	add := func(v uint64) {
		if v <= lim && !seen[v] {
			seen[v] = true
			out = append(out, v)
		}
	}
	add(0)
	for e := 0; e < 20; e++ {
		for d := uint64(1); d <= 9; d++ {
			if pow10[e] > ^uint64(0)/d {
				continue
			}
			v := d * pow10[e]
			add(v)
			add(v - 1)
			if v < ^uint64(0) {
				add(v + 1)
			}
			if v <= ^uint64(0)-pow10[e]/10 && e > 0 {
				add(v + pow10[e]/10) // d.1 × 10^e
			}
		}
	}
	for _, v := range []uint64{546, 5000000000, 2500000000, 1250000000, 123456789, 1234567890, 987654321, 1111111111,
		9999999999, 100000001, 1000000010, maxMoney, maxMoney - 1, maxMoney + 1, 2099999997690000} {
		add(v)
	}
	return out
}

func genAmount(g *vlib.Rng, lim uint64) uint64 {
	switch g.Intn(6) {
	case 0:
		sp := specialAmounts(lim)
		return sp[g.Intn(len(sp))]
	case 1, 2:
		// random mantissa × 10^e
		e := g.Intn(17)
		m := g.U64() % 100000
		if m == 0 {
			m = 1
		}
		for pow10[e] > lim/m && e > 0 {
			e--
		}
		v := m * pow10[e]
		if v > lim {
			v = lim
		}
		return v
	case 3:
		return g.U64() % 100000 // dust-sized
	}
	return g.U64() % (lim + 1)
}

// ---------------------------------------------------------------- records

var heights = []uint32{0, 1, 252, 253, 254, 65535, 65536, 502809, 840000, 0xffffffff, 0x7fffffff}

func genHeight(g *vlib.Rng) uint32 {
	if g.Chance(1, 3) {
		return heights[g.Intn(len(heights))]
	}
	return uint32(g.Intn(1000000))
}

// output counts: around the CompactSize boundaries of `2*n+cb` (126/127, 32767/32768) and of the
// output index (252/253 need n ≥ 254), the quantifier's upper end 30001, small ones mostly
func genN(g *vlib.Rng, maxN int) int {
	var n int
	switch g.Intn(10) {
	case 0:
		n = g.Pick(126, 127, 128, 252, 253, 254, 255, 256)
	case 1:
		n = g.Pick(300, 1000, 3000, 30000, 30001, 32767, 32768, 65535, 65536, 65537, 70000)
	case 2:
		n = 1 + g.Intn(3000)
	case 3, 4:
		n = 1
	default:
		n = 1 + g.Intn(12)
	}
	for n > maxN {
		n = 1 + n/3
	}
	return n
}

// genRec: a well-formed record with ≥ 1 live output. byteBudget bounds the total script bytes.
func genRec(g *vlib.Rng, maxN int, byteBudget int) *Rec {
	r := &Rec{}
	copy(r.TxID[:], g.Bytes(32))
	r.Height = genHeight(g)
	r.CB = g.Bool()
	r.N = genN(g, maxN)
	// which outputs survive
	live := map[int]bool{}
	switch g.Intn(6) {
	case 0: // all
		for i := 0; i < r.N; i++ {
			live[i] = true
		}
	case 1: // exactly one, at an end or anywhere
		live[g.Pick(0, r.N-1, g.Intn(r.N))] = true
	case 2: // first and last
		live[0] = true
		live[r.N-1] = true
	default:
		den := g.Pick(2, 2, 10, 100, 1000)
		for i := 0; i < r.N; i++ {
			if g.Intn(den) == 0 {
				live[i] = true
			}
		}
		// survivors right at index boundaries
		for _, b := range []int{252, 253, 65535, 65536} {
			if b < r.N && g.Bool() {
				live[b] = true
			}
		}
	}
	if len(live) == 0 {
		live[g.Intn(r.N)] = true
	}
	for i := 0; i < r.N; i++ {
		if !live[i] {
			continue
		}
		s, _ := genScript(g, byteBudget > 140000)
		if len(s) > byteBudget {
			s = p2kh(g.Bytes(20))
		}
		byteBudget -= len(s)
		if byteBudget < 0 {
			byteBudget = 0
		}
		r.Live = append(r.Live, Out{Idx: i, Val: genAmount(g, maxMoney), Scr: s})
	}
	return r
}
