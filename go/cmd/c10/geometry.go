package main

// geometry.go — "… and after being written to and reloaded from the snapshot file", for the way the file is CUT INTO READS.
// NewUnspentDb reads UTXO.db through a read-ahead buffer (bufio.NewReaderSize): every element of a record's frame
// (CompactSize marker | 2/4 length bytes | 8 key bytes | rest of the record) is fetched with a call of its own, and a call
// that finds the buffer nearly empty may be served in pieces. Whether a frame element lies across a refill of the buffer
// depends on the absolute position of the record in the file — on the sizes of all records before it, in the map-iteration
// order save() happened to write them. This stream makes the position independent of that order: a snapshot of records
// that all serialise to the SAME number of bytes (frame F = prefix + record), F a divisor of k·B − 48 − d, so that some
// record starts exactly d bytes before the k-th multiple of B whatever the order (48 = header; B = 256 KiB, a multiple of
// every smaller power-of-two buffer size; k up to 16 also reaches buffers of 512 KiB .. 4 MiB). d walks through the frame:
// record start, between the marker and the length bytes, between the length bytes, between prefix and key, inside the
// key, inside the body, last byte; prefix classes 1, 3 and 5 bytes (records < 253, 253..65535, >= 65536 bytes); plain and
// compressed format. The snapshot is written by the real save() and reopened by the real loader; predicate: header and
// record set byte-identical, outputs back through UnspentGet; files up to 1 MiB are also decoded by the model (snapr).
// Theorem side: Props.C10.read_vlen_any_chunking over the read facts gen_c10 takes from btc.ReadVLen.

import (
	"bytes"
	"encoding/binary"
	"encoding/hex"
	"fmt"
	"io"
	"os"
	"strconv"
	"strings"

	"github.com/piotrnar/gocoin/lib/btc"
	"github.com/piotrnar/gocoin/lib/utxo"
	"verif/vlib"
)

const geomUnit = 0x40000 // 256 KiB

type geomCase struct {
	Compressed bool
	Height     uint32
	Hash       []byte
	RecSize    int // every record serialises to exactly this many bytes
	Count      int
	RecSeed    uint64 // the records are drawn from this seed (a replay file stays small)
	K, D       int    // informational: which multiple of 256 KiB, how far into the frame
}

func (gc *geomCase) replay() map[string]interface{} {
	return map[string]interface{}{"kind": "geometry", "compressed": gc.Compressed, "height": gc.Height, "hash": hex.EncodeToString(gc.Hash),
		"rec_size": gc.RecSize, "count": gc.Count, "rec_seed": strconv.FormatUint(gc.RecSeed, 10), "k": gc.K, "d": gc.D}
}

func geometryFromJSON(m map[string]interface{}) *geomCase {
	gc := &geomCase{}
	gc.Compressed, _ = m["compressed"].(bool)
	f := func(k string) int { v, _ := m[k].(float64); return int(v) }
	gc.Height = uint32(f("height"))
	hs, _ := m["hash"].(string)
	gc.Hash, _ = hex.DecodeString(hs)
	gc.RecSize, gc.Count, gc.K, gc.D = f("rec_size"), f("count"), f("k"), f("d")
	ss, _ := m["rec_seed"].(string)
	gc.RecSeed, _ = strconv.ParseUint(ss, 10, 64)
	return gc
}

func prefixLen(recSize int) int {
	switch {
	case recSize < 0xfd:
		return 1
	case recSize < 0x10000:
		return 3
	}
	return 5
}

// sizedRec: a well-formed record (a few generated outputs + one filler output with a raw script) whose serialisation in
// the given format has exactly size bytes; nil when this draw cannot be tuned to the size (the caller draws again)
func sizedRec(g *vlib.Rng, compressed bool, size int) *Rec {
	setMode(compressed)
	rc := genRec(g, 12, g.Pick(0, 60, 150))
	if size < 200 {
		rc = &Rec{TxID: rc.TxID, Height: rc.Height, CB: rc.CB, N: 1 + g.Intn(3)}
	}
	// the filler takes a free index (or extends the record by one)
	used := map[int]bool{}
	for _, ot := range rc.Live {
		used[ot.Idx] = true
	}
	idx := -1
	for i := 0; i < rc.N; i++ {
		if !used[i] {
			idx = i
			break
		}
	}
	if idx < 0 {
		idx = rc.N
		rc.N++
	}
	filler := Out{Idx: idx, Val: genAmount(g, maxMoney)}
	rc.Live = append(rc.Live, filler)
	for i := len(rc.Live) - 1; i > 0 && rc.Live[i-1].Idx > rc.Live[i].Idx; i-- {
		rc.Live[i-1], rc.Live[i] = rc.Live[i], rc.Live[i-1]
	}
	at := 0
	for i := range rc.Live {
		if rc.Live[i].Idx == idx {
			at = i
		}
	}
	L := 0
	for it := 0; it < 8; it++ {
		s := make([]byte, L)
		if L > 0 {
			copy(s, g.Bytes(64))
			for i := 64; i < L; i++ {
				s[i] = byte(i*31 + L)
			}
			s[0] = 0x51 // neither a template nor a data carrier
		}
		rc.Live[at].Scr = s
		ser, p := implSer(rc)
		if p || ser == nil {
			return nil
		}
		if len(ser) == size {
			return rc
		}
		L += size - len(ser)
		if L < 0 {
			return nil
		}
	}
	return nil
}

// pickGeometry: record size and count such that a frame starts d bytes before k·256 KiB; ok=false if no divisor fits
func pickGeometry(g *vlib.Rng, plen int, dsel int) (recSize, count, k, d int, ok bool) {
	lo, hi := 40, 252
	switch plen {
	case 3:
		lo, hi = 253, 3000
	case 5:
		lo, hi = 65536, 150000
	}
	ks := []int{1, 2, 3, 4, 8, 5, 6, 7, 12, 16, 9, 10, 11, 13, 14, 15}
	if g.Chance(1, 3) {
		ks[0], ks[1+g.Intn(4)] = ks[1+g.Intn(4)], ks[0]
	}
	for _, kk := range ks {
		// d: 0 = the boundary is the record's first byte; 1..plen-1 inside the prefix; plen = first key byte; …
		var dd int
		switch dsel {
		case 0:
			dd = 0
		case 1:
			dd = 1 // marker | length bytes (plen 1: prefix | key)
		case 2:
			dd = plen - 1 // before the last length byte
		case 3:
			dd = 1 + g.Intn(plen) // anywhere in prefix .. first key byte
		case 4:
			dd = plen // prefix | key
		case 5:
			dd = plen + 1 + g.Intn(7) // inside the key
		case 6:
			dd = plen + 8 + g.Intn(24) // inside the rest of the txid
		default:
			dd = plen + 32 + g.Intn(lo-32) // inside the body
		}
		n := kk*geomUnit - 48 - dd
		var cands []int
		for f := 1; f*f <= n; f++ {
			if n%f == 0 {
				for _, F := range []int{f, n / f} {
					if F-plen >= lo && F-plen <= hi && dd < F && n/F <= 12000 {
						cands = append(cands, F)
					}
				}
			}
		}
		if len(cands) > 0 {
			F := cands[g.Intn(len(cands))]
			return F - plen, n/F + 1 + g.Intn(4), kk, dd, true
		}
	}
	return 0, 0, 0, 0, false
}

func checkGeometry(kind string, gc *geomCase) {
	mode := modeStr(gc.Compressed)
	rep := gc.replay()
	plen := prefixLen(gc.RecSize)
	r.Eval("geometry-"+mode+":"+kind, fmt.Sprint(mode, gc.RecSize, gc.Count, gc.RecSeed, gc.Height))
	r.Hit(fmt.Sprintf("geometry:prefix-%d-bytes", plen))
	defer setMode(false)
	rg := vlib.NewRng(gc.RecSeed)
	stored := make(map[utxo.UtxoKeyType][]byte, gc.Count)
	var recs []*Rec
	for tries := 0; len(stored) < gc.Count && tries < 40*gc.Count+200; tries++ {
		rc := sizedRec(rg, gc.Compressed, gc.RecSize)
		if rc == nil {
			continue
		}
		var k utxo.UtxoKeyType
		copy(k[:], rc.TxID[:])
		if _, dup := stored[k]; dup {
			continue
		}
		b, _ := implSer(rc)
		stored[k] = exact(b)
		if len(recs) < 24 {
			recs = append(recs, rc)
		}
	}
	if len(stored) < gc.Count {
		r.Hit("geometry:size-not-reachable(skipped)")
		return
	}
	// where the frames lie, whatever the order: report the phase that was aimed at
	F := gc.RecSize + plen
	for i := 0; i < gc.Count; i++ {
		st := 48 + i*F
		if (st/geomUnit) != ((st+F-1)/geomUnit) || st%geomUnit == 0 {
			dd := (geomUnit - st%geomUnit) % geomUnit
			switch {
			case dd == 0:
				r.Hit("geometry:256K-multiple-at-record-start")
			case dd < plen:
				r.Hit(fmt.Sprintf("geometry:256K-multiple-inside-%d-byte-prefix", plen))
			case dd == plen:
				r.Hit("geometry:256K-multiple-between-prefix-and-key")
			case dd < plen+8:
				r.Hit("geometry:256K-multiple-inside-key")
			default:
				r.Hit("geometry:256K-multiple-inside-record-body")
			}
		}
	}
	dir, err := os.MkdirTemp("", "vc10")
	if err != nil {
		fmt.Fprintln(os.Stderr, "tempdir:", err)
		os.Exit(3)
	}
	defer os.RemoveAll(dir)
	dir += string(os.PathSeparator)
	failed := false
	fail := func(what string) {
		if !failed {
			failed = true
			r.PropFail("snapshot-geometry-"+mode, what+fmt.Sprintf(" (%d records of %d bytes each, %d-byte length prefix, file %d bytes, compressed %v; aimed: the %d-th multiple of 256 KiB %d bytes into a frame)",
				gc.Count, gc.RecSize, plen, 48+gc.Count*F, gc.Compressed, gc.K, gc.D), rep)
		}
	}
	setMode(gc.Compressed)
	if e := saveSnapshot(dir, &Snap{Compressed: gc.Compressed, Height: gc.Height, Hash: gc.Hash, Recs: stored}); e != "" {
		fail("saving the snapshot: " + e)
		return
	}
	setMode(false)
	file, ferr := os.ReadFile(dir + "UTXO.db")
	if ferr != nil || len(file) != 48+gc.Count*F {
		fail(fmt.Sprintf("UTXO.db after Close(): %v, %d bytes", ferr, len(file)))
		return
	}
	var loaded *Snap
	var db *utxo.UnspentDB
	var e string
	noStderr(func() { loaded, db, e = loadSnapshotT(dir, 0) })
	if e != "" {
		fail("reloading the snapshot: " + e)
		return
	}
	if loaded.Height != gc.Height || !bytes.Equal(loaded.Hash, gc.Hash) || loaded.Compressed != gc.Compressed {
		fail(fmt.Sprintf("header after reload: height %d hash %x compressed %v, stored %d %x %v", loaded.Height, loaded.Hash, loaded.Compressed, gc.Height, gc.Hash, gc.Compressed))
	}
	if len(loaded.Recs) != len(stored) {
		fail(fmt.Sprintf("%d records after reload, %d stored", len(loaded.Recs), len(stored)))
	}
	for _, k := range sortedKeys(stored) {
		if failed {
			break
		}
		got, ok := loaded.Recs[k]
		if !ok {
			fail(fmt.Sprintf("record %x is missing after reload", k))
		} else if !bytes.Equal(got, stored[k]) {
			fail(fmt.Sprintf("record %x differs after reload: %d bytes, stored %d", k, len(got), len(stored[k])))
		}
	}
	for _, rc := range recs {
		if failed {
			break
		}
		for _, ot := range rc.Live {
			var t *btc.TxOut
			func() {
				defer func() { recover() }()
				t = db.UnspentGet(&btc.TxPrevOut{Hash: rc.TxID, Vout: uint32(ot.Idx)})
			}()
			if t == nil || t.Value != ot.Val || !bytes.Equal(t.Pk_script, ot.Scr) || t.BlockHeight != rc.Height || t.WasCoinbase != rc.CB {
				fail(fmt.Sprintf("after save+reload UnspentGet(%x:%d) is not the stored output", rc.TxID[:8], ot.Idx))
				break
			}
		}
	}
	if failed {
		return
	}
	if len(file) > 1<<20 {
		r.TieOK() // predicate only (the framing is tied to the model by the smaller files)
		return
	}
	ms := o.MustAsk("snapr " + vlib.Hex(file))
	f := strings.Fields(ms)
	tieBad := ""
	if len(f) < 5 || f[0] != "ok" {
		tieBad = "model cannot read the file the real code wrote: " + short(ms)
	} else if f[1] != b2s(loaded.Compressed) || f[2] != strconv.Itoa(int(loaded.Height)) || f[3] != vlib.Hex(loaded.Hash) || f[4] != strconv.Itoa(len(loaded.Recs)) || len(f) != 5+len(loaded.Recs) {
		tieBad = "snapshot header: model " + short(strings.Join(f[:5], " ")) + fmt.Sprintf(" loader %v %d %x %d", loaded.Compressed, loaded.Height, loaded.Hash, len(loaded.Recs))
	} else {
		for _, h := range f[5:] {
			b := vlib.UnHex(h)
			var k utxo.UtxoKeyType
			copy(k[:], b)
			if !bytes.Equal(loaded.Recs[k], b) {
				tieBad = "snapshot record set: model has a record the loader has not: " + short(h)
				break
			}
		}
	}
	if tieBad != "" {
		r.TieFail("snap-model", tieBad, rep)
		return
	}
	r.TieOK()
}

func runGeometry(g *vlib.Rng) {
	runChunkRead(g)
	type sel struct{ plen, dsel int }
	var plan []sel
	for _, plen := range []int{3, 5, 1} {
		for dsel := 0; dsel <= 7; dsel++ {
			if plen == 1 && (dsel == 2 || dsel == 3) {
				continue // a 1-byte prefix has no inside
			}
			if plen == 5 && dsel >= 5 && !r.Thorough() && dsel != 5+g.Intn(3) {
				continue // quick: one of the key / txid / body positions for the large records
			}
			plan = append(plan, sel{plen, dsel})
		}
	}
	rounds := r.N(1, 6)
	for round := 0; round < rounds; round++ {
		for i, s := range plan {
			if loaderHung {
				return
			}
			formats := []bool{(i+round)%2 == 1}
			if s.plen > 1 && s.dsel >= 1 && s.dsel <= 3 {
				formats = []bool{false, true} // a multi-byte length prefix served in two pieces: both formats on every run
			}
			for _, c := range formats {
				recSize, count, k, d, ok := pickGeometry(g, s.plen, s.dsel)
				if !ok {
					r.Hit("geometry:no-divisor(skipped)")
					continue
				}
				gc := &geomCase{Compressed: c, Height: genHeight(g), Hash: g.Bytes(32), RecSize: recSize, Count: count, RecSeed: g.U64(), K: k, D: d}
				checkGeometry("gen", gc)
			}
		}
	}
}

// ---------------------------------------------------------------- btc.ReadVLen on a reader that returns what it has

// capReader serves the i-th Read with at most caps[i]+1 bytes (all that is asked for once the list is used up): the Go
// counterpart of Model.UtxoShared.Rd — a bufio.Reader near the end of its buffer, a pipe, a network stream
type capReader struct {
	data []byte
	caps []int
}

func (c *capReader) Read(p []byte) (int, error) {
	if len(p) == 0 {
		return 0, nil
	}
	if len(c.data) == 0 {
		return 0, io.EOF
	}
	n := len(p)
	if len(c.caps) > 0 {
		if c.caps[0]+1 < n {
			n = c.caps[0] + 1
		}
		c.caps = c.caps[1:]
	}
	if n > len(c.data) {
		n = len(c.data)
	}
	copy(p, c.data[:n])
	c.data = c.data[n:]
	return n, nil
}

type chunkCase struct {
	Data []byte
	Caps []int
}

func (cc *chunkCase) replay() map[string]interface{} {
	l := []interface{}{}
	for _, c := range cc.Caps {
		l = append(l, c)
	}
	return map[string]interface{}{"kind": "chunkread", "hex": hex.EncodeToString(cc.Data), "caps": l}
}

func chunkFromJSON(m map[string]interface{}) *chunkCase {
	cc := &chunkCase{}
	hs, _ := m["hex"].(string)
	cc.Data, _ = hex.DecodeString(hs)
	l, _ := m["caps"].([]interface{})
	for _, x := range l {
		f, _ := x.(float64)
		cc.Caps = append(cc.Caps, int(f))
	}
	return cc
}

// what the bytes mean, read in one piece: (value, prefix length, ok)
func vlenOf(d []byte) (uint64, int, bool) {
	if len(d) == 0 {
		return 0, 0, false
	}
	switch d[0] {
	case 0xfd:
		if len(d) < 3 {
			return 0, 0, false
		}
		return uint64(binary.LittleEndian.Uint16(d[1:])), 3, true
	case 0xfe:
		if len(d) < 5 {
			return 0, 0, false
		}
		return uint64(binary.LittleEndian.Uint32(d[1:])), 5, true
	case 0xff:
		if len(d) < 9 {
			return 0, 0, false
		}
		return binary.LittleEndian.Uint64(d[1:]), 9, true
	}
	return uint64(d[0]), 1, true
}

func checkChunkRead(kind string, cc *chunkCase) {
	rep := cc.replay()
	r.Eval("readvlen-chunked:"+kind, fmt.Sprint(hex.EncodeToString(cc.Data), cc.Caps))
	rd := &capReader{data: append([]byte{}, cc.Data...), caps: append([]int{}, cc.Caps...)}
	var v uint64
	var err error
	pan := ""
	func() {
		defer func() {
			if e := recover(); e != nil {
				pan = fmt.Sprint(e)
			}
		}()
		noStderr(func() { v, err = btc.ReadVLen(rd) })
	}()
	impl := "err"
	if pan != "" {
		impl = "panic"
	} else if err == nil {
		impl = fmt.Sprintf("ok %d %d", v, len(rd.data))
	}
	want := "err"
	if wv, n, ok := vlenOf(cc.Data); ok {
		want = fmt.Sprintf("ok %d %d", wv, len(cc.Data)-n)
		r.Hit(fmt.Sprintf("readvlen-chunked:prefix-%d-bytes", n))
	} else {
		r.Hit("readvlen-chunked:truncated-prefix")
	}
	if impl != want {
		r.PropFail("readvlen-chunked", fmt.Sprintf("ReadVLen on %x served in pieces %v (i-th Read returns at most caps[i]+1 bytes): %s; the bytes say %s (value, bytes left unread)", cc.Data, cc.Caps, impl, want), rep)
		return
	}
	caps := "-"
	if len(cc.Caps) > 0 {
		var sb strings.Builder
		for i, c := range cc.Caps {
			if i > 0 {
				sb.WriteByte(',')
			}
			sb.WriteString(strconv.Itoa(c))
		}
		caps = sb.String()
	}
	if m := o.MustAsk("rdvlen " + vlib.Hex(cc.Data) + " " + caps); m != impl {
		r.TieFail("readvlen-model", fmt.Sprintf("ReadVLen on %x in pieces %v: impl %s model %s", cc.Data, cc.Caps, impl, m), rep)
		return
	}
	r.TieOK()
}

func runChunkRead(g *vlib.Rng) {
	n := r.N(400, 8000)
	for i := 0; i < n; i++ {
		var d []byte
		switch g.Intn(5) {
		case 0:
			d = []byte{byte(g.Intn(0xfd))}
		case 1, 2:
			d = append([]byte{0xfd}, g.Bytes(2)...)
		case 3:
			d = append([]byte{0xfe}, g.Bytes(4)...)
		default:
			d = append([]byte{0xff}, g.Bytes(8)...)
		}
		if g.Chance(1, 8) {
			d = d[:g.Intn(len(d))] // cut inside the prefix (or empty)
		} else {
			d = append(d, g.Bytes(g.Intn(7))...)
		}
		var caps []int
		for j := g.Intn(7); j > 0; j-- {
			caps = append(caps, g.Pick(0, 0, 0, 1, 2, 3, 7))
		}
		checkChunkRead("gen", &chunkCase{Data: d, Caps: caps})
	}
}
