package main

// static.go — the decoders that REUSE memory between records. utxo.NewUtxoRecStatic / NewUtxoRecStaticU decode into one
// package-level UtxoRec whose Outs list and UtxoTxOut objects come from a shared pool (sta_cbs: OutsList hands out the
// first cnt slots of one long pointer slice, OneOut the next pool entry). What such a decoder returns depends on the
// records decoded BEFORE unless every slot handed out is cleared, so the property "every record ... with any subset
// already spent ... is returned unchanged" is a statement about HISTORIES here: sequences of records of different output
// counts and sparsity (survivors at high indexes with few survivors, dense after sparse, larger than the pool so that it
// is re-made, both record formats alternating on the one pool) go through the static decoder and each result must be the
// record that was stored, equal to the fresh decoder's result and to the model's decode, and serialise back to the bytes.
// Database level: PurgeUnspendable decodes every record of the set with the static decoder and stores Serialize(rec) back
// when it removed something: after a purge — in memory and after Close()+reload — every record must be exactly the
// stored one without its unspendable outputs (no spent output resurrected, no survivor lost or changed).
// Theorem side: Props.C10.static_decode_eq_fresh over the clearing fact gen_c10 reads from sta_cbs.OutsList.

import (
	"bytes"
	"encoding/hex"
	"fmt"
	"os"
	"sort"
	"syscall"

	"github.com/piotrnar/gocoin/lib/btc"
	"github.com/piotrnar/gocoin/lib/script"
	"github.com/piotrnar/gocoin/lib/utxo"
	"verif/vlib"
)

type staticStep struct {
	Compressed bool
	PlainEntry bool // NewUtxoRecStaticU (the plain-format entry point that bypasses the mode variable) instead of NewUtxoRecStatic
	Rec        *Rec
}

type staticCase struct {
	Steps []staticStep
	Alloc string // allocator behind Memory_Malloc / Memory_Free while the history runs: goheap | poison | client
}

func (sc *staticCase) replay(upto int) map[string]interface{} {
	var st []interface{}
	for i := 0; i <= upto && i < len(sc.Steps); i++ {
		s := sc.Steps[i]
		st = append(st, map[string]interface{}{"compressed": s.Compressed, "plain_entry": s.PlainEntry, "rec": recReplay("rec", s.Compressed, s.Rec)["rec"]})
	}
	return map[string]interface{}{"kind": "static", "steps": st, "alloc": sc.Alloc}
}

// noStderr runs f with file descriptor 2 on /dev/null (the pool reports its growth with the builtin println)
func noStderr(f func()) {
	if os.Getenv("VERIF_VERBOSE") == "" {
		if saved, e1 := syscall.Dup(2); e1 == nil {
			if dn, e2 := os.OpenFile(os.DevNull, os.O_WRONLY, 0); e2 == nil {
				syscall.Dup3(int(dn.Fd()), 2, 0)
				dn.Close()
			}
			defer func() { syscall.Dup3(saved, 2, 0); syscall.Close(saved) }()
		}
	}
	f()
}

// one step: bytes of the record in its format, through the static decoder; result copied out at once (the next call
// overwrites it)
func staticDecode(st staticStep, ser []byte) (rec *Rec, reser []byte, pan string) {
	defer func() {
		if e := recover(); e != nil {
			pan = fmt.Sprint(e)
		}
	}()
	var u *utxo.UtxoRec
	noStderr(func() {
		if st.PlainEntry {
			u = utxo.NewUtxoRecStaticU(exact(ser))
		} else {
			u = utxo.NewUtxoRecStatic(exact(ser))
		}
	})
	rec = fromUtxo(u)
	for i := range rec.Live {
		rec.Live[i].Scr = append([]byte{}, rec.Live[i].Scr...)
	}
	if p := utxo.Serialize(u, nil); p != nil {
		reser = exact(*p)
		utxo.Memory_Free(p) // the consumers of the pooled decoder give the buffer back (poison: filled with 0xDD; client: its slot is the next one handed out)
	}
	return
}

// runHistory plays the steps; returns the index of the first step whose result is not the stored record (-1: none)
func runHistory(sc *staticCase, report bool) (bad int, what string) {
	defer setMode(false)
	setAlloc(sc.Alloc)
	defer setAlloc("goheap")
	for i, st := range sc.Steps {
		c := st.Compressed && !st.PlainEntry
		setMode(c)
		mode := modeStr(c)
		ser, p := implSer(st.Rec)
		if p || ser == nil {
			return i, "Serialize failed"
		}
		got, reser, pan := staticDecode(st, ser)
		if pan != "" {
			return i, "the static decoder panics: " + pan
		}
		if same, at := sameRec(st.Rec, got); !same {
			what = "header fields / output count / set of unspent outputs differ: stored unspent indexes " + idxList(st.Rec) + ", decoded " + idxList(got)
			if at >= 0 {
				what = fmt.Sprintf("output %d: stored value=%d script=%s, got index %d value=%d script=%s", st.Rec.Live[at].Idx, st.Rec.Live[at].Val,
					short(hex.EncodeToString(st.Rec.Live[at].Scr)), got.Live[at].Idx, got.Live[at].Val, short(hex.EncodeToString(got.Live[at].Scr)))
			}
			return i, "NewUtxoRecStatic(Serialize(rec)) ≠ rec in " + mode + " mode: " + what
		}
		if !bytes.Equal(reser, ser) {
			return i, "Serialize(NewUtxoRecStatic(bytes)) ≠ bytes in " + mode + " mode"
		}
		if report {
			// the fresh decoder and the model on the same bytes
			fresh, fp := implDec(ser)
			md := o.MustAsk("dec " + mode + " " + vlib.Hex(ser))
			if fp || md != decLine(got, false) || decLine(fresh, fp) != md {
				r.TieFail("static-model-"+mode, "static decoder "+short(decLine(got, false))+" fresh decoder "+short(decLine(fresh, fp))+" model "+short(md), sc.replay(i))
				return -2, ""
			}
		}
	}
	return -1, ""
}

func idxList(rc *Rec) string {
	var l []int
	for _, o := range rc.Live {
		l = append(l, o.Idx)
		if len(l) > 20 {
			break
		}
	}
	return fmt.Sprint(l, " of ", rc.N)
}

func checkStatic(kind string, sc *staticCase) {
	var kb bytes.Buffer
	for _, st := range sc.Steps {
		fmt.Fprint(&kb, st.Compressed, st.PlainEntry, st.Rec.line())
	}
	if sc.Alloc == "" {
		sc.Alloc = "goheap"
	}
	r.Eval("static-"+sc.Alloc+":"+kind, sc.Alloc+kb.String())
	for i, st := range sc.Steps {
		if i > 0 {
			a, b := sc.Steps[i-1].Rec, st.Rec
			hi := a.Live[len(a.Live)-1].Idx
			if hi >= len(a.Live) && b.N > hi {
				r.Hit("static:survivor-index-beyond-survivor-count-then-record-covering-it")
			}
			if b.N > a.N {
				r.Hit("static:longer-after-shorter")
			} else if b.N < a.N {
				r.Hit("static:shorter-after-longer")
			}
			if sc.Steps[i-1].Compressed != st.Compressed {
				r.Hit("static:format-switch-on-one-pool")
			}
		}
		if st.Rec.N > utxo.MAX_OUTS_SEEN {
			r.Hit("static:record-larger-than-the-pool")
		}
	}
	bad, what := runHistory(sc, true)
	if bad == -2 {
		return
	}
	if bad < 0 {
		r.TieOK()
		return
	}
	// minimise: the shortest suffix of the history before the failing step that still fails (in this process the pool
	// also carries what earlier cases left; a replay starts from a fresh pool, so the history must be self-contained)
	best := &staticCase{Steps: sc.Steps[:bad+1], Alloc: sc.Alloc}
	for from := bad - 1; from >= 0; from-- {
		cand := &staticCase{Steps: append([]staticStep{}, sc.Steps[from:bad+1]...), Alloc: sc.Alloc}
		if b, _ := runHistory(cand, false); b == len(cand.Steps)-1 {
			best = cand
			break
		}
	}
	st := sc.Steps[bad]
	r.PropFail("static-decoder-"+modeStr(st.Compressed && !st.PlainEntry), fmt.Sprintf("record %d of a history of %d records through the pooled decoder: %s", bad+1, len(sc.Steps), what), best.replay(len(best.Steps)))
}

func genStaticCase(g *vlib.Rng, big bool) *staticCase {
	sc := &staticCase{}
	n := 2 + g.Intn(7)
	for i := 0; i < n; i++ {
		maxN, budget := g.Pick(4, 12, 12, 40, 300, 3000), 3000
		if big && i == n/2 {
			maxN, budget = 30001, 60000 // larger than the pool (MAX_OUTS_SEEN): the pool is re-made in the middle of the history
		}
		rc := genRec(g, maxN, budget)
		if big && i == n/2 {
			for rc.N <= utxo.MAX_OUTS_SEEN {
				rc = genRec(g, maxN, budget)
			}
		}
		st := staticStep{Compressed: g.Chance(1, 3), Rec: rc}
		if !st.Compressed && g.Chance(1, 4) {
			st.PlainEntry = true
		}
		sc.Steps = append(sc.Steps, st)
	}
	// The pool is process-wide: what a case finds in it was left by the cases before. A leading dense record as long as the
	// longest of the history sets every slot the history will look at, so that the history alone determines the pool and a
	// replay (fresh process, fresh pool) sees the same thing.
	m := 0
	for _, st := range sc.Steps {
		if st.Rec.N > m {
			m = st.Rec.N
		}
	}
	dense := &Rec{Height: genHeight(g), CB: g.Bool(), N: m}
	copy(dense.TxID[:], g.Bytes(32))
	for i := 0; i < m; i++ {
		dense.Live = append(dense.Live, Out{Idx: i, Val: uint64(g.Intn(100000)), Scr: g.Bytes(g.Pick(0, 1, 2, 3))})
	}
	sc.Steps = append([]staticStep{{Compressed: g.Bool(), Rec: dense}}, sc.Steps...)
	sc.Alloc = []string{"goheap", "poison", "client"}[g.Intn(3)]
	return sc
}

// ---------------------------------------------------------------- PurgeUnspendable on a database

type purgeCase struct {
	Compressed bool
	All        bool
	Height     uint32
	Recs       []*Rec
	Alloc      string // goheap | poison (Memory_Free fills the buffer with 0xDD) | client (lib/others/memory, size classes in steady state)
	ViaFlag    bool   // no PurgeUnspendable call: the records are committed with utxo.UTXO_PURGE_UNSPENDABLE = true (the client's default configuration), which strips unspendable outputs in CommitBlockTxs; expected outcome = that of PurgeUnspendable(true)
}

func (pc *purgeCase) replay() map[string]interface{} {
	var rs []interface{}
	for _, rc := range pc.Recs {
		rs = append(rs, recReplay("rec", pc.Compressed, rc)["rec"])
	}
	return map[string]interface{}{"kind": "purge", "compressed": pc.Compressed, "all": pc.All, "height": pc.Height, "recs": rs, "alloc": pc.Alloc, "via_flag": pc.ViaFlag}
}

func checkPurge(kind string, pc *purgeCase) {
	mode := modeStr(pc.Compressed)
	rep := pc.replay()
	var kb bytes.Buffer
	for _, rc := range pc.Recs {
		kb.WriteString(rc.line())
	}
	if pc.Alloc == "" {
		pc.Alloc = "goheap"
	}
	if pc.ViaFlag {
		pc.All = true
		kind = "UTXO_PURGE_UNSPENDABLE-on-" + kind
		utxo.UTXO_PURGE_UNSPENDABLE = true
		defer func() { utxo.UTXO_PURGE_UNSPENDABLE = false }()
	}
	r.Eval("purge-"+mode+"-"+pc.Alloc+":"+kind, fmt.Sprint(mode, pc.Alloc, pc.All, pc.ViaFlag, pc.Height, kb.String()))
	// PurgeUnspendable decodes a record with the pooled decoder (the scripts of `rec` are sub-slices of the stored buffer),
	// serialises it and gives the old buffer back: with an allocator whose Free does something, the order matters
	setAlloc(pc.Alloc)
	defer setAlloc("goheap")
	dir, err := os.MkdirTemp("", "vc10")
	if err != nil {
		fmt.Fprintln(os.Stderr, "tempdir:", err)
		os.Exit(3)
	}
	defer os.RemoveAll(dir)
	dir += string(os.PathSeparator)
	defer setMode(false)
	failed := false
	fail := func(what string) {
		if !failed {
			failed = true
			r.PropFail("purge-"+mode, what+fmt.Sprintf(" (records %d, all=%v, compressed %v, allocator %s)", len(pc.Recs), pc.All, pc.Compressed, pc.Alloc), rep)
		}
	}
	// what must be there afterwards, from the stored records and the purge's own criterion (script.IsUnspendable)
	expect := map[utxo.UtxoKeyType]*Rec{}
	for _, rc := range pc.Recs {
		left := &Rec{TxID: rc.TxID, Height: rc.Height, CB: rc.CB, N: rc.N}
		spendable := false
		for _, ot := range rc.Live {
			if script.IsUnspendable(ot.Scr) {
				r.Hit("purge:unspendable-output")
				if !pc.All {
					left.Live = append(left.Live, ot)
				}
			} else {
				spendable = true
				left.Live = append(left.Live, ot)
			}
		}
		var k utxo.UtxoKeyType
		copy(k[:], rc.TxID[:])
		if spendable {
			expect[k] = left
		} else {
			r.Hit("purge:record-without-spendable-output")
		}
	}
	var db *utxo.UnspentDB
	var after map[utxo.UtxoKeyType][]byte
	perr := ""
	hash := bytes.Repeat([]byte{0x33}, 32)
	func() {
		defer func() {
			if e := recover(); e != nil {
				perr = fmt.Sprint(e)
			}
		}()
		utxo.UTXO_WRITING_TIME_TARGET = 0
		hdr := make([]byte, 48)
		if pc.Compressed {
			hdr[7] = 0x80
		}
		os.WriteFile(dir+"UTXO.db", hdr, 0644)
		quiet(func() {
			db = utxo.NewUnspentDb(&utxo.NewUnspentOpts{Dir: dir, CompressRecords: pc.Compressed})
		})
		ch := &utxo.BlockChanges{Height: pc.Height}
		for _, rc := range pc.Recs {
			ch.AddList = append(ch.AddList, rc.toUtxo())
		}
		db.CommitBlockTxs(ch, hash)
		if pc.Alloc == "client" {
			// steady state of a running node for the size classes the purge will free and allocate in
			for _, b := range dbBytes(db) {
				ensureSteady(memClass(len(b)))
			}
			for _, rc := range expect {
				if b, p := implSer(rc); !p && b != nil {
					ensureSteady(memClass(len(b)))
				}
			}
		}
		if !pc.ViaFlag {
			noStderr(func() { quiet(func() { db.PurgeUnspendable(pc.All) }) })
		}
		after = dbBytes(db)
	}()
	if perr != "" {
		fail("commit / PurgeUnspendable panics: " + perr)
		return
	}
	judge := func(where string, got map[utxo.UtxoKeyType][]byte, d *utxo.UnspentDB) {
		if len(got) != len(expect) {
			fail(fmt.Sprintf("%s: %d records, %d of the stored ones have a spendable output", where, len(got), len(expect)))
			return
		}
		setMode(pc.Compressed)
		keys := make([]utxo.UtxoKeyType, 0, len(expect))
		for k := range expect {
			keys = append(keys, k)
		}
		sort.Slice(keys, func(i, j int) bool { return bytes.Compare(keys[i][:], keys[j][:]) < 0 })
		for _, k := range keys {
			want := expect[k]
			b, ok := got[k]
			if !ok {
				fail(fmt.Sprintf("%s: record %x is gone although it has a spendable output", where, k))
				return
			}
			back, p := implDec(b)
			if p {
				fail(fmt.Sprintf("%s: record %x does not decode", where, k))
				return
			}
			if same, _ := sameRec(want, back); !same {
				fail(fmt.Sprintf("%s: record %x is not the stored record without its unspendable outputs: unspent indexes expected %s, now %s", where, k, idxList(want), idxList(back)))
				return
			}
			ws, _ := implSer(want)
			if !bytes.Equal(ws, b) {
				fail(fmt.Sprintf("%s: record %x: bytes differ from the serialisation of the expected record", where, k))
				return
			}
			// every index through the single-output path: the survivors come back, nothing else does
			liveAt := map[int]*Out{}
			for i := range want.Live {
				liveAt[want.Live[i].Idx] = &want.Live[i]
			}
			for v := 0; v < want.N && v < 64; v++ {
				var t *btc.TxOut
				pan := ""
				func() {
					defer func() {
						if e := recover(); e != nil {
							pan = fmt.Sprint(e)
						}
					}()
					t = d.UnspentGet(&btc.TxPrevOut{Hash: want.TxID, Vout: uint32(v)})
				}()
				if pan != "" {
					fail(fmt.Sprintf("%s: UnspentGet(%x:%d) panics: %s", where, k, v, pan))
					return
				}
				w := liveAt[v]
				if (w == nil) != (t == nil) || (w != nil && (t.Value != w.Val || !bytes.Equal(t.Pk_script, w.Scr))) {
					fail(fmt.Sprintf("%s: UnspentGet(%x:%d): unspent=%v, expected unspent=%v with the stored amount and script", where, k, v, t != nil, w != nil))
					return
				}
			}
		}
		setMode(false)
	}
	if pc.ViaFlag {
		utxo.UTXO_PURGE_UNSPENDABLE = false // only the commit ran with the flag
	}
	judge("after PurgeUnspendable (in memory)", after, db)
	func() {
		defer func() {
			if e := recover(); e != nil {
				perr = fmt.Sprint(e)
			}
		}()
		quiet(db.Close)
	}()
	if perr != "" {
		fail("Close() after the purge panics: " + perr)
		return
	}
	setMode(false)
	loaded, db2, e := loadSnapshotT(dir, 0)
	if e != "" {
		fail("reloading the snapshot written after the purge: " + e)
		return
	}
	if !failed {
		judge("after PurgeUnspendable, Close() and reload", loaded.Recs, db2)
	}
	if !failed {
		r.TieOK()
	}
}

func genPurgeCase(g *vlib.Rng) *purgeCase {
	pc := &purgeCase{Compressed: g.Chance(1, 3), All: g.Chance(2, 3), Height: 1 + uint32(g.Intn(800000)), Alloc: []string{"poison", "client", "goheap", "poison"}[g.Intn(4)]}
	seen := map[[8]byte]bool{}
	n := 2 + g.Intn(12)
	for len(pc.Recs) < n {
		rc := genRec(g, g.Pick(4, 12, 12, 40), 1500)
		var k8 [8]byte
		copy(k8[:], rc.TxID[:])
		if seen[k8] {
			continue
		}
		seen[k8] = true
		// some outputs unspendable (data carrier), in some records every one of them
		switch g.Intn(4) {
		case 0:
			for i := range rc.Live {
				if g.Bool() {
					rc.Live[i].Scr = append([]byte{0x6a}, g.Bytes(g.Intn(40))...)
				}
			}
		case 1:
			i := g.Intn(len(rc.Live))
			rc.Live[i].Scr = append([]byte{0x6a}, g.Bytes(g.Intn(80))...)
		case 2:
			if g.Chance(1, 4) {
				for i := range rc.Live {
					rc.Live[i].Scr = []byte{0x6a}
				}
			}
		}
		pc.Recs = append(pc.Recs, rc)
	}
	pc.ViaFlag = g.Chance(1, 8)
	return pc
}

func runStatic(g *vlib.Rng) {
	n := r.N(150, 3000)
	for i := 0; i < n; i++ {
		checkStatic("gen", genStaticCase(g, i%50 == 7))
	}
	m := r.N(60, 1500)
	for i := 0; i < m && !loaderHung; i++ {
		checkPurge("gen", genPurgeCase(g))
	}
}

func staticFromJSON(m map[string]interface{}) *staticCase {
	sc := &staticCase{}
	sc.Alloc, _ = m["alloc"].(string)
	ss, _ := m["steps"].([]interface{})
	for _, x := range ss {
		sm, ok := x.(map[string]interface{})
		if !ok {
			continue
		}
		st := staticStep{}
		st.Compressed, _ = sm["compressed"].(bool)
		st.PlainEntry, _ = sm["plain_entry"].(bool)
		if rm, ok := sm["rec"].(map[string]interface{}); ok {
			st.Rec = recFromJSON(rm)
			sc.Steps = append(sc.Steps, st)
		}
	}
	return sc
}

func purgeFromJSON(m map[string]interface{}) *purgeCase {
	pc := &purgeCase{}
	pc.Compressed, _ = m["compressed"].(bool)
	pc.All, _ = m["all"].(bool)
	pc.Alloc, _ = m["alloc"].(string)
	pc.ViaFlag, _ = m["via_flag"].(bool)
	h, _ := m["height"].(float64)
	pc.Height = uint32(h)
	rs, _ := m["recs"].([]interface{})
	for _, x := range rs {
		if rm, ok := x.(map[string]interface{}); ok {
			pc.Recs = append(pc.Recs, recFromJSON(rm))
		}
	}
	return pc
}
