// gen_c19 regenerates lean/GocoinV/Gen/QdbFacts.lean from /repo/lib/others/qdb (translator tie for C19):
// the flag and default-option constants, the two bufio buffer sizes, and structural facts about guards the
// hand-written model Model/Qdb.lean mirrors. Props/C19.lean restates them against the model's definitions
// (theorem model_matches_source_facts), so an edit to one of these places breaks a kernel-checked theorem.
package main

import (
	"bytes"
	"fmt"
	"go/ast"
	"go/printer"
	"os"
	"strings"

	"verif/vlib"
	"verif/vtrans"
)

func die(err error) {
	fmt.Fprintln(os.Stderr, "TRANSLATE-ERROR:", err)
	os.Exit(2)
}

func src(f *vtrans.File, n ast.Node) string {
	var b bytes.Buffer
	printer.Fprint(&b, f.Fset, n)
	return strings.Join(strings.Fields(b.String()), "")
}

// all `if` conditions of a function body, printed without white space
func ifConds(f *vtrans.File, fd *ast.FuncDecl) []string {
	var out []string
	ast.Inspect(fd.Body, func(n ast.Node) bool {
		if s, ok := n.(*ast.IfStmt); ok {
			out = append(out, src(f, s.Cond))
		}
		return true
	})
	return out
}

// sizes passed to bufio.NewWriterSize inside a function
func bufSizes(f *vtrans.File, fd *ast.FuncDecl) []uint64 {
	var out []uint64
	ast.Inspect(fd.Body, func(n ast.Node) bool {
		if c, ok := n.(*ast.CallExpr); ok && src(f, c.Fun) == "bufio.NewWriterSize" && len(c.Args) == 2 {
			v, err := vtrans.IntLit(c.Args[1])
			if err != nil {
				die(fmt.Errorf("bufio.NewWriterSize: %v", err))
			}
			out = append(out, v)
		}
		return true
	})
	return out
}

func assignsTo(f *vtrans.File, fd *ast.FuncDecl, lhs string) bool {
	found := false
	ast.Inspect(fd.Body, func(n ast.Node) bool {
		if a, ok := n.(*ast.AssignStmt); ok && len(a.Lhs) == 1 && src(f, a.Lhs[0]) == lhs {
			found = true
		}
		return true
	})
	return found
}

// containsCall: does the node contain a call whose function text ends with `suffix`?
func containsCall(f *vtrans.File, n ast.Node, suffix string) bool {
	found := false
	ast.Inspect(n, func(x ast.Node) bool {
		if c, ok := x.(*ast.CallExpr); ok && strings.HasSuffix(src(f, c.Fun), suffix) {
			found = true
		}
		return true
	})
	return found
}

func containsReturn(n ast.Node) bool {
	found := false
	ast.Inspect(n, func(x ast.Node) bool {
		switch x.(type) {
		case *ast.ReturnStmt, *ast.BranchStmt:
			found = true
		case *ast.FuncLit:
			return false
		}
		return true
	})
	return found
}

// browseVisitOrder: in Browse / BrowseAll, the callback handed to db.Idx.browse (or the one DB method it delegates the
// visit to) calls the walk function and then — unconditionally, with no return or branch in between — both
// aply_browsing_flags and freerec; only after that may the walk result decide whether the browse goes on. true = that
// shape; false = the flags / the release are conditional or come after a possible return; error = unknown shape.
func browseVisitOrder(f *vtrans.File, name string) (bool, error) {
	fd, err := f.Func("DB", name)
	if err != nil {
		return false, err
	}
	var lit *ast.FuncLit
	ast.Inspect(fd.Body, func(n ast.Node) bool {
		if c, ok := n.(*ast.CallExpr); ok && strings.HasSuffix(src(f, c.Fun), "Idx.browse") && len(c.Args) == 1 {
			if l, ok := c.Args[0].(*ast.FuncLit); ok {
				lit = l
			}
		}
		return true
	})
	if lit == nil {
		return false, fmt.Errorf("%s: no function literal handed to db.Idx.browse", name)
	}
	body := lit.Body
	if !containsCall(f, body, "walk") {
		// one level of delegation: a DB method that receives the walk function
		var callee *ast.FuncDecl
		ast.Inspect(body, func(n ast.Node) bool {
			if c, ok := n.(*ast.CallExpr); ok {
				if sel, ok := c.Fun.(*ast.SelectorExpr); ok && src(f, sel.X) == "db" {
					for _, a := range c.Args {
						if src(f, a) == "walk" {
							if d, e := f.Func("DB", sel.Sel.Name); e == nil {
								callee = d
							}
						}
					}
				}
			}
			return true
		})
		if callee == nil {
			return false, fmt.Errorf("%s: the callback neither calls the walk function nor hands it to a DB method", name)
		}
		// what precedes the delegation in the callback may skip the record, nothing else
		body = callee.Body
	}
	iW, iA, iF := -1, -1, -1
	for i, st := range body.List {
		if iW < 0 && containsCall(f, st, "walk") {
			iW = i
		}
		if iA < 0 && containsCall(f, st, ".aply_browsing_flags") {
			iA = i
		}
		if iF < 0 && containsCall(f, st, ".freerec") {
			iF = i
		}
	}
	if iW < 0 || iA < 0 || iF < 0 {
		return false, fmt.Errorf("%s: walk / aply_browsing_flags / freerec not all found at the top level of the visit (%d %d %d)", name, iW, iA, iF)
	}
	last := iA
	if iF > last {
		last = iF
	}
	if iA < iW || iF < iW {
		return false, nil
	}
	for i := iW; i <= last; i++ {
		st := body.List[i]
		if i == iA || i == iF {
			if _, ok := st.(*ast.ExprStmt); !ok { // inside an if / switch: conditional
				return false, nil
			}
			continue
		}
		if containsReturn(st) {
			return false, nil
		}
	}
	return true, nil
}

func main() {
	db, err := vtrans.Parse("lib/others/qdb/db.go")
	if err != nil {
		die(err)
	}
	ix, err := vtrans.Parse("lib/others/qdb/index_disk.go")
	if err != nil {
		die(err)
	}
	var sb strings.Builder
	facts := 0
	sb.WriteString("/- GENERATED by go/cmd/gen_c19 from lib/others/qdb/db.go and index_disk.go — do not edit; not in git. -/\n")
	sb.WriteString("namespace GocoinV.Gen.QdbFacts\n\n")
	for _, c := range []string{"NO_BROWSE", "NO_CACHE", "BR_ABORT", "YES_CACHE", "YES_BROWSE",
		"DefaultDefragPercentVal", "DefaultForcedDefragPerc", "DefaultMaxPending", "DefaultMaxPendingNoSync", "KeySize"} {
		v, err := db.ConstInt(c)
		if err != nil {
			die(err)
		}
		fmt.Fprintf(&sb, "def %s : Nat := %d\n", c, v)
		facts++
	}
	// bufio sizes
	fd, err := db.Func("DB", "defrag")
	if err != nil {
		die(err)
	}
	bs := bufSizes(db, fd)
	if len(bs) != 1 {
		die(fmt.Errorf("defrag: expected exactly one bufio.NewWriterSize, found %d", len(bs)))
	}
	fmt.Fprintf(&sb, "def defragBufSize : Nat := %d\n", bs[0])
	defragClears := assignsTo(db, fd, "db.PendingRecords")
	wd, err := ix.Func("QdbIndex", "writedatfile")
	if err != nil {
		die(err)
	}
	bs = bufSizes(ix, wd)
	if len(bs) != 1 {
		die(fmt.Errorf("writedatfile: expected exactly one bufio.NewWriterSize, found %d", len(bs)))
	}
	fmt.Fprintf(&sb, "def idxBufSize : Nat := %d\n", bs[0])
	facts += 2
	// freerec: the guard
	fr, err := db.Func("oneIdx", "freerec")
	if err != nil {
		die(err)
	}
	conds := ifConds(db, fr)
	if len(conds) != 1 {
		die(fmt.Errorf("freerec: expected one if statement, found %d", len(conds)))
	}
	var frGuard string
	switch {
	case strings.Contains(conds[0], "NO_CACHE") && strings.Contains(conds[0], "&&") && strings.Contains(conds[0], "datpos!=0"):
		frGuard = "true"
	case conds[0] == "(idx.flags&NO_CACHE)!=0":
		frGuard = "false"
	default:
		die(fmt.Errorf("freerec: guard %q is not a shape the model knows", conds[0]))
	}
	fmt.Fprintf(&sb, "/-- freerec frees only records that are on disk (`&& idx.datpos != 0`) -/\ndef freerecChecksDatpos : Bool := %s\n", frGuard)
	// loadlog: header check
	ll, err := ix.Func("QdbIndex", "loadlog")
	if err != nil {
		die(err)
	}
	hdr := ""
	for _, c := range ifConds(ix, ll) {
		switch {
		case strings.Contains(c, "iseq!=idx.VersionSequence") && strings.Contains(c, "!=nil||"):
			hdr = "true"
		case c == "iseq!=idx.VersionSequence":
			hdr = "false"
		}
	}
	if hdr == "" {
		die(fmt.Errorf("loadlog: sequence check not found in a shape the model knows"))
	}
	fmt.Fprintf(&sb, "/-- loadlog discards a log whose header cannot be read (`er != nil ||`) -/\ndef loadlogRejectsHeaderError : Bool := %s\n", hdr)
	fmt.Fprintf(&sb, "/-- defrag() resets db.PendingRecords -/\ndef defragClearsPending : Bool := %v\n", defragClears)
	facts += 3
	// Browse / BrowseAll: flags and release come before the BR_ABORT decision
	order := true
	for _, name := range []string{"Browse", "BrowseAll"} {
		ok, err := browseVisitOrder(db, name)
		if err != nil {
			die(err)
		}
		order = order && ok
		facts++
	}
	fmt.Fprintf(&sb, "/-- Browse and BrowseAll apply the walk result's flags and release the record (aply_browsing_flags, freerec)\n    for every visited record before BR_ABORT can end the browse -/\ndef browseAppliesBeforeAbort : Bool := %v\n", order)
	sb.WriteString("\nend GocoinV.Gen.QdbFacts\n")
	out := vlib.Root() + "/lean/GocoinV/Gen/QdbFacts.lean"
	os.Remove(out)
	if err := os.WriteFile(out, []byte(sb.String()), 0644); err != nil {
		die(err)
	}
	fmt.Printf("FACTS %d\n", facts)
}
