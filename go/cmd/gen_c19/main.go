// gen_c19 regenerates lean/GocoinV/Gen/QdbFacts.lean from /repo/lib/others/qdb (translator tie for C19):
// the flag and default-option constants, the two bufio buffer sizes, and structural facts about guards the
// hand-written model Model/Qdb.lean mirrors. Props/C19.lean restates them against the model's definitions
// (theorem model_matches_source_facts), so an edit to one of these places breaks a kernel-checked theorem.
// The structural facts are tripwires (necessary shapes), not a translation: the two guards are compared with the expected
// guard as boolean functions of their comparison atoms (equivalent rewritings pass, an added / dropped / re-associated
// term does not), defrag must assign a new map to PendingRecords, the Browse callbacks must hand the walk result itself to
// aply_browsing_flags. Everything else of the code is tied by the differential run (go/cmd/c19) only.
package main

import (
	"bytes"
	"fmt"
	"go/ast"
	"go/printer"
	"os"
	"strings"

	"verif/vlib"
	"verif/vtrans"
)

func die(err error) {
	fmt.Fprintln(os.Stderr, "TRANSLATE-ERROR:", err)
	os.Exit(2)
}

func src(f *vtrans.File, n ast.Node) string {
	var b bytes.Buffer
	printer.Fprint(&b, f.Fset, n)
	return strings.Join(strings.Fields(b.String()), "")
}

// sizes passed to bufio.NewWriterSize inside a function
func bufSizes(f *vtrans.File, fd *ast.FuncDecl) []uint64 {
	var out []uint64
	ast.Inspect(fd.Body, func(n ast.Node) bool {
		if c, ok := n.(*ast.CallExpr); ok && src(f, c.Fun) == "bufio.NewWriterSize" && len(c.Args) == 2 {
			v, err := vtrans.IntLit(c.Args[1])
			if err != nil {
				die(fmt.Errorf("bufio.NewWriterSize: %v", err))
			}
			out = append(out, v)
		}
		return true
	})
	return out
}

// ---------------------------------------------------------------- guards as boolean functions
// A guard is compared with the expected one as a BOOLEAN FUNCTION of its comparison atoms (truth table over the union of
// the atoms found and the atoms expected), not as text: `a || b`, `b || a`, `!(!a && !b)` and `!(x == nil && y == z)` are
// the same guard; `a || b && c`, `a && b || c`, a dropped or an added disjunct are not (an atom the expected guard does
// not know is a free variable, so any guard that really depends on it differs). Atoms: `x != y` (operands in
// lexical order; `x == y` is its negation; `x > 0` is read as `x != 0` — the fields compared here are unsigned);
// any other leaf expression is an atom of its own text.

func stripP(x ast.Expr) ast.Expr {
	for {
		p, ok := x.(*ast.ParenExpr)
		if !ok {
			return x
		}
		x = p.X
	}
}

func neqAtom(l, r string) string {
	if l > r {
		l, r = r, l
	}
	return l + "!=" + r
}

// guardAtom: (atom name, negated) for a leaf of a guard
func guardAtom(f *vtrans.File, x ast.Expr) (string, bool) {
	if b, ok := x.(*ast.BinaryExpr); ok {
		l, r := src(f, stripP(b.X)), src(f, stripP(b.Y))
		switch b.Op.String() {
		case "!=":
			return neqAtom(l, r), false
		case "==":
			return neqAtom(l, r), true
		case ">":
			if r == "0" {
				return neqAtom(l, r), false
			}
		case "<":
			if l == "0" {
				return neqAtom(l, r), false
			}
		}
	}
	return src(f, x), false
}

func guardAtoms(f *vtrans.File, x ast.Expr, into map[string]bool) {
	x = stripP(x)
	switch e := x.(type) {
	case *ast.BinaryExpr:
		if op := e.Op.String(); op == "&&" || op == "||" {
			guardAtoms(f, e.X, into)
			guardAtoms(f, e.Y, into)
			return
		}
	case *ast.UnaryExpr:
		if e.Op.String() == "!" {
			guardAtoms(f, e.X, into)
			return
		}
	}
	a, _ := guardAtom(f, x)
	into[a] = true
}

func guardEval(f *vtrans.File, x ast.Expr, asg map[string]bool) bool {
	x = stripP(x)
	switch e := x.(type) {
	case *ast.BinaryExpr:
		switch e.Op.String() {
		case "&&":
			return guardEval(f, e.X, asg) && guardEval(f, e.Y, asg)
		case "||":
			return guardEval(f, e.X, asg) || guardEval(f, e.Y, asg)
		}
	case *ast.UnaryExpr:
		if e.Op.String() == "!" {
			return !guardEval(f, e.X, asg)
		}
	}
	a, neg := guardAtom(f, x)
	return asg[a] != neg
}

// sameGuard: is cond the boolean function `want` (over the atoms `names`)?
func sameGuard(f *vtrans.File, cond ast.Expr, names []string, want func(v map[string]bool) bool) bool {
	set := map[string]bool{}
	guardAtoms(f, cond, set)
	for _, n := range names {
		set[n] = true
	}
	var all []string
	for n := range set {
		all = append(all, n)
	}
	if len(all) > 12 {
		die(fmt.Errorf("guard %q has %d atoms", src(f, cond), len(all)))
	}
	for m := 0; m < 1<<len(all); m++ {
		asg := map[string]bool{}
		for i, n := range all {
			asg[n] = m&(1<<i) != 0
		}
		if guardEval(f, cond, asg) != want(asg) {
			return false
		}
	}
	return true
}

func recvName(fd *ast.FuncDecl) string {
	if fd.Recv != nil && len(fd.Recv.List) == 1 && len(fd.Recv.List[0].Names) == 1 {
		return fd.Recv.List[0].Names[0].Name
	}
	return "?"
}

// all `if` statements of a function body
func ifStmts(fd *ast.FuncDecl) []*ast.IfStmt {
	var out []*ast.IfStmt
	ast.Inspect(fd.Body, func(n ast.Node) bool {
		if s, ok := n.(*ast.IfStmt); ok {
			out = append(out, s)
		}
		return true
	})
	return out
}

func mentions(n ast.Node, ident string) bool {
	found := false
	ast.Inspect(n, func(x ast.Node) bool {
		if id, ok := x.(*ast.Ident); ok && id.Name == ident {
			found = true
		}
		return true
	})
	return found
}

// resetsMap: the function assigns to `lhs` a NEW map (a make(...) call or a composite literal) — not itself, not another variable
func resetsMap(f *vtrans.File, fd *ast.FuncDecl, lhs string) bool {
	found := false
	ast.Inspect(fd.Body, func(n ast.Node) bool {
		if a, ok := n.(*ast.AssignStmt); ok && len(a.Lhs) == 1 && len(a.Rhs) == 1 && src(f, a.Lhs[0]) == lhs {
			switch r := stripP(a.Rhs[0]).(type) {
			case *ast.CallExpr:
				if id, ok := r.Fun.(*ast.Ident); ok && id.Name == "make" {
					found = true
				}
			case *ast.CompositeLit:
				found = len(r.Elts) == 0
			}
		}
		return true
	})
	return found
}

// containsCall: does the node contain a call whose function text ends with `suffix`?
func containsCall(f *vtrans.File, n ast.Node, suffix string) bool {
	found := false
	ast.Inspect(n, func(x ast.Node) bool {
		if c, ok := x.(*ast.CallExpr); ok && strings.HasSuffix(src(f, c.Fun), suffix) {
			found = true
		}
		return true
	})
	return found
}

func containsReturn(n ast.Node) bool {
	found := false
	ast.Inspect(n, func(x ast.Node) bool {
		switch x.(type) {
		case *ast.ReturnStmt, *ast.BranchStmt:
			found = true
		case *ast.FuncLit:
			return false
		}
		return true
	})
	return found
}

// browseVisitOrder: in Browse / BrowseAll, the callback handed to db.Idx.browse (or the one DB method it delegates the
// visit to) calls the walk function and then — unconditionally, with no return or branch in between — both
// aply_browsing_flags and freerec; only after that may the walk result decide whether the browse goes on. true = that
// shape; false = the flags / the release are conditional or come after a possible return; error = unknown shape.
func browseVisitOrder(f *vtrans.File, name string) (bool, error) {
	fd, err := f.Func("DB", name)
	if err != nil {
		return false, err
	}
	var lit *ast.FuncLit
	ast.Inspect(fd.Body, func(n ast.Node) bool {
		if c, ok := n.(*ast.CallExpr); ok && strings.HasSuffix(src(f, c.Fun), "Idx.browse") && len(c.Args) == 1 {
			if l, ok := c.Args[0].(*ast.FuncLit); ok {
				lit = l
			}
		}
		return true
	})
	if lit == nil {
		return false, fmt.Errorf("%s: no function literal handed to db.Idx.browse", name)
	}
	body := lit.Body
	if !containsCall(f, body, "walk") {
		// one level of delegation: a DB method that receives the walk function
		var callee *ast.FuncDecl
		ast.Inspect(body, func(n ast.Node) bool {
			if c, ok := n.(*ast.CallExpr); ok {
				if sel, ok := c.Fun.(*ast.SelectorExpr); ok && src(f, sel.X) == "db" {
					for _, a := range c.Args {
						if src(f, a) == "walk" {
							if d, e := f.Func("DB", sel.Sel.Name); e == nil {
								callee = d
							}
						}
					}
				}
			}
			return true
		})
		if callee == nil {
			return false, fmt.Errorf("%s: the callback neither calls the walk function nor hands it to a DB method", name)
		}
		// what precedes the delegation in the callback may skip the record, nothing else
		body = callee.Body
	}
	iW, iA, iF := -1, -1, -1
	for i, st := range body.List {
		if iW < 0 && containsCall(f, st, "walk") {
			iW = i
		}
		if iA < 0 && containsCall(f, st, ".aply_browsing_flags") {
			iA = i
		}
		if iF < 0 && containsCall(f, st, ".freerec") {
			iF = i
		}
	}
	if iW < 0 || iA < 0 || iF < 0 {
		return false, fmt.Errorf("%s: walk / aply_browsing_flags / freerec not all found at the top level of the visit (%d %d %d)", name, iW, iA, iF)
	}
	// the flags applied are the walk function's answer itself: `res := walk(…)` … `.aply_browsing_flags(res)` (or the call
	// as the argument) — not a masked or otherwise rewritten word
	resName := ""
	if a, ok := body.List[iW].(*ast.AssignStmt); ok && len(a.Lhs) == 1 && len(a.Rhs) == 1 {
		if c, ok := a.Rhs[0].(*ast.CallExpr); ok && strings.HasSuffix(src(f, c.Fun), "walk") {
			resName = src(f, a.Lhs[0])
		}
	}
	argOK := false
	ast.Inspect(body.List[iA], func(n ast.Node) bool {
		if c, ok := n.(*ast.CallExpr); ok && strings.HasSuffix(src(f, c.Fun), ".aply_browsing_flags") && len(c.Args) == 1 {
			arg := stripP(c.Args[0])
			if id, ok := arg.(*ast.Ident); ok && id.Name == resName && resName != "" {
				argOK = true
			}
			if cc, ok := arg.(*ast.CallExpr); ok && strings.HasSuffix(src(f, cc.Fun), "walk") {
				argOK = true
			}
		}
		return true
	})
	if !argOK {
		return false, nil
	}
	last := iA
	if iF > last {
		last = iF
	}
	if iA < iW || iF < iW {
		return false, nil
	}
	for i := iW; i <= last; i++ {
		st := body.List[i]
		if i == iA || i == iF {
			if _, ok := st.(*ast.ExprStmt); !ok { // inside an if / switch: conditional
				return false, nil
			}
			continue
		}
		if containsReturn(st) {
			return false, nil
		}
	}
	return true, nil
}

func main() {
	db, err := vtrans.Parse("lib/others/qdb/db.go")
	if err != nil {
		die(err)
	}
	ix, err := vtrans.Parse("lib/others/qdb/index_disk.go")
	if err != nil {
		die(err)
	}
	var sb strings.Builder
	facts := 0
	sb.WriteString("/- GENERATED by go/cmd/gen_c19 from lib/others/qdb/db.go and index_disk.go — do not edit; not in git. -/\n")
	sb.WriteString("namespace GocoinV.Gen.QdbFacts\n\n")
	for _, c := range []string{"NO_BROWSE", "NO_CACHE", "BR_ABORT", "YES_CACHE", "YES_BROWSE",
		"DefaultDefragPercentVal", "DefaultForcedDefragPerc", "DefaultMaxPending", "DefaultMaxPendingNoSync", "KeySize"} {
		v, err := db.ConstInt(c)
		if err != nil {
			die(err)
		}
		fmt.Fprintf(&sb, "def %s : Nat := %d\n", c, v)
		facts++
	}
	// bufio sizes
	fd, err := db.Func("DB", "defrag")
	if err != nil {
		die(err)
	}
	bs := bufSizes(db, fd)
	if len(bs) != 1 {
		die(fmt.Errorf("defrag: expected exactly one bufio.NewWriterSize, found %d", len(bs)))
	}
	fmt.Fprintf(&sb, "def defragBufSize : Nat := %d\n", bs[0])
	defragClears := resetsMap(db, fd, "db.PendingRecords")
	wd, err := ix.Func("QdbIndex", "writedatfile")
	if err != nil {
		die(err)
	}
	bs = bufSizes(ix, wd)
	if len(bs) != 1 {
		die(fmt.Errorf("writedatfile: expected exactly one bufio.NewWriterSize, found %d", len(bs)))
	}
	fmt.Fprintf(&sb, "def idxBufSize : Nat := %d\n", bs[0])
	facts += 2
	// freerec: the guard
	fr, err := db.Func("oneIdx", "freerec")
	if err != nil {
		die(err)
	}
	frIfs := ifStmts(fr)
	if len(frIfs) != 1 {
		die(fmt.Errorf("freerec: expected one if statement, found %d", len(frIfs)))
	}
	// the guard must BE (flags&NO_CACHE != 0) && (datpos != 0) as a boolean function; anything else — the old defect
	// `(flags&NO_CACHE) != 0` alone, an added disjunct, a swapped connective — is "false" and breaks model_matches_source_facts
	frGuard := "false"
	{
		rv := recvName(fr)
		a, b := neqAtom(rv+".flags&NO_CACHE", "0"), neqAtom(rv+".datpos", "0")
		if sameGuard(db, frIfs[0].Cond, []string{a, b}, func(v map[string]bool) bool { return v[a] && v[b] }) &&
			frIfs[0].Else == nil && containsCall(db, frIfs[0].Body, ".FreeData") {
			frGuard = "true"
		}
	}
	fmt.Fprintf(&sb, "/-- freerec frees only records that are on disk (`&& idx.datpos != 0`) -/\ndef freerecChecksDatpos : Bool := %s\n", frGuard)
	// loadlog: header check
	ll, err := ix.Func("QdbIndex", "loadlog")
	if err != nil {
		die(err)
	}
	// the header is read by `<er> := binary.Read(idx.file, …, &<iseq>)`; the guard that discards the log must BE
	// <er> != nil || <iseq> != idx.VersionSequence as a boolean function
	erName, seqName := "", ""
	ast.Inspect(ll.Body, func(n ast.Node) bool {
		if a, ok := n.(*ast.AssignStmt); ok && len(a.Lhs) == 1 && len(a.Rhs) == 1 {
			if c, ok := a.Rhs[0].(*ast.CallExpr); ok && src(ix, c.Fun) == "binary.Read" && len(c.Args) == 3 {
				if u, ok := c.Args[2].(*ast.UnaryExpr); ok && u.Op.String() == "&" {
					erName, seqName = src(ix, a.Lhs[0]), src(ix, u.X)
				}
			}
		}
		return true
	})
	if erName == "" || erName == "_" {
		die(fmt.Errorf("loadlog: `er := binary.Read(…, &iseq)` not found (the model discards a log whose header cannot be read)"))
	}
	hdr := ""
	for _, st := range ifStmts(ll) {
		if !mentions(st.Cond, seqName) {
			continue
		}
		a, b := neqAtom(erName, "nil"), neqAtom(seqName, recvName(ll)+".VersionSequence")
		if sameGuard(ix, st.Cond, []string{a, b}, func(v map[string]bool) bool { return v[a] || v[b] }) &&
			containsCall(ix, st.Body, "os.Remove") && containsReturn(st.Body) {
			hdr = "true"
		} else if hdr == "" {
			hdr = "false"
		}
	}
	if hdr == "" {
		die(fmt.Errorf("loadlog: no guard on the sequence number read from the log header"))
	}
	fmt.Fprintf(&sb, "/-- loadlog discards a log whose header cannot be read (`er != nil ||`) -/\ndef loadlogRejectsHeaderError : Bool := %s\n", hdr)
	fmt.Fprintf(&sb, "/-- defrag() resets db.PendingRecords -/\ndef defragClearsPending : Bool := %v\n", defragClears)
	facts += 3
	// Browse / BrowseAll: flags and release come before the BR_ABORT decision
	order := true
	for _, name := range []string{"Browse", "BrowseAll"} {
		ok, err := browseVisitOrder(db, name)
		if err != nil {
			die(err)
		}
		order = order && ok
		facts++
	}
	fmt.Fprintf(&sb, "/-- Browse and BrowseAll apply the walk result's flags and release the record (aply_browsing_flags, freerec)\n    for every visited record before BR_ABORT can end the browse -/\ndef browseAppliesBeforeAbort : Bool := %v\n", order)
	// lock discipline: nothing that runs under the shared lock writes (locks.go)
	var all []*vtrans.File
	for _, rel := range []string{"lib/others/qdb/db.go", "lib/others/qdb/db_disk.go", "lib/others/qdb/index.go", "lib/others/qdb/index_disk.go", "lib/others/qdb/membind.go"} {
		f, err := vtrans.Parse(rel)
		if err != nil {
			die(err)
		}
		all = append(all, f)
	}
	lockOK, nLock, lockBad, err := lockDiscipline(db, all)
	if err != nil {
		die(err)
	}
	if lockBad == "" {
		lockBad = "none"
	}
	fmt.Fprintf(&sb, "/-- no method of DB that takes only the shared lock (db.Mutex.RLock) writes: assigns through a selector / index /\n    pointer, deletes from a map or operates on a file, itself or through the package's methods it calls\n    (%d methods use db.Mutex; under RLock and writing: %s) -/\ndef sharedLockOnlyAroundReads : Bool := %v\n", nLock, lockBad, lockOK)
	facts += nLock
	sb.WriteString("\nend GocoinV.Gen.QdbFacts\n")
	out := vlib.Root() + "/lean/GocoinV/Gen/QdbFacts.lean"
	os.Remove(out)
	if err := os.WriteFile(out, []byte(sb.String()), 0644); err != nil {
		die(err)
	}
	fmt.Printf("FACTS %d\n", facts)
}
