package main

// Lock discipline of the store's entry points (structural fact sharedLockOnlyAroundReads).
//
// The store is used by many goroutines through ONE lock (DB.Mutex); the model, the theorems and the property ("the same
// sequence on an in-memory map") speak about calls that happen one after the other, which is what an exclusive lock around
// every entry point gives. A reader/writer lock keeps that meaning only if every method that runs under the SHARED lock
// (RLock) is read-only. In this package a look-up is not: Get loads the record from the data file (shared descriptor:
// Seek, then Read; the table of open files; the record's data pointer) and rewrites its flag word — in the model
// `Qdb.get` returns a new store (Props.C19.get_is_not_read_only). The fact computed here:
//
//	no method of DB that takes db.Mutex.RLock() may — itself, inside a function literal, or through any method of the
//	package it calls (by name, to a fixed point) — assign through a selector / index / pointer, delete from a map, or
//	operate on a file.
//
// sync.Mutex everywhere (the code as it is), an RWMutex whose every user calls Lock(), RLock in a method that only reads
// (Count: len of the index map) all give `true`.

import (
	"fmt"
	"go/ast"
	"sort"
	"strings"

	"verif/vtrans"
)

var fileOps = map[string]bool{"Seek": true, "Read": true, "Write": true, "Close": true, "Truncate": true, "ReadAt": true, "WriteAt": true, "Flush": true}

func heapLHS(x ast.Expr) bool {
	switch e := stripP(x).(type) {
	case *ast.SelectorExpr, *ast.IndexExpr:
		return true
	case *ast.StarExpr:
		_ = e
		return true
	}
	return false
}

// directWrites: does this body write anything but plain local variables / named results?  calls: the method / function
// names it calls.
func directWrites(f *vtrans.File, body ast.Node) (writes bool, calls map[string]bool) {
	calls = map[string]bool{}
	ast.Inspect(body, func(n ast.Node) bool {
		switch s := n.(type) {
		case *ast.AssignStmt:
			for _, l := range s.Lhs {
				if heapLHS(l) {
					writes = true
				}
			}
		case *ast.IncDecStmt:
			if heapLHS(s.X) {
				writes = true
			}
		case *ast.CallExpr:
			switch fn := s.Fun.(type) {
			case *ast.Ident:
				if fn.Name == "delete" {
					writes = true
				}
				calls[fn.Name] = true
			case *ast.SelectorExpr:
				if fileOps[fn.Sel.Name] {
					writes = true
				}
				if x := src(f, fn.X); x == "os" || x == "binary" || x == "atomic" {
					writes = true // os.Open / os.Remove / binary.Write / atomic.Add…
				}
				calls[fn.Sel.Name] = true
			}
		}
		return true
	})
	return
}

// lockDiscipline: ok = no method under the shared lock writes; n = number of DB methods that use db.Mutex at all
func lockDiscipline(dbFile *vtrans.File, files []*vtrans.File) (ok bool, n int, detail string, err error) {
	// the lock itself
	mtype := ""
	ast.Inspect(dbFile.AST, func(x ast.Node) bool {
		ts, isTS := x.(*ast.TypeSpec)
		if !isTS || ts.Name.Name != "DB" {
			return true
		}
		if st, isST := ts.Type.(*ast.StructType); isST {
			for _, fl := range st.Fields.List {
				for _, nm := range fl.Names {
					if nm.Name == "Mutex" {
						mtype = src(dbFile, fl.Type)
					}
				}
			}
		}
		return false
	})
	if mtype != "sync.Mutex" && mtype != "sync.RWMutex" {
		return false, 0, "", fmt.Errorf("DB.Mutex has type %q (expected sync.Mutex or sync.RWMutex): the lock discipline cannot be read", mtype)
	}
	type fn struct {
		writes bool
		calls  map[string]bool
	}
	fns := map[string]*fn{} // by NAME over the whole package: a name writes when any function of that name does
	for _, f := range files {
		for _, d := range f.AST.Decls {
			fd, isFD := d.(*ast.FuncDecl)
			if !isFD || fd.Body == nil {
				continue
			}
			w, c := directWrites(f, fd.Body)
			if old := fns[fd.Name.Name]; old != nil {
				old.writes = old.writes || w
				for k := range c {
					old.calls[k] = true
				}
			} else {
				fns[fd.Name.Name] = &fn{w, c}
			}
		}
	}
	for changed := true; changed; {
		changed = false
		for _, f := range fns {
			if f.writes {
				continue
			}
			for c := range f.calls {
				if g := fns[c]; g != nil && g.writes {
					f.writes, changed = true, true
					break
				}
			}
		}
	}
	ok = true
	var bad []string
	for _, d := range dbFile.AST.Decls {
		fd, isFD := d.(*ast.FuncDecl)
		if !isFD || fd.Body == nil || fd.Recv == nil {
			continue
		}
		rv := recvName(fd)
		uses, shared := false, false
		ast.Inspect(fd.Body, func(x ast.Node) bool {
			if c, isC := x.(*ast.CallExpr); isC {
				if sel, isS := c.Fun.(*ast.SelectorExpr); isS && src(dbFile, sel.X) == rv+".Mutex" {
					uses = true
					if strings.HasPrefix(sel.Sel.Name, "RLock") || strings.HasPrefix(sel.Sel.Name, "TryRLock") {
						shared = true
					}
				}
			}
			return true
		})
		if !uses {
			continue
		}
		n++
		// the method's own body (function literals included) and everything it calls
		w, calls := directWrites(dbFile, fd.Body)
		for c := range calls {
			if g := fns[c]; g != nil && g.writes {
				w = true
			}
		}
		if shared && w {
			ok = false
			bad = append(bad, fd.Name.Name)
		}
	}
	if n == 0 {
		return false, 0, "", fmt.Errorf("no method of DB uses db.Mutex: the lock discipline cannot be read")
	}
	sort.Strings(bad)
	return ok, n, strings.Join(bad, ","), nil
}
