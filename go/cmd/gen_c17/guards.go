// guards.go — WHAT DECIDES WHETHER lib/utxo TELLS THE BALANCE INDEX about a change of the unspent set.
//
// The index (client/wallet) is maintained through two function values of UnspentDB.CB: NotifyTxAdd and NotifyTxDel.
// The model (Model/Balances.lean `step`, Model/BalancesBlock.lean `connectBlock`) runs the callback for EVERY record a
// block connection / disconnection adds or touches, as long as the callback is installed — whatever the block's height,
// the height of the best known header (BlockChanges.LastKnownHeight: how far behind the node is while it connects the
// block), the length of the unwind buffer, whether undo data is kept. That rests on this source fact, regenerated here on
// every run: for every call site `….CB.NotifyTxAdd(…)` / `….CB.NotifyTxDel(…)` in package lib/utxo, the set of QUANTITIES
// THE CONDITIONS GUARDING THE CALL DEPEND ON:
//   - conditions of the if / for / switch statements around the call, and of earlier statements of the enclosing blocks
//     that leave the block (`if c { return }`, continue, break, goto, panic) — inside the function holding the call;
//   - when that function is a closure bound to a local name, the same for every call of that name (go / defer included);
//     when it is a function or method that is not an entry point of the package, the same for every call site in the package
//     (four levels).
//
// CANONICAL FORM of a quantity (renaming, helper extraction / inlining and reordering do not change it):
//   - a field path is rooted in the TYPE of the receiver / parameter it starts from: `db.CB.NotifyTxAdd` with
//     `db *UnspentDB` prints as `UnspentDB.CB.NotifyTxAdd`, `changes.Height` as `BlockChanges.Height`;
//   - a local defined once (`x := e`, `var x = e`) stands for e; a range variable for the ranged expression; a parameter of a
//     closure / non-entry function for what the call sites pass; the result of a call of a non-entry function of the package
//     for what that function returns; every other local (and every literal, builtin, basic type) contributes nothing;
//   - package-level names print as they are, imported ones as `pkg.Name`;
//   - index / slice expressions contribute the quantities of all their parts. The fact is the sorted set.
package main

import (
	"fmt"
	"go/ast"
	"go/token"
	"sort"
	"strings"
)

type guardCtx struct {
	p      *pkg
	parent map[ast.Node]ast.Node
	fdOf   map[ast.Node]*ast.FuncDecl
	via    map[ast.Node]*ast.CallExpr // function / closure on the chain being evaluated -> the call through which it was entered
}

func newGuardCtx(p *pkg) *guardCtx {
	g := &guardCtx{p: p, parent: map[ast.Node]ast.Node{}, fdOf: map[ast.Node]*ast.FuncDecl{}, via: map[ast.Node]*ast.CallExpr{}}
	for _, fd := range p.all {
		fd := fd
		var stack []ast.Node
		ast.Inspect(fd, func(n ast.Node) bool {
			if n == nil {
				stack = stack[:len(stack)-1]
				return true
			}
			if len(stack) > 0 {
				g.parent[n] = stack[len(stack)-1]
			}
			g.fdOf[n] = fd
			stack = append(stack, n)
			return true
		})
	}
	return g
}

func typeName(e ast.Expr) string {
	switch x := e.(type) {
	case *ast.StarExpr:
		return typeName(x.X)
	case *ast.ParenExpr:
		return typeName(x.X)
	case *ast.Ident:
		return x.Name
	case *ast.SelectorExpr:
		return typeName(x.X) + "." + x.Sel.Name
	case *ast.ArrayType:
		return "[]" + typeName(x.Elt)
	case *ast.Ellipsis:
		return "[]" + typeName(x.Elt)
	case *ast.MapType:
		return "map[" + typeName(x.Key) + "]" + typeName(x.Value)
	case *ast.FuncType:
		return "func"
	case *ast.InterfaceType:
		return "interface"
	case *ast.ChanType:
		return "chan"
	}
	return "?"
}

// owner of a parameter / receiver field: the FuncDecl or FuncLit whose signature declares it; idx = position among the
// parameters (-1: receiver or result).
func (g *guardCtx) fieldOwner(f *ast.Field) (owner ast.Node, idx int, nparams int, variadic bool) {
	for n := g.parent[f]; n != nil; n = g.parent[n] {
		var ft *ast.FuncType
		switch x := n.(type) {
		case *ast.FuncDecl:
			ft = x.Type
			if x.Recv != nil {
				for _, rf := range x.Recv.List {
					if rf == f {
						return x, -1, 0, false
					}
				}
			}
		case *ast.FuncLit:
			ft = x.Type
		default:
			continue
		}
		k, at := 0, -1
		for _, pf := range ft.Params.List {
			if pf == f {
				at = k
			}
			if len(pf.Names) == 0 {
				k++
			}
			k += len(pf.Names)
		}
		if len(ft.Params.List) > 0 {
			_, variadic = ft.Params.List[len(ft.Params.List)-1].Type.(*ast.Ellipsis)
		}
		return n, at, k, variadic
	}
	return nil, -1, 0, false
}

// closureName: the local a function literal is bound to (`name := func…`, `name = func…`, `var name = func…`).
func (g *guardCtx) closureName(lit *ast.FuncLit) *ast.Ident {
	switch x := g.parent[lit].(type) {
	case *ast.AssignStmt:
		for i, rhs := range x.Rhs {
			if rhs == ast.Expr(lit) && i < len(x.Lhs) {
				if id, ok := x.Lhs[i].(*ast.Ident); ok && id.Obj != nil {
					return id
				}
			}
		}
	case *ast.ValueSpec:
		for i, v := range x.Values {
			if v == ast.Expr(lit) && i < len(x.Names) && x.Names[i].Obj != nil {
				return x.Names[i]
			}
		}
	}
	return nil
}

// callsOf: the call expressions that invoke `owner` (closure bound to a name: calls of that name inside the enclosing
// function; non-entry function / method: calls by name anywhere in the package). ok=false: the callers are not known
// (entry point, unnamed closure).
func (g *guardCtx) callsOf(owner ast.Node) (calls []*ast.CallExpr, ok bool) {
	switch x := owner.(type) {
	case *ast.FuncLit:
		name := g.closureName(x)
		if name == nil {
			return nil, false
		}
		ast.Inspect(g.fdOf[x].Body, func(n ast.Node) bool {
			if c, isCall := n.(*ast.CallExpr); isCall {
				if id, isId := strip(c.Fun).(*ast.Ident); isId && id.Obj == name.Obj {
					calls = append(calls, c)
				}
			}
			return true
		})
		return calls, true
	case *ast.FuncDecl:
		if g.p.entry(x) {
			return nil, false
		}
		for _, c := range g.p.all {
			if c.Body == nil {
				continue
			}
			imp := imports(g.p.fileOf[c])
			c := c
			ast.Inspect(c.Body, func(n ast.Node) bool {
				call, isCall := n.(*ast.CallExpr)
				if !isCall {
					return true
				}
				switch f := strip(call.Fun).(type) {
				case *ast.Ident:
					if x.Recv == nil && f.Name == x.Name.Name && !isLocal(c, f) {
						calls = append(calls, call)
					}
				case *ast.SelectorExpr:
					if id, isId := f.X.(*ast.Ident); isId && imp[id.Name] && !isLocal(c, id) {
						return true
					}
					if x.Recv != nil && f.Sel.Name == x.Name.Name {
						calls = append(calls, call)
					}
				}
				return true
			})
		}
		return calls, true
	}
	return nil, false
}

type rootSet map[string]bool

func (r rootSet) addAll(o rootSet) {
	for k := range o {
		r[k] = true
	}
}

// paths: the canonical field paths an expression denotes (a set: a parameter stands for every call site's argument).
// Everything that is not a path (literals, unresolvable locals) gives the empty set.
func (g *guardCtx) paths(e ast.Expr, depth int) rootSet {
	out := rootSet{}
	if e == nil || depth > 12 {
		return out
	}
	fd := g.fdOf[e]
	switch x := e.(type) {
	case *ast.ParenExpr:
		return g.paths(x.X, depth)
	case *ast.StarExpr:
		return g.paths(x.X, depth)
	case *ast.UnaryExpr:
		return g.paths(x.X, depth)
	case *ast.TypeAssertExpr:
		return g.paths(x.X, depth)
	case *ast.BinaryExpr:
		out.addAll(g.paths(x.X, depth))
		out.addAll(g.paths(x.Y, depth))
	case *ast.IndexExpr:
		out.addAll(g.paths(x.X, depth))
		out.addAll(g.paths(x.Index, depth))
	case *ast.SliceExpr:
		out.addAll(g.paths(x.X, depth))
		out.addAll(g.paths(x.Low, depth))
		out.addAll(g.paths(x.High, depth))
		out.addAll(g.paths(x.Max, depth))
	case *ast.CompositeLit:
		for _, el := range x.Elts {
			if kv, ok := el.(*ast.KeyValueExpr); ok {
				out.addAll(g.paths(kv.Value, depth))
			} else {
				out.addAll(g.paths(el, depth))
			}
		}
	case *ast.SelectorExpr:
		if id, ok := x.X.(*ast.Ident); ok && fd != nil && imports(g.p.fileOf[fd])[id.Name] && !isLocal(fd, id) {
			out[id.Name+"."+x.Sel.Name] = true
			return out
		}
		for b := range g.paths(x.X, depth) {
			out[b+"."+x.Sel.Name] = true
		}
	case *ast.CallExpr:
		for _, a := range x.Args {
			out.addAll(g.paths(a, depth))
		}
		fn := strip(x.Fun)
		if ix, ok := fn.(*ast.IndexExpr); ok {
			fn = strip(ix.X)
		}
		var callee []*ast.FuncDecl
		switch f := fn.(type) {
		case *ast.Ident:
			if fd != nil && isLocal(fd, f) {
				out.addAll(g.paths(f, depth+1)) // a closure / function value held in a local
			} else if c := g.p.funcs[f.Name]; c != nil {
				callee = []*ast.FuncDecl{c}
			} else if !universe[f.Name] {
				out[f.Name+"()"] = true // conversion to a named type, or a function we do not see
			}
		case *ast.SelectorExpr:
			if id, ok := f.X.(*ast.Ident); ok && fd != nil && imports(g.p.fileOf[fd])[id.Name] && !isLocal(fd, id) {
				out[id.Name+"."+f.Sel.Name+"()"] = true
			} else {
				callee = g.p.methods[f.Sel.Name] // (the receiver's fields show up through the callee's body)
				if len(callee) == 0 {
					for b := range g.paths(f.X, depth) {
						out[b+"."+f.Sel.Name+"()"] = true
					}
				}
			}
		default:
			out.addAll(g.paths(fn, depth))
		}
		for _, c := range callee {
			if g.p.entry(c) {
				out[fname(c)+"()"] = true
				continue
			}
			// a helper that is not an entry point: what it returns
			ast.Inspect(c.Body, func(n ast.Node) bool {
				switch r := n.(type) {
				case *ast.FuncLit:
					return false
				case *ast.ReturnStmt:
					for _, res := range r.Results {
						out.addAll(g.paths(res, depth+2))
					}
					if len(r.Results) == 0 && c.Type.Results != nil { // named results
						for _, rf := range c.Type.Results.List {
							for _, nm := range rf.Names {
								out.addAll(g.assignedTo(c, nm, depth+2))
							}
						}
					}
				}
				return true
			})
		}
	case *ast.Ident:
		if x.Name == "_" || fd == nil {
			return out
		}
		if !isLocal(fd, x) {
			if !universe[x.Name] {
				out[x.Name] = true
			}
			return out
		}
		switch d := x.Obj.Decl.(type) {
		case *ast.Field:
			owner, idx, np, variadic := g.fieldOwner(d)
			if idx < 0 { // receiver (or a named result: whatever is assigned to it)
				if od, ok := owner.(*ast.FuncDecl); ok && od.Recv != nil && len(od.Recv.List) == 1 && od.Recv.List[0] == d {
					out[typeName(d.Type)] = true
				} else if od, ok := owner.(*ast.FuncDecl); ok {
					out.addAll(g.assignedTo(od, x, depth+1))
				}
				return out
			}
			calls, known := g.callsOf(owner)
			if c := g.via[owner]; c != nil {
				calls = []*ast.CallExpr{c}
			}
			if known && !variadic {
				for _, c := range calls {
					if len(c.Args) == np {
						out.addAll(g.paths(c.Args[idx], depth+1))
					}
				}
				return out
			}
			out[typeName(d.Type)] = true
		case *ast.AssignStmt:
			if rhs := singleDef(fd, x); rhs != nil {
				return g.paths(rhs, depth+1)
			}
			if d.Tok == token.DEFINE && len(d.Rhs) == 1 && len(d.Lhs) > 1 { // v, ok := m[k] / f()
				written := false
				for _, l := range d.Lhs {
					if li, ok := l.(*ast.Ident); ok && li.Obj == x.Obj {
						written = g.writtenElsewhere(fd, x, d)
					}
				}
				if !written {
					return g.paths(d.Rhs[0], depth+1)
				}
			}
		case *ast.ValueSpec:
			for i, nm := range d.Names {
				if nm.Obj == x.Obj && i < len(d.Values) && !g.writtenElsewhere(fd, x, nil) {
					return g.paths(d.Values[i], depth+1)
				}
			}
		case *ast.RangeStmt:
			if v, ok := d.Value.(*ast.Ident); ok && v.Obj == x.Obj {
				return g.paths(d.X, depth+1)
			}
		}
	}
	return out
}

// writtenElsewhere: the local is assigned / incremented / has its address taken outside its defining statement.
func (g *guardCtx) writtenElsewhere(fd *ast.FuncDecl, id *ast.Ident, def ast.Node) bool {
	w := false
	ast.Inspect(fd.Body, func(n ast.Node) bool {
		switch x := n.(type) {
		case *ast.AssignStmt:
			if ast.Node(x) == def {
				return true
			}
			for _, l := range x.Lhs {
				if li, ok := strip(l).(*ast.Ident); ok && li.Obj == id.Obj {
					w = true
				}
			}
		case *ast.IncDecStmt:
			if li, ok := strip(x.X).(*ast.Ident); ok && li.Obj == id.Obj {
				w = true
			}
		case *ast.UnaryExpr:
			if li, ok := strip(x.X).(*ast.Ident); ok && x.Op == token.AND && li.Obj == id.Obj {
				w = true
			}
		}
		return true
	})
	return w
}

// assignedTo: what the plain assignments to a (named result) variable put there.
func (g *guardCtx) assignedTo(fd *ast.FuncDecl, id *ast.Ident, depth int) rootSet {
	out := rootSet{}
	ast.Inspect(fd.Body, func(n ast.Node) bool {
		if as, ok := n.(*ast.AssignStmt); ok && len(as.Lhs) == len(as.Rhs) {
			for i, l := range as.Lhs {
				if li, ok := strip(l).(*ast.Ident); ok && li.Obj == id.Obj {
					out.addAll(g.paths(as.Rhs[i], depth+1))
				}
			}
		}
		return true
	})
	return out
}

func terminates(b *ast.BlockStmt) bool {
	if b == nil || len(b.List) == 0 {
		return false
	}
	switch x := b.List[len(b.List)-1].(type) {
	case *ast.ReturnStmt:
		return true
	case *ast.BranchStmt:
		return x.Tok == token.CONTINUE || x.Tok == token.BREAK || x.Tok == token.GOTO
	case *ast.ExprStmt:
		if c, ok := x.X.(*ast.CallExpr); ok {
			if id, ok := strip(c.Fun).(*ast.Ident); ok && id.Name == "panic" {
				return true
			}
			if s, ok := strip(c.Fun).(*ast.SelectorExpr); ok {
				if id, ok := s.X.(*ast.Ident); ok && id.Name == "os" && s.Sel.Name == "Exit" {
					return true
				}
			}
		}
	}
	return false
}

// leavers: the statement may leave the enclosing block early under a condition — the conditions it tests.
func leavers(st ast.Stmt) (conds []ast.Expr) {
	ifs, ok := st.(*ast.IfStmt)
	if !ok {
		return nil
	}
	hit := false
	for cur := ifs; cur != nil; {
		conds = append(conds, cur.Cond)
		if terminates(cur.Body) {
			hit = true
		}
		switch e := cur.Else.(type) {
		case *ast.IfStmt:
			cur = e
			continue
		case *ast.BlockStmt:
			if terminates(e) {
				hit = true
			}
		}
		cur = nil
	}
	if !hit {
		return nil
	}
	return conds
}

// guardsOf: quantities the conditions guarding node `at` depend on (see the file comment), per ENTRY POINT of the package
// through which the node is reached. The conditions are collected along one chain of call sites and evaluated when the
// entry point is reached, with the parameters of the functions on the chain bound to the arguments of THAT chain's calls.
func (g *guardCtx) guardsOf(at ast.Node, level int, seen map[ast.Node]bool, conds []ast.Expr, emit func(entry string, set rootSet)) {
	if level > 4 || seen[at] {
		return
	}
	seen[at] = true
	defer delete(seen, at)
	conds = conds[:len(conds):len(conds)]
	through := func(owner ast.Node, calls []*ast.CallExpr) {
		for _, c := range calls {
			g.via[owner] = c
			g.guardsOf(c, level+1, seen, conds, emit)
			delete(g.via, owner)
		}
	}
	earlier := func(list []ast.Stmt, child ast.Node) {
		for _, st := range list {
			if ast.Node(st) == child {
				return
			}
			conds = append(conds, leavers(st)...)
		}
	}
	child := at
	for n := g.parent[at]; n != nil; child, n = n, g.parent[n] {
		switch x := n.(type) {
		case *ast.IfStmt:
			if child == ast.Node(x.Body) || child == ast.Node(x.Else) {
				conds = append(conds, x.Cond)
			}
		case *ast.ForStmt:
			if child == ast.Node(x.Body) && x.Cond != nil {
				conds = append(conds, x.Cond)
			}
		case *ast.RangeStmt:
			if child == ast.Node(x.Body) {
				conds = append(conds, x.X)
			}
		case *ast.CaseClause:
			conds = append(conds, x.List...)
			if sw, ok := g.parent[g.parent[x]].(*ast.SwitchStmt); ok {
				if sw.Tag != nil {
					conds = append(conds, sw.Tag)
				}
				// earlier clauses of a switch are tested first
				for _, cc := range sw.Body.List {
					if cc == ast.Stmt(x) {
						break
					}
					conds = append(conds, cc.(*ast.CaseClause).List...)
				}
			}
			earlier(x.Body, child)
		case *ast.CommClause:
			earlier(x.Body, child)
		case *ast.BlockStmt:
			earlier(x.List, child)
		case *ast.FuncLit:
			if calls, known := g.callsOf(x); known {
				through(x, calls)
				return
			}
			// an unnamed closure (go func(){…}(), argument of a call): guarded like the place it is written at
		case *ast.FuncDecl:
			if calls, known := g.callsOf(x); known {
				through(x, calls)
			} else {
				set := rootSet{}
				for _, c := range conds {
					set.addAll(g.paths(c, 0))
				}
				emit(fname(x), set)
			}
			return
		}
	}
}

// notifyGuards: for the callback field `cb` (NotifyTxAdd / NotifyTxDel): number of call sites in the package and, per entry
// point of the package through which a call site is reached, the sorted set of quantities its guards depend on.
func notifyGuards(p *pkg, cb string) (sites int, lean string) {
	g := newGuardCtx(p)
	all := map[string]rootSet{}
	for _, fd := range p.all {
		if fd.Body == nil {
			continue
		}
		ast.Inspect(fd.Body, func(n ast.Node) bool {
			c, ok := n.(*ast.CallExpr)
			if !ok {
				return true
			}
			fn := strip(c.Fun)
			if id, ok := fn.(*ast.Ident); ok && isLocal(fd, id) { // cb := db.CB.NotifyTxAdd; if cb != nil { cb(rec) }
				if rhs := singleDef(fd, id); rhs != nil {
					fn = strip(rhs)
				}
			}
			if s, ok := fn.(*ast.SelectorExpr); ok && s.Sel.Name == cb {
				sites++
				g.guardsOf(c, 0, map[ast.Node]bool{}, nil, func(e string, set rootSet) {
					if all[e] == nil {
						all[e] = rootSet{}
					}
					all[e].addAll(set)
				})
			}
			return true
		})
	}
	var es []string
	for e := range all {
		es = append(es, e)
	}
	sort.Strings(es)
	var items []string
	for _, e := range es {
		var deps []string
		for k := range all[e] {
			deps = append(deps, k)
		}
		sort.Strings(deps)
		items = append(items, fmt.Sprintf("(%q, %s)", e, leanList(deps)))
	}
	return sites, "[" + strings.Join(items, ",\n    ") + "]"
}

func writeNotifyFacts(utxo *pkg) (facts int, text string) {
	var sb strings.Builder
	def := func(doc, name, ty, val string) {
		fmt.Fprintf(&sb, "/-- %s -/\ndef %s : %s := %s\n", doc, name, ty, val)
		facts++
	}
	sb.WriteString("/- GENERATED by go/cmd/gen_c17 (guards.go) from lib/utxo/*.go — do not edit; not in git.\n")
	sb.WriteString("   What the conditions guarding the calls of the balance-index callbacks depend on. Field paths are rooted in the TYPE of\n")
	sb.WriteString("   the receiver / parameter they start from; locals, parameters of closures and of non-entry functions are resolved. -/\n")
	sb.WriteString("namespace GocoinV.Gen.UtxoNotifyFacts\n\n")
	na, da := notifyGuards(utxo, "NotifyTxAdd")
	nd, dd := notifyGuards(utxo, "NotifyTxDel")
	if na == 0 || nd == 0 {
		die(fmt.Errorf("lib/utxo: no call of CB.NotifyTxAdd / CB.NotifyTxDel found (%d / %d)", na, nd))
	}
	def("per entry point of lib/utxo through which a call `….CB.NotifyTxAdd(rec)` is reached (CommitBlockTxs: commit's add worker; UndoBlockTxs: the add-back loop): the quantities the conditions guarding the call depend on", "notifyAddGuards", "List (String × List String)", da)
	def("the same for `….CB.NotifyTxDel(rec, outs)` (UnspentDB.del, reached from commit's del worker and from UndoBlockTxs' first loop)", "notifyDelGuards", "List (String × List String)", dd)
	sb.WriteString("\nend GocoinV.Gen.UtxoNotifyFacts\n")
	return facts, sb.String()
}
