// guards.go — WHAT DECIDES WHETHER lib/utxo TELLS THE BALANCE INDEX about a change of the unspent set, WHAT IT HANDS TO IT,
// and WHERE THE INSTALLED CALLBACKS CAN CHANGE.
//
// The index (client/wallet) is maintained through two function values of UnspentDB.CB: NotifyTxAdd and NotifyTxDel.
// The model (Model/Balances.lean `step`, Model/BalancesBlock.lean `connectBlock`) runs the callback for EVERY record a
// block connection / disconnection adds or touches, as long as the callback is installed — whatever the block's height,
// the height of the best known header (BlockChanges.LastKnownHeight), the length of the unwind buffer, whether undo data is
// kept. That rests on these source facts, regenerated here on every run. For every call site `….CB.NotifyTxAdd(…)` /
// `….CB.NotifyTxDel(…)` in package lib/utxo (also through a local that may hold the callback), per entry point of the
// package through which it is reached:
//
//	GUARDS — the set of quantities the conditions guarding the call MAY depend on:
//	- conditions of the if / for / range / switch-case statements around the call;
//	- every condition tested anywhere inside an EARLIER statement of an enclosing block that contains, at any depth (if, else,
//	  switch, select, for, labeled statement), a return, goto, panic / os.Exit, a labeled break / continue, or an unlabeled
//	  break / continue not caught inside the statement itself;
//	- when the function holding the call is a closure bound to a local name, the same for every call of that name (go / defer
//	  included); when it is a function or method that is not an entry point of the package, the same for every call site in
//	  the package (four levels), with its parameters bound to that chain's arguments.
//	ARGUMENTS — the set of quantities the arguments of the call are made of.
//
// And: every assignment to / address taken of a field CB, CB.NotifyTxAdd, CB.NotifyTxDel in the package (callbackWrites).
//
// CANONICAL FORM of a quantity (renaming, helper extraction / inlining and reordering do not change it):
//   - a field path is rooted in the TYPE of the receiver / parameter / composite literal / new(T) it starts from:
//     `db.CB.NotifyTxAdd` with `db *UnspentDB` prints as `UnspentDB.CB.NotifyTxAdd`, `changes.Height` as `BlockChanges.Height`;
//     fields of struct types declared inside a function are locals in disguise and are not printed;
//   - a local defined once (`x := e`, `var x = e`) stands for e; a range variable for the ranged expression; ANY OTHER LOCAL
//     (assigned more than once, declared without a value, incremented) for the union of everything written to it and of the
//     conditions around each of those writes; a local whose address is taken adds the marker `<local>&`; a parameter of a
//     closure / non-entry function stands for what the call sites pass; a call of a non-entry function of the package for what
//     it returns and every condition it tests; a call of an entry point for `Name()` plus its arguments;
//   - package-level names print as they are (or by role, pkg.alias), imported ones as `pkg.Name`; builtins, basic types and
//     literals contribute nothing;
//   - index expressions, slice bounds and call arguments contribute their quantities as INGREDIENTS (a selector applied to
//     the whole expression does not extend them). The fact is the sorted set.
//
// The sets are MAY-DEPEND sets from syntax: they do not see what exported functions or other packages compute, state reached
// through function values / interfaces, or an edit that keeps the set but changes the expression.
package main

import (
	"fmt"
	"go/ast"
	"go/token"
	"sort"
	"strings"
)

type guardCtx struct {
	p       *pkg
	parent  map[ast.Node]ast.Node
	fdOf    map[ast.Node]*ast.FuncDecl
	via     map[ast.Node]*ast.CallExpr // function / closure on the chain being evaluated -> the call through which it was entered
	busyFn  map[*ast.FuncDecl]bool
	lfields map[*ast.FuncDecl]map[string]bool
	busy    map[*ast.Object]bool // locals being resolved (a local defined in terms of itself: `n = n + 1`, `l = append(l, x)`)
}

func newGuardCtx(p *pkg) *guardCtx {
	g := &guardCtx{p: p, parent: map[ast.Node]ast.Node{}, fdOf: map[ast.Node]*ast.FuncDecl{}, via: map[ast.Node]*ast.CallExpr{}, busy: map[*ast.Object]bool{}, busyFn: map[*ast.FuncDecl]bool{}, lfields: map[*ast.FuncDecl]map[string]bool{}}
	for _, fd := range p.all {
		fd := fd
		var stack []ast.Node
		ast.Inspect(fd, func(n ast.Node) bool {
			if n == nil {
				stack = stack[:len(stack)-1]
				return true
			}
			if len(stack) > 0 {
				g.parent[n] = stack[len(stack)-1]
			}
			g.fdOf[n] = fd
			stack = append(stack, n)
			return true
		})
	}
	return g
}

func typeName(e ast.Expr) string {
	switch x := e.(type) {
	case *ast.StarExpr:
		return typeName(x.X)
	case *ast.ParenExpr:
		return typeName(x.X)
	case *ast.Ident:
		return x.Name
	case *ast.SelectorExpr:
		return typeName(x.X) + "." + x.Sel.Name
	case *ast.ArrayType:
		return "[]" + typeName(x.Elt)
	case *ast.Ellipsis:
		return "[]" + typeName(x.Elt)
	case *ast.MapType:
		return "map[" + typeName(x.Key) + "]" + typeName(x.Value)
	case *ast.FuncType:
		return "func"
	case *ast.InterfaceType:
		return "interface"
	case *ast.ChanType:
		return "chan"
	}
	return "?"
}

// owner of a parameter / receiver field: the FuncDecl or FuncLit whose signature declares it; idx = position among the
// parameters (-1: receiver or result).
func (g *guardCtx) fieldOwner(f *ast.Field) (owner ast.Node, idx int, nparams int, variadic bool) {
	for n := g.parent[f]; n != nil; n = g.parent[n] {
		var ft *ast.FuncType
		switch x := n.(type) {
		case *ast.FuncDecl:
			ft = x.Type
			if x.Recv != nil {
				for _, rf := range x.Recv.List {
					if rf == f {
						return x, -1, 0, false
					}
				}
			}
		case *ast.FuncLit:
			ft = x.Type
		default:
			continue
		}
		k, at := 0, -1
		for _, pf := range ft.Params.List {
			if pf == f {
				at = k
			}
			if len(pf.Names) == 0 {
				k++
			}
			k += len(pf.Names)
		}
		if len(ft.Params.List) > 0 {
			_, variadic = ft.Params.List[len(ft.Params.List)-1].Type.(*ast.Ellipsis)
		}
		return n, at, k, variadic
	}
	return nil, -1, 0, false
}

// closureName: the local a function literal is bound to (`name := func…`, `name = func…`, `var name = func…`).
func (g *guardCtx) closureName(lit *ast.FuncLit) *ast.Ident {
	switch x := g.parent[lit].(type) {
	case *ast.AssignStmt:
		for i, rhs := range x.Rhs {
			if rhs == ast.Expr(lit) && i < len(x.Lhs) {
				if id, ok := x.Lhs[i].(*ast.Ident); ok && id.Obj != nil {
					return id
				}
			}
		}
	case *ast.ValueSpec:
		for i, v := range x.Values {
			if v == ast.Expr(lit) && i < len(x.Names) && x.Names[i].Obj != nil {
				return x.Names[i]
			}
		}
	}
	return nil
}

// callsOf: the call expressions that invoke `owner` (closure bound to a name: calls of that name inside the enclosing
// function; non-entry function / method: calls by name anywhere in the package). ok=false: the callers are not known
// (entry point, unnamed closure).
func (g *guardCtx) callsOf(owner ast.Node) (calls []*ast.CallExpr, ok bool) {
	switch x := owner.(type) {
	case *ast.FuncLit:
		name := g.closureName(x)
		if name == nil {
			return nil, false
		}
		ast.Inspect(g.fdOf[x].Body, func(n ast.Node) bool {
			if c, isCall := n.(*ast.CallExpr); isCall {
				if id, isId := strip(c.Fun).(*ast.Ident); isId && id.Obj == name.Obj {
					calls = append(calls, c)
				}
			}
			return true
		})
		return calls, true
	case *ast.FuncDecl:
		if g.p.entry(x) {
			return nil, false
		}
		for _, c := range g.p.all {
			if c.Body == nil {
				continue
			}
			imp := imports(g.p.fileOf[c])
			c := c
			ast.Inspect(c.Body, func(n ast.Node) bool {
				call, isCall := n.(*ast.CallExpr)
				if !isCall {
					return true
				}
				switch f := strip(call.Fun).(type) {
				case *ast.Ident:
					if x.Recv == nil && f.Name == x.Name.Name && !isLocal(c, f) {
						calls = append(calls, call)
					}
				case *ast.SelectorExpr:
					if id, isId := f.X.(*ast.Ident); isId && imp[id.Name] && !isLocal(c, id) {
						return true
					}
					if x.Recv != nil && f.Sel.Name == x.Name.Name {
						calls = append(calls, call)
					}
				}
				return true
			})
		}
		return calls, true
	}
	return nil, false
}

// localField: `name` is a field of a struct type declared inside fd.
func (g *guardCtx) localField(fd *ast.FuncDecl, name string) bool {
	m, ok := g.lfields[fd]
	if !ok {
		m = map[string]bool{}
		ast.Inspect(fd.Body, func(n ast.Node) bool {
			if st, ok := n.(*ast.StructType); ok {
				for _, f := range st.Fields.List {
					for _, nm := range f.Names {
						m[nm.Name] = true
					}
				}
			}
			return true
		})
		g.lfields[fd] = m
	}
	return m[name]
}

type rootSet map[string]bool

func (r rootSet) addAll(o rootSet) {
	for k := range o {
		r[k] = true
	}
}

// ingredients: the quantities of an index / slice bound / call argument are part of what the expression depends on, but a
// field selected from the expression is not a field of THEM: they are marked (`~`) so that selectors do not extend them;
// clean() removes the marks.
func (r rootSet) addIngredients(o rootSet) {
	for k := range o {
		r["~"+strings.TrimPrefix(k, "~")] = true
	}
}

func (r rootSet) clean() rootSet {
	out := rootSet{}
	for k := range r {
		out[strings.TrimPrefix(k, "~")] = true
	}
	return out
}

// paths: the canonical field paths an expression denotes (a set: a parameter stands for every call site's argument).
// Everything that is not a path (literals, unresolvable locals) gives the empty set.
func (g *guardCtx) paths(e ast.Expr, depth int) rootSet {
	out := rootSet{}
	if e == nil || depth > 12 {
		return out
	}
	fd := g.fdOf[e]
	switch x := e.(type) {
	case *ast.ParenExpr:
		return g.paths(x.X, depth)
	case *ast.StarExpr:
		return g.paths(x.X, depth)
	case *ast.UnaryExpr:
		return g.paths(x.X, depth)
	case *ast.TypeAssertExpr:
		return g.paths(x.X, depth)
	case *ast.BinaryExpr:
		out.addAll(g.paths(x.X, depth))
		out.addAll(g.paths(x.Y, depth))
	case *ast.IndexExpr:
		out.addAll(g.paths(x.X, depth))
		out.addIngredients(g.paths(x.Index, depth))
	case *ast.SliceExpr:
		out.addAll(g.paths(x.X, depth))
		out.addIngredients(g.paths(x.Low, depth))
		out.addIngredients(g.paths(x.High, depth))
		out.addIngredients(g.paths(x.Max, depth))
	case *ast.CompositeLit:
		if x.Type != nil {
			if tn := typeName(x.Type); tn != "?" && !strings.HasPrefix(tn, "[]") && !strings.HasPrefix(tn, "map[") {
				if id, ok := x.Type.(*ast.Ident); !ok || fd == nil || !isLocal(fd, id) {
					out[tn] = true // a value of that type: selectors are rooted in it
				}
			}
		}
		for _, el := range x.Elts {
			if kv, ok := el.(*ast.KeyValueExpr); ok {
				out.addIngredients(g.paths(kv.Value, depth))
			} else {
				out.addIngredients(g.paths(el, depth))
			}
		}
	case *ast.SelectorExpr:
		if id, ok := x.X.(*ast.Ident); ok && fd != nil && imports(g.p.fileOf[fd])[id.Name] && !isLocal(fd, id) {
			out[id.Name+"."+x.Sel.Name] = true
			return out
		}
		if fd != nil && g.localField(fd, x.Sel.Name) { // a field of a struct type declared inside the function: a local in disguise
			return g.paths(x.X, depth)
		}
		for b := range g.paths(x.X, depth) {
			if strings.HasPrefix(b, "~") {
				out[b] = true
				continue
			}
			out[b+"."+x.Sel.Name] = true
		}
	case *ast.CallExpr:
		if id, ok := strip(x.Fun).(*ast.Ident); ok && id.Name == "new" && len(x.Args) == 1 && (fd == nil || !isLocal(fd, id)) {
			out[typeName(x.Args[0])] = true // new(T): a value of type T
			return out
		}
		for _, a := range x.Args {
			out.addIngredients(g.paths(a, depth))
		}
		fn := strip(x.Fun)
		if ix, ok := fn.(*ast.IndexExpr); ok {
			fn = strip(ix.X)
		}
		var callee []*ast.FuncDecl
		switch f := fn.(type) {
		case *ast.Ident:
			if fd != nil && isLocal(fd, f) {
				out.addAll(g.paths(f, depth+1)) // a closure / function value held in a local
			} else if c := g.p.funcs[f.Name]; c != nil {
				callee = []*ast.FuncDecl{c}
			} else if !universe[f.Name] {
				out[f.Name+"()"] = true // conversion to a named type, or a function we do not see
			}
		case *ast.SelectorExpr:
			if id, ok := f.X.(*ast.Ident); ok && fd != nil && imports(g.p.fileOf[fd])[id.Name] && !isLocal(fd, id) {
				out[id.Name+"."+f.Sel.Name+"()"] = true
			} else {
				callee = g.p.methods[f.Sel.Name] // (the receiver's fields show up through the callee's body)
				if len(callee) == 0 {
					for b := range g.paths(f.X, depth) {
						if strings.HasPrefix(b, "~") {
							out[b] = true
							continue
						}
						out[b+"."+f.Sel.Name+"()"] = true
					}
				}
			}
		default:
			out.addAll(g.paths(fn, depth))
		}
		for _, c := range callee {
			if g.p.entry(c) {
				out[fname(c)+"()"] = true
				continue
			}
			// a helper that is not an entry point: what it returns, and every condition it tests (which of its returns
			// runs is decided by them)
			if !g.busyFn[c] {
				g.busyFn[c] = true
				for _, cond := range leaversAlways(c.Body) {
					out.addAll(g.paths(cond, depth+2))
				}
				delete(g.busyFn, c)
			}
			ast.Inspect(c.Body, func(n ast.Node) bool {
				switch r := n.(type) {
				case *ast.FuncLit:
					return false
				case *ast.ReturnStmt:
					for _, res := range r.Results {
						out.addAll(g.paths(res, depth+2))
					}
					if len(r.Results) == 0 && c.Type.Results != nil { // named results
						for _, rf := range c.Type.Results.List {
							for _, nm := range rf.Names {
								out.addAll(g.assignedTo(c, nm, depth+2))
							}
						}
					}
				}
				return true
			})
		}
	case *ast.Ident:
		if x.Name == "_" || fd == nil {
			return out
		}
		if !isLocal(fd, x) {
			if !universe[x.Name] {
				if a, ok := g.p.alias[x.Name]; ok {
					out[a] = true
				} else {
					out[x.Name] = true
				}
			}
			return out
		}
		switch d := x.Obj.Decl.(type) {
		case *ast.Field:
			owner, idx, np, variadic := g.fieldOwner(d)
			if idx < 0 { // receiver (or a named result: whatever is assigned to it)
				if od, ok := owner.(*ast.FuncDecl); ok && od.Recv != nil && len(od.Recv.List) == 1 && od.Recv.List[0] == d {
					out[typeName(d.Type)] = true
				} else if od, ok := owner.(*ast.FuncDecl); ok {
					out.addAll(g.assignedTo(od, x, depth+1))
				}
				return out
			}
			calls, known := g.callsOf(owner)
			if c := g.via[owner]; c != nil {
				calls = []*ast.CallExpr{c}
			}
			if known && !variadic {
				for _, c := range calls {
					if len(c.Args) == np {
						out.addAll(g.paths(c.Args[idx], depth+1))
					}
				}
				return out
			}
			out[typeName(d.Type)] = true
		case *ast.AssignStmt:
			if rhs := singleDef(fd, x); rhs != nil {
				return g.paths(rhs, depth+1)
			}
			if d.Tok == token.DEFINE && len(d.Rhs) == 1 && len(d.Lhs) > 1 { // v, ok := m[k] / f()
				written := false
				for _, l := range d.Lhs {
					if li, ok := l.(*ast.Ident); ok && li.Obj == x.Obj {
						written = g.writtenElsewhere(fd, x, d)
					}
				}
				if !written {
					return g.paths(d.Rhs[0], depth+1)
				}
			}
			return g.everyWrite(fd, x, depth+1)
		case *ast.ValueSpec:
			for i, nm := range d.Names {
				if nm.Obj == x.Obj && i < len(d.Values) && !g.writtenElsewhere(fd, x, nil) {
					return g.paths(d.Values[i], depth+1)
				}
			}
			return g.everyWrite(fd, x, depth+1)
		case *ast.RangeStmt:
			for _, kv := range []ast.Expr{d.Key, d.Value} {
				if v, ok := kv.(*ast.Ident); ok && v.Obj == x.Obj {
					out.addAll(g.paths(d.X, depth+1))
				}
			}
			if g.writtenElsewhere(fd, x, nil) {
				out.addAll(g.everyWrite(fd, x, depth+1))
			}
			return out
		case *ast.TypeSpec: // a local type name
		default:
			out["<local>"] = true // a local of a kind this generator does not resolve (type switch binding, label …): stop
		}
	}
	return out
}

// everyWrite: a local that is written more than once (or declared without a value) stands for EVERYTHING that may flow
// into it: the right-hand side of every assignment / definition, the initialiser of its declaration, and — because which of
// the writes is the last one is decided by the control flow — the conditions of every if / for / switch / case around each
// write (inside the function). `x++`, `x += e`, `&x` and multi-value assignments are covered the same way (the operands; for
// an address taken: the marker `<local>&`, which no restated fact contains).
func (g *guardCtx) everyWrite(fd *ast.FuncDecl, id *ast.Ident, depth int) rootSet {
	out := rootSet{}
	if g.busy[id.Obj] || depth > 12 {
		return out
	}
	g.busy[id.Obj] = true
	defer delete(g.busy, id.Obj)
	is := func(e ast.Expr) bool {
		li, ok := strip(e).(*ast.Ident)
		return ok && li.Obj == id.Obj
	}
	around := func(n ast.Node) {
		for _, c := range g.condsAround(n) {
			out.addIngredients(g.paths(c, depth+1))
		}
	}
	ast.Inspect(fd.Body, func(n ast.Node) bool {
		switch x := n.(type) {
		case *ast.AssignStmt:
			for i, l := range x.Lhs {
				if !is(l) {
					continue
				}
				if len(x.Lhs) == len(x.Rhs) {
					out.addAll(g.paths(x.Rhs[i], depth+1))
				} else {
					for _, rh := range x.Rhs {
						out.addAll(g.paths(rh, depth+1))
					}
				}
				around(x)
			}
		case *ast.ValueSpec:
			for i, nm := range x.Names {
				if nm.Obj == id.Obj && i < len(x.Values) {
					out.addAll(g.paths(x.Values[i], depth+1))
				}
			}
		case *ast.IncDecStmt:
			if is(x.X) {
				around(x)
			}
		case *ast.RangeStmt:
			for _, l := range []ast.Expr{x.Key, x.Value} {
				if l != nil && is(l) {
					out.addAll(g.paths(x.X, depth+1))
					around(x)
				}
			}
		case *ast.UnaryExpr:
			if x.Op == token.AND && is(x.X) {
				out["<local>&"] = true
			}
		}
		return true
	})
	return out
}

// condsAround: the conditions of the if / for / range / switch-case statements enclosing node n inside its function
// (function literals included: up to the function declaration).
func (g *guardCtx) condsAround(n ast.Node) (conds []ast.Expr) {
	child := n
	for p := g.parent[n]; p != nil; child, p = p, g.parent[p] {
		switch x := p.(type) {
		case *ast.IfStmt:
			if child == ast.Node(x.Body) || child == ast.Node(x.Else) {
				conds = append(conds, x.Cond)
			}
		case *ast.ForStmt:
			if child == ast.Node(x.Body) && x.Cond != nil {
				conds = append(conds, x.Cond)
			}
		case *ast.RangeStmt:
			if child == ast.Node(x.Body) {
				conds = append(conds, x.X)
			}
		case *ast.CaseClause:
			conds = append(conds, x.List...)
			if sw, ok := g.parent[g.parent[x]].(*ast.SwitchStmt); ok {
				if sw.Tag != nil {
					conds = append(conds, sw.Tag)
				}
				for _, cc := range sw.Body.List {
					if cc == ast.Stmt(x) {
						break
					}
					conds = append(conds, cc.(*ast.CaseClause).List...)
				}
			}
		case *ast.FuncDecl:
			return
		}
	}
	return
}

// writtenElsewhere: the local is assigned / incremented / has its address taken outside its defining statement.
func (g *guardCtx) writtenElsewhere(fd *ast.FuncDecl, id *ast.Ident, def ast.Node) bool {
	w := false
	ast.Inspect(fd.Body, func(n ast.Node) bool {
		switch x := n.(type) {
		case *ast.AssignStmt:
			if ast.Node(x) == def {
				return true
			}
			for _, l := range x.Lhs {
				if li, ok := strip(l).(*ast.Ident); ok && li.Obj == id.Obj {
					w = true
				}
			}
		case *ast.IncDecStmt:
			if li, ok := strip(x.X).(*ast.Ident); ok && li.Obj == id.Obj {
				w = true
			}
		case *ast.UnaryExpr:
			if li, ok := strip(x.X).(*ast.Ident); ok && x.Op == token.AND && li.Obj == id.Obj {
				w = true
			}
		}
		return true
	})
	return w
}

// assignedTo: what the plain assignments to a (named result) variable put there.
func (g *guardCtx) assignedTo(fd *ast.FuncDecl, id *ast.Ident, depth int) rootSet {
	out := rootSet{}
	ast.Inspect(fd.Body, func(n ast.Node) bool {
		if as, ok := n.(*ast.AssignStmt); ok && len(as.Lhs) == len(as.Rhs) {
			for i, l := range as.Lhs {
				if li, ok := strip(l).(*ast.Ident); ok && li.Obj == id.Obj {
					out.addAll(g.paths(as.Rhs[i], depth+1))
				}
			}
		}
		return true
	})
	return out
}

func isExitCall(e ast.Expr) bool {
	c, ok := e.(*ast.CallExpr)
	if !ok {
		return false
	}
	if id, ok := strip(c.Fun).(*ast.Ident); ok && id.Name == "panic" {
		return true
	}
	if s, ok := strip(c.Fun).(*ast.SelectorExpr); ok {
		if id, ok := s.X.(*ast.Ident); ok && (id.Name == "os" && s.Sel.Name == "Exit" || id.Name == "runtime" && s.Sel.Name == "Goexit" ||
			id.Name == "log" && (strings.HasPrefix(s.Sel.Name, "Fatal") || strings.HasPrefix(s.Sel.Name, "Panic"))) {
			return true
		}
	}
	return false
}

// leavers: the statement may leave the enclosing block early — it CONTAINS, at any depth (if, else, switch, select, for,
// labeled statement, nested block; not inside a function literal), a return, goto, panic / os.Exit, a labeled break /
// continue, or an unlabeled break / continue that is not caught by a for / switch / select inside the statement itself.
// Then every condition tested anywhere inside the statement (if conditions, switch tags, case lists, for conditions, ranged
// expressions) counts as a condition guarding what follows. Conservative: more conditions than needed, never fewer.
func leavers(st ast.Stmt) (conds []ast.Expr) {
	leaves := false
	var walk func(n ast.Node, inLoop, inSwitch bool)
	walk = func(n ast.Node, inLoop, inSwitch bool) {
		ast.Inspect(n, func(m ast.Node) bool {
			if m == nil || m == n {
				return true
			}
			switch x := m.(type) {
			case *ast.FuncLit:
				return false
			case *ast.ReturnStmt:
				leaves = true
			case *ast.BranchStmt:
				switch {
				case x.Tok == token.GOTO || x.Label != nil:
					leaves = true
				case x.Tok == token.BREAK && !inLoop && !inSwitch:
					leaves = true
				case x.Tok == token.CONTINUE && !inLoop:
					leaves = true
				}
			case *ast.ExprStmt:
				if isExitCall(x.X) {
					leaves = true
				}
			case *ast.IfStmt:
				conds = append(conds, x.Cond)
			case *ast.ForStmt:
				if x.Cond != nil {
					conds = append(conds, x.Cond)
				}
				if x.Init != nil {
					walk(x.Init, inLoop, inSwitch)
				}
				walk(x.Body, true, inSwitch)
				return false
			case *ast.RangeStmt:
				conds = append(conds, x.X)
				walk(x.Body, true, inSwitch)
				return false
			case *ast.SwitchStmt:
				if x.Tag != nil {
					conds = append(conds, x.Tag)
				}
				if x.Init != nil {
					walk(x.Init, inLoop, inSwitch)
				}
				walk(x.Body, inLoop, true)
				return false
			case *ast.TypeSwitchStmt:
				walk(x.Body, inLoop, true)
				return false
			case *ast.SelectStmt:
				walk(x.Body, inLoop, true)
				return false
			case *ast.CaseClause:
				conds = append(conds, x.List...)
			}
			return true
		})
	}
	// the statement itself (walk skips its root)
	walk(&ast.BlockStmt{List: []ast.Stmt{st}}, false, false)
	if !leaves {
		return nil
	}
	return conds
}

// leaversAlways: every condition tested inside the body (function literals excluded).
func leaversAlways(body *ast.BlockStmt) (conds []ast.Expr) {
	ast.Inspect(body, func(m ast.Node) bool {
		switch x := m.(type) {
		case *ast.FuncLit:
			return false
		case *ast.IfStmt:
			conds = append(conds, x.Cond)
		case *ast.ForStmt:
			if x.Cond != nil {
				conds = append(conds, x.Cond)
			}
		case *ast.RangeStmt:
			conds = append(conds, x.X)
		case *ast.SwitchStmt:
			if x.Tag != nil {
				conds = append(conds, x.Tag)
			}
		case *ast.CaseClause:
			conds = append(conds, x.List...)
		}
		return true
	})
	return
}

// guardsOf: quantities the conditions guarding node `at` depend on (see the file comment), per ENTRY POINT of the package
// through which the node is reached. The conditions are collected along one chain of call sites and evaluated when the
// entry point is reached, with the parameters of the functions on the chain bound to the arguments of THAT chain's calls.
func (g *guardCtx) guardsOf(at ast.Node, level int, seen map[ast.Node]bool, conds []ast.Expr, args []ast.Expr, emit func(entry string, set, argSet rootSet)) {
	if level > 4 || seen[at] {
		return
	}
	seen[at] = true
	defer delete(seen, at)
	conds = conds[:len(conds):len(conds)]
	through := func(owner ast.Node, calls []*ast.CallExpr) {
		for _, c := range calls {
			g.via[owner] = c
			g.guardsOf(c, level+1, seen, conds, args, emit)
			delete(g.via, owner)
		}
	}
	earlier := func(list []ast.Stmt, child ast.Node) {
		for _, st := range list {
			if ast.Node(st) == child {
				return
			}
			conds = append(conds, leavers(st)...)
		}
	}
	child := at
	for n := g.parent[at]; n != nil; child, n = n, g.parent[n] {
		switch x := n.(type) {
		case *ast.IfStmt:
			if child == ast.Node(x.Body) || child == ast.Node(x.Else) {
				conds = append(conds, x.Cond)
			}
		case *ast.ForStmt:
			if child == ast.Node(x.Body) && x.Cond != nil {
				conds = append(conds, x.Cond)
			}
		case *ast.RangeStmt:
			if child == ast.Node(x.Body) {
				conds = append(conds, x.X)
			}
		case *ast.CaseClause:
			conds = append(conds, x.List...)
			if sw, ok := g.parent[g.parent[x]].(*ast.SwitchStmt); ok {
				if sw.Tag != nil {
					conds = append(conds, sw.Tag)
				}
				// earlier clauses of a switch are tested first
				for _, cc := range sw.Body.List {
					if cc == ast.Stmt(x) {
						break
					}
					conds = append(conds, cc.(*ast.CaseClause).List...)
				}
			}
			earlier(x.Body, child)
		case *ast.CommClause:
			earlier(x.Body, child)
		case *ast.BlockStmt:
			earlier(x.List, child)
		case *ast.FuncLit:
			if calls, known := g.callsOf(x); known {
				through(x, calls)
				return
			}
			// an unnamed closure (go func(){…}(), argument of a call): guarded like the place it is written at
		case *ast.FuncDecl:
			if calls, known := g.callsOf(x); known {
				through(x, calls)
			} else {
				set := rootSet{}
				for _, c := range conds {
					set.addAll(g.paths(c, 0))
				}
				argSet := rootSet{}
				for _, a := range args {
					argSet.addAll(g.paths(a, 0))
				}
				emit(fname(x), set, argSet)
			}
			return
		}
	}
}

// notifyGuards: for the callback field `cb` (NotifyTxAdd / NotifyTxDel): number of call sites in the package and, per entry
// point of the package through which a call site is reached, the sorted set of quantities its guards depend on, and the
// sorted set of quantities the ARGUMENTS handed to the callback are made of.
func notifyGuards(p *pkg, cb string) (sites int, lean, leanArgs string) {
	g := newGuardCtx(p)
	all, allArgs := map[string]rootSet{}, map[string]rootSet{}
	for _, fd := range p.all {
		if fd.Body == nil {
			continue
		}
		fd := fd
		ast.Inspect(fd.Body, func(n ast.Node) bool {
			c, ok := n.(*ast.CallExpr)
			if !ok {
				return true
			}
			fn := strip(c.Fun)
			var extra []ast.Expr
			if id, ok := fn.(*ast.Ident); ok && isLocal(fd, id) { // cb := db.CB.NotifyTxAdd; if cb != nil { cb(rec) }
				if rhs := singleDef(fd, id); rhs != nil {
					fn = strip(rhs)
				} else if g.mentionsField(id, cb, fd) {
					// a local written more than once that may hold the callback: a call site whose guards include
					// everything that decides what the local holds
					sites++
					extra = []ast.Expr{id}
					fn = nil
				}
			}
			if s, ok := fn.(*ast.SelectorExpr); ok && s.Sel.Name == cb || extra != nil {
				if extra == nil {
					sites++
				}
				g.guardsOf(c, 0, map[ast.Node]bool{}, extra, c.Args, func(e string, set, argSet rootSet) {
					if all[e] == nil {
						all[e], allArgs[e] = rootSet{}, rootSet{}
					}
					all[e].addAll(set)
					allArgs[e].addAll(argSet)
				})
			}
			return true
		})
	}
	render := func(all map[string]rootSet) string {
		var es []string
		for e := range all {
			es = append(es, e)
		}
		sort.Strings(es)
		var items []string
		for _, e := range es {
			var deps []string
			for k := range all[e].clean() {
				deps = append(deps, k)
			}
			sort.Strings(deps)
			items = append(items, fmt.Sprintf("(%q, %s)", e, leanList(deps)))
		}
		return "[" + strings.Join(items, ",\n    ") + "]"
	}
	return sites, render(all), render(allArgs)
}

// mentionsField: some write to the local has a right-hand side that mentions the field `name`.
func (g *guardCtx) mentionsField(id *ast.Ident, name string, fd *ast.FuncDecl) bool {
	for k := range g.everyWrite(fd, id, 0).clean() {
		if strings.HasSuffix(k, "."+name) {
			return true
		}
	}
	return false
}

// cbWrites: every place in the package that may CHANGE which callbacks are installed: an assignment whose left-hand side
// is (or ends in) the field CB / CB.NotifyTxAdd / CB.NotifyTxDel, the address of such a field taken, a whole-struct
// assignment through a pointer (`*db = …`) to the type holding CB. Printed as `<entry point>: <lhs, type-rooted> = <what
// the right-hand side is made of>`.
func cbWrites(p *pkg) []string {
	g := newGuardCtx(p)
	// the struct type(s) with a field CB
	holders := map[string]bool{}
	for _, f := range p.files {
		ast.Inspect(f, func(n ast.Node) bool {
			if ts, ok := n.(*ast.TypeSpec); ok {
				if st, ok := ts.Type.(*ast.StructType); ok {
					for _, fl := range st.Fields.List {
						for _, nm := range fl.Names {
							if nm.Name == "CB" {
								holders[ts.Name.Name] = true
							}
						}
					}
				}
			}
			return true
		})
	}
	isCBPath := func(k string) bool {
		return strings.HasSuffix(k, ".CB") || strings.HasSuffix(k, ".CB.NotifyTxAdd") || strings.HasSuffix(k, ".CB.NotifyTxDel")
	}
	set := map[string]bool{}
	for _, fd := range p.all {
		if fd.Body == nil {
			continue
		}
		fd := fd
		note := func(what string) {
			hold := map[*ast.FuncDecl]bool{fd: true}
			for _, e := range p.lift(hold) {
				set[e+": "+what] = true
			}
		}
		ast.Inspect(fd.Body, func(n ast.Node) bool {
			switch x := n.(type) {
			case *ast.AssignStmt:
				for i, l := range x.Lhs {
					var rhs ast.Expr
					if len(x.Lhs) == len(x.Rhs) {
						rhs = x.Rhs[i]
					} else if len(x.Rhs) == 1 {
						rhs = x.Rhs[0]
					}
					describe := func(k string) {
						var deps []string
						for d := range g.paths(rhs, 0).clean() {
							deps = append(deps, d)
						}
						sort.Strings(deps)
						note(k + " = {" + strings.Join(deps, ", ") + "}")
					}
					if st, ok := strip(l).(*ast.StarExpr); ok { // *db = …
						for k := range g.paths(st.X, 0).clean() {
							if holders[k] {
								describe("*" + k)
							}
						}
						continue
					}
					if _, ok := strip(l).(*ast.SelectorExpr); !ok {
						continue
					}
					found := false
					for k := range g.paths(l, 0).clean() {
						if isCBPath(k) {
							describe(k)
							found = true
						}
					}
					if txt := src(p.fset, l); !found && isCBPath(txt) { // root not resolved: by the spelling of the target
						describe("<?>" + txt[strings.Index(txt, ".CB"):])
					}
				}
			case *ast.UnaryExpr:
				if x.Op == token.AND {
					if _, ok := strip(x.X).(*ast.SelectorExpr); ok {
						found := false
						for k := range g.paths(x.X, 0).clean() {
							if isCBPath(k) {
								note("&" + k)
								found = true
							}
						}
						if txt := src(p.fset, x.X); !found && isCBPath(txt) {
							note("&<?>" + txt[strings.Index(txt, ".CB"):])
						}
					}
				}
			}
			return true
		})
	}
	return sorted(set)
}

func writeNotifyFacts(utxo *pkg) (facts int, text string) {
	var sb strings.Builder
	def := func(doc, name, ty, val string) {
		fmt.Fprintf(&sb, "/-- %s -/\ndef %s : %s := %s\n", doc, name, ty, val)
		facts++
	}
	sb.WriteString("/- GENERATED by go/cmd/gen_c17 (guards.go) from lib/utxo/*.go — do not edit; not in git.\n")
	sb.WriteString("   What the conditions guarding the calls of the balance-index callbacks depend on, what the arguments handed to them are\n")
	sb.WriteString("   made of, and where the installed callbacks can change. Field paths are rooted in the TYPE of the receiver / parameter\n")
	sb.WriteString("   they start from; locals (every write + the conditions around it), parameters of closures and of non-entry functions are\n")
	sb.WriteString("   resolved. -/\n")
	sb.WriteString("namespace GocoinV.Gen.UtxoNotifyFacts\n\n")
	na, da, aa := notifyGuards(utxo, "NotifyTxAdd")
	nd, dd, ad := notifyGuards(utxo, "NotifyTxDel")
	if na == 0 || nd == 0 {
		die(fmt.Errorf("lib/utxo: no call of CB.NotifyTxAdd / CB.NotifyTxDel found (%d / %d)", na, nd))
	}
	def("per entry point of lib/utxo through which a call `….CB.NotifyTxAdd(rec)` is reached (CommitBlockTxs: commit's add worker; UndoBlockTxs: the add-back loop): the quantities the conditions guarding the call depend on", "notifyAddGuards", "List (String × List String)", da)
	def("the same for `….CB.NotifyTxDel(rec, outs)` (UnspentDB.del, reached from commit's del worker and from UndoBlockTxs' first loop)", "notifyDelGuards", "List (String × List String)", dd)
	def("per entry point: the quantities the ARGUMENT of `….CB.NotifyTxAdd(rec)` is made of (a record of the block's AddList; a record read back from the undo file)", "notifyAddArgs", "List (String × List String)", aa)
	def("per entry point: the quantities the ARGUMENTS of `….CB.NotifyTxDel(rec, outs)` are made of (the stored record decoded by NewUtxoRec, the block's spent mask / an all-true mask as long as the transaction's outputs)", "notifyDelArgs", "List (String × List String)", ad)
	def("every place in lib/utxo that may change which callbacks are installed (assignment to …CB / …CB.NotifyTxAdd / …CB.NotifyTxDel, address of such a field, whole-struct assignment): `<entry point>: <target> = {what the value is made of}`", "callbackWrites", "List String", leanList(cbWrites(utxo)))
	sb.WriteString("\nend GocoinV.Gen.UtxoNotifyFacts\n")
	return facts, sb.String()
}
