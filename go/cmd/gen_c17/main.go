// gen_c17 regenerates lean/GocoinV/Gen/WalletCfgFacts.lean from /repo/client/common and /repo/client/wallet
// (translator tie for C17): WHERE the minimum output value and the list->map threshold of the balance index are
// read and where the values IN FORCE (common.allBalMinVal, wallet.useMapCnt) are written.
//
// The hand-written model (Model/Balances.lean, Model/BalancesCfg.lean) lets the in-force minimum change only when
// the index is built (LoadBalancesFromUtxo); "the minimum is constant while the index is enabled AND while it is
// being built" rests on these source facts:
//   - common.allBalMinVal is stored only by ApplyBalMinVal (atomic store of CFG.AllBalances.MinValue), loaded only
//     by AllBalMinVal;
//   - ApplyBalMinVal is called only from common.InitConfig (start-up) and wallet.LoadBalancesFromUtxo, there once,
//     before the scan loop, behind the `if WalletON { return }` guard;
//   - common.Reset (the function the WebUI / TextUI call after a config change, possibly from another goroutine
//     while the index is being built) cannot reach a store of allBalMinVal;
//   - wallet.NewUTXO / all_del_utxos compare with common.AllBalMinVal() and nothing in client/wallet reads
//     CFG.AllBalances.MinValue directly;
//   - wallet.useMapCnt is assigned only in InitMaps and LoadBalances, from CFG.AllBalances.UseMapCnt.
// Proofs/C17Cfg.lean restates them (`source_facts`), Props/C17.lean's load_ignores_config_changes depends on them.
// Exits non-zero when the source no longer has a shape it understands.
package main

import (
	"bytes"
	"fmt"
	"go/ast"
	"go/parser"
	"go/printer"
	"go/token"
	"os"
	"path/filepath"
	"sort"
	"strings"

	"verif/vlib"
	"verif/vtrans"
)

func die(err error) {
	fmt.Fprintln(os.Stderr, "TRANSLATE-ERROR:", err)
	os.Exit(2)
}

type pkg struct {
	dir   string // relative to the repo root
	name  string // last path element
	fset  *token.FileSet
	files map[string]*ast.File
	funcs map[string]*ast.FuncDecl // plain top-level functions by name
	all   []*ast.FuncDecl          // functions and methods
}

func src(fset *token.FileSet, n ast.Node) string {
	var b bytes.Buffer
	printer.Fprint(&b, fset, n)
	return strings.Join(strings.Fields(b.String()), "")
}

func loadPkg(rel string) *pkg {
	p := &pkg{dir: rel, name: filepath.Base(rel), fset: token.NewFileSet(), files: map[string]*ast.File{}, funcs: map[string]*ast.FuncDecl{}}
	ents, err := os.ReadDir(filepath.Join(vtrans.RepoRoot(), rel))
	if err != nil {
		die(err)
	}
	for _, e := range ents {
		n := e.Name()
		if e.IsDir() || !strings.HasSuffix(n, ".go") || strings.HasSuffix(n, "_test.go") || strings.HasPrefix(n, "verif_export") {
			continue
		}
		f, err := parser.ParseFile(p.fset, filepath.Join(vtrans.RepoRoot(), rel, n), nil, 0)
		if err != nil {
			die(err)
		}
		p.files[n] = f
		for _, d := range f.Decls {
			if fd, ok := d.(*ast.FuncDecl); ok && fd.Body != nil {
				p.all = append(p.all, fd)
				if fd.Recv == nil {
					p.funcs[fd.Name.Name] = fd
				}
			}
		}
	}
	return p
}

func fname(fd *ast.FuncDecl) string {
	if fd.Recv != nil && len(fd.Recv.List) == 1 {
		t := fd.Recv.List[0].Type
		if s, ok := t.(*ast.StarExpr); ok {
			t = s.X
		}
		if id, ok := t.(*ast.Ident); ok {
			return id.Name + "." + fd.Name.Name
		}
	}
	return fd.Name.Name
}

// callsTo lists the functions of p that contain a call whose callee prints as one of `callee`.
func (p *pkg) callsTo(callee ...string) (out []string) {
	for _, fd := range p.all {
		hit := false
		ast.Inspect(fd.Body, func(n ast.Node) bool {
			if c, ok := n.(*ast.CallExpr); ok {
				s := src(p.fset, c.Fun)
				for _, w := range callee {
					if s == w {
						hit = true
					}
				}
			}
			return true
		})
		if hit {
			out = append(out, fname(fd))
		}
	}
	sort.Strings(out)
	return
}

// mentions lists the functions of p whose body contains a node printing exactly as `expr` (selector expressions).
func (p *pkg) mentions(expr string) (out []string) {
	for _, fd := range p.all {
		hit := false
		ast.Inspect(fd.Body, func(n ast.Node) bool {
			if s, ok := n.(*ast.SelectorExpr); ok && src(p.fset, s) == expr {
				hit = true
			}
			return true
		})
		if hit {
			out = append(out, fname(fd))
		}
	}
	sort.Strings(out)
	return
}

func leanList(l []string) string {
	q := make([]string, len(l))
	for i, s := range l {
		q[i] = fmt.Sprintf("%q", s)
	}
	return "[" + strings.Join(q, ", ") + "]"
}

func has(l []string, s string) bool {
	for _, x := range l {
		if x == s {
			return true
		}
	}
	return false
}

func main() {
	common := loadPkg("client/common")
	wallet := loadPkg("client/wallet")

	// ---- 1. every use of the identifier allBalMinVal in package common: declaration, atomic load, atomic store
	declared := false
	var writers, readers, stored []string
	for _, f := range common.files {
		for _, d := range f.Decls {
			if gd, ok := d.(*ast.GenDecl); ok {
				for _, sp := range gd.Specs {
					if vs, ok := sp.(*ast.ValueSpec); ok {
						for _, n := range vs.Names {
							if n.Name == "allBalMinVal" {
								if len(vs.Values) != 0 || src(common.fset, vs.Type) != "uint64" {
									die(fmt.Errorf("allBalMinVal: declaration is not `allBalMinVal uint64` without initialiser"))
								}
								declared = true
							}
						}
					}
				}
			}
		}
	}
	if !declared {
		die(fmt.Errorf("client/common: package-level variable allBalMinVal not found"))
	}
	for _, fd := range common.all {
		accounted := map[*ast.Ident]bool{}
		ast.Inspect(fd.Body, func(n ast.Node) bool {
			c, ok := n.(*ast.CallExpr)
			if !ok || len(c.Args) == 0 {
				return true
			}
			u, ok := c.Args[0].(*ast.UnaryExpr)
			if !ok || u.Op != token.AND {
				return true
			}
			id, ok := u.X.(*ast.Ident)
			if !ok || id.Name != "allBalMinVal" {
				return true
			}
			switch src(common.fset, c.Fun) {
			case "atomic.LoadUint64":
				readers = append(readers, fname(fd))
				accounted[id] = true
			case "atomic.StoreUint64":
				if len(c.Args) != 2 {
					die(fmt.Errorf("%s: atomic.StoreUint64(&allBalMinVal, …) with %d arguments", fname(fd), len(c.Args)))
				}
				writers = append(writers, fname(fd))
				stored = append(stored, src(common.fset, c.Args[1]))
				accounted[id] = true
			}
			return true
		})
		ast.Inspect(fd.Body, func(n ast.Node) bool {
			if id, ok := n.(*ast.Ident); ok && id.Name == "allBalMinVal" && !accounted[id] {
				die(fmt.Errorf("%s: allBalMinVal is used other than through atomic.LoadUint64 / atomic.StoreUint64 — not a shape the model knows", fname(fd)))
			}
			return true
		})
	}
	sort.Strings(writers)
	sort.Strings(readers)
	sort.Strings(stored)
	if len(writers) == 0 || len(readers) == 0 {
		die(fmt.Errorf("allBalMinVal: no atomic store or no atomic load found"))
	}

	// ---- 2. which functions of package common can reach a store (calls by plain identifier inside the package)
	reach := map[string]bool{}
	for _, w := range writers {
		reach[w] = true
	}
	for changed := true; changed; {
		changed = false
		for _, fd := range common.all {
			if reach[fname(fd)] {
				continue
			}
			ast.Inspect(fd.Body, func(n ast.Node) bool {
				if c, ok := n.(*ast.CallExpr); ok {
					fn := c.Fun
					if ix, ok := fn.(*ast.IndexExpr); ok { // generic instantiation f[T](…)
						fn = ix.X
					}
					if id, ok := fn.(*ast.Ident); ok && reach[id.Name] && common.funcs[id.Name] != nil && !reach[fname(fd)] {
						reach[fname(fd)] = true
						changed = true
					}
				}
				return true
			})
		}
	}
	var reachers []string
	for k := range reach {
		reachers = append(reachers, k)
	}
	sort.Strings(reachers)
	if common.funcs["Reset"] == nil {
		die(fmt.Errorf("client/common: func Reset not found"))
	}
	// function values (callbacks) handed around would escape this call graph: the writers must not be used as values
	for _, fd := range common.all {
		ast.Inspect(fd.Body, func(n ast.Node) bool {
			switch x := n.(type) {
			case *ast.CallExpr:
				for _, a := range x.Args {
					if id, ok := a.(*ast.Ident); ok && reach[id.Name] && common.funcs[id.Name] != nil {
						die(fmt.Errorf("%s passes %s as a function value — call graph not understood", fname(fd), id.Name))
					}
				}
			case *ast.AssignStmt:
				for _, a := range x.Rhs {
					if id, ok := a.(*ast.Ident); ok && reach[id.Name] && common.funcs[id.Name] != nil {
						die(fmt.Errorf("%s stores %s as a function value — call graph not understood", fname(fd), id.Name))
					}
				}
			}
			return true
		})
	}

	// ---- 3. callers of the writers outside package common (all of client/, by qualified name)
	var extCallers []string
	filepath.Walk(filepath.Join(vtrans.RepoRoot(), "client"), func(path string, info os.FileInfo, err error) error {
		if err != nil || !info.IsDir() {
			return nil
		}
		rel, _ := filepath.Rel(vtrans.RepoRoot(), path)
		if rel == "client/common" {
			return nil
		}
		p := loadPkg(rel)
		var q []string
		for _, w := range writers {
			q = append(q, "common."+w)
		}
		for _, f := range p.callsTo(q...) {
			extCallers = append(extCallers, p.name+"."+f)
		}
		return nil
	})
	sort.Strings(extCallers)

	// ---- 4. wallet.LoadBalancesFromUtxo: guard first, one apply at top level before the scan loop, none inside
	lb := wallet.funcs["LoadBalancesFromUtxo"]
	if lb == nil {
		die(fmt.Errorf("client/wallet: func LoadBalancesFromUtxo not found"))
	}
	guard := false
	if len(lb.Body.List) > 0 {
		if is, ok := lb.Body.List[0].(*ast.IfStmt); ok && is.Init == nil && is.Else == nil &&
			src(wallet.fset, is.Cond) == "common.Get(&common.WalletON)" && len(is.Body.List) >= 1 {
			if _, ok := is.Body.List[len(is.Body.List)-1].(*ast.ReturnStmt); ok {
				guard = true
			}
		}
	}
	applyTop, applyNested, loopAt, applyAt, loops := 0, 0, -1, -1, 0
	for i, st := range lb.Body.List {
		switch s := st.(type) {
		case *ast.ExprStmt:
			if c, ok := s.X.(*ast.CallExpr); ok && src(wallet.fset, c.Fun) == "common.ApplyBalMinVal" {
				applyTop++
				applyAt = i
			}
		case *ast.RangeStmt, *ast.ForStmt:
			loops++
			if loopAt < 0 {
				loopAt = i
			}
		}
	}
	ast.Inspect(lb.Body, func(n ast.Node) bool {
		if c, ok := n.(*ast.CallExpr); ok && src(wallet.fset, c.Fun) == "common.ApplyBalMinVal" {
			applyNested++
		}
		return true
	})
	if loops != 1 {
		die(fmt.Errorf("LoadBalancesFromUtxo: expected exactly one top-level scan loop, found %d", loops))
	}
	applyOnce := applyTop == 1 && applyNested == 1 && applyAt < loopAt
	// the scan loop notifies through TxNotifyAdd and polls FetchingBalanceTick
	loopSrc := src(wallet.fset, lb.Body.List[loopAt])
	if !strings.Contains(loopSrc, "TxNotifyAdd(utxo.NewUtxoRecStatic(") || !strings.Contains(loopSrc, "FetchingBalanceTick()") {
		die(fmt.Errorf("LoadBalancesFromUtxo: the scan loop does not have the shape the model mirrors"))
	}

	// ---- 5. readers in client/wallet
	inForce := wallet.callsTo("common.AllBalMinVal")
	direct := wallet.mentions("common.CFG.AllBalances.MinValue")
	for _, need := range []string{"NewUTXO", "all_del_utxos"} {
		if wallet.funcs[need] == nil {
			die(fmt.Errorf("client/wallet: func %s not found", need))
		}
	}

	// ---- 6. useMapCnt
	var umWriters, umSources []string
	for _, fd := range wallet.all {
		ast.Inspect(fd.Body, func(n ast.Node) bool {
			switch x := n.(type) {
			case *ast.AssignStmt:
				for i, l := range x.Lhs {
					if id, ok := l.(*ast.Ident); ok && id.Name == "useMapCnt" {
						if x.Tok != token.ASSIGN || len(x.Rhs) != len(x.Lhs) {
							die(fmt.Errorf("%s: assignment to useMapCnt not understood", fname(fd)))
						}
						umWriters = append(umWriters, fname(fd))
						umSources = append(umSources, src(wallet.fset, x.Rhs[i]))
					}
				}
			case *ast.IncDecStmt:
				if id, ok := x.X.(*ast.Ident); ok && id.Name == "useMapCnt" {
					die(fmt.Errorf("%s: useMapCnt++/-- not understood", fname(fd)))
				}
			case *ast.UnaryExpr:
				if id, ok := x.X.(*ast.Ident); ok && x.Op == token.AND && id.Name == "useMapCnt" {
					die(fmt.Errorf("%s: address of useMapCnt taken — not understood", fname(fd)))
				}
			}
			return true
		})
	}
	sort.Strings(umWriters)
	srcSet := map[string]bool{}
	for _, s := range umSources {
		srcSet[s] = true
	}
	umSources = nil
	for s := range srcSet {
		umSources = append(umSources, s)
	}
	sort.Strings(umSources)
	if len(umWriters) == 0 {
		die(fmt.Errorf("client/wallet: no assignment to useMapCnt found"))
	}

	// ---- output
	var sb strings.Builder
	facts := 0
	def := func(doc, name, ty, val string) {
		fmt.Fprintf(&sb, "/-- %s -/\ndef %s : %s := %s\n", doc, name, ty, val)
		facts++
	}
	sb.WriteString("/- GENERATED by go/cmd/gen_c17 from client/common/*.go and client/wallet/*.go — do not edit; not in git. -/\n")
	sb.WriteString("namespace GocoinV.Gen.WalletCfgFacts\n\n")
	def("functions of package common holding an atomic store to allBalMinVal", "minValWriters", "List String", leanList(writers))
	def("the expressions stored there", "minValStored", "List String", leanList(stored))
	def("functions of package common holding an atomic load of allBalMinVal", "minValReaders", "List String", leanList(readers))
	def("functions of package common from which a store to allBalMinVal is reachable (calls inside the package)", "minValReach", "List String", leanList(reachers))
	def("common.Reset() — called after every config change of the WebUI / TextUI, from their goroutines — can reach a store to allBalMinVal", "resetMayWriteMinVal", "Bool", fmt.Sprint(reach["Reset"]))
	def("functions outside package common (client/...) that call a writer of allBalMinVal", "minValExternalCallers", "List String", leanList(extCallers))
	def("LoadBalancesFromUtxo starts with `if common.Get(&common.WalletON) { return }`", "loadGuardedByWalletON", "Bool", fmt.Sprint(guard))
	def("LoadBalancesFromUtxo calls common.ApplyBalMinVal() exactly once, as a top-level statement before its scan loop", "loadAppliesOnceBeforeScan", "Bool", fmt.Sprint(applyOnce))
	def("wallet.NewUTXO compares with common.AllBalMinVal() (the value in force)", "newUtxoReadsInForce", "Bool", fmt.Sprint(has(inForce, "NewUTXO")))
	def("wallet.all_del_utxos compares with common.AllBalMinVal() (the value in force)", "allDelReadsInForce", "Bool", fmt.Sprint(has(inForce, "all_del_utxos")))
	def("functions of client/wallet reading common.CFG.AllBalances.MinValue directly", "walletReadsCfgMinValue", "List String", leanList(direct))
	def("functions of client/wallet assigning useMapCnt", "useMapCntWriters", "List String", leanList(umWriters))
	def("the expressions assigned to useMapCnt", "useMapCntSources", "List String", leanList(umSources))
	sb.WriteString("\nend GocoinV.Gen.WalletCfgFacts\n")
	out := vlib.Root() + "/lean/GocoinV/Gen/WalletCfgFacts.lean"
	os.Remove(out)
	if err := os.WriteFile(out, []byte(sb.String()), 0644); err != nil {
		die(err)
	}
	fmt.Printf("FACTS %d\n", facts)
}
