// gen_c17 regenerates lean/GocoinV/Gen/WalletCfgFacts.lean from /repo/client/common and /repo/client/wallet
// and lean/GocoinV/Gen/UtxoNotifyFacts.lean from /repo/lib/utxo (guards.go)
// (translator tie for C17): WHERE the minimum output value and the list->map threshold of the balance index are
// read and where the values IN FORCE (common.allBalMinVal, wallet.useMapCnt) are written.
//
// The hand-written model (Model/Balances.lean, Model/BalancesCfg.lean) lets the in-force minimum change only when
// the index is built (LoadBalancesFromUtxo); "the minimum is constant while the index is enabled AND while it is
// being built" rests on these source facts:
//   - the variable common.AllBalMinVal() returns is stored only by ApplyBalMinVal (atomic store of
//     CFG.AllBalances.MinValue), loaded only by AllBalMinVal;
//   - ApplyBalMinVal is called only from common.InitConfig (start-up) and wallet.LoadBalancesFromUtxo, there once,
//     before the scan, behind the `if WalletON { return }` guard;
//   - common.Reset (the function the WebUI / TextUI call after a config change, possibly from another goroutine
//     while the index is being built) cannot reach a store of that variable;
//   - everything wallet.TxNotifyAdd / TxNotifyDel (the callbacks of UnspentDB) compare an output's Value with is
//     common.AllBalMinVal(), and nothing in client/wallet reads CFG.AllBalances.MinValue directly;
//   - the wallet's copy of CFG.AllBalances.UseMapCnt is assigned only in InitMaps and LoadBalances;
//   - (guards.go, Gen/UtxoNotifyFacts.lean) in lib/utxo the conditions guarding the calls of the index callbacks
//     CB.NotifyTxAdd / CB.NotifyTxDel depend only on the callback being installed, the block's AddList / DeledTxs and
//     the stored record being the one named — not on the block's height, the best known header (LastKnownHeight),
//     UnwindBufLen or UndoData: Model/BalancesBlock.lean's connectBlock runs them in every sync state
//     (Proofs/C17Block.lean notify_facts, Props/C17.lean callbacks_guarded_by_installation_only).
//
// Proofs/C17Cfg.lean restates them (`source_facts`), Props/C17.lean's load_ignores_config_changes depends on them.
//
// CANONICAL FORM (so that behaviour-preserving refactorings do not change the facts):
//   - functions are named only when they are ENTRY POINTS of their package: exported functions / methods, init,
//     main, and functions used as a value (callbacks). Every other function is treated as if it were inlined into
//     its callers: "f holds X" is reported for the entry points that reach the holder through non-entry functions.
//     Hence renaming, extracting or inlining an unexported helper changes nothing;
//   - the two package variables are found by their ROLE, not by name: the uint64 that exported common.AllBalMinVal
//     loads atomically; the wallet variable that is assigned from common.CFG.AllBalances.UseMapCnt;
//   - expressions are printed with locals resolved: a local defined once by `x := e` prints as `e`, any other
//     local as `<local>`; so names of locals, parameters and results never appear;
//   - facts that are sets are sorted sets.
//
// Exits non-zero when the source no longer has a shape it understands.
package main

import (
	"bytes"
	"fmt"
	"go/ast"
	"go/parser"
	"go/printer"
	"go/token"
	"os"
	"path/filepath"
	"sort"
	"strings"

	"verif/vlib"
	"verif/vtrans"
)

func die(err error) {
	fmt.Fprintln(os.Stderr, "TRANSLATE-ERROR:", err)
	os.Exit(2)
}

type pkg struct {
	dir     string // relative to the repo root
	name    string // last path element
	fset    *token.FileSet
	files   map[string]*ast.File
	funcs   map[string]*ast.FuncDecl   // plain top-level functions by name
	methods map[string][]*ast.FuncDecl // methods by method name (any receiver)
	all     []*ast.FuncDecl            // functions and methods with a body
	fileOf  map[*ast.FuncDecl]*ast.File
	globals map[string]bool        // package-level variable names
	valUsed map[*ast.FuncDecl]bool // function / method referenced other than as the callee of a call
	callees map[*ast.FuncDecl][]*ast.FuncDecl
	varInit *ast.FuncDecl     // pseudo function: the initialisers of package-level variables
	alias   map[string]string // package-level variables printed by their role instead of their name
}

func src(fset *token.FileSet, n ast.Node) string {
	var b bytes.Buffer
	printer.Fprint(&b, fset, n)
	return strings.Join(strings.Fields(b.String()), "")
}

func strip(e ast.Expr) ast.Expr {
	for {
		p, ok := e.(*ast.ParenExpr)
		if !ok {
			return e
		}
		e = p.X
	}
}

func imports(f *ast.File) map[string]bool {
	m := map[string]bool{}
	for _, im := range f.Imports {
		path := strings.Trim(im.Path.Value, "\"`")
		n := filepath.Base(path)
		if im.Name != nil {
			n = im.Name.Name
		}
		m[n] = true
	}
	return m
}

func loadPkg(rel string) *pkg {
	p := &pkg{dir: rel, name: filepath.Base(rel), fset: token.NewFileSet(), files: map[string]*ast.File{},
		funcs: map[string]*ast.FuncDecl{}, methods: map[string][]*ast.FuncDecl{}, fileOf: map[*ast.FuncDecl]*ast.File{},
		globals: map[string]bool{}, valUsed: map[*ast.FuncDecl]bool{}, callees: map[*ast.FuncDecl][]*ast.FuncDecl{}}
	ents, err := os.ReadDir(filepath.Join(vtrans.RepoRoot(), rel))
	if err != nil {
		die(err)
	}
	var inits []ast.Stmt
	var initFile *ast.File
	for _, e := range ents {
		n := e.Name()
		if e.IsDir() || !strings.HasSuffix(n, ".go") || strings.HasSuffix(n, "_test.go") || strings.HasPrefix(n, "verif_export") {
			continue
		}
		f, err := parser.ParseFile(p.fset, filepath.Join(vtrans.RepoRoot(), rel, n), nil, 0)
		if err != nil {
			die(err)
		}
		p.files[n] = f
		for _, d := range f.Decls {
			switch x := d.(type) {
			case *ast.FuncDecl:
				if x.Body == nil {
					continue
				}
				p.all = append(p.all, x)
				p.fileOf[x] = f
				if x.Recv == nil {
					p.funcs[x.Name.Name] = x
				} else {
					p.methods[x.Name.Name] = append(p.methods[x.Name.Name], x)
				}
			case *ast.GenDecl:
				if x.Tok != token.VAR {
					continue
				}
				for _, sp := range x.Specs {
					vs := sp.(*ast.ValueSpec)
					for _, id := range vs.Names {
						p.globals[id.Name] = true
					}
					for _, v := range vs.Values {
						inits = append(inits, &ast.ExprStmt{X: v})
						initFile = f
					}
				}
			}
		}
	}
	if len(inits) > 0 {
		// (imports of the last file with an initialiser are used for all of them: only matters for telling
		// `pkg.F()` from `value.method()`, and is conservative either way)
		p.varInit = &ast.FuncDecl{Name: ast.NewIdent("<package-variable-initialisers>"), Type: &ast.FuncType{Params: &ast.FieldList{}}, Body: &ast.BlockStmt{List: inits}}
		p.all = append(p.all, p.varInit)
		p.fileOf[p.varInit] = initFile
	}
	// call graph inside the package. A call `f(…)` goes to the plain function f; a call `x.m(…)` where x is not an
	// imported package goes to EVERY method called m (receiver types are not resolved: over-approximation).
	// Any other mention of a function / method name makes it "used as a value" (callback): an entry point.
	for _, fd := range p.all {
		imp := imports(p.fileOf[fd])
		inCall := map[ast.Node]bool{}
		seen := map[*ast.FuncDecl]bool{}
		add := func(g *ast.FuncDecl) {
			if !seen[g] {
				seen[g] = true
				p.callees[fd] = append(p.callees[fd], g)
			}
		}
		ast.Inspect(fd.Body, func(n ast.Node) bool {
			c, ok := n.(*ast.CallExpr)
			if !ok {
				return true
			}
			fn := strip(c.Fun)
			if ix, ok := fn.(*ast.IndexExpr); ok { // generic instantiation f[T](…)
				fn = strip(ix.X)
			}
			switch x := fn.(type) {
			case *ast.Ident:
				if g := p.funcs[x.Name]; g != nil && !isLocal(fd, x) {
					inCall[x] = true
					add(g)
				}
			case *ast.SelectorExpr:
				if id, ok := x.X.(*ast.Ident); ok && imp[id.Name] && !isLocal(fd, id) {
					return true
				}
				inCall[x.Sel] = true
				for _, g := range p.methods[x.Sel.Name] {
					add(g)
				}
			}
			return true
		})
		funcRef := func(id *ast.Ident) {
			if !inCall[id] && !isLocal(fd, id) {
				if g := p.funcs[id.Name]; g != nil {
					p.valUsed[g] = true
				}
			}
		}
		var visit func(n ast.Node) bool
		visit = func(n ast.Node) bool {
			switch x := n.(type) {
			case *ast.SelectorExpr:
				if id, ok := x.X.(*ast.Ident); ok && imp[id.Name] && !isLocal(fd, id) {
					return false
				}
				if !inCall[x.Sel] { // method value (or a field of the same name: conservative)
					for _, g := range p.methods[x.Sel.Name] {
						p.valUsed[g] = true
					}
				}
				ast.Inspect(x.X, visit) // not x.Sel: a field / method name is not a reference to a plain function
				return false
			case *ast.KeyValueExpr:
				if _, ok := x.Key.(*ast.Ident); ok { // struct field name (or a map key that is then looked at as a value below)
					ast.Inspect(x.Value, visit)
					return false
				}
			case *ast.Ident:
				funcRef(x)
			}
			return true
		}
		ast.Inspect(fd.Body, visit)
	}
	return p
}

// isLocal: the identifier resolves (go/parser's file-scope resolution) to something declared inside fd.
func isLocal(fd *ast.FuncDecl, id *ast.Ident) bool {
	if id.Obj == nil {
		return false
	}
	d, ok := id.Obj.Decl.(ast.Node)
	if !ok {
		return false
	}
	return fd.Pos().IsValid() && d.Pos() >= fd.Pos() && d.End() <= fd.End()
}

func fname(fd *ast.FuncDecl) string {
	if fd.Recv != nil && len(fd.Recv.List) == 1 {
		t := fd.Recv.List[0].Type
		if s, ok := t.(*ast.StarExpr); ok {
			t = s.X
		}
		if id, ok := t.(*ast.Ident); ok {
			return id.Name + "." + fd.Name.Name
		}
	}
	return fd.Name.Name
}

// entry: a function that can be invoked from outside the package's own call graph.
func (p *pkg) entry(fd *ast.FuncDecl) bool {
	n := fd.Name.Name
	return ast.IsExported(n) || n == "init" || n == "main" || fd == p.varInit || p.valUsed[fd]
}

// inl(fd): fd and every NON-ENTRY function it reaches through non-entry functions — "fd with its unexported
// helpers inlined".
func (p *pkg) inl(fd *ast.FuncDecl) []*ast.FuncDecl {
	out := []*ast.FuncDecl{fd}
	seen := map[*ast.FuncDecl]bool{fd: true}
	for i := 0; i < len(out); i++ {
		for _, g := range p.callees[out[i]] {
			if !seen[g] && !p.entry(g) {
				seen[g] = true
				out = append(out, g)
			}
		}
	}
	return out
}

// clo(fd): fd and everything it reaches inside the package (entry or not).
func (p *pkg) clo(fd *ast.FuncDecl) []*ast.FuncDecl {
	out := []*ast.FuncDecl{fd}
	seen := map[*ast.FuncDecl]bool{fd: true}
	for i := 0; i < len(out); i++ {
		for _, g := range p.callees[out[i]] {
			if !seen[g] {
				seen[g] = true
				out = append(out, g)
			}
		}
	}
	return out
}

// lift: the entry points whose inlined body contains one of the holders (sorted names).
func (p *pkg) lift(holders map[*ast.FuncDecl]bool) []string {
	set := map[string]bool{}
	for _, e := range p.all {
		if !p.entry(e) {
			continue
		}
		for _, g := range p.inl(e) {
			if holders[g] {
				set[fname(e)] = true
			}
		}
	}
	return sorted(set)
}

func sorted(m map[string]bool) []string {
	out := []string{}
	for k := range m {
		out = append(out, k)
	}
	sort.Strings(out)
	return out
}

// holding: the functions whose own body has a node satisfying pred.
func (p *pkg) holding(pred func(fd *ast.FuncDecl, n ast.Node) bool) map[*ast.FuncDecl]bool {
	out := map[*ast.FuncDecl]bool{}
	for _, fd := range p.all {
		ast.Inspect(fd.Body, func(n ast.Node) bool {
			if n != nil && pred(fd, n) {
				out[fd] = true
			}
			return true
		})
	}
	return out
}

func (p *pkg) isCallTo(n ast.Node, callee string) bool {
	c, ok := n.(*ast.CallExpr)
	return ok && src(p.fset, strip(c.Fun)) == callee
}

// ---- expressions with locals resolved

// singleDef: id is a local introduced by `id := rhs` (one value per name) and never written again in fd.
func singleDef(fd *ast.FuncDecl, id *ast.Ident) ast.Expr {
	as, ok := id.Obj.Decl.(*ast.AssignStmt)
	if !ok || as.Tok != token.DEFINE || len(as.Lhs) != len(as.Rhs) {
		return nil
	}
	var rhs ast.Expr
	for i, l := range as.Lhs {
		if li, ok := l.(*ast.Ident); ok && li.Obj == id.Obj {
			rhs = as.Rhs[i]
		}
	}
	if rhs == nil {
		return nil
	}
	written := false
	ast.Inspect(fd.Body, func(n ast.Node) bool {
		switch x := n.(type) {
		case *ast.AssignStmt:
			if x == as {
				return true
			}
			for _, l := range x.Lhs {
				if li, ok := strip(l).(*ast.Ident); ok && li.Obj == id.Obj {
					written = true
				}
			}
		case *ast.IncDecStmt:
			if li, ok := strip(x.X).(*ast.Ident); ok && li.Obj == id.Obj {
				written = true
			}
		case *ast.UnaryExpr:
			if li, ok := strip(x.X).(*ast.Ident); ok && x.Op == token.AND && li.Obj == id.Obj {
				written = true
			}
		case *ast.RangeStmt:
			for _, l := range []ast.Expr{x.Key, x.Value} {
				if li, ok := l.(*ast.Ident); ok && li.Obj == id.Obj {
					written = true
				}
			}
		}
		return true
	})
	if written {
		return nil
	}
	return rhs
}

func (p *pkg) canon(fd *ast.FuncDecl, e ast.Expr, depth int) string {
	switch x := e.(type) {
	case *ast.ParenExpr:
		return p.canon(fd, x.X, depth)
	case *ast.Ident:
		if isLocal(fd, x) {
			if depth < 4 {
				if rhs := singleDef(fd, x); rhs != nil {
					return p.canon(fd, rhs, depth+1)
				}
			}
			return "<local>"
		}
		if a, ok := p.alias[x.Name]; ok {
			return a
		}
		return x.Name
	case *ast.SelectorExpr:
		return p.canon(fd, x.X, depth) + "." + x.Sel.Name
	case *ast.StarExpr:
		return "*" + p.canon(fd, x.X, depth)
	case *ast.UnaryExpr:
		return x.Op.String() + p.canon(fd, x.X, depth)
	case *ast.BinaryExpr:
		return "(" + p.canon(fd, x.X, depth) + x.Op.String() + p.canon(fd, x.Y, depth) + ")"
	case *ast.IndexExpr:
		return p.canon(fd, x.X, depth) + "[" + p.canon(fd, x.Index, depth) + "]"
	case *ast.CallExpr:
		a := make([]string, len(x.Args))
		for i := range x.Args {
			a[i] = p.canon(fd, x.Args[i], depth)
		}
		return p.canon(fd, x.Fun, depth) + "(" + strings.Join(a, ",") + ")"
	case *ast.BasicLit:
		return x.Value
	}
	return src(p.fset, e)
}

var universe = map[string]bool{"len": true, "cap": true, "int": true, "int8": true, "int16": true, "int32": true, "int64": true,
	"uint": true, "uint8": true, "uint16": true, "uint32": true, "uint64": true, "uintptr": true, "byte": true, "rune": true,
	"float32": true, "float64": true, "true": true, "false": true, "nil": true, "min": true, "max": true, "string": true, "bool": true,
	"append": true, "make": true, "new": true, "copy": true, "delete": true, "error": true, "any": true, "iota": true}

// external: the expression (locals defined once resolved) mentions something that is neither a local nor a
// predeclared name — a package-level variable / function or another package.
func (p *pkg) external(fd *ast.FuncDecl, e ast.Expr, depth int) bool {
	ext := false
	var visit func(n ast.Node) bool
	visit = func(n ast.Node) bool {
		switch x := n.(type) {
		case *ast.SelectorExpr:
			ast.Inspect(x.X, visit) // a field name is not a reference
			return false
		case *ast.FuncLit:
			return false
		case *ast.Ident:
			if isLocal(fd, x) {
				if depth < 4 {
					if rhs := singleDef(fd, x); rhs != nil && p.external(fd, rhs, depth+1) {
						ext = true
					}
				}
			} else if !universe[x.Name] && x.Name != "_" {
				ext = true
			}
		}
		return true
	}
	ast.Inspect(e, visit)
	return ext
}

// canonSet: canon, except that an expression which IS a parameter of a non-entry plain function stands for what the
// callers inside the package pass there (one string per call site; two levels).
func (p *pkg) canonSet(fd *ast.FuncDecl, e ast.Expr, depth int) []string {
	if id, ok := strip(e).(*ast.Ident); ok && isLocal(fd, id) && depth < 2 && fd.Recv == nil && !p.entry(fd) {
		if rhs := singleDef(fd, id); rhs != nil {
			return p.canonSet(fd, rhs, depth)
		}
		idx, k := -1, 0
		for _, f := range fd.Type.Params.List {
			for _, n := range f.Names {
				if n.Obj == id.Obj {
					idx = k
				}
				k++
			}
		}
		if _, variadic := fd.Type.Params.List[len(fd.Type.Params.List)-1].Type.(*ast.Ellipsis); idx >= 0 && !variadic {
			var out []string
			for _, c := range p.all {
				c := c
				ast.Inspect(c.Body, func(n ast.Node) bool {
					if call, ok := n.(*ast.CallExpr); ok && len(call.Args) == k {
						if ci, ok := strip(call.Fun).(*ast.Ident); ok && ci.Name == fd.Name.Name && !isLocal(c, ci) {
							out = append(out, p.canonSet(c, call.Args[idx], depth+1)...)
						}
					}
					return true
				})
			}
			if len(out) > 0 {
				return out
			}
		}
	}
	return []string{p.canon(fd, e, 0)}
}

func leanList(l []string) string {
	q := make([]string, len(l))
	for i, s := range l {
		q[i] = fmt.Sprintf("%q", s)
	}
	return "[" + strings.Join(q, ", ") + "]"
}

func has(l []string, s string) bool {
	for _, x := range l {
		if x == s {
			return true
		}
	}
	return false
}

func main() {
	common := loadPkg("client/common")
	wallet := loadPkg("client/wallet")

	// ---- 1. the variable behind common.AllBalMinVal(), and every use of it in package common
	getter := common.funcs["AllBalMinVal"]
	if getter == nil {
		die(fmt.Errorf("client/common: func AllBalMinVal not found"))
	}
	atomicArg := func(fd *ast.FuncDecl, n ast.Node, fn string) *ast.Ident {
		c, ok := n.(*ast.CallExpr)
		if !ok || len(c.Args) == 0 || src(common.fset, strip(c.Fun)) != fn {
			return nil
		}
		u, ok := strip(c.Args[0]).(*ast.UnaryExpr)
		if !ok || u.Op != token.AND {
			return nil
		}
		id, ok := strip(u.X).(*ast.Ident)
		if !ok || isLocal(fd, id) || !common.globals[id.Name] {
			return nil
		}
		return id
	}
	loaded := map[string]bool{}
	for _, g := range common.inl(getter) {
		ast.Inspect(g.Body, func(n ast.Node) bool {
			if id := atomicArg(g, n, "atomic.LoadUint64"); id != nil {
				loaded[id.Name] = true
			}
			return true
		})
	}
	if len(loaded) != 1 {
		die(fmt.Errorf("common.AllBalMinVal: expected one atomic.LoadUint64(&<package variable>), found %v", sorted(loaded)))
	}
	minVar := sorted(loaded)[0]
	declared := false
	for _, f := range common.files {
		for _, d := range f.Decls {
			if gd, ok := d.(*ast.GenDecl); ok {
				for _, sp := range gd.Specs {
					if vs, ok := sp.(*ast.ValueSpec); ok {
						for _, n := range vs.Names {
							if n.Name == minVar {
								if len(vs.Values) != 0 || vs.Type == nil || src(common.fset, vs.Type) != "uint64" {
									die(fmt.Errorf("%s: declaration is not `%s uint64` without initialiser", minVar, minVar))
								}
								declared = true
							}
						}
					}
				}
			}
		}
	}
	if !declared {
		die(fmt.Errorf("client/common: package-level variable %s not found", minVar))
	}
	writerFns, readerFns := map[*ast.FuncDecl]bool{}, map[*ast.FuncDecl]bool{}
	storedSet := map[string]bool{}
	for _, fd := range common.all {
		fd := fd
		accounted := map[*ast.Ident]bool{}
		ast.Inspect(fd.Body, func(n ast.Node) bool {
			if id := atomicArg(fd, n, "atomic.LoadUint64"); id != nil && id.Name == minVar {
				readerFns[fd] = true
				accounted[id] = true
			}
			if id := atomicArg(fd, n, "atomic.StoreUint64"); id != nil && id.Name == minVar {
				c := n.(*ast.CallExpr)
				if len(c.Args) != 2 {
					die(fmt.Errorf("%s: atomic.StoreUint64(&%s, …) with %d arguments", fname(fd), minVar, len(c.Args)))
				}
				writerFns[fd] = true
				for _, v := range common.canonSet(fd, c.Args[1], 0) {
					storedSet[v] = true
				}
				accounted[id] = true
			}
			return true
		})
		ast.Inspect(fd.Body, func(n ast.Node) bool {
			if id, ok := n.(*ast.Ident); ok && id.Name == minVar && !isLocal(fd, id) && !accounted[id] {
				die(fmt.Errorf("%s: %s is used other than through atomic.LoadUint64 / atomic.StoreUint64 — not a shape the model knows", fname(fd), minVar))
			}
			return true
		})
	}
	if len(writerFns) == 0 || len(readerFns) == 0 {
		die(fmt.Errorf("%s: no atomic store or no atomic load found", minVar))
	}
	writers, readers, stored := common.lift(writerFns), common.lift(readerFns), sorted(storedSet)

	// ---- 2. which functions of package common can reach a store (calls inside the package, methods by name)
	reach := map[*ast.FuncDecl]bool{}
	for w := range writerFns {
		reach[w] = true
	}
	for changed := true; changed; {
		changed = false
		for _, fd := range common.all {
			if reach[fd] {
				continue
			}
			for _, g := range common.callees[fd] {
				if reach[g] {
					reach[fd] = true
					changed = true
					break
				}
			}
		}
	}
	reachSet := map[string]bool{}
	for fd := range reach {
		if common.entry(fd) {
			reachSet[fname(fd)] = true
		}
		// function values (callbacks) handed around would escape this call graph
		if common.valUsed[fd] {
			die(fmt.Errorf("client/common: %s (from which a store to %s is reachable) is used as a function value — call graph not understood", fname(fd), minVar))
		}
	}
	reachers := sorted(reachSet)
	reset := common.funcs["Reset"]
	if reset == nil {
		die(fmt.Errorf("client/common: func Reset not found"))
	}

	// ---- 3. callers of the (exported) writers outside package common (all of client/), lifted to entry points;
	// a writer mentioned other than as the callee of a call is listed as "<pkg>.<entry> (as a value)"
	extSet := map[string]bool{}
	filepath.Walk(filepath.Join(vtrans.RepoRoot(), "client"), func(path string, info os.FileInfo, err error) error {
		if err != nil || !info.IsDir() {
			return nil
		}
		rel, _ := filepath.Rel(vtrans.RepoRoot(), path)
		if rel == "client/common" {
			return nil
		}
		p := wallet
		if rel != "client/wallet" {
			p = loadPkg(rel)
		}
		callee := map[ast.Node]bool{}
		callers := p.holding(func(fd *ast.FuncDecl, n ast.Node) bool {
			for _, w := range writers {
				if p.isCallTo(n, "common."+w) {
					callee[strip(n.(*ast.CallExpr).Fun)] = true
					return true
				}
			}
			return false
		})
		for _, f := range p.lift(callers) {
			extSet[p.name+"."+f] = true
		}
		asValue := p.holding(func(fd *ast.FuncDecl, n ast.Node) bool {
			s, ok := n.(*ast.SelectorExpr)
			return ok && !callee[s] && has(writers, s.Sel.Name) && src(p.fset, s.X) == "common"
		})
		for _, f := range p.lift(asValue) {
			extSet[p.name+"."+f+" (as a value)"] = true
		}
		return nil
	})
	extCallers := sorted(extSet)

	// ---- 4. wallet.LoadBalancesFromUtxo: guard first; exactly one (possible) apply, as a top-level statement
	// (directly or through a helper that does it unconditionally), before the one top-level statement that scans
	lb := wallet.funcs["LoadBalancesFromUtxo"]
	if lb == nil {
		die(fmt.Errorf("client/wallet: func LoadBalancesFromUtxo not found"))
	}
	guard := false
	if len(lb.Body.List) > 0 {
		if is, ok := lb.Body.List[0].(*ast.IfStmt); ok && is.Init == nil && is.Else == nil &&
			src(wallet.fset, strip(is.Cond)) == "common.Get(&common.WalletON)" && len(is.Body.List) >= 1 {
			if _, ok := is.Body.List[len(is.Body.List)-1].(*ast.ReturnStmt); ok {
				guard = true
			}
		}
	}
	const applyFn = "common.ApplyBalMinVal"
	if !has(writers, "ApplyBalMinVal") {
		die(fmt.Errorf("client/common: ApplyBalMinVal is not a writer of %s — the model's build step is written for it", minVar))
	}
	mayApply := wallet.holding(func(fd *ast.FuncDecl, n ast.Node) bool { return wallet.isCallTo(n, applyFn) })
	for changed := true; changed; { // … or reaches one
		changed = false
		for _, fd := range wallet.all {
			if !mayApply[fd] {
				for _, g := range wallet.callees[fd] {
					if mayApply[g] {
						mayApply[fd] = true
						changed = true
					}
				}
			}
		}
	}
	// calleesOf(call): the package functions a call expression may go to
	calleesOf := func(fd *ast.FuncDecl, c *ast.CallExpr) (out []*ast.FuncDecl) {
		switch x := strip(c.Fun).(type) {
		case *ast.Ident:
			if g := wallet.funcs[x.Name]; g != nil && !isLocal(fd, x) {
				out = append(out, g)
			}
		case *ast.SelectorExpr:
			if id, ok := x.X.(*ast.Ident); ok && imports(wallet.fileOf[fd])[id.Name] && !isLocal(fd, id) {
				return nil
			}
			out = append(out, wallet.methods[x.Sel.Name]...)
		}
		return
	}
	// possible applies inside a body: direct calls + calls to package functions that may apply
	countMay := func(fd *ast.FuncDecl, body ast.Node) (n int) {
		ast.Inspect(body, func(m ast.Node) bool {
			if c, ok := m.(*ast.CallExpr); ok {
				if wallet.isCallTo(c, applyFn) {
					n++
				} else {
					for _, g := range calleesOf(fd, c) {
						if mayApply[g] {
							n++
							break
						}
					}
				}
			}
			return true
		})
		return
	}
	// straight(fd, stmt): the statement is an unconditional apply — the call itself, or a call of a plain package
	// function whose body has exactly one possible apply and that one is a top-level straight statement
	var straight func(fd *ast.FuncDecl, st ast.Stmt, depth int) bool
	straight = func(fd *ast.FuncDecl, st ast.Stmt, depth int) bool {
		es, ok := st.(*ast.ExprStmt)
		if !ok {
			return false
		}
		c, ok := es.X.(*ast.CallExpr)
		if !ok {
			return false
		}
		if wallet.isCallTo(c, applyFn) {
			return true
		}
		id, ok := strip(c.Fun).(*ast.Ident)
		if !ok || depth >= 2 || isLocal(fd, id) {
			return false
		}
		g := wallet.funcs[id.Name]
		if g == nil || countMay(g, g.Body) != 1 {
			return false
		}
		for _, s := range g.Body.List {
			if straight(g, s, depth+1) {
				return true
			}
		}
		return false
	}
	// the scan: TxNotifyAdd(utxo.NewUtxoRecStatic(…)) and a poll of FetchingBalanceTick, in the statement itself or
	// in non-entry helpers it calls
	scanIn := func(fd *ast.FuncDecl, st ast.Stmt) (notify, tick bool) {
		look := func(body ast.Node) {
			ast.Inspect(body, func(m ast.Node) bool {
				if c, ok := m.(*ast.CallExpr); ok {
					switch src(wallet.fset, strip(c.Fun)) {
					case "TxNotifyAdd":
						if len(c.Args) == 1 && wallet.isCallTo(strip(c.Args[0]), "utxo.NewUtxoRecStatic") {
							notify = true
						}
					case "FetchingBalanceTick":
						tick = true
					}
				}
				return true
			})
		}
		look(st)
		seen := map[*ast.FuncDecl]bool{}
		var todo []*ast.FuncDecl
		ast.Inspect(st, func(m ast.Node) bool {
			if c, ok := m.(*ast.CallExpr); ok {
				todo = append(todo, calleesOf(fd, c)...)
			}
			return true
		})
		for _, g := range todo {
			if wallet.entry(g) {
				continue
			}
			for _, h := range wallet.inl(g) {
				if !seen[h] {
					seen[h] = true
					look(h.Body)
				}
			}
		}
		return
	}
	applyTop, applyAt, scanAt, scans, scanTick := 0, -1, -1, 0, false
	for i, st := range lb.Body.List {
		if straight(lb, st, 0) {
			applyTop++
			applyAt = i
		}
		if n, t := scanIn(lb, st); n {
			scans++
			scanAt = i
			scanTick = t
		}
	}
	if scans != 1 || !scanTick {
		die(fmt.Errorf("LoadBalancesFromUtxo: expected exactly one top-level statement that scans (TxNotifyAdd(utxo.NewUtxoRecStatic(…)) and polls FetchingBalanceTick()), found %d", scans))
	}
	switch lb.Body.List[scanAt].(type) {
	case *ast.RangeStmt, *ast.ForStmt, *ast.ExprStmt, *ast.AssignStmt:
	default:
		die(fmt.Errorf("LoadBalancesFromUtxo: the scan is not a top-level loop (or a call of a helper holding it)"))
	}
	applyOnce := applyTop == 1 && countMay(lb, lb.Body) == 1 && applyAt < scanAt

	// ---- 5. the wallet's copy of CFG.AllBalances.UseMapCnt: the package variable(s) assigned from it
	const cfgUM = "common.CFG.AllBalances.UseMapCnt"
	umVars := map[string]bool{}
	for _, fd := range wallet.all {
		fd := fd
		ast.Inspect(fd.Body, func(n ast.Node) bool {
			if x, ok := n.(*ast.AssignStmt); ok && len(x.Lhs) == len(x.Rhs) {
				for i, l := range x.Lhs {
					if id, ok := l.(*ast.Ident); ok && !isLocal(fd, id) && wallet.globals[id.Name] &&
						strings.Contains(strings.Join(wallet.canonSet(fd, x.Rhs[i], 0), " "), cfgUM) {
						umVars[id.Name] = true
					}
				}
			}
			return true
		})
	}
	if len(umVars) != 1 {
		die(fmt.Errorf("client/wallet: expected one package variable assigned from %s, found %v", cfgUM, sorted(umVars)))
	}
	umVar := sorted(umVars)[0]
	umWriterFns := map[*ast.FuncDecl]bool{}
	umSrc := map[string]bool{}
	for _, fd := range wallet.all {
		fd := fd
		ast.Inspect(fd.Body, func(n ast.Node) bool {
			mine := func(e ast.Expr) bool {
				id, ok := strip(e).(*ast.Ident)
				return ok && id.Name == umVar && !isLocal(fd, id)
			}
			switch x := n.(type) {
			case *ast.AssignStmt:
				for i, l := range x.Lhs {
					if mine(l) {
						if x.Tok != token.ASSIGN || len(x.Rhs) != len(x.Lhs) {
							die(fmt.Errorf("%s: assignment to %s not understood", fname(fd), umVar))
						}
						umWriterFns[fd] = true
						for _, v := range wallet.canonSet(fd, x.Rhs[i], 0) {
							umSrc[v] = true
						}
					}
				}
			case *ast.IncDecStmt:
				if mine(x.X) {
					die(fmt.Errorf("%s: %s++/-- not understood", fname(fd), umVar))
				}
			case *ast.UnaryExpr:
				if x.Op == token.AND && mine(x.X) {
					die(fmt.Errorf("%s: address of %s taken — not understood", fname(fd), umVar))
				}
			}
			return true
		})
	}
	umWriters, umSources := wallet.lift(umWriterFns), sorted(umSrc)
	wallet.alias = map[string]string{umVar: "<useMapCnt>"}

	// ---- 6. the operands of ordered comparisons (< <= > >=) in the callbacks and everything they reach inside the
	// package that are not made of locals and literals only: the package-level / imported quantities they depend on
	thresholds := func(entry string) (ths []string, inForce bool) {
		e := wallet.funcs[entry]
		if e == nil {
			die(fmt.Errorf("client/wallet: func %s not found", entry))
		}
		set := map[string]bool{}
		for _, g := range wallet.clo(e) {
			g := g
			ast.Inspect(g.Body, func(n ast.Node) bool {
				if wallet.isCallTo(n, "common.AllBalMinVal") {
					inForce = true
				}
				b, ok := n.(*ast.BinaryExpr)
				if !ok {
					return true
				}
				switch b.Op {
				case token.LSS, token.LEQ, token.GTR, token.GEQ:
				default:
					return true
				}
				for _, side := range []ast.Expr{b.X, b.Y} {
					if wallet.external(g, side, 0) {
						set[wallet.canon(g, side, 0)] = true
					}
				}
				return true
			})
		}
		return sorted(set), inForce
	}
	addThs, addInForce := thresholds("TxNotifyAdd")
	delThs, delInForce := thresholds("TxNotifyDel")
	direct := wallet.lift(wallet.holding(func(fd *ast.FuncDecl, n ast.Node) bool {
		s, ok := n.(*ast.SelectorExpr)
		return ok && src(wallet.fset, s) == "common.CFG.AllBalances.MinValue"
	}))

	// ---- 6b. EVERYTHING the conditions on the callbacks' paths depend on (not only ordered comparisons): every if / for /
	// range / switch / case condition in the closure of the callback, in the canonical form of guards.go (paths rooted in
	// the type of the parameter they start from, locals = every write + the conditions around it, package variables by name
	// or role, imported names as pkg.Name). A new test of node state (`common.BlockChainSynchronized`, a config field, a
	// height) on the way to the index shows up here as a new element.
	condDeps := func(entry string) []string {
		g := newGuardCtx(wallet)
		set := rootSet{}
		for _, f := range wallet.clo(wallet.funcs[entry]) {
			for _, c := range leaversAlways(f.Body) {
				set.addAll(g.paths(c, 0))
			}
		}
		// names imported from lib/... and the standard library with two components (`script.IsP2KH()`, `btc.OP_1`,
		// `slices.Index()`) are functions / constants of those packages, applied to the record: a behaviour-preserving
		// rewrite of the script classification changes them, and they are not state — dropped. Kept: this package's
		// variables and functions, everything imported from client/... (node state, configuration), field paths
		// (`utxo.UtxoRec.Outs.Value`: three or more components).
		libPkg := map[string]bool{}
		for _, f := range wallet.files {
			for _, im := range f.Imports {
				path := strings.Trim(im.Path.Value, "\"`")
				n := filepath.Base(path)
				if im.Name != nil {
					n = im.Name.Name
				}
				if !strings.Contains(path, "/client/") {
					libPkg[n] = true
				}
			}
		}
		out := map[string]bool{}
		for k := range set.clean() {
			parts := strings.Split(k, ".")
			if len(parts) == 2 && libPkg[parts[0]] {
				continue
			}
			out[k] = true
		}
		return sorted(out)
	}
	addConds, delConds := condDeps("TxNotifyAdd"), condDeps("TxNotifyDel")

	// ---- 6c. what common.AllBalMinVal() RETURNS (with its unexported helpers inlined): must be the atomic load alone
	common.alias = map[string]string{minVar: "<minVal>"}
	getterReturns := map[string]bool{}
	for _, gfn := range common.inl(getter) {
		gfn := gfn
		ast.Inspect(gfn.Body, func(n ast.Node) bool {
			switch x := n.(type) {
			case *ast.FuncLit:
				getterReturns["<closure>"] = true
			case *ast.ReturnStmt:
				if len(x.Results) == 0 {
					getterReturns["<named result>"] = true
				}
				for _, res := range x.Results {
					getterReturns[common.canon(gfn, res, 0)] = true
				}
			}
			return true
		})
	}
	common.alias = nil

	// ---- 7. searches that ASSUME A SORTED slice on the path of the removing callback (standard library: slices.BinarySearch*,
	// sort.Search*, sort.Find). The entry lists of the index carry no order: a record restored from the balances cache holds
	// its entries in file order = Go's map iteration order (model: Ev.reload / relayout); the model finds the entry to remove
	// by membership. (On the adding path such a search only picks a position, which is not observable.)
	sortedSearch := map[string]bool{}
	for _, entry := range []string{"TxNotifyDel"} {
		for _, g := range wallet.clo(wallet.funcs[entry]) {
			ast.Inspect(g.Body, func(n ast.Node) bool {
				c, ok := n.(*ast.CallExpr)
				if !ok {
					return true
				}
				f := strip(c.Fun)
				switch x := f.(type) {
				case *ast.IndexExpr:
					f = strip(x.X)
				case *ast.IndexListExpr:
					f = strip(x.X)
				}
				if sel, ok := f.(*ast.SelectorExpr); ok {
					if id, ok := sel.X.(*ast.Ident); ok && (id.Name == "slices" || id.Name == "sort") {
						if nm := sel.Sel.Name; strings.HasPrefix(nm, "BinarySearch") || strings.HasPrefix(nm, "Search") || nm == "Find" {
							sortedSearch[id.Name+"."+nm] = true
						}
					}
				}
				return true
			})
		}
	}

	// ---- output
	var sb strings.Builder
	facts := 0
	def := func(doc, name, ty, val string) {
		fmt.Fprintf(&sb, "/-- %s -/\ndef %s : %s := %s\n", doc, name, ty, val)
		facts++
	}
	sb.WriteString("/- GENERATED by go/cmd/gen_c17 from client/common/*.go and client/wallet/*.go — do not edit; not in git.\n")
	sb.WriteString("   Functions are named only when they are entry points of their package (exported, init, main, used as a value);\n")
	sb.WriteString("   unexported helpers count as inlined into their callers; locals are resolved or printed as <local>. -/\n")
	sb.WriteString("namespace GocoinV.Gen.WalletCfgFacts\n\n")
	def("entry points of package common that (with their unexported helpers inlined) hold an atomic store to the variable common.AllBalMinVal() loads", "minValWriters", "List String", leanList(writers))
	def("the expressions stored there", "minValStored", "List String", leanList(stored))
	def("entry points of package common that (with helpers inlined) hold an atomic load of that variable", "minValReaders", "List String", leanList(readers))
	def("entry points of package common from which a store to that variable is reachable (calls inside the package)", "minValReach", "List String", leanList(reachers))
	def("common.Reset() — called after every config change of the WebUI / TextUI, from their goroutines — can reach a store to that variable", "resetMayWriteMinVal", "Bool", fmt.Sprint(reach[reset]))
	def("entry points outside package common (client/...) that (with helpers inlined) call a writer", "minValExternalCallers", "List String", leanList(extCallers))
	def("LoadBalancesFromUtxo starts with `if common.Get(&common.WalletON) { return }`", "loadGuardedByWalletON", "Bool", fmt.Sprint(guard))
	def("LoadBalancesFromUtxo has exactly one possible call of common.ApplyBalMinVal(), an unconditional top-level statement before its one scanning statement", "loadAppliesOnceBeforeScan", "Bool", fmt.Sprint(applyOnce))
	def("operands of ordered comparisons in wallet.TxNotifyAdd (and what it calls in the package) that mention package-level or imported names; <useMapCnt> = the wallet's copy of CFG.AllBalances.UseMapCnt", "addPathComparesWith", "List String", leanList(addThs))
	def("the same for wallet.TxNotifyDel", "delPathComparesWith", "List String", leanList(delThs))
	def("wallet.TxNotifyAdd's path calls common.AllBalMinVal() (the value in force)", "addPathReadsInForce", "Bool", fmt.Sprint(addInForce))
	def("wallet.TxNotifyDel's path calls common.AllBalMinVal() (the value in force)", "delPathReadsInForce", "Bool", fmt.Sprint(delInForce))
	def("what the conditions (if / for / range / switch / case, any operator) in wallet.TxNotifyAdd and what it calls in the package depend on: field paths rooted in the type of the parameter they start from, this package's variables / functions, names imported from client/... (functions and constants of lib/... and the standard library are not listed)", "addPathConditionsDependOn", "List String", leanList(addConds))
	def("the same for wallet.TxNotifyDel", "delPathConditionsDependOn", "List String", leanList(delConds))
	def("the expressions common.AllBalMinVal() returns (helpers inlined; <minVal> = the variable ApplyBalMinVal stores)", "minValGetterReturns", "List String", leanList(sorted(getterReturns)))
	def("entry points of client/wallet reading common.CFG.AllBalances.MinValue directly", "walletReadsCfgMinValue", "List String", leanList(direct))
	def("entry points of client/wallet assigning the wallet's copy of CFG.AllBalances.UseMapCnt", "useMapCntWriters", "List String", leanList(umWriters))
	def("the expressions assigned to it", "useMapCntSources", "List String", leanList(umSources))
	def("standard-library searches that assume a SORTED slice (slices.BinarySearch*, sort.Search*, sort.Find) called on the path of wallet.TxNotifyDel (where the entry to remove is looked up)", "delPathSortedSearches", "List String", leanList(sorted(sortedSearch)))
	sb.WriteString("\nend GocoinV.Gen.WalletCfgFacts\n")
	out := vlib.Root() + "/lean/GocoinV/Gen/WalletCfgFacts.lean"
	os.Remove(out)
	if err := os.WriteFile(out, []byte(sb.String()), 0644); err != nil {
		die(err)
	}
	// ---- 8. lib/utxo: what the guards of the calls of the index callbacks depend on (guards.go)
	nf, text := writeNotifyFacts(loadPkg("lib/utxo"))
	out2 := vlib.Root() + "/lean/GocoinV/Gen/UtxoNotifyFacts.lean"
	os.Remove(out2)
	if err := os.WriteFile(out2, []byte(text), 0644); err != nil {
		die(err)
	}
	facts += nf
	fmt.Printf("FACTS %d\n", facts)
}
