// strloop.go — structural source facts for C15: the codec reads a typed string BYTE BY BYTE.
//
// Every Lean model of C15 takes a Go string as the list of its bytes. Go offers a second reading: `range` over a
// string, []rune(s), utf8.DecodeRune*, and the code-point functions of strings / bytes / unicode. As long as a decoder
// only uses the POSITIONS of such a loop (`for i := range s { … s[i] … }`, the shape Decodeb58 and bech32.Encode have)
// the two readings agree on everything the alphabets accept (Proofs/C15Str.lean); as soon as a CODE POINT is narrowed
// to 8 or 16 bits, masked, or passed through a case mapping, characters that are in no alphabet become alphabet
// characters. This file re-derives, over the call closure of the C15 API (the one shared.go computes):
//
//	runeNarrowings        conversions to an 8/16-bit integer type, and masks / remainders by a small constant, of an
//	                      int32 expression that mentions a code point taken from a string (value variable of a range
//	                      over a string or []rune, result of utf8.DecodeRune*/DecodeLastRune*, element of a []rune)
//	                      — expected []
//	unicodeCalls          calls of code-point-aware library functions (unicode.*, unicode/utf8.*, and the functions of
//	                      strings / bytes that decode UTF-8 or apply Unicode case mappings) — expected: exactly
//	                      NewAddrFromString's strings.ToLower of the 3-byte prefix
//	b58DecodeRangesString the digit loop of Decodeb58 ranges over the string (or []rune of it)
//	b58DecodeLookup       0 = the range's value variable is not used (the byte s[i] is looked up), 1 = it is used
//	                      through a narrowing, 2 = it is used at full width only
//
// into lean/GocoinV/Gen/C15Str.lean. Model/Base58Str.lean instantiates the loop model with the last two; Props/C15
// proves the first two lists have their expected values. An unexpected value is NOT a translate error.
package main

import (
	"fmt"
	"go/ast"
	"go/constant"
	"go/token"
	"go/types"
	"os"
	"sort"
	"strings"

	"verif/vlib"
)

// code-point-aware functions of strings and bytes (they decode UTF-8 and/or apply Unicode tables)
var runeAwareStd = map[string]bool{
	"ToLower": true, "ToUpper": true, "ToTitle": true, "Title": true, "ToLowerSpecial": true, "ToUpperSpecial": true,
	"ToTitleSpecial": true, "ToValidUTF8": true, "EqualFold": true, "Map": true, "Fields": true, "FieldsFunc": true,
	"TrimSpace": true, "TrimFunc": true, "TrimLeftFunc": true, "TrimRightFunc": true, "Trim": true, "TrimLeft": true,
	"TrimRight": true, "IndexRune": true, "ContainsRune": true, "IndexFunc": true, "LastIndexFunc": true,
	"IndexAny": true, "LastIndexAny": true, "ContainsAny": true, "ContainsFunc": true, "Runes": true,
}

func isStringType(t types.Type) bool {
	b, ok := t.Underlying().(*types.Basic)
	return ok && b.Info()&types.IsString != 0
}

func isRuneSlice(t types.Type) bool {
	s, ok := t.Underlying().(*types.Slice)
	if !ok {
		return false
	}
	b, ok := s.Elem().Underlying().(*types.Basic)
	return ok && b.Kind() == types.Int32
}

func isInt32(t types.Type) bool {
	b, ok := t.Underlying().(*types.Basic)
	return ok && (b.Kind() == types.Int32 || b.Kind() == types.UntypedRune)
}

func isNarrowInt(t types.Type) bool {
	b, ok := t.Underlying().(*types.Basic)
	if !ok {
		return false
	}
	switch b.Kind() {
	case types.Uint8, types.Int8, types.Uint16, types.Int16:
		return true
	}
	return false
}

type strScan struct {
	lp       *loadedPkg
	runeVars map[types.Object]bool
}

func (sc *strScan) obj(id *ast.Ident) types.Object {
	if o := sc.lp.info.Defs[id]; o != nil {
		return o
	}
	return sc.lp.info.Uses[id]
}

// collect the variables that hold a code point taken from a string
func (sc *strScan) collect(body ast.Node) {
	ast.Inspect(body, func(n ast.Node) bool {
		switch s := n.(type) {
		case *ast.RangeStmt:
			if tv, ok := sc.lp.info.Types[s.X]; ok && (isStringType(tv.Type) || isRuneSlice(tv.Type)) {
				if id, ok := s.Value.(*ast.Ident); ok && id.Name != "_" {
					if o := sc.obj(id); o != nil {
						sc.runeVars[o] = true
					}
				}
			}
		case *ast.AssignStmt:
			if len(s.Rhs) == 1 && len(s.Lhs) >= 1 {
				from := false
				if c, ok := s.Rhs[0].(*ast.CallExpr); ok {
					if se, ok := c.Fun.(*ast.SelectorExpr); ok {
						if f, ok := sc.lp.info.Uses[se.Sel].(*types.Func); ok && f.Pkg() != nil && f.Pkg().Path() == "unicode/utf8" &&
							strings.HasPrefix(f.Name(), "Decode") {
							from = true
						}
					}
				} else if len(s.Lhs) == 1 && sc.mentionsRune(s.Rhs[0]) {
					if tv, ok := sc.lp.info.Types[s.Rhs[0]]; ok && isInt32(tv.Type) {
						from = true
					}
				}
				if from {
					if id, ok := s.Lhs[0].(*ast.Ident); ok && id.Name != "_" {
						if o := sc.obj(id); o != nil {
							sc.runeVars[o] = true
						}
					}
				}
			}
		}
		return true
	})
}

// does the expression mention a code point taken from a string?
func (sc *strScan) mentionsRune(e ast.Expr) bool {
	found := false
	ast.Inspect(e, func(n ast.Node) bool {
		switch x := n.(type) {
		case *ast.Ident:
			if o := sc.lp.info.Uses[x]; o != nil && sc.runeVars[o] {
				found = true
			}
		case *ast.IndexExpr:
			if tv, ok := sc.lp.info.Types[x.X]; ok && isRuneSlice(tv.Type) {
				found = true
			}
		}
		return !found
	})
	return found
}

func smallConst(info *types.Info, e ast.Expr) bool {
	tv, ok := info.Types[e]
	if !ok || tv.Value == nil || tv.Value.Kind() != constant.Int {
		return false
	}
	v, exact := constant.Int64Val(tv.Value)
	return exact && v >= 0 && v <= 0xffff
}

// narrowings inside body: returns descriptions and the identifiers that stand inside a narrowed expression
func (sc *strScan) narrowings(body ast.Node) (desc []string, inside map[*ast.Ident]bool) {
	inside = map[*ast.Ident]bool{}
	mark := func(e ast.Expr) {
		ast.Inspect(e, func(n ast.Node) bool {
			if id, ok := n.(*ast.Ident); ok {
				inside[id] = true
			}
			return true
		})
	}
	ast.Inspect(body, func(n ast.Node) bool {
		switch x := n.(type) {
		case *ast.CallExpr:
			if tv, ok := sc.lp.info.Types[x.Fun]; ok && tv.IsType() && len(x.Args) == 1 && isNarrowInt(tv.Type) {
				if at, ok := sc.lp.info.Types[x.Args[0]]; ok && isInt32(at.Type) && sc.mentionsRune(x.Args[0]) {
					desc = append(desc, types.ExprString(x))
					mark(x.Args[0])
				}
			}
		case *ast.BinaryExpr:
			if x.Op == token.AND || x.Op == token.REM {
				for _, p := range [][2]ast.Expr{{x.X, x.Y}, {x.Y, x.X}} {
					if at, ok := sc.lp.info.Types[p[0]]; ok && isInt32(at.Type) && sc.mentionsRune(p[0]) && smallConst(sc.lp.info, p[1]) &&
						!(x.Op == token.REM && p[0] == x.Y) {
						desc = append(desc, types.ExprString(x))
						mark(p[0])
					}
				}
			}
		}
		return true
	})
	return
}

func genStrLoop() (int, error) {
	an := sharedAn
	if an == nil {
		return 0, fmt.Errorf("strloop: genShared did not run")
	}
	narrowSet, callSet := map[string]bool{}, map[string]bool{}
	ranges, lookup, foundDecode := false, 0, false
	for _, f := range sharedClosure {
		fd, lp := an.decl[f], an.owner[f]
		if fd == nil || fd.Body == nil {
			continue
		}
		sc := &strScan{lp: lp, runeVars: map[types.Object]bool{}}
		sc.collect(fd.Body)
		desc, inside := sc.narrowings(fd.Body)
		for _, d := range desc {
			narrowSet[funcName(f)+": "+d] = true
		}
		ast.Inspect(fd.Body, func(n ast.Node) bool {
			c, ok := n.(*ast.CallExpr)
			if !ok {
				return true
			}
			se, ok := c.Fun.(*ast.SelectorExpr)
			if !ok {
				return true
			}
			g, ok := lp.info.Uses[se.Sel].(*types.Func)
			if !ok || g.Pkg() == nil {
				return true
			}
			switch p := g.Pkg().Path(); {
			case p == "unicode" || p == "unicode/utf8" || p == "unicode/utf16":
				callSet[funcName(f)+": "+g.Pkg().Name()+"."+g.Name()] = true
			case (p == "strings" || p == "bytes") && runeAwareStd[g.Name()]:
				callSet[funcName(f)+": "+g.Pkg().Name()+"."+g.Name()] = true
			}
			return true
		})
		if funcName(f) != "btc.Decodeb58" {
			continue
		}
		foundDecode = true
		ast.Inspect(fd.Body, func(n ast.Node) bool {
			rs, ok := n.(*ast.RangeStmt)
			if !ok {
				return true
			}
			tv, ok := lp.info.Types[rs.X]
			if !ok || !(isStringType(tv.Type) || isRuneSlice(tv.Type)) {
				return true
			}
			ranges = true
			id, ok := rs.Value.(*ast.Ident)
			if !ok || id.Name == "_" {
				return true
			}
			vo := sc.obj(id)
			uses, narrowed := 0, 0
			ast.Inspect(rs.Body, func(m ast.Node) bool {
				if u, ok := m.(*ast.Ident); ok && vo != nil && lp.info.Uses[u] == vo {
					uses++
					if inside[u] {
						narrowed++
					}
				}
				return true
			})
			switch {
			case uses == 0:
			case narrowed > 0:
				lookup = 1
			case lookup == 0:
				lookup = 2
			}
			return true
		})
	}
	if !foundDecode {
		return 0, fmt.Errorf("strloop: btc.Decodeb58 is not in the call closure of the C15 API")
	}
	keys := func(m map[string]bool) (out []string) {
		for k := range m {
			out = append(out, k)
		}
		sort.Strings(out)
		return
	}
	var sb strings.Builder
	sb.WriteString("/- GENERATED by go/cmd/gen_c15 (strloop.go) from lib/btc and lib/others/bech32 — do not edit; not in git. -/\n")
	sb.WriteString("namespace GocoinV.Gen.C15Str\n\n")
	sb.WriteString("/-- narrowings (conversion to an 8/16-bit type, mask, remainder) of a code point taken from a string, in the\n    call closure of the C15 API: \"function: expression\" -/\n")
	fmt.Fprintf(&sb, "def runeNarrowings : List String := %s\n\n", leanStrList(keys(narrowSet)))
	sb.WriteString("/-- calls of code-point-aware library functions in that closure: \"function: callee\" -/\n")
	fmt.Fprintf(&sb, "def unicodeCalls : List String := %s\n\n", leanStrList(keys(callSet)))
	sb.WriteString("/-- the digit loop of Decodeb58 is a `range` over the string (positions = first bytes of code points) -/\n")
	fmt.Fprintf(&sb, "def b58DecodeRangesString : Bool := %v\n\n", ranges)
	sb.WriteString("/-- what that loop looks up: 0 the byte s[i], 1 the code point narrowed, 2 the code point at full width -/\n")
	fmt.Fprintf(&sb, "def b58DecodeLookup : Nat := %d\n\n", lookup)
	sb.WriteString("end GocoinV.Gen.C15Str\n")
	out := vlib.Root() + "/lean/GocoinV/Gen/C15Str.lean"
	os.Remove(out)
	if err := os.WriteFile(out, []byte(sb.String()), 0644); err != nil {
		return 0, err
	}
	for _, k := range keys(narrowSet) {
		fmt.Println("RUNE-NARROWING", k)
	}
	return 4, nil
}
