// strloop.go — structural source facts for C15: the codec reads a typed string BYTE BY BYTE.
//
// Every Lean model of C15 takes a Go string as the list of its bytes. Go offers a second reading: `range` over a
// string, []rune(s), utf8.DecodeRune*, and the code-point functions of strings / bytes / unicode. As long as a decoder
// only uses the POSITIONS of such a loop (`for i := range s { … s[i] … }`, the shape Decodeb58 and bech32.Encode have)
// the two readings agree on everything the alphabets accept (Proofs/C15Str.lean); as soon as a CODE POINT is narrowed
// to 8 or 16 bits, masked, or passed through a case mapping, characters that are in no alphabet become alphabet
// characters. This file re-derives, over the call closure of the C15 API (the one shared.go computes):
//
//	runeNarrowings        conversions to an 8/16-bit integer type, and masks / remainders by a small constant, of a
//	                      CODE-POINT EXPRESSION: the value variable of a range over a string or []rune, a result of
//	                      utf8.DecodeRune*/DecodeLastRune*, an element of a []rune; a conversion of one to ANY integer
//	                      type (int(c), uint32(c)), arithmetic on one; a variable assigned one; a PARAMETER of a
//	                      function of the two packages (or of a function literal called in place) that receives one at
//	                      some call site in the closure; the result of such a function that returns one (fixpoint
//	                      over the closure) — expected []
//	unicodeCalls          EVERY CALL SITE of a code-point-aware library function (unicode.*, unicode/utf8.*, and the
//	                      functions of strings / bytes that decode UTF-8 or apply Unicode case mappings) with its
//	                      argument expressions, identifiers normalised (p<i> = i-th parameter of the enclosing
//	                      function, recv, v = any local) so that renaming does not change the fact but a second call,
//	                      or the same call on another operand, does — expected: exactly NewAddrFromString's
//	                      strings.ToLower(p0[:3])
//	b58DecodeRangesString the digit loop of Decodeb58 ranges over the string (or []rune of it)
//	b58DecodeLookup       0 = the range's value variable is not used (the byte s[i] is looked up), 1 = it is used
//	                      through a narrowing, 2 = every use is a comparison, an index or a switch tag/case AT FULL
//	                      WIDTH, 3 = it is used in some other way (passed on, converted, stored: not classified — the
//	                      loop model treats 3 like 1)
//
// into lean/GocoinV/Gen/C15Str.lean. Model/Base58Str.lean instantiates the loop model with the last two; Props/C15
// proves the first two lists have their expected values. An unexpected value is NOT a translate error.
package main

import (
	"fmt"
	"go/ast"
	"go/constant"
	"go/token"
	"go/types"
	"os"
	"sort"
	"strings"

	"verif/vlib"
)

// code-point-aware functions of strings and bytes (they decode UTF-8 and/or apply Unicode tables)
var runeAwareStd = map[string]bool{
	"ToLower": true, "ToUpper": true, "ToTitle": true, "Title": true, "ToLowerSpecial": true, "ToUpperSpecial": true,
	"ToTitleSpecial": true, "ToValidUTF8": true, "EqualFold": true, "Map": true, "Fields": true, "FieldsFunc": true,
	"TrimSpace": true, "TrimFunc": true, "TrimLeftFunc": true, "TrimRightFunc": true, "Trim": true, "TrimLeft": true,
	"TrimRight": true, "IndexRune": true, "ContainsRune": true, "IndexFunc": true, "LastIndexFunc": true,
	"IndexAny": true, "LastIndexAny": true, "ContainsAny": true, "ContainsFunc": true, "Runes": true,
}

func isStringType(t types.Type) bool {
	b, ok := t.Underlying().(*types.Basic)
	return ok && b.Info()&types.IsString != 0
}

func isRuneSlice(t types.Type) bool {
	s, ok := t.Underlying().(*types.Slice)
	if !ok {
		return false
	}
	b, ok := s.Elem().Underlying().(*types.Basic)
	return ok && b.Kind() == types.Int32
}

func isIntType(t types.Type) bool {
	b, ok := t.Underlying().(*types.Basic)
	return ok && b.Info()&types.IsInteger != 0
}

func isNarrowInt(t types.Type) bool {
	b, ok := t.Underlying().(*types.Basic)
	if !ok {
		return false
	}
	switch b.Kind() {
	case types.Uint8, types.Int8, types.Uint16, types.Int16:
		return true
	}
	return false
}

// strScan: code-point expressions over the whole closure (variables and functions are unique objects, so one set serves
// all functions; collect is repeated until nothing is added)
type strScan struct {
	an        *analysis
	runeVars  map[types.Object]bool
	runeFuncs map[*types.Func]bool // functions (of the two packages) that return a code-point expression
	changed   bool
}

func (sc *strScan) markVar(o types.Object) {
	if o != nil && !sc.runeVars[o] {
		sc.runeVars[o], sc.changed = true, true
	}
}

func objOfIdent(lp *loadedPkg, id *ast.Ident) types.Object {
	if o := lp.info.Defs[id]; o != nil {
		return o
	}
	return lp.info.Uses[id]
}

func isUtf8Decode(lp *loadedPkg, c *ast.CallExpr) bool {
	se, ok := c.Fun.(*ast.SelectorExpr)
	if !ok {
		return false
	}
	f, ok := lp.info.Uses[se.Sel].(*types.Func)
	return ok && f.Pkg() != nil && f.Pkg().Path() == "unicode/utf8" && strings.HasPrefix(f.Name(), "Decode")
}

// runeExpr: is e a code-point expression (see the file comment)?
func (sc *strScan) runeExpr(lp *loadedPkg, e ast.Expr) bool {
	switch x := e.(type) {
	case *ast.ParenExpr:
		return sc.runeExpr(lp, x.X)
	case *ast.Ident:
		o := lp.info.Uses[x]
		return o != nil && sc.runeVars[o]
	case *ast.IndexExpr:
		tv, ok := lp.info.Types[x.X]
		return ok && isRuneSlice(tv.Type)
	case *ast.UnaryExpr:
		switch x.Op {
		case token.SUB, token.ADD, token.XOR:
			return sc.runeExpr(lp, x.X)
		}
	case *ast.BinaryExpr:
		switch x.Op {
		case token.ADD, token.SUB, token.MUL, token.QUO, token.REM, token.AND, token.OR, token.XOR, token.AND_NOT:
			return sc.runeExpr(lp, x.X) || sc.runeExpr(lp, x.Y)
		case token.SHL, token.SHR:
			return sc.runeExpr(lp, x.X)
		}
	case *ast.CallExpr:
		if tv, ok := lp.info.Types[x.Fun]; ok && tv.IsType() {
			return len(x.Args) == 1 && isIntType(tv.Type) && sc.runeExpr(lp, x.Args[0])
		}
		if isUtf8Decode(lp, x) {
			return true
		}
		w := &walker{an: sc.an, lp: lp}
		if f, _, _, _ := w.callee(x); f != nil && sc.runeFuncs[f] {
			return true
		}
	}
	return false
}

// paramObjs: the parameter variables of a function type, in order (nil for unnamed ones)
func paramObjs(lp *loadedPkg, ft *ast.FuncType) (out []types.Object) {
	if ft == nil || ft.Params == nil {
		return
	}
	for _, fl := range ft.Params.List {
		if len(fl.Names) == 0 {
			out = append(out, nil)
		}
		for _, nm := range fl.Names {
			out = append(out, lp.info.Defs[nm])
		}
	}
	return
}

// collect the variables (and functions) that hold a code point taken from a string, inside one function
func (sc *strScan) collect(lp *loadedPkg, self *types.Func, fd *ast.FuncDecl) {
	ast.Inspect(fd.Body, func(n ast.Node) bool {
		switch s := n.(type) {
		case *ast.RangeStmt:
			if tv, ok := lp.info.Types[s.X]; ok && (isStringType(tv.Type) || isRuneSlice(tv.Type)) {
				if id, ok := s.Value.(*ast.Ident); ok && id.Name != "_" {
					sc.markVar(objOfIdent(lp, id))
				}
			}
		case *ast.AssignStmt:
			if len(s.Rhs) == 1 && len(s.Lhs) >= 1 {
				if c, ok := s.Rhs[0].(*ast.CallExpr); ok && isUtf8Decode(lp, c) {
					if id, ok := s.Lhs[0].(*ast.Ident); ok && id.Name != "_" {
						sc.markVar(objOfIdent(lp, id))
					}
				}
			}
			if len(s.Lhs) == len(s.Rhs) {
				for i, rh := range s.Rhs {
					if id, ok := s.Lhs[i].(*ast.Ident); ok && id.Name != "_" && sc.runeExpr(lp, rh) {
						sc.markVar(objOfIdent(lp, id))
					}
				}
			}
		case *ast.ValueSpec:
			if len(s.Names) == len(s.Values) {
				for i, v := range s.Values {
					if s.Names[i].Name != "_" && sc.runeExpr(lp, v) {
						sc.markVar(lp.info.Defs[s.Names[i]])
					}
				}
			}
		case *ast.ReturnStmt:
			if len(s.Results) == 1 && sc.runeExpr(lp, s.Results[0]) && !sc.runeFuncs[self] {
				sc.runeFuncs[self], sc.changed = true, true
			}
		case *ast.CallExpr:
			if tv, ok := lp.info.Types[s.Fun]; ok && tv.IsType() {
				return true
			}
			var params []types.Object
			fun := s.Fun
			for {
				p, ok := fun.(*ast.ParenExpr)
				if !ok {
					break
				}
				fun = p.X
			}
			if fl, ok := fun.(*ast.FuncLit); ok {
				params = paramObjs(lp, fl.Type)
			} else {
				w := &walker{an: sc.an, lp: lp}
				if f, _, _, _ := w.callee(s); f != nil && sc.an.decl[f] != nil {
					params = paramObjs(sc.an.owner[f], sc.an.decl[f].Type)
				}
			}
			for i, a := range s.Args {
				if i < len(params) && params[i] != nil && sc.runeExpr(lp, a) {
					sc.markVar(params[i])
				}
			}
		}
		return true
	})
}

func smallConst(info *types.Info, e ast.Expr) bool {
	tv, ok := info.Types[e]
	if !ok || tv.Value == nil || tv.Value.Kind() != constant.Int {
		return false
	}
	v, exact := constant.Int64Val(tv.Value)
	return exact && v >= 0 && v <= 0xffff
}

// narrowings inside body: returns descriptions and the identifiers that stand inside a narrowed expression
func (sc *strScan) narrowings(lp *loadedPkg, body ast.Node) (desc []string, inside map[*ast.Ident]bool) {
	inside = map[*ast.Ident]bool{}
	mark := func(e ast.Expr) {
		ast.Inspect(e, func(n ast.Node) bool {
			if id, ok := n.(*ast.Ident); ok {
				inside[id] = true
			}
			return true
		})
	}
	ast.Inspect(body, func(n ast.Node) bool {
		switch x := n.(type) {
		case *ast.CallExpr:
			if tv, ok := lp.info.Types[x.Fun]; ok && tv.IsType() && len(x.Args) == 1 && isNarrowInt(tv.Type) {
				if sc.runeExpr(lp, x.Args[0]) {
					desc = append(desc, types.ExprString(x))
					mark(x.Args[0])
				}
			}
		case *ast.BinaryExpr:
			if x.Op == token.AND || x.Op == token.REM {
				for _, p := range [][2]ast.Expr{{x.X, x.Y}, {x.Y, x.X}} {
					if sc.runeExpr(lp, p[0]) && smallConst(lp.info, p[1]) && !(x.Op == token.REM && p[0] == x.Y) {
						desc = append(desc, types.ExprString(x))
						mark(p[0])
					}
				}
			}
		case *ast.AssignStmt:
			if (x.Tok == token.AND_ASSIGN || x.Tok == token.REM_ASSIGN) && len(x.Lhs) == 1 && len(x.Rhs) == 1 {
				if sc.runeExpr(lp, x.Lhs[0]) && smallConst(lp.info, x.Rhs[0]) {
					desc = append(desc, types.ExprString(x.Lhs[0])+" "+x.Tok.String()+" "+types.ExprString(x.Rhs[0]))
					mark(x.Lhs[0])
				}
			}
		}
		return true
	})
	return
}

// normExpr prints an expression with identifiers normalised: p<i> = i-th parameter of fd, recv = its receiver,
// v = any other local variable; package-level objects, fields, constants and literals keep their names
func normExpr(lp *loadedPkg, fd *ast.FuncDecl, e ast.Expr) string {
	params := paramObjs(lp, fd.Type)
	var recv types.Object
	if fd.Recv != nil && len(fd.Recv.List) == 1 && len(fd.Recv.List[0].Names) == 1 {
		recv = lp.info.Defs[fd.Recv.List[0].Names[0]]
	}
	var pr func(e ast.Expr) string
	opt := func(e ast.Expr) string {
		if e == nil {
			return ""
		}
		return pr(e)
	}
	pr = func(e ast.Expr) string {
		switch x := e.(type) {
		case *ast.Ident:
			o := lp.info.Uses[x]
			if v, ok := o.(*types.Var); ok && !v.IsField() && !isPkgLevelVar(v) {
				for i, p := range params {
					if p == o {
						return fmt.Sprintf("p%d", i)
					}
				}
				if o == recv {
					return "recv"
				}
				return "v"
			}
			return x.Name
		case *ast.ParenExpr:
			return "(" + pr(x.X) + ")"
		case *ast.SelectorExpr:
			return pr(x.X) + "." + x.Sel.Name
		case *ast.IndexExpr:
			return pr(x.X) + "[" + pr(x.Index) + "]"
		case *ast.SliceExpr:
			s := pr(x.X) + "[" + opt(x.Low) + ":" + opt(x.High)
			if x.Slice3 {
				s += ":" + opt(x.Max)
			}
			return s + "]"
		case *ast.StarExpr:
			return "*" + pr(x.X)
		case *ast.UnaryExpr:
			return x.Op.String() + pr(x.X)
		case *ast.BinaryExpr:
			return pr(x.X) + " " + x.Op.String() + " " + pr(x.Y)
		case *ast.CallExpr:
			var as []string
			for _, a := range x.Args {
				as = append(as, pr(a))
			}
			return pr(x.Fun) + "(" + strings.Join(as, ", ") + ")"
		}
		return types.ExprString(e)
	}
	return pr(e)
}

// fullWidthUse: is this use of the range value variable a comparison operand, an index, or a switch tag / case value?
func fullWidthUse(stack []ast.Node, id *ast.Ident) bool {
	var child ast.Node = id
	for i := len(stack) - 1; i >= 0; i-- {
		switch p := stack[i].(type) {
		case *ast.ParenExpr:
			child = p
			continue
		case *ast.BinaryExpr:
			switch p.Op {
			case token.EQL, token.NEQ, token.LSS, token.LEQ, token.GTR, token.GEQ:
				return true
			}
			return false
		case *ast.IndexExpr:
			return p.Index == child
		case *ast.SwitchStmt:
			return p.Tag == child
		case *ast.CaseClause:
			return true
		default:
			return false
		}
	}
	return false
}

func genStrLoop() (int, error) {
	an := sharedAn
	if an == nil {
		return 0, fmt.Errorf("strloop: genShared did not run")
	}
	sc := &strScan{an: an, runeVars: map[types.Object]bool{}, runeFuncs: map[*types.Func]bool{}}
	for round := 0; round < 20; round++ {
		sc.changed = false
		for _, f := range sharedClosure {
			if fd := an.decl[f]; fd != nil && fd.Body != nil {
				sc.collect(an.owner[f], f, fd)
			}
		}
		if !sc.changed {
			break
		}
	}
	narrowSet := map[string]bool{}
	var calls []string
	ranges, lookup, foundDecode := false, 0, false
	for _, f := range sharedClosure {
		fd, lp := an.decl[f], an.owner[f]
		if fd == nil || fd.Body == nil {
			continue
		}
		desc, inside := sc.narrowings(lp, fd.Body)
		for _, d := range desc {
			narrowSet[funcName(f)+": "+d] = true
		}
		ast.Inspect(fd.Body, func(n ast.Node) bool {
			c, ok := n.(*ast.CallExpr)
			if !ok {
				return true
			}
			se, ok := c.Fun.(*ast.SelectorExpr)
			if !ok {
				return true
			}
			g, ok := lp.info.Uses[se.Sel].(*types.Func)
			if !ok || g.Pkg() == nil {
				return true
			}
			p := g.Pkg().Path()
			if p == "unicode" || p == "unicode/utf8" || p == "unicode/utf16" || (p == "strings" || p == "bytes") && runeAwareStd[g.Name()] {
				var as []string
				for _, a := range c.Args {
					as = append(as, normExpr(lp, fd, a))
				}
				recv := ""
				if sel, ok := lp.info.Selections[se]; ok && sel.Kind() == types.MethodVal {
					recv = normExpr(lp, fd, se.X) + "."
				}
				calls = append(calls, funcName(f)+": "+recv+g.Pkg().Name()+"."+g.Name()+"("+strings.Join(as, ", ")+")")
			}
			return true
		})
		if funcName(f) != "btc.Decodeb58" {
			continue
		}
		foundDecode = true
		var stack []ast.Node
		ast.Inspect(fd.Body, func(n ast.Node) bool {
			rs, ok := n.(*ast.RangeStmt)
			if !ok {
				return true
			}
			tv, ok := lp.info.Types[rs.X]
			if !ok || !(isStringType(tv.Type) || isRuneSlice(tv.Type)) {
				return true
			}
			ranges = true
			id, ok := rs.Value.(*ast.Ident)
			if !ok || id.Name == "_" {
				return true
			}
			vo := objOfIdent(lp, id)
			uses, narrowed, other := 0, 0, 0
			stack = stack[:0]
			ast.Inspect(rs.Body, func(m ast.Node) bool {
				if m == nil {
					stack = stack[:len(stack)-1]
					return true
				}
				if u, ok := m.(*ast.Ident); ok && vo != nil && lp.info.Uses[u] == vo {
					uses++
					if inside[u] {
						narrowed++
					} else if !fullWidthUse(stack, u) {
						other++
					}
				}
				stack = append(stack, m)
				return true
			})
			switch {
			case uses == 0:
			case narrowed > 0:
				lookup = 1
			case other > 0:
				if lookup != 1 {
					lookup = 3
				}
			case lookup == 0:
				lookup = 2
			}
			return true
		})
	}
	if !foundDecode {
		return 0, fmt.Errorf("strloop: btc.Decodeb58 is not in the call closure of the C15 API")
	}
	keys := func(m map[string]bool) (out []string) {
		for k := range m {
			out = append(out, k)
		}
		sort.Strings(out)
		return
	}
	sort.Strings(calls)
	var sb strings.Builder
	sb.WriteString("/- GENERATED by go/cmd/gen_c15 (strloop.go) from lib/btc and lib/others/bech32 — do not edit; not in git. -/\n")
	sb.WriteString("namespace GocoinV.Gen.C15Str\n\n")
	sb.WriteString("/-- narrowings (conversion to an 8/16-bit type, mask, remainder) of a code point taken from a string, in the\n    call closure of the C15 API: \"function: expression\" -/\n")
	fmt.Fprintf(&sb, "def runeNarrowings : List String := %s\n\n", leanStrList(keys(narrowSet)))
	sb.WriteString("/-- every call site of a code-point-aware library function in that closure: \"function: callee(arguments)\",\n    identifiers normalised (p<i> parameter, recv, v local) -/\n")
	fmt.Fprintf(&sb, "def unicodeCalls : List String := %s\n\n", leanStrList(calls))
	sb.WriteString("/-- the digit loop of Decodeb58 is a `range` over the string (positions = first bytes of code points) -/\n")
	fmt.Fprintf(&sb, "def b58DecodeRangesString : Bool := %v\n\n", ranges)
	sb.WriteString("/-- what that loop looks up: 0 the byte s[i], 1 the code point narrowed, 2 the code point at full width\n    (comparisons / index / switch only), 3 the code point used in a way that is not classified -/\n")
	fmt.Fprintf(&sb, "def b58DecodeLookup : Nat := %d\n\n", lookup)
	sb.WriteString("end GocoinV.Gen.C15Str\n")
	out := vlib.Root() + "/lean/GocoinV/Gen/C15Str.lean"
	os.Remove(out)
	if err := os.WriteFile(out, []byte(sb.String()), 0644); err != nil {
		return 0, err
	}
	for _, k := range keys(narrowSet) {
		fmt.Println("RUNE-NARROWING", k)
	}
	return 4, nil
}
