// shared.go — structural source fact for C15: the codec functions keep no WRITABLE package-level state.
//
// Every Lean model of C15 is a function of the call's arguments (and, for BtcAddr, of the object's own fields).
// That is what the Go code does only while the functions in the call closure of the C15 API write no package-level
// variable: a scratch value, cache, pooled buffer or memo table hoisted to package level makes two callers that share
// nothing (two goroutines, or one call re-entered from a callback) influence each other's digits.
//
// The analysis type-checks lib/btc and lib/others/bech32 of the tree under test (go/types, std from source), takes
// the call closure of the API roots inside these two packages and classifies every use of a package-level variable:
//
//	write  = assigned (also through index / field / *), ++/--, address taken, receiver of a method that is not known
//	         to be read-only, passed in a destination position (copy dst, append base, big.Int DivMod/QuoRem
//	         remainder, GCD x/y), passed to an unknown callee, or handed on (returned, stored, sent) as a reference.
//	         Local aliases (x := global, for reference kinds) and parameters of callees inside the two packages
//	         are followed.
//	sync   = receiver of a method of package sync / sync/atomic: reported in a list of its own (globalsSynchronised,
//	         expected []): a pool, a sync.Map or an atomic.Value IS state shared between callers, and whether it is used
//	         correctly (a pooled buffer not handed out after Put ...) is not analysed here
//	`for k, v = range` (Tok =, not :=) with a package-level k or v is a write ("range assignment")
//	read   = everything else
//
// It writes lean/GocoinV/Gen/C15Shared.lean: globalsRead (informational), globalsReadRef (the reference-typed ones,
// PINNED by the theorem: a new package-level slice / map / pointer / pool in the closure forces a look, whatever the
// classifier thinks of its uses; a new read-only array or scalar table does not), globalsWritten (expected []),
// globalsSynchronised (expected []), encodeRemShared (is a
// destination of the big.Int division in Encodeb58's digit loop a package-level variable?). Props/C15 proves
// globalsWritten = [] and uses encodeRemShared in the step-level model Model/Base58Sched.lean. A written global is
// NOT a translate error (the shape is understood): the Lean theorem breaks, and the harness stream `conc` looks for
// the failing input.
package main

import (
	"fmt"
	"go/ast"
	"go/build"
	"go/importer"
	"go/parser"
	"go/token"
	"go/types"
	"os"
	"path/filepath"
	"sort"
	"strings"

	"verif/vlib"
	"verif/vtrans"
)

const gocoinMod = "github.com/piotrnar/gocoin/"

type loadedPkg struct {
	pkg   *types.Package
	files []*ast.File
	info  *types.Info
}

type srcImporter struct {
	fset   *token.FileSet
	std    types.Importer
	full   map[string]bool // import paths whose function bodies are checked
	loaded map[string]*loadedPkg
}

func (m *srcImporter) Import(path string) (*types.Package, error) {
	if strings.HasPrefix(path, gocoinMod) {
		lp, err := m.load(path)
		if err != nil {
			return nil, err
		}
		return lp.pkg, nil
	}
	return m.std.Import(path)
}

func (m *srcImporter) load(path string) (*loadedPkg, error) {
	if lp, ok := m.loaded[path]; ok {
		return lp, nil
	}
	dir := filepath.Join(vtrans.RepoRoot(), strings.TrimPrefix(path, gocoinMod))
	ents, err := os.ReadDir(dir)
	if err != nil {
		return nil, err
	}
	ctx := build.Default
	ctx.BuildTags = []string{"verif"}
	var files []*ast.File
	for _, e := range ents {
		n := e.Name()
		if !strings.HasSuffix(n, ".go") || strings.HasSuffix(n, "_test.go") {
			continue
		}
		if ok, _ := ctx.MatchFile(dir, n); !ok {
			continue
		}
		f, err := parser.ParseFile(m.fset, filepath.Join(dir, n), nil, 0)
		if err != nil {
			return nil, err
		}
		files = append(files, f)
	}
	info := &types.Info{Uses: map[*ast.Ident]types.Object{}, Defs: map[*ast.Ident]types.Object{},
		Selections: map[*ast.SelectorExpr]*types.Selection{}, Types: map[ast.Expr]types.TypeAndValue{}}
	var firstErr error
	cfg := types.Config{Importer: m, IgnoreFuncBodies: !m.full[path], FakeImportC: true, Error: func(e error) {
		if firstErr == nil {
			firstErr = e
		}
	}}
	p, _ := cfg.Check(path, m.fset, files, info)
	if firstErr != nil && m.full[path] {
		return nil, fmt.Errorf("type-checking %s: %v", path, firstErr)
	}
	lp := &loadedPkg{p, files, info}
	m.loaded[path] = lp
	return lp, nil
}

// ---------------------------------------------------------------------------------------------------------------

type analysis struct {
	fset  *token.FileSet
	pkgs  []*loadedPkg
	decl  map[*types.Func]*ast.FuncDecl
	owner map[*types.Func]*loadedPkg
	memo  map[string]int // paramWritten: 0 unknown, 1 in progress, 2 no, 3 yes
}

type finding struct {
	fn, v, how string
}

func isPkgLevelVar(o types.Object) bool {
	v, ok := o.(*types.Var)
	return ok && !v.IsField() && v.Pkg() != nil && v.Parent() == v.Pkg().Scope()
}

func varName(o types.Object) string { return o.Pkg().Name() + "." + o.Name() }

func funcName(f *types.Func) string {
	sig, _ := f.Type().(*types.Signature)
	if sig != nil && sig.Recv() != nil {
		t := sig.Recv().Type()
		if p, ok := t.(*types.Pointer); ok {
			t = p.Elem()
		}
		if n, ok := t.(*types.Named); ok {
			return f.Pkg().Name() + "." + n.Obj().Name() + "." + f.Name()
		}
	}
	if f.Pkg() == nil {
		return f.Name()
	}
	return f.Pkg().Name() + "." + f.Name()
}

// isRef: does a value of this type share memory with its source when copied?
func isRef(t types.Type, depth int) bool {
	if depth > 6 {
		return true
	}
	switch u := t.Underlying().(type) {
	case *types.Pointer, *types.Slice, *types.Map, *types.Chan, *types.Signature, *types.Interface:
		return true
	case *types.Array:
		return isRef(u.Elem(), depth+1)
	case *types.Struct:
		for i := 0; i < u.NumFields(); i++ {
			if isRef(u.Field(i).Type(), depth+1) {
				return true
			}
		}
	}
	return false
}

// std-library callees whose slice / pointer arguments are only read
var readOnlyFuncs = map[string]bool{
	"bytes.Equal": true, "bytes.Compare": true, "bytes.Index": true, "bytes.IndexByte": true, "bytes.IndexAny": true,
	"bytes.IndexRune": true, "bytes.IndexFunc": true, "bytes.LastIndex": true, "bytes.LastIndexByte": true,
	"bytes.Contains": true, "bytes.ContainsAny": true, "bytes.ContainsRune": true, "bytes.Count": true,
	"bytes.HasPrefix": true, "bytes.HasSuffix": true, "bytes.EqualFold": true, "bytes.NewReader": true,
	"hex.EncodeToString": true, "hex.Dump": true, "sha256.Sum256": true, "binary.LittleEndian.Uint32": true,
}
var readOnlyPkgs = map[string]bool{"fmt": true, "strings": true, "errors": true, "strconv": true, "sort": false}

// read-only methods of *big.Int (receiver only read)
var bigIntReadOnly = map[string]bool{"Cmp": true, "CmpAbs": true, "Sign": true, "Int64": true, "Uint64": true, "IsInt64": true,
	"IsUint64": true, "Bytes": true, "FillBytes": true, "BitLen": true, "Bit": true, "Bits": true, "String": true, "Text": true,
	"Append": true, "TrailingZeroBits": true, "ProbablyPrime": true, "Format": true, "Float64": true}

// destination parameters (besides the receiver) of *big.Int methods
var bigIntDestArgs = map[string][]int{"DivMod": {2}, "QuoRem": {2}, "GCD": {0, 1}}

type walker struct {
	an      *analysis
	lp      *loadedPkg
	fn      string
	tracked func(types.Object) bool
	param   bool // tracking one parameter: re-assigning the parameter variable itself is not a write
	alias   map[types.Object]types.Object // local -> root
	reads   map[types.Object]bool
	syncs   map[types.Object]bool
	out     []finding
}

func (w *walker) resolve(o types.Object) types.Object {
	if o == nil {
		return nil
	}
	if r, ok := w.alias[o]; ok {
		return r
	}
	if w.tracked(o) {
		return o
	}
	return nil
}

// rootOf: the tracked variable an expression is rooted at (x, x[i], x[a:b], x.f, *x, (x)), or nil.
func (w *walker) rootOf(e ast.Expr) types.Object {
	for {
		switch x := e.(type) {
		case *ast.ParenExpr:
			e = x.X
		case *ast.IndexExpr:
			e = x.X
		case *ast.SliceExpr:
			e = x.X
		case *ast.StarExpr:
			e = x.X
		case *ast.SelectorExpr:
			if sel, ok := w.lp.info.Selections[x]; ok {
				if sel.Kind() != types.FieldVal {
					return nil
				}
				e = x.X
			} else { // qualified identifier pkg.Var
				return w.resolve(w.lp.info.Uses[x.Sel])
			}
		case *ast.Ident:
			o := w.lp.info.Uses[x]
			if o == nil {
				o = w.lp.info.Defs[x]
			}
			return w.resolve(o)
		default:
			return nil
		}
	}
}

func (w *walker) typeOf(e ast.Expr) types.Type {
	if tv, ok := w.lp.info.Types[e]; ok && tv.Type != nil {
		return tv.Type
	}
	return types.Typ[types.Invalid]
}

func (w *walker) write(o types.Object, how string) {
	w.out = append(w.out, finding{w.fn, varName(o), how})
}

// refArg: the tracked root of an expression that hands a reference on (nil when it is a copy of a value)
func (w *walker) refArg(e ast.Expr) types.Object {
	if _, isCall := e.(*ast.CallExpr); isCall {
		return nil
	}
	r := w.rootOf(e)
	if r == nil || !isRef(w.typeOf(e), 0) {
		return nil
	}
	return r
}

func (w *walker) callee(c *ast.CallExpr) (f *types.Func, recv ast.Expr, builtin string, isConv bool) {
	fun := c.Fun
	for {
		if p, ok := fun.(*ast.ParenExpr); ok {
			fun = p.X
		} else {
			break
		}
	}
	if tv, ok := w.lp.info.Types[fun]; ok && tv.IsType() {
		return nil, nil, "", true
	}
	switch x := fun.(type) {
	case *ast.Ident:
		switch o := w.lp.info.Uses[x].(type) {
		case *types.Func:
			return o, nil, "", false
		case *types.Builtin:
			return nil, nil, o.Name(), false
		}
	case *ast.SelectorExpr:
		if sel, ok := w.lp.info.Selections[x]; ok {
			if f, ok := sel.Obj().(*types.Func); ok {
				return f, x.X, "", false
			}
			return nil, nil, "", false
		}
		if f, ok := w.lp.info.Uses[x.Sel].(*types.Func); ok {
			return f, nil, "", false
		}
	}
	return nil, nil, "", false
}

func recvNamed(f *types.Func) (pkg, typ string, ptr bool) {
	sig, _ := f.Type().(*types.Signature)
	if sig == nil || sig.Recv() == nil {
		return
	}
	t := sig.Recv().Type()
	if p, ok := t.(*types.Pointer); ok {
		t, ptr = p.Elem(), true
	}
	if n, ok := t.(*types.Named); ok && n.Obj().Pkg() != nil {
		return n.Obj().Pkg().Path(), n.Obj().Name(), ptr
	}
	if _, ok := t.Underlying().(*types.Interface); ok {
		return "", "interface", false
	}
	return
}

func (w *walker) call(c *ast.CallExpr) {
	f, recv, builtin, isConv := w.callee(c)
	if isConv {
		return // conversions copy (string(b), []byte(s)) or keep the reference without writing; result use is tracked where it lands
	}
	if builtin != "" {
		switch builtin {
		case "copy", "clear", "delete", "append":
			if len(c.Args) > 0 {
				if r := w.refArg(c.Args[0]); r != nil {
					w.write(r, builtin+" destination")
				}
			}
		}
		return
	}
	if f == nil { // function value / unresolved: every reference handed over may be written
		for _, a := range c.Args {
			if r := w.refArg(a); r != nil {
				w.write(r, "passed to an unresolved callee")
			}
		}
		return
	}
	pkgPath, typName, ptrRecv := recvNamed(f)
	own := w.an.decl[f] != nil
	// receiver
	if recv != nil {
		if r := w.rootOf(recv); r != nil {
			switch {
			case pkgPath == "sync" || pkgPath == "sync/atomic":
				w.syncs[r] = true
			case own:
				if (ptrRecv || isRef(w.typeOf(recv), 0)) && w.an.paramWritten(f, -1) {
					w.write(r, "receiver of "+funcName(f)+", which writes it")
				}
			case pkgPath == "math/big" && typName == "Int" && bigIntReadOnly[f.Name()]:
			case typName == "interface" && (f.Name() == "Error" || f.Name() == "String"):
			case !ptrRecv && !isRef(w.typeOf(recv), 0):
			default:
				w.write(r, "receiver of "+funcName(f))
			}
		}
	}
	// arguments
	sig, _ := f.Type().(*types.Signature)
	for i, a := range c.Args {
		r := w.refArg(a)
		if r == nil {
			continue
		}
		idx := i
		if sig != nil && sig.Variadic() && idx >= sig.Params().Len()-1 {
			idx = sig.Params().Len() - 1
		}
		switch {
		case own:
			if w.an.paramWritten(f, idx) {
				w.write(r, fmt.Sprintf("argument %d of %s, which writes it", i, funcName(f)))
			}
		case pkgPath == "math/big" && typName == "Int":
			for _, d := range bigIntDestArgs[f.Name()] {
				if d == i {
					w.write(r, "destination operand of big.Int."+f.Name())
				}
			}
		case f.Name() == "Write" && recv != nil: // io.Writer contract: Write must not modify the slice
		case f.Pkg() != nil && (readOnlyPkgs[f.Pkg().Name()] || readOnlyFuncs[f.Pkg().Name()+"."+f.Name()]):
		default:
			w.write(r, "passed to "+funcName(f))
		}
	}
}

func (w *walker) node(n ast.Node) bool {
	switch x := n.(type) {
	case *ast.Ident:
		if o := w.lp.info.Uses[x]; o != nil && w.tracked(o) {
			w.reads[o] = true
		}
	case *ast.AssignStmt:
		for _, l := range x.Lhs {
			if id, ok := l.(*ast.Ident); ok {
				o := w.lp.info.Uses[id]
				if o != nil && w.tracked(o) && !w.param {
					w.write(o, "assigned")
				}
				continue
			}
			if r := w.rootOf(l); r != nil {
				w.write(r, "assigned through index/field/pointer")
			}
		}
		if len(x.Lhs) == len(x.Rhs) {
			for i, rh := range x.Rhs {
				r := w.refArg(rh)
				id, isId := x.Lhs[i].(*ast.Ident)
				if r == nil {
					continue // flow-insensitive: a local that was an alias once stays one (it may be re-assigned on one branch only)
				}
				if isId && id.Name != "_" {
					if o := w.objOf(id); o != nil && !isPkgLevelVar(o) {
						w.alias[o] = r
						continue
					}
				}
				if !isId {
					w.write(r, "stored as a reference")
				}
			}
		}
	case *ast.ValueSpec:
		if len(x.Names) == len(x.Values) {
			for i, v := range x.Values {
				if r := w.refArg(v); r != nil {
					if o := w.lp.info.Defs[x.Names[i]]; o != nil {
						w.alias[o] = r
					}
				}
			}
		}
	case *ast.IncDecStmt:
		if r := w.rootOf(x.X); r != nil {
			w.write(r, "incremented/decremented")
		}
	case *ast.UnaryExpr:
		if x.Op == token.AND {
			if r := w.rootOf(x.X); r != nil {
				w.write(r, "address taken")
			}
		}
	case *ast.CallExpr:
		w.call(x)
	case *ast.ReturnStmt:
		for _, e := range x.Results {
			if r := w.refArg(e); r != nil {
				w.write(r, "returned as a reference")
			}
		}
	case *ast.CompositeLit:
		for _, e := range x.Elts {
			if kv, ok := e.(*ast.KeyValueExpr); ok {
				e = kv.Value
			}
			if r := w.refArg(e); r != nil {
				w.write(r, "stored in a composite value")
			}
		}
	case *ast.SendStmt:
		if r := w.refArg(x.Value); r != nil {
			w.write(r, "sent on a channel")
		}
	case *ast.RangeStmt:
		for _, e := range []ast.Expr{x.Key, x.Value} {
			if e == nil {
				continue
			}
			if id, ok := e.(*ast.Ident); ok {
				// `for k, v := range` defines new locals; `for k, v = range` ASSIGNS existing variables on every
				// iteration - a package-level loop index / element variable is shared by all callers
				if x.Tok == token.ASSIGN && id.Name != "_" {
					if o := w.lp.info.Uses[id]; o != nil && w.tracked(o) && !w.param {
						w.write(o, "range assignment")
					}
				}
				continue
			}
			if r := w.rootOf(e); r != nil {
				w.write(r, "range assignment")
			}
		}
	}
	return true
}

func (w *walker) objOf(id *ast.Ident) types.Object {
	if o := w.lp.info.Defs[id]; o != nil {
		return o
	}
	return w.lp.info.Uses[id]
}

// paramWritten: does fn write (or hand on) the memory its parameter idx (-1 = receiver) refers to?
func (an *analysis) paramWritten(f *types.Func, idx int) bool {
	key := fmt.Sprintf("%s#%d", f.FullName(), idx)
	switch an.memo[key] {
	case 1, 3:
		return true // recursion: assume the worst
	case 2:
		return false
	}
	an.memo[key] = 1
	fd, lp := an.decl[f], an.owner[f]
	res := true
	if fd != nil && fd.Body != nil {
		var id *ast.Ident
		if idx < 0 {
			if fd.Recv != nil && len(fd.Recv.List) == 1 && len(fd.Recv.List[0].Names) == 1 {
				id = fd.Recv.List[0].Names[0]
			}
		} else {
			n := 0
			for _, fl := range fd.Type.Params.List {
				for _, nm := range fl.Names {
					if n == idx {
						id = nm
					}
					n++
				}
				if len(fl.Names) == 0 {
					n++
				}
			}
		}
		if id == nil || id.Name == "_" {
			res = false // unnamed: cannot be used
		} else {
			po := lp.info.Defs[id]
			w := &walker{an: an, lp: lp, fn: funcName(f), tracked: func(o types.Object) bool { return o == po }, param: true,
				alias: map[types.Object]types.Object{}, reads: map[types.Object]bool{}, syncs: map[types.Object]bool{}}
			ast.Inspect(fd.Body, w.node)
			res = len(w.out) > 0
		}
	}
	if res {
		an.memo[key] = 3
	} else {
		an.memo[key] = 2
	}
	return res
}

// closure of the roots inside the fully loaded packages; `stop` names functions that bound it
func (an *analysis) closure(roots []*types.Func, stop map[string]bool) []*types.Func {
	seen := map[*types.Func]bool{}
	var order []*types.Func
	var visit func(f *types.Func)
	visit = func(f *types.Func) {
		if seen[f] || an.decl[f] == nil || stop[funcName(f)] {
			return
		}
		seen[f] = true
		order = append(order, f)
		fd, lp := an.decl[f], an.owner[f]
		if fd.Body == nil {
			return
		}
		w := &walker{an: an, lp: lp}
		ast.Inspect(fd.Body, func(n ast.Node) bool {
			if c, ok := n.(*ast.CallExpr); ok {
				if g, _, _, _ := w.callee(c); g != nil {
					visit(g)
				}
			}
			return true
		})
	}
	for _, r := range roots {
		visit(r)
	}
	return order
}

func (an *analysis) lookup(lp *loadedPkg, recv, name string) (*types.Func, error) {
	if recv == "" {
		if f, ok := lp.pkg.Scope().Lookup(name).(*types.Func); ok {
			return f, nil
		}
		return nil, fmt.Errorf("%s: function %s not found", lp.pkg.Name(), name)
	}
	tn, ok := lp.pkg.Scope().Lookup(recv).(*types.TypeName)
	if !ok {
		return nil, fmt.Errorf("%s: type %s not found", lp.pkg.Name(), recv)
	}
	o, _, _ := types.LookupFieldOrMethod(types.NewPointer(tn.Type()), true, lp.pkg, name)
	if f, ok := o.(*types.Func); ok {
		return f, nil
	}
	return nil, fmt.Errorf("%s: method %s.%s not found", lp.pkg.Name(), recv, name)
}

func leanStrList(xs []string) string {
	if len(xs) == 0 {
		return "[]"
	}
	var q []string
	for _, x := range xs {
		q = append(q, "\""+strings.ReplaceAll(strings.ReplaceAll(x, "\\", "\\\\"), "\"", "\\\"")+"\"")
	}
	return "[\n  " + strings.Join(q, ",\n  ") + "]"
}

// the type-checked packages and the call closure of the C15 API, kept for genStrLoop (strloop.go)
var (
	sharedAn      *analysis
	sharedBtc     *loadedPkg
	sharedClosure []*types.Func
)

// genShared writes Gen/C15Shared.lean and returns the number of regenerated definitions.
func genShared() (int, error) {
	fset := token.NewFileSet()
	btcPath, b32Path := gocoinMod+"lib/btc", gocoinMod+"lib/others/bech32"
	m := &srcImporter{fset: fset, std: importer.ForCompiler(fset, "source", nil), full: map[string]bool{btcPath: true, b32Path: true},
		loaded: map[string]*loadedPkg{}}
	b32, err := m.load(b32Path)
	if err != nil {
		return 0, err
	}
	btc, err := m.load(btcPath)
	if err != nil {
		return 0, err
	}
	an := &analysis{fset: fset, pkgs: []*loadedPkg{btc, b32}, decl: map[*types.Func]*ast.FuncDecl{}, owner: map[*types.Func]*loadedPkg{}, memo: map[string]int{}}
	for _, lp := range an.pkgs {
		for _, f := range lp.files {
			for _, d := range f.Decls {
				if fd, ok := d.(*ast.FuncDecl); ok {
					if fo, ok := lp.info.Defs[fd.Name].(*types.Func); ok {
						an.decl[fo], an.owner[fo] = fd, lp
					}
				}
			}
		}
	}
	type rootSpec struct {
		lp         *loadedPkg
		recv, name string
	}
	specs := []rootSpec{{btc, "", "NewAddrFromString"}, {btc, "BtcAddr", "String"}, {btc, "BtcAddr", "OutScript"}, {btc, "", "NewAddrFromPkScript"},
		{btc, "", "NewAddrFromHash160"}, {btc, "", "NewAddrFromPubkey"}, {btc, "SegwitProg", "String"}, {btc, "", "Encodeb58"}, {btc, "", "Decodeb58"},
		{btc, "", "DecodePrivateAddr"}, {btc, "PrivateAddr", "String"},
		{b32, "", "Encode"}, {b32, "", "Decode"}, {b32, "", "SegwitEncode"}, {b32, "", "SegwitDecode"}}
	var roots []*types.Func
	var encRoot *types.Func
	for _, s := range specs {
		f, err := an.lookup(s.lp, s.recv, s.name)
		if err != nil {
			return 0, err
		}
		roots = append(roots, f)
		if s.name == "Encodeb58" {
			encRoot = f
		}
	}
	// the public-key derivation behind NewPrivateAddr belongs to C14/C08 (secp256k1 tables), not to the string codec
	stop := map[string]bool{"btc.PublicFromPrivate": true}
	sharedAn, sharedBtc, sharedClosure = an, btc, an.closure(roots, stop) // for strloop.go
	readSet, readRefSet, writeSet, syncSet := map[string]bool{}, map[string]bool{}, map[string]bool{}, map[string]bool{}
	scan := func(fs []*types.Func) (writes []finding) {
		for _, f := range fs {
			fd, lp := an.decl[f], an.owner[f]
			if fd.Body == nil {
				continue
			}
			w := &walker{an: an, lp: lp, fn: funcName(f), tracked: isPkgLevelVar, alias: map[types.Object]types.Object{},
				reads: map[types.Object]bool{}, syncs: map[types.Object]bool{}}
			ast.Inspect(fd.Body, w.node)
			for o := range w.reads {
				readSet[varName(o)] = true
				if isRef(o.Type(), 0) { // slices, maps, pointers, channels, functions, interfaces, structs/arrays of them
					readRefSet[varName(o)] = true
				}
			}
			for o := range w.syncs {
				syncSet[varName(o)] = true
			}
			writes = append(writes, w.out...)
		}
		return
	}
	for _, fd := range scan(an.closure(roots, stop)) {
		writeSet[fd.fn+": "+fd.v+" ("+fd.how+")"] = true
	}
	// Encodeb58's digit loop: is a destination of its big.Int division package-level?
	remShared := false
	for _, f := range an.closure([]*types.Func{encRoot}, stop) {
		fd, lp := an.decl[f], an.owner[f]
		w := &walker{an: an, lp: lp, fn: funcName(f), tracked: isPkgLevelVar, alias: map[types.Object]types.Object{},
			reads: map[types.Object]bool{}, syncs: map[types.Object]bool{}}
		ast.Inspect(fd.Body, func(n ast.Node) bool {
			w.node(n) // keeps the alias map current
			c, ok := n.(*ast.CallExpr)
			if !ok {
				return true
			}
			g, recv, _, _ := w.callee(c)
			if g == nil {
				return true
			}
			if p, t, _ := recvNamed(g); p != "math/big" || t != "Int" {
				return true
			}
			switch g.Name() {
			case "DivMod", "QuoRem", "Div", "Mod", "Quo", "Rem":
				if recv != nil && w.rootOf(recv) != nil {
					remShared = true
				}
				if len(c.Args) == 3 && w.rootOf(c.Args[2]) != nil {
					remShared = true
				}
			}
			return true
		})
	}
	keys := func(m map[string]bool) (out []string) {
		for k := range m {
			out = append(out, k)
		}
		sort.Strings(out)
		return
	}
	var sb strings.Builder
	sb.WriteString("/- GENERATED by go/cmd/gen_c15 (shared.go) from lib/btc and lib/others/bech32 — do not edit; not in git. -/\n")
	sb.WriteString("namespace GocoinV.Gen.C15Shared\n\n")
	sb.WriteString("/-- package-level variables used by the call closure of the C15 API (inside btc and bech32) -/\n")
	fmt.Fprintf(&sb, "def globalsRead : List String := %s\n\n", leanStrList(keys(readSet)))
	sb.WriteString("/-- those of them whose type shares memory when copied (slice, map, pointer, channel, function, interface, or a\n    struct / array containing one): the variables through which a write can escape the classifier by aliasing -/\n")
	fmt.Fprintf(&sb, "def globalsReadRef : List String := %s\n\n", leanStrList(keys(readRefSet)))
	sb.WriteString("/-- uses that write one of them (or hand it on as a reference): \"function: variable (how)\" -/\n")
	fmt.Fprintf(&sb, "def globalsWritten : List String := %s\n\n", leanStrList(keys(writeSet)))
	sb.WriteString("/-- a destination of the big.Int division in Encodeb58's digit loop is a package-level variable -/\n")
	fmt.Fprintf(&sb, "def encodeRemShared : Bool := %v\n\n", remShared)
	sb.WriteString("/-- package-level variables used as the receiver of a sync / sync/atomic method (sync.Pool, sync.Map, sync.Once,\n    atomic.Value, mutexes ...): state shared between callers whose correct use is NOT analysed here -/\n")
	fmt.Fprintf(&sb, "def globalsSynchronised : List String := %s\n\n", leanStrList(keys(syncSet)))
	sb.WriteString("end GocoinV.Gen.C15Shared\n")
	out := vlib.Root() + "/lean/GocoinV/Gen/C15Shared.lean"
	os.Remove(out)
	if err := os.WriteFile(out, []byte(sb.String()), 0644); err != nil {
		return 0, err
	}
	for _, k := range keys(writeSet) {
		fmt.Println("SHARED-WRITE", k)
	}
	for _, k := range keys(syncSet) {
		fmt.Println("SHARED-SYNC", k)
	}
	return 5, nil
}
