// kitdemo — smoke test of chainkit: grow a chain, spend coins of each kind, try one invalid block.
package main

import (
	"fmt"

	"github.com/piotrnar/gocoin/lib/btc"
	"verif/chainkit"
	"verif/vlib"
)

func main() {
	k, err := chainkit.New(chainkit.Opts{}, vlib.NewRng(1))
	if err != nil {
		panic(err)
	}
	defer k.Close()
	keys := map[string]*chainkit.Key{}
	key := k.NewKey()
	keys[string(key.P2PKH())] = key
	keys[string(key.P2WPKH())] = key
	keys[string(key.P2SH_P2WPKH())] = key
	var cbs []*btc.Tx
	for i := 0; i < 105; i++ {
		cb, _ := k.MustExtend(nil, 0)
		cbs = append(cbs, cb)
	}
	fmt.Println(k.Tip())
	c0 := chainkit.OutCoins(cbs[0], keys, 1, true)[0]
	tx := chainkit.BuildTx(2, []*chainkit.Coin{c0}, nil, []chainkit.OutSpec{{10e8, key.P2PKH()}, {10e8, key.P2WPKH()}, {10e8, key.P2SH_P2WPKH()}, {19e8, chainkit.AnyoneScript}}, 0)
	k.MustExtend([]*btc.Tx{tx}, 1e8)
	cs := chainkit.OutCoins(tx, keys, 106, false)
	tx2 := chainkit.BuildTx(2, cs[:3], nil, []chainkit.OutSpec{{29e8, chainkit.AnyoneScript}}, 0)
	k.MustExtend([]*btc.Tx{tx2}, 1e8)
	fmt.Println(k.Tip())
	// invalid: spend immature coinbase
	ci := chainkit.OutCoins(cbs[50], keys, 51, true)[0]
	bad := chainkit.BuildTx(2, []*chainkit.Coin{ci}, nil, []chainkit.OutSpec{{1e8, chainkit.AnyoneScript}}, 0)
	r := k.Submit(k.Build(chainkit.BlockSpec{Txs: []*btc.Tx{bad}}))
	fmt.Println("immature:", r.String())
	d := chainkit.UtxoDump(k.Ch.Unspent)
	fmt.Println(len(d), chainkit.DumpHash(d))
}
