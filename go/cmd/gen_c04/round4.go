// round4.go — structural facts added after the fourth round of seeded changes (Model/ConnectCache.lean,
// Model/ConnectOwn.lean, Model/ConnectEntry.lean):
//
//	hookComparesWitness          the function client/txpool installs as chain.TrustedTxChecker compares the WITNESS hash of
//	                             the transaction it is asked about with the one of its cache entry, and never sets its answer
//	                             to the constant true outside a branch guarded by such a comparison (the txid does not cover
//	                             the witness)
//	recordReleasedAfterLastRead  in lib/utxo no function hands a record to Memory_Free and, on a path that continues from
//	                             there, still reads a view of it (NewUtxoRec / NewUtxoRecStatic / OneUtxoRec do not copy the
//	                             scripts; a value assigned from such a view — field, element, append, not the result of a call — is a view as well)
//	txListMarksCoinbaseHashed /  Block.BuildTxListExt sets TxOut.WasCoinbase for the first transaction before every return
//	txListMarksCoinbasePlain     that leaves a filled list behind — on the hashing path and on the dohash == false path
//
// "a path that continues": source order inside one function, except that the two arms of one if statement do not
// continue into each other; loop back-edges are not followed (every loop body here begins by making a fresh view).
package main

import (
	"go/ast"
	"go/token"
	"os"
	"sort"
	"strings"

	"verif/vtrans"
)

// differentArms: a and b lie in different arms (then / else) of one if statement.
func differentArms(root ast.Node, a, b token.Pos) bool {
	res := false
	ast.Inspect(root, func(n ast.Node) bool {
		ifs, ok := n.(*ast.IfStmt)
		if !ok || ifs.Else == nil {
			return true
		}
		in := func(x ast.Node, p token.Pos) bool { return x.Pos() <= p && p < x.End() }
		if (in(ifs.Body, a) && in(ifs.Else, b)) || (in(ifs.Body, b) && in(ifs.Else, a)) {
			res = true
		}
		return true
	})
	return res
}

// continues: control can go from position a to the later position b (see the header).
func continues(root ast.Node, a, b token.Pos) bool { return a < b && !differentArms(root, a, b) }

func rootIdent(e ast.Expr) *ast.Ident {
	for {
		switch x := e.(type) {
		case *ast.Ident:
			return x
		case *ast.SelectorExpr:
			e = x.X
		case *ast.IndexExpr:
			e = x.X
		case *ast.StarExpr:
			e = x.X
		case *ast.ParenExpr:
			e = x.X
		case *ast.SliceExpr:
			e = x.X
		default:
			return nil
		}
	}
}

func usesObj(n ast.Node, objs map[*ast.Object]bool) (pos token.Pos) {
	ast.Inspect(n, func(m ast.Node) bool {
		if id, ok := m.(*ast.Ident); ok && id.Obj != nil && objs[id.Obj] && pos == 0 {
			pos = id.Pos()
		}
		return pos == 0
	})
	return
}

// ---- the pool's hook ----------------------------------------------------------------------------------------------

func poolHookFact() bool {
	dir := vtrans.RepoRoot() + "/client/txpool"
	ents, err := os.ReadDir(dir)
	if err != nil {
		die(err)
	}
	var files []*vtrans.File
	for _, en := range ents {
		if n := en.Name(); strings.HasSuffix(n, ".go") && !strings.HasSuffix(n, "_test.go") {
			f, err := vtrans.Parse("client/txpool/" + n)
			if err != nil {
				die(err)
			}
			files = append(files, f)
		}
	}
	// the function assigned to chain.TrustedTxChecker
	hook := ""
	for _, f := range files {
		ast.Inspect(f.AST, func(n ast.Node) bool {
			as, ok := n.(*ast.AssignStmt)
			if !ok || len(as.Lhs) != 1 || len(as.Rhs) != 1 {
				return true
			}
			if se, ok := as.Lhs[0].(*ast.SelectorExpr); ok && se.Sel.Name == "TrustedTxChecker" {
				if id, ok := as.Rhs[0].(*ast.Ident); ok {
					hook = id.Name
				}
			}
			return true
		})
	}
	if hook == "" {
		die(errString("client/txpool no longer assigns a named function to chain.TrustedTxChecker"))
	}
	for _, f := range files {
		fd, err := f.Func("", hook)
		if err != nil {
			continue
		}
		isGuard := func(e ast.Node) bool { return e != nil && strings.Count(render(f, e), "WTxID") >= 2 }
		guards := 0
		ast.Inspect(fd.Body, func(n ast.Node) bool {
			switch x := n.(type) {
			case *ast.CallExpr:
				if isGuard(x) {
					guards++
					return false
				}
			case *ast.BinaryExpr:
				if isGuard(x) && (x.Op == token.EQL || x.Op == token.NEQ) {
					guards++
					return false
				}
			}
			return true
		})
		// every `… = true` / `return true` lies under an if whose condition is such a comparison
		unguarded := 0
		var stack []ast.Node
		ast.Inspect(fd.Body, func(n ast.Node) bool {
			if n == nil {
				stack = stack[:len(stack)-1]
				return true
			}
			stack = append(stack, n)
			constTrue := false
			switch x := n.(type) {
			case *ast.AssignStmt:
				for _, r := range x.Rhs {
					if id, ok := r.(*ast.Ident); ok && id.Name == "true" {
						constTrue = true
					}
				}
			case *ast.ReturnStmt:
				for _, r := range x.Results {
					if id, ok := r.(*ast.Ident); ok && id.Name == "true" {
						constTrue = true
					}
				}
			}
			if constTrue {
				ok := false
				for i, a := range stack {
					if ifs, isIf := a.(*ast.IfStmt); isIf && i+1 < len(stack) && stack[i+1] == ast.Node(ifs.Body) && isGuard(ifs.Cond) {
						ok = true
					}
				}
				if !ok {
					unguarded++
					note("pool hook: %s sets its answer to the constant true at line %d outside any branch guarded by a comparison of witness hashes", hook, f.Fset.Position(n.Pos()).Line)
				}
			}
			return true
		})
		note("pool hook: chain.TrustedTxChecker = %s (%s); comparisons of two WTxID: %d; unguarded constant-true answers: %d", hook, f.Path, guards, unguarded)
		return guards > 0 && unguarded == 0
	}
	die(errString("client/txpool: function " + hook + " not found"))
	return false
}

type errString string

func (e errString) Error() string { return string(e) }

// ---- ownership of record bytes ------------------------------------------------------------------------------------

func isViewMaker(n ast.Node) (src *ast.Ident) {
	c, ok := n.(*ast.CallExpr)
	if !ok || len(c.Args) == 0 {
		return nil
	}
	name := ""
	switch f := c.Fun.(type) {
	case *ast.Ident:
		name = f.Name
	case *ast.SelectorExpr:
		name = f.Sel.Name
	}
	if !strings.HasPrefix(name, "NewUtxoRec") && !strings.HasPrefix(name, "OneUtxoRec") {
		return nil
	}
	if st, ok := c.Args[0].(*ast.StarExpr); ok {
		if id, ok := st.X.(*ast.Ident); ok {
			return id
		}
	}
	return nil
}

func ownershipFact() bool {
	dir := vtrans.RepoRoot() + "/lib/utxo"
	ents, err := os.ReadDir(dir)
	if err != nil {
		die(err)
	}
	ok := true
	sites := 0
	var names []string
	for _, en := range ents {
		if n := en.Name(); strings.HasSuffix(n, ".go") && !strings.HasSuffix(n, "_test.go") {
			names = append(names, n)
		}
	}
	sort.Strings(names)
	for _, n := range names {
		f, err := vtrans.Parse("lib/utxo/" + n)
		if err != nil {
			die(err)
		}
		for _, fd := range funcs(f) {
			// views: x := NewUtxoRec(*v) — x is a view of v
			type view struct {
				objs map[*ast.Object]bool // the view variable and everything assigned from it
				src  *ast.Object
				at   token.Pos
			}
			var views []*view
			ast.Inspect(fd.Body, func(m ast.Node) bool {
				as, isAs := m.(*ast.AssignStmt)
				if !isAs || len(as.Rhs) != 1 || len(as.Lhs) < 1 {
					return true
				}
				if src := isViewMaker(as.Rhs[0]); src != nil && src.Obj != nil {
					if id, isId := as.Lhs[0].(*ast.Ident); isId && id.Obj != nil {
						views = append(views, &view{objs: map[*ast.Object]bool{id.Obj: true}, src: src.Obj, at: as.Pos()})
					}
				}
				return true
			})
			if len(views) == 0 {
				continue
			}
			// aliases: `y… = <expr mentioning a view>` and `for _, r := range <view>…` make y / r views too (to a fixed point)
			for changed := true; changed; {
				changed = false
				ast.Inspect(fd.Body, func(m ast.Node) bool {
					switch x := m.(type) {
					case *ast.AssignStmt:
						for _, v := range views {
							for i, r := range x.Rhs {
								if isViewMaker(r) != nil || usesObj(r, v.objs) == 0 {
									continue
								}
								if _, isCall := r.(*ast.CallExpr); isCall && !isCallTo(r, "append") {
									continue // the result of a call (Serialize …) is a copy, not a view
								}
								lhs := x.Lhs
								if len(x.Lhs) == len(x.Rhs) {
									lhs = x.Lhs[i : i+1]
								}
								for _, l := range lhs {
									if id := rootIdent(l); id != nil && id.Obj != nil && !v.objs[id.Obj] {
										v.objs[id.Obj] = true
										changed = true
									}
								}
							}
						}
					case *ast.RangeStmt:
						for _, v := range views {
							if usesObj(x.X, v.objs) == 0 {
								continue
							}
							for _, kv := range []ast.Expr{x.Key, x.Value} {
								if id, isId := kv.(*ast.Ident); isId && id.Obj != nil && id.Name != "_" && !v.objs[id.Obj] {
									// an index is a number; only the element aliases the record (harmless to include both)
									v.objs[id.Obj] = true
									changed = true
								}
							}
						}
					}
					return true
				})
			}
			// releases of the source: Memory_Free(v)
			ast.Inspect(fd.Body, func(m ast.Node) bool {
				if !isCallTo(m, "Memory_Free") {
					return true
				}
				c := m.(*ast.CallExpr)
				if len(c.Args) != 1 {
					return true
				}
				arg, isId := c.Args[0].(*ast.Ident)
				if !isId || arg.Obj == nil {
					return true
				}
				for _, v := range views {
					if v.src != arg.Obj || !continues(fd.Body, v.at, c.Pos()) {
						continue
					}
					sites++
					// any read of the view on a path that continues from the release
					bad := token.Pos(0)
					ast.Inspect(fd.Body, func(u ast.Node) bool {
						id, isId := u.(*ast.Ident)
						if isId && id.Obj != nil && v.objs[id.Obj] && bad == 0 && continues(fd.Body, c.End(), id.Pos()) {
							bad = id.Pos()
						}
						return bad == 0
					})
					if bad != 0 {
						ok = false
						note("ownership: %s (%s) releases %s at line %d and reads a view of it afterwards at line %d", fd.Name.Name, n, arg.Name, f.Fset.Position(c.Pos()).Line, f.Fset.Position(bad).Line)
					}
				}
				return true
			})
		}
	}
	if sites == 0 {
		die(errString("lib/utxo: no function makes a view of a record and releases it (shape not understood)"))
	}
	note("ownership: %d release sites of viewed records in lib/utxo; every view is read before its record is released: %v", sites, ok)
	return ok
}

// ---- the coinbase mark of a transaction list ----------------------------------------------------------------------

func txListFacts() (hashed, plain bool) {
	f, err := vtrans.Parse("lib/btc/block.go")
	if err != nil {
		die(err)
	}
	// the list builder: the method of Block with a bool parameter that assigns .Txs (BuildTxListExt)
	var fd *ast.FuncDecl
	for _, d := range funcs(f) {
		if d.Recv == nil || d.Type.Params == nil || len(d.Type.Params.List) != 1 {
			continue
		}
		if id, ok := d.Type.Params.List[0].Type.(*ast.Ident); !ok || id.Name != "bool" {
			continue
		}
		if mentions(f, d.Body, ".Txs = make(") {
			fd = d
		}
	}
	if fd == nil {
		die(errString("lib/btc/block.go: no method with one bool parameter builds bl.Txs (BuildTxListExt not found)"))
	}
	flag := fd.Type.Params.List[0].Names[0].Name
	var alloc token.Pos
	var marks []token.Pos
	ast.Inspect(fd.Body, func(n ast.Node) bool {
		if as, ok := n.(*ast.AssignStmt); ok && len(as.Lhs) == 1 {
			if se, ok := as.Lhs[0].(*ast.SelectorExpr); ok {
				if se.Sel.Name == "Txs" && alloc == 0 {
					alloc = as.Pos()
				}
				if se.Sel.Name == "WasCoinbase" {
					if id, ok := as.Rhs[0].(*ast.Ident); ok && id.Name == "true" {
						marks = append(marks, as.Pos())
					}
				}
			}
		}
		return true
	})
	// the branch taken when the flag is false: `if !flag { … }`
	var plainBranch *ast.BlockStmt
	ast.Inspect(fd.Body, func(n ast.Node) bool {
		if ifs, ok := n.(*ast.IfStmt); ok && plainBranch == nil {
			if u, ok := ifs.Cond.(*ast.UnaryExpr); ok && u.Op == token.NOT {
				if id, ok := u.X.(*ast.Ident); ok && id.Name == flag {
					plainBranch = ifs.Body
				}
			}
		}
		return true
	})
	covered := func(ret token.Pos, within ast.Node) bool {
		for _, m := range marks {
			if within != nil && (m < within.Pos() || m >= within.End()) {
				// a mark outside the plain branch counts for a return inside it only if it comes before the branch
				if m > within.Pos() {
					continue
				}
			}
			if continues(fd.Body, m, ret) {
				return true
			}
		}
		return false
	}
	// returns (not inside function literals) after the list was allocated, and the end of the body
	plain, hashed = true, true
	var lits []*ast.FuncLit
	ast.Inspect(fd.Body, func(n ast.Node) bool {
		if fl, ok := n.(*ast.FuncLit); ok {
			lits = append(lits, fl)
		}
		return true
	})
	inLit := func(p token.Pos) bool {
		for _, l := range lits {
			if l.Pos() <= p && p < l.End() {
				return true
			}
		}
		return false
	}
	nPlain, nHashed := 0, 0
	check := func(ret token.Pos) {
		if ret < alloc || inLit(ret) {
			return
		}
		if plainBranch != nil && plainBranch.Pos() <= ret && ret < plainBranch.End() {
			nPlain++
			if !covered(ret, plainBranch) {
				plain = false
				note("tx list: the return at line %d (branch !%s) leaves a list whose first transaction's outputs were not marked WasCoinbase", f.Fset.Position(ret).Line, flag)
			}
			return
		}
		nHashed++
		// marks inside the plain branch do not run on this path when that branch ends in a return
		okHere := false
		for _, m := range marks {
			if plainBranch != nil && plainBranch.Pos() <= m && m < plainBranch.End() {
				continue
			}
			if continues(fd.Body, m, ret) {
				okHere = true
			}
		}
		if !okHere {
			hashed = false
			note("tx list: the return at line %d (hashing path) leaves a list whose first transaction's outputs were not marked WasCoinbase", f.Fset.Position(ret).Line)
		}
	}
	ast.Inspect(fd.Body, func(n ast.Node) bool {
		if r, ok := n.(*ast.ReturnStmt); ok {
			check(r.Pos())
		}
		return true
	})
	if plainBranch == nil {
		// one path for both values of the flag
		nPlain = nHashed
		plain = hashed
	}
	if nPlain == 0 {
		plain = false
		note("tx list: the branch !%s has no return after the list is allocated (shape not understood)", flag)
	}
	if nHashed == 0 {
		hashed = false
	}
	note("tx list: %s(%s bool): %d WasCoinbase marks; returns after the allocation of the list: %d on the !%s branch, %d on the hashing path; marked on both: %v / %v",
		fd.Name.Name, flag, len(marks), nPlain, flag, nHashed, plain, hashed)
	return
}
