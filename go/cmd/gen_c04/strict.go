// strict.go — CONSERVATIVE second pass over the places the nine facts are read from (added after the second audit).
//
// The extractors of main.go / round4.go look for the presence and position of syntax; the audit showed property-breaking
// edits that keep every such fact (a mark under `if i == 1`, `rec.WTxID().Equal(rec.WTxID())`, `rec.Local && false`, an
// early return inside the undo goroutine, `Height+1` in the file name, a negated hook, `Unlock();Lock()` nested in a loop,
// an alias of Memory_Free, a second user of the scratch slices). Each function below demands the EXACT small shape the
// source has today at one of these places and answers false ("not understood ⇒ the fact is not established") for anything
// else — also for harmless rewrites of these few lines: a false fact breaks the build of the theorems that rest on it and
// is reported as a broken tie, which is the honest outcome when the translator no longer understands the code.
// These are still syntactic checks of named places, not a semantics of Go: what they do not see is listed in
// manifest.d/C04.json.
package main

import (
	"go/ast"
	"go/token"
	"os"
	"regexp"
	"strings"

	"verif/vtrans"
)

func reMatch(re, s string) bool { return regexp.MustCompile(re).MatchString(s) }

// every ident of `root` that refers to obj, with the path down to it
func usesOf(root ast.Node, obj *ast.Object) (res [][]ast.Node) {
	var stack []ast.Node
	ast.Inspect(root, func(n ast.Node) bool {
		if n == nil {
			stack = stack[:len(stack)-1]
			return true
		}
		stack = append(stack, n)
		if id, ok := n.(*ast.Ident); ok && id.Obj == obj && obj != nil {
			res = append(res, append([]ast.Node{}, stack...))
		}
		return true
	})
	return
}

func hasConstBool(f *vtrans.File, e ast.Node) bool {
	found := false
	ast.Inspect(e, func(n ast.Node) bool {
		if id, ok := n.(*ast.Ident); ok && (id.Name == "true" || id.Name == "false") {
			found = true
		}
		return true
	})
	return found
}

// ---- the flag set by the pool hook's answer (chain_accept.go) -----------------------------------------------------------

// strictFlag: the flag is declared `flag := <x>.Trusted.Get()` and nothing else; its only other assignment is
// `flag = true` directly under `if TrustedTxChecker != nil && TrustedTxChecker(tx)` (then-branch).
func strictFlag() bool {
	f, err := vtrans.Parse("lib/chain/chain_accept.go")
	if err != nil {
		die(err)
	}
	for _, fd := range funcs(f) {
		p := path(fd.Body, func(n ast.Node) bool {
			ifs, ok := n.(*ast.IfStmt)
			return ok && mentions(f, ifs.Cond, "TrustedTxChecker(")
		})
		if p == nil {
			continue
		}
		ifs := p[len(p)-1].(*ast.IfStmt)
		if c := render(f, ifs.Cond); !reMatch(`^(\w+\.)?TrustedTxChecker != nil && (\w+\.)?TrustedTxChecker\(\w+\)$`, c) {
			note("strict: the hook is tested by %q — not the plain `TrustedTxChecker != nil && TrustedTxChecker(tx)`", c)
			return false
		}
		var flag *ast.Object
		for _, st := range ifs.Body.List {
			if as, ok := st.(*ast.AssignStmt); ok && len(as.Lhs) == 1 && len(as.Rhs) == 1 && render(f, as.Rhs[0]) == "true" {
				if id, ok := as.Lhs[0].(*ast.Ident); ok {
					flag = id.Obj
				}
			}
		}
		if flag == nil {
			note("strict: the then-branch of the hook test does not set a local flag to true")
			return false
		}
		ok := true
		for _, u := range usesOf(fd.Body, flag) {
			if len(u) < 2 {
				continue
			}
			as, isAs := u[len(u)-2].(*ast.AssignStmt)
			if !isAs {
				continue
			}
			onLeft := false
			for _, l := range as.Lhs {
				if l == u[len(u)-1] {
					onLeft = true
				}
			}
			if !onLeft {
				continue
			}
			switch {
			case as.Tok == token.DEFINE:
				if r := render(f, as.Rhs[0]); len(as.Lhs) != 1 || !reMatch(`^\w+\.Trusted\.Get\(\)$`, r) {
					note("strict: the flag is initialised with %q — not the plain `bl.Trusted.Get()`", r)
					ok = false
				}
			case as.Pos() >= ifs.Body.Pos() && as.End() <= ifs.Body.End() && render(f, as.Rhs[0]) == "true":
			default:
				note("strict: the flag is assigned at line %d outside the hook test", f.Fset.Position(as.Pos()).Line)
				ok = false
			}
		}
		// the flag's address is not taken, it is not captured for writing elsewhere: every other use is a plain read in a condition
		return ok
	}
	return false
}

// ---- undo files (unspent_db.go) ----------------------------------------------------------------------------------------

// strictUndo: (w) in the function literal / function that puts the file in place there is no return / goto / continue /
// break before the Rename, and the name of the file is `fmt.Sprint(<dir>, <x>.Height)`, the variable the Rename targets;
// (r) the reader opens `fmt.Sprint(<dir>, <x>.LastBlockHeight)`.
func strictUndo() (w, r bool) {
	f, err := vtrans.Parse("lib/utxo/unspent_db.go")
	if err != nil {
		die(err)
	}
	commit, err := f.Func("UnspentDB", "CommitBlockTxs")
	if err != nil {
		die(err)
	}
	nameDef := func(fd *ast.FuncDecl, id *ast.Ident) string {
		if id == nil || id.Obj == nil {
			return ""
		}
		if as, ok := id.Obj.Decl.(*ast.AssignStmt); ok && len(as.Rhs) == 1 {
			n := 0
			for _, u := range usesOf(fd.Body, id.Obj) {
				if a, ok := u[len(u)-2].(*ast.AssignStmt); ok {
					for _, l := range a.Lhs {
						if l == u[len(u)-1] {
							n++
						}
					}
				}
			}
			if n == 1 {
				return render(f, as.Rhs[0])
			}
		}
		return ""
	}
	p := path(commit.Body, func(n ast.Node) bool { return isCallTo(n, "os.Rename") && mentions(f, n, "undo") })
	if p == nil {
		note("strict: CommitBlockTxs itself no longer renames the undo file into place (a helper does?) — not understood")
	} else {
		call := p[len(p)-1].(*ast.CallExpr)
		var scope ast.Node = commit.Body
		for _, n := range p {
			if fl, ok := n.(*ast.FuncLit); ok {
				scope = fl.Body
			}
		}
		w = true
		ast.Inspect(scope, func(n ast.Node) bool {
			if n == nil || n.Pos() >= call.Pos() {
				return n != nil && n.Pos() < call.Pos()
			}
			switch x := n.(type) {
			case *ast.ReturnStmt:
				w = false
				note("strict: a return at line %d precedes the Rename of the undo file in the same function body", f.Fset.Position(x.Pos()).Line)
			case *ast.BranchStmt:
				w = false
				note("strict: a %s at line %d precedes the Rename of the undo file", x.Tok, f.Fset.Position(x.Pos()).Line)
			case *ast.FuncLit:
				return false
			}
			return true
		})
		tgt, _ := call.Args[len(call.Args)-1].(*ast.Ident)
		if d := nameDef(commit, tgt); !reMatch(`^fmt\.Sprint\(\w+\.\w+, \w+\.Height\)$`, d) {
			note("strict: the undo file is renamed to %q defined as %q — not `fmt.Sprint(db.dir_undo, changes.Height)` assigned once", render(f, call.Args[len(call.Args)-1]), d)
			w = false
		}
	}
	for _, fd := range funcs(f) {
		if !mentions(f, fd.Name, "undo") || fd == commit {
			continue
		}
		q := path(fd.Body, func(n ast.Node) bool { return isCallTo(n, "os.ReadFile") })
		if q == nil {
			continue
		}
		call := q[len(q)-1].(*ast.CallExpr)
		arg, _ := call.Args[0].(*ast.Ident)
		if d := nameDef(fd, arg); reMatch(`^fmt\.Sprint\(\w+\.\w+, \w+\.LastBlockHeight\)$`, d) {
			r = true
		} else {
			note("strict: %s reads %q defined as %q — not `fmt.Sprint(db.dir_undo, db.LastBlockHeight)` assigned once", fd.Name.Name, render(f, call.Args[0]), d)
		}
		break
	}
	return
}

// ---- the scratch slices and the allocator (lib/utxo) ----------------------------------------------------------------------

// strictUtxo: (s) SerializeC contains exactly one Unlock (top level or deferred) and one Lock, and no other function of
// lib/utxo mentions a package-level slice that SerializeC writes; (m) the identifier Memory_Free occurs only as the
// callee of a call (or where it is declared / assigned as a whole) — no alias.
func strictUtxo() (s, m bool) {
	dir := vtrans.RepoRoot() + "/lib/utxo"
	ents, err := os.ReadDir(dir)
	if err != nil {
		die(err)
	}
	var files []*vtrans.File
	for _, en := range ents {
		if n := en.Name(); strings.HasSuffix(n, ".go") && !strings.HasSuffix(n, "_test.go") {
			f, err := vtrans.Parse("lib/utxo/" + n)
			if err != nil {
				die(err)
			}
			files = append(files, f)
		}
	}
	s, m = true, true
	// scratch names: package-level slices written in SerializeC
	scratch := map[string]bool{}
	var serFile *vtrans.File
	var ser *ast.FuncDecl
	for _, f := range files {
		if fd, err := f.Func("", "SerializeC"); err == nil {
			serFile, ser = f, fd
		}
	}
	if ser == nil {
		die(errString("lib/utxo: SerializeC not found"))
	}
	pkgSlices := map[string]bool{}
	for _, d := range serFile.AST.Decls {
		if gd, ok := d.(*ast.GenDecl); ok && gd.Tok == token.VAR {
			for _, sp := range gd.Specs {
				vs := sp.(*ast.ValueSpec)
				if at, ok := vs.Type.(*ast.ArrayType); ok && at.Len == nil {
					for _, n := range vs.Names {
						pkgSlices[n.Name] = true
					}
				}
			}
		}
	}
	ast.Inspect(ser.Body, func(n ast.Node) bool {
		if as, ok := n.(*ast.AssignStmt); ok {
			for _, l := range as.Lhs {
				x := l
				if ix, ok := l.(*ast.IndexExpr); ok {
					x = ix.X
				}
				if id, ok := x.(*ast.Ident); ok && pkgSlices[id.Name] && (id.Obj == nil || id.Obj.Pos() < ser.Pos() || id.Obj.Pos() > ser.End()) {
					scratch[id.Name] = true
				}
			}
		}
		return true
	})
	locks, unlocks := 0, 0
	ast.Inspect(ser.Body, func(n ast.Node) bool {
		if c, ok := n.(*ast.CallExpr); ok {
			if se, ok := c.Fun.(*ast.SelectorExpr); ok && len(c.Args) == 0 {
				switch se.Sel.Name {
				case "Lock":
					locks++
				case "Unlock":
					unlocks++
				}
			}
		}
		return true
	})
	if len(scratch) > 0 && (locks != 1 || unlocks != 1) {
		note("strict: SerializeC contains %d Lock and %d Unlock calls — not one pair", locks, unlocks)
		s = false
	}
	for _, f := range files {
		for _, fd := range funcs(f) {
			if fd == ser {
				continue
			}
			ast.Inspect(fd.Body, func(n ast.Node) bool {
				if id, ok := n.(*ast.Ident); ok && scratch[id.Name] && id.Obj != nil && id.Obj.Kind == ast.Var {
					if _, isTop := id.Obj.Decl.(*ast.ValueSpec); isTop && (id.Obj.Pos() < fd.Pos() || id.Obj.Pos() > fd.End()) {
						note("strict: %s (%s) also uses the scratch slice %s of SerializeC", fd.Name.Name, f.Path, id.Name)
						s = false
					}
				}
				return true
			})
		}
		// Memory_Free only as a callee
		var stack []ast.Node
		ast.Inspect(f.AST, func(n ast.Node) bool {
			if n == nil {
				stack = stack[:len(stack)-1]
				return true
			}
			stack = append(stack, n)
			id, ok := n.(*ast.Ident)
			if !ok || id.Name != "Memory_Free" || len(stack) < 2 {
				return true
			}
			switch par := stack[len(stack)-2].(type) {
			case *ast.CallExpr:
				if par.Fun == ast.Expr(id) {
					return true
				}
			case *ast.ValueSpec:
				for _, nm := range par.Names {
					if nm == id {
						return true
					}
				}
			case *ast.AssignStmt:
				for _, l := range par.Lhs {
					if l == ast.Expr(id) {
						return true
					}
				}
			}
			note("strict: Memory_Free is used as a value at %s (an alias the ownership pass would not follow)", f.Fset.Position(id.Pos()))
			m = false
			return true
		})
	}
	return
}

// ---- the pool's hook (client/txpool) ------------------------------------------------------------------------------------

// strictHook: in the function assigned to chain.TrustedTxChecker (one parameter tx, one bool result)
//   - `rec, ok := <map>[…]` defines the answer variable; its only other assignment is `ok = tx.WTxID().Equal(rec.WTxID())`
//     (or the mirrored call) with the parameter on one side and the looked-up record on the other;
//   - every return is `return ok` or `return false`;
//   - the first if of the body is `if ok && rec.Local { … return false }`.
func strictHook() bool {
	dir := vtrans.RepoRoot() + "/client/txpool"
	ents, err := os.ReadDir(dir)
	if err != nil {
		die(err)
	}
	hook := ""
	var files []*vtrans.File
	for _, en := range ents {
		if n := en.Name(); strings.HasSuffix(n, ".go") && !strings.HasSuffix(n, "_test.go") {
			f, err := vtrans.Parse("client/txpool/" + n)
			if err != nil {
				die(err)
			}
			files = append(files, f)
			ast.Inspect(f.AST, func(n ast.Node) bool {
				if as, ok := n.(*ast.AssignStmt); ok && len(as.Lhs) == 1 && len(as.Rhs) == 1 {
					if se, ok := as.Lhs[0].(*ast.SelectorExpr); ok && se.Sel.Name == "TrustedTxChecker" {
						if id, ok := as.Rhs[0].(*ast.Ident); ok {
							hook = id.Name
						}
					}
				}
				return true
			})
		}
	}
	for _, f := range files {
		fd, err := f.Func("", hook)
		if err != nil {
			continue
		}
		if fd.Type.Params == nil || len(fd.Type.Params.List) != 1 || len(fd.Type.Params.List[0].Names) != 1 {
			return false
		}
		param := fd.Type.Params.List[0].Names[0].Name
		// the look-up
		var rec, ans *ast.Object
		for _, st := range fd.Body.List {
			if as, ok := st.(*ast.AssignStmt); ok && as.Tok == token.DEFINE && len(as.Lhs) == 2 && len(as.Rhs) == 1 && rec == nil {
				if _, isIdx := as.Rhs[0].(*ast.IndexExpr); isIdx {
					rec, ans = as.Lhs[0].(*ast.Ident).Obj, as.Lhs[1].(*ast.Ident).Obj
				}
			}
		}
		if rec == nil || ans == nil {
			note("strict: %s has no `rec, ok := map[…]` at the top level of its body", hook)
			return false
		}
		ok := true
		cmp := 0
		for _, u := range usesOf(fd.Body, ans) {
			as, isAs := u[len(u)-2].(*ast.AssignStmt)
			if !isAs || as.Tok == token.DEFINE {
				continue
			}
			onLeft := false
			for _, l := range as.Lhs {
				if l == u[len(u)-1] {
					onLeft = true
				}
			}
			if !onLeft {
				continue
			}
			r := render(f, as.Rhs[0])
			a, b := param+".WTxID()", rec.Name+".WTxID()"
			if len(as.Lhs) == 1 && (r == a+".Equal("+b+")" || r == b+".Equal("+a+")") {
				cmp++
			} else {
				note("strict: %s assigns its answer %q at line %d — not the comparison of the block's witness hash with the pooled record's", hook, r, f.Fset.Position(as.Pos()).Line)
				ok = false
			}
		}
		if cmp != 1 {
			note("strict: %s compares %s.WTxID() with %s.WTxID() %d times (expected once)", hook, param, rec.Name, cmp)
			ok = false
		}
		var lits []*ast.FuncLit
		ast.Inspect(fd.Body, func(n ast.Node) bool {
			switch x := n.(type) {
			case *ast.FuncLit:
				lits = append(lits, x)
				return false
			case *ast.ReturnStmt:
				if len(x.Results) != 1 {
					ok = false
					return true
				}
				id, isId := x.Results[0].(*ast.Ident)
				if !isId || !(id.Obj == ans || id.Name == "false") {
					note("strict: %s returns %q at line %d — neither the answer variable nor false", hook, render(f, x.Results[0]), f.Fset.Position(x.Pos()).Line)
					ok = false
				}
			}
			return true
		})
		// the Local test
		local := false
		for _, st := range fd.Body.List {
			ifs, isIf := st.(*ast.IfStmt)
			if !isIf {
				continue
			}
			if c := render(f, ifs.Cond); c == ans.Name+" && "+rec.Name+".Local" && ifs.Init == nil {
				if n := len(ifs.Body.List); n > 0 {
					if ret, isRet := ifs.Body.List[n-1].(*ast.ReturnStmt); isRet && len(ret.Results) == 1 && render(f, ret.Results[0]) == "false" {
						local = true
					}
				}
			}
			break // the FIRST if of the body
		}
		if !local {
			note("strict: the first if of %s is not `if %s && %s.Local { … return false }`", hook, ans.Name, rec.Name)
			ok = false
		}
		return ok
	}
	return false
}

// ---- the coinbase marks (block.go) ---------------------------------------------------------------------------------------

// strictMarks: every `….WasCoinbase = true` of the list builder lies directly under an if whose condition is `<i> == 0`
// (i the counter of an enclosing `for i := 0; …`) or a variable defined as `<c> := tx == <v>` where <v> is assigned in
// this function only as `<v> = tx` directly under `if <i> == 0`; no other if lies between the mark and the loop over
// the transactions.
func strictMarks() bool {
	f, err := vtrans.Parse("lib/btc/block.go")
	if err != nil {
		die(err)
	}
	var fd *ast.FuncDecl
	for _, d := range funcs(f) {
		if d.Recv != nil && d.Type.Params != nil && len(d.Type.Params.List) == 1 && mentions(f, d.Body, ".Txs = make(") {
			if id, ok := d.Type.Params.List[0].Type.(*ast.Ident); ok && id.Name == "bool" {
				fd = d
			}
		}
	}
	if fd == nil {
		return false
	}
	flagName := fd.Type.Params.List[0].Names[0].Name
	idxZero := func(cond ast.Expr, p []ast.Node) bool {
		be, ok := cond.(*ast.BinaryExpr)
		if !ok || be.Op != token.EQL || render(f, be.Y) != "0" {
			return false
		}
		id, ok := be.X.(*ast.Ident)
		if !ok {
			return false
		}
		for _, n := range p {
			if fs, ok := n.(*ast.ForStmt); ok && fs.Init != nil && render(f, fs.Init) == id.Name+" := 0" {
				return true
			}
		}
		return false
	}
	ok, marks := true, 0
	var stack []ast.Node
	ast.Inspect(fd.Body, func(n ast.Node) bool {
		if n == nil {
			stack = stack[:len(stack)-1]
			return true
		}
		stack = append(stack, n)
		as, isAs := n.(*ast.AssignStmt)
		if !isAs || len(as.Lhs) != 1 || render(f, as.Rhs[0]) != "true" {
			return true
		}
		if se, isSel := as.Lhs[0].(*ast.SelectorExpr); !isSel || se.Sel.Name != "WasCoinbase" {
			return true
		}
		marks++
		// the ifs on the way up, innermost first, until the function body
		var ifs []*ast.IfStmt
		for i := len(stack) - 1; i >= 0; i-- {
			if x, isIf := stack[i].(*ast.IfStmt); isIf {
				ifs = append(ifs, x)
			}
		}
		good := false
		var rest []*ast.IfStmt
		if len(ifs) > 0 {
			rest = ifs[1:]
			in := ifs[0]
			thenBranch := as.Pos() >= in.Body.Pos() && as.End() <= in.Body.End()
			switch c := in.Cond.(type) {
			case *ast.BinaryExpr:
				good = thenBranch && idxZero(c, stack)
			case *ast.Ident:
				if c.Obj == nil {
				break
			}
			if def, isDef := c.Obj.Decl.(*ast.AssignStmt); thenBranch && isDef && len(def.Rhs) == 1 {
					if be, isBe := def.Rhs[0].(*ast.BinaryExpr); isBe && be.Op == token.EQL {
						x, xok := be.X.(*ast.Ident)
						y, yok := be.Y.(*ast.Ident)
						if xok && yok && y.Obj != nil {
							// y: assigned only as `y = <ident>` under `if i == 0`
							good = true
							nset := 0
							for _, u := range usesOf(fd.Body, y.Obj) {
								a, isA := u[len(u)-2].(*ast.AssignStmt)
								if !isA || a.Lhs[0] != u[len(u)-1] {
									continue
								}
								nset++
								var encl *ast.IfStmt
								for i := len(u) - 1; i >= 0 && encl == nil; i-- {
									if q, isIf := u[i].(*ast.IfStmt); isIf {
										encl = q
									}
								}
								if encl == nil || !idxZero(encl.Cond, u) || len(a.Rhs) != 1 || render(f, a.Rhs[0]) != x.Name {
									good = false
								}
							}
							if nset != 1 {
								good = false
							}
						}
					}
				}
			}
		}
		for _, q := range rest { // further out only the split on the builder's own flag (`if !dohash`) may enclose it
			if c := render(f, q.Cond); c != "!"+flagName && c != flagName {
				good = false
			}
		}
		if !good {
			note("strict: the WasCoinbase mark at line %d is not directly guarded by `<loop counter> == 0` / `tx == <the transaction stored at counter 0>`", f.Fset.Position(as.Pos()).Line)
			ok = false
		}
		return true
	})
	return ok && marks > 0
}
