// gen_c04 regenerates lean/GocoinV/Gen/C04Facts.lean from /repo: STRUCTURAL facts of the source that the C04 models
// (Model/ConnectTrust.lean, Model/ConnectUndo.lean, Model/ConnectScratch.lean) take as parameters and that the
// theorems of Props/C04.lean about the pool hook, the undo files and the compressed-record scratch pools rest on:
//
//	hookConsulted                 commitTxs calls chain.TrustedTxChecker at all
//	txTrustedPerTx                the flag that the hook's answer sets is declared INSIDE the body of the transaction loop
//	                              (a fresh variable per transaction), not once before it
//	undoWrittenWheneverCollected  CommitBlockTxs writes undo/<height> whenever changes.UndoData != nil — no other
//	                              condition (an EMPTY map still replaces the file a block of another branch left at this height)
//	undoMissingPanics             UndoBlockTxs does not go on when undo/<height> cannot be read
//	scratchUnderLock              SerializeC touches its package-level scratch slices only while it holds the package mutex
//
// The extractors look for the PRESENCE AND POSITION OF SYNTAX at named places (the flag is "the variable set to true
// where TrustedTxChecker's answer is tested", the scratch slices are "the package-level slices SerializeC writes", …);
// they are not a semantics of Go. strict.go adds a conservative pass that demands today's exact small shape at each
// place (anything else ⇒ the fact is false ⇒ the theorems resting on it stop building ⇒ broken tie). What neither pass
// sees is listed in manifest.d/C04.json. The generator exits non-zero only when it cannot find the code at all.
package main

import (
	"bytes"
	"fmt"
	"go/ast"
	"go/printer"
	"go/token"
	"os"
	"strings"

	"verif/vlib"
	"verif/vtrans"
)

func die(err error) {
	fmt.Fprintln(os.Stderr, "TRANSLATE-ERROR:", err)
	os.Exit(2)
}

func render(f *vtrans.File, e ast.Node) string {
	var b bytes.Buffer
	printer.Fprint(&b, f.Fset, e)
	return strings.Join(strings.Fields(b.String()), " ")
}

func mentions(f *vtrans.File, n ast.Node, sub string) bool {
	return n != nil && strings.Contains(strings.ToLower(render(f, n)), strings.ToLower(sub))
}

// path returns the chain of nodes from root down to the node at which pred first holds (depth-first), or nil.
func path(root ast.Node, pred func(ast.Node) bool) []ast.Node {
	var stack, found []ast.Node
	ast.Inspect(root, func(n ast.Node) bool {
		if found != nil {
			return false
		}
		if n == nil {
			stack = stack[:len(stack)-1]
			return true
		}
		stack = append(stack, n)
		if pred(n) {
			found = append([]ast.Node{}, stack...)
			return false
		}
		return true
	})
	return found
}

func isCallTo(n ast.Node, names ...string) bool {
	c, ok := n.(*ast.CallExpr)
	if !ok {
		return false
	}
	var name string
	switch f := c.Fun.(type) {
	case *ast.Ident:
		name = f.Name
	case *ast.SelectorExpr:
		name = f.Sel.Name
		if x, ok := f.X.(*ast.Ident); ok {
			name = x.Name + "." + name
		}
	}
	for _, w := range names {
		if name == w || strings.HasSuffix(name, "."+w) {
			return true
		}
	}
	return false
}

func funcs(f *vtrans.File) []*ast.FuncDecl {
	var res []*ast.FuncDecl
	for _, d := range f.AST.Decls {
		if fd, ok := d.(*ast.FuncDecl); ok && fd.Body != nil {
			res = append(res, fd)
		}
	}
	return res
}

// enclosingConds: the conditions of the if statements (then-branches) on a path; an else-branch is reported as "else(<cond>)".
func enclosingConds(f *vtrans.File, p []ast.Node) []string {
	var res []string
	for i, n := range p {
		ifs, ok := n.(*ast.IfStmt)
		if !ok || i+1 >= len(p) {
			continue
		}
		switch p[i+1] {
		case ifs.Body:
			res = append(res, render(f, ifs.Cond))
		case ifs.Else:
			res = append(res, "else("+render(f, ifs.Cond)+")")
		}
	}
	return res
}

var notes []string

func note(format string, a ...interface{}) { notes = append(notes, fmt.Sprintf(format, a...)) }

// ---- the pool hook -----------------------------------------------------------------------------------------------

func hookFacts() (consulted, perTx bool) {
	f, err := vtrans.Parse("lib/chain/chain_accept.go")
	if err != nil {
		die(err)
	}
	if _, err := f.Func("Chain", "commitTxs"); err != nil {
		die(err)
	}
	for _, fd := range funcs(f) {
		// the `if` whose condition calls the hook
		p := path(fd.Body, func(n ast.Node) bool {
			ifs, ok := n.(*ast.IfStmt)
			return ok && path(ifs.Cond, func(m ast.Node) bool { return isCallTo(m, "TrustedTxChecker") }) != nil
		})
		if p == nil {
			continue
		}
		consulted = true
		ifs := p[len(p)-1].(*ast.IfStmt)
		// the flag: assigned the constant true in the then-branch
		var flag *ast.Ident
		ast.Inspect(ifs.Body, func(n ast.Node) bool {
			if as, ok := n.(*ast.AssignStmt); ok && len(as.Lhs) == 1 && len(as.Rhs) == 1 {
				if v, ok := as.Rhs[0].(*ast.Ident); ok && v.Name == "true" {
					if id, ok := as.Lhs[0].(*ast.Ident); ok && flag == nil {
						flag = id
					}
				}
			}
			return true
		})
		if flag == nil || flag.Obj == nil {
			note("hook: %s tests TrustedTxChecker but sets no local flag to true in that branch (shape not understood)", fd.Name.Name)
			return true, false
		}
		declPos := flag.Obj.Pos()
		// innermost loop around the test
		var loop ast.Node
		for _, n := range p {
			switch n.(type) {
			case *ast.RangeStmt, *ast.ForStmt:
				loop = n
			}
		}
		if loop == nil {
			// a helper that handles ONE transaction: the flag must be a local of the helper (not a parameter, not package-level)
			perTx = declPos > fd.Body.Pos() && declPos < fd.Body.End()
			note("hook: tested in %s (no loop around it); flag %q declared at %s", fd.Name.Name, flag.Name, f.Fset.Position(declPos))
			return
		}
		var body *ast.BlockStmt
		switch l := loop.(type) {
		case *ast.RangeStmt:
			body = l.Body
		case *ast.ForStmt:
			body = l.Body
		}
		perTx = declPos > body.Pos() && declPos < body.End()
		note("hook: tested in %s inside the loop at line %d; flag %q declared at line %d (loop body: lines %d..%d)", fd.Name.Name,
			f.Fset.Position(loop.Pos()).Line, flag.Name, f.Fset.Position(declPos).Line, f.Fset.Position(body.Pos()).Line, f.Fset.Position(body.End()).Line)
		return
	}
	note("hook: chain_accept.go never calls TrustedTxChecker")
	return false, true
}

// ---- undo files --------------------------------------------------------------------------------------------------

func isUndoDataNotNil(f *vtrans.File, cond string) bool {
	c := strings.ReplaceAll(cond, " ", "")
	return strings.HasSuffix(c, ".UndoData!=nil") || strings.HasPrefix(c, "nil!=") && strings.HasSuffix(c, ".UndoData")
}

func undoFacts() (written, panics bool) {
	f, err := vtrans.Parse("lib/utxo/unspent_db.go")
	if err != nil {
		die(err)
	}
	commit, err := f.Func("UnspentDB", "CommitBlockTxs")
	if err != nil {
		die(err)
	}
	// the statement that puts the file in place: os.Rename(…, undo file) or os.WriteFile(undo file, …)
	isPut := func(n ast.Node) bool {
		return (isCallTo(n, "os.Rename") || isCallTo(n, "os.WriteFile")) && mentions(f, n, "undo")
	}
	var conds []string
	found := false
	var visit func(fd *ast.FuncDecl, depth int) bool
	visit = func(fd *ast.FuncDecl, depth int) bool {
		// last "put" in this function (Rename after WriteFile of the tmp file)
		var last []ast.Node
		for {
			var after token.Pos
			if last != nil {
				after = last[len(last)-1].End()
			}
			p := path(fd.Body, func(n ast.Node) bool { return n.Pos() >= after && isPut(n) })
			if p == nil {
				break
			}
			last = p
		}
		if last != nil {
			conds = append(conds, enclosingConds(f, last)...)
			return true
		}
		if depth > 1 {
			return false
		}
		// a helper of this file, called from here
		for _, g := range funcs(f) {
			if g == fd {
				continue
			}
			p := path(fd.Body, func(n ast.Node) bool { return isCallTo(n, g.Name.Name) })
			if p == nil {
				continue
			}
			save := conds
			conds = append(conds, enclosingConds(f, p)...)
			if visit(g, depth+1) {
				return true
			}
			conds = save
		}
		return false
	}
	found = visit(commit, 0)
	if !found {
		note("undo: CommitBlockTxs (and the helpers it calls) never put an undo file in place")
		written = false
	} else {
		written = true
		for _, c := range conds {
			if !isUndoDataNotNil(f, c) {
				written = false
			}
		}
		note("undo: the file is put in place under the conditions %q", conds)
	}
	// reading it back
	for _, fd := range funcs(f) {
		p := path(fd.Body, func(n ast.Node) bool {
			as, ok := n.(*ast.AssignStmt)
			return ok && len(as.Rhs) == 1 && isCallTo(as.Rhs[0], "os.ReadFile") && mentions(f, fd, "undo") && fd.Name.Name != "CommitBlockTxs" && mentions(f, fd.Name, "undo")
		})
		if p == nil {
			continue
		}
		as := p[len(p)-1].(*ast.AssignStmt)
		if len(as.Lhs) != 2 {
			break
		}
		er, ok := as.Lhs[1].(*ast.Ident)
		if !ok || er.Name == "_" {
			note("undo: %s discards the error of os.ReadFile", fd.Name.Name)
			return written, false
		}
		// an if on that error that panics / returns
		q := path(fd.Body, func(n ast.Node) bool {
			ifs, ok := n.(*ast.IfStmt)
			if !ok || ifs.Pos() < as.End() || !mentions(f, ifs.Cond, er.Name) || !mentions(f, ifs.Cond, "nil") {
				return false
			}
			return path(ifs.Body, func(m ast.Node) bool {
				if isCallTo(m, "panic") {
					return true
				}
				_, ret := m.(*ast.ReturnStmt)
				return ret
			}) != nil
		})
		note("undo: %s reads the file; error %q checked with panic/return: %v", fd.Name.Name, er.Name, q != nil)
		return written, q != nil
	}
	note("undo: no function of unspent_db.go reads an undo file with os.ReadFile")
	return written, false
}

// ---- scratch pools of the compressed serializer -------------------------------------------------------------------

func scratchFacts() bool {
	f, err := vtrans.Parse("lib/utxo/unspent_recc.go")
	if err != nil {
		die(err)
	}
	ser, err := f.Func("", "SerializeC")
	if err != nil {
		die(err)
	}
	slices, mutexes := map[string]bool{}, map[string]bool{}
	for _, d := range f.AST.Decls {
		gd, ok := d.(*ast.GenDecl)
		if !ok || gd.Tok != token.VAR {
			continue
		}
		for _, s := range gd.Specs {
			vs := s.(*ast.ValueSpec)
			for _, n := range vs.Names {
				if at, ok := vs.Type.(*ast.ArrayType); ok && at.Len == nil {
					slices[n.Name] = true
				}
				if vs.Type != nil && strings.Contains(render(f, vs.Type), "Mutex") {
					mutexes[n.Name] = true
				}
			}
		}
	}
	// scratch = package-level slices SerializeC writes (element or whole)
	scratch := map[string]bool{}
	ast.Inspect(ser.Body, func(n ast.Node) bool {
		if as, ok := n.(*ast.AssignStmt); ok {
			for _, l := range as.Lhs {
				x := l
				if ix, ok := l.(*ast.IndexExpr); ok {
					x = ix.X
				}
				if id, ok := x.(*ast.Ident); ok && slices[id.Name] && (id.Obj == nil || id.Obj.Pos() < ser.Pos() || id.Obj.Pos() > ser.End()) {
					scratch[id.Name] = true
				}
			}
		}
		return true
	})
	if len(scratch) == 0 {
		note("scratch: SerializeC writes no package-level slice (no shared scratch pool)")
		return true
	}
	// the lock region at the top level of the body
	var from, to token.Pos
	var mu string
	for _, st := range ser.Body.List {
		switch s := st.(type) {
		case *ast.ExprStmt:
			if c, ok := s.X.(*ast.CallExpr); ok {
				if se, ok := c.Fun.(*ast.SelectorExpr); ok {
					if x, ok := se.X.(*ast.Ident); ok && mutexes[x.Name] {
						if se.Sel.Name == "Lock" && from == 0 {
							from, mu = s.Pos(), x.Name
						} else if se.Sel.Name == "Unlock" && from != 0 && to == 0 && x.Name == mu {
							to = s.Pos()
						}
					}
				}
			}
		case *ast.DeferStmt:
			if se, ok := s.Call.Fun.(*ast.SelectorExpr); ok {
				if x, ok := se.X.(*ast.Ident); ok && from != 0 && to == 0 && x.Name == mu && se.Sel.Name == "Unlock" {
					to = ser.Body.End()
				}
			}
		}
	}
	if from == 0 || to == 0 {
		note("scratch: SerializeC writes %v but takes no package mutex at the top level of its body", keys(scratch))
		return false
	}
	ok := true
	ast.Inspect(ser.Body, func(n ast.Node) bool {
		if id, isId := n.(*ast.Ident); isId && scratch[id.Name] && (id.Obj == nil || id.Obj.Pos() < ser.Pos() || id.Obj.Pos() > ser.End()) {
			if id.Pos() < from || id.Pos() > to {
				ok = false
				note("scratch: %s used at line %d outside the region locked by %s (lines %d..%d)", id.Name, f.Fset.Position(id.Pos()).Line, mu, f.Fset.Position(from).Line, f.Fset.Position(to).Line)
			}
		}
		return true
	})
	if ok {
		note("scratch: every use of %v in SerializeC lies in the region locked by %s (lines %d..%d)", keys(scratch), mu, f.Fset.Position(from).Line, f.Fset.Position(to).Line)
	}
	return ok
}

func keys(m map[string]bool) []string {
	var r []string
	for k := range m {
		r = append(r, k)
	}
	if len(r) == 2 && r[0] > r[1] {
		r[0], r[1] = r[1], r[0]
	}
	return r
}

func main() {
	consulted, perTx := hookFacts()
	written, panics := undoFacts()
	locked := scratchFacts()
	witness := poolHookFact()         // round4.go
	owned := ownershipFact()          // round4.go
	cbHashed, cbPlain := txListFacts() // round4.go
	// strict.go: the conservative second pass — a place that no longer has exactly today's small shape does not establish its fact
	sFlag := strictFlag()
	sUndoW, sUndoR := strictUndo()
	sScratch, sFree := strictUtxo()
	sHook := strictHook()
	sMarks := strictMarks()
	note("strict pass: flag %v, undo writer %v, undo reader %v, scratch %v, Memory_Free %v, pool hook %v, coinbase marks %v", sFlag, sUndoW, sUndoR, sScratch, sFree, sHook, sMarks)
	perTx = perTx && sFlag
	written = written && sUndoW && sUndoR // (the model uses ONE height for the file's name on both sides)
	locked = locked && sScratch
	witness = witness && sHook
	owned = owned && sFree
	cbHashed, cbPlain = cbHashed && sMarks, cbPlain && sMarks
	var sb strings.Builder
	sb.WriteString("/- GENERATED by go/cmd/gen_c04 from lib/chain/chain_accept.go, lib/utxo/*.go, lib/btc/block.go, client/txpool/*.go — do not edit; not in git.\n")
	for _, n := range notes {
		sb.WriteString("   " + strings.ReplaceAll(n, "-/", "- /") + "\n")
	}
	sb.WriteString("-/\nnamespace GocoinV.Gen.C04Facts\n\n")
	b := func(name, doc string, v bool) {
		fmt.Fprintf(&sb, "/-- %s -/\ndef %s : Bool := %v\n\n", doc, name, v)
	}
	b("hookConsulted", "commitTxs asks chain.TrustedTxChecker", consulted)
	b("txTrustedPerTx", "the flag set by the hook's answer is a variable of the transaction loop's BODY", perTx)
	b("undoWrittenWheneverCollected", "CommitBlockTxs puts undo/<height> in place whenever changes.UndoData != nil, under no other condition", written)
	b("undoMissingPanics", "UndoBlockTxs stops (panic / return) when undo/<height> cannot be read", panics)
	b("scratchUnderLock", "SerializeC uses its package-level scratch slices only while holding the package mutex", locked)
	b("hookComparesWitness", "the function client/txpool installs as chain.TrustedTxChecker compares witness hashes and never answers the constant true outside a branch guarded by such a comparison", witness)
	b("recordReleasedAfterLastRead", "no function of lib/utxo releases (Memory_Free) a record and then still reads a non-copying view of it", owned)
	b("txListMarksCoinbaseHashed", "BuildTxListExt marks the outputs of the first transaction WasCoinbase on the hashing path (BuildTxList)", cbHashed)
	b("txListMarksCoinbasePlain", "BuildTxListExt marks the outputs of the first transaction WasCoinbase on the dohash == false path (the client's disk cache)", cbPlain)
	sb.WriteString("end GocoinV.Gen.C04Facts\n")
	out := vlib.Root() + "/lean/GocoinV/Gen/C04Facts.lean"
	os.Remove(out)
	if err := os.WriteFile(out, []byte(sb.String()), 0644); err != nil {
		die(err)
	}
	fmt.Println("FACTS 9")
	for _, n := range notes {
		fmt.Println("  ", n)
	}
}
