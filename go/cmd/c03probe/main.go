package main

import (
	"encoding/hex"
	"fmt"
	"math/big"

	"github.com/piotrnar/gocoin/lib/btc"
	"github.com/piotrnar/gocoin/lib/secp256k1"
)

func try(name string, f func() bool) {
	defer func() {
		if e := recover(); e != nil {
			fmt.Printf("%-40s PANIC %v\n", name, e)
		}
	}()
	fmt.Printf("%-40s %v\n", name, f())
}

func derOf(r, s *big.Int) []byte {
	enc := func(x *big.Int) []byte {
		b := x.Bytes()
		if len(b) == 0 {
			b = []byte{0}
		}
		if b[0] >= 0x80 {
			b = append([]byte{0}, b...)
		}
		return b
	}
	rb, sb := enc(r), enc(s)
	out := []byte{0x30, byte(4 + len(rb) + len(sb)), 2, byte(len(rb))}
	out = append(out, rb...)
	out = append(out, 2, byte(len(sb)))
	return append(out, sb...)
}

// own-arithmetic forgery: R = 1*Q + 1*G computed by gocoin, r = R.x mod n, s = r, m = r
func forge(pk []byte) (sig, msg []byte, ok bool) {
	var q secp256k1.XY
	if !q.ParsePubkey(pk) {
		return nil, nil, false
	}
	var qj, rj secp256k1.XYZ
	qj.SetXY(&q)
	var one secp256k1.Number
	one.SetInt64(1)
	qj.ECmult(&rj, &one, &one)
	if rj.IsInfinity() {
		return nil, nil, false
	}
	var R secp256k1.XY
	R.SetXYZ(&rj)
	R.X.Normalize()
	var xb [32]byte
	R.X.GetB32(xb[:])
	r := new(big.Int).SetBytes(xb[:])
	r.Mod(r, refN)
	return derOf(r, r), be32(r), true
}

func main() {
	// P1: s+n
	priv, _ := hex.DecodeString("0000000000000000000000000000000000000000000000000000000000000001")
	h, _ := hex.DecodeString("9c1185a5c5e9fc54612808977ee8f548b2258d31ddadef707ac0ebf1b0cd8a44")
	btc.EcdsaSignWithRFC6979 = true
	r, s, _ := btc.EcdsaSign(priv, h)
	pub := make([]byte, 33)
	secp256k1.BaseMultiply(priv, pub)
	fmt.Println("pub", hex.EncodeToString(pub), "r", r.Text(16), "s", s.Text(16))
	try("P1 valid", func() bool { return btc.EcdsaVerify(pub, derOf(r, s), h) })
	sn := new(big.Int).Add(s, refN)
	fmt.Println("sig s+n", hex.EncodeToString(derOf(r, sn)))
	try("P1 s+n", func() bool { return btc.EcdsaVerify(pub, derOf(r, sn), h) })
	try("P1 ref s+n", func() bool { return refEcdsaVerify(pub, derOf(r, sn), h) })
	// P2: x = p+1 compressed
	pk2 := append([]byte{2}, be32(new(big.Int).Add(refP, big1))...)
	sig2, m2, ok := forge(pk2)
	fmt.Println("P2", hex.EncodeToString(pk2), hex.EncodeToString(sig2), hex.EncodeToString(m2), ok)
	try("P2 x=p+1", func() bool { return btc.EcdsaVerify(pk2, sig2, m2) })
	try("P2 ref", func() bool { return refEcdsaVerify(pk2, sig2, m2) })
	pk2b := append([]byte{2}, be32(big1)...)
	try("P2 x=1 same sig", func() bool { return btc.EcdsaVerify(pk2b, sig2, m2) })
	try("P2 ref x=1", func() bool { return refEcdsaVerify(pk2b, sig2, m2) })
	// P3: off-curve (x,y) = (1,1)
	pk3 := append([]byte{4}, append(be32(big1), be32(big1)...)...)
	sig3, m3, ok := forge(pk3)
	fmt.Println("P3", hex.EncodeToString(pk3), hex.EncodeToString(sig3), hex.EncodeToString(m3), ok)
	try("P3 offcurve (1,1)", func() bool { return btc.EcdsaVerify(pk3, sig3, m3) })
	try("P3 ref", func() bool { return refEcdsaVerify(pk3, sig3, m3) })
	// P4: compressed, x with no sqrt
	for x := int64(0); x < 20; x++ {
		if refLiftX(big.NewInt(x)) == nil {
			pk4 := append([]byte{2}, be32(big.NewInt(x))...)
			sig4, m4, ok := forge(pk4)
			fmt.Println("P4 x=", x, hex.EncodeToString(pk4), hex.EncodeToString(sig4), hex.EncodeToString(m4), ok)
			try("P4 nonresidue x", func() bool { return btc.EcdsaVerify(pk4, sig4, m4) })
			try("P4 ref", func() bool { return refEcdsaVerify(pk4, sig4, m4) })
			break
		}
	}
	// P5: uncompressed with y+p  (x=1,y=sqrt(8)); choose root with y+p < 2^256 impossible unless y small -> use x+p instead
	q1 := refLiftX(big1)
	pk5 := append([]byte{4}, append(be32(new(big.Int).Add(refP, big1)), be32(q1.y)...)...)
	sig5, m5, ok := forge(pk5)
	fmt.Println("P5", hex.EncodeToString(pk5), ok)
	try("P5 04 x+p", func() bool { return btc.EcdsaVerify(pk5, sig5, m5) })
	try("P5 ref", func() bool { return refEcdsaVerify(pk5, sig5, m5) })
	// hybrid wrong parity
	pk6 := append([]byte{7}, append(be32(big1), be32(q1.y)...)...) // q1.y even -> 07 wrong
	sig6, m6, _ := forge(append([]byte{4}, pk6[1:]...))
	try("hybrid wrong parity 07", func() bool { return btc.EcdsaVerify(pk6, sig6, m6) })
	pk6[0] = 6
	try("hybrid right parity 06", func() bool { return btc.EcdsaVerify(pk6, sig6, m6) })
	// P6: Schnorr zero pk zero sig
	z32 := make([]byte, 32)
	z64 := make([]byte, 64)
	fmt.Println("liftX(0) nil?", refLiftX(big0) == nil)
	cnt := 0
	first := -1
	for i := 0; i < 64; i++ {
		m := make([]byte, 32)
		m[31] = byte(i)
		okk := false
		func() {
			defer func() { recover() }()
			okk = btc.SchnorrVerify(z32, z64, m)
		}()
		if okk {
			cnt++
			if first < 0 {
				first = i
			}
		}
	}
	fmt.Println("P6 zero pk/zero sig accepted for", cnt, "of 64 messages; first msg[31]=", first)
	// P7: valid schnorr and variants
	sk, _ := hex.DecodeString("0000000000000000000000000000000000000000000000000000000000000003")
	msg := make([]byte, 32)
	aux := make([]byte, 32)
	ss := secp256k1.SchnorrSign(msg, sk, aux)
	rs := refSchnorrSign(msg, sk, aux)
	fmt.Println("schnorr sign equal ref:", hex.EncodeToString(ss) == hex.EncodeToString(rs))
	P := refMul(big3, refG())
	px := be32(P.x)
	try("P7 valid", func() bool { return btc.SchnorrVerify(px, ss, msg) })
	s2 := new(big.Int).Add(new(big.Int).SetBytes(ss[32:]), refN)
	sig65 := append(append([]byte{}, ss[:32]...), s2.Bytes()...)
	fmt.Println("len sig65", len(sig65))
	try("P7 s+n 65 bytes", func() bool { return btc.SchnorrVerify(px, sig65, msg) })
	sig65z := append(append([]byte{}, ss[:32]...), append([]byte{0}, ss[32:]...)...)
	try("P7 00||s 65 bytes", func() bool { return btc.SchnorrVerify(px, sig65z, msg) })
	try("P7 sig 63 bytes", func() bool { return btc.SchnorrVerify(px, ss[:63], msg) })
	try("P7 sig 31 bytes", func() bool { return btc.SchnorrVerify(px, ss[:31], msg) })
	try("P7 pk 31 bytes", func() bool { return btc.SchnorrVerify(px[:31], ss, msg) })
	try("P7 pk 33 bytes", func() bool { return btc.SchnorrVerify(append(px, 0), ss, msg) })
	try("P7 sig empty", func() bool { return btc.SchnorrVerify(px, nil, msg) })
	// P8: tweak check with non-liftable base
	for par := 0; par < 2; par++ {
		p := par == 1
		try(fmt.Sprint("P8 zero base/hash/key parity=", p), func() bool { return btc.CheckPayToContract(z32, z32, z32, p) })
	}
	try("P8 ref", func() bool { return refTapTweakCheck(z32, z32, z32, false) || refTapTweakCheck(z32, z32, z32, true) })
	// P9: tweak t+n
	t := big.NewInt(5)
	Q := refAdd(P, refMul(t, refG()))
	par := Q.y.Bit(0) == 1
	try("P9 valid tweak", func() bool { return btc.CheckPayToContract(be32(Q.x), px, be32(t), par) })
	try("P9 t+n", func() bool { return btc.CheckPayToContract(be32(Q.x), px, be32(new(big.Int).Add(t, refN)), par) })
	try("P9 ref t+n", func() bool { return refTapTweakCheck(be32(Q.x), px, be32(new(big.Int).Add(t, refN)), par) })
	try("P9 base 31 bytes", func() bool { return btc.CheckPayToContract(be32(Q.x), px[:31], be32(t), par) })
	try("P9 base 33 bytes", func() bool { return btc.CheckPayToContract(be32(Q.x), append(px, 0), be32(t), par) })
	try("P9 hash 33 bytes 00||t", func() bool { return btc.CheckPayToContract(be32(Q.x), px, append([]byte{0}, be32(t)...), par) })
	// ECDSA: r = 0 / s = 0 / s = n
	try("ecdsa s=0", func() bool { return btc.EcdsaVerify(pub, derOf(r, big0), h) })
	try("ecdsa s=n", func() bool { return btc.EcdsaVerify(pub, derOf(r, refN), h) })
	try("ecdsa r=0", func() bool { return btc.EcdsaVerify(pub, derOf(big0, s), h) })
	try("ecdsa r+n", func() bool { return btc.EcdsaVerify(pub, derOf(new(big.Int).Add(r, refN), s), h) })
}
