package main

// penalty.go — penalty histories with elapsed time.
//
// A peer's penalties are per-connection STATE with a life time: Misbehave appends a record (low 16 bits of the
// time, points) to the connection's history, and the connection's own thread forgets records older than an hour
// in its once-a-second Tick (core.go expire_misbehave). What that thread does therefore depends on the history
// (penalties earned by earlier messages) AND on how much time has passed since - a handler-at-a-time view never
// reaches it: nothing happens before the hour is over. The property's quantifier ("in any order on one
// connection") covers it; the walk over the records must be total for every history and every clock.
//
// One more pseudo command in Case.Seq (see cfg.go for the other two):
//
//   @age   Pl = seconds. That much time passes while the peer keeps the connection alive (data arrives, pings are
//          answered) and earns no new penalty; then the connection's Tick runs. Realised by moving the records
//          that far into the past (network.VerifAgePenalties - the records carry 16 bits of the time, so this is
//          what the code itself can see of elapsed time) and then: Run stream - the harness waits for the real
//          Run to tick once more; direct stream - c.Tick(now) the way Run calls it. Penalties earned later are
//          recorded at the real time, i.e. after the aged ones, as in a real history.
//
// Direct stream: points and records before / after each such Tick are compared with the Lean model of
// expire_misbehave (oracle op `x`; Model/NetParseExpire.lean, theorem expire_total).

import (
	"encoding/binary"
	"fmt"
	"strings"
	"time"

	"github.com/piotrnar/gocoin/client/network"
)

// AgeObs is what one @age step of the direct stream saw.
type AgeObs struct {
	Sec    int         `json:"sec"`
	Now    int64       `json:"now"`
	Before int         `json:"points_before"`
	Recs   [][2]uint16 `json:"records_before"`
	After  int         `json:"points_after"`
	Left   [][2]uint16 `json:"records_after"`
}

// ageStep is the direct stream's @age.
func (r *Runner) ageStep(c *network.OneConnection, sec int) {
	if c.IsBroken() {
		return // (Run's loop has ended: no Tick any more)
	}
	c.VerifAgePenalties(int64(sec))
	now := time.Now()
	c.X.LastDataGot = now // the peer kept the connection alive
	ob := AgeObs{Sec: sec, Now: now.Unix()}
	ob.Before, ob.Recs = c.VerifPenalties()
	reaches := c.X.VersionReceived // (before the version message Tick returns at once)
	c.Tick(now)
	ob.After, ob.Left = c.VerifPenalties()
	if reaches {
		r.ageObs = append(r.ageObs, ob)
	}
}

func recsString(rs [][2]uint16) string {
	if len(rs) == 0 {
		return "-"
	}
	var ss []string
	for _, r := range rs {
		ss = append(ss, fmt.Sprintf("%d:%d", r[0], r[1]))
	}
	return strings.Join(ss, ",")
}

// ageVerdict compares every @age step of the direct stream with the model of expire_misbehave.
func (h *Harness) ageVerdict(cs Case, replay map[string]interface{}) {
	r := h.r
	for i, ob := range h.rn.ageObs {
		want := h.o.MustAsk(fmt.Sprintf("x %d %d %s", ob.Now, ob.Before, recsString(ob.Recs)))
		got := fmt.Sprintf("ok %d %s", ob.After, recsString(ob.Left))
		r.Hit(fmt.Sprintf("age:records=%d->%d", minInt(len(ob.Recs), 4), minInt(len(ob.Left), 4)))
		if want != got {
			replay["age_step"] = i
			replay["age_observed"] = ob
			replay["age_model"] = want
			r.TieFail("age:expire", fmt.Sprintf("penalty records %s with %d points, %d s later: the connection's Tick left %q, the model of expire_misbehave says %q", recsString(ob.Recs), ob.Before, ob.Sec, got, want), replay)
			return
		}
		r.TieOK()
	}
}

func minInt(a, b int) int {
	if a < b {
		return a
	}
	return b
}

// penaltyMsgs: messages that earn the sender penalty points without a ban (points as in the source).
func (x *Gen) penaltyMsg(getaddrDone *bool) ([]Msg, int) {
	g := x.g
	switch g.Intn(5) {
	case 0: // a second version message
		return []Msg{{"version", H(peerVersion(1<<20 + g.Intn(1<<20)))}}, 100
	case 1: // getaddr again
		if !*getaddrDone {
			*getaddrDone = true
			return []Msg{{"getaddr", ""}, {"getaddr", ""}}, 50
		}
		return []Msg{{"getaddr", ""}}, 50
	case 2: // blocktxn for a block that is not being downloaded from this peer
		return []Msg{{"blocktxn", H(cat(g.Bytes(32), vint(uint64(g.Pick(0, 0, 1)))))}}, 100
	case 3: // an address with a time stamp hours in the future
		var rec [30]byte
		binary.LittleEndian.PutUint32(rec[0:], uint32(time.Now().Unix())+uint32(g.Pick(3700, 7200, 86400)))
		binary.LittleEndian.PutUint64(rec[4:], 0x409)
		rec[22], rec[23] = 0xff, 0xff
		copy(rec[24:28], []byte{byte(1 + g.Intn(200)), byte(g.Intn(256)), byte(g.Intn(256)), byte(1 + g.Intn(250))})
		binary.BigEndian.PutUint16(rec[28:], 8333)
		return []Msg{{"addr", H(cat(vint(1), rec[:]))}}, 50
	}
	// anything the structured generators produce for a connected peer (penalised or not)
	for tries := 0; tries < 8; tries++ {
		cs := x.Structured(Commands[g.Intn(len(Commands))])
		if cs.Pre == "" && cs.Rep == 0 && !cs.reconfigures() && cs.Cmd[0] != '@' && len(cs.Pl) < 4000 {
			return append(append([]Msg{}, cs.Seq...), Msg{cs.Cmd, cs.Pl}), 100
		}
	}
	return []Msg{{"version", H(peerVersion(1 << 20))}}, 100
}

var ageChoices = []int{1, 59, 600, 1799, 1800, 1800, 1801, 3000, 3599, 3599, 3600, 3600, 3601, 3700, 7200, 65536 - 3600, 65535, 65536, 65536 + 3599, 65536 + 3600, 90000}

// ages counts the @age steps of the case's history.
func (c Case) ages() (n int) {
	for _, m := range c.Seq {
		if m.Cmd == "@age" {
			n++
		}
	}
	return
}

// PenaltyHistory builds one history of penalties and elapsed time that ends in the given case's message:
// periods in which the peer earns 0..3 penalties (sometimes with ordinary traffic in between), each followed by
// an amount of time around the life time of a record (below / at / above one hour, around the 16-bit wrap of
// the stored time) and the connection's Tick. A history that starts before the version message earns its
// first penalties there (every command is penalised then) and goes on with the version message.
func (x *Gen) PenaltyHistory(last Case) Case {
	g := x.g
	var seq []Msg
	points, npen := 0, 0
	getaddrDone := false
	if last.has("nover") {
		// (Tick does nothing before the version message: the history continues behind it)
		for i, n := 0, g.Pick(1, 1, 2, 3); i < n; i++ {
			seq = append(seq, x.simpleMsg())
			points += 100
			npen++
		}
		if g.Chance(1, 3) {
			seq = append(seq, Msg{"@age", fmt.Sprint(ageChoices[g.Intn(len(ageChoices))])})
		}
		seq = append(seq, Msg{"version", H(peerVersion(1<<21 + g.Intn(1<<20)))}, Msg{"verack", ""})
	}
	periods := g.Pick(1, 2, 2, 3, 3, 4, 6)
	for i := 0; i < periods; i++ {
		np := g.Pick(0, 1, 1, 1, 2, 3)
		if i == 0 && npen == 0 && np == 0 && !g.Chance(1, 4) {
			np = 1
		}
		for j := 0; j < np && points < 800; j++ {
			ms, w := x.penaltyMsg(&getaddrDone)
			seq = append(seq, ms...)
			points += w
			npen++
			if g.Chance(1, 4) {
				seq = append(seq, Msg{"ping", H(g.Bytes(8))})
			}
		}
		seq = append(seq, Msg{"@age", fmt.Sprint(ageChoices[g.Intn(len(ageChoices))])})
		if g.Chance(1, 5) {
			// the next second of the same period (nothing new has expired)
			seq = append(seq, Msg{"@age", "1"})
		}
	}
	x.hit(fmt.Sprintf("age:periods=%d", periods))
	x.hit(fmt.Sprintf("age:penalising-messages=%d", minInt(npen, 6)))
	last.Seq = append(seq, last.Seq...)
	last.Note = "age"
	return last
}

// penaltyHistories: n histories; the last message is drawn from the structured generator of a random command.
func (h *Harness) penaltyHistories(gen *Gen, n int) {
	for i := 0; i < n; i++ {
		cmd := Commands[gen.g.Intn(len(Commands))]
		if gen.g.Chance(1, 2) {
			cmd = "ping"
		}
		last := gen.Structured(cmd)
		if strings.Contains(last.Pre, "fulldb") || last.slow() || last.Rep > 0 || last.has("enc") || last.has("ackgot") || last.has("dupsid") {
			continue
		}
		h.One(gen.PenaltyHistory(last))
	}
}
