package main

// slow.go — the "slow reader": a peer that keeps sending requests but does not read its socket. Every
// reply stays in the connection's send buffer (16 MB ring); when the next reply no longer fits,
// SendRawMsg has to leave through its overflow branch: ban the peer (DoS "SendBufferOverflow", which
// takes c.Mutex itself) and return with no lock held. If SendRawMsg still held c.Mutex at that point the
// handler would never return, and every walker of the connection list would then wait for this
// connection's mutex while holding Mutex_net - the whole node wedges. Two streams:
//
//   history  real message histories on one connection, the buffer never drained: a request whose reply is
//            not throttled by SendingPaused (ping of a chosen size, getheaders, getblocktxn, …) repeated
//            until the buffer is past its limit;
//   sbfill   the state such a history leaves behind (n unsent bytes, n up to the limit, ring position
//            varied) set through the exported SendBufProd / SendBufCons, then ONE message of any command -
//            so that the overflow branch is reached from every handler that replies (pong, headers, inv,
//            blocktxn, block / tx / notfound, addr, verack, getblocktxn, getheaders, authack …).
//
// The watchdog of Runner.Do (3 s for these cases) turns a handler that does not return into a property
// failure naming the locks that are held.

import (
	"fmt"

	"github.com/piotrnar/gocoin/client/network"
)

// commands whose handlers send something back
var replying = []string{"ping", "ping", "getheaders", "getblocks", "getdata", "getblocktxn", "getaddr", "version", "cmpctblock",
	"headers", "inv", "xauth", "getmp", "blocktxn", "tx", "block", "sendcmpct", "pong", "addr", "mempool"}

func (h *Harness) slowReaders(gen *Gen, nFill, nHist int) {
	g := gen.g
	e := gen.e
	// ---- well-formed requests with a reply of known shape (the structured generator lies about counts
	//      most of the time; these always reach the send path)
	loc := func() []byte {
		return cat(g.Bytes(4), vint(1), e.Hashes[g.Intn(len(e.Hashes))].Hash[:], make([]byte, 32))
	}
	wellFormed := func() Case {
		switch g.Intn(7) {
		case 0:
			return Case{Cmd: "getheaders", Pl: H(loc())}
		case 1:
			return Case{Cmd: "getblocks", Pl: H(loc())}
		case 2:
			typ := []byte{byte(g.Pick(2, 4, 1)), 0, 0, byte(g.Pick(0, 0x40))}
			return Case{Cmd: "getdata", Pl: H(cat(vint(1), typ, e.Hashes[g.Intn(len(e.Hashes))].Hash[:]))}
		case 3:
			n := 1 + g.Intn(4)
			idx := []byte{}
			for i := 0; i < n; i++ {
				idx = append(idx, 0)
			}
			return Case{Cmd: "getblocktxn", Pl: H(cat(e.Hashes[104].Hash[:], vint(uint64(n)), idx)), Pre: "cv2"}
		case 4:
			return Case{Cmd: "getaddr"}
		case 5:
			return Case{Cmd: "version", Pre: "nover", Pl: H(versionMsg(70016, 0x409, g.U64()|1, vint(3), []byte("/x/"), []byte{1, 0, 0, 0, 1}))}
		}
		return Case{Cmd: "ping", Pl: H(g.Bytes(g.Pick(0, 8, 8, 100, 1000, 1024)))}
	}
	addPre := func(c Case, f string) Case {
		if c.Pre != "" {
			c.Pre += ","
		}
		c.Pre += f
		return c
	}
	// ---- real histories (first: a failure found here is replayed from messages alone)
	for i := 0; i < nHist; i++ {
		var cs Case
		switch i % 3 {
		case 0, 2: // pings: payload length anywhere in the 1 kB limit of the command, repeated until the limit is passed
			n := 400 + g.Intn(625)
			if i%3 == 2 {
				n = g.Pick(1024, 1000, 512, 1023)
			}
			cs = Case{Cmd: "ping", Pl: H(g.Bytes(n)), Rep: network.SendBufSize/(n+24) + 1 + g.Intn(3)}
		case 1: // getheaders: every request answered with the headers after the locator
			cs = Case{Cmd: "getheaders", Pl: H(cat(g.Bytes(4), vint(1), e.Hashes[g.Intn(4)].Hash[:], make([]byte, 32)))}
			// one reply = CompactSize + 81 bytes per header up to the tip
			cs.Rep = network.SendBufSize/(24+1+81*(len(e.Hashes)-4)) + 2
		}
		cs.Pre = "slow"
		cs.Note = "slow-history"
		h.r.Hit("slow:history:" + cs.Cmd)
		h.One(cs)
	}
	// ---- getdata while an earlier getdata is still postponed (send buffer over half full when it came): the new
	//      entries are appended to the pending ones, up to 50000 entries in all; one more is a ban (GetDataTooBigA).
	//      Totals at, just under and just over that limit; a count that lies; an undecodable count.
	ent := func(k int) []byte {
		b := make([]byte, 36*k)
		for i := 0; i < k; i++ {
			b[36*i] = byte(g.Pick(1, 2, 7))
			b[36*i+3] = 0x40
			copy(b[36*i+4:], g.Bytes(8))
		}
		return b
	}
	for i := 0; i < nHist+6; i++ {
		k1 := g.Pick(1, 7, 100, 25000, 49999, 50000)
		k2 := 0
		switch i % 6 {
		case 0: // one entry under the limit in all
			k2 = 50000 - k1 - 1
		case 1: // exactly the limit
			k2 = 50000 - k1
		case 2: // one over
			k2 = 50000 - k1 + 1
		case 3: // a short request behind a short one
			k1, k2 = g.Pick(1, 7, 100), 1+g.Intn(20)
		case 4:
			k2 = g.Pick(0, 1, 2, 50000)
		case 5: // far over
			k2 = 50000
		}
		if k2 < 0 {
			k2 = 0
		}
		second := cat(vint(uint64(k2)), ent(k2))
		switch g.Intn(8) {
		case 0:
			second = cat(vint(uint64(k2+1)), ent(k2)) // the count lies
		case 1:
			second = []byte{0xfd} // no count
		}
		fill := network.SendBufSize/2 + 1 + g.Intn(network.SendBufSize/4)
		cs := Case{Cmd: "getdata", Pl: H(second), Pre: fmt.Sprintf("sbfill=%d", fill), Note: "slow-getdata-pending",
			Seq: []Msg{{"getdata", H(cat(vint(uint64(k1)), ent(k1)))}}}
		h.r.Hit(fmt.Sprintf("slow:getdata-pending:%s", []string{"under", "at", "over"}[sign(k1+k2-50000)+1]))
		h.One(cs)
	}
	// ---- the state such histories leave behind, then one message of any command
	for i := 0; i < nFill; i++ {
		var cs Case
		switch g.Intn(3) {
		case 0:
			cs = gen.Structured(replying[g.Intn(len(replying))])
			cs.Seq = nil
		case 1:
			cs = wellFormed()
		default:
			cs = Case{Cmd: "ping", Pl: H(g.Bytes(g.Intn(1025)))}
		}
		cs.Note = "slow-fill"
		// room left in the buffer: around the size of the reply (header 24 + payload), or anywhere
		room := 0
		switch g.Intn(6) {
		case 0:
			room = g.Pick(1, 2, 23, 24, 25, 26, 32, 48, 49)
		case 1, 2:
			room = len(cs.payload()) + 24 + g.Pick(-2, -1, 0, 1, 2) // pong = ping
		case 3:
			room = 24 + g.Intn(1100)
		case 4:
			room = 1 + g.Intn(200000) // headers / block / blocktxn replies
		default:
			room = 1 + g.Intn(network.SendBufSize/2+100000) // around the SendingPaused threshold as well
		}
		if room < 1 {
			room = 1
		}
		if room > network.SendBufSize {
			room = network.SendBufSize
		}
		cs = addPre(cs, fmt.Sprintf("sbfill=%d", network.SendBufSize-room))
		h.r.Hit("slow:room=" + roomClass(room))
		h.One(cs)
	}
}

func roomClass(n int) string {
	switch {
	case n <= 24:
		return "<=24"
	case n <= 1100:
		return "25-1100"
	case n <= 200000:
		return "1k-200k"
	}
	return ">200k"
}

func sign(n int) int {
	switch {
	case n < 0:
		return -1
	case n > 0:
		return 1
	}
	return 0
}
