package main

// gen.go — generators: structured mostly-valid payloads whose counts / lengths are then made to
// disagree with the bytes that follow, every CompactSize form, counts chosen so that 36·cnt / 32·cnt /
// 30·cnt wrap modulo 2^64, every command before and after the version handshake, and a mutated stream.

import (
	"bytes"
	"encoding/binary"
	"fmt"

	"github.com/piotrnar/gocoin/client/common"
	"github.com/piotrnar/gocoin/lib/btc"
	"verif/vlib"
)

type Gen struct {
	e *Env
	g *vlib.Rng
	r *vlib.Run
}

// hit counts a generator choice in the evidence histogram (no run object in the child processes).
func (x *Gen) hit(kind string) {
	if x.r != nil {
		x.r.Hit(kind)
	}
}

// count encodes a count field: the true number n of following elements, or a lie about it.
func (x *Gen) count(n int, elem uint64) []byte {
	g := x.g
	switch g.Intn(12) {
	case 0:
		x.hit("count:nonminimal")
		return vintForm(uint64(n), g.Pick(3, 5, 9))
	case 1:
		x.hit("count:plus1")
		return vint(uint64(n + 1))
	case 2:
		x.hit("count:minus1")
		if n > 0 {
			return vint(uint64(n - 1))
		}
		return vint(1)
	case 3:
		x.hit("count:wrap")
		if c := wrapCount(elem, uint64(n)*elem); c != 0 && c != uint64(n) {
			return vintForm(c+uint64(g.Intn(2))<<uint(64-bitsOf(elem)), 9)
		}
		return vintForm(uint64(n)|1<<62, 9)
	case 4:
		x.hit("count:wrap-any")
		return vintForm(wrapCount(elem, uint64(n)*elem+uint64(g.Intn(3))*4), 9)
	case 5:
		x.hit("count:huge")
		return vintForm(g.U64()|1<<uint(40+g.Intn(24)), 9)
	case 6:
		x.hit("count:truncated")
		return []byte{byte(0xfd + g.Intn(3))}
	default:
		x.hit("count:true")
		return vint(uint64(n))
	}
}

func bitsOf(k uint64) int { // number of trailing zero bits of k
	n := 0
	for k%2 == 0 {
		k /= 2
		n++
	}
	return n
}

func (x *Gen) hash() []byte {
	g := x.g
	switch g.Intn(4) {
	case 0:
		return g.Bytes(32)
	case 1:
		return append([]byte{}, x.e.Hashes[104].Hash[:]...)
	default:
		return append([]byte{}, x.e.Hashes[g.Intn(len(x.e.Hashes))].Hash[:]...)
	}
}

func (x *Gen) invEntries(n int) []byte {
	var b []byte
	for i := 0; i < n; i++ {
		typ := uint32(x.g.Pick(1, 2, 4, 0x40000001, 0x40000002, 3, 0))
		if x.g.Chance(1, 10) {
			typ = uint32(x.g.U64())
		}
		var t [4]byte
		binary.LittleEndian.PutUint32(t[:], typ)
		b = append(b, t[:]...)
		b = append(b, x.hash()...)
	}
	return b
}

// Structured produces one case for the command.
func (x *Gen) Structured(cmd string) Case {
	g := x.g
	e := x.e
	pre := ""
	var pl []byte
	switch cmd {
	case "version":
		pre = "nover"
		agent := []byte("/Satoshi:27.0.0/")[:g.Intn(17)]
		var al []byte
		switch g.Intn(8) {
		case 0:
			al = vintForm(uint64(len(agent)), g.Pick(3, 5, 9))
		case 1:
			al = vint(uint64(len(agent) + 1 + g.Intn(3)))
		case 2:
			al = vintForm(uint64(1)<<63+uint64(g.Intn(100)), 9)
		case 3:
			al = vintForm(uint64(1)<<63-uint64(g.Intn(200)), 9)
		case 4:
			al = vintForm(^uint64(0)-uint64(g.Intn(200)), 9)
		default:
			al = vint(uint64(len(agent)))
		}
		tail := []byte{100, 0, 0, 0, byte(g.Intn(2))}[:g.Intn(6)]
		ver := uint32(g.Pick(70016, 70015, 60002, 209, 208, 0))
		svc := uint64(g.Pick(0x409, 0x9, 0x408, 1, 8, 0))
		nonce := g.U64()
		if g.Chance(1, 12) {
			nonce = 0
		}
		pl = versionMsg(ver, svc, nonce, al, agent, tail)
		if g.Chance(1, 6) {
			pl = pl[:g.Intn(len(pl)+1)]
		}
	case "inv", "getdata", "notfound":
		n := g.Pick(0, 1, 1, 2, 3, 7, 40)
		if g.Chance(1, 40) {
			n = 600
		}
		if cmd == "inv" && g.Chance(1, 2) {
			pre = "ahr"
		}
		pl = cat(x.count(n, 36), x.invEntries(n))
		if g.Chance(1, 8) {
			pl = append(pl, g.Bytes(g.Pick(1, 4, 35, 36))...)
		}
	case "addr":
		n := g.Pick(0, 1, 2, 5, 30)
		var recs []byte
		for i := 0; i < n; i++ {
			rec := make([]byte, 30)
			binary.LittleEndian.PutUint32(rec[0:4], uint32(1700000000+g.Intn(1<<28)))
			binary.LittleEndian.PutUint64(rec[4:12], uint64(g.Pick(0x409, 1, 8)))
			rec[22], rec[23] = 0xff, 0xff
			copy(rec[24:28], g.Bytes(4))
			rec[28], rec[29] = 0x20, 0x8d
			recs = append(recs, rec...)
		}
		pl = cat(x.count(n, 30), recs)
		if g.Chance(1, 6) && len(pl) > 0 {
			pl = pl[:g.Intn(len(pl))]
		}
	case "getblocks", "getheaders":
		n := g.Pick(0, 1, 2, 10, 100, 101, 102, 105)
		var hs []byte
		for i := 0; i < n; i++ {
			hs = append(hs, x.hash()...)
		}
		stop := make([]byte, 32)
		if g.Chance(1, 3) {
			stop = x.hash()
		}
		stop = stop[:g.Pick(32, 32, 32, 0, 31, 1)]
		pl = cat(g.Bytes(4), x.count(n, 32), hs, stop)
		if g.Chance(1, 8) {
			pl = pl[:g.Intn(len(pl)+1)]
		}
	case "headers":
		n := g.Pick(0, 1, 2, 3, 10)
		var hs []byte
		for i := 0; i < n; i++ {
			var h []byte
			switch g.Intn(5) {
			case 0:
				h = g.Bytes(80)
			case 1:
				if sp := e.NextSpare(); sp != nil {
					h = sp[:80]
				} else {
					h = e.Blocks[g.Intn(len(e.Blocks))][:80]
				}
			default:
				h = e.Blocks[g.Intn(len(e.Blocks))][:80]
			}
			hs = append(hs, h...)
			if !g.Chance(1, 10) {
				hs = append(hs, vint(uint64(g.Pick(0, 0, 0, 1, 300)))...)
			}
		}
		pl = cat(x.count(n, 81), hs)
		if g.Chance(1, 6) && len(pl) > 0 {
			pl = pl[:g.Intn(len(pl))]
		}
	case "tx":
		txs := blockTxs(e.Blocks[104])
		pl = append([]byte{}, txs[g.Intn(len(txs))]...)
		switch g.Intn(6) {
		case 0:
			pl = pl[:g.Intn(len(pl))]
		case 1:
			pl = append(pl, g.Bytes(1+g.Intn(4))...)
		case 2:
			pl[g.Intn(len(pl))] ^= byte(1 << uint(g.Intn(8)))
		case 3:
			pl = g.Bytes(g.Intn(120))
		}
	case "block":
		switch g.Intn(5) {
		case 0:
			pl = g.Bytes(g.Pick(0, 50, 99, 100, 300))
		case 1:
			pl = append([]byte{}, e.Blocks[g.Intn(len(e.Blocks))]...)
		case 2:
			pl = append([]byte{}, e.Blocks[104]...)
			pl = pl[:80+g.Intn(len(pl)-80)]
		default:
			// an unseen valid header followed by a damaged body
			if sp := e.NextSpare(); sp != nil {
				pl = append([]byte{}, sp...)
				if len(pl) > 100 {
					switch g.Intn(3) {
					case 0:
						pl[81+g.Intn(len(pl)-81)] ^= 0x10
					case 1:
						pl = pl[:100+g.Intn(len(pl)-100)]
					case 2:
						pl = append(pl[:80], cat(x.count(1, 60), pl[81:])...)
					}
				}
			} else {
				pl = g.Bytes(150)
			}
		}
	case "getblocktxn":
		h := x.hash()
		n := g.Pick(1, 1, 2, 3, 5, 6)
		var idx []byte
		for i := 0; i < n; i++ {
			switch g.Intn(8) {
			case 0:
				idx = append(idx, vintForm(uint64(1)<<63+uint64(g.Intn(8)), 9)...)
			case 1:
				idx = append(idx, vintForm(^uint64(0)-uint64(g.Intn(8)), 9)...)
			case 2:
				idx = append(idx, vintForm(uint64(g.Intn(3)), g.Pick(3, 5, 9))...)
			default:
				idx = append(idx, vint(uint64(g.Pick(0, 0, 1, 2, 4, 5)))...)
			}
		}
		pl = cat(h, x.count(n, 1), idx)
		if g.Chance(1, 8) {
			pl = pl[:g.Intn(len(pl)+1)]
		}
		if g.Chance(1, 2) {
			pre = "cv2"
		}
	case "cmpctblock":
		pre = "cv2"
		if g.Chance(1, 5) {
			pre = ""
		}
		var hdr []byte
		switch g.Intn(6) {
		case 0:
			hdr = g.Bytes(80)
		case 1:
			hdr = e.Blocks[g.Intn(len(e.Blocks))][:80]
		default:
			hdr = x.freshHeader()
		}
		ns := g.Pick(0, 1, 2, 5)
		var sids [][]byte
		for i := 0; i < ns; i++ {
			s := g.Bytes(6)
			if i > 0 && g.Chance(1, 12) {
				s = sids[0]
			}
			sids = append(sids, s)
		}
		np := g.Pick(0, 1, 1, 2, 3)
		txs := blockTxs(e.Blocks[104])
		var pf []prefilled
		for i := 0; i < np; i++ {
			d := vint(uint64(g.Pick(0, 0, 0, 1, 2, 5)))
			if g.Chance(1, 10) {
				d = vintForm(uint64(g.Pick(0, 1, 0xffff, 0x10000)), g.Pick(3, 5, 9))
			}
			tx := txs[g.Intn(len(txs))]
			if g.Chance(1, 8) {
				tx = tx[:g.Intn(len(tx))]
			}
			pf = append(pf, prefilled{d, tx})
		}
		pl = cmpctMsg(hdr, g.U64(), x.countSmall(ns), sids, x.countSmall(np), pf)
		if g.Chance(1, 8) {
			pl = pl[:g.Intn(len(pl)+1)]
		}
	case "blocktxn":
		pre = "cv2"
		hdr := x.freshHeader()
		hash := btc.NewSha2Hash(hdr[:80])
		txs := blockTxs(e.Blocks[104])
		nonce := g.U64()
		// the compact block leaves k transactions unresolved (k short ids the mempool does not know), the
		// coinbase - and sometimes one more transaction - prefilled; the collector then waits for k
		// transactions in a blocktxn message
		pool := append([][]byte{}, txs[1:]...)
		for i := len(pool) - 1; i > 0; i-- {
			j := g.Intn(i + 1)
			pool[i], pool[j] = pool[j], pool[i]
		}
		k := g.Pick(1, 1, 2, 2, 3, 3, 4)
		if k > len(pool) {
			k = len(pool)
		}
		want := pool[:k]
		var sids [][]byte
		for _, t := range want {
			var th btc.Uint256
			th.Calc(t)
			sids = append(sids, shortID(hdr, nonce, th.Hash[:]))
		}
		pf := []prefilled{{vint(0), txs[0]}}
		if k < len(pool) && g.Chance(1, 3) {
			// a second prefilled transaction somewhere among the short ids (differential index)
			pf = append(pf, prefilled{vint(uint64(g.Intn(k + 1))), pool[k]})
		}
		cm := cmpctMsg(hdr, nonce, vint(uint64(k)), sids, vint(uint64(len(pf))), pf)
		// what the peer supplies
		sup := append([][]byte{}, want...)
		shape := g.Intn(12)
		switch shape {
		case 0: // nothing
			sup = nil
		case 1: // the last one cut short
			t := sup[len(sup)-1]
			sup[len(sup)-1] = t[:g.Intn(len(t))]
		case 2: // one missing
			i := g.Intn(len(sup))
			sup = append(sup[:i:i], sup[i+1:]...)
		case 3: // the right number, but one of them REPEATED in the place of another
			if k >= 2 {
				i := g.Intn(k)
				j := (i + 1 + g.Intn(k-1)) % k
				sup[j] = sup[i]
			} else {
				sup = append(sup, sup[0])
			}
		case 4: // all k the same transaction
			for i := range sup {
				sup[i] = want[0]
			}
		case 5: // complete, plus a repeat
			sup = append(sup, sup[g.Intn(len(sup))])
		case 6: // a transaction the compact block did not ask for, somewhere
			other := txs[0]
			if k < len(pool) {
				other = pool[len(pool)-1]
			}
			i := g.Intn(len(sup) + 1)
			sup = append(sup[:i:i], append([][]byte{other}, sup[i:]...)...)
		case 7: // reversed order
			for i, j := 0, len(sup)-1; i < j; i, j = i+1, j-1 {
				sup[i], sup[j] = sup[j], sup[i]
			}
		default: // exactly what was asked for
		}
		x.hit(fmt.Sprintf("blocktxn:missing=%d", k))
		x.hit("blocktxn:supplied=" + []string{"nothing", "last-cut", "one-missing", "one-repeated-for-another", "all-the-same", "complete+repeat",
			"unrequested-tx", "reversed", "exact", "exact", "exact", "exact"}[shape])
		pl = cat(hash.Hash[:], x.countSmall(len(sup)), cat(sup...))
		if g.Chance(1, 12) {
			pl = pl[:g.Intn(len(pl)+1)]
		}
		c := Case{Cmd: cmd, Pl: H(pl), Pre: pre, Note: "gen", Seq: []Msg{{"cmpctblock", H(cm)}}}
		if g.Chance(1, 8) {
			c.Seq = nil
		}
		return c
	case "feefilter", "sendcmpct", "ping", "pong", "xauth", "getmp", "getmpdone", "getaddr", "sendheaders", "mempool", "filterload", "foo", "authack":
		n := g.Pick(0, 1, 5, 7, 8, 9, 32, 33, 34, 70, 105, 1024)
		pl = g.Bytes(n)
		if cmd == "xauth" && g.Chance(1, 2) && n >= 33 {
			copy(pl, common.PublicKeyBin)
			if g.Chance(1, 2) && n >= 41 {
				copy(pl[33:], []byte{0x30, 6, 2, 1, 1, 2, 1, 1})
			}
		}
		if cmd == "getmp" {
			k := g.Pick(0, 1, 3, 100)
			pl = cat(x.count(k, 8), g.Bytes(8*k))
			if g.Chance(1, 3) {
				pl = pl[:g.Intn(len(pl)+1)]
			}
			pl = capHugeCount(pl)
			pre = "auth"
			if g.Chance(1, 4) {
				pre = ""
			}
		}
	}
	if cmd == "authack" {
		// unsigned (in clear, or encrypted by a key nobody trusts) / signed; payload 0, 1, n bytes
		pl = g.Bytes(g.Pick(0, 0, 1, 1, 1, 2, 9, 1024))
		if len(pl) > 0 && g.Chance(1, 2) {
			pl[0] = byte(g.Intn(2))
		}
		pre = []string{"", "", "enc", "trusted", "trusted"}[g.Intn(5)]
	}
	if pre != "nover" && cmd != "version" && g.Chance(1, 25) {
		pre = "nover"
	}
	if pre != "nover" && cmd != "authack" && cmd != "xauth" && g.Chance(1, 16) {
		// the same message through the encrypted channel of a real xauth key exchange (Run stream) -
		// from a peer whose key is authorised (BCmsg.trusted = true) or from a stranger
		add := "trusted"
		if g.Chance(1, 3) {
			add = "enc"
		}
		if pre == "" {
			pre = add
		} else {
			pre += "," + add
		}
		x.hit("gen:" + add)
	}
	return Case{Cmd: cmd, Pl: H(pl), Pre: pre, Note: "gen"}
}

// capHugeCount keeps a getmp count below 2^24 or above 2^62: ProcessGetMP passes the count as a size
// hint to make(map) — see the explanation in the evidence (an authorised peer only).
func capHugeCount(pl []byte) []byte {
	v, n := btc.VULe(pl)
	if n > 0 && v > 1<<24 && v < 1<<62 {
		return cat(vintForm(v|1<<62, 9), pl[n:])
	}
	return pl
}

func (x *Gen) countSmall(n int) []byte {
	g := x.g
	switch g.Intn(10) {
	case 0:
		return vintForm(uint64(n), g.Pick(3, 5, 9))
	case 1:
		return vint(uint64(n + 1))
	case 2:
		return vintForm(uint64(g.Pick(0xfffe, 0xffff, 0x10000, 1<<31)), g.Pick(3, 5, 5, 9))
	default:
		return vint(uint64(n))
	}
}

// freshHeader returns a header ProcessNewHeader accepts: one still waiting in BlocksToGet, else an unseen one.
func (x *Gen) freshHeader() []byte {
	if h := pendingHeader(x.g); h != nil && x.g.Chance(3, 4) {
		return h
	}
	if sp := x.e.NextSpare(); sp != nil {
		return sp[:80]
	}
	if h := pendingHeader(x.g); h != nil {
		return h
	}
	return x.g.Bytes(80)
}

var Commands = []string{"version", "inv", "getdata", "notfound", "addr", "getblocks", "getheaders", "headers", "tx", "block",
	"getblocktxn", "cmpctblock", "blocktxn", "feefilter", "sendcmpct", "ping", "pong", "xauth", "getmp", "getmpdone", "getaddr",
	"sendheaders", "filterload", "foo", "authack"}

// Mutate damages a payload.
func (x *Gen) Mutate(c Case) Case {
	g := x.g
	pl := c.payload()
	for k := 1 + g.Intn(3); k > 0; k-- {
		switch g.Intn(5) {
		case 0:
			if len(pl) > 0 {
				pl = pl[:g.Intn(len(pl))]
			}
		case 1:
			pl = append(pl, g.Bytes(1+g.Intn(40))...)
		case 2:
			if len(pl) > 0 {
				pl[g.Intn(len(pl))] = byte(g.Pick(0, 1, 0xfc, 0xfd, 0xfe, 0xff, 0x80))
			}
		case 3:
			if len(pl) > 0 {
				i := g.Intn(len(pl))
				pl = cat(pl[:i], vintForm(g.U64()>>uint(g.Intn(64)), g.Pick(1, 3, 5, 9)), pl[i:])
			}
		case 4:
			if len(pl) > 9 {
				i := g.Intn(len(pl) - 9)
				copy(pl[i:], vintForm(uint64(1)<<uint(55+g.Intn(9))+uint64(g.Intn(100)), 9))
			}
		}
	}
	if c.Cmd == "getmp" {
		pl = capHugeCount(pl)
	}
	c.Pl = H(pl)
	c.Note = "mut"
	return c
}

// Wire produces raw bytes for FetchMessage.
func (x *Gen) Wire() Case {
	g := x.g
	cmd := Commands[g.Intn(len(Commands))]
	n := g.Pick(0, 1, 8, 36, 100, 1024, 1025)
	pl := g.Bytes(n)
	lf := uint32(n)
	switch g.Intn(8) {
	case 0:
		lf |= 0x80000000
	case 1:
		lf = uint32(n + 1 + g.Intn(10))
	case 2:
		lf = uint32(g.Pick(1025, 1<<20, 1<<31-1, 1800010, 4000001))
	case 3:
		if n > 0 {
			lf = uint32(g.Intn(n))
		}
	}
	w := wire(cmd, pl, lf)
	switch g.Intn(10) {
	case 0:
		w[g.Intn(4)] ^= 1
	case 1:
		w[20+g.Intn(4)] ^= 1
	case 2:
		w = w[:g.Intn(len(w)+1)]
	case 3:
		w = cat(w, wire("ping", g.Bytes(8), 8))
	}
	pre := ""
	if g.Chance(1, 2) {
		pre = "nover"
	}
	return Case{Cmd: "@wire", Pl: H(w), Pre: pre, Note: "wire"}
}

var _ = bytes.Equal
