package main

// fulldb.go — the addr / getaddr handlers against a peers database that holds its maximum number of
// records (peersdb.MaxPeersInDB+MaxPeersDeviation = the state of a long-running node between two
// expiry rounds). ParseAddr has a path of its own for this state ("new address, database full") that
// the ordinary cases (a nearly empty temp-dir database) never reach. The database is a volatile
// (memory only) qdb filled through the public API; every case first brings the record count to exactly
// limit, limit-1 or limit+1 (Pre flag fulldb / fulldb-1 / fulldb+1), so a stored case replays alone.

import (
	"encoding/binary"
	"time"

	"github.com/piotrnar/gocoin/client/common"
	"verif/vlib"
)

func addrRec(t uint32, svc uint64, ip [4]byte, port uint16) []byte {
	rec := make([]byte, 30)
	binary.LittleEndian.PutUint32(rec[0:4], t)
	binary.LittleEndian.PutUint64(rec[4:12], svc)
	rec[22], rec[23] = 0xff, 0xff
	copy(rec[24:28], ip[:])
	binary.BigEndian.PutUint16(rec[28:30], port)
	return rec
}

type addrGen struct {
	g   *vlib.Rng
	seq uint32
}

// entry kinds: new (routable, SEGWIT service bit, fresh, never seen), known (a filler record of the
// full database), stale, future, far-future (penalised), no-segwit, unroutable
func (a *addrGen) entry(kind string) []byte {
	now := uint32(time.Now().Unix())
	a.seq++
	ip := [4]byte{46, byte(a.seq >> 16), byte(a.seq >> 8), byte(a.seq)}
	switch kind {
	case "new":
		return addrRec(now-uint32(a.g.Intn(3000)), 0x409, ip, 8333)
	case "known":
		k := uint32(1 + a.g.Intn(60000))
		return addrRec(now-uint32(a.g.Intn(500)), 0x409, [4]byte{100, byte(k >> 16), byte(k >> 8), byte(k)}, 8333)
	case "stale":
		return addrRec(now-25*3600-uint32(a.g.Intn(100000)), 0x409, ip, 8333)
	case "future":
		return addrRec(now+600+uint32(a.g.Intn(1800)), 0x409, ip, 8333)
	case "far-future":
		return addrRec(now+4000+uint32(a.g.Intn(100000)), 0x409, ip, 8333)
	case "no-segwit":
		return addrRec(now-60, 1, ip, 8333)
	default: // unroutable
		return addrRec(now-60, 0x409, [4]byte{10, byte(a.seq >> 16), byte(a.seq >> 8), byte(a.seq)}, 8333)
	}
}

func (a *addrGen) msg(kinds ...string) []byte {
	pl := vint(uint64(len(kinds)))
	for _, k := range kinds {
		pl = append(pl, a.entry(k)...)
	}
	return pl
}

// fullDB runs the fixed edge cases and n generated ones.
func (h *Harness) fullDB(gen *Gen, n int) {
	a := &addrGen{g: gen.g}
	counter := func(name string) uint64 {
		if !common.CounterMutex.TryLock() {
			return 0
		}
		defer common.CounterMutex.Unlock()
		return common.Counter[name]
	}
	one := func(note, cmd, pre string, pl []byte, seq ...Msg) {
		h.r.Hit("fulldb:" + pre)
		no, yes, upd := counter("AddrNewNO"), counter("AddrNewYES"), counter("AddrUpdated")
		h.One(Case{Cmd: cmd, Pl: H(pl), Pre: pre, Note: "fulldb:" + note, Seq: seq})
		// which of ParseAddr's database paths the real code took (its own counters)
		if counter("AddrNewNO") > no {
			h.r.Hit("fulldb:reached:new-address-refused-db-full")
		}
		if counter("AddrNewYES") > yes {
			h.r.Hit("fulldb:reached:new-address-taken")
		}
		if counter("AddrUpdated") > upd {
			h.r.Hit("fulldb:reached:known-address-updated")
		}
	}
	one("1new", "addr", "fulldb", a.msg("new"))
	one("2new", "addr", "fulldb", a.msg("new", "new"))
	one("cross-limit", "addr", "fulldb-1", a.msg("new", "new", "new"))
	one("above-limit", "addr", "fulldb+1", a.msg("new"))
	one("known", "addr", "fulldb", a.msg("known"))
	one("new-known-new", "addr", "fulldb", a.msg("new", "known", "new"))
	one("stale-future", "addr", "fulldb", a.msg("stale", "future", "new", "far-future", "new"))
	one("filtered", "addr", "fulldb", a.msg("no-segwit", "unroutable", "new"))
	one("truncated", "addr", "fulldb", a.msg("new", "new")[:40])
	one("getaddr", "getaddr", "fulldb", nil)
	var flood []Msg
	for i := 0; i < 9; i++ {
		flood = append(flood, Msg{"addr", H(a.msg("new", "new", "new", "new", "new", "new", "new", "new", "new", "new", "new", "new"))})
	}
	one("flood", "addr", "fulldb-1", a.msg("new", "new"), flood...)

	kinds := []string{"new", "new", "new", "new", "known", "stale", "future", "far-future", "no-segwit", "unroutable"}
	for i := 0; i < n; i++ {
		k := gen.g.Pick(1, 1, 2, 2, 3, 8, 40)
		var recs []byte
		for j := 0; j < k; j++ {
			recs = append(recs, a.entry(kinds[gen.g.Intn(len(kinds))])...)
		}
		pl := cat(gen.count(k, 30), recs)
		if gen.g.Chance(1, 10) && len(pl) > 0 {
			pl = pl[:gen.g.Intn(len(pl))]
		}
		pre := []string{"fulldb", "fulldb", "fulldb-1", "fulldb+1"}[gen.g.Intn(4)]
		cmd := "addr"
		if gen.g.Chance(1, 40) {
			cmd, pl = "getaddr", nil
		}
		one("gen", cmd, pre, pl)
	}
}
