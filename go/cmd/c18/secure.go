package main

// secure.go — the peer's side of gocoin's xauth key exchange, so that the Run stream can talk to the
// node through the AES-GCM channel for real ("enc": a peer nobody trusts; "trusted": a peer whose
// public key is in network.AuthPubkeys and which signs the node's nonce - the only way a message gets
// BCmsg.trusted = true).

import (
	"crypto/aes"
	"crypto/cipher"
	"encoding/binary"
	"time"

	"github.com/piotrnar/gocoin/client/common"
	"github.com/piotrnar/gocoin/client/network"
	"github.com/piotrnar/gocoin/lib/btc"
	"github.com/piotrnar/gocoin/lib/secp256k1"
)

type secureChan struct {
	aead cipher.AEAD
	seq  uint64
}

var (
	friendPriv   = append(make([]byte, 31), 0x2a) // in AuthPubkeys
	strangerPriv = append(make([]byte, 31), 0x2b) // not in AuthPubkeys
	friendAdded  bool
)

// frame frames (cmd, pl); through the channel when there is one (nil receiver: in clear).
func (sc *secureChan) frame(cmd string, pl []byte) []byte {
	if sc == nil {
		return frameOf(cmd, pl)
	}
	ns := sc.aead.NonceSize()
	nonce := make([]byte, ns)
	sc.seq++
	binary.LittleEndian.PutUint64(nonce, sc.seq)
	ct := sc.aead.Seal(nonce, nonce, pl, nil)
	return wire(cmd, ct, uint32(len(ct))|0x80000000)
}

func (sc *secureChan) open(ct []byte) ([]byte, error) {
	ns := sc.aead.NonceSize()
	if len(ct) < ns {
		return nil, errShort
	}
	return sc.aead.Open(nil, ct[:ns], ct[ns:], nil)
}

type strErr string

func (e strErr) Error() string { return string(e) }

const errShort = strErr("short")

// keyExchange sends xauth (after the version handshake) and derives the shared key. It returns nil and
// a reason when the connection did not reach the asked state.
func (s *session) keyExchange(trusted bool, limit time.Duration) (*secureChan, string) {
	priv := strangerPriv
	if trusted {
		priv = friendPriv
		if !friendAdded {
			network.FriendsAccess.Lock()
			network.AuthPubkeys = append(network.AuthPubkeys, btc.PublicFromPrivate(friendPriv, true))
			network.FriendsAccess.Unlock()
			friendAdded = true
		}
	}
	ver := s.p.find("version")
	if ver == nil || len(ver.Pl) < 80 {
		return nil, "the node's version message was not received"
	}
	var h32 [32]byte
	copy(h32[:8], ver.Pl[72:80])
	r, sg, err := btc.EcdsaSign(priv, h32[:])
	if err != nil {
		return nil, "sign: " + err.Error()
	}
	var sig secp256k1.Signature
	sig.R.Set(r)
	sig.S.Set(sg)
	pub := btc.PublicFromPrivate(priv, true)
	common.Last.Mutex.Lock()
	lb := common.Last.Block
	common.Last.Mutex.Unlock()
	var hb [4]byte
	binary.LittleEndian.PutUint32(hb[:], lb.Height)
	xa := cat(pub, sig.Bytes(), lb.BlockHash.Hash[:], hb[:])

	var shared [33]byte
	if !secp256k1.Multiply(common.PublicKeyBin, priv, shared[:]) {
		return nil, "ECDH failed"
	}
	var key [32]byte
	btc.ShaHash(shared[:], key[:])
	blk, err := aes.NewCipher(key[:])
	if err != nil {
		return nil, err.Error()
	}
	aead, err := cipher.NewGCM(blk)
	if err != nil {
		return nil, err.Error()
	}
	sc := &secureChan{aead: aead}
	if !s.deliver(frameOf("xauth", xa), limit) || !s.settle(limit) {
		return nil, "xauth was not taken"
	}
	if trusted {
		s.c.Mutex.Lock()
		au := s.c.X.Authorized
		s.c.Mutex.Unlock()
		if !au {
			return nil, "xauth of a listed key was not accepted"
		}
		// the node answers with an encrypted authack: the channel works in both directions
		ms, enc := s.p.msgs()
		got := false
		for i, m := range ms {
			if m.Cmd == "authack" && enc[i] {
				if _, err := sc.open(m.Pl); err == nil {
					got = true
				}
			}
		}
		if !got {
			return nil, "no decryptable authack from the node"
		}
	}
	return sc, ""
}

var _ = time.Now
