package main

import (
	"os"
	"runtime/pprof"
)

func init() {
	if p := os.Getenv("C18_CPUPROF"); p != "" {
		f, _ := os.Create(p)
		pprof.StartCPUProfile(f)
		profStop = func() { pprof.StopCPUProfile(); f.Close() }
	}
}

var profStop = func() {}
