package main

// lib.go — the library entry points named by the property, on arbitrary and on damaged-valid bytes:
// a panic that escapes the function, or unbounded time, is a property failure.

import (
	"fmt"
	"time"

	"github.com/piotrnar/gocoin/lib/btc"
	"github.com/piotrnar/gocoin/lib/script"
	"github.com/piotrnar/gocoin/lib/secp256k1"
	"verif/vlib"
)

type LibCase struct {
	Fn string `json:"fn"`
	In string `json:"in"` // hex
	A  string `json:"a,omitempty"`
}

var libFns = []string{"NewTx", "TxSize", "NewBlock", "BuildTxList", "GetOpcode", "VerifyTxScript", "Signature.ParseBytes",
	"XY.ParsePubkey", "XY.ParseXOnlyPubkey", "NewSignature", "NewPublicKey", "EcdsaVerify", "SchnorrVerify", "NewAddrFromString",
	"NewAddrFromPkScript", "IsPushOnly", "GetSigOpCount", "GetP2SHSigOpCount", "IsWitnessProgram", "CheckPayToContract"}

func libCall(c LibCase) {
	in := vlib.UnHex(c.In)
	a := vlib.UnHex(c.A)
	switch c.Fn {
	case "NewTx":
		btc.NewTx(in)
	case "TxSize":
		n := btc.TxSize(in)
		if n < 0 || n > len(in) {
			panic(fmt.Sprint("TxSize returned ", n, " for ", len(in), " bytes"))
		}
	case "NewBlock":
		btc.NewBlock(in)
	case "BuildTxList":
		if bl, e := btc.NewBlock(in); e == nil && bl != nil {
			bl.BuildTxList()
		}
	case "blockhead":
		// trusted.go headTie: what netBlockReceived + chain.PostCheckBlock do with the bytes of a `block` message for a
		// pending TRUSTED block (block object made from the header, Raw assigned, transaction list, merkle root)
		if len(in) >= 81 {
			if bl, e := btc.NewBlock(in[:80]); e == nil && bl != nil {
				bl.Raw = in
				if bl.BuildTxListExt(false) == nil {
					bl.Trusted.Set()
					bl.GetMerkle()
				}
			}
		}
	case "GetOpcode":
		b := in
		for i := 0; i < len(in)+2 && len(b) > 0; i++ {
			_, _, n, e := btc.GetOpcode(b)
			if e != nil || n <= 0 || n > len(b) {
				break
			}
			b = b[n:]
		}
	case "VerifyTxScript":
		tx := &btc.Tx{Version: 2, TxIn: []*btc.TxIn{{ScriptSig: a, Sequence: 0xffffffff}}, TxOut: []*btc.TxOut{{Value: 1, Pk_script: []byte{0x51}}}}
		tx.AllocVerVars()
		tx.Spent_outputs = []*btc.TxOut{{Value: 1000, Pk_script: in}}
		if len(a) > 0 && a[0]&1 == 1 { // odd first byte: use the bytes as a two-item witness instead of a scriptSig
			tx.TxIn[0].ScriptSig = nil
			tx.SegWit = [][][]byte{{a[:len(a)/2], a[len(a)/2:]}}
		}
		raw := tx.Serialize()
		tx.SetHash(raw)
		script.VerifyTxScript(in, &script.SigChecker{Tx: tx, Idx: 0, Amount: 1000}, script.STANDARD_VERIFY_FLAGS)
	case "Signature.ParseBytes":
		var s secp256k1.Signature
		s.ParseBytes(in)
	case "XY.ParsePubkey":
		var p secp256k1.XY
		p.ParsePubkey(in)
	case "XY.ParseXOnlyPubkey":
		var p secp256k1.XY
		p.ParseXOnlyPubkey(in) // any length: the function checks it itself
	case "NewSignature":
		btc.NewSignature(in)
	case "NewPublicKey":
		btc.NewPublicKey(in)
	case "EcdsaVerify":
		btc.EcdsaVerify(in, a, make([]byte, 32))
	case "SchnorrVerify":
		btc.SchnorrVerify(in, a, make([]byte, 32))
	case "NewAddrFromString":
		btc.NewAddrFromString(string(in))
	case "NewAddrFromPkScript":
		btc.NewAddrFromPkScript(in, false)
	case "IsPushOnly":
		btc.IsPushOnly(in)
	case "GetSigOpCount":
		btc.GetSigOpCount(in, true)
	case "GetP2SHSigOpCount":
		btc.GetP2SHSigOpCount(in)
	case "IsWitnessProgram":
		btc.IsWitnessProgram(in)
	case "CheckPayToContract":
		// any lengths (no harness-side guard): the only caller in the tree (script/witness.go) passes 32-byte
		// slices, the function must not rely on that
		btc.CheckPayToContract(in, a, make([]byte, 32), len(in)%2 == 1)
	}
}

func libOne(r *vlib.Run, c LibCase) {
	pan, where, hang, dur, _ := call(20*time.Second, func() { libCall(c) })
	r.Eval("lib:"+c.Fn, c.Fn+c.In+c.A)
	if pan != "" || hang || dur > 4*time.Second {
		what := fmt.Sprintf("library entry point %s on %d bytes: ", c.Fn, len(c.In)/2)
		if pan != "" {
			what += "panic " + pan + " in " + where
		} else {
			what += fmt.Sprintf("ran %v", dur)
		}
		r.PropFail("lib:"+c.Fn, what, map[string]interface{}{"lib": c})
		return
	}
	r.Hit("lib:ok")
}

func libFuzz(r *vlib.Run, e *Env, g *vlib.Rng, n int) {
	e.quiet()
	defer e.loud()
	txs := blockTxs(e.Blocks[104])
	seeds := map[string][][]byte{
		"NewTx": txs, "TxSize": txs, "NewBlock": {e.Blocks[104], e.Blocks[3]}, "BuildTxList": {e.Blocks[104], e.Blocks[3]},
		"GetOpcode": {{0x4c, 2, 1, 2}, {0x4d, 1, 0, 9}, {0x4e, 1, 0, 0, 0, 9}, {0x76, 0xa9, 20}},
		"VerifyTxScript": {e.Key.P2PKH(), e.Key.P2WPKH(), e.Key.P2SH_P2WPKH(), {0x51, 0x20}, {0x63, 0x67, 0x68}, {0x00, 0x20}},
		"Signature.ParseBytes": {{0x30, 6, 2, 1, 1, 2, 1, 1}}, "NewSignature": {{0x30, 6, 2, 1, 1, 2, 1, 1, 1}},
		"XY.ParsePubkey": {e.Key.Pub}, "NewPublicKey": {e.Key.Pub}, "XY.ParseXOnlyPubkey": {e.Key.Pub[1:]},
		"EcdsaVerify": {e.Key.Pub}, "SchnorrVerify": {e.Key.Pub[1:]},
		"NewAddrFromString": {[]byte("bc1qw508d6qejxtdg4y5r3zarvary0c5xw7kv8f3t4"), []byte("1BvBMSEYstWetqTFn5Au4m4GFg7xJaNVN2"), []byte("bc1p0xlxvlhemja6c4dqv22uapctqupfhlxm9h8z3k2e72q4k9hcz7vqzk5jj0")},
		"NewAddrFromPkScript": {e.Key.P2PKH(), e.Key.P2WPKH()},
	}
	for i := 0; i < n; i++ {
		fn := libFns[g.Intn(len(libFns))]
		var in []byte
		if ss := seeds[fn]; len(ss) > 0 && g.Chance(2, 3) {
			in = append([]byte{}, ss[g.Intn(len(ss))]...)
			for k := g.Intn(4); k > 0 && len(in) > 0; k-- {
				switch g.Intn(4) {
				case 0:
					in = in[:g.Intn(len(in))]
				case 1:
					in[g.Intn(len(in))] = byte(g.Pick(0, 0xff, 0xfd, 0xfe, 0x4c, 0x4d, 0x4e, 0x80))
				case 2:
					in = append(in, g.Bytes(1+g.Intn(9))...)
				case 3:
					j := g.Intn(len(in))
					in = cat(in[:j], vintForm(g.U64()>>uint(g.Intn(64)), g.Pick(1, 3, 5, 9)), in[j:])
				}
			}
		} else {
			in = g.Bytes(g.Pick(0, 1, 2, 9, 32, 33, 64, 65, 72, 100, 200))
		}
		a := g.Bytes(g.Pick(0, 1, 64, 65, 72))
		libOne(r, LibCase{Fn: fn, In: vlib.Hex(in), A: vlib.Hex(a)})
	}
}
