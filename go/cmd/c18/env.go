package main

// env.go — the minimum of the client's global state that client/network handlers touch, built the
// way client/main.go + client/init.go do it: a synthetic easy-PoW chain (chainkit) as
// common.BlockChain, common.Last, a temp-dir peers database, an empty mempool, configuration defaults.

import (
	"fmt"
	"os"
	"syscall"
	"time"

	"github.com/piotrnar/gocoin/client/common"
	"github.com/piotrnar/gocoin/client/network"
	"github.com/piotrnar/gocoin/client/peersdb"
	"github.com/piotrnar/gocoin/client/txpool"
	"github.com/piotrnar/gocoin/lib/btc"
	"github.com/piotrnar/gocoin/lib/others/qdb"
	"verif/chainkit"
	"verif/vlib"
)

type Env struct {
	K        *chainkit.Kit
	Dir      string
	Blocks   [][]byte          // raw blocks of the main chain, index = height-1
	Hashes   []*btc.Uint256    // their hashes
	NTx      map[[32]byte]int  // block hash -> number of txs
	Key      *chainkit.Key
	Spare    [][]byte          // valid blocks built on the tip but NOT submitted (fresh headers for headers/cmpctblock/block)
	SpareIdx int
	savedOut int
}

var devnull *os.File

// quiet redirects fd 1 and 2 to /dev/null (the handlers print payload dumps with println / fmt.Println);
// loud restores them for the report.
func (e *Env) quiet() {
	if devnull == nil {
		devnull, _ = os.OpenFile("/dev/null", os.O_WRONLY, 0)
		e.savedOut, _ = syscall.Dup(1)
	}
	if os.Getenv("C18_LOUD") != "" {
		return
	}
	syscall.Dup2(int(devnull.Fd()), 1)
	syscall.Dup2(int(devnull.Fd()), 2)
}

func (e *Env) loud() {
	if e.savedOut != 0 {
		syscall.Dup2(e.savedOut, 1)
		syscall.Dup2(e.savedOut, 2)
	}
}

func NewEnv(rng *vlib.Rng) *Env {
	e := &Env{NTx: map[[32]byte]int{}}
	dir, err := os.MkdirTemp("", "vc18")
	if err != nil {
		panic(err)
	}
	e.Dir = dir + string(os.PathSeparator)
	k, err := chainkit.New(chainkit.Opts{Dir: e.Dir + "chain" + string(os.PathSeparator)}, rng)
	if err != nil {
		panic(err)
	}
	e.K = k
	e.Key = k.NewKey()
	keys := map[string]*chainkit.Key{string(e.Key.P2PKH()): e.Key, string(e.Key.P2WPKH()): e.Key}
	var cbs []*btc.Tx
	add := func(txs []*btc.Tx, fees uint64) {
		cb, raw := k.MustExtend(txs, fees)
		cbs = append(cbs, cb)
		e.Blocks = append(e.Blocks, raw)
		h := btc.NewSha2Hash(raw[:80])
		e.Hashes = append(e.Hashes, h)
		e.NTx[h.Hash] = 1 + len(txs)
	}
	for i := 0; i < 104; i++ {
		add(nil, 0)
	}
	// a block with 4 extra transactions (for getblocktxn / compact blocks)
	var txs []*btc.Tx
	for i := 0; i < 4; i++ {
		c := chainkit.OutCoins(cbs[i], keys, uint32(i+1), true)
		tx := chainkit.BuildTx(2, c[:1], nil, []chainkit.OutSpec{{Value: c[0].Value - 1000, Script: chainkit.AnyoneScript}}, 0)
		txs = append(txs, tx)
	}
	add(txs, 4000)
	add(nil, 0)

	// fresh blocks on the tip, not submitted
	for i := 0; i < 24; i++ {
		e.Spare = append(e.Spare, k.Build(chainkit.BlockSpec{CoinbaseExtra: []byte{byte(i), 0xC1, 0x80}}))
	}

	// ---- client globals (client/init.go host_init, client/main.go main)
	common.CFG.Net.MaxBlockAtOnce = 3
	common.CFG.Net.MaxOutCons = 20
	common.CFG.Net.MaxInCons = 20
	common.CFG.TXPool.Enabled = true
	common.CFG.TXPool.AllowMemInputs = true
	common.CFG.TXPool.MaxTxWeight = 400e3
	common.CFG.TXPool.MaxSizeMB = 500
	common.CFG.TXPool.RejectRecCnt = 100
	common.CFG.TXPool.FeePerByte = 0.001
	common.CFG.TXRoute.Enabled = true
	common.CFG.TXRoute.MaxTxWeight = 400e3
	common.CFG.Memory.CacheOnDisk = false
	common.CFG.DropPeers.ImmunityMinutes = 15
	common.GocoinHomeDir = e.Dir
	common.GenesisBlock = k.Genesis
	common.Magic = [4]byte{0xF9, 0xBE, 0xB4, 0xD9}
	common.UserAgent = "/Gocoin:verif/"
	common.SecretKey = make([]byte, 32)
	common.SecretKey[31] = 7
	common.PublicKeyBin = btc.PublicFromPrivate(common.SecretKey, true)
	common.BlockChain = k.Ch
	common.Last.Block = k.Ch.LastBlock()
	common.Last.Time = time.Now()
	common.UpdateScriptFlags(0)
	common.StartTime = time.Now()
	common.BlockChainSynchronized.Store(true)
	common.AverageBlockSize.Store(1000)

	peersdb.PeerDB, _ = qdb.NewDB(e.Dir+"peers3", true)
	txpool.InitTransactionsToSend()
	txpool.InitTransactionsRejected()

	for kk, v := range k.Ch.BlockIndex {
		network.ReceivedBlocks[kk] = &network.OneReceivedBlock{TmStart: time.Unix(int64(v.Timestamp()), 0)}
	}
	network.LastCommitedHeader = common.Last.Block
	return e
}

func (e *Env) Close() {
	if peersdb.PeerDB != nil {
		peersdb.PeerDB.Close()
	}
	e.K.Close()
	os.RemoveAll(e.Dir)
}

// NextSpare returns a valid block on the tip whose header the node has not seen yet (nil when used up).
func (e *Env) NextSpare() []byte {
	if e.SpareIdx >= len(e.Spare) {
		return nil
	}
	e.SpareIdx++
	return e.Spare[e.SpareIdx-1]
}

var _ = fmt.Sprint
