package main

// runreal.go — the FIRST stream: the case is delivered to the real OneConnection.Run over a net.Pipe.
//
// The connection object gets one end of the pipe as its socket (network.VerifNewConn), is put on the
// connection list the way tcp_server does, and Run() is started in its own goroutine exactly as
// tcp_server / DoNetwork start it. The harness plays the peer on the other end: it writes framed wire
// messages (magic, command, length, checksum, payload) and reads whatever the node's writing thread
// sends. Nothing of Run is copied or stubbed: FetchMessage, the version gate, the command switch, the
// inline handlers, Tick / SendInvs between messages, the writing thread, Run's own recover() and the
// tear-down after the loop (GetMPDone, writing_thread_done.Wait, InProgress--, ban bookkeeping,
// Conn.Close) all run for real.
//
// What is observed (the property's own predicate, evaluated on the real end state):
//   * Run returns within the watchdog time once the peer has hung up (or earlier when it bans the peer);
//   * it did not go through its recover() (the "THIS SHOULD NOT HAPPEN" report is captured from stdout);
//   * Run closed the socket before it returned. Close is the LAST statement of Run, behind
//     writing_thread_done.Wait(): a closed socket means the writing thread has ended and the whole
//     tear-down ran; an open one means Run left some other way (a `return` inside the loop, a panic)
//     and the writing thread, the file descriptor and the in-progress block counts are leaked;
//   * every BlocksToGet[..].InProgress is back at 0 and the global getmp ticket is free;
//   * c.Mutex and the 13 package-level locks are free;
//   * ban reason / misbehaviour points / parsed fields / replies, compared with the Lean model by the
//     same verdict function as the direct-handler stream.
//
// Synchronisation without touching Run: net.Pipe is synchronous (a Write returns when the reader has
// consumed it) and Run is single-threaded, so the return of a Write of the NEXT message's first four
// bytes (the magic) proves that the handler of the previous message has returned. Replies are complete
// when the ring buffer is empty (SendBufProd == SendBufCons under c.Mutex), because the writing thread
// advances SendBufCons only after its Write on the pipe returned, i.e. after the harness has the bytes.

import (
	"bytes"
	"encoding/binary"
	"encoding/hex"
	"fmt"
	"net"
	"os"
	"runtime"
	"sort"
	"strings"
	"sync"
	"sync/atomic"
	"syscall"
	"time"

	"github.com/piotrnar/gocoin/client/common"
	"github.com/piotrnar/gocoin/client/network"
	"github.com/piotrnar/gocoin/client/txpool"
	"github.com/piotrnar/gocoin/lib/btc"
)

// nodeEnd is the node's end of the pipe: it records what Run does with its socket.
type nodeEnd struct {
	net.Conn
	c      *network.OneConnection
	closed int32
}

func (n *nodeEnd) Close() error {
	atomic.StoreInt32(&n.closed, 1)
	return n.Conn.Close()
}

// Run announces its exit with SetWriteDeadline(now) just before it waits for the writing thread;
// the thread is woken here (see network.VerifKickWriter) instead of after its 10 ms idle wait.
func (n *nodeEnd) SetWriteDeadline(t time.Time) error {
	err := n.Conn.SetWriteDeadline(t)
	if n.c != nil && !t.After(time.Now()) {
		n.c.VerifKickWriter()
	}
	return err
}

// RunObs is what the Run stream observes beyond Obs.
type RunObs struct {
	Closed      bool   `json:"closed"`       // Run closed its socket
	Returned    bool   `json:"returned"`     // Run returned
	Recovered   string `json:"recovered"`    // text of the panic Run's recover() printed ("" = none)
	InProgress  int    `json:"in_progress"`  // sum of BlocksToGet[..].InProgress after Run returned
	Ticket      int    `json:"ticket"`       // len(txpool.GetMPInProgressTicket) after Run returned
	Writers     int    `json:"writers"`      // goroutines still inside writing_thread (counted only when Closed is false)
	Why         string `json:"why"`          // why_disconnected
	Handshake   bool   `json:"handshake"`    // the version handshake was done through Run (not preset)
	Encrypted   bool   `json:"encrypted"`    // the case message went through the AES-GCM channel of a real xauth handshake
	PeerHungUp  bool   `json:"peer_hung_up"` // the harness closed its end (false: Run ended by itself)
	SetupFailed string `json:"setup_failed"` // the harness could not bring the connection into the asked state
}

// capture file for stdout while Run is running
var capFile *os.File

func (e *Env) captureStart() bool {
	if os.Getenv("C18_LOUD") != "" {
		return false
	}
	if capFile == nil {
		f, err := os.OpenFile(e.Dir+"run-stdout", os.O_CREATE|os.O_RDWR|os.O_APPEND, 0600)
		if err != nil {
			return false
		}
		capFile = f
	}
	capFile.Truncate(0)
	e.quiet() // (saves the original fd 1 on first use, sends fd 2 to /dev/null)
	syscall.Dup2(int(capFile.Fd()), 1)
	return true
}

func (e *Env) captureEnd() string {
	e.loud()
	if capFile == nil {
		return ""
	}
	st, err := capFile.Stat()
	if err != nil || st.Size() == 0 {
		return ""
	}
	n := st.Size()
	if n > 1<<20 {
		n = 1 << 20
	}
	b := make([]byte, n)
	m, _ := capFile.ReadAt(b, 0)
	return string(b[:m])
}

// recoveredPanic extracts the panic text and the first gocoin frame below the panic from the report
// Run's recover() prints.
func recoveredPanic(out string) (text, where string) {
	i := strings.Index(out, "THIS SHOULD NOT HAPPEN")
	if i < 0 {
		return "", ""
	}
	rest := out[i:]
	if j := strings.Index(rest, "Make sure to include the data below:"); j >= 0 {
		lines := strings.Split(rest[j:], "\n")
		for _, l := range lines[1:] {
			if strings.TrimSpace(l) != "" {
				text = strings.TrimSpace(l)
				break
			}
		}
	}
	if text == "" {
		text = "panic (text not captured)"
	}
	where = "?"
	if j := strings.Index(rest, "\npanic("); j >= 0 {
		for _, l := range strings.Split(rest[j+1:], "\n")[1:] {
			if strings.HasPrefix(l, "github.com/piotrnar/gocoin/") {
				l = strings.TrimPrefix(l, "github.com/piotrnar/gocoin/")
				if k := strings.LastIndex(l, "("); k > 0 {
					l = l[:k]
				}
				where = l
				break
			}
		}
	}
	return
}

// peer is the harness's end of the pipe.
type peer struct {
	conn net.Conn
	mu   sync.Mutex
	rcvd []byte
	done chan struct{} // reader ended
}

func newPeer(conn net.Conn) *peer {
	p := &peer{conn: conn, done: make(chan struct{})}
	go func() {
		defer close(p.done)
		buf := make([]byte, 1<<16)
		for {
			n, err := conn.Read(buf)
			if n > 0 {
				p.mu.Lock()
				p.rcvd = append(p.rcvd, buf[:n]...)
				p.mu.Unlock()
			}
			if err != nil {
				return
			}
		}
	}()
	return p
}

// msgs parses what has been received so far into messages (payloads of encrypted ones are left as sent).
func (p *peer) msgs() (out []network.VerifMsg, enc []bool) {
	p.mu.Lock()
	raw := append([]byte{}, p.rcvd...)
	p.mu.Unlock()
	for len(raw) >= 24 {
		lf := binary.LittleEndian.Uint32(raw[16:20])
		le := int(lf & 0x7fffffff)
		if 24+le > len(raw) {
			break
		}
		cmd := raw[4:16]
		for len(cmd) > 0 && cmd[len(cmd)-1] == 0 {
			cmd = cmd[:len(cmd)-1]
		}
		out = append(out, network.VerifMsg{Cmd: string(cmd), Pl: append([]byte{}, raw[24:24+le]...)})
		enc = append(enc, lf&0x80000000 != 0)
		raw = raw[24+le:]
	}
	return
}

func (p *peer) find(cmd string) *network.VerifMsg {
	ms, _ := p.msgs()
	for i := range ms {
		if ms[i].Cmd == cmd {
			return &ms[i]
		}
	}
	return nil
}

// session is one connection driven through Run.
type session struct {
	c       *network.OneConnection
	node    *nodeEnd
	p       *peer
	runDone chan struct{}
	escaped string // a panic that got past Run's own recover (cannot happen; recorded if it does)
	dead    bool   // a write to the node failed / timed out: Run is not reading any more
	magic   bool   // settle has already sent the magic of the next frame
}

// sendIdle: nothing is waiting in the send ring; sent = bytes the writing thread has handed to the socket.
func sendIdle(c *network.OneConnection) (idle bool, sent uint64) {
	c.Mutex.Lock()
	idle = c.SendBufProd == c.SendBufCons
	sent = c.X.BytesSent
	c.Mutex.Unlock()
	return
}

func (p *peer) received() uint64 {
	p.mu.Lock()
	n := len(p.rcvd)
	p.mu.Unlock()
	return uint64(n)
}

// write sends b to the node; false when Run is not reading (it ended, or the limit passed).
func (s *session) write(b []byte, limit time.Duration) bool {
	if s.dead {
		return false
	}
	s.p.conn.SetWriteDeadline(time.Now().Add(limit))
	res := make(chan bool, 1)
	go func() {
		for len(b) > 0 {
			n, err := s.p.conn.Write(b)
			b = b[n:]
			if err != nil {
				res <- false
				return
			}
		}
		res <- true
	}()
	select {
	case ok := <-res:
		s.dead = !ok
		return ok
	case <-s.runDone:
		// Run has returned: nobody will read this (if Run did not close its end the write would wait)
		s.p.conn.SetWriteDeadline(time.Now())
		<-res
		s.dead = true
		return false
	}
}

// deliver sends one framed message; it returns false when Run stopped reading. The frame is written
// in two parts: the magic - whose consumption proves that the previous message has been handled -
// and the rest.
func (s *session) deliver(frame []byte, limit time.Duration) bool {
	if s.magic {
		s.magic = false
		return s.write(frame[4:], limit)
	}
	return s.write(frame[:4], limit) && s.write(frame[4:], limit)
}

// settle waits until the handler of the last delivered message has returned and its replies have
// reached the harness: the next magic is consumed, then the send ring is empty.
func (s *session) settle(limit time.Duration) bool {
	if !s.magic {
		if !s.write(common.Magic[:], limit) {
			return false
		}
		s.magic = true
	}
	t0 := time.Now()
	for {
		// (the writing thread counts a chunk as sent when its Write on the pipe has returned; the
		// harness's reader may not have stored it yet)
		if idle, sent := sendIdle(s.c); idle && s.p.received() >= sent {
			break
		}
		select {
		case <-s.runDone:
			return false
		default:
		}
		if time.Since(t0) > limit {
			return false
		}
		runtime.Gosched()
	}
	return true
}

// connTicks reads the connection's tick count without ever waiting for c.Mutex (a handler that panicked
// may have left it locked).
func (s *session) connTicks() (n uint64, ok bool) {
	if s.c.Mutex.TryLock() {
		n, ok = uint64(s.c.X.Ticks), true
		s.c.Mutex.Unlock()
	}
	return
}

// waitTick waits until Run has executed the connection's Tick once more (first: once at all - Run ticks
// in the first round of its loop) and the messages that Tick queued have reached the harness.
func (s *session) waitTick(first bool, limit time.Duration) bool {
	t0 := time.Now()
	var want uint64 = 1
	for got := false; ; {
		select {
		case <-s.runDone:
			return false
		default:
		}
		if n, ok := s.connTicks(); ok {
			if !got && !first {
				want = n + 1
			}
			got = true
			if n >= want {
				break
			}
		}
		if time.Since(t0) > limit {
			return false
		}
		time.Sleep(200 * time.Microsecond)
	}
	time.Sleep(300 * time.Microsecond) // (the count goes up at the start of Tick)
	for time.Since(t0) <= limit {
		select {
		case <-s.runDone:
			return false
		default:
		}
		if s.c.Mutex.TryLock() {
			idle, sent := s.c.SendBufProd == s.c.SendBufCons, s.c.X.BytesSent
			s.c.Mutex.Unlock()
			if idle && s.p.received() >= sent {
				return true
			}
		}
		runtime.Gosched()
	}
	return false
}

// frameOf frames (cmd, pl) in clear.
func frameOf(cmd string, pl []byte) []byte { return wire(cmd, pl, uint32(len(pl))) }

// hsNonce: the nonce of the version message the harness sends on run-stream connection k.
func hsNonce(k int) uint64 { return 0x5100000000000000 | uint64(k) }

// peerVersion is the version message whose acceptance leaves c.Node the way Runner.preset sets it.
func peerVersion(k int) []byte {
	return versionMsg(70016, 0x409, hsNonce(k), vint(16), []byte("/Satoshi:27.0.0/"), []byte{100, 0, 0, 0, 1})
}

func (r *Runner) runnable(cs Case) bool {
	if cs.Cmd == "@conc" || cs.Cmd == "@child" || cs.slow() || cs.Rep > 0 {
		return false
	}
	if cs.has("ackgot") {
		return false // a state that no message history reaches (set directly in the direct stream only)
	}
	if n := cs.slowTicks(); n > 0 {
		// each of them costs PeerTickPeriod (100 ms) of waiting for the real Run: a budget per run; the
		// direct stream executes every tick of every history
		if _, seen := r.tickPaid[cs.Pl+fmt.Sprint(cs.Seq)]; !seen {
			if n > r.TickBudget {
				return false
			}
			r.TickBudget -= n
			if r.tickPaid == nil {
				r.tickPaid = map[string]bool{}
			}
			r.tickPaid[cs.Pl+fmt.Sprint(cs.Seq)] = true
		}
	}
	return true
}

// DoRun delivers the case to a fresh connection through the real Run and observes the end state.
func (r *Runner) DoRun(cs Case) (o Obs, ro RunObs, c *network.OneConnection) {
	pl := cs.payload()
	r.nrun++
	ip := [4]byte{46, byte(r.nrun >> 16), byte(r.nrun >> 8), byte(r.nrun)}
	a, b := net.Pipe()
	node := &nodeEnd{Conn: a}
	// configuration changes at the head of the history: the operator set them BEFORE this peer connected - the
	// connection object is then made by the real NewConnection under that configuration (never a recycled one)
	lead := 0
	if cs.reconfigures() {
		restoreCfg := saveCfg()
		defer func() {
			if !o.Hang { // (a stuck Run may hold the config lock)
				r.e.quiet()
				restoreCfg()
				r.e.loud()
			}
		}()
		for lead < len(cs.Seq) && cs.Seq[lead].Cmd == "@cfg" {
			silently(func() { applyCfg(cs.Seq[lead].Pl) })
			lead++
		}
	}
	if r.pool != nil && lead == 0 {
		// the object of the previous run-stream connection, re-initialised (see network.VerifRecycle: saves
		// allocating and clearing the 16 MB send ring per connection); only an object whose Run has
		// returned through its tear-down with no lock held is ever reused
		c, r.pool = r.pool, nil
		c.VerifRecycle(ip, 8333, true, node)
	} else {
		c = network.VerifNewConn(ip, 8333, true, node)
	}
	node.c = c
	handshake := false
	encrypted := cs.has("trusted") || cs.has("enc")
	switch {
	case cs.has("nover"):
		r.preset(c, cs)
	case encrypted && cs.Cmd != "@wire":
		handshake = true // the key exchange needs the node's nonce from its version message
		r.presetFlags(c, cs)
	case cs.Cmd == "@wire":
		encrypted = false
		r.preset(c, cs)
	case cs.Pre == "" && len(pl)%2 == 0 && !cs.reconfigures():
		handshake = true // (a case with a configuration history starts from the preset state: its first Tick is the connection's first)
	default:
		r.preset(c, cs)
	}
	ro.Handshake, ro.Encrypted = handshake, encrypted
	c.VerifRegister(true)

	if cs.has("dupsid") {
		installDupSid()
		defer removeDupSid()
	}
	switch {
	case cs.has("fulldb"):
		r.e.UseFullDB(0)
	case cs.has("fulldb-1"):
		r.e.UseFullDB(-1)
	case cs.has("fulldb+1"):
		r.e.UseFullDB(1)
	}
	if strings.Contains(cs.Pre, "fulldb") {
		defer r.e.UseNormalDB()
	}
	limit := 5 * time.Second
	if r.conn != nil {
		// the direct stream's connection object is not a live peer: keep it off the list meanwhile
		// (HandleVersion compares nonces with every listed connection)
		dc := r.conn
		dc.VerifRegister(false)
		defer func() {
			if !o.Hang { // (a stuck Run may hold Mutex_net: the caller stops the whole run)
				dc.VerifRegister(true)
			}
		}()
	}
	captured := r.e.captureStart()
	t0 := time.Now()
	s := &session{c: c, node: node, p: newPeer(b), runDone: make(chan struct{})}
	go func() {
		defer func() {
			if x := recover(); x != nil {
				s.escaped = fmt.Sprint(x)
			}
			close(s.runDone)
		}()
		c.Run()
	}()

	var sec *secureChan
	ok := true
	if handshake {
		ok = s.deliver(frameOf("version", peerVersion(r.nrun)), limit) && s.settle(limit)
		if ok && !c.X.VersionReceived {
			ro.SetupFailed = "version handshake refused"
			ok = false
		}
		if ok && encrypted {
			sec, ro.SetupFailed = s.keyExchange(cs.has("trusted"), limit)
			ok = sec != nil
		}
	}
	r.lastRunCollector = false
	if ok {
		sent := handshake // something has been delivered to Run on this connection
		for _, m := range cs.Seq[lead:] {
			switch m.Cmd {
			case "@cfg":
				// the operator reconfigures the running node between two messages of this peer
				if sent && !s.settle(limit) {
					ok = false
				} else {
					applyCfg(m.Pl)
					sent = true // (from here on "a Tick after this" means one more Tick)
				}
			case "@tick":
				if sent && !s.settle(limit) {
					ok = false
				} else {
					ok = s.waitTick(!sent, limit)
					sent = true
				}
			case "@age":
				// time passes with the connection kept alive; then the real Run ticks once more (penalty.go)
				if sent && !s.settle(limit) {
					ok = false
				} else {
					c.VerifAgePenalties(int64(tickAhead(m)))
					ok = s.waitTick(false, limit)
					sent = true
				}
			default:
				mp, _ := hex.DecodeString(m.Pl)
				ok = s.deliver(sec.frame(m.Cmd, mp), limit)
				sent = true
			}
			if !ok {
				break
			}
		}
	}
	if ok && cs.Cmd == "blocktxn" && len(pl) >= 32 && len(cs.Seq) > 0 && s.settle(limit) {
		c.Mutex.Lock()
		r.lastRunCollector = c.VerifCollectorFor(btc.NewUint256(pl[:32]).BIdx()) != nil
		c.Mutex.Unlock()
	}
	reading := false // Run is still reading after the last message (it did not end the connection itself)
	if ok {
		if cs.Cmd == "@wire" {
			reading = s.write(pl, limit) // raw bytes; whatever Run does not take is dropped when the peer hangs up
		} else if s.deliver(sec.frame(cs.Cmd, pl), limit) {
			reading = s.settle(limit)
		}
	}
	// the peer hangs up
	select {
	case <-s.runDone:
	default:
		ro.PeerHungUp = reading
	}
	b.Close()
	select {
	case <-s.runDone:
		ro.Returned = true
	case <-time.After(limit):
		o.Hang = true
	}
	<-s.p.done
	out := ""
	if captured {
		out = r.e.captureEnd()
	}
	o.Ms = float64(time.Since(t0).Microseconds()) / 1000
	ro.Closed = atomic.LoadInt32(&node.closed) != 0
	ro.Recovered, o.Where = recoveredPanic(out)
	if s.escaped != "" {
		ro.Recovered, o.Where = s.escaped, "escaped Run's recover"
	}
	o.Panic = ro.Recovered

	// locks
	if c.Mutex.TryLock() {
		c.Mutex.Unlock()
	} else {
		o.Locks = append(o.Locks, "c.Mutex")
	}
	for _, p := range r.probes {
		if !p.try() {
			o.Locks = append(o.Locks, p.name)
			if !o.Hang {
				p.free()
			}
		}
	}
	sort.Strings(o.Locks)
	if o.Hang {
		r.lastRunState = network.VerifState{}
		return
	}
	heldConn := len(o.Locks) > 0 && o.Locks[0] == "c.Mutex"
	if !ro.Closed {
		ro.Writers = strings.Count(allStacks(), "writing_thread")
		// the harness's own clean-up of what Run left behind (after it has been recorded)
		if !heldConn {
			c.Disconnect(false, "harness-cleanup")
		}
		a.Close()
	}
	network.MutexRcv.Lock()
	for _, b2g := range network.BlocksToGet {
		ro.InProgress += int(int32(b2g.InProgress))
	}
	network.MutexRcv.Unlock()
	ro.Ticket = len(txpool.GetMPInProgressTicket)
	for len(txpool.GetMPInProgressTicket) > 0 {
		<-txpool.GetMPInProgressTicket
	}
	if !heldConn {
		st := c.VerifState()
		r.lastRunState = st
		ro.Why = st.Why
		if st.Banit {
			o.Ban = st.BanReason
		}
		o.Misbehave = st.Misbehave
		c.VerifRegister(false)
		if ro.Closed && len(o.Locks) == 0 && ro.Returned {
			r.pool = c
		}
	} else {
		r.lastRunState = network.VerifState{}
	}
	ms, enc := s.p.msgs()
	for i, m := range ms {
		if enc[i] && sec != nil {
			if plain, err := sec.open(m.Pl); err == nil {
				m.Pl = plain
			}
		}
		o.sentRaw = append(o.sentRaw, m)
		o.Sent = append(o.Sent, fmt.Sprintf("%s:%d", m.Cmd, len(m.Pl)))
	}
	return
}

func allStacks() string {
	buf := make([]byte, 1<<20)
	n := runtime.Stack(buf, true)
	return string(buf[:n])
}

var _ = bytes.Equal
