package main

// stats.go — the second concurrent scenario (ConcSpec.Mode "stats"), run in a child process like conc.go's:
// the UI thread's GetStats ranges over the connection's statistics map `counters` under c.Mutex, and EVERY
// message handler, SendRawMsg, FetchMessage, Misbehave and Tick count into that map. A count made outside
// c.Mutex is not a silent data race: the Go runtime aborts the process ("fatal error: concurrent map
// iteration and map write"), and no recover() catches that - a peer that can make a handler count outside
// the lock kills the node (found by the second audit for a 33-byte blocktxn naming a block that is not in
// progress; /repo fix "counters under c.Mutex").
//
// So here ONE connection's thread works through the whole input space of the main streams - the corpus, the
// structured generator of every command, its mutations, raw wire bytes through FetchMessage, the trusted-block
// family, configuration histories with Tick (Stat.NoCounters makes Tick REPLACE the map) - and through
// directed histories for the counting sites that need a special state (block in progress without a collector,
// mempool almost full while a getmp ticket is held, header / block-download timeouts of a "special" peer,
// a second getaddr, rejected transactions), while a second goroutine calls GetStats in a tight loop.
// The child reports which counter names GetStats saw; the parent puts them into the evidence and insists on
// the ones the directed histories exist for. Everything the harness itself does to the connection object
// between two messages happens under c.Mutex, so that a fatal error can only come from the code under test.

import (
	"encoding/hex"
	"encoding/json"
	"fmt"
	"os"
	"runtime"
	"runtime/debug"
	"sort"
	"strings"
	"sync"
	"sync/atomic"
	"time"

	"github.com/piotrnar/gocoin/client/common"
	"github.com/piotrnar/gocoin/client/network"
	"github.com/piotrnar/gocoin/client/txpool"
	"github.com/piotrnar/gocoin/lib/btc"
	"verif/vlib"
)

// statsMust: counters the directed histories must have driven through GetStats' eyes (prefix match). The
// first four are the sites that counted outside c.Mutex before the fix.
var statsMust = []string{"BlkTxnNoBIP", "BlkTxnNoCOL", "GetMPHold", "GetHeadersTimeout", "BlockDlTimeout",
	"BadBlkTxnErrBip", "SecondGetAddr", "SendCmpctV", "rcvd_", "rbts_", "sent_", "sbts_", "NewBlock", "BlockTimeout"}

type statsChild struct {
	e    *Env
	x    *Gen
	c    *network.OneConnection
	n    int
	nd   [nDirected]int // how often each directed history has run (its variants alternate)
	cur  atomic.Value // *network.OneConnection the GetStats loop reads
	prog *int64
}

func (s *statsChild) fresh() {
	if s.c != nil {
		s.c.VerifRegister(false)
	}
	s.n++
	s.c = network.VerifNewConn([4]byte{45, 78, byte(s.n >> 8), byte(s.n)}, 8333, true, nil)
	s.c.VerifRegister(true)
	s.cur.Store(s.c)
}

// prepare: what Runner.prepare + preset do, under the connection's mutex (the statistics thread is reading).
func (s *statsChild) prepare(cs Case) {
	c := s.c
	c.Mutex.Lock()
	c.VerifReset()
	c.X = network.ConnectionStatus{ConnectedAt: time.Now(), Incomming: true, LastDataGot: time.Now()}
	c.LastPingSent = time.Now()
	c.Node = network.NetworkNodeStruct{}
	c.InvDone.History = nil
	c.InvDone.Idx = 0
	c.InvDone.Map = make(map[uint64]uint32)
	c.PendingInvs = nil
	c.PingInProgress = nil
	for k := range c.GetBlockInProgress {
		delete(c.GetBlockInProgress, k)
	}
	if !cs.has("nover") {
		c.X.VersionReceived = true
		c.Node.Version = 70016
		c.Node.Services = 0x409
		c.Node.Agent = "/Satoshi:27.0.0/"
		c.Node.Height = 100
	}
	if cs.has("auth") || cs.has("trusted") {
		c.X.Authorized = true
	}
	if cs.has("ackgot") {
		c.X.AuthAckGot = true
	}
	if cs.has("cv2") {
		c.Node.SendCmpctVer = 2
	}
	if cs.has("ahr") {
		c.X.AllHeadersReceived = true
	}
	c.Mutex.Unlock()
	for len(c.GetMP) > 0 {
		<-c.GetMP
	}
	for len(txpool.GetMPInProgressTicket) > 0 {
		<-txpool.GetMPInProgressTicket
	}
}

func (s *statsChild) drain() {
	c := s.c
	c.Mutex.Lock()
	c.VerifDrainSent()
	c.Mutex.Unlock()
}

func (s *statsChild) msg(cmd string, pl []byte, trusted bool) {
	if len(pl) == 0 {
		pl = nil
	}
	s.c.VerifDispatch(cmd, pl, trusted)
	s.drain()
	atomic.AddInt64(s.prog, 1)
}

func (s *statsChild) tick(ahead time.Duration) {
	now := time.Now().Add(ahead)
	s.c.Mutex.Lock()
	s.c.X.LastDataGot = now // (the peer is not silent: the no-data timeout is not what is looked at)
	s.c.Mutex.Unlock()
	s.c.Tick(now)
	s.drain()
	atomic.AddInt64(s.prog, 1)
}

// deliver runs one case of the main streams' generators on the connection.
func (s *statsChild) deliver(cs Case) {
	if cs.Cmd == "@conc" || cs.Cmd == "@child" || cs.has("dupsid") || cs.slow() || strings.Contains(cs.Pre, "fulldb") {
		return
	}
	s.prepare(cs)
	var restore func()
	if cs.reconfigures() {
		restore = saveCfg()
	}
	tr := cs.has("trusted")
	for _, m := range cs.Seq {
		switch m.Cmd {
		case "@cfg":
			applyCfg(m.Pl)
		case "@tick":
			s.tick(time.Duration(tickAhead(m)) * time.Second)
		case "@age":
			s.c.VerifAgePenalties(int64(tickAhead(m)))
			s.tick(0)
		default:
			b, _ := hex.DecodeString(m.Pl)
			s.msg(m.Cmd, b, tr)
		}
	}
	pl := cs.payload()
	for i := 0; i < cs.Rep && i < 64; i++ {
		if s.c.IsBroken() {
			break
		}
		s.msg(cs.Cmd, pl, tr)
	}
	if cs.Cmd == "@wire" {
		s.c.VerifFetch(pl, 64)
		s.drain()
		atomic.AddInt64(s.prog, 1)
	} else {
		s.msg(cs.Cmd, pl, tr)
	}
	if restore != nil {
		restore()
	}
	for len(txpool.GetMPInProgressTicket) > 0 {
		<-txpool.GetMPInProgressTicket
	}
}

// mempoolFull puts the transaction pool into the state "less than 5 MB left" (and back): what a node under
// load looks like to SendGetMP.
func mempoolFull(on bool, saved *uint64) {
	txpool.TxMutex.Lock()
	if on {
		*saved = txpool.TransactionsToSendSize
		txpool.TransactionsToSendSize = common.MaxMempoolSize()
	} else {
		txpool.TransactionsToSendSize = *saved
	}
	txpool.TxMutex.Unlock()
}

// directed histories for the counting sites that the generators reach rarely or never.
func (s *statsChild) directed(k int) {
	g, e := s.x.g, s.e
	var saved uint64
	variant := s.nd[k]
	s.nd[k]++
	switch k {
	case 0: // blocktxn for a block that is not in progress (the audit's 33 bytes), cv2 or not
		s.prepare(Case{Pre: []string{"", "cv2"}[g.Intn(2)]})
		s.msg("blocktxn", append(g.Bytes(32), 0), false)
	case 1: // a block requested the ordinary way (headers, then Tick's getdata) is answered with blocktxn: no collector
		sp := e.NextSpare()
		if sp == nil {
			return
		}
		s.fresh() // (a used object may carry a "next getdata" time up to a minute ahead: Tick would not ask for the block)
		s.prepare(Case{Pre: "ahr"})
		s.c.Mutex.Lock()
		s.c.Node.Height = 1 << 20
		s.c.Mutex.Unlock()
		s.msg("headers", cat(vint(1), sp[:80], []byte{0}), false)
		s.tick(0)
		s.tick(2 * time.Second)
		h := btc.NewSha2Hash(sp[:80])
		s.msg("blocktxn", append(append([]byte{}, h.Hash[:]...), 0), false)
		// ... and whatever is still in progress times out on a later Tick (BlockTimeout; the connection is dropped)
		if variant%2 == 0 {
			s.tick(10 * time.Minute)
		} else {
			// or the block arrives after all
			s.msg("block", sp, false)
		}
	case 2: // getmp ticket taken by Tick while the mempool is almost full
		s.prepare(Case{Pre: "trusted"})
		s.msg("authack", []byte{1}, true)
		mempoolFull(true, &saved)
		s.tick(2 * time.Second)
		mempoolFull(false, &saved)
	case 3: // the ticket is ours, the peer says getmpdone(more), the mempool has filled up meanwhile
		s.prepare(Case{Pre: "trusted"})
		s.msg("authack", []byte{1}, true)
		s.tick(2 * time.Second)
		mempoolFull(true, &saved)
		s.msg("getmpdone", []byte{1}, true)
		mempoolFull(false, &saved)
	case 4: // a "special" peer (friend / manual connection) lets the headers request time out: counted, not dropped
		s.prepare(Case{})
		s.c.MutexSetBool(&s.c.X.IsSpecial, true)
		s.tick(0) // asks for headers
		s.tick(5 * time.Minute)
	case 5: // the same for a block download
		sp := e.NextSpare()
		if sp == nil {
			return
		}
		s.fresh() // (a used object may carry a "next getdata" time up to a minute ahead: Tick would not ask for the block)
		s.prepare(Case{Pre: "ahr"})
		s.c.MutexSetBool(&s.c.X.IsSpecial, true)
		s.c.Mutex.Lock()
		s.c.Node.Height = 1 << 20
		s.c.Mutex.Unlock()
		s.msg("headers", cat(vint(1), sp[:80], []byte{0}), false)
		s.tick(0)
		s.tick(2 * time.Second)
		s.tick(10 * time.Minute)
		s.msg("pong", g.Bytes(8), false)
	case 6: // getaddr twice, sendcmpct twice
		s.prepare(Case{})
		s.msg("getaddr", nil, false)
		s.msg("getaddr", nil, false)
		s.msg("sendcmpct", cat([]byte{1}, []byte{2, 0, 0, 0, 0, 0, 0, 0}), false)
		s.msg("sendcmpct", cat([]byte{0}, []byte{1, 0, 0, 0, 0, 0, 0, 0}), false)
	case 7: // transactions the pool refuses
		txs := blockTxs(e.Blocks[104])
		s.prepare(Case{})
		for i := 0; i < 3; i++ {
			s.msg("tx", txs[g.Intn(len(txs))], false)
		}
	case 8: // a message through FetchMessage (the rcvd_ / rbts_ counts), answered through SendRawMsg (sent_ / sbts_)
		s.prepare(Case{})
		pl := g.Bytes(8)
		for _, m := range s.c.VerifFetch(wire("ping", pl, uint32(len(pl))), 8) {
			s.msg(m.Cmd, m.Pl, false)
		}
	}
	for len(txpool.GetMPInProgressTicket) > 0 {
		<-txpool.GetMPInProgressTicket
	}
}

const nDirected = 9

func statsChildMain(spec ConcSpec) {
	rng := vlib.NewRng(spec.Seed)
	e := NewEnv(rng.Fork())
	var progress, stats int64
	s := &statsChild{e: e, x: &Gen{e: e, g: rng.Fork()}, prog: &progress}
	s.fresh()
	fail := func(tag, msg string) {
		fmt.Fprintf(os.Stderr, "\n%s %s\n", tag, strings.ReplaceAll(msg, "\n", " | "))
		os.Exit(5)
	}
	var stop int32
	seen := map[string]bool{}
	var wg sync.WaitGroup
	wg.Add(1)
	go func() { // the UI's job, as fast as it can
		defer wg.Done()
		defer func() {
			if x := recover(); x != nil {
				fail("CHILD-PANIC", fmt.Sprintf("GetStats panics: %v in %s", x, frame(string(debug.Stack()))))
			}
		}()
		for atomic.LoadInt32(&stop) == 0 {
			c := s.cur.Load().(*network.OneConnection)
			var ci network.ConnInfo
			c.GetStats(&ci)
			for k := range ci.Counters {
				if !seen[k] {
					seen[k] = true
				}
			}
			atomic.AddInt64(&stats, 1)
			runtime.Gosched()
		}
	}()
	go func() { // watchdog
		last, t := int64(-1), time.Now()
		for {
			time.Sleep(200 * time.Millisecond)
			p := atomic.LoadInt64(&progress)
			if p != last {
				last, t = p, time.Now()
			} else if time.Since(t) > 10*time.Second {
				fmt.Fprintf(os.Stderr, "\nCHILD-STUCK no progress for 10 s after %d steps\n", p)
				os.Exit(4)
			}
		}
	}()
	cur := ""
	func() {
		defer func() {
			if x := recover(); x != nil {
				fail("CHILD-PANIC", fmt.Sprintf("connection thread panics: %v in %s during %s", x, frame(string(debug.Stack())), cur))
			}
		}()
		g := s.x.g
		corpus := Corpus(e)
		// every directed history first: the cheap ones many times (the window of one unlocked count against the
		// statistics thread is short; the audit's probe needed ~10^4 blocktxn messages), the ones that use up a
		// fresh header twice (both variants)
		for k := 0; k < nDirected; k++ {
			reps := spec.Rounds / 20
			switch k {
			case 0:
				reps = spec.Rounds * 4
			case 1, 5:
				reps = 2
			}
			cur = fmt.Sprint("directed history ", k)
			for i := 0; i < reps; i++ {
				s.directed(k)
			}
		}
		for n := 0; n < spec.Rounds; n++ {
			var cs Case
			switch {
			case n < len(corpus):
				cs = corpus[n]
			default:
				switch g.Intn(16) {
				case 0, 1:
					k := g.Intn(nDirected)
					cur = fmt.Sprint("directed history ", k)
					s.directed(k)
					continue
				case 2:
					cs = s.x.Wire()
				case 3:
					cs = s.x.TrustedBlock()
				case 4:
					cs = s.x.History(knobs[0], s.x.Structured(Commands[g.Intn(len(Commands))])) // Stat.NoCounters
				case 5:
					cs = s.x.Mutate(s.x.Structured(Commands[g.Intn(len(Commands))]))
				default:
					cs = s.x.Structured(Commands[g.Intn(len(Commands))])
				}
			}
			js, _ := json.Marshal(cs)
			if len(js) > 600 {
				js = append(js[:600], "…"...)
			}
			cur = string(js)
			s.deliver(cs)
			if s.c.IsBroken() && g.Chance(1, 4) {
				s.fresh() // a new connection object now and then (most cases reuse the old one: its counters stay)
			}
		}
	}()
	atomic.StoreInt32(&stop, 1)
	wg.Wait()
	var held []string
	if s.c.Mutex.TryLock() {
		s.c.Mutex.Unlock()
	} else {
		held = append(held, "c.Mutex")
	}
	for _, p := range globalProbes() {
		if !p.try() {
			held = append(held, p.name)
		}
	}
	if len(held) > 0 {
		fmt.Fprintf(os.Stderr, "\nCHILD-LOCKS %s\n", strings.Join(held, ","))
		os.Exit(6)
	}
	var names []string
	for k := range seen {
		names = append(names, k)
	}
	sort.Strings(names)
	e.Close()
	fmt.Fprintf(os.Stderr, "\nCHILD-OK rounds=%d stats=%d counters=%d names=%s\n", spec.Rounds, stats, len(names), strings.Join(names, ","))
	os.Exit(0)
}
