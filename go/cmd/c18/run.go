package main

// run.go — calling one handler of the real code and observing what the property names:
// panic (own recover), every lock of the connection / the package after return, wall time,
// plus the penalty the handler chose and the state it parsed (for the comparison with the model).

import (
	"encoding/hex"
	"fmt"
	"runtime/debug"
	"sort"
	"strconv"
	"strings"
	"sync"
	"time"

	"github.com/piotrnar/gocoin/client/common"
	"github.com/piotrnar/gocoin/client/network"
	"github.com/piotrnar/gocoin/client/peersdb"
	"github.com/piotrnar/gocoin/client/txpool"
	"github.com/piotrnar/gocoin/lib/btc"
)

// Case is one message delivered to one connection in a given protocol state.
type Case struct {
	Cmd  string `json:"cmd"`  // command; "@wire" = raw bytes fed to FetchMessage
	Pl   string `json:"pl"`   // payload, hex
	Pre  string `json:"pre"`  // comma separated: nover | auth | cv2 (sendcmpct version 2 negotiated) | trusted | ahr | dupsid | ackgot | fulldb | fulldb-1 | fulldb+1 | slow (the peer does not read its socket: the send buffer is never drained) | sbfill=<n> (the send buffer already holds n unsent bytes)
	Note string `json:"note"` // where the case comes from
	Seq  []Msg  `json:"seq,omitempty"` // messages delivered before (Cmd, Pl) on the same connection; pseudo commands (cfg.go): "@cfg" = the operator changes the configuration of the running node (Pl = JSON fragment, applied the way textui `set_config` / the webui do: unmarshal over CFG + common.Reset() under the config lock), "@tick" = the connection's periodic Tick runs (Pl = seconds the clock is ahead, direct stream only)
	Conc *ConcSpec `json:"conc,omitempty"` // Cmd "@conc": the concurrent scenario run in a child process (conc.go)
	Rep  int       `json:"rep,omitempty"`  // the message (Cmd, Pl) is delivered Rep times before the observed delivery (same connection)
	Child *ChildSpec `json:"child,omitempty"` // Cmd "@child": block parsing in a child process (child.go)
}

// sbfill returns the number of unsent bytes the case wants in the send buffer (-1: none asked for).
func (c Case) sbfill() int {
	for _, x := range strings.Split(c.Pre, ",") {
		if strings.HasPrefix(x, "sbfill=") {
			if n, err := strconv.Atoi(x[7:]); err == nil && n >= 0 && n < network.SendBufSize {
				return n
			}
		}
	}
	return -1
}

// slow: a peer that sends requests but does not read the replies.
func (c Case) slow() bool { return c.has("slow") || c.sbfill() >= 0 }

type Msg struct {
	Cmd string `json:"cmd"`
	Pl  string `json:"pl"`
}

func (c Case) payload() []byte { b, _ := hex.DecodeString(c.Pl); return b }
func (c Case) has(f string) bool {
	for _, x := range strings.Split(c.Pre, ",") {
		if x == f {
			return true
		}
	}
	return false
}

type Obs struct {
	Panic     string   `json:"panic"`
	Where     string   `json:"where"` // first frame of the panic inside client/network or lib
	Locks     []string `json:"locks"` // locks still held after the handler returned
	Hang      bool     `json:"hang"`
	Ms        float64  `json:"ms"`
	Branch    string   `json:"branch"`
	Ban       string   `json:"ban"` // DoS reason ("" = not banned)
	Misbehave int      `json:"misbehave"`
	Sent      []string `json:"sent"` // cmd:len of every message queued for the peer
	sentRaw   []network.VerifMsg
}

type lockProbe struct {
	name string
	try  func() bool
	free func()
}

func mtx(name string, m *sync.Mutex) lockProbe {
	return lockProbe{name, func() bool {
		if m.TryLock() {
			m.Unlock()
			return true
		}
		return false
	}, func() { m.Unlock() }}
}

func globalProbes() []lockProbe {
	return []lockProbe{
		mtx("Mutex_net", &network.Mutex_net),
		mtx("MutexRcv", &network.MutexRcv),
		mtx("TxMutex", &txpool.TxMutex),
		mtx("FriendsAccess", &network.FriendsAccess),
		mtx("ExternalIpMutex", &network.ExternalIpMutex),
		mtx("CompactBlocksMutex", &network.CompactBlocksMutex),
		mtx("HammeringMutex", &network.HammeringMutex),
		mtx("CachedBlocksMutex", &network.CachedBlocksMutex),
		mtx("CounterMutex", &common.CounterMutex),
		mtx("Last.Mutex", &common.Last.Mutex),
		mtx("BlockIndexAccess", &common.BlockChain.BlockIndexAccess),
		{"peersdb", peersdb.VerifLockFree, func() { peersdb.Unlock() }},
		{"mutex_cfg", common.VerifCfgLockFree, func() { common.UnlockCfg() }},
	}
}

type Runner struct {
	e      *Env
	conn   *network.OneConnection
	nconn  int
	probes []lockProbe

	lastCollector bool               // blocktxn: a compact-block collector existed for the named block before the call
	lastOurs      bool               // getmpdone: a getmp request was pending and the global ticket was this connection's before the call
	lastPending   int                // getdata: bytes of postponed requests (c.unfinished_getdata) before the call, -1 = none
	lastState     network.VerifState // connection state after the last call (zero if the connection was abandoned)

	// the Run stream (runreal.go)
	nrun             int
	pool             *network.OneConnection // a finished run-stream connection object that may be recycled
	lastRunCollector bool
	lastRunState     network.VerifState
	stale            bool            // the direct stream's connection object is to be replaced before the next case
	ageObs           []AgeObs        // direct stream: what the @age steps of the last case saw (penalty.go)
	TickBudget       int             // how many whole tick periods the Run stream may still wait for (cfg.go)
	tickPaid         map[string]bool // (runnable is asked more than once per case)
}

func NewRunner(e *Env) *Runner { return &Runner{e: e, probes: globalProbes()} }

func (r *Runner) fresh() *network.OneConnection {
	if r.conn != nil {
		r.conn.VerifRegister(false)
	}
	r.nconn++
	ip := [4]byte{45, byte(r.nconn >> 16), byte(r.nconn >> 8), byte(r.nconn)}
	r.conn = network.VerifNewConn(ip, 8333, true, nil)
	r.conn.VerifRegister(true)
	return r.conn
}

// prepare puts the (reused) connection into the protocol state the case asks for.
func (r *Runner) prepare(cs Case) *network.OneConnection {
	c := r.conn
	if c == nil || r.stale {
		// (stale: the previous case had a configuration history - whatever it left in the object must not be
		// met by a later case whose replay would not contain that history)
		c = r.fresh()
		r.stale = false
	}
	c.VerifReset()
	c.X = network.ConnectionStatus{ConnectedAt: time.Now(), Incomming: true}
	if cs.reconfigures() {
		// what Run sets before its loop (a connection that has just received data and is not due for a ping)
		c.X.LastDataGot = time.Now()
		c.LastPingSent = time.Now()
	}
	c.Node = network.NetworkNodeStruct{}
	c.InvDone.History = nil
	c.InvDone.Idx = 0
	c.InvDone.Map = make(map[uint64]uint32)
	c.PendingInvs = nil
	c.PingInProgress = nil
	for k := range c.GetBlockInProgress {
		delete(c.GetBlockInProgress, k)
	}
	// a getmp request left pending by an earlier case (signed authack), and the global ticket a Tick of
	// this object may have taken for it
	for len(c.GetMP) > 0 {
		<-c.GetMP
	}
	for len(txpool.GetMPInProgressTicket) > 0 {
		<-txpool.GetMPInProgressTicket
	}
	r.preset(c, cs)
	return c
}

// preset puts a connection into the protocol state the case asks for (the state a version handshake
// with a current Bitcoin Core peer leaves, unless the case says "nover").
func (r *Runner) preset(c *network.OneConnection, cs Case) {
	if !cs.has("nover") {
		c.X.VersionReceived = true
		c.Node.Version = 70016
		c.Node.Services = 0x409
		c.Node.Agent = "/Satoshi:27.0.0/"
		c.Node.Height = 100
	}
	r.presetFlags(c, cs)
}

// presetFlags: the flags that are set directly whether or not the handshake is done through Run.
func (r *Runner) presetFlags(c *network.OneConnection, cs Case) {
	if cs.has("auth") || cs.has("trusted") {
		c.X.Authorized = true // (in the Run stream "trusted" is reached through a real xauth, which sets it itself)
	}
	if cs.has("ackgot") {
		c.X.AuthAckGot = true // the peer's authack was accepted; no AES context (VerifReset dropped it)
	}
	if cs.has("cv2") {
		c.Node.SendCmpctVer = 2
	}
	if cs.has("ahr") {
		c.X.AllHeadersReceived = true
	}
}

// call runs f with a recover and a time limit; it returns the panic text (with the first
// interesting stack frame) and whether it hung.
func call(limit time.Duration, f func()) (pan, where string, hang bool, dur time.Duration, done chan struct{}) {
	done = make(chan struct{})
	t0 := time.Now()
	go func() {
		defer func() {
			if x := recover(); x != nil {
				pan = fmt.Sprint(x)
				where = frame(string(debug.Stack()))
			}
			close(done)
		}()
		f()
	}()
	select {
	case <-done:
	case <-time.After(limit):
		hang = true
	}
	dur = time.Since(t0)
	return
}

// frame finds the innermost gocoin function on a panic stack.
func frame(st string) string {
	lines := strings.Split(st, "\n")
	for _, l := range lines {
		if strings.HasPrefix(l, "github.com/piotrnar/gocoin/") && !strings.Contains(l, "Verif") {
			l = strings.TrimPrefix(l, "github.com/piotrnar/gocoin/")
			if i := strings.LastIndex(l, "("); i > 0 {
				l = l[:i]
			}
			return l
		}
	}
	return "?"
}

// Do delivers the case to the real handler and observes.
func (r *Runner) Do(cs Case) (o Obs) {
	// configuration changes at the head of the history: the operator made them BEFORE this peer connected - the
	// connection object is created (by the real NewConnection) under that configuration
	lead := 0
	if cs.reconfigures() {
		restoreCfg := saveCfg()
		defer func() {
			if !o.Hang { // (a stuck handler may hold the config lock)
				r.e.quiet()
				restoreCfg()
				r.e.loud()
			}
		}()
		r.e.quiet()
		for lead < len(cs.Seq) && cs.Seq[lead].Cmd == "@cfg" {
			applyCfg(cs.Seq[lead].Pl)
			lead++
		}
		r.e.loud()
		if lead > 0 {
			r.stale = true
		}
	}
	c := r.prepare(cs)
	r.ageObs = nil
	pl := cs.payload()
	if len(pl) == 0 && cs.Cmd != "pong0" {
		pl = nil // FetchMessage hands a nil payload for zero-length messages
	}
	r.e.quiet()
	if cs.has("dupsid") {
		installDupSid()
		defer removeDupSid()
	}
	limit := 20 * time.Second
	switch {
	case cs.has("fulldb"):
		r.e.UseFullDB(0)
	case cs.has("fulldb-1"):
		r.e.UseFullDB(-1)
	case cs.has("fulldb+1"):
		r.e.UseFullDB(1)
	}
	if strings.Contains(cs.Pre, "fulldb") {
		defer r.e.UseNormalDB()
		limit = 3 * time.Second // the watchdog: a handler that waits for a lock it holds itself never returns
	}
	slow := cs.slow()
	if slow {
		limit = 3 * time.Second
		if n := cs.sbfill(); n >= 0 {
			// the state a history of replies to a peer that does not read leaves behind: n bytes queued
			// (ring position chosen from the payload so that the wrap-around of the ring varies)
			at := 0
			if len(pl) > 0 {
				at = (int(pl[0])<<16 | len(pl)) & network.SendBufMask
			}
			c.SendBufCons = at
			c.SendBufProd = (at + n) & network.SendBufMask
		}
	}
	pan, where, hang, dur, done := call(limit, func() {
		for _, m := range cs.Seq[lead:] {
			switch m.Cmd {
			case "@cfg":
				applyCfg(m.Pl)
				continue
			case "@tick":
				// what Run does between two messages every PeerTickPeriod (the argument is Run's `now`)
				c.Tick(time.Now().Add(time.Duration(tickAhead(m)) * time.Second))
				if !slow {
					c.VerifDrainSent()
				}
				continue
			case "@age":
				// time passes with the connection kept alive, then Run's next Tick (penalty.go)
				r.ageStep(c, tickAhead(m))
				if !slow {
					c.VerifDrainSent()
				}
				continue
			}
			b, _ := hex.DecodeString(m.Pl)
			c.VerifDispatch(m.Cmd, b, cs.has("trusted"))
			if !slow {
				c.VerifDrainSent()
			}
		}
		for i := 0; i < cs.Rep; i++ {
			if c.IsBroken() { // Run's loop ends here
				break
			}
			c.VerifDispatch(cs.Cmd, pl, cs.has("trusted"))
			if !slow {
				c.VerifDrainSent()
			}
		}
		// getdata: the bytes of an earlier request that was postponed (send buffer over half full), -1 = none
		r.lastPending = -1
		if n := c.VerifState().GetdataPending; n > 0 {
			r.lastPending = n
		}
		// getmpdone: a getmp request of this connection is pending and the global ticket is its own
		r.lastOurs = len(c.GetMP) > 0 && len(txpool.GetMPInProgressTicket) > 0 && network.GetMPInProgressConnID.Get() == int(c.ConnID)
		r.lastCollector = false
		if cs.Cmd == "blocktxn" && len(pl) >= 32 {
			r.lastCollector = c.VerifCollectorFor(btc.NewUint256(pl[:32]).BIdx()) != nil
		}
		if cs.Cmd == "@wire" {
			ms := c.VerifFetch(pl, 64)
			o.Branch = fmt.Sprintf("fetched:%d", len(ms))
			for _, m := range ms {
				o.Branch += " " + m.Cmd + ":" + fmt.Sprint(len(m.Pl))
			}
			return
		}
		o.Branch = c.VerifDispatch(cs.Cmd, pl, cs.has("trusted"))
	})
	r.e.loud()
	o.Panic, o.Where, o.Hang, o.Ms = pan, where, hang, float64(dur.Microseconds())/1000
	// locks
	abandon := hang
	if pan != "" {
		abandon = true // whatever the panic left half-done in the connection object must not leak into the next case
	}
	if !hang {
		if c.Mutex.TryLock() {
			c.Mutex.Unlock()
		} else {
			o.Locks = append(o.Locks, "c.Mutex")
			abandon = true
		}
		for _, p := range r.probes {
			if !p.try() {
				o.Locks = append(o.Locks, p.name)
				p.free() // so that the run can go on
			}
		}
	} else {
		// the handler did not return within the watchdog limit: name the global locks that are held
		// (a handler blocked on a lock it took itself shows up here). Nothing is released: the
		// goroutine is still running, the caller stops the run.
		if c.Mutex.TryLock() {
			c.Mutex.Unlock()
		} else {
			o.Locks = append(o.Locks, "c.Mutex")
		}
		for _, p := range r.probes {
			if !p.try() {
				o.Locks = append(o.Locks, p.name)
			}
		}
		_ = done
	}
	sort.Strings(o.Locks)
	if cs.reconfigures() {
		r.stale = true
	}
	for !hang && len(txpool.GetMPInProgressTicket) > 0 {
		<-txpool.GetMPInProgressTicket // (taken by a Tick of this case for a pending getmp: the connection object lives on)
	}
	if !abandon {
		st := c.VerifState()
		r.lastState = st
		if st.Banit {
			o.Ban = st.BanReason
		}
		o.Misbehave = st.Misbehave
		if !slow { // (a send buffer filled to its limit is not parsed back; prepare() empties it)
			o.sentRaw = c.VerifDrainSent()
			for _, m := range o.sentRaw {
				o.Sent = append(o.Sent, fmt.Sprintf("%s:%d", m.Cmd, len(m.Pl)))
			}
		}
	} else if hang {
		// the handler is still inside the real code, possibly with Mutex_net held: the connection is
		// left alone (taking it off the list would need that lock); the caller stops the run
		r.lastState = network.VerifState{}
		r.conn = nil
	} else {
		r.lastState = network.VerifState{}
		r.fresh()
	}
	return
}

// installDupSid puts two mempool entries with the same transaction id under different keys: for a
// compact block whose short id matches that transaction this is exactly the state a 48-bit short-id
// collision between two mempool transactions produces (the peer chooses the siphash key through the
// 8-byte nonce of its cmpctblock message, so it can search for such a collision off-line).
func installDupSid() {
	tx := dupTx()
	txpool.TxMutex.Lock()
	txpool.TransactionsToSend[btc.BIDX{0xd1}] = &txpool.OneTxToSend{Tx: tx}
	txpool.TransactionsToSend[btc.BIDX{0xd2}] = &txpool.OneTxToSend{Tx: tx}
	txpool.TxMutex.Unlock()
}

func removeDupSid() {
	if txpool.TxMutex.TryLock() {
		defer txpool.TxMutex.Unlock()
	}
	delete(txpool.TransactionsToSend, btc.BIDX{0xd1})
	delete(txpool.TransactionsToSend, btc.BIDX{0xd2})
}

var dupTxCache *btc.Tx

func dupTx() *btc.Tx {
	if dupTxCache == nil {
		raw, _ := hex.DecodeString("0200000001" + strings.Repeat("11", 32) + "00000000" + "00" + "ffffffff" + "01" + "e803000000000000" + "0151" + "00000000")
		tx, _ := btc.NewTx(raw)
		tx.SetHash(raw)
		dupTxCache = tx
	}
	return dupTxCache
}
