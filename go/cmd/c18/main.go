// c18 — correspondence harness for property C18 (bytes from untrusted peers never crash or wedge the node).
package main

import (
	"encoding/json"
	"fmt"
	"os"

	"verif/vlib"
)

func main() {
	r := vlib.NewRun("C18")
	e := NewEnv(r.Rng.Fork())
	defer e.Close()
	rn := NewRunner(e)
	if os.Getenv("C18_PROBE") != "" {
		probe(e, rn)
		return
	}
	_ = rn
	r.Finish("todo", "todo")
}

func hx(s string) string { return s }

func probe(e *Env, rn *Runner) {
	for _, cs := range Corpus(e) {
		o := rn.Do(cs)
		if o.Panic != "" || len(o.Locks) > 0 || o.Hang || os.Getenv("C18_PROBE") == "all" {
			b, _ := json.Marshal(o)
			fmt.Println(cs.Note, cs.Cmd, len(cs.Pl)/2, string(b))
		}
	}
}

var _ = vlib.Hex
