// c18 — correspondence harness for property C18 (bytes from untrusted peers never crash or wedge the node).
//
// For every case (command, payload, protocol state) it
//   1. delivers the message to the REAL handler through the dispatch of client/network (verif hook) and
//      evaluates the property itself there: no panic, every lock free after return, bounded wall time;
//   2. asks the Lean model (oracle_c18, Model/NetParse.lean) for the outcome of the parsing layer and
//      compares: outcome class, reject reason (= the DoS / Misbehave reason the real code chose), and the
//      parsed fields where the real code exposes them (version fields, inv ids, response messages).
// A separate stream feeds raw wire bytes to FetchMessage, another one fuzzes the library entry points
// named by the property (NewTx, TxSize, NewBlock, VerifyTxScript, GetOpcode, signature / key parsers,
// NewAddrFromString) for panics and unbounded time.
package main

import (
	"encoding/binary"
	"encoding/hex"
	"encoding/json"
	"fmt"
	"os"
	"path/filepath"
	"sort"
	"strconv"
	"strings"
	"time"

	"github.com/piotrnar/gocoin/client/common"
	"github.com/piotrnar/gocoin/client/network"
	"github.com/piotrnar/gocoin/lib/btc"
	"verif/vlib"
)

// reasons the parsing layer (the model) can produce, per command
var parseReasons = map[string][]string{
	"version":     {"VerMsgTooShort", "VerMsgCorrupt", "VerTooLow", "VerNoSegwit", "VerNoService", "VerNullNonce"},
	"inv":         {"InvEmpty", "InvErr"},
	"getdata":     {"GetDataLenERR"},
	"addr":        {"AddrError"},
	"getblocks":   {"BadGetBlks"},
	"getheaders":  {"BadGetHdrsA", "BadGetHdrsB"},
	"headers":     {"HdrErrX", "HdrErr1", "HdrErr2"},
	"tx":          {"TxRejectedBroken", "TxRejectedLenMismatch"},
	"block":       {"ShortBlock"},
	"getblocktxn": {"GetBlockTxnShort", "GetBlockTxnEmpty", "GetBlockTxnERR", "GetBlockTxnIdx+"},
	"cmpctblock":  {"CmpctBlkErrA", "CmpctBlkErrB", "CmpctBlkErrB2", "CmpctBlkErrB3", "CmpctBlkErrC", "CmpctBlkErrD", "CmpctBlkErrE", "CmpctBlkErrF"},
	"blocktxn":    {"BlkTxnErrLen", "BlkTxnErrCnt", "BlkTxnErrTx"},
	"getmp":       {"GetMPError1", "GetMPError2"},
	"xauth":       {"XAuthMsgCnt", "XAuthMsgShort"},
}

// reasons chosen behind the parsing layer (not modelled): when the real handler leaves with one of
// these, the backend decided before / instead of the parser and there is nothing to compare.
var backendReasons = map[string][]string{
	"version":    {"VerSameNonce", "VerOurNonce"},
	"headers":    {"BadHeader"},
	"cmpctblock": {"BadCmpct"},
	"block":      {"BadBlock", "BadUnreqBlock"},
	"addr":       {"BadAdrFuture", "AddrFlood"},
	"getdata":    {"BadGetCmpctBlk", "SendBufferOverflow"},
	"blocktxn":   {"BadBlkTxnErrBip", "BadBlkTxnNoCOL", "BlkTxnErrMissing"},
	"getaddr":    {"BadSecondGetAddr"},
}

func in(s string, xs []string) bool {
	for _, x := range xs {
		if x == s {
			return true
		}
	}
	return false
}

type Model struct {
	Kind   string // ok | reject | panic
	Tag    string // ok tag / reject reason / panic site
	Nums   []uint64
	Blobs  [][]byte
	Locks  string
	Steps  int
	RawRep string
}

func parseModel(rep string) (m Model) {
	m.RawRep = rep
	f := strings.Fields(rep)
	if len(f) < 2 {
		m.Kind = "bad"
		return
	}
	m.Kind, m.Tag = f[0], f[1]
	rest := f[2:]
	if m.Kind == "ok" && len(rest) >= 2 {
		if rest[0] != "-" {
			for _, s := range strings.Split(rest[0], ",") {
				v, _ := strconv.ParseUint(s, 10, 64)
				m.Nums = append(m.Nums, v)
			}
		}
		if rest[1] != "-" {
			for _, s := range strings.Split(rest[1], ",") {
				m.Blobs = append(m.Blobs, vlib.UnHex(s))
			}
		}
		rest = rest[2:]
	}
	for _, x := range rest {
		if strings.HasPrefix(x, "L=") {
			m.Locks = x[2:]
		} else if strings.HasPrefix(x, "S=") {
			m.Steps, _ = strconv.Atoi(x[2:])
		}
	}
	return
}

type Harness struct {
	r  *vlib.Run
	e  *Env
	rn *Runner
	o  *vlib.Oracle

	cwd   string // scratch working directory (removed at the end)
	ncase int
}

const ruleText = "one case = (command, payload bytes, protocol state[, preceding messages / repetitions]), delivered through TWO streams: (1) framed on the wire to the real OneConnection.Run over a net.Pipe (fresh connection per case; version handshake through Run or state preset; for cases marked enc / trusted through the AES-GCM channel of a real xauth key exchange), (2) to the handler directly through the dispatch mirror; distinct = distinct (stream,command,state,payload); block bodies cut at and inside every transaction (child process) first, then the corpus of edge inputs and defect witnesses, three two-connection scenarios (abused fresh header then honest compact block; corrupt compact-block assembly A / B then honest full block), per-command structured generators with lying counts / CompactSize forms / wrapping counts (cmpctblock→blocktxn histories with 1-4 unresolved transactions answered with missing / repeated / unrequested / reordered transactions; authack unsigned / encrypted by a stranger / signed, payload 0 / 1 / n), a mutated copy of every third case, block / cmpctblock / cmpctblock→blocktxn for blocks that carry the Trusted mark (given by the operator's LastTrustedBlock through the real configuration path, by an authorised peer's encrypted channel, or left on a pending block by an earlier case) with txn_count / short-id / prefilled counts in every CompactSize form and in disagreement with the data (zero with and without transactions behind it, more, less, huge, cut), configuration histories (per run-time switch of the configuration: the operator changes it through the real set_config → common.Reset path while the peer is connected, the connection's Tick runs in between - in the direct stream also with the clock put forward -, ordinary messages in between, then any message of any command), penalty histories with elapsed time (periods of 0-3 penalising messages - second version, repeated getaddr, unrequested blocktxn, addr from the future, any structured message; or messages before a late version message -, each followed by 1 s .. 25 h passing with the connection kept alive - below / at / above the one-hour life time of a penalty record, around the 16-bit wrap of its time stamp - and the connection's Tick, then any message), raw wire bytes (FetchMessage, and the same bytes into Run), boundary lengths, addr/getaddr against a peers database at its record limit, a peer that does not read its socket (request histories up to the 16 MB send-buffer limit, and every replying command with the buffer preset around that limit; direct stream only), concurrent getdata/inv processing against inv routing in a child process, every handler + Tick + directed counting histories against a GetStats loop in a second child process, library entry points"
const explText = "Stream 1 runs the REAL Run: the harness is the peer on the other end of a net.Pipe, nothing of Run is copied - FetchMessage, the version gate, the switch and its inline handlers, Tick/SendInvs, the writing thread, Run's recover() and the tear-down after the loop all execute. Observed after the peer hung up (or the node ended the connection): Run returned within the watchdog time; it did not go through its recover() (report captured from stdout); it closed its socket (Close is the last statement of Run, behind writing_thread_done.Wait: an open socket means Run left through a `return` in the loop or a panic and leaked the writing thread, the descriptor and the in-progress counts); BlocksToGet in-progress counts back at 0, getmp ticket free; c.Mutex and 13 package-level locks free; ban reason / misbehaviour points / parsed fields / replies compared with the Lean model by the same verdict function as stream 2. Stream 2 calls the handlers through VerifDispatch (a clause-by-clause copy of Run's switch that gen_c18 compares with Run's source on every run) and checks panic / locks held after return (c.Mutex, Mutex_net, MutexRcv, TxMutex, peersdb, cfg and 7 more) / wall time (watchdog: a handler that does not return is a failure, the locks held meanwhile are named); it also carries the slow-reader and full-database presets. Block parsing (NewBlock + BuildTxList, and `block` messages behind an accepted header) runs in a child process, because a panic in one of BuildTxList's worker goroutines ends the process whatever recover() the callers have: the child records the input it is about to run, the parent reports the bytes. A second child process runs a connection's own thread (getdata, inv, SendInvs) concurrently with NetRouteInv/NetRouteInvExt and a statistics reader, so that an unsynchronised access to the connection's shared maps (a fatal runtime error no recover() can catch) becomes an observation; a third one runs one connection's thread through the corpus, every generator, Tick and nine directed histories (the second audit's 33-byte blocktxn for a block not in progress among them) against a statistics reader that calls GetStats as fast as it can, and the parent requires that the reader saw the counters those histories exist for. Configuration histories and the trusted-block family carry pseudo commands in a case's history: @cfg = the text console's set_config / the web interface's configuration page (config lock, unmarshal over CFG, the real common.Reset()), @tick = the connection's periodic Tick (Run stream: the harness waits for the real Run to tick - first round of its loop, then every PeerTickPeriod, with a budget of whole periods per run; direct stream: c.Tick(now + seconds)); @age = that many seconds pass while the peer keeps the connection alive, then the connection's Tick (the penalty records are moved into the past through a verif hook; Run stream: the real Run's next Tick; direct stream: c.Tick(now), points and records before / after compared with the Lean model of expire_misbehave, which is proved total); the configuration is restored through the same path after the case. For switches the parsing layer does not depend on the model's verdict is compared as usual, for the others only the property's predicate is evaluated. For every `block` case of the trusted family the model of btc.Block.BuildTxListExt (Model/NetParseState.lean: decoding of txn_count with its refusal of zero, transaction loop) is compared with the real function on a block object made from the header with the payload assigned to Raw (as netBlockReceived does), and CalcMerkle's last index for 0..4 hashes. Theorems (Props/C18) are about the model of the parsing layer, about the connection's map-typed fields under every history of function runs (conn_maps_total, on the assignment facts regenerated from the source), about PostCheckBlock's front + BuildTxListExt for trusted and untrusted blocks (postcheck_total, skeleton facts regenerated from lib/btc and lib/chain) and about the lock discipline facts regenerated from the source (including: no call, with a mutex held, of a function that locks the same mutex; no explicit panic between a Lock and its non-deferred Unlock except two proved unreachable); the backend behind the parser is exercised but not modelled. The library entry points (tx, block, script, signature, public key, address parsers) are FUZZED ONLY (panic / time), with no model beyond C09's Wire for the transaction decoder."

// finish removes the scratch directories (vlib's Finish exits the process) and reports.
func (h *Harness) finish(rule, expl string, wedged bool) {
	if h.o != nil {
		h.o.Close()
	}
	if !wedged && common.CounterMutex.TryLock() {
		// GetHeaders has a recover() of its own (hdrs.go: "FindPathTo() will panic" for orphaned blocks): a panic behind
		// it is invisible to both streams' panic observation. It counts them; the harness's chain has no orphans.
		h.r.Extra["getheaders_own_recover_count"] = common.Counter["GetHeadersOrphBlk"]
		common.CounterMutex.Unlock()
	}
	if !wedged {
		h.e.Close()
	} else {
		os.RemoveAll(h.e.Dir) // a handler is still stuck inside the real code: do not call into it again
	}
	if h.cwd != "" {
		os.Chdir(os.TempDir())
		os.RemoveAll(h.cwd)
	}
	h.r.Finish(rule, expl)
}

// pendingHeader returns the header of a block waiting in BlocksToGet (nil if none).
func pendingHeader(g *vlib.Rng) []byte {
	network.MutexRcv.Lock()
	defer network.MutexRcv.Unlock()
	var ks []btc.BIDX
	for k := range network.BlocksToGet {
		ks = append(ks, k)
	}
	if len(ks) == 0 {
		return nil
	}
	sort.Slice(ks, func(i, j int) bool { return string(ks[i][:]) < string(ks[j][:]) })
	b := network.BlocksToGet[ks[g.Intn(len(ks))]]
	if b.Block == nil || len(b.Block.Raw) < 80 {
		return nil
	}
	return append([]byte{}, b.Block.Raw[:80]...)
}

// housekeeping between cases: the queues the main thread would drain, in-progress counters.
func housekeeping() {
	for len(network.NetBlocks) > 0 {
		<-network.NetBlocks
	}
	for len(network.NetTxs) > 0 {
		t := <-network.NetTxs
		_ = t
	}
	network.MutexRcv.Lock()
	for _, b := range network.BlocksToGet {
		b.InProgress = 0
	}
	network.MutexRcv.Unlock()
}

// headerAccepted: will ProcessNewHeader hand back a block-to-get for this header?
func (h *Harness) headerAccepted(hdr []byte) bool {
	hash := btc.NewSha2Hash(hdr[:80])
	network.MutexRcv.Lock()
	defer network.MutexRcv.Unlock()
	if _, ok := network.BlocksToGet[hash.BIdx()]; ok {
		return true
	}
	if _, ok := network.ReceivedBlocks[hash.BIdx()]; ok {
		return false
	}
	return h.e.fullOf(hdr) != nil
}

func (h *Harness) key(cs Case, s *stream) string {
	o := s.o
	if strings.HasPrefix(cs.Note, "W:") {
		return cs.Note[2:]
	}
	what := "panic"
	if o.Panic == "" {
		what = "lock:" + strings.Join(o.Locks, "+")
		if len(o.Locks) == 0 {
			what = "slow"
			if s.run && !s.ro.Closed {
				what = "leak"
			} else if s.run && s.ro.InProgress != 0 {
				what = "inprogress"
			} else if s.run && s.ro.Ticket != 0 {
				what = "ticket"
			}
		}
		if o.Hang {
			what = "hang:" + strings.Join(o.Locks, "+")
		}
	}
	w := o.Where
	if i := strings.LastIndex(w, "."); i >= 0 {
		w = w[i+1:]
	}
	if s.run && w == "" {
		w = "Run"
	}
	if cs.Note == "age" {
		return "age:" + what + ":" + w // (the cause lies in the history, whatever the last message is)
	}
	return cs.Cmd + ":" + what + ":" + w
}

// stream is what one delivery of a case (through the real Run, or to the handler directly) produced.
type stream struct {
	run       bool // delivered through the real OneConnection.Run over a net.Pipe
	o         Obs
	ro        RunObs
	conn      *network.OneConnection
	st        network.VerifState
	accepted  bool // cmpctblock: the header was acceptable when the message was delivered
	collector bool // blocktxn: a collector existed for the named block when the message was delivered
}

func (s *stream) name() string {
	if s.run {
		return "run"
	}
	return "direct"
}

// One runs a case through the real code - first stream: the real Run over a pipe, second stream: the
// handler called directly - and through the model, and records the verdicts.
func (h *Harness) One(cs Case) {
	if cs.Cmd == "@conc" {
		if cs.Conc != nil {
			h.concOne(cs)
		}
		return
	}
	if cs.Cmd == "@child" {
		if cs.Child != nil {
			h.childOne(cs)
		}
		return
	}
	h.ncase++
	order := []bool{true, false}
	if h.ncase%2 == 0 {
		order = []bool{false, true} // global state (headers seen, blocks pending) is shared: alternate who goes first
	}
	for _, run := range order {
		if run && (!h.rn.runnable(cs) || os.Getenv("C18_NORUN") != "") {
			continue
		}
		if !run && (cs.has("enc") || os.Getenv("C18_NODIRECT") != "") {
			continue // an encrypted message from a peer nobody trusts exists on the wire only
		}
		if !h.deliver(cs, run) {
			return
		}
	}
}

// deliver runs one stream of a case and judges it; false: the run has to stop (a handler hangs).
func (h *Harness) deliver(cs Case, run bool) bool {
	r := h.r
	pl := cs.payload()
	s := &stream{run: run}
	if cs.Cmd == "cmpctblock" && len(pl) >= 80 {
		s.accepted = h.headerAccepted(pl[:80])
	}
	if run {
		s.o, s.ro, s.conn = h.rn.DoRun(cs)
		s.st, s.collector = h.rn.lastRunState, h.rn.lastRunCollector
	} else {
		s.o = h.rn.Do(cs)
		s.conn, s.st, s.collector = h.rn.conn, h.rn.lastState, h.rn.lastCollector
	}
	o := s.o
	if thr, _ := strconv.Atoi(os.Getenv("C18_SLOW")); thr > 0 && o.Ms > float64(thr) {
		fmt.Fprintf(os.Stderr, "SLOW %s %s %s %d bytes %.0f ms branch=%s\n", s.name(), cs.Note, cs.Cmd, len(pl), o.Ms, o.Branch)
	}
	if !o.Hang { // (a handler that is stuck may hold MutexRcv: nothing of the package is touched any more)
		housekeeping()
	}
	kind := "cmd:"
	if run {
		kind = "run:"
	}
	hist := ""
	if cs.reconfigures() {
		kind = "cfg-" + kind
		for _, m := range cs.Seq {
			if m.Cmd[0] == '@' {
				hist += m.Cmd + m.Pl
			}
		}
	}
	r.Eval(kind+cs.Cmd, s.name()+cs.Cmd+cs.Pre+cs.Pl+fmt.Sprint(len(cs.Seq))+hist)
	if !run || !h.rn.runnable(cs) {
		r.Hit("src:" + strings.SplitN(cs.Note, ":", 2)[0])
		if cs.has("nover") {
			r.Hit("state:before-version")
		} else {
			r.Hit("state:after-version")
		}
		r.Hit(fmt.Sprintf("len:%s", lenClass(len(pl))))
	}
	if run {
		if s.ro.Handshake {
			r.Hit("run:handshake-through-Run")
		} else {
			r.Hit("run:state-preset")
		}
		if s.ro.Encrypted {
			r.Hit("run:aes-gcm-channel")
		}
		if s.ro.PeerHungUp {
			r.Hit("run:ended-by-peer-hangup")
		} else {
			r.Hit("run:ended-by-node")
		}
	}
	r.Sample(map[string]interface{}{"stream": s.name(), "cmd": cs.Cmd, "pre": cs.Pre, "len": len(pl), "pl": clip(cs.Pl), "branch": o.Branch, "ban": o.Ban, "panic": o.Panic})

	// ---- 1. the property on the real code
	replay := map[string]interface{}{"case": cs, "observed": o, "stream": s.name()}
	if run {
		replay["run"] = s.ro
	}
	slowMs := 4000.0
	if run {
		slowMs = 8000
	}
	leak := run && !o.Hang && (!s.ro.Closed || s.ro.InProgress != 0 || s.ro.Ticket != 0)
	if o.Panic != "" || len(o.Locks) > 0 || o.Hang || o.Ms > slowMs || leak {
		what := fmt.Sprintf("%s payload of %d bytes", cs.Cmd, len(pl))
		if run {
			what += " delivered to the real Run over a pipe"
			if s.ro.Encrypted {
				what += " (through the AES-GCM channel of an xauth key exchange)"
			}
		}
		what += ": "
		if o.Panic != "" {
			what += "handler panics (" + o.Panic + " in " + o.Where + ")"
			if run {
				what += " - caught by Run's recover(), which ends Run without its tear-down"
			}
		}
		if n := cs.ages(); n > 0 {
			what += fmt.Sprintf(" [history of %d messages on this connection with %d period(s) of elapsed time, the connection's Tick after each: the panic may be the Tick's]", len(cs.Seq)-n, n)
		}
		if len(o.Locks) > 0 && !o.Hang {
			what += " locks still held after return: " + strings.Join(o.Locks, ",")
		}
		if o.Hang {
			if run {
				what += fmt.Sprintf("Run does not return after the peer hung up (watchdog after %.0f ms); locks held while it is stuck: %s", o.Ms, strings.Join(o.Locks, ","))
			} else {
				what += fmt.Sprintf("handler does not return (watchdog after %.0f ms); locks held while it is stuck: %s", o.Ms, strings.Join(o.Locks, ","))
			}
			if cs.slow() {
				what += fmt.Sprintf(" [peer that does not read its socket: %d message(s) before this one, %d unsent bytes preset]", len(cs.Seq)+cs.Rep, maxInt(cs.sbfill(), 0))
			}
		} else if o.Ms > slowMs {
			what += fmt.Sprintf(" ran %.0f ms", o.Ms)
		}
		if leak {
			if !s.ro.Closed {
				what += fmt.Sprintf(" Run returned WITHOUT closing the socket, i.e. not through its tear-down (writing_thread_done.Wait, InProgress--, ban bookkeeping, Conn.Close): %d goroutine(s) still in writing_thread, the file descriptor stays open, the connection is neither banned nor marked broken", s.ro.Writers)
			}
			if s.ro.InProgress != 0 {
				what += fmt.Sprintf(" BlocksToGet in-progress counts not restored after the connection ended (sum %d)", s.ro.InProgress)
			}
			if s.ro.Ticket != 0 {
				what += " the global getmp ticket is still taken after the connection ended"
			}
		}
		r.PropFail(h.key(cs, s), what, replay)
		r.Hit("real:FAIL")
		if o.Hang {
			// the goroutine is still inside the handler (possibly holding locks): the state of the
			// process can no longer be trusted, report what was found and stop
			h.finish(ruleText+" (run stopped at the first handler that did not return)", explText, true)
			return false
		}
		return true
	}
	if run {
		r.Hit("run:ban=" + o.Ban)
		if s.ro.SetupFailed != "" {
			r.TieFail("run:setup:"+cs.Cmd, "the connection could not be brought into the state the case asks for: "+s.ro.SetupFailed, replay)
			return true
		}
	} else {
		r.Hit("real:ban=" + o.Ban)
	}

	// ---- 1a. a history in which the operator changed a switch the parsing layer depends on (or the clock
	//          was put forward for a Tick): the model describes the handlers under the configuration the
	//          harness starts with - the property itself has been evaluated above, nothing to compare
	if !run && len(h.rn.ageObs) > 0 {
		h.ageVerdict(cs, replay)
	}
	if cs.reconfigures() {
		r.Hit("cfg:stream=" + s.name())
		if !cs.cfgNeutral() {
			r.Hit("cfg:property-only")
			return true
		}
	}

	// ---- 1b. a peer that does not read: the only things that may happen when a reply does not fit are
	//          the ban SendBufferOverflow, or nothing queued at all (no model of the send path: the
	//          predicate is evaluated on the real connection state)
	if cs.slow() {
		if cs.Cmd == "getdata" && !cs.has("nover") && cs.Rep == 0 && !h.pendingVerdict(cs, o, replay) {
			return true
		}
		h.slowVerdict(cs, o, replay)
		return true
	}

	// ---- 1c. the Run stream has FetchMessage in front of the handlers: a payload over the per-command limit
	//          (the mutated stream produces them) must be refused there, whatever the handler would say
	if run && cs.Cmd != "@wire" {
		lim := int(network.VerifMaxMsgSize(cs.Cmd))
		if s.ro.Encrypted {
			lim += 28 // nonce + tag of the AES-GCM frame
			pl = append(pl, make([]byte, 28)...)
		}
		if len(pl) > lim {
			if o.Ban != "Big-"+cs.Cmd {
				r.TieFail("run:limit:"+cs.Cmd, fmt.Sprintf("%s payload of %d bytes is over the limit of %d: expected ban Big-%s, got %q", cs.Cmd, len(pl), lim, cs.Cmd, o.Ban), replay)
			} else {
				r.Hit("run:over-the-size-limit")
				r.TieOK()
			}
			return true
		}
		pl = cs.payload()
	}

	// ---- 2. the model
	tieKey := func(k string) string {
		if run {
			return "run:" + k
		}
		return k
	}
	if cs.Cmd == "@wire" {
		h.compareWire(cs, s, replay)
		return true
	}
	if cs.has("nover") && cs.Cmd != "version" {
		if (!run && o.Branch != "nover") || o.Misbehave != 100 || o.Ban != "" {
			r.TieFail(tieKey("gate:"+cs.Cmd), fmt.Sprintf("message before version was not answered with Misbehave(NoVer…,100): branch=%q misbehave=%d ban=%q", o.Branch, o.Misbehave, o.Ban), replay)
		} else {
			r.TieOK()
		}
		return true
	}
	if !cs.has("nover") && cs.Cmd == "version" {
		if (!run && o.Branch != "version-again") || o.Misbehave != 100 {
			r.TieFail(tieKey("gate:version"), "second version not refused", replay)
		} else {
			r.TieOK()
		}
		return true
	}
	envNtx := -1
	authGot := "0"
	switch cs.Cmd {
	case "getblocktxn":
		if len(pl) >= 32 {
			// the block store is keyed by the first 8 bytes of the hash (btc.BIDX)
			for k, n := range h.e.NTx {
				if string(k[:8]) == string(pl[:8]) {
					envNtx = n
				}
			}
		}
	case "xauth":
		for _, m := range cs.Seq {
			if m.Cmd == "xauth" {
				authGot = "1"
			}
		}
		if run && s.ro.Encrypted {
			authGot = "1" // the key exchange was this connection's one xauth
		}
	}
	auth, trusted := "0", "0"
	if cs.has("auth") || cs.has("trusted") {
		auth = "1"
	}
	if cs.has("trusted") {
		trusted = "1"
	}
	if run && s.ro.Encrypted && !cs.has("trusted") {
		auth = "0" // the key exchange of a peer whose key is not listed clears Authorized (ver.go AuthRvcd)
	}
	ours := "0"
	if !run && cs.Cmd == "getmpdone" && h.rn.lastOurs {
		ours = "1" // (direct stream only: the Run stream cannot look into the connection between two messages)
		r.Hit("getmpdone:ticket-ours")
	}
	req := fmt.Sprintf("h 1 %s %d %s %s %s -1 %s %s", cs.Cmd, envNtx, authGot, auth, trusted, ours, vlib.Hex(pl))
	m := parseModel(h.o.MustAsk(req))
	replay["model"] = m.RawRep
	if !run {
		r.Hit("model:" + m.Kind + ":" + m.Tag)
	}
	if m.Kind == "bad" || m.RawRep == "bad-op" {
		r.TieFail("oracle:"+cs.Cmd, "oracle refused the request", replay)
		return true
	}
	fail := func(why string) {
		r.TieFail(tieKey("tie:"+cs.Cmd+":"+m.Kind+":"+m.Tag), cs.Cmd+" ["+s.name()+" stream]: "+why+" (model: "+clip(m.RawRep)+"; real: branch="+o.Branch+" ban="+o.Ban+fmt.Sprintf(" misbehave=%d sent=%v", o.Misbehave, o.Sent)+")", replay)
	}
	if m.Locks != "-" {
		fail("model says locks are held at exit but the real handler returned with all locks free")
		return true
	}
	reasons := parseReasons[cs.Cmd]
	if o.Ban != "" && in(o.Ban, backendReasons[cs.Cmd]) && m.Kind != "panic" {
		r.Hit("tie:backend-decided:" + o.Ban)
		r.TieOK()
		return true
	}
	switch m.Kind {
	case "panic":
		fail("model panics, real handler does not")
		return true
	case "reject":
		want := m.Tag
		if cs.Cmd == "version" {
			want = "Ver" + want
		}
		switch {
		case cs.Cmd == "cmpctblock" && !s.accepted && m.Tag != "CmpctBlkErrA":
			// the header was refused before parsing started: backend outcome, nothing to compare
		case cs.Cmd == "blocktxn" && m.Tag == "BlkTxnErrTx" && (!s.collector || o.Ban == ""):
			// no collector, block already complete, or an unknown short id first: the handler left the
			// transaction loop silently before it reached the undecodable transaction
		case m.Tag == "TxRejectedNoInputs":
			if o.Misbehave < 100 {
				fail("expected Misbehave(TxRejectedNoInputs)")
				return true
			}
		default:
			if o.Ban != want {
				fail("reject reason differs")
				return true
			}
		}
	case "ok":
		if o.Ban != "" && in(o.Ban, reasons) && !(cs.Cmd == "version") {
			fail("real handler rejected at the parsing layer, model accepts")
			return true
		}
		if why := h.compareFields(cs, s, m); why != "" {
			fail(why)
			return true
		}
	}
	r.TieOK()
	return true
}

// pendingVerdict: getdata to a connection whose send buffer is being filled (direct stream). The model's
// ProcessGetData takes the number of bytes an earlier, postponed request left in c.unfinished_getdata
// (Model/NetParse.lean processGetData `pending`): the new entries are appended, or the peer is banned
// GetDataTooBigA when the two together pass 36*50000 bytes. Without a pending request and with the buffer over
// half full the real handler postpones the whole request at its first entry (not modelled: checked here directly).
// false = a mismatch was reported.
func (h *Harness) pendingVerdict(cs Case, o Obs, replay map[string]interface{}) bool {
	r := h.r
	p := h.rn.lastPending
	st := h.rn.lastState
	pl := cs.payload()
	m := parseModel(h.o.MustAsk(fmt.Sprintf("h 1 getdata -1 0 0 0 %d 0 %s", p, vlib.Hex(pl))))
	replay["model"] = m.RawRep
	replay["pending_before"] = p
	fail := func(why string) bool {
		r.TieFail("tie:getdata-pending:"+m.Kind+":"+m.Tag, fmt.Sprintf("getdata with %d bytes of postponed requests pending: %s (model: %s; real: ban=%q pending afterwards=%d)", p, why, clip(m.RawRep), o.Ban, st.GetdataPending), replay)
		return false
	}
	r.Hit("model:pending:" + m.Kind + ":" + m.Tag)
	switch {
	case m.Kind == "bad" || m.RawRep == "bad-op":
		r.TieFail("oracle:getdata", "oracle refused the request", replay)
		return false
	case o.Ban == "SendBufferOverflow":
		return true // the send path decided (slowVerdict)
	case m.Kind == "reject":
		if o.Ban != m.Tag {
			return fail("reject reason differs")
		}
	case m.Kind == "ok" && m.Tag == "getdata-appended":
		if o.Ban != "" || len(m.Nums) != 1 || uint64(st.GetdataPending) != m.Nums[0] {
			return fail("the request was not appended to the pending one")
		}
	case m.Kind == "ok" && m.Tag == "getdata-noop":
		want := p
		if want < 0 {
			want = 0
		}
		if o.Ban != "" || st.GetdataPending != want {
			return fail("an undecodable count changed something")
		}
	case m.Kind == "ok" && m.Tag == "getdata" && p < 0:
		// no pending request: the loop runs; with the buffer over half full already it stops before its first entry
		if fill := cs.sbfill(); fill > network.SendBufSize/2 && len(cs.Seq) == 0 && len(m.Nums) > 0 && m.Nums[0] > 0 {
			if o.Ban != "" || uint64(st.GetdataPending) != 36*m.Nums[0] {
				return fail(fmt.Sprintf("send buffer over half full (%d bytes): the whole request should have been postponed", fill))
			}
			r.Hit("slow:getdata-postponed")
		}
	case m.Kind == "panic":
		return fail("model panics, real handler does not")
	default:
		return fail("unexpected model answer")
	}
	r.TieOK()
	return true
}

// slowVerdict: what the send path must have done for a peer that does not read.
func (h *Harness) slowVerdict(cs Case, o Obs, replay map[string]interface{}) {
	r := h.r
	st := h.rn.lastState
	r.Hit("slow:ban=" + o.Ban)
	if st.SentBytes < 0 || st.SentBytes >= network.SendBufSize {
		r.TieFail("slow:"+cs.Cmd, fmt.Sprintf("send buffer accounting out of range: %d bytes queued", st.SentBytes), replay)
		return
	}
	if fill := cs.sbfill(); fill >= 0 && cs.Cmd == "ping" && !cs.has("nover") && cs.Rep == 0 && len(cs.Seq) == 0 {
		// the pong is as long as the ping: the outcome is known exactly
		need := len(cs.payload()) + 24
		if network.SendBufSize-fill <= need {
			if o.Ban != "SendBufferOverflow" || st.SentBytes != fill {
				r.TieFail("slow:ping", fmt.Sprintf("a pong of %d bytes does not fit behind %d queued bytes: expected ban SendBufferOverflow and nothing queued, got ban=%q queued=%d", need, fill, o.Ban, st.SentBytes), replay)
				return
			}
			r.Hit("slow:overflow-branch")
		} else if o.Ban != "" || st.SentBytes != fill+need {
			r.TieFail("slow:ping", fmt.Sprintf("a pong of %d bytes fits behind %d queued bytes: expected it queued, got ban=%q queued=%d", need, fill, o.Ban, st.SentBytes), replay)
			return
		}
	} else if o.Ban == "SendBufferOverflow" {
		r.Hit("slow:overflow-branch")
	}
	if cs.Rep > 0 && o.Ban != "SendBufferOverflow" && !cs.has("nover") && cs.Cmd == "ping" {
		r.TieFail("slow:history", fmt.Sprintf("%d pings of %d bytes to a peer that does not read did not end in SendBufferOverflow (ban=%q, %d bytes queued)", cs.Rep+1, len(cs.payload()), o.Ban, st.SentBytes), replay)
		return
	}
	r.TieOK()
}

func maxInt(a, b int) int {
	if a > b {
		return a
	}
	return b
}

func clip(s string) string {
	if len(s) > 160 {
		return s[:160] + "…"
	}
	return s
}

func lenClass(n int) string {
	switch {
	case n == 0:
		return "0"
	case n < 37:
		return "1-36"
	case n < 90:
		return "37-89"
	case n < 1025:
		return "90-1024"
	case n < 100000:
		return "1k-100k"
	}
	return ">100k"
}

// compareFields checks what the real code exposes of the parsed data against the model's fields.
func (h *Harness) compareFields(cs Case, s *stream, m Model) string {
	c, o, accepted := s.conn, s.o, s.accepted
	if c == nil {
		return "no connection state to compare with"
	}
	switch cs.Cmd {
	case "version":
		if (!s.run && o.Branch != "version") || o.Ban != "" {
			return "model accepts the version message, real code refused: " + o.Ban
		}
		n := c.Node
		if len(m.Nums) != 7 || len(m.Blobs) < 1 {
			return "model reply malformed"
		}
		agent := []byte{}
		if len(m.Blobs) > 1 {
			agent = m.Blobs[1]
		}
		dnr := uint64(0)
		if n.DoNotRelayTxs {
			dnr = 1
		}
		if uint64(n.Version) != m.Nums[0] || n.Services != m.Nums[1] || n.Timestamp != m.Nums[2] || uint64(n.ReportedIp4) != m.Nums[3] ||
			uint64(n.Height) != m.Nums[4] || dnr != m.Nums[6] || string(n.Nonce[:]) != string(m.Blobs[0]) || n.Agent != string(agent) {
			return fmt.Sprintf("parsed version fields differ: real ver=%d svc=%x ts=%d ip=%x h=%d dnr=%d agent=%q", n.Version, n.Services, n.Timestamp, n.ReportedIp4, n.Height, dnr, n.Agent)
		}
		if !c.X.VersionReceived || !in("verack:0", o.Sent) {
			return "no verack / VersionReceived not set"
		}
	case "inv", "getdata":
		if m.Tag == "getdata-noop" {
			return ""
		}
		want := int(m.Nums[0])
		if want > network.MAX_INV_HISTORY {
			want = network.MAX_INV_HISTORY
		}
		if len(c.InvDone.History) != want {
			return fmt.Sprintf("entries stored: real %d, model %d", len(c.InvDone.History), m.Nums[0])
		}
		if want > 0 && want < network.MAX_INV_HISTORY {
			last := m.Blobs[len(m.Blobs)-1]
			if len(last) >= 16 {
				id := binary.LittleEndian.Uint64(last[8:16])
				if c.InvDone.History[want-1] != id {
					return "last stored inventory id differs"
				}
			}
		}
	case "getblocktxn":
		var reps []network.VerifMsg
		for _, x := range o.sentRaw {
			if x.Cmd == "blocktxn" {
				reps = append(reps, x)
			}
		}
		if m.Tag == "getblocktxn" {
			if len(reps) != 1 || (!s.run && len(o.sentRaw) != 1) {
				return "no blocktxn reply"
			}
			rp := reps[0].Pl
			// reply = hash, CompactSize(indexes_length as sent), the transactions
			if len(rp) < 33 || string(rp[:32]) != string(cs.payload()[:32]) {
				return "blocktxn reply names another block"
			}
		} else if len(reps) != 0 || (!s.run && len(o.Sent) != 0) {
			return "reply sent for an unknown block"
		}
	case "getheaders":
		if !in0(o.Sent, "headers:") {
			return "no headers reply"
		}
	case "headers", "addr", "getblocks", "tx", "block", "getmp", "xauth", "feefilter", "sendcmpct", "pong":
		if cs.Cmd == "feefilter" && m.Tag == "feefilter" && uint64(c.X.MinFeeSPKB) != m.Nums[0] {
			return "feefilter value differs"
		}
		if cs.Cmd == "sendcmpct" && m.Tag == "sendcmpct" && m.Nums[0] > 0 && c.Node.SendCmpctVer != m.Nums[0] && !cs.has("cv2") {
			return "sendcmpct version differs"
		}
	case "cmpctblock":
		if !accepted {
			return ""
		}
	case "blocktxn":
	case "getmpdone":
		if m.Tag == "getmpdone" && len(m.Nums) == 1 {
			switch {
			case m.Nums[0] == 0 && len(c.GetMP) != 0:
				return "getmpdone(no more) from the ticket's holder must end the getmp exchange (request still pending)"
			case m.Nums[0] == 1 && !(len(c.GetMP) == 1 && in0(o.Sent, "getmp:")):
				return "getmpdone(more) from the ticket's holder must send the next getmp and keep the request pending"
			}
		}
	case "authack":
		switch m.Tag {
		case "authack-unsigned":
			// no ban, no penalty points: the connection is simply ended
			if !s.st.Broken || s.st.Banit || o.Misbehave != 0 {
				return fmt.Sprintf("an unsigned authack must end the connection without a ban: broken=%v banit=%v misbehave=%d", s.st.Broken, s.st.Banit, o.Misbehave)
			}
			if s.run && (s.ro.PeerHungUp || !(s.st.Why == "UnsignedAuthAck" || strings.HasPrefix(s.st.Why, "SendErr"))) {
				return "an unsigned authack must make Run end the connection by itself (UnsignedAuthAck): why=" + s.st.Why
			}
		case "authack":
			if !c.X.AuthAckGot {
				return "a signed authack must set AuthAckGot"
			}
			if len(m.Nums) == 2 && m.Nums[0] == 1 && c.X.ChainSynchronized != (m.Nums[1] == 1) {
				return "ChainSynchronized differs from the first payload byte"
			}
			if s.run && !s.ro.PeerHungUp {
				return "a signed authack must not end the connection"
			}
		}
	}
	return ""
}

func in0(xs []string, prefix string) bool {
	for _, x := range xs {
		if strings.HasPrefix(x, prefix) {
			return true
		}
	}
	return false
}

func (h *Harness) compareWire(cs Case, s *stream, replay map[string]interface{}) {
	r := h.r
	o := s.o
	hk, vr := "0", "1"
	if cs.has("nover") {
		vr = "0"
	}
	m := parseModel(h.o.MustAsk(fmt.Sprintf("f 1 %s %s %s %s", hk, vr, vlib.Hex(common.Magic[:]), vlib.Hex(cs.payload()))))
	replay["model"] = m.RawRep
	pre := ""
	if s.run {
		pre = "run:"
	} else {
		r.Hit("model:fetch:" + m.Kind + ":" + m.Tag)
	}
	fail := func(why string) {
		r.TieFail(pre+"tie:fetch:"+m.Kind+":"+m.Tag, "FetchMessage ["+s.name()+" stream]: "+why+" (model: "+clip(m.RawRep)+"; real: "+o.Branch+" ban="+o.Ban+")", replay)
	}
	st := s.st
	switch m.Kind {
	case "panic":
		fail("model panics, real code does not")
		return
	case "reject":
		if m.Tag == "NetBadMagic" {
			if st.Why != "NetBadMagic" {
				fail("expected disconnect NetBadMagic, got " + st.Why)
				return
			}
		} else if o.Ban != m.Tag {
			fail("reject reason differs")
			return
		}
	case "ok":
		if s.run {
			// Run hands the fetched message on to its handler, which may refuse it for its own reasons:
			// only FetchMessage's own reject reasons must not appear when the model accepts the framing
			if m.Tag == "need-more" && o.Ban != "" {
				fail("model waits for more bytes, Run banned the peer")
				return
			}
			if m.Tag == "msg" && (o.Ban == "MsgBadChksum" || o.Ban == "MsgNoKey" || strings.HasPrefix(o.Ban, "Big-") && len(m.Blobs) > 0 && o.Ban == "Big-"+string(m.Blobs[0])) {
				fail("model accepts the first message, Run refused its framing")
				return
			}
			break
		}
		switch m.Tag {
		case "need-more":
			if !strings.HasPrefix(o.Branch, "fetched:0") || o.Ban != "" {
				fail("model waits for more bytes")
				return
			}
		case "msg":
			f := strings.Fields(o.Branch)
			want := fmt.Sprintf("%s:%d", string(m.Blobs[0]), m.Nums[0])
			if len(m.Blobs) > 0 && len(f) >= 2 && f[1] != want {
				fail("first message differs: want " + want)
				return
			}
			if len(f) < 2 {
				fail("no message fetched")
				return
			}
		}
	}
	r.TieOK()
}

func main() {
	switch os.Getenv("C18_CHILD") {
	case "":
	case "blocks":
		childBlocksMain()
		return
	default:
		childMain()
		return
	}
	r := vlib.NewRun("C18")
	if r.Replay != "" {
		r.Replay, _ = filepath.Abs(r.Replay)
	}
	// client/network dumps "<hash>.bin" files of refused compact blocks into the current directory:
	// run from a scratch directory so that nothing lands in /verif
	cwd := ""
	if d, err := os.MkdirTemp("", "vc18cwd"); err == nil {
		os.Chdir(d)
		cwd = d
	}
	e := NewEnv(r.Rng.Fork())
	rn := NewRunner(e)
	if os.Getenv("C18_PROBE") != "" {
		probe(e, rn)
		return
	}
	o, err := vlib.StartOracle("c18")
	if err != nil {
		fmt.Fprintln(os.Stderr, "cannot start oracle:", err)
		os.Exit(3)
	}
	h := &Harness{r: r, e: e, rn: rn, o: o, cwd: cwd}
	rn.TickBudget = r.N(30, 600)
	if r.Replay != "" {
		rn.TickBudget = 1000
	}
	r.Assume = []string{
		"stream 1 drives the real OneConnection.Run over a net.Pipe; the harness only (a) presets the protocol state on the fresh connection object for a part of the cases (the others do the version handshake, and for enc/trusted cases the xauth key exchange, through Run), (b) wakes the writing thread when Run announces its exit (network.VerifKickWriter; otherwise up to 10 ms idle wait per connection) and (c) re-initialises the connection object of a finished connection instead of allocating 16 MB per case (network.VerifRecycle: every field but the send ring); timer-driven paths of Tick (timeouts of headers / block downloads, pings) do not fire within a case's lifetime",
		"stream 2 calls the handlers through VerifDispatch (client/network/verif_export.go), a copy of Run's switch; gen_c18 compares the two switches clause by clause (source text after renaming cmd.pl/cmd.trusted/cmd) on every run and refuses to continue on a difference; the version gate in front of the switch is NOT part of that comparison (stream 1 covers it)",
		"what lies behind the parsing layer (peer database, header acceptance, mempool matching, block queue) runs for real in the harness but is NOT modelled; the model's verdict is compared up to the point where the backend decides",
		"client globals are initialised by the harness the way client/init.go + client/main.go do (synthetic easy-PoW chain from go/chainkit, empty mempool, temp-dir peers database)",
		"blocktxn / cmpctblock payloads are compared with the model up to 40000 bytes: the loops of the executable model are linear (csimp forms proved equal, Props.C18.fast_loops_agree), but C09's Wire.txSize measures the whole unread rest per transaction and the duplicate-short-id test is a list search; at the full size limit only the real code is run",
		"the peers database of the fulldb cases is a volatile qdb filled to exactly MaxPeersInDB+MaxPeersDeviation (±1) records through the public API; the two concurrent scenarios (child processes: getdata / inv / SendInvs against inv routing; every handler and Tick against a GetStats loop) observe only what the Go runtime itself detects (concurrent map access, deadlock) - they are not run under the race detector; the mempool-almost-full state of the getmp histories is set through the exported txpool.TransactionsToSendSize, and the special-peer time-outs are reached by handing Tick a clock up to 10 minutes ahead",
		"the slow-reader stream (stream 2 only) reaches SendRawMsg's overflow branch through real message histories for ping and getheaders (a peer that does not read), and for every other replying command by presetting the exported ring indices SendBufProd/SendBufCons to the state such a history leaves; replies throttled by SendingPaused (getdata) never fill the buffer by themselves",
		"the block-parsing child builds its own synthetic chain from the seed in its spec; a replay carries the input bytes and, for `block` messages, falls back to regenerating the case by index when the header is not one of that chain's",
		"getmp counts between 2^24 and 2^62 are kept out of the generated stream: ProcessGetMP passes the peer's count as size hint to make(map) (authorised peers only; an out-of-memory abort cannot be observed in-process)",
		"the harness initialises the configuration with InitConfig's defaults (except the values the scenarios need) and calls common.Reset() once, as InitConfig does; a configuration history changes one or two values per reload, drawn from a fixed table of run-time switches (Stat.NoCounters, TXPool.*, TXRoute.*, Net.MaxBlockAtOnce / ListenTCP / MaxInCons / MaxOutCons, Memory.CacheOnDisk, DropPeers.*, LastTrustedBlock); Memory.GCPercTrshold / MemoryLimitMB are never changed (they would reconfigure the harness's own garbage collector)",
		"Tick in the Run stream runs on Run's own clock (every PeerTickPeriod = 100 ms): the timeouts inside Tick (no data, version, block download, ping) are reached in the direct stream only, where the harness passes Tick a time up to 601 s ahead",
		"the trusted (signed) cases use a key pair of the harness whose public key is appended to network.AuthPubkeys; the node's own key pair is the harness's (common.SecretKey)",
	}

	if r.Replay != "" {
		var doc struct {
			Replay struct {
				Case Case `json:"case"`
				Lib  *LibCase `json:"lib"`
			} `json:"replay"`
		}
		b, err := os.ReadFile(r.Replay)
		if err != nil || json.Unmarshal(b, &doc) != nil {
			fmt.Fprintln(os.Stderr, "cannot read replay file")
			os.Exit(3)
		}
		if doc.Replay.Lib != nil {
			libOne(r, *doc.Replay.Lib)
		} else {
			h.One(doc.Replay.Case)
		}
		h.finish("replay of one recorded case", "replay", false)
	}

	lapT := time.Now()
	lap := func(what string) {
		if os.Getenv("C18_TIMES") != "" {
			fmt.Fprintf(os.Stderr, "TIME %-12s %6.1f s\n", what, time.Since(lapT).Seconds())
		}
		lapT = time.Now()
	}
	// 0. block parsing in a child process: a nil dereference in one of BuildTxList's worker goroutines
	//    kills the whole process, no recover() reaches it - it can only be observed from outside
	h.One(Case{Cmd: "@child", Note: "child", Child: &ChildSpec{Seed: r.Rng.Fork().U64(), Blocks: r.N(14, 120), Only: -1}})
	lap("child")
	// 1. corpus (edge inputs + the witnesses of the seven repaired defects)
	for _, cs := range Corpus(e) {
		h.One(cs)
	}
	// 1b. the consequence the in-progress count stands for: after a peer has abused a fresh header, an honest
	//     peer's complete compact block for the same header must still be taken
	h.wedgeScenario()
	h.corruptAssemblyScenario()
	// 2. old-guard witnesses: the model with the pre-fix guards must panic / leak on them (keeps the
	//    counterexample theorems tied to the oracle the harness uses)
	h.oldWitnesses()
	lap("corpus")
	// 3. generated
	gen := &Gen{e: e, g: r.Rng.Fork(), r: r}
	n := r.N(12000, 100000)
	for i := 0; i < n; i++ {
		cmd := Commands[gen.g.Intn(len(Commands))]
		cs := gen.Structured(cmd)
		h.One(cs)
		if gen.g.Chance(1, 3) {
			h.One(gen.Mutate(cs))
		}
		if i%8 == 0 {
			h.One(gen.Wire())
		}
	}
	lap("generated")
	// 3b. block / cmpctblock / blocktxn for blocks that carry the Trusted mark (operator's LastTrustedBlock,
	//     authorised peer, or left over from an earlier case), counts in disagreement with the data
	h.trustedBlocks(gen, r.N(220, 2500))
	lap("trusted")
	// 3c. configuration histories: the operator changes a run-time switch while the peer is connected,
	//     Tick runs in between, then any message
	h.cfgHistories(gen, r.N(8, 60))
	lap("cfg")
	// 3d. penalty histories with elapsed time: penalties earned by earlier messages, an hour (less, more, the
	//     16-bit wrap of the stored time) passing with the connection kept alive, the connection's Tick expiring
	//     the records, then any message
	h.rn.TickBudget += r.N(40, 600)
	h.penaltyHistories(gen, r.N(120, 1500))
	lap("age")
	// 4. boundary lengths: every command at 0..limit edges
	h.boundaries(gen)
	lap("boundaries")
	// 5. addr / getaddr against a peers database that is at its record limit
	h.fullDB(gen, r.N(400, 6000))
	// 5b. a peer that sends requests but does not read the replies (send buffer driven to its limit)
	lap("fulldb")
	h.slowReaders(gen, r.N(500, 6000), r.N(3, 12))
	lap("slow")
	// 6. a connection's thread against inv routing and statistics, in a child process
	for i := 0; i < r.N(1, 3); i++ {
		h.One(Case{Cmd: "@conc", Note: "conc", Conc: &ConcSpec{Seed: gen.g.U64(), Rounds: r.N(200000, 1500000)}})
	}
	// 6b. one connection's thread working through every handler (all generators + directed histories) against a
	//     GetStats loop, in a child process (stats.go)
	h.One(Case{Cmd: "@conc", Note: "conc:stats", Conc: &ConcSpec{Seed: gen.g.U64(), Rounds: r.N(6000, 60000), Mode: "stats"}})
	lap("conc")
	// 7. library entry points
	libFuzz(r, e, r.Rng.Fork(), r.N(4000, 80000))
	lap("lib")

	r.Extra["spare_headers_used"] = e.SpareIdx
	h.finish(ruleText, explText, false)
}

// wedgeScenario: connection A (through the real Run) announces a fresh block as a compact block with one
// unknown short id and answers the node's getblocktxn with a transaction that was not asked for - three
// times (Net.MaxBlockAtOnce); A is not even penalised. Then connection B delivers the complete compact
// block. The node must accept B's block (before the fix of ProcessBlockTxn the in-progress count stayed
// at the limit: B was ignored with CmpctBlockMaxInProg and GetBlockData never asked for the block).
func (h *Harness) wedgeScenario() {
	sp := h.e.NextSpare()
	if sp == nil {
		return
	}
	hash := btc.NewSha2Hash(sp[:80])
	txs := blockTxs(sp)
	other := blockTxs(h.e.Blocks[104])[1]
	cm := cmpctMsg(sp, 7, vint(1), [][]byte{{1, 2, 3, 4, 5, 6}}, vint(1), []prefilled{{vint(0), txs[0]}})
	bt := cat(hash.Hash[:], vint(1), other)
	var seq []Msg
	for i := 0; i < int(common.CFG.Net.MaxBlockAtOnce); i++ {
		seq = append(seq, Msg{"cmpctblock", H(cm)}, Msg{"blocktxn", H(bt)})
	}
	a := Case{Cmd: "ping", Pl: "0102030405060708", Pre: "cv2", Seq: seq, Note: "W:blocktxn-inprogress-wedge"}
	_, roA, _ := h.rn.DoRun(a)
	full := cmpctMsg(sp, 9, vint(0), nil, vint(1), []prefilled{{vint(0), txs[0]}})
	b := Case{Cmd: "cmpctblock", Pl: H(full), Pre: "cv2", Note: "W:blocktxn-inprogress-wedge"}
	oB, _, _ := h.rn.DoRun(b)
	network.MutexRcv.Lock()
	_, rcvd := network.ReceivedBlocks[hash.BIdx()]
	network.MutexRcv.Unlock()
	queued := len(network.NetBlocks)
	housekeeping()
	h.r.Eval("run:scenario", "wedge")
	h.r.Hit("scenario:abused-header-then-honest-peer")
	if !rcvd || queued == 0 {
		h.r.PropFail("blocktxn-inprogress-wedge", fmt.Sprintf("after one connection sent cmpctblock + blocktxn(with a transaction that was not asked for) %d times for a fresh header (in-progress sum afterwards %d), a complete compact block for that header from another connection is not accepted (received=%v queued=%d ban=%q): the node can no longer fetch this block",
			len(seq)/2, roA.InProgress, rcvd, queued, oB.Ban), map[string]interface{}{"case": a, "then": b})
	} else {
		h.r.TieOK()
	}
}

// corruptAssemblyScenario: connection A makes the node assemble a corrupt copy of a fresh block from a
// compact block (variant "A": everything prefilled, the coinbase is another block's; variant "B": the wrong
// coinbase prefilled, one transaction asked for with getblocktxn and supplied correctly, so the corrupt
// assembly happens in ProcessBlockTxn). A is not penalised by the code. Then connection B delivers the
// full, correct block: B must not be penalised and the block must be taken (before the fix the block
// object kept A's transaction list and B was banned with BadBlock).
func (h *Harness) corruptAssemblyScenario() {
	for _, variant := range []string{"A", "B"} {
		var sp []byte
		var txs [][]byte
		if variant == "A" {
			sp = h.e.NextSpare()
		} else {
			// a block with two transactions on the tip
			if len(h.e.Spare2) == 0 {
				continue
			}
			sp = h.e.Spare2[0]
			h.e.Spare2 = h.e.Spare2[1:]
		}
		if sp == nil {
			continue
		}
		txs = blockTxs(sp)
		hash := btc.NewSha2Hash(sp[:80])
		wrongcb := blockTxs(h.e.Blocks[50])[0]
		var a Case
		if variant == "A" {
			pf := []prefilled{{vint(0), wrongcb}}
			for _, t := range txs[1:] {
				pf = append(pf, prefilled{vint(0), t})
			}
			cm := cmpctMsg(sp, 31, vint(0), nil, vint(uint64(len(pf))), pf)
			a = Case{Cmd: "cmpctblock", Pl: H(cm), Pre: "cv2", Note: "W:cmpctblock-corrupt-assembly-then-honest"}
		} else {
			var th btc.Uint256
			wt, _ := btc.NewTx(txs[1])
			wt.SetHash(txs[1])
			th = *wt.WTxID()
			sid := shortID(sp, 32, th.Hash[:])
			cm := cmpctMsg(sp, 32, vint(1), [][]byte{sid}, vint(1), []prefilled{{vint(0), wrongcb}})
			bt := cat(hash.Hash[:], vint(1), txs[1])
			a = Case{Cmd: "blocktxn", Pl: H(bt), Pre: "cv2", Seq: []Msg{{"cmpctblock", H(cm)}}, Note: "W:cmpctblock-corrupt-assembly-then-honest"}
		}
		oA, _, _ := h.rn.DoRun(a)
		housekeeping()
		b := Case{Cmd: "block", Pl: H(sp), Note: "W:cmpctblock-corrupt-assembly-then-honest"}
		oB, _, _ := h.rn.DoRun(b)
		network.MutexRcv.Lock()
		_, rcvd := network.ReceivedBlocks[hash.BIdx()]
		network.MutexRcv.Unlock()
		housekeeping()
		h.r.Eval("run:scenario", "corrupt-assembly-"+variant)
		h.r.Hit("scenario:corrupt-assembly-" + variant + "-then-honest-peer")
		if oA.Panic != "" || oB.Panic != "" || len(oA.Locks)+len(oB.Locks) > 0 {
			h.r.PropFail("cmpctblock-corrupt-assembly-then-honest", fmt.Sprintf("corrupt compact-block assembly (%s): panic / lock: %q %q %v %v", variant, oA.Panic, oB.Panic, oA.Locks, oB.Locks), map[string]interface{}{"case": a, "then": b})
			continue
		}
		if oB.Ban != "" || oB.Misbehave != 0 || !rcvd {
			h.r.PropFail("cmpctblock-corrupt-assembly-then-honest-"+variant, fmt.Sprintf("after connection A made the node assemble a corrupt copy of a fresh block (variant %s; A: ban=%q misbehave=%d), connection B delivered the full correct block and was penalised for it (ban=%q misbehave=%d, block received=%v): bytes from one peer make the node ban another, honest one",
				variant, oA.Ban, oA.Misbehave, oB.Ban, oB.Misbehave, rcvd), map[string]interface{}{"case": a, "then": b})
		} else {
			h.r.TieOK()
		}
	}
}

func (h *Harness) oldWitnesses() {
	type w struct{ cmd, pl, wantKind, wantLocks string; ntx int }
	v82 := make([]byte, 82)
	v82[80] = 2
	ws := []w{
		{"version", H(v82), "panic", "c.Mutex", -1},
		{"inv", H(cat(vintForm((1<<62)+1, 9), make([]byte, 36))), "panic", "-", -1},
		{"inv", H(cat(vintForm(wrapCount(36, 40), 9), make([]byte, 40))), "panic", "c.Mutex", -1},
		{"getblocktxn", H(cat(make([]byte, 32), vint(1), vintForm(1<<63, 9))), "panic", "-", 5},
	}
	for _, x := range ws {
		req := fmt.Sprintf("h 0 %s %d 0 0 0 -1 0 %s", x.cmd, x.ntx, x.pl)
		m := parseModel(h.o.MustAsk(req))
		if m.Kind != x.wantKind || m.Locks != x.wantLocks {
			h.r.TieFail("oldmodel:"+x.cmd, "pre-fix model no longer reproduces the witness: "+m.RawRep, map[string]interface{}{"cmd": x.cmd, "pl": x.pl})
		} else {
			h.r.TieOK()
			h.r.Hit("oldmodel:witness-reproduced")
		}
	}
}

// boundaries: payload lengths around every guard constant and at the per-command limit.
func (h *Harness) boundaries(gen *Gen) {
	lens := []int{0, 1, 3, 4, 5, 8, 9, 32, 33, 34, 36, 37, 79, 80, 81, 82, 83, 86, 88, 89, 90, 91, 99, 100, 101}
	for _, cmd := range Commands {
		max := int(network.VerifMaxMsgSize(cmd))
		ls := append([]int{}, lens...)
		big := max
		if cmd == "blocktxn" || cmd == "cmpctblock" {
			// the executable model of these two loops re-slices the payload per element (quadratic in
			// Lean lists); the real code is run at the full limit, the model compared up to 40000 bytes
			big = 40000
		}
		if h.r.Thorough() || max <= 200000 {
			ls = append(ls, big-1, big)
			if big != max {
				for _, fill := range []byte{0x00, 0xfd} {
					pl := make([]byte, max)
					for i := range pl {
						pl[i] = fill
					}
					o := h.rn.Do(Case{Cmd: cmd, Pl: hex.EncodeToString(pl), Note: "boundary-real-only"})
					h.r.Eval("cmd:"+cmd, fmt.Sprint(cmd, "max", fill))
					h.r.Hit("boundary:real-only-at-limit")
					if o.Panic != "" || len(o.Locks) > 0 || o.Hang || o.Ms > 4000 {
						h.r.PropFail(cmd+":limit", fmt.Sprintf("%s at the size limit: panic=%q locks=%v ms=%.0f", cmd, o.Panic, o.Locks, o.Ms), map[string]interface{}{"case": Case{Cmd: cmd, Pl: fmt.Sprintf("%02x", fill), Note: "repeat the byte to the size limit"}})
					}
					housekeeping()
				}
			}
		}
		for _, n := range ls {
			if n < 0 || n > max {
				continue
			}
			for _, fill := range []byte{0x00, 0xff, 0x01, 0xfd} {
				pl := make([]byte, n)
				for i := range pl {
					pl[i] = fill
				}
				if cmd == "getmp" {
					pl = capHugeCount(pl)
				}
				pre := ""
				if cmd == "version" {
					pre = "nover"
				}
				if cmd == "getmp" {
					pre = "auth"
				}
				h.One(Case{Cmd: cmd, Pl: hex.EncodeToString(pl), Pre: pre, Note: "boundary"})
			}
		}
	}
}

func probe(e *Env, rn *Runner) {
	if os.Getenv("C18_PROBE") == "run" {
		// a few cases through the real Run, printed (development aid)
		cases := []Case{
			{Cmd: "ping", Pl: "0102030405060708", Note: "probe"},
			{Cmd: "ping", Pl: "01020304050607", Note: "probe"},
			{Cmd: "authack", Pl: "", Note: "probe"},
			{Cmd: "authack", Pl: "01", Note: "probe"},
			{Cmd: "authack", Pl: "01", Pre: "enc", Note: "probe"},
			{Cmd: "authack", Pl: "01", Pre: "trusted", Note: "probe"},
			{Cmd: "authack", Pl: "", Pre: "trusted", Note: "probe"},
			{Cmd: "getmp", Pl: "00", Pre: "trusted", Note: "probe"},
			{Cmd: "authack", Pl: "01", Pre: "nover", Note: "probe"},
			{Cmd: "version", Pl: H(peerVersion(99999)), Pre: "nover", Note: "probe"},
			{Cmd: "inv", Pl: "00", Note: "probe"},
		}
		for _, cs := range cases {
			o, ro, _ := rn.DoRun(cs)
			b, _ := json.Marshal(o)
			b2, _ := json.Marshal(ro)
			fmt.Println(cs.Cmd, cs.Pl, cs.Pre, string(b), string(b2))
		}
		return
	}
	if os.Getenv("C18_PROBE") == "stale" {
		sp := e.NextSpare()
		hash := btc.NewSha2Hash(sp[:80])
		wrongcb := blockTxs(e.Blocks[50])[0]
		cm := cmpctMsg(sp, 7, vint(0), nil, vint(1), []prefilled{{vint(0), wrongcb}})
		o, ro, _ := rn.DoRun(Case{Cmd: "cmpctblock", Pl: H(cm), Pre: "cv2", Note: "probe"})
		b, _ := json.Marshal(o)
		b2, _ := json.Marshal(ro)
		fmt.Println("A (corrupt assembly):", string(b), string(b2))
		for i := 0; i < 2; i++ {
			o, _, _ = rn.DoRun(Case{Cmd: "block", Pl: H(sp), Note: "probe"})
			b, _ = json.Marshal(o)
			network.MutexRcv.Lock()
			_, rcvd := network.ReceivedBlocks[hash.BIdx()]
			network.MutexRcv.Unlock()
			fmt.Println("honest full block, attempt", i+1, ":", string(b), "received:", rcvd)
		}
		return
	}
	if os.Getenv("C18_PROBE") == "inprog" {
		sp := e.NextSpare()
		hash := btc.NewSha2Hash(sp[:80])
		txs := blockTxs(sp)
		other := blockTxs(e.Blocks[104])[1]
		cm := cmpctMsg(sp, 7, vint(1), [][]byte{{1, 2, 3, 4, 5, 6}}, vint(1), []prefilled{{vint(0), txs[0]}})
		bt := cat(hash.Hash[:], vint(1), other)
		inprog := func() uint32 {
			network.MutexRcv.Lock()
			defer network.MutexRcv.Unlock()
			if b := network.BlocksToGet[hash.BIdx()]; b != nil {
				return b.InProgress
			}
			return 99999
		}
		seq := []Msg{}
		for i := 0; i < 3; i++ {
			seq = append(seq, Msg{"cmpctblock", H(cm)}, Msg{"blocktxn", H(bt)})
		}
		o, ro, _ := rn.DoRun(Case{Cmd: "ping", Pl: "0102030405060708", Pre: "cv2", Seq: seq, Note: "probe"})
		b, _ := json.Marshal(o)
		b2, _ := json.Marshal(ro)
		fmt.Println("attacker:", string(b), string(b2), "InProgress of the block now:", inprog())
		// an honest peer now delivers the complete compact block
		full := cmpctMsg(sp, 9, vint(0), nil, vint(1), []prefilled{{vint(0), txs[0]}})
		o, ro, _ = rn.DoRun(Case{Cmd: "cmpctblock", Pl: H(full), Pre: "cv2", Note: "probe"})
		b, _ = json.Marshal(o)
		network.MutexRcv.Lock()
		_, rcvd := network.ReceivedBlocks[hash.BIdx()]
		network.MutexRcv.Unlock()
		fmt.Println("honest:", string(b), "block received:", rcvd, "InProgress:", inprog(), "queued blocks:", len(network.NetBlocks))
		return
	}
	for _, cs := range Corpus(e) {
		o := rn.Do(cs)
		if o.Panic != "" || len(o.Locks) > 0 || o.Hang || os.Getenv("C18_PROBE") == "all" {
			b, _ := json.Marshal(o)
			fmt.Println(cs.Note, cs.Cmd, len(cs.Pl)/2, string(b))
		}
	}
}
